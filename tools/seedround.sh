#!/bin/bash
# tools/seedround.sh <outdir-root> <Cxx>...  — evaluate seeds 1..3 of each property sequentially per property (properties in parallel), keep confirmed ones with suffix from root name
ROOT=$1; shift
for p in "$@"; do
  ( for i in 1 2 3; do
      d=$ROOT/$p/$i
      [ -f $d/patch.diff ] || continue
      /verif/tools/seedeval.py $d > /var/tmp/seedeval-$(basename $ROOT)-$p-$i.log 2>&1
    done ) &
done
wait
