#!/bin/bash
# tools/soak.sh <seeds...>  — run every registered check's quick tier for each seed; print one line per run; list non-zero exits at the end
cd "$(dirname "$0")/.."
BAD=0
for s in "$@"; do
  for p in $(python3 -c "import json;print(' '.join(json.load(open('ready.json'))))"); do
    out=$(VERIF_SEED=$s ./check $p quick 2>&1)
    rc=$?
    echo "seed=$s $p rc=$rc $(echo "$out" | tail -1)"
    if [ $rc -ne 0 ]; then BAD=1; echo "$out" | grep -E "VIOLATION|key=|INCONCLUSIVE" | cut -c1-400; fi
  done
done
exit $BAD
