#!/usr/bin/env python3
"""prints the prompt for an independent 'seeded breakage' sub-agent for property <id> (gets only the property text)"""
import json, sys
pid = sys.argv[1]
n = sys.argv[2] if len(sys.argv) > 2 else "3"
rnd = sys.argv[3] if len(sys.argv) > 3 else ""  # round letter ("b", "c", ...): own worktree/out dir + list of changes already taken
for l in open('/verif/properties.jsonl'):
    p = json.loads(l)
    if p['id'] == pid:
        break
low = pid.lower()
import io, contextlib
buf = io.StringIO()
with contextlib.redirect_stdout(buf):
  print(f"""You are an independent adversary for a verification study of the Go project tunnox-core (an intranet-penetration / port-mapping tunnel platform: server and client, TCP/WS/KCP/QUIC transports, custom packet framing, session management, Redis-backed cross-node forwarding). Your job: produce {n} DIFFERENT realistic source changes ("seeded defects"), each of which on its own breaks the semantic property below while the project still compiles and its existing test suite still passes.

PROPERTY {pid} — {p['title']}
{p['statement']}
It must hold: {p['quantifier']['text']}

Rules:
* Work ONLY in your own scratch git worktree: create it with `git -C /repo worktree add --detach /tmp/seed-{low} HEAD` and work inside /tmp/seed-{low}. Never edit /repo itself. Do NOT read or use anything under /verif (your work must be independent of the verification machinery). Environment for go: `export GOFLAGS=-mod=mod GOPROXY=off` (no network; do not set GOSUMDB=off). Read the code of tunnox-core in your worktree to find where the property is implemented.
* Each change must be the kind of edit a developer could plausibly make (a refactor slip, a wrong boundary, a dropped guard, a reordered step, two cooperating sites that each look fine alone, an optimisation that is subtly wrong) — not sabotage that ordinary use or the existing tests would expose at once. Prefer changes that need something SPECIFIC to manifest: a particular interleaving, a crash or fault at a particular point, a multi-step sequence of operations, an unusual input (a magic length, a boundary value), or a particular configuration. The {n} changes must differ in mechanism and location.
* For each change i=1..{n} create the directory /tmp/seed-out/{pid}/<i>/ containing: `patch.diff` (output of `git diff` in the worktree with ONLY that change applied, relative to HEAD, applicable with `git apply`); a demonstration — a Go test file (say where it must be placed, e.g. internal/stream/zz_demo_test.go, package name included) or a small program — that FAILS with the change and PASSES without it; and `meta.json` with keys: property ("{pid}"), summary (one paragraph: what was changed and why it breaks the property), needs_to_manifest (what specific input / interleaving / fault / sequence / configuration is required), demo_path (where the demo file goes in the tree), demo_cmd (exact command that runs it), existing_tests_run (the exact `go test` commands you ran with the change applied and that they passed).
* With each change applied (alone) you must verify: `go build ./...` succeeds; the existing tests of every package you touched and of the packages that import them pass (`go test -count=1 ./internal/<pkg>/...`; also run `go test -count=1 ./internal/protocol/... ./internal/stream/... ./internal/client/... ./internal/cloud/... ./internal/core/... ./internal/command/... ./internal/security/... ./internal/app/... ./internal/httpservice/...` once per change if it finishes within ~10 minutes — some packages are slow, be patient); the demonstration fails with the change and passes on the unchanged tree (run both and record it). Reset the worktree between changes (`git checkout -- . && git clean -fd`) and make sure each patch.diff contains only its own change (no demo files in the patch).
* When done, remove your worktree: `git -C /repo worktree remove --force /tmp/seed-{low}` (keep /tmp/seed-out/{pid}/).

Final message: for each change a 3-line summary (what, where, what it needs to manifest) and confirmation of the three verifications.""")

text = buf.getvalue()
if rnd:
    import glob
    text = text.replace('/tmp/seed-out/', '/tmp/seed-out-%s/' % rnd).replace('/tmp/seed-%s' % low, '/tmp/seed%s-%s' % (rnd, low))
    taken = []
    for f in sorted(glob.glob('/verif/seeded/%s-*/meta.json' % pid)):
        m = json.load(open(f))
        taken.append('- ' + (m.get('summary', '') or '')[:330].replace('\n', ' '))
    text += """

ALREADY TAKEN — other adversaries have produced the following changes for this property; yours must differ from ALL of them in mechanism and preferably in location (do not re-use these ideas):
""" + '\n'.join(taken) + """

Additional notes: never use `git stash` (worktrees share the stash); skip the known-slow test TestClientConfigRepository_MillionConfigs (go test -skip) and ignore the tests that already fail or flake on the unchanged tree (TestBuiltInCloudControl_AuthenticationWithJWT, TestPortMappingRepository_LargeScale, TestManager_ContextCancellation). demo_cmd in meta.json must be a plain shell command without trailing remarks. Do not read anything under /verif and do not run any git command inside /verif. Favour changes that need a specific interleaving, fault, configuration, multi-step history or boundary input — and changes in parts of the code the property depends on that the earlier adversaries did not touch (other call paths, other backends/transports, other configurations, error/retry paths, start-up/restart paths).
"""
print(text)
