#!/bin/bash
# Runs /repo's pinned baseline test suite with the verif guard OFF and compares with BASELINE.json stable_pass.
# usage: tools/baseline.sh [repo_dir] [pkg pattern...]   (default /repo ./...)
REPO=${1:-/repo}; shift
PKGS=${@:-./...}
export GOFLAGS=-mod=mod GOPROXY=off
OUT=$(mktemp /var/tmp/baseline.XXXXXX.json)
(cd $REPO && go test -mod=mod -json -vet=off -count=1 -timeout 25m $PKGS) > $OUT 2>/dev/null
python3 - "$OUT" "$PKGS" <<'PY'
import json,sys
out=sys.argv[1]; pk=sys.argv[2]
res={}
for l in open(out,errors='replace'):
    try: e=json.loads(l)
    except Exception: continue
    if e.get('Test') and e.get('Action') in('pass','fail','skip'):
        res[e['Package']+'::'+e['Test']]=e['Action']
b=json.load(open('/root/.vp/BASELINE.json'))
stable=b['stable_pass']
pkgs=set(k.split('::')[0] for k in res)
want=[s for s in stable if (pk=='./...' or s.split('::')[0] in pkgs)]
bad=[s for s in want if res.get(s)!='pass']
print("ran",len(res),"tests; baseline stable in scope",len(want),"; not passing:",len(bad))
for s in bad[:50]: print("  NOT-PASS",s,res.get(s))
sys.exit(1 if bad else 0)
PY
rc=$?
rm -f $OUT
# restore emptied binaries possibly touched; make sure go.sum untouched
git -C $REPO status --short | head
exit $rc
