#!/usr/bin/env python3
"""tools/seedregress.py [-j N] [sid ...]  — re-run the quick check of every kept seeded change (or the named ones) against
/repo HEAD + its patch in a scratch worktree; writes seeded/<sid>/recheck.json and prints one line per seed.
Never touches /repo's working tree."""
import json, os, subprocess, sys, shutil, re, time, hashlib
from concurrent.futures import ThreadPoolExecutor

ROOT = "/verif/seeded"
env = dict(os.environ, GOFLAGS="-mod=mod", GOPROXY="off")
env.pop("GOSUMDB", None)


def sh(cmd, cwd=None, timeout=3600, e=None):
    p = subprocess.run(cmd, shell=True, cwd=cwd, env=e or env, stdout=subprocess.PIPE, stderr=subprocess.STDOUT, text=True, timeout=timeout)
    return p.returncode, p.stdout


def one(sid):
    d = os.path.join(ROOT, sid)
    meta = json.load(open(os.path.join(d, "meta.json")))
    prop = meta["property"]
    wt = "/var/tmp/sr-" + sid.lower()
    res = {"sid": sid, "property": prop}
    sh("git -C /repo worktree remove --force %s" % wt)
    shutil.rmtree(wt, ignore_errors=True)
    rc, out = sh("git -C /repo worktree add --detach %s HEAD" % wt)
    if rc != 0:
        res["error"] = "worktree: " + out[-200:]
        return res
    try:
        res["head"] = sh("git -C /repo rev-parse --short HEAD")[1].strip()
        rc, out = sh("git apply %s" % os.path.join(d, "patch.diff"), cwd=wt)
        if rc != 0:
            rc, out2 = sh("git apply --3way %s" % os.path.join(d, "patch.diff"), cwd=wt)
            if rc != 0:
                res["error"] = "patch does not apply to HEAD: " + out[-200:]
                return res
        rc, out = sh("go build ./...", cwd=wt)
        if rc != 0:
            res["error"] = "build: " + out[-200:]
            return res
        t0 = time.time()
        p = subprocess.run(["/verif/check", prop, meta.get("check_tier", "quick")], cwd="/verif", env=dict(env, VERIF_REPO=wt), stdout=subprocess.PIPE, stderr=subprocess.STDOUT, text=True, timeout=7200)
        res["check_exit"] = p.returncode
        res["verdict"] = {0: "MISSED", 1: "DETECTED", 2: "INCONCLUSIVE"}.get(p.returncode, str(p.returncode))
        res["keys"] = sorted(set(re.findall(r"key=(\S+)", p.stdout)))[:8]
        res["wall_s"] = round(time.time() - t0, 1)
        if p.returncode == 2:
            res["tail"] = p.stdout[-400:]
    finally:
        sh("git -C /repo worktree remove --force %s" % wt)
        shutil.rmtree(wt, ignore_errors=True)
        t = hashlib.sha1(wt.encode()).hexdigest()[:10]
        for x in ("/verif/.run/" + t, "/verif/.run/mod-" + t, "/verif/.bin/" + t):
            shutil.rmtree(x, ignore_errors=True)
        json.dump(res, open(os.path.join(d, "recheck.json"), "w"), indent=1)
    return res


args = sys.argv[1:]
j = 4
if args[:1] == ["-j"]:
    j = int(args[1]); args = args[2:]
sids = args or sorted(x for x in os.listdir(ROOT) if os.path.isdir(os.path.join(ROOT, x)))
# one property at a time per worker: group by property so that two runs of the same check never overlap
groups = {}
for s in sids:
    groups.setdefault(s.split("-")[0], []).append(s)


def grp(ss):
    out = []
    for s in ss:
        try:
            r = one(s)
        except Exception as ex:
            r = {"sid": s, "error": repr(ex)[:200]}
        print(json.dumps({k: r.get(k) for k in ("sid", "verdict", "error", "wall_s", "keys")})[:300], flush=True)
        out.append(r)
    return out


with ThreadPoolExecutor(max_workers=j) as ex:
    allr = [r for rs in ex.map(grp, groups.values()) for r in rs]
bad = [r for r in allr if r.get("verdict") != "DETECTED"]
print("SUMMARY %d seeds, %d not detected: %s" % (len(allr), len(bad), " ".join(r["sid"] for r in bad)))
