#!/bin/bash
# tools/thorough_all.sh <Cxx...> — run thorough tier for the given properties sequentially
cd "$(dirname "$0")/.."
for p in "$@"; do
  s=$(date +%s)
  out=$(./check $p thorough 2>&1); rc=$?
  echo "$p rc=$rc $(( $(date +%s) - s ))s $(echo "$out" | tail -1)"
  if [ $rc -ne 0 ]; then echo "$out" | grep -E "VIOLATION|key=|INCONCLUSIVE" | cut -c1-500; fi
done
