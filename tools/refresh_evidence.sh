#!/bin/bash
# tools/refresh_evidence.sh [Cxx...] — run the quick tier of every (or the given) check on /repo with VERIF_SEED=1,
# so that the committed evidence/*.json all come from the same kind of run; prints one line per check
cd "$(dirname "$0")/.."
P="$@"; [ -z "$P" ] && P=$(python3 -c "import json; print(' '.join(sorted(json.load(open('ready.json')))))" 2>/dev/null)
[ -z "$P" ] && P="C01 C02 C03 C04 C05 C06 C07 C08 C09 C10 C11 C12 C13 C14 C15 C16 C17 C18 C19 C20"
rc_all=0
for p in $P; do
  out=$(VERIF_SEED=1 ./check $p quick 2>&1); rc=$?
  echo "$p rc=$rc $(echo "$out" | tail -1)"
  [ $rc -ne 0 ] && { rc_all=1; echo "$out" | grep -E "VIOLATION|key=|INCONCLUSIVE" | cut -c1-400; }
done
exit $rc_all
