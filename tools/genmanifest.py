#!/usr/bin/env python3
"""MANIFEST.json is generated from checks.json (single source of truth for the driver and the manifest)."""
import json, subprocess
import glob
READY = set(json.load(open('/verif/ready.json')))
cfg = {}
for f in sorted(glob.glob('/verif/harness/c[0-9][0-9]/check.json')):
    for k, v in json.load(open(f)).items():
        if k in READY:
            cfg[k] = v
props = [json.loads(l) for l in open('/verif/properties.jsonl')]
try:
    na_reasons = json.load(open('/verif/not_applicable.json'))
except OSError:
    na_reasons = {}
hooks = json.load(open('/verif/hooks.json'))
checks = []
for p in props:
    i = p['id']
    if i not in cfg:
        continue
    c = cfg[i]
    checks.append({
        "property_id": i,
        "quick_cmd": "./check %s quick" % i,
        "thorough_cmd": "./check %s thorough" % i,
        "evidence_file": "/verif/evidence/%s.json" % i,
        "replay_cmd_template": "./check %s --replay {path}" % i,
        "engine": c.get("engine", "rapid"),
        "level_claimed": {"category": c["level"], "text": c.get("level_text", ""), "design_ref": c.get("design_ref", "DESIGN.md §3 " + i)},
        "level_note": c.get("level_note", "; ".join(c.get("assumptions", []))),
        "technique": c.get("technique", "property-based testing (rapid) with explicit oracle"),
    })
na = [{"property_id": p['id'], "reason": na_reasons.get(p['id'], "check not built yet in this session (planned, see DESIGN.md §3 %s)" % p['id'])}
      for p in props if p['id'] not in cfg]
m = {
    "version": 1,
    "setup_cmd": "./check --build-all",
    "hooks": hooks,
    "engines": [
        {"name": "rapid", "path": "/verif/harness", "serves_properties": sorted(cfg), "kind_free_text": "pgregory.net/rapid v1.3.0 properties and state machines, sharded over processes by seed; enumerating generators; gate scheduler (schedule = rapid-drawn or DFS-enumerated pick sequence); contention harness; native go fuzz in the thorough tier"},
    ],
    "checks": checks,
    "notes": "All checks are driven by /verif/check (python3 driver): builds the harness test binary for the property against /repo's working tree (-tags verif, private -modfile), runs shards, merges evidence. exit 2 = inconclusive.",
    "not_applicable": na,
}
json.dump(m, open('/verif/MANIFEST.json', 'w'), indent=1, ensure_ascii=False)
print("MANIFEST.json: %d checks, %d not_applicable" % (len(checks), len(na)))
