#!/usr/bin/env python3
"""Evaluate one seeded change: tools/seedeval.py <dir with patch.diff, meta.json, demo> [--tier quick|thorough] [--full-suite]
 1. fresh worktree of /repo HEAD: demo must PASS on the unchanged tree
 2. apply patch: build must succeed, demo must FAIL, existing tests of touched packages (or the full suite) must pass
 3. run the property's check against the worktree (VERIF_REPO) and report verdict
Prints a JSON summary; never touches /repo's working tree."""
import json, os, subprocess, sys, shutil, re, time

d = os.path.abspath(sys.argv[1])
tier = "quick"
if "--tier" in sys.argv:
    tier = sys.argv[sys.argv.index("--tier") + 1]
full = "--full-suite" in sys.argv
meta = json.load(open(os.path.join(d, "meta.json")))
prop = meta["property"]
tag = prop.lower() + "-" + os.path.basename(d.rstrip("/"))
wt = "/tmp/se-" + tag
env = dict(os.environ, GOFLAGS="-mod=mod", GOPROXY="off")
env.pop("GOSUMDB", None)


def sh(cmd, cwd=None, timeout=3600):
    p = subprocess.run(cmd, shell=True, cwd=cwd, env=env, stdout=subprocess.PIPE, stderr=subprocess.STDOUT, text=True, timeout=timeout)
    return p.returncode, p.stdout


res = {"dir": d, "property": prop}
sh("git -C /repo worktree remove --force %s" % wt)
shutil.rmtree(wt, ignore_errors=True)
rc, out = sh("git -C /repo worktree add --detach %s HEAD" % wt)
if rc != 0:
    print(json.dumps({"error": "worktree: " + out[-300:]}))
    sys.exit(2)
try:
    demo_files = [f for f in os.listdir(d) if f not in ("patch.diff", "meta.json", "README.md", "eval.json") and not f.endswith(".log")]
    demo_path = (meta.get("demo_path", "") or "").split(" (")[0].split()[0] if meta.get("demo_path") else ""
    demo_files = [f for f in demo_files if f.endswith(".go") or os.path.isdir(os.path.join(d, f))]
    placed = []
    if demo_path:
        src = None
        for f in demo_files:
            if os.path.basename(demo_path) == f:
                src = f
        if src is None and len(demo_files) == 1:
            src = demo_files[0]
        if src is None and demo_files:
            src = sorted(demo_files)[0]
        if src:
            dst = os.path.join(wt, demo_path)
            if os.path.isdir(os.path.join(d, src)):
                shutil.copytree(os.path.join(d, src), dst, dirs_exist_ok=True)
            else:
                os.makedirs(os.path.dirname(dst), exist_ok=True)
                shutil.copy(os.path.join(d, src), dst)
            placed.append(dst)
    demo_cmd = meta.get("demo_cmd", "")
    demo_cmd = re.sub(r"/tmp/seed-c\d+", wt, demo_cmd)
    demo_cmd = re.sub(r"^cd \S+ && ", "", demo_cmd)
    rc0, out0 = sh(demo_cmd, cwd=wt, timeout=900)
    res["demo_on_unchanged"] = "pass" if rc0 == 0 else "FAIL"
    if "no tests to run" in out0 or "no test files" in out0:
        res["demo_on_unchanged"] = "NOT-RUN (no tests matched) " + out0[-200:]
    if rc0 != 0:
        res["demo_unchanged_tail"] = out0[-600:]
    rc, out = sh("git apply %s" % os.path.join(d, "patch.diff"), cwd=wt)
    if rc != 0:
        rc, out2 = sh("git apply --3way %s" % os.path.join(d, "patch.diff"), cwd=wt)
        if rc != 0:
            res["error"] = "patch does not apply to HEAD (even with --3way): " + out[-300:]
            raise RuntimeError("patch")
        res["note"] = "applied with --3way (HEAD moved since the seed was made)"
    rc, out = sh("go build ./...", cwd=wt)
    res["build"] = "ok" if rc == 0 else "FAIL " + out[-300:]
    rc1, out1 = sh(demo_cmd, cwd=wt, timeout=900)
    res["demo_with_change"] = "fail (as required)" if rc1 != 0 else "PASSES (demo does not detect the change)"
    # existing tests
    for p in placed:
        if os.path.isdir(p):
            shutil.rmtree(p)
        else:
            os.remove(p)
    rc, out = sh("git diff --name-only", cwd=wt)
    pkgs = sorted(set("./" + os.path.dirname(f) + "/..." for f in out.split() if f.endswith(".go")))
    if full:
        t0 = time.time()
        rc, out = sh("/verif/tools/baseline.sh %s" % wt, timeout=3600)
        res["existing_suite"] = ("pass" if rc == 0 else "FAIL") + " (full baseline, %.0fs) " % (time.time() - t0) + out[-300:].replace("\n", " | ")
    else:
        rc, out = sh("go test -count=1 -vet=off -skip 'TestClientConfigRepository_MillionConfigs|TestPortMappingRepository_LargeScale|TestBuiltInCloudControl_AuthenticationWithJWT|TestManager_ContextCancellation' %s" % " ".join(pkgs), cwd=wt, timeout=1800)
        res["existing_tests_touched_pkgs"] = ("pass" if rc == 0 else "FAIL " + out[-400:]) + " :: " + " ".join(pkgs)
    # the check
    t0 = time.time()
    e2 = dict(env, VERIF_REPO=wt)
    p = subprocess.run(["/verif/check", prop, tier], cwd="/verif", env=e2, stdout=subprocess.PIPE, stderr=subprocess.STDOUT, text=True, timeout=7200)
    keys = re.findall(r"key=(\S+)", p.stdout)
    res["check_exit"] = p.returncode
    res["check_verdict"] = {0: "MISSED (exit 0)", 1: "DETECTED", 2: "INCONCLUSIVE"}.get(p.returncode, str(p.returncode))
    res["check_keys"] = sorted(set(keys))[:8]
    res["check_wall_s"] = round(time.time() - t0, 1)
    if p.returncode == 2:
        res["check_tail"] = p.stdout[-500:]
except RuntimeError:
    pass
finally:
    sh("git -C /repo worktree remove --force %s" % wt)
    shutil.rmtree(wt, ignore_errors=True)
    import hashlib
    t = hashlib.sha1(wt.encode()).hexdigest()[:10]
    shutil.rmtree("/verif/.run/" + t, ignore_errors=True)
    shutil.rmtree("/verif/.run/mod-" + t, ignore_errors=True)
    shutil.rmtree("/verif/.bin/" + t, ignore_errors=True)
json.dump(res, open(os.path.join(d, "eval.json"), "w"), indent=1)
print(json.dumps(res, indent=1))
