#!/usr/bin/env python3
"""tools/seedkeep.py <seed-out dir>...  — copy confirmed seeded changes into /verif/seeded/<Cxx-n>/"""
import json, os, shutil, sys, subprocess
head = subprocess.check_output(['git', '-C', '/repo', 'rev-parse', '--short', 'HEAD']).decode().strip()
for d in sys.argv[1:]:
    d = os.path.abspath(d)
    ev = os.path.join(d, 'eval.json')
    if not os.path.exists(ev):
        print('no eval.json in', d); continue
    e = json.load(open(ev)); m = json.load(open(os.path.join(d, 'meta.json')))
    ok = e.get('demo_on_unchanged') == 'pass' and str(e.get('demo_with_change', '')).startswith('fail') and e.get('build') == 'ok' \
        and (str(e.get('existing_tests_touched_pkgs', '')).startswith('pass') or str(e.get('existing_suite', '')).startswith('pass'))
    if not ok:
        print('NOT CONFIRMED', d, {k: str(v)[:80] for k, v in e.items() if k.startswith(('demo', 'build', 'existing'))}); continue
    import re
    rm = re.search(r'seed-out-([a-z])/', d + '/')
    sid = '%s-%s%s' % (m['property'], rm.group(1) if rm else '', os.path.basename(d))
    dst = '/verif/seeded/' + sid
    old_hist = None
    try:
        old_hist = json.load(open(os.path.join(dst, 'meta.json'))).get('history')
    except Exception:
        pass
    shutil.rmtree(dst, ignore_errors=True)
    os.makedirs(dst)
    for f in os.listdir(d):
        if f in ('eval.json',) or f.endswith('.log') or f.startswith('patch.orig'):
            continue
        src = os.path.join(d, f)
        if os.path.isdir(src):
            shutil.copytree(src, os.path.join(dst, f))
        elif os.path.getsize(src) < 400000:
            shutil.copy(src, dst)
    m['breaks_property'] = m['property']
    if old_hist:
        m['history'] = old_hist
    m['confirmed_by_lead'] = {
        'repo_head_when_confirmed': head,
        'what_was_run': 'tools/seedeval.py: fresh worktree of /repo HEAD; demo on unchanged tree; git apply patch.diff; go build ./...; demo with change; go test of touched packages; VERIF_REPO=<worktree> ./check %s quick' % m['property'],
        'demo_on_unchanged_tree': e.get('demo_on_unchanged'), 'demo_with_change': e.get('demo_with_change'), 'build': e.get('build'),
        'existing_tests': e.get('existing_tests_touched_pkgs') or e.get('existing_suite'),
        'check_verdict_quick': e.get('check_verdict'), 'check_keys': e.get('check_keys'), 'check_wall_s': e.get('check_wall_s'), 'note': e.get('note'),
    }
    json.dump(m, open(os.path.join(dst, 'meta.json'), 'w'), indent=1, ensure_ascii=False)
    print('kept', sid, e.get('check_verdict'))
