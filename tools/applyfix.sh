#!/bin/bash
# like tools/applyfix.sh but runs the touched packages' tests with -short and a skip list for the known-slow/always-failing repos tests
set -e
P=$1; PROP=$2; SUBJ=$3; BODY=$4; WHAT=$5
cd /repo
git apply --exclude='*_test.go' "$P"
go build ./...
PK=$(git diff --name-only | grep '\.go$' | xargs -n1 dirname | sort -u | sed 's#^#./#' | tr '\n' ' ')
go test -count=1 -vet=off -skip 'TestClientConfigRepository_MillionConfigs|TestPortMappingRepository_LargeScale' $PK 2>&1 | tail -4
git add -A $(git diff --name-only) $(git ls-files --others --exclude-standard | grep '\.go$' || true)
git commit -q -m "$SUBJ" -m "$BODY"
H=$(git rev-parse --short HEAD)
/verif/tools/kf.py fixed $PROP $H "$WHAT"
echo "COMMITTED $H $SUBJ"
