#!/usr/bin/env python3
"""Atomic edits of /verif/known_findings.json (several writers may run concurrently).
  tools/kf.py add <Cxx> <key> <what...>        add an open finding
  tools/kf.py rm  <Cxx> <key>                  remove a finding
  tools/kf.py fixed <Cxx> <commit> <what...>   record a repaired defect
  tools/kf.py list [Cxx]
"""
import fcntl, json, sys
P = '/verif/known_findings.json'
a = sys.argv[1:]
with open(P + '.lock', 'w') as lk:
    fcntl.flock(lk, fcntl.LOCK_EX)
    k = json.load(open(P))
    if a[0] == 'add':
        k['findings'] = [f for f in k['findings'] if not (f['property'] == a[1] and f['key'] == a[2])]
        k['findings'].append({"property": a[1], "key": a[2], "status": "open", "what": " ".join(a[3:])})
    elif a[0] == 'rm':
        k['findings'] = [f for f in k['findings'] if not (f['property'] == a[1] and f['key'] == a[2])]
    elif a[0] == 'fixed':
        k['fixed'].append("fixed: property=%s %s %s" % (a[1], a[2], " ".join(a[3:])))
    elif a[0] == 'list':
        for f in k['findings']:
            if len(a) < 2 or f['property'] == a[1]:
                print(f['property'], f['key'], '-', f['what'][:100])
        for f in k['fixed']:
            print(f[:160])
        sys.exit(0)
    json.dump(k, open(P + '.tmp', 'w'), indent=1, ensure_ascii=False)
    import os
    os.replace(P + '.tmp', P)
