#!/opt/veriftools/pyvenv/bin/python3
"""validate MANIFEST.json and evidence/*.json against the schemas in /root/.vp"""
import json, sys, glob, jsonschema
ok = True
def v(path, schema):
    global ok
    try:
        jsonschema.validate(json.load(open(path)), json.load(open(schema)))
        print("valid  ", path)
    except Exception as e:
        ok = False
        print("INVALID", path, str(e)[:400])
v('/verif/MANIFEST.json', '/root/.vp/MANIFEST.schema.json')
for f in sorted(glob.glob('/verif/evidence/*.json')):
    v(f, '/root/.vp/EVIDENCE.schema.json')
m = json.load(open('/verif/MANIFEST.json'))
props = [json.loads(l)['id'] for l in open('/verif/properties.jsonl')]
claimed = [c['property_id'] for c in m['checks']]
na = [c['property_id'] for c in m.get('not_applicable', [])]
for p in props:
    if (p in claimed) == (p in na):
        ok = False
        print("property", p, "must be exactly one of claimed / not_applicable")
sys.exit(0 if ok else 1)
