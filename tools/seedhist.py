#!/usr/bin/env python3
"""tools/seedhist.py <sid> <text>  — set the 'history' note of a kept seeded change"""
import json, sys
p = '/verif/seeded/%s/meta.json' % sys.argv[1]
m = json.load(open(p)); m['history'] = sys.argv[2]
json.dump(m, open(p, 'w'), indent=1, ensure_ascii=False)
