// C06 — a connection code creates at most one mapping, and only while valid.
package c06

import (
	"errors"
	"fmt"
	"strings"
	"sync/atomic"
	"testing"
	"time"

	"pgregory.net/rapid"

	"tunnox-core/internal/cloud/models"
	"tunnox-core/internal/cloud/services"
	coreerrors "tunnox-core/internal/core/errors"
	"tunnox-core/verif/vkit"
)

func TestMain(m *testing.M) { vkit.Main(m, "C06") }

const (
	targetClient = int64(70000001)
	otherTarget  = int64(70000002)
	targetAddr   = "tcp://10.0.0.5:8080"
	listenBase   = int64(80000001) // listen clients 80000001..3
)

// Case is one concurrent program + schedule (+ at most one failing storage write).
type Case struct {
	Mode       string `json:"mode"` // "concurrent" | "sequential"
	NAct       int    `json:"activators"`
	Revoke     bool   `json:"revoke"`
	SecondNode bool   `json:"second_node"` // the last activator goes through another node's service stack
	// SameClient: every activation comes from the SAME listen client (double submit / retry after a timeout),
	// at different listen addresses; the revoker uses that identity too. Revoke2: a second, identical revoke.
	SameClient bool `json:"same_client,omitempty"`
	Revoke2    bool `json:"revoke_twice,omitempty"`
	// Generate: a further task - the target client generates ANOTHER code (CreateConnectionCode for the same
	// target client: counts and lists its codes, may housekeep old ones) while the first code is activated / revoked
	Generate bool `json:"generate_another_code,omitempty"`
	// Persistent: hybrid with a persistent tier (EnablePersistent); mapping records are then counted in every tier.
	Persistent bool `json:"persistent,omitempty"`
	// PersFail k>0 (persistent worlds): the k-th write of a mapping record to the PERSISTENT tier fails.
	PersFail int `json:"pers_fail,omitempty"`
	// StaleClaim: a claim marker left behind by a holder that never released it (claimed long ago) already
	// sits next to the code when the program starts
	StaleClaim bool `json:"stale_claim,omitempty"`
	// CodeTTL: the code's activation TTL in seconds (0 = one hour)
	CodeTTL   int    `json:"code_ttl_s,omitempty"`
	Cluster   bool   `json:"cluster"`     // two nodes, each with its own hybrid store + node-local cache over one shared cache tier
	Gran      string `json:"granularity"` // which tier operations are scheduling points: code | shared | all
	QuotaFull int    `json:"quota_full"`  // index of an activator whose listen client is already at its mapping quota (-1 none)
	Picks     []int  `json:"picks"`
	FailAt    int    `json:"fail_at"` // index (execution order) of the storage write that fails; -1 none
	// TierFail k>0: the k-th (1-based, release order) gated cache-TIER write on a code/claim key returns an
	// error (below the hybrid facade: shared or node-local tier); 0 none. Exclusive with FailAt.
	TierFail int `json:"tier_fail,omitempty"`
	// ExpirePoint: the code gets a short activation TTL and the first task that reaches this operation
	// sleeps there until the code's activation window has ended ("" none):
	// claim | idmark | mapping | index | code
	ExpirePoint string `json:"expire_point,omitempty"`
	Steps       []Step `json:"steps,omitempty"`
	Rounds      int    `json:"rounds,omitempty"` // contention mode: how often a replay re-runs the round parameters
	MaxMap      int    `json:"max_mappings,omitempty"`
}

// selCache decides per key whether a cache-tier operation is a scheduling point.
type selCache struct {
	*vkit.GateCache
	sel func(key string) bool
	pre func(op, key string) // called by the task when it arrives at a write, before it parks
}

func (s *selCache) Get(k string) (any, error) {
	if !s.sel(k) {
		return s.GateCache.Storage.Get(k)
	}
	return s.GateCache.Get(k)
}
func (s *selCache) Set(k string, v any, ttl time.Duration) error {
	if s.pre != nil {
		s.pre("Set", k)
	}
	if !s.sel(k) {
		return s.GateCache.Storage.Set(k, v, ttl)
	}
	return s.GateCache.Set(k, v, ttl)
}
func (s *selCache) Delete(k string) error {
	if !s.sel(k) {
		return s.GateCache.Storage.Delete(k)
	}
	return s.GateCache.Delete(k)
}
func (s *selCache) Exists(k string) (bool, error) {
	if !s.sel(k) {
		return s.GateCache.Storage.Exists(k)
	}
	return s.GateCache.Exists(k)
}
func (s *selCache) SetNX(k string, v any, ttl time.Duration) (bool, error) {
	if s.pre != nil {
		s.pre("SetNX", k)
	}
	if !s.sel(k) {
		return s.GateCache.Storage.SetNX(k, v, ttl)
	}
	return s.GateCache.SetNX(k, v, ttl)
}

// expiryTTL is the activation TTL of codes that are made to expire while an activation is in flight.
const expiryTTL = 90 * time.Millisecond

func expirePointMatches(point, op, key string) bool {
	switch point {
	case "claim":
		return op == "SetNX" && strings.HasPrefix(key, "tunnox:runtime:conncode:claim:")
	case "idmark":
		return op == "SetNX" && strings.HasPrefix(key, "tunnox:id:used:pmap:")
	case "mapping":
		return op == "Set" && strings.HasPrefix(key, pmPrefix)
	case "index":
		return op == "Set" && strings.HasPrefix(key, clientIdxPfx)
	case "code":
		return op == "Set" && strings.HasPrefix(key, "tunnox:runtime:conncode:code:")
	}
	return false
}

var expirePoints = []string{"claim", "idmark", "mapping", "index", "code"}

// codeTTLs: remaining activation time of the code (seconds): minutes, just below / above one hour, hours, a day
var codeTTLs = []int{600, 3540, 3660, 7200, 86400}

func granSel(gran string) func(string) bool {
	switch gran {
	case "code+mapping":
		// the code record family and the mapping records
		return func(k string) bool {
			return strings.HasPrefix(k, "tunnox:runtime:conncode:") || strings.HasPrefix(k, pmPrefix)
		}
	case "code":
		// only operations on the code record (and anything else stored next to it)
		return func(k string) bool { return strings.HasPrefix(k, "tunnox:runtime:conncode:") }
	case "shared":
		// every key that more than one task of the program touches: code record, global
		// mapping list, the target client's index, the stats counter. Operations on keys
		// private to one task (its own mapping record / id marker / listen-client index)
		// commute with everything the other tasks do.
		return func(k string) bool {
			if strings.HasPrefix(k, pmPrefix) || strings.HasPrefix(k, "tunnox:id:") {
				return false
			}
			if strings.HasPrefix(k, clientIdxPfx) && !strings.HasSuffix(k, fmt.Sprint(targetClient)) {
				return false
			}
			return true
		}
	}
	return func(string) bool { return true }
}

type actRes struct {
	listen  int64
	addr    string
	mapping *models.PortMapping
	err     error
	// gate log positions
	read, firstWrite, lastOp int
}

type outcome struct {
	key, detail string
	log         []vkit.Step
	overlap     bool // two activators (or activator and revoke) both read the code before either wrote it
	faultMid    bool // the failed write lies between "mapping record stored" and "code record updated"
	failedOp    string
	successes   int
	revokeOK    bool
	class       string
}

func errCode(err error) string {
	if err == nil {
		return "ok"
	}
	if errors.Is(err, vkit.ErrGateFault) {
		return "FAULT"
	}
	return string(coreerrors.GetCode(err))
}

func faultClass(failed string) string {
	if failed == "" {
		return ""
	}
	p := strings.SplitN(failed, " ", 2)
	return p[0] + ":" + strings.TrimPrefix(normKey(p[1]), "tunnox:")
}

// runConcurrent executes one schedule of the concurrent program and applies the oracle.
func runConcurrent(c Case, choose func(int, []string) int) outcome {
	max := 50
	if c.QuotaFull >= 0 {
		max = 1
	}
	nNodes := 1
	if c.SecondNode || c.Cluster {
		nNodes = 2
	}
	baseSel := granSel(c.Gran)
	var focus []string // Generate: of the code-record keys only those of the code under test are scheduling points
	sel := func(k string) bool {
		if !baseSel(k) {
			return false
		}
		if len(focus) > 0 && strings.HasPrefix(k, "tunnox:runtime:conncode:") {
			return strings.HasSuffix(k, ":"+focus[0]) || strings.HasSuffix(k, ":"+focus[1])
		}
		return true
	}
	w := newWorldWith(nNodes, &services.ConnectionCodeServiceConfig{MaxActiveCodesPerClient: 10, MaxActiveMappingsPerClient: max}, true, sel, c.Cluster, c.Persistent)
	defer w.close()
	var o outcome
	// ---- set-up (ungated) --------------------------------------------------------
	ttl := time.Hour
	if c.CodeTTL > 0 {
		ttl = time.Duration(c.CodeTTL) * time.Second
	}
	if c.ExpirePoint != "" {
		ttl = expiryTTL
	}
	code, err := w.nodes[0].cc.CreateConnectionCode(&services.CreateConnectionCodeRequest{TargetClientID: targetClient, TargetAddress: targetAddr, ActivationTTL: ttl, CreatedBy: "verif"})
	if err != nil {
		o.key, o.detail = "C06/harness/setup-failed", err.Error()
		return o
	}
	if c.StaleClaim {
		marker := fmt.Sprintf(`{"code_id":%q,"claimed_at":%d}`, code.ID, time.Now().Add(-10*time.Minute).UnixNano())
		w.cache.Raw().Set("tunnox:runtime:conncode:claim:"+code.Code, marker, time.Hour)
	}
	pre := map[string]bool{}
	if c.QuotaFull >= 0 {
		m, err := w.nodes[0].pms.CreatePortMapping(&models.PortMapping{ListenClientID: listenBase + int64(c.QuotaFull), TargetClientID: otherTarget,
			Protocol: "tcp", SourcePort: 7000, TargetHost: "10.9.9.9", TargetPort: 22, ListenAddress: "0.0.0.0:7000", TargetAddress: "tcp://10.9.9.9:22", Status: models.MappingStatusActive, Type: models.MappingTypeAnonymous})
		if err != nil {
			o.key, o.detail = "C06/harness/setup-failed", err.Error()
			return o
		}
		pre[m.ID] = true
	}
	// ---- concurrent phase --------------------------------------------------------
	acts := make([]*actRes, c.NAct)
	var revErr error
	rev2Err := errors.New("not run")
	var expired atomic.Bool
	if c.ExpirePoint != "" {
		w.pre = func(op, key string) {
			if expirePointMatches(c.ExpirePoint, op, key) && expired.CompareAndSwap(false, true) {
				// the activation window ends while this activation is in flight
				if d := time.Until(code.ActivationExpiresAt.Add(12 * time.Millisecond)); d > 0 {
					time.Sleep(d)
				}
			}
		}
	}
	if c.Generate {
		// the new code's own records are private to the generating task (they commute with everything else)
		focus = []string{code.Code, code.ID}
	}
	if c.TierFail > 0 {
		w.g.FailAt = c.TierFail - 1
		w.g.FailFilter = func(s vkit.Step, write bool) bool {
			if strings.HasPrefix(s.Op, "pers.") {
				return false
			}
			if c.Persistent && strings.HasPrefix(s.Key, pmPrefix) {
				return write // with a persistent tier the facade must cope with a failed CACHE write of the mapping record
			}
			return write && strings.HasPrefix(s.Key, "tunnox:runtime:conncode:")
		}
		c.FailAt = -1
	}
	if c.PersFail > 0 && w.persF != nil {
		w.persF.arm(c.PersFail)
		c.FailAt = -1
	}
	w.g.Activate()
	w.store.arm(c.FailAt)
	for i := 0; i < c.NAct; i++ {
		i := i
		a := &actRes{listen: listenBase + int64(i), addr: fmt.Sprintf("0.0.0.0:%d", 9001+i), read: -1, firstWrite: -1}
		if c.SameClient {
			a.listen = listenBase
		}
		acts[i] = a
		n := w.nodes[0]
		if c.SecondNode && i == c.NAct-1 {
			n = w.nodes[1]
		}
		if c.Cluster {
			n = w.nodes[(i+1)%2] // A1 on node 2, A2 on node 1, A3 on node 2; the code was created (and is revoked) on node 1
		}
		w.g.Go(fmt.Sprintf("A%d", i+1), func() {
			a.mapping, a.err = n.cc.ActivateConnectionCode(&services.ActivateConnectionCodeRequest{Code: code.Code, ListenClientID: a.listen, ListenAddress: a.addr})
		})
	}
	revRead, revWrite := -1, -1
	if c.Revoke {
		revErr = errors.New("not run")
		by := "verif"
		if c.SameClient {
			by = fmt.Sprint(listenBase) // the revoker is the same identity as the activating client
		}
		w.g.Go("R", func() { revErr = w.nodes[0].cc.RevokeConnectionCode(code.Code, by) })
		if c.Revoke2 {
			n2 := w.nodes[len(w.nodes)-1]
			w.g.Go("R2", func() { rev2Err = n2.cc.RevokeConnectionCode(code.Code, by) })
		}
	}
	var genErr error
	if c.Generate {
		w.g.Go("G", func() {
			_, genErr = w.nodes[0].cc.CreateConnectionCode(&services.CreateConnectionCodeRequest{TargetClientID: targetClient, TargetAddress: "tcp://10.0.0.6:9090", ActivationTTL: time.Hour, CreatedBy: "verif"})
		})
	}
	o.log = w.g.Run(choose)
	w.g.Deactivate()
	w.store.disarm()
	if w.g.Aborted {
		o.key, o.detail = "C06/harness/schedule-aborted", vkit.StepsString(o.log)
		return o
	}
	if w.g.Stalls > 0 {
		vkit.AddExtra("gate_stalls", int64(w.g.Stalls))
	}
	noteStalls(w.g.Stalls)
	// ---- measures from the gate log ---------------------------------------------
	codeKey := "tunnox:runtime:conncode:code:" + code.Code
	for i, s := range o.log {
		isCodeRec := s.Key == codeKey || strings.HasPrefix(s.Key, "tunnox:runtime:conncode:id:")
		if s.Task == "R" || s.Task == "R2" {
			if s.Key == codeKey && strings.HasSuffix(s.Op, ".Get") && revRead < 0 {
				revRead = i
			}
			if isCodeRec && strings.HasSuffix(s.Op, ".Set") && revWrite < 0 {
				revWrite = i
			}
			continue
		}
		var n int
		if _, err := fmt.Sscanf(s.Task, "A%d", &n); err != nil || n < 1 || n > len(acts) {
			continue
		}
		a := acts[n-1]
		a.lastOp = i
		if s.Key == codeKey && strings.HasSuffix(s.Op, ".Get") && a.read < 0 {
			a.read = i
		}
		if isCodeRec && strings.HasSuffix(s.Op, ".Set") && a.firstWrite < 0 {
			a.firstWrite = i
		}
	}
	end := len(o.log)
	wr := func(x int) int {
		if x < 0 {
			return end
		}
		return x
	}
	bothReadFirst := func(r1, w1, r2, w2 int) bool {
		if r1 < 0 || r2 < 0 {
			return false
		}
		lastRead := r1
		if r2 > lastRead {
			lastRead = r2
		}
		firstW := wr(w1)
		if wr(w2) < firstW {
			firstW = wr(w2)
		}
		return lastRead < firstW
	}
	var winners []*actRes
	for _, a := range acts {
		if a.err == nil && a.mapping != nil {
			winners = append(winners, a)
		}
	}
	o.successes = len(winners)
	o.revokeOK = c.Revoke && (revErr == nil || (c.Revoke2 && rev2Err == nil))
	for i := range acts {
		for j := i + 1; j < len(acts); j++ {
			if bothReadFirst(acts[i].read, acts[i].firstWrite, acts[j].read, acts[j].firstWrite) {
				o.overlap = true
			}
		}
		if c.Revoke && bothReadFirst(acts[i].read, acts[i].firstWrite, revRead, revWrite) {
			o.overlap = true
		}
	}
	o.failedOp = faultClass(w.store.Failed)
	for _, st := range o.log {
		if st.Failed {
			o.failedOp = "tier:" + st.Op + ":" + strings.TrimPrefix(normKey(st.Key), "tunnox:")
		}
	}
	if w.persF != nil && w.persF.Fired != "" {
		o.failedOp = "tier:pers.Set:" + strings.TrimPrefix(normKey(w.persF.Fired), "tunnox:")
	}
	if w.store.Failed != "" {
		// between "mapping record stored" and "code record (both copies) updated"?
		seenPM, idx := false, -1
		for i, wop := range w.store.Writes {
			if wop == w.store.Failed {
				idx = i
			}
		}
		for i, wop := range w.store.Writes {
			if i < idx && strings.HasPrefix(wop, "Set "+pmPrefix) {
				seenPM = true
			}
		}
		o.faultMid = seenPM
	}
	prog := fmt.Sprintf("%dA", c.NAct)
	if c.Revoke {
		prog += "+R"
	}
	if c.Revoke2 {
		prog += "+R"
	}
	if c.Generate {
		prog += "+G"
	}
	if c.SameClient {
		prog += "/same-client"
	}
	if c.Cluster {
		prog += "/cluster"
	} else if c.SecondNode {
		prog += "/2nodes"
	}
	if c.Persistent {
		prog += "/persistent"
	}
	if c.StaleClaim {
		prog += "/stale-claim"
	}
	if c.CodeTTL > 0 {
		prog += fmt.Sprintf("/ttl=%ds", c.CodeTTL)
	}
	if c.QuotaFull >= 0 {
		prog += "/quota-full"
	}
	o.class = prog + "/" + c.Gran
	if c.ExpirePoint != "" {
		o.class += "/expires-in-flight@" + c.ExpirePoint
	}
	if c.TierFail > 0 {
		o.class += "/tier-fault"
	}
	// ---- oracle at quiescence ------------------------------------------------------
	sched := "; schedule: " + normSteps(o.log)
	if o.failedOp != "" {
		sched = "; failed storage write: " + o.failedOp + sched
	}
	outcomes := ""
	for i, a := range acts {
		outcomes += fmt.Sprintf("A%d(listen %d)=%s ", i+1, a.listen, errCode(a.err))
	}
	if c.Revoke {
		outcomes += "R=" + errCode(revErr)
		if c.Revoke2 {
			outcomes += " R2=" + errCode(rev2Err)
		}
	}
	if c.Generate {
		outcomes += " G=" + errCode(genErr)
	}
	faultSfx := ""
	if o.failedOp != "" {
		faultSfx = "/fault@" + o.failedOp
	}
	fail := func(key, detail string) { o.key, o.detail = key, detail+" ["+outcomes+"]"+sched }

	var mine []*models.PortMapping // mappings that did not exist before the concurrent phase
	for _, m := range w.mappings() {
		if !pre[m.ID] {
			mine = append(mine, m)
		}
	}
	// 1. at most one activation succeeds
	if o.successes > 1 {
		pairOverlap := false
		for i := range winners {
			for j := i + 1; j < len(winners); j++ {
				if bothReadFirst(winners[i].read, winners[i].firstWrite, winners[j].read, winners[j].firstWrite) {
					pairOverlap = true
				}
			}
		}
		if pairOverlap {
			fail("C06/double-activation/overlapping-read-check-create", fmt.Sprintf("%d activations of one code succeeded, %d mappings in storage", o.successes, len(mine)))
		} else {
			fail("C06/double-activation/non-overlapping", fmt.Sprintf("%d activations of one code succeeded although the second read the code after the first had updated it", o.successes))
		}
		return o
	}
	// 2. a successful revoke and a successful activation exclude each other
	// (not when the code is made to expire in flight: a revoke whose claim was computed before the expiry and
	// lands after it finds the winner's claim expired and "revokes" by deleting the expired record; the
	// mapping was created inside the window, so nothing the property forbids has happened)
	if o.revokeOK && o.successes >= 1 && c.ExpirePoint == "" {
		if bothReadFirst(winners[0].read, winners[0].firstWrite, revRead, revWrite) {
			fail("C06/revoked-code-activated/overlapping-read-modify-write", fmt.Sprintf("RevokeConnectionCode and ActivateConnectionCode both reported success; %d mapping(s) exist for the revoked code", len(mine)))
		} else {
			fail("C06/revoked-code-activated/non-overlapping", "revoke and activation both succeeded without overlapping")
		}
		return o
	}
	// 3. mappings in storage == successes; each failed activation leaves nothing
	byAddr := map[string][]*models.PortMapping{} // every activator listens at its own address
	for _, m := range mine {
		byAddr[m.ListenAddress] = append(byAddr[m.ListenAddress], m)
	}
	for i, a := range acts {
		ms := byAddr[a.addr]
		if a.err != nil || a.mapping == nil {
			cause := "no-fault/" + errCode(a.err)
			if o.failedOp != "" {
				cause = "fault@" + o.failedOp
			}
			if c.ExpirePoint != "" {
				cause += "/code-expired-in-flight@" + c.ExpirePoint
			}
			if rollbackFault(cause) {
				// the failing write was one of the rollback's own writes: what it could not remove is not
				// attributed to the activation logic (counted, rest of the case abandoned)
				if len(ms) > 0 || len(w.indexEntriesFor(a.listen, a.addr)) > 0 {
					vkit.Excluded(1)
					vkit.Class("excluded:failing write was a rollback write")
					return o
				}
				continue
			}
			if len(ms) > 0 {
				fail("C06/failed-activation-leaves-mapping/"+cause, fmt.Sprintf("activation A%d failed (%v) but mapping %s (listen %d -> %d %s) is in storage", i+1, a.err, ms[0].ID, ms[0].ListenClientID, ms[0].TargetClientID, ms[0].TargetAddress))
				return o
			}
			idx := w.indexEntriesFor(a.listen, a.addr)
			extra := 0
			for _, id := range idx {
				if !pre[id] {
					extra++
				}
			}
			if extra > 0 && c.SameClient {
				// one client submitted several activations: its index list is rewritten by several tasks, and on
				// hybrid a list rewrite is get-modify-set (C14 overlapping-get-modify-set): a roll-back's removal can
				// be undone by the other task's append. The mapping record itself is gone (checked above), readers
				// skip such an orphan entry; not attributed to the activation logic.
				vkit.Class("same-client:orphan index entry after overlapping list rewrites (C14)")
				extra = 0
			}
			if extra > 0 {
				fail("C06/failed-activation-leaves-index-entry/"+cause, fmt.Sprintf("activation A%d failed (%v) but its listen client's mapping index lists %v", i+1, a.err, idx))
				return o
			}
			if c.QuotaFull == i && !errors.Is(a.err, vkit.ErrGateFault) && errCode(a.err) == "ok" {
				fail("C06/harness/quota-full-activator-succeeded", "")
				return o
			}
			continue
		}
		// successful activation
		if len(ms) != 1 {
			fail("C06/success-mapping-count"+faultSfx, fmt.Sprintf("activation A%d succeeded with mapping %s but storage holds %d mapping record(s) for its listen client", i+1, a.mapping.ID, len(ms)))
			return o
		}
		m := ms[0]
		if m.ID != a.mapping.ID {
			fail("C06/success-mapping-id-mismatch"+faultSfx, fmt.Sprintf("returned %s, stored %s", a.mapping.ID, m.ID))
			return o
		}
		for _, mm := range []*models.PortMapping{m, a.mapping} {
			if mm.TargetClientID != targetClient || mm.TargetAddress != targetAddr || mm.TargetHost != "10.0.0.5" || mm.TargetPort != 8080 || string(mm.Protocol) != "tcp" {
				fail("C06/mapping-target-not-from-code", fmt.Sprintf("code fixed target (%d, %s); mapping %s targets (%d, %s, %s:%d/%s)", targetClient, targetAddr, mm.ID, mm.TargetClientID, mm.TargetAddress, mm.TargetHost, mm.TargetPort, mm.Protocol))
				return o
			}
			if mm.ListenClientID != a.listen || mm.ListenAddress != a.addr || mm.SourcePort != 9001+i {
				fail("C06/mapping-not-listening-for-activator", fmt.Sprintf("activator %d at %s; mapping %s listens for %d at %s (port %d)", a.listen, a.addr, mm.ID, mm.ListenClientID, mm.ListenAddress, mm.SourcePort))
				return o
			}
			if mm.Status != models.MappingStatusActive || mm.IsRevoked {
				fail("C06/mapping-not-active", fmt.Sprintf("%s status=%s revoked=%v", mm.ID, mm.Status, mm.IsRevoked))
				return o
			}
		}
	}
	if len(mine) != o.successes {
		fail("C06/mapping-count-differs-from-successes"+faultSfx, fmt.Sprintf("%d successes, %d new mapping records", o.successes, len(mine)))
		return o
	}
	// 4. code record: activated with that mapping id iff one activation succeeded
	byCode, byID := w.codeRecord(code.Code, code.ID)
	if o.successes == 1 {
		a := winners[0]
		for _, name := range []string{"by-code", "by-id"} {
			rec := byCode
			if name == "by-id" {
				rec = byID
			}
			if rec == nil && c.ExpirePoint != "" {
				continue // the activation window has ended meanwhile: the record is gone with its TTL
			}
			if rec == nil || !rec.IsActivated || rec.MappingID == nil || *rec.MappingID != a.mapping.ID || rec.ActivatedBy == nil || *rec.ActivatedBy != a.listen || rec.IsRevoked {
				// root cause: did another call that had read the code before the winner wrote it write the record too?
				key := "C06/code-record-not-activated-after-success/" + name + faultSfx
				for _, b := range acts {
					if b != a && b.firstWrite >= 0 && bothReadFirst(a.read, a.firstWrite, b.read, b.firstWrite) {
						key = "C06/code-record-overwritten/overlapping-activation" + faultSfx
					}
				}
				if c.Revoke && revWrite >= 0 && bothReadFirst(a.read, a.firstWrite, revRead, revWrite) {
					key = "C06/code-record-overwritten/overlapping-revoke" + faultSfx
				}
				fail(key, fmt.Sprintf("A(listen %d) succeeded with %s; %s code record afterwards: %s", a.listen, a.mapping.ID, name, recStr(rec)))
				return o
			}
		}
	} else if o.failedOp == "" {
		// no activation succeeded and nothing was injected: the code must not be marked used
		for name, rec := range map[string]*models.TunnelConnectionCode{"by-code": byCode, "by-id": byID} {
			if rec != nil && rec.IsActivated {
				fail("C06/code-marked-activated-without-success/"+name, recStr(rec))
				return o
			}
		}
	} else if byCode != nil && byCode.IsActivated {
		vkit.Class("feat:code-burned-by-faulted-activation")
	}
	return o
}

func recStr(c *models.TunnelConnectionCode) string {
	if c == nil {
		return "<absent>"
	}
	mid, by := "<nil>", "<nil>"
	if c.MappingID != nil {
		mid = *c.MappingID
	}
	if c.ActivatedBy != nil {
		by = fmt.Sprint(*c.ActivatedBy)
	}
	return fmt.Sprintf("{activated=%v by=%s mapping=%s revoked=%v}", c.IsActivated, by, mid, c.IsRevoked)
}

func sigOf(c Case, o outcome) string {
	return fmt.Sprintf("%v%d%v%d|%d|%v%v%v|%v|%v|%v|%s|%d|%s|%s|%s", c.Persistent, c.PersFail, c.StaleClaim, c.CodeTTL, c.NAct, c.Revoke, c.Revoke2, c.Generate, c.SameClient, c.SecondNode, c.Cluster, c.Gran, c.QuotaFull, o.failedOp, c.ExpirePoint, normSteps(o.log))
}

func report(t vkit.TB, c Case, o outcome) {
	nt := o.overlap || o.faultMid
	if o.overlap {
		vkit.Class("feat:overlap(both read before either wrote)")
	}
	if o.failedOp != "" {
		vkit.Class("fault:" + o.failedOp)
		if o.faultMid {
			vkit.Class("feat:fault between mapping stored and code updated")
		}
	}
	vkit.Class(fmt.Sprintf("outcome:successes=%d,revoke_ok=%v", o.successes, o.revokeOK))
	if o.key != "" {
		vkit.Violation(t, o.key, o.detail, c)
		vkit.Case("known:"+o.class, nt, sigOf(c, o))
		return
	}
	vkit.Case(o.class, nt, sigOf(c, o))
	vkit.Sample(o.class, map[string]any{"case": c, "schedule": normSteps(o.log), "successes": o.successes})
}

// ---------------------------------------------------------------------------------
// DFS with a fixed root prefix (so that sub-trees can be divided over shards).

type dfs struct {
	root     []int
	prefix   []int
	trace    []int
	widths   []int
	limit    int // >=0: only the first limit choice points are varied (splitter)
	Diverged int
}

func newDFS(root []int, limit int) *dfs {
	return &dfs{root: root, prefix: append([]int(nil), root...), limit: limit}
}

func (d *dfs) Choose(n int, _ []string) int {
	i := len(d.trace)
	c := 0
	if i < len(d.prefix) {
		c = d.prefix[i]
		if c >= n {
			c = n - 1
			d.Diverged++
		}
	}
	d.trace = append(d.trace, c)
	d.widths = append(d.widths, n)
	return c
}

func (d *dfs) Trace() []int { return append([]int(nil), d.trace...) }

func (d *dfs) Next() bool {
	hi := len(d.trace) - 1
	if d.limit >= 0 && hi >= d.limit {
		hi = d.limit - 1
	}
	for i := hi; i >= len(d.root); i-- {
		if d.trace[i]+1 < d.widths[i] {
			d.prefix = append(append([]int(nil), d.trace[:i]...), d.trace[i]+1)
			d.trace, d.widths = nil, nil
			return true
		}
	}
	d.trace, d.widths = nil, nil
	return false
}

// enumerate runs every schedule of c (DFS by prefix re-execution), sub-trees below the
// first splitDepth choice points divided over the shards. Returns schedules run by this
// shard and whether its share of the tree was exhausted.
func enumerate(t *testing.T, c Case, splitDepth, capPerShard int) (int, bool) {
	var jobs [][]int
	sp := newDFS(nil, splitDepth)
	for {
		runConcurrent(c, sp.Choose)
		tr := sp.Trace()
		if len(tr) > splitDepth {
			tr = tr[:splitDepth]
		}
		jobs = append(jobs, tr)
		if !sp.Next() {
			break
		}
	}
	n, complete, diverged := 0, true, sp.Diverged
	for j, root := range jobs {
		if !vkit.Mine(j) {
			continue
		}
		d := newDFS(root, -1)
		for {
			o := runConcurrent(c, d.Choose)
			cc := c
			cc.Picks = d.Trace()
			report(t, cc, o)
			n++
			if !d.Next() {
				break
			}
			if n >= capPerShard {
				complete = false
				break
			}
		}
		diverged += d.Diverged
		if !complete {
			break
		}
	}
	if diverged > 0 {
		vkit.AddExtra("dfs_diverged_choices", int64(diverged))
		complete = false
	}
	return n, complete
}

type space struct {
	c          Case
	split, cap int
	thorough   bool
}

func spaces() []space {
	mk := func(n int, rev, second bool, gran string, quota int) Case {
		return Case{Mode: "concurrent", NAct: n, Revoke: rev, SecondNode: second, Gran: gran, QuotaFull: quota, FailAt: -1}
	}
	cl := func(c Case) Case { c.Cluster = true; return c }
	sc := func(c Case) Case { c.SameClient = true; return c }
	r2 := func(c Case) Case { c.Revoke2 = true; return c }
	gn := func(c Case) Case { c.Generate = true; return c }
	pz := func(c Case) Case { c.Persistent = true; return c }
	st := func(c Case) Case { c.StaleClaim = true; return c }
	tl := func(sec int, c Case) Case { c.CodeTTL = sec; return c }
	return []space{
		// code-record granularity: 3 scheduling points per task
		{mk(2, false, false, "code", -1), 1, 1 << 30, false},              // 20 schedules
		{mk(2, false, true, "code", -1), 1, 1 << 30, false},               // 20, second activator on another node
		{mk(2, true, false, "code", -1), 2, 1 << 30, false},               // 1680
		{mk(3, false, true, "code", -1), 2, 1 << 30, false},               // 1680
		{mk(2, false, false, "code", 0), 1, 1 << 30, false},               // quota-full activator races a valid one
		{mk(3, true, false, "code", -1), 3, vkit.Pick(400, 60000), false}, // 369600: capped
		// the code's remaining activation time: minutes ... a day
		{tl(600, mk(2, false, false, "code", -1)), 1, 1 << 30, false},
		{tl(3540, mk(2, true, false, "code", -1)), 2, 1 << 30, false},
		{tl(3660, mk(2, false, false, "code", -1)), 1, 1 << 30, false},
		{tl(7200, cl(mk(2, false, false, "code", -1))), 1, 1 << 30, false},
		{tl(7200, mk(1, true, false, "code", -1)), 1, 1 << 30, false},
		{tl(86400, sc(mk(2, true, false, "code", -1))), 2, 1 << 30, false},
		// a stale claim marker left by a vanished holder is already there
		{st(mk(2, false, false, "code", -1)), 1, 1 << 30, false},
		{st(cl(mk(2, false, false, "code", -1))), 1, 1 << 30, false},
		{st(mk(1, true, false, "code", -1)), 1, 1 << 30, false},
		{st(sc(mk(2, true, false, "code", -1))), 2, 1 << 30, false},
		// hybrid with a persistent tier
		{pz(mk(2, false, false, "code", -1)), 1, 1 << 30, false},
		{pz(cl(mk(2, true, false, "code", -1))), 2, 1 << 30, false},
		{pz(mk(2, false, false, "code+mapping", -1)), 3, vkit.Pick(300, 1<<30), false},
		// the target client generates another code meanwhile
		{gn(mk(1, true, false, "code", -1)), 2, 1 << 30, false},
		{gn(cl(mk(1, true, false, "code", -1))), 2, 1 << 30, false},
		{gn(mk(2, false, false, "code", -1)), 2, 1 << 30, false},
		{gn(mk(2, true, false, "code", -1)), 3, vkit.Pick(800, 1<<30), false},
		{gn(mk(1, true, false, "shared", -1)), 4, vkit.Pick(400, 60000), false},
		// the same client submits the activation twice (and revokes with the same identity)
		{sc(mk(2, false, false, "code", -1)), 1, 1 << 30, false},
		{sc(mk(2, true, false, "code", -1)), 2, 1 << 30, false},
		{sc(cl(mk(2, false, false, "code", -1))), 1, 1 << 30, false},
		{sc(cl(mk(2, true, false, "code", -1))), 2, 1 << 30, false},
		{sc(mk(3, false, true, "code", -1)), 2, 1 << 30, false},
		{r2(sc(mk(1, true, false, "code", -1))), 2, 1 << 30, false},
		{r2(cl(mk(2, true, false, "code", -1))), 3, vkit.Pick(600, 1<<30), false},
		{sc(mk(2, false, false, "shared", -1)), 4, vkit.Pick(300, 1<<30), false},
		// cluster topology (own hybrid store + node-local cache per node, one shared tier): the racing calls run on different nodes
		{cl(mk(2, false, false, "code", -1)), 1, 1 << 30, false},
		{cl(mk(1, true, false, "code", -1)), 1, 1 << 30, false}, // revoke on node 1, activation on node 2
		{cl(mk(2, true, false, "code", -1)), 2, 1 << 30, false},
		{cl(mk(3, false, false, "code", -1)), 2, 1 << 30, false},
		{cl(mk(2, false, false, "shared", -1)), 4, vkit.Pick(300, 1<<30), false},
		// shared-key granularity: 9 scheduling points per activator (48620 schedules for two)
		{mk(2, false, false, "shared", -1), 4, 1 << 30, false}, // complete in both tiers
		{mk(2, false, true, "shared", -1), 4, vkit.Pick(300, 1<<30), false},
		{mk(2, true, false, "shared", -1), 4, vkit.Pick(300, 40000), false},
	}
}

// TestExhaustive enumerates the schedule trees (no fault).
func TestExhaustive(t *testing.T) {
	total := 0
	for _, s := range spaces() {
		n, done := enumerate(t, s.c, s.split, s.cap)
		total += n
		name := fmt.Sprintf("%dA", s.c.NAct)
		if s.c.Revoke {
			name += "+R"
		}
		if s.c.Revoke2 {
			name += "+R"
		}
		if s.c.Generate {
			name += "+G"
		}
		if s.c.SameClient {
			name += "/same-client"
		}
		if s.c.Cluster {
			name += "/cluster"
		} else if s.c.SecondNode {
			name += "/2nodes"
		}
		if s.c.Persistent {
			name += "/persistent"
		}
		if s.c.StaleClaim {
			name += "/stale-claim"
		}
		if s.c.CodeTTL > 0 {
			name += fmt.Sprintf("/ttl=%ds", s.c.CodeTTL)
		}
		if s.c.QuotaFull >= 0 {
			name += "/quota-full"
		}
		vkit.Exhaustive("schedules:"+name+"/gran="+s.c.Gran, done)
	}
	vkit.AddExtra("dfs_schedules", int64(total))
}

// TestFaultEnumeration: every schedule of two activators at code-record granularity x every
// single failing storage write, and one activator alone x every failing write at full granularity.
func TestFaultEnumeration(t *testing.T) {
	total := 0
	job := 0
	type fbase struct {
		c    Case
		tier bool // the failing write is a cache-tier write below the hybrid facade (shared or node-local tier)
	}
	for _, fb := range []fbase{
		{Case{Mode: "concurrent", NAct: 1, Gran: "all", QuotaFull: -1}, false},
		{Case{Mode: "concurrent", NAct: 2, Gran: "code", QuotaFull: -1}, false},
		{Case{Mode: "concurrent", NAct: 2, Gran: "code", QuotaFull: -1, SecondNode: true}, false},
		{Case{Mode: "concurrent", NAct: 1, Revoke: true, Gran: "code", QuotaFull: -1}, false},
		{Case{Mode: "concurrent", NAct: 2, Gran: "code", QuotaFull: -1, Cluster: true}, false},
		{Case{Mode: "concurrent", NAct: 2, Gran: "code", QuotaFull: -1, Cluster: true}, true},
		{Case{Mode: "concurrent", NAct: 1, Revoke: true, Gran: "code", QuotaFull: -1, Cluster: true}, true},
		{Case{Mode: "concurrent", NAct: 2, Gran: "code", QuotaFull: -1}, true},
		// persistence enabled: a failed CACHE write of the mapping record (or of a code/claim key)
		{Case{Mode: "concurrent", NAct: 1, Gran: "code+mapping", QuotaFull: -1, Persistent: true}, true},
		{Case{Mode: "concurrent", NAct: 1, Gran: "code+mapping", QuotaFull: -1, Persistent: true, Cluster: true}, true},
		{Case{Mode: "concurrent", NAct: 2, Gran: "code+mapping", QuotaFull: -1, Persistent: true, Cluster: true}, true},
		{Case{Mode: "concurrent", NAct: 1, Gran: "all", QuotaFull: -1, Persistent: true}, false},
	} {
		base := fb.c
		complete := true
		dead := 1 << 30 // smallest write index seen that no schedule reaches
		for failAt := 0; failAt < 40; failAt++ {
			job++
			if !vkit.Mine(job) || failAt > dead {
				continue
			}
			c := base
			c.FailAt = failAt
			if fb.tier {
				c.FailAt, c.TierFail = -1, failAt+1
			}
			d := newDFS(nil, -1)
			fired := false
			for {
				o := runConcurrent(c, d.Choose)
				cc := c
				cc.Picks = d.Trace()
				if o.failedOp != "" {
					fired = true
				}
				report(t, cc, o)
				total++
				if !d.Next() {
					break
				}
			}
			if d.Diverged > 0 {
				complete = false
			}
			if !fired {
				dead = failAt
			}
		}
		vkit.Exhaustive(fmt.Sprintf("single-write-fault x schedules:%dA/rev=%v/2nodes=%v/cluster=%v/gran=%s/tier-level=%v/persistent=%v", base.NAct, base.Revoke, base.SecondNode, base.Cluster, base.Gran, fb.tier, base.Persistent), complete)
	}
	// the persistent-tier write of the mapping record fails (k-th such write) x every schedule
	for _, base := range []Case{
		{Mode: "concurrent", NAct: 1, Gran: "code", QuotaFull: -1, FailAt: -1, Persistent: true},
		{Mode: "concurrent", NAct: 2, Gran: "code", QuotaFull: -1, FailAt: -1, Persistent: true},
		{Mode: "concurrent", NAct: 2, Gran: "code", QuotaFull: -1, FailAt: -1, Persistent: true, Cluster: true},
		{Mode: "concurrent", NAct: 1, Revoke: true, Gran: "code", QuotaFull: -1, FailAt: -1, Persistent: true},
	} {
		for k := 1; k <= 2; k++ {
			job++
			if !vkit.Mine(job) {
				continue
			}
			c := base
			c.PersFail = k
			d := newDFS(nil, -1)
			for {
				o := runConcurrent(c, d.Choose)
				cc := c
				cc.Picks = d.Trace()
				report(t, cc, o)
				total++
				if !d.Next() {
					break
				}
			}
		}
	}
	vkit.AddExtra("fault_enum_runs", int64(total))
}

// TestExpiryInFlight: the code's activation window ends while an activation is between two of its
// storage operations (every expiry point x small programs x their first schedules).
func TestExpiryInFlight(t *testing.T) {
	job := 0
	for _, base := range []Case{
		{Mode: "concurrent", NAct: 1, Gran: "code", QuotaFull: -1, FailAt: -1},
		{Mode: "concurrent", NAct: 1, Gran: "code", QuotaFull: -1, FailAt: -1, Cluster: true},
		{Mode: "concurrent", NAct: 2, Gran: "code", QuotaFull: -1, FailAt: -1, Cluster: true},
		{Mode: "concurrent", NAct: 1, Revoke: true, Gran: "code", QuotaFull: -1, FailAt: -1},
	} {
		for _, pt := range expirePoints {
			job++
			if !vkit.Mine(job) {
				continue
			}
			c := base
			c.ExpirePoint = pt
			d := newDFS(nil, -1)
			for n := 0; n < vkit.Pick(4, 40); n++ {
				o := runConcurrent(c, d.Choose)
				cc := c
				cc.Picks = d.Trace()
				report(t, cc, o)
				if !d.Next() {
					break
				}
			}
		}
	}
}

// TestRandomSchedules: rapid-drawn program, granularity, pick sequence and single fault.
func TestRandomSchedules(t *testing.T) {
	vkit.Check(t, 6000, 80000, func(t *rapid.T) {
		c := Case{Mode: "concurrent",
			NAct:       rapid.IntRange(2, 3).Draw(t, "activators"),
			Revoke:     rapid.Bool().Draw(t, "revoke"),
			SecondNode: rapid.Bool().Draw(t, "secondNode"),
			Cluster:    rapid.SampledFrom([]bool{false, true, true}).Draw(t, "cluster"),
			SameClient: rapid.SampledFrom([]bool{false, false, true}).Draw(t, "sameClient"),
			Gran:       rapid.SampledFrom([]string{"code", "shared", "shared", "all"}).Draw(t, "gran"),
			QuotaFull:  rapid.SampledFrom([]int{-1, -1, -1, 0, 1}).Draw(t, "quotaFull"),
			FailAt:     rapid.SampledFrom([]int{-1, -1, 0, 1, 2, 3, 4, 5, 6, 7, 8, 9, 10, 11, 12, 13, 14, 15, 16, 18, 20, 24}).Draw(t, "failAt"),
		}
		if c.SameClient {
			c.QuotaFull = -1
		}
		c.Revoke2 = c.Revoke && rapid.IntRange(0, 3).Draw(t, "revokeTwice") == 0
		c.Generate = rapid.IntRange(0, 2).Draw(t, "generateAnotherCode") == 0
		c.Persistent = rapid.IntRange(0, 3).Draw(t, "persistentTier") == 0
		c.StaleClaim = rapid.IntRange(0, 4).Draw(t, "staleClaimMarker") == 0
		if c.Persistent && rapid.IntRange(0, 2).Draw(t, "persistentWriteFault") == 0 {
			c.FailAt, c.PersFail = -1, rapid.IntRange(1, 3).Draw(t, "persFail")
		}
		c.CodeTTL = rapid.SampledFrom(append([]int{0, 0}, codeTTLs...)).Draw(t, "codeTTLSeconds")
		if rapid.IntRange(0, 3).Draw(t, "tierFaultInsteadOfFacadeFault") == 0 {
			c.FailAt, c.TierFail = -1, rapid.IntRange(1, 8).Draw(t, "tierFail")
			if c.Persistent {
				c.Gran = rapid.SampledFrom([]string{"code+mapping", "all"}).Draw(t, "granWithMappingRecords")
			}
		}
		// (not combined with a swallowed cache-write failure on a persistent world: the roll-back's read then misses
		// the cache and hybrid's asynchronous write-back can resurrect the deleted record - C14's finding)
		if c.PersFail > 0 {
			c.TierFail = 0
		}
		if rapid.IntRange(0, 13).Draw(t, "expiresInFlight") == 0 && !(c.Persistent && c.TierFail > 0) {
			c.ExpirePoint = rapid.SampledFrom(expirePoints).Draw(t, "expirePoint")
		}
		c.Picks = rapid.SliceOfN(rapid.IntRange(0, 3), 0, 60).Draw(t, "picks")
		p := &vkit.Picks{List: c.Picks}
		o := runConcurrent(c, p.Choose)
		report(t, c, o)
	})
}

func TestReplay(t *testing.T) {
	path := vkit.Replaying()
	if path == "" {
		t.Skip("no VERIF_REPLAY")
	}
	var c Case
	if _, err := vkit.LoadReplay(path, &c); err != nil {
		t.Fatal(err)
	}
	if c.Mode == "sequential" {
		for i := 0; i < 3; i++ {
			runSequential(t, c)
		}
		return
	}
	if c.Mode == "restart" {
		runRestart(t, c, t.TempDir())
		return
	}
	if c.Mode == "contention" {
		for i := 0; i < c.Rounds && !t.Failed(); i++ {
			roundContention(t, c)
		}
		return
	}
	p := &vkit.Picks{List: c.Picks}
	o := runConcurrent(c, p.Choose)
	report(t, c, o)
}
