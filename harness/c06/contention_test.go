package c06

import (
	"context"
	"encoding/json"
	"fmt"
	"runtime"
	"sync"
	"sync/atomic"
	"testing"
	"time"

	"pgregory.net/rapid"

	"tunnox-core/internal/cloud/models"
	"tunnox-core/internal/cloud/repos"
	"tunnox-core/internal/cloud/services"
	"tunnox-core/internal/core/idgen"
	"tunnox-core/internal/core/storage"
	"tunnox-core/internal/core/storage/hybrid"
	"tunnox-core/internal/core/storage/memory"
	"tunnox-core/verif/vkit"
)

// Contention rounds WITHOUT the scheduler: the gate serialises whole storage operations, so it cannot
// see an operation of the backend that is not atomic in itself. Here 2-8 truly parallel activations
// (+ optionally a revoke) of one fresh code run on the real memory backend (used directly, and under
// hybrid) after a spin barrier. Not replay-deterministic: a replay re-runs the round parameters many times.

type plainWorld struct {
	cancel context.CancelFunc
	raw    *memory.Storage
	st     storage.Storage
	nodes  []*services.ConnectionCodeService
}

func newPlainWorld(backend string, nNodes int) *plainWorld {
	ctx, cancel := context.WithCancel(context.Background())
	w := &plainWorld{cancel: cancel, raw: memory.New(ctx)}
	w.st = w.raw
	if backend == "hybrid" {
		w.st = hybrid.NewWithSharedCache(ctx, w.raw, nil, nil, hybrid.DefaultConfig())
	}
	for i := 0; i < nNodes; i++ {
		repo := repos.NewRepository(w.st)
		idm := idgen.NewIDManager(w.st, ctx)
		sp, _ := services.NewSimpleStatsProvider(w.st, ctx)
		pms := services.NewPortMappingService(repos.NewPortMappingRepo(repo), idm, sp.GetCounter(), ctx)
		w.nodes = append(w.nodes, services.NewConnectionCodeService(repos.NewConnectionCodeRepository(repo), pms, repos.NewPortMappingRepo(repo), nil, ctx))
	}
	return w
}

func (w *plainWorld) close() { w.cancel(); w.st.Close() }

// contend releases fn(i) on n goroutines together (two-phase spin barrier, bounded burn).
func contend(n int, fn func(i int)) {
	var ready, spinning atomic.Int32
	var armed, start atomic.Bool
	var wg sync.WaitGroup
	for i := 0; i < n; i++ {
		i := i
		wg.Add(1)
		go func() {
			defer wg.Done()
			ready.Add(1)
			for !armed.Load() {
				runtime.Gosched()
			}
			spinning.Add(1)
			for spins := 0; !start.Load(); spins++ {
				if spins > 200000 {
					runtime.Gosched()
				}
			}
			fn(i)
		}()
	}
	for int(ready.Load()) < n {
		runtime.Gosched()
	}
	armed.Store(true)
	for int(spinning.Load()) < n {
		runtime.Gosched()
	}
	start.Store(true)
	wg.Wait()
}

func roundContention(t vkit.TB, c Case) {
	backend := c.Gran // "memory" | "hybrid"
	nNodes := 1
	if c.SecondNode {
		nNodes = 2
	}
	w := newPlainWorld(backend, nNodes)
	defer w.close()
	ttl := time.Hour
	if c.CodeTTL > 0 {
		ttl = time.Duration(c.CodeTTL) * time.Second
	}
	code, err := w.nodes[0].CreateConnectionCode(&services.CreateConnectionCodeRequest{TargetClientID: targetClient, TargetAddress: targetAddr, ActivationTTL: ttl, CreatedBy: "verif"})
	if err != nil {
		vkit.Violation(t, "C06/harness/setup-failed", err.Error(), c)
		return
	}
	type res struct {
		m   *models.PortMapping
		err error
	}
	results := make([]res, c.NAct)
	var revErr error
	n := c.NAct
	if c.Revoke {
		n++
	}
	contend(n, func(i int) {
		svc := w.nodes[i%nNodes]
		if i == c.NAct {
			revErr = svc.RevokeConnectionCode(code.Code, "verif")
			return
		}
		listen := listenBase + int64(i)
		if c.SameClient {
			listen = listenBase
		}
		results[i].m, results[i].err = svc.ActivateConnectionCode(&services.ActivateConnectionCodeRequest{Code: code.Code, ListenClientID: listen, ListenAddress: fmt.Sprintf("0.0.0.0:%d", 9001+i)})
	})
	successes, outcomes := 0, ""
	var winner *models.PortMapping
	for i, r := range results {
		outcomes += fmt.Sprintf("A%d=%s ", i+1, errCode(r.err))
		if r.err == nil && r.m != nil {
			successes++
			winner = r.m
		}
	}
	revokeOK := c.Revoke && revErr == nil
	if c.Revoke {
		outcomes += "R=" + errCode(revErr)
	}
	raw, _ := w.raw.QueryByPrefix(pmPrefix, 0)
	var stored []*models.PortMapping
	for _, v := range raw {
		var m models.PortMapping
		if json.Unmarshal([]byte(v), &m) == nil && m.ID != "" {
			stored = append(stored, &m)
		}
	}
	who := "distinct clients"
	if c.SameClient {
		who = "one client"
	}
	detail := fmt.Sprintf("activation TTL %v, backend=%s, %d parallel activations by %s (+revoke=%v) of one fresh code over %d service stack(s): %d succeeded, revoke ok=%v, %d mapping record(s) stored [%s]", ttl, backend, c.NAct, who, c.Revoke, nNodes, successes, revokeOK, len(stored), outcomes)
	class := fmt.Sprintf("contention/%s/%dA/revoke=%v/same-client=%v", backend, c.NAct, c.Revoke, c.SameClient)
	pfx := "C06/contention/backend=" + backend + "/"
	switch {
	case successes > 1:
		vkit.Violation(t, pfx+"double-activation", detail, c)
	case revokeOK && successes >= 1:
		vkit.Violation(t, pfx+"revoked-code-activated", detail, c)
	case len(stored) != successes:
		vkit.Violation(t, pfx+"mapping-count-differs-from-successes", detail, c)
	case successes == 1 && (winner.TargetClientID != targetClient || winner.TargetAddress != targetAddr || stored[0].ID != winner.ID):
		vkit.Violation(t, pfx+"mapping-not-from-code", detail, c)
	case successes == 0 && !revokeOK:
		vkit.Violation(t, pfx+"nobody-won-a-valid-code", detail, c)
	default:
		vkit.Case(class, true, fmt.Sprintf("%s|%d|%v|%v|%v|%d", backend, c.NAct, c.Revoke, c.SameClient, c.SecondNode, c.CodeTTL))
		vkit.Class(fmt.Sprintf("contention-outcome:successes=%d,revoke_ok=%v", successes, revokeOK))
	}
}

func TestContention(t *testing.T) {
	vkit.Check(t, 4000, 60000, func(t *rapid.T) {
		c := Case{Mode: "contention", QuotaFull: -1, FailAt: -1, Rounds: 300,
			Gran:       rapid.SampledFrom([]string{"memory", "hybrid"}).Draw(t, "backend"),
			NAct:       rapid.SampledFrom([]int{2, 2, 3, 3, 4, 4, 6, 8}).Draw(t, "activators"),
			Revoke:     rapid.IntRange(0, 2).Draw(t, "revoke") == 0,
			SameClient: rapid.IntRange(0, 3).Draw(t, "sameClient") == 0,
			SecondNode: rapid.Bool().Draw(t, "twoStacks"),
			CodeTTL:    rapid.SampledFrom(append([]int{0}, codeTTLs...)).Draw(t, "codeTTLSeconds"),
		}
		roundContention(t, c)
	})
}
