package c06

import (
	"fmt"
	"strings"
	"testing"
	"time"

	"pgregory.net/rapid"

	"tunnox-core/internal/cloud/models"
	"tunnox-core/internal/cloud/services"
	"tunnox-core/verif/vkit"
)

// Sequential histories: create / revoke / let expire / activate in any order, on two
// nodes over one store, with at most one failing storage write per activation, against a model.

type Step struct {
	Kind   string `json:"kind"` // create | activate | revoke | expire | activate_unknown
	Code   int    `json:"code,omitempty"`
	Target int    `json:"target,omitempty"`
	Short  bool   `json:"short_ttl,omitempty"`
	Listen int    `json:"listen,omitempty"`
	FailAt int    `json:"fail_at"`
	Node   int    `json:"node,omitempty"`
}

const (
	shortTTL = 120 * time.Millisecond
	margin   = 30 * time.Millisecond
)

var seqTargets = []struct {
	id   int64
	addr string
	host string
	port int
}{{70000001, "tcp://10.0.0.5:8080", "10.0.0.5", 8080}, {70000002, "tcp://192.168.7.7:5432", "192.168.7.7", 5432}}

type mcode struct {
	rec    *models.TunnelConnectionCode
	target int
	state  string // active | activated | revoked | unknown
}

func runSequential(t vkit.TB, c Case) {
	w := newWorldWith(2, &services.ConnectionCodeServiceConfig{MaxActiveCodesPerClient: 10, MaxActiveMappingsPerClient: c.MaxMap}, false, nil, c.Cluster, c.Persistent)
	defer w.close()
	var codes []*mcode
	good := map[string]int64{} // mapping id -> listen client, for every successful activation
	perListen := map[int64]int{}
	var tags []string
	nontrivial := false
	hadExpiredAttempt, hadFault := false, false

	checkStore := func(step int, cause string) bool {
		if rollbackFault(cause) {
			// the single failing write was one of the rollback's own writes (the activation had already failed
			// for another reason, e.g. the code expired between the validity read and the marking): what the
			// rollback could not remove is not attributed to the activation logic. Counted, case abandoned.
			leftover := len(w.mappings()) != len(good)
			for l := int64(0); l < 3 && !leftover; l++ {
				for _, id := range w.indexEntries(listenBase + l) {
					if _, ok := good[id]; !ok {
						leftover = true
					}
				}
			}
			if leftover {
				vkit.Excluded(1)
				vkit.Class("excluded:failing write was a rollback write")
				return false
			}
		}
		have := map[string]bool{}
		for _, m := range w.mappings() {
			have[m.ID] = true
			if _, ok := good[m.ID]; !ok {
				vkit.Violation(t, "C06/failed-activation-leaves-mapping/"+cause, fmt.Sprintf("step %d: mapping %s (listen %d -> %d %s) is in storage but no successful activation returned it; steps=%s", step, m.ID, m.ListenClientID, m.TargetClientID, m.TargetAddress, strings.Join(tags, " ")), c)
				return false
			}
		}
		for id := range good {
			if !have[id] {
				vkit.Violation(t, "C06/sequential/mapping-of-successful-activation-missing", fmt.Sprintf("step %d: %s; steps=%s", step, id, strings.Join(tags, " ")), c)
				return false
			}
		}
		for l := int64(0); l < 3; l++ {
			for _, id := range w.indexEntries(listenBase + l) {
				if _, ok := good[id]; !ok {
					vkit.Violation(t, "C06/failed-activation-leaves-index-entry/"+cause, fmt.Sprintf("step %d: listen client %d index lists %s; steps=%s", step, listenBase+l, id, strings.Join(tags, " ")), c)
					return false
				}
			}
		}
		return true
	}

	for si, s := range c.Steps {
		n := w.nodes[s.Node%2]
		switch s.Kind {
		case "create":
			if len(codes) >= 4 {
				continue
			}
			ttl := time.Hour
			if c.CodeTTL > 0 {
				ttl = time.Duration(c.CodeTTL) * time.Second
			}
			if s.Short {
				ttl = shortTTL
			}
			tg := seqTargets[s.Target%2]
			rec, err := n.cc.CreateConnectionCode(&services.CreateConnectionCodeRequest{TargetClientID: tg.id, TargetAddress: tg.addr, ActivationTTL: ttl, CreatedBy: "verif"})
			if err != nil {
				vkit.Violation(t, "C06/harness/create-failed", err.Error(), c)
				return
			}
			codes = append(codes, &mcode{rec: rec, target: s.Target % 2, state: "active"})
			tags = append(tags, fmt.Sprintf("create(t%d,short=%v)", s.Target%2, s.Short))
		case "expire":
			var until time.Time
			for _, mc := range codes {
				if e := mc.rec.ActivationExpiresAt.Add(margin + 5*time.Millisecond); mc.rec.ActivationTTL == shortTTL && e.After(until) {
					until = e
				}
			}
			if d := time.Until(until); d > 0 {
				time.Sleep(d)
			}
			tags = append(tags, "expire")
		case "revoke":
			if len(codes) == 0 {
				continue
			}
			mc := codes[s.Code%len(codes)]
			err := n.cc.RevokeConnectionCode(mc.rec.Code, "verif")
			tags = append(tags, fmt.Sprintf("revoke(c%d)=%s", s.Code%len(codes), errCode(err)))
			if err == nil && (mc.state == "active" || mc.state == "unknown") {
				mc.state = "revoked"
			}
		case "activate", "activate_unknown":
			listen := listenBase + int64(s.Listen%3)
			addr := fmt.Sprintf("0.0.0.0:%d", 9100+si)
			codeStr := "zzz-zzz-zz9"
			var mc *mcode
			if s.Kind == "activate" && len(codes) > 0 {
				mc = codes[s.Code%len(codes)]
				codeStr = mc.rec.Code
			}
			w.store.mu.Lock()
			w.store.Failed = ""
			w.store.mu.Unlock()
			w.store.arm(s.FailAt)
			t0 := time.Now()
			m, err := n.cc.ActivateConnectionCode(&services.ActivateConnectionCodeRequest{Code: codeStr, ListenClientID: listen, ListenAddress: addr})
			t1 := time.Now()
			w.store.disarm()
			faulted := w.store.Failed != ""
			cause := "no-fault/" + errCode(err)
			if faulted {
				cause = "fault@" + faultClass(w.store.Failed)
				hadFault = true
				vkit.Class("seq-fault:" + faultClass(w.store.Failed))
			}
			ok := err == nil && m != nil
			st := "unknown-code"
			surelyExpired, surelyFresh := false, true
			if mc != nil {
				st = mc.state
				surelyExpired = t0.After(mc.rec.ActivationExpiresAt.Add(margin))
				surelyFresh = t1.Before(mc.rec.ActivationExpiresAt.Add(-margin))
				if !surelyExpired && !surelyFresh {
					vkit.Skipped(1) // boundary zone: either outcome accepted
				}
				if surelyExpired {
					st += "+expired"
					hadExpiredAttempt = true
				}
			}
			tags = append(tags, fmt.Sprintf("activate(%s,l%d,n%d,f%d)=%s", st, s.Listen%3, s.Node%2, s.FailAt, errCode(err)))
			if st != "active" {
				nontrivial = true
			}
			if ok {
				switch {
				case mc == nil:
					vkit.Violation(t, "C06/sequential/unknown-code-activated", strings.Join(tags, " "), c)
					return
				case mc.state == "revoked":
					vkit.Violation(t, "C06/sequential/revoked-code-activated", strings.Join(tags, " "), c)
					return
				case mc.state == "activated":
					vkit.Violation(t, "C06/sequential/used-code-activated-again", strings.Join(tags, " "), c)
					return
				case surelyExpired:
					vkit.Violation(t, "C06/sequential/expired-code-activated", fmt.Sprintf("activation started %v after expiry; %s", t0.Sub(mc.rec.ActivationExpiresAt), strings.Join(tags, " ")), c)
					return
				}
				tg := seqTargets[mc.target]
				if m.TargetClientID != tg.id || m.TargetAddress != tg.addr || m.TargetHost != tg.host || m.TargetPort != tg.port {
					vkit.Violation(t, "C06/mapping-target-not-from-code", fmt.Sprintf("code fixed (%d,%s); mapping targets (%d,%s,%s:%d); %s", tg.id, tg.addr, m.TargetClientID, m.TargetAddress, m.TargetHost, m.TargetPort, strings.Join(tags, " ")), c)
					return
				}
				if m.ListenClientID != listen || m.ListenAddress != addr {
					vkit.Violation(t, "C06/mapping-not-listening-for-activator", fmt.Sprintf("activator %d at %s; mapping listens for %d at %s", listen, addr, m.ListenClientID, m.ListenAddress), c)
					return
				}
				mc.state = "activated"
				good[m.ID] = listen
				perListen[listen]++
				// the stored record must say the same
				byCode, _ := w.codeRecord(mc.rec.Code, mc.rec.ID)
				if surelyFresh && (byCode == nil || !byCode.IsActivated || byCode.MappingID == nil || *byCode.MappingID != m.ID) {
					vkit.Violation(t, "C06/code-record-not-activated-after-success/by-code/sequential/"+cause, recStr(byCode)+" "+strings.Join(tags, " "), c)
					return
				}
			} else {
				if mc != nil && mc.state == "active" && surelyFresh && !faulted && perListen[listen] < c.MaxMap {
					vkit.Violation(t, "C06/sequential/valid-code-refused/"+errCode(err), fmt.Sprintf("%v; %s", err, strings.Join(tags, " ")), c)
					return
				}
				if mc != nil && faulted && mc.state == "active" {
					mc.state = "unknown" // the failed write may have left the code marked used
				}
			}
			if !checkStore(si, cause) {
				return
			}
		}
	}
	if !checkStore(len(c.Steps), "end") {
		return
	}
	class := "seq"
	if hadFault {
		class += "+fault"
	}
	if hadExpiredAttempt {
		class += "+expired-attempt"
	}
	vkit.Case(class, nontrivial, fmt.Sprintf("%d|%s", c.MaxMap, strings.Join(tags, " ")))
	vkit.Sample(class, map[string]any{"steps": tags, "max_mappings": c.MaxMap})
}

func TestSequentialHistories(t *testing.T) {
	stepGen := rapid.Custom(func(t *rapid.T) Step {
		kind := rapid.SampledFrom([]string{"create", "create", "activate", "activate", "activate", "activate", "activate", "revoke", "revoke", "expire", "activate_unknown"}).Draw(t, "kind")
		s := Step{Kind: kind, FailAt: -1}
		switch kind {
		case "create":
			s.Target = rapid.IntRange(0, 1).Draw(t, "target")
			s.Short = rapid.Bool().Draw(t, "short")
		case "activate", "activate_unknown":
			s.Code = rapid.IntRange(0, 3).Draw(t, "code")
			s.Listen = rapid.IntRange(0, 2).Draw(t, "listen")
			s.FailAt = rapid.SampledFrom([]int{-1, -1, -1, 0, 1, 2, 3, 4, 5, 6, 7, 8, 9}).Draw(t, "failAt")
		case "revoke":
			s.Code = rapid.IntRange(0, 3).Draw(t, "code")
		}
		s.Node = rapid.IntRange(0, 1).Draw(t, "node")
		return s
	})
	vkit.Check(t, 480, 12000, func(t *rapid.T) {
		c := Case{Mode: "sequential", FailAt: -1, QuotaFull: -1,
			MaxMap:     rapid.SampledFrom([]int{1, 2, 50}).Draw(t, "maxMappings"),
			Cluster:    rapid.Bool().Draw(t, "cluster"),
			Persistent: rapid.IntRange(0, 2).Draw(t, "persistent") == 0,
			CodeTTL:    rapid.SampledFrom(codeTTLs).Draw(t, "longCodeTTLSeconds"),
		}
		first := Step{Kind: "create", Target: rapid.IntRange(0, 1).Draw(t, "t0"), Short: rapid.Bool().Draw(t, "short0"), FailAt: -1}
		c.Steps = append([]Step{first}, rapid.SliceOfN(stepGen, 1, 12).Draw(t, "steps")...)
		runSequential(t, c)
	})
}

// rollbackFault: the injected failure hit a write that only the rollback of an already failed
// activation performs (removing index entries / the mapping record / the id marker).
func rollbackFault(cause string) bool {
	return strings.HasPrefix(cause, "fault@RemoveFromList:") || strings.HasPrefix(cause, "fault@Delete:") ||
		(strings.HasPrefix(cause, "fault@tier:") && strings.Contains(cause, ".Delete:"))
}
