package c06

import "testing"

type Step struct {
	Kind string `json:"kind"`
}

func runSequential(t *testing.T, c Case) {}
