package c06

import (
	"context"
	"encoding/json"
	"fmt"
	"path/filepath"
	"strings"
	"sync/atomic"
	"testing"
	"time"

	appserver "tunnox-core/internal/app/server"
	"tunnox-core/internal/cloud/models"
	"tunnox-core/internal/cloud/repos"
	"tunnox-core/internal/cloud/services"
	"tunnox-core/internal/core/idgen"
	"tunnox-core/internal/core/storage"
	"tunnox-core/internal/core/storage/hybrid"
	"tunnox-core/verif/vkit"
)

// Stop-and-restart histories on the storage the SERVER builds (StorageComponent.Initialize ->
// createStorage, here the standalone persistent deployment: memory cache + JSON file, no shared
// cache): the server process dies at the k-th storage write of an activation (nothing after that
// write happens), what had been written is on disk, the server starts again from the same file and
// the same code is activated again (by another client and by the same one). One code must never
// end up with more than one mapping record.

type processDied struct{}

// crashStore is the server's storage; armed, the process "dies" at the k-th write.
type crashStore struct {
	*hybrid.Storage
	armed  atomic.Bool
	dead   atomic.Bool
	failAt int32
	seen   atomic.Int32
	at     string
}

func (s *crashStore) w(op, key string) error {
	if s.dead.Load() {
		return fmt.Errorf("process is gone")
	}
	if s.armed.Load() {
		if s.seen.Add(1)-1 == s.failAt {
			s.dead.Store(true)
			s.at = op + ":" + strings.TrimPrefix(normKey(key), "tunnox:")
			panic(processDied{})
		}
	}
	return nil
}
func (s *crashStore) Set(k string, v any, ttl time.Duration) error {
	if err := s.w("Set", k); err != nil {
		return err
	}
	return s.Storage.Set(k, v, ttl)
}
func (s *crashStore) SetNX(k string, v any, ttl time.Duration) (bool, error) {
	if err := s.w("SetNX", k); err != nil {
		return false, err
	}
	return s.Storage.SetNX(k, v, ttl)
}
func (s *crashStore) Delete(k string) error {
	if err := s.w("Delete", k); err != nil {
		return err
	}
	return s.Storage.Delete(k)
}
func (s *crashStore) AppendToList(k string, v any) error {
	if err := s.w("AppendToList", k); err != nil {
		return err
	}
	return s.Storage.AppendToList(k, v)
}
func (s *crashStore) RemoveFromList(k string, v any) error {
	if err := s.w("RemoveFromList", k); err != nil {
		return err
	}
	return s.Storage.RemoveFromList(k, v)
}
func (s *crashStore) SetHash(k, f string, v any) error {
	if err := s.w("SetHash", k); err != nil {
		return err
	}
	return s.Storage.SetHash(k, f, v)
}

type serverLife struct {
	st     *crashStore
	cc     *services.ConnectionCodeService
	cancel context.CancelFunc
}

func startServerLife(cfg *appserver.Config) (*serverLife, error) {
	ctx, cancel := context.WithCancel(context.Background())
	deps := &appserver.Dependencies{Config: cfg}
	if err := (&appserver.StorageComponent{}).Initialize(ctx, deps); err != nil {
		cancel()
		return nil, err
	}
	hs, ok := deps.Storage.(*hybrid.Storage)
	if !ok {
		cancel()
		return nil, fmt.Errorf("server storage is %T", deps.Storage)
	}
	st := &crashStore{Storage: hs}
	repo := repos.NewRepository(st)
	pmRepo := repos.NewPortMappingRepo(repo)
	sp, _ := services.NewSimpleStatsProvider(st, ctx)
	pms := services.NewPortMappingService(pmRepo, idgen.NewIDManager(st, ctx), sp.GetCounter(), ctx)
	cc := services.NewConnectionCodeService(repos.NewConnectionCodeRepository(repo), pms, repos.NewPortMappingRepo(repo), nil, ctx)
	return &serverLife{st: st, cc: cc, cancel: cancel}, nil
}

func (l *serverLife) flush() error {
	if js, ok := l.st.GetPersistentStorage().(*storage.JSONStorage); ok {
		return js.Flush()
	}
	return fmt.Errorf("persistent tier is %T", l.st.GetPersistentStorage())
}

func (l *serverLife) mappingsFor(target int64, addr string) []string {
	seen := map[string]bool{}
	var ids []string
	add := func(m map[string]string) {
		for _, v := range m {
			var pm models.PortMapping
			if json.Unmarshal([]byte(v), &pm) == nil && pm.TargetClientID == target && pm.TargetAddress == addr && !seen[pm.ID] {
				seen[pm.ID] = true
				ids = append(ids, fmt.Sprintf("%s(listen %d)", pm.ID, pm.ListenClientID))
			}
		}
	}
	if q, ok := l.st.GetPersistentStorage().(interface {
		QueryByPrefix(string, int) (map[string]string, error)
	}); ok {
		if m, err := q.QueryByPrefix(pmPrefix, 0); err == nil {
			add(m)
		}
	}
	return ids
}

func runRestart(t vkit.TB, c Case, dir string) {
	cfg := &appserver.Config{}
	cfg.Persistence.Enabled = true
	cfg.Persistence.File = filepath.Join(dir, fmt.Sprintf("tunnox-%d-%d.json", c.FailAt, c.NAct))
	cfg.Persistence.AutoSave = false
	cfg.Persistence.SaveInterval = 30
	l1, err := startServerLife(cfg)
	if err != nil {
		vkit.Violation(t, "C06/harness/server-storage", err.Error(), c)
		return
	}
	defer l1.cancel()
	code, err := l1.cc.CreateConnectionCode(&services.CreateConnectionCodeRequest{TargetClientID: targetClient, TargetAddress: targetAddr, ActivationTTL: time.Hour, CreatedBy: "verif"})
	if err != nil {
		vkit.Violation(t, "C06/harness/setup-failed", err.Error(), c)
		return
	}
	// first life: the process dies at the k-th storage write of the activation
	l1.st.failAt = int32(c.FailAt)
	l1.st.armed.Store(true)
	done := make(chan string, 1)
	go func() {
		defer func() {
			if r := recover(); r != nil {
				if _, ok := r.(processDied); !ok {
					panic(r)
				}
				done <- "died"
				return
			}
		}()
		_, err := l1.cc.ActivateConnectionCode(&services.ActivateConnectionCodeRequest{Code: code.Code, ListenClientID: listenBase, ListenAddress: "0.0.0.0:9001"})
		done <- "returned:" + errCode(err)
	}()
	first := <-done
	l1.st.armed.Store(false)
	if err := l1.flush(); err != nil {
		vkit.Violation(t, "C06/harness/flush", err.Error(), c)
		return
	}
	// second life from the same data
	l2, err := startServerLife(cfg)
	if err != nil {
		vkit.Violation(t, "C06/harness/server-storage", err.Error(), c)
		return
	}
	defer l2.cancel()
	var outcomes []string
	for i := 0; i < c.NAct; i++ {
		listen := listenBase + int64(1-i%2) // another client first, then the same one
		_, err := l2.cc.ActivateConnectionCode(&services.ActivateConnectionCodeRequest{Code: code.Code, ListenClientID: listen, ListenAddress: fmt.Sprintf("0.0.0.0:%d", 9002+i)})
		outcomes = append(outcomes, fmt.Sprintf("listen %d=%s", listen, errCode(err)))
	}
	l2.flush()
	ids := l2.mappingsFor(targetClient, targetAddr)
	at := l1.st.at
	if at == "" {
		at = "none(" + first + ")"
	}
	if len(ids) > 1 {
		vkit.Violation(t, "C06/double-activation/after-restart/stopped@"+at, fmt.Sprintf("standalone persistent deployment built by the server's storage wiring: first activation %s at storage write #%d (%s); restart from the same data file; activations after the restart: %v; the code now has %d mapping records: %v",
			first, c.FailAt, at, outcomes, len(ids), ids), c)
		return
	}
	vkit.Case("restart/stopped@"+at, first == "died", fmt.Sprintf("restart|%d|%d", c.FailAt, c.NAct))
}

func TestStopAndRestart(t *testing.T) {
	dir := t.TempDir()
	job := 0
	for k := 0; k <= 11; k++ {
		for n := 1; n <= 2; n++ {
			job++
			if !vkit.Mine(job) {
				continue
			}
			runRestart(t, Case{Mode: "restart", FailAt: k, NAct: n, QuotaFull: -1}, dir)
		}
	}
	vkit.Exhaustive("stop-at-every-storage-write x restart (standalone persistent server storage)", true)
}
