package c06

import (
	"context"
	"encoding/json"
	"fmt"
	"sort"
	"strings"
	"sync"
	"time"

	"tunnox-core/internal/cloud/models"
	"tunnox-core/internal/cloud/repos"
	"tunnox-core/internal/cloud/services"
	"tunnox-core/internal/core/idgen"
	"tunnox-core/internal/core/storage/hybrid"
	stypes "tunnox-core/internal/core/storage/types"
	"tunnox-core/verif/vkit"
)

// faultStore is the storage facade the repositories see: the real hybrid.Storage, with
// the ability to make exactly one write operation (counted in execution order while
// armed) return an error without being performed. Scheduling happens one level below,
// at the gated cache tier; fault injection happens here because in the memory-only
// hybrid configuration a failed tier write of a shared+persistent key is swallowed by
// the facade (that is C14's finding, not the subject of C06).
type faultStore struct {
	*hybrid.Storage
	mu     sync.Mutex
	armed  bool
	failAt int // index among writes while armed; -1 none
	seen   int
	Writes []string // "Op key" of every write while armed
	Failed string   // the write that failed ("" none)
}

func (f *faultStore) w(op, key string) error {
	f.mu.Lock()
	defer f.mu.Unlock()
	if !f.armed {
		return nil
	}
	i := f.seen
	f.seen++
	f.Writes = append(f.Writes, op+" "+key)
	if i == f.failAt {
		f.Failed = op + " " + key
		return fmt.Errorf("%w (%s %s)", vkit.ErrGateFault, op, key)
	}
	return nil
}

func (f *faultStore) arm(failAt int) { f.mu.Lock(); f.armed, f.failAt, f.seen = true, failAt, 0; f.mu.Unlock() }
func (f *faultStore) disarm()        { f.mu.Lock(); f.armed = false; f.mu.Unlock() }

func (f *faultStore) Set(k string, v any, ttl time.Duration) error {
	if err := f.w("Set", k); err != nil {
		return err
	}
	return f.Storage.Set(k, v, ttl)
}
func (f *faultStore) Delete(k string) error {
	if err := f.w("Delete", k); err != nil {
		return err
	}
	return f.Storage.Delete(k)
}
func (f *faultStore) SetList(k string, v []any, ttl time.Duration) error {
	if err := f.w("SetList", k); err != nil {
		return err
	}
	return f.Storage.SetList(k, v, ttl)
}
func (f *faultStore) AppendToList(k string, v any) error {
	if err := f.w("AppendToList", k); err != nil {
		return err
	}
	return f.Storage.AppendToList(k, v)
}
func (f *faultStore) RemoveFromList(k string, v any) error {
	if err := f.w("RemoveFromList", k); err != nil {
		return err
	}
	return f.Storage.RemoveFromList(k, v)
}
func (f *faultStore) SetNX(k string, v any, ttl time.Duration) (bool, error) {
	if err := f.w("SetNX", k); err != nil {
		return false, err
	}
	return f.Storage.SetNX(k, v, ttl)
}
func (f *faultStore) SetHash(k, fld string, v any) error {
	if err := f.w("SetHash", k); err != nil {
		return err
	}
	return f.Storage.SetHash(k, fld, v)
}
func (f *faultStore) DeleteHash(k, fld string) error {
	if err := f.w("DeleteHash", k); err != nil {
		return err
	}
	return f.Storage.DeleteHash(k, fld)
}
func (f *faultStore) Incr(k string) (int64, error) {
	if err := f.w("Incr", k); err != nil {
		return 0, err
	}
	return f.Storage.Incr(k)
}
func (f *faultStore) IncrBy(k string, n int64) (int64, error) {
	if err := f.w("IncrBy", k); err != nil {
		return 0, err
	}
	return f.Storage.IncrBy(k, n)
}
func (f *faultStore) SetExpiration(k string, ttl time.Duration) error {
	if err := f.w("SetExpiration", k); err != nil {
		return err
	}
	return f.Storage.SetExpiration(k, ttl)
}

// node is one server's service stack (what components_session.go + builtin_factory.go wire).
type node struct {
	repo     *repos.Repository
	codeRepo *repos.ConnectionCodeRepository
	pmRepo   *repos.PortMappingRepo
	pms      services.PortMappingService
	cc       *services.ConnectionCodeService
}

type world struct {
	ctx    context.Context
	cancel context.CancelFunc
	g      *vkit.Gate
	cache  *vkit.GateCache
	store  *faultStore
	nodes  []*node
}

// newWorld builds nNodes service stacks over one store. gated=false leaves the gate nil
// (sequential histories).
func newWorld(nNodes int, cfg *services.ConnectionCodeServiceConfig, gated bool) *world {
	return newWorldWith(nNodes, cfg, gated, nil)
}

// sel (optional) chooses which cache-tier operations are scheduling points.
func newWorldWith(nNodes int, cfg *services.ConnectionCodeServiceConfig, gated bool, sel func(string) bool) *world {
	ctx, cancel := context.WithCancel(context.Background())
	w := &world{ctx: ctx, cancel: cancel}
	if gated {
		w.g = vkit.NewGate()
		// no lock of the code under test is held across a storage operation in these programs, so a
		// "stall" can only be a runnable task that the loaded machine has not scheduled yet: wait long.
		w.g.Stall = 5 * time.Second
	}
	w.cache = vkit.NewGateCache(w.g, "cache")
	var tier stypes.CacheStorage = w.cache
	if sel != nil {
		tier = &selCache{GateCache: w.cache, sel: sel}
	}
	h := hybrid.NewWithSharedCache(ctx, tier, nil, nil, hybrid.DefaultConfig())
	w.store = &faultStore{Storage: h, failAt: -1}
	for i := 0; i < nNodes; i++ {
		n := &node{repo: repos.NewRepository(w.store)}
		n.codeRepo = repos.NewConnectionCodeRepository(n.repo)
		n.pmRepo = repos.NewPortMappingRepo(n.repo)
		idm := idgen.NewIDManager(w.store, ctx)
		sp, _ := services.NewSimpleStatsProvider(w.store, ctx)
		n.pms = services.NewPortMappingService(n.pmRepo, idm, sp.GetCounter(), ctx)
		n.cc = services.NewConnectionCodeService(n.codeRepo, n.pms, repos.NewPortMappingRepo(n.repo), cfg, ctx)
		w.nodes = append(w.nodes, n)
	}
	return w
}

func (w *world) close() {
	if w.g != nil {
		w.g.Deactivate()
	}
	w.cancel()
	w.store.Storage.Close()
}

// ---- ungated observation of the store (oracle side) -------------------------------

const (
	pmPrefix     = "tunnox:port_mapping:"
	clientIdxPfx = "tunnox:client_mappings:"
)

// mappings returns every port-mapping record in storage, sorted by id.
func (w *world) mappings() []*models.PortMapping {
	raw, _ := w.cache.Raw().QueryByPrefix(pmPrefix, 0)
	var out []*models.PortMapping
	for _, v := range raw {
		var m models.PortMapping
		if json.Unmarshal([]byte(v), &m) == nil && m.ID != "" {
			out = append(out, &m)
		}
	}
	sort.Slice(out, func(i, j int) bool { return out[i].ID < out[j].ID })
	return out
}

// indexEntries returns the mapping ids listed in a client's mapping index.
func (w *world) indexEntries(clientID int64) []string {
	l, err := w.cache.Raw().GetList(fmt.Sprintf("%s%d", clientIdxPfx, clientID))
	if err != nil {
		return nil
	}
	var ids []string
	for _, it := range l {
		s, _ := it.(string)
		var m models.PortMapping
		if json.Unmarshal([]byte(s), &m) == nil {
			ids = append(ids, m.ID)
		}
	}
	return ids
}

// codeRecord reads both copies of a code record (nil = absent).
func (w *world) codeRecord(code, id string) (byCode, byID *models.TunnelConnectionCode) {
	rd := func(key string) *models.TunnelConnectionCode {
		v, err := w.cache.Raw().Get(key)
		if err != nil {
			return nil
		}
		s, _ := v.(string)
		var c models.TunnelConnectionCode
		if json.Unmarshal([]byte(s), &c) != nil {
			return nil
		}
		return &c
	}
	return rd("tunnox:runtime:conncode:code:" + code), rd("tunnox:runtime:conncode:id:" + id)
}

// normKey replaces run-specific random identifiers in storage keys so that schedules
// compare equal across runs.
func normKey(k string) string {
	for _, p := range []string{pmPrefix, "tunnox:id:used:pmap:", "tunnox:runtime:conncode:code:", "tunnox:runtime:conncode:id:", "tunnox:runtime:conncode:claim:"} {
		if strings.HasPrefix(k, p) {
			return p + "*"
		}
	}
	return k
}

func normSteps(log []vkit.Step) string {
	var b strings.Builder
	for i, s := range log {
		if i > 0 {
			b.WriteString(" ; ")
		}
		b.WriteString(s.Task + ":" + strings.TrimPrefix(s.Op, "cache.") + "(" + strings.TrimPrefix(normKey(s.Key), "tunnox:") + ")")
	}
	return b.String()
}
