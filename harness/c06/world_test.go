package c06

import (
	"context"
	"encoding/json"
	"fmt"
	"sort"
	"strings"
	"sync"
	"sync/atomic"
	"time"

	"tunnox-core/internal/cloud/models"
	"tunnox-core/internal/cloud/repos"
	"tunnox-core/internal/cloud/services"
	"tunnox-core/internal/core/idgen"
	"tunnox-core/internal/core/storage/hybrid"
	stypes "tunnox-core/internal/core/storage/types"
	"tunnox-core/verif/vkit"
)

// faultStore is the storage facade the repositories see: the real hybrid.Storage, with
// the ability to make exactly one write operation (counted in execution order while
// armed) return an error without being performed. Scheduling happens one level below,
// at the gated cache tier; fault injection happens here because in the memory-only
// hybrid configuration a failed tier write of a shared+persistent key is swallowed by
// the facade (that is C14's finding, not the subject of C06).
type faultCtl struct {
	mu     sync.Mutex
	armed  bool
	failAt int // index among writes while armed; -1 none
	seen   int
	Writes []string // "Op key" of every write while armed
	Failed string   // the write that failed ("" none)
}

// faultStore is one node's facade; all nodes share one faultCtl (write indices count across nodes).
type faultStore struct {
	*hybrid.Storage
	*faultCtl
}

func (f *faultCtl) w(op, key string) error {
	f.mu.Lock()
	defer f.mu.Unlock()
	if !f.armed {
		return nil
	}
	i := f.seen
	f.seen++
	f.Writes = append(f.Writes, op+" "+key)
	if i == f.failAt {
		f.Failed = op + " " + key
		return fmt.Errorf("%w (%s %s)", vkit.ErrGateFault, op, key)
	}
	return nil
}

func (f *faultCtl) arm(failAt int) {
	f.mu.Lock()
	f.armed, f.failAt, f.seen = true, failAt, 0
	f.mu.Unlock()
}
func (f *faultCtl) disarm() { f.mu.Lock(); f.armed = false; f.mu.Unlock() }

func (f *faultStore) Set(k string, v any, ttl time.Duration) error {
	if err := f.w("Set", k); err != nil {
		return err
	}
	return f.Storage.Set(k, v, ttl)
}
func (f *faultStore) Delete(k string) error {
	if err := f.w("Delete", k); err != nil {
		return err
	}
	return f.Storage.Delete(k)
}
func (f *faultStore) SetList(k string, v []any, ttl time.Duration) error {
	if err := f.w("SetList", k); err != nil {
		return err
	}
	return f.Storage.SetList(k, v, ttl)
}
func (f *faultStore) AppendToList(k string, v any) error {
	if err := f.w("AppendToList", k); err != nil {
		return err
	}
	return f.Storage.AppendToList(k, v)
}
func (f *faultStore) RemoveFromList(k string, v any) error {
	if err := f.w("RemoveFromList", k); err != nil {
		return err
	}
	return f.Storage.RemoveFromList(k, v)
}
func (f *faultStore) SetNX(k string, v any, ttl time.Duration) (bool, error) {
	if err := f.w("SetNX", k); err != nil {
		return false, err
	}
	return f.Storage.SetNX(k, v, ttl)
}
func (f *faultStore) SetHash(k, fld string, v any) error {
	if err := f.w("SetHash", k); err != nil {
		return err
	}
	return f.Storage.SetHash(k, fld, v)
}
func (f *faultStore) DeleteHash(k, fld string) error {
	if err := f.w("DeleteHash", k); err != nil {
		return err
	}
	return f.Storage.DeleteHash(k, fld)
}
func (f *faultStore) Incr(k string) (int64, error) {
	if err := f.w("Incr", k); err != nil {
		return 0, err
	}
	return f.Storage.Incr(k)
}
func (f *faultStore) IncrBy(k string, n int64) (int64, error) {
	if err := f.w("IncrBy", k); err != nil {
		return 0, err
	}
	return f.Storage.IncrBy(k, n)
}
func (f *faultStore) SetExpiration(k string, ttl time.Duration) error {
	if err := f.w("SetExpiration", k); err != nil {
		return err
	}
	return f.Storage.SetExpiration(k, ttl)
}

// node is one server's service stack (what components_session.go + builtin_factory.go wire).
type node struct {
	repo     *repos.Repository
	codeRepo *repos.ConnectionCodeRepository
	pmRepo   *repos.PortMappingRepo
	pms      services.PortMappingService
	cc       *services.ConnectionCodeService
}

type world struct {
	ctx    context.Context
	cancel context.CancelFunc
	g      *vkit.Gate
	cache  *vkit.GateCache // the tier that holds the cross-node data (oracle reads it ungated)
	locals []*vkit.GateCache
	store  *faultCtl
	hs     []*hybrid.Storage
	nodes  []*node
	pers   *vkit.GatePersistent // persistent tier (nil: memory-only hybrid)
	persF  *persFaults
	pre    func(op, key string) // optional hook: a task arrives at a tier write (see selCache.pre)
}

// newWorld builds nNodes service stacks over one store. gated=false leaves the gate nil
// (sequential histories).
func newWorld(nNodes int, cfg *services.ConnectionCodeServiceConfig, gated bool) *world {
	return newWorldWith(nNodes, cfg, gated, nil, false, false)
}

// sel (optional) chooses which cache-tier operations are scheduling points.
//
// cluster=false: every service stack uses ONE hybrid store (one cache tier).
// cluster=true: the multi-node deployment: each node has its own hybrid.Storage with its own
// node-local cache and all nodes share one shared cache tier (the Redis role); which keys are
// cross-node is decided by hybrid's key classes, exactly as on a real cluster.
// stallNanos is the gate's stall threshold. It starts long (on the unchanged tree nothing blocks outside the
// gate, so a "stall" can only be a runnable task the loaded machine has not scheduled yet); once schedules
// with genuine stalls have been seen (code under test that blocks a task on another task outside the gate)
// it drops, so that such a tree does not cost 5 s per schedule.
var stallNanos atomic.Int64
var stallsSeen atomic.Int32

func init() { stallNanos.Store(int64(5 * time.Second)) }

func noteStalls(n int) {
	if n > 0 && stallsSeen.Add(1) >= 2 {
		stallNanos.Store(int64(40 * time.Millisecond))
	}
}

// persist=true: hybrid with EnablePersistent over a persistent-store double shared by all nodes (every
// persistent-class write goes to it first, then to the cache tier); its operations are not scheduling points.
func newWorldWith(nNodes int, cfg *services.ConnectionCodeServiceConfig, gated bool, sel func(string) bool, cluster bool, persist bool) *world {
	ctx, cancel := context.WithCancel(context.Background())
	w := &world{ctx: ctx, cancel: cancel, store: &faultCtl{failAt: -1}}
	if gated {
		w.g = vkit.NewGate()
		// no lock of the code under test is held across a storage operation in these programs, so a
		// "stall" can only be a runnable task that the loaded machine has not scheduled yet: wait long.
		w.g.Stall = time.Duration(stallNanos.Load())
	}
	var pers stypes.PersistentStorage
	hcfg := func() *hybrid.Config {
		c := hybrid.DefaultConfig()
		c.EnablePersistent = persist
		return c
	}
	if persist {
		w.pers = vkit.NewGatePersistent(nil, "pers")
		w.persF = &persFaults{GatePersistent: w.pers}
		pers = w.persF
		if w.g != nil {
			w.g.Grace = 400 * time.Microsecond // hybrid's asynchronous cache write-back goroutines are adopted as tasks
		}
	}
	wrap := func(c *vkit.GateCache) stypes.CacheStorage {
		if sel != nil {
			return &selCache{GateCache: c, sel: sel, pre: func(op, k string) {
				if w.pre != nil {
					w.pre(op, k)
				}
			}}
		}
		return c
	}
	if cluster {
		w.cache = vkit.NewGateCache(w.g, "shared")
	} else {
		w.cache = vkit.NewGateCache(w.g, "cache")
	}
	var single *hybrid.Storage
	for i := 0; i < nNodes; i++ {
		var h *hybrid.Storage
		switch {
		case cluster:
			local := vkit.NewGateCache(w.g, fmt.Sprintf("local%d", i+1))
			w.locals = append(w.locals, local)
			h = hybrid.NewWithSharedCache(ctx, wrap(local), wrap(w.cache), pers, hcfg())
			w.hs = append(w.hs, h)
		case single == nil:
			single = hybrid.NewWithSharedCache(ctx, wrap(w.cache), nil, pers, hcfg())
			w.hs = append(w.hs, single)
			h = single
		default:
			h = single
		}
		st := &faultStore{Storage: h, faultCtl: w.store}
		n := &node{repo: repos.NewRepository(st)}
		n.codeRepo = repos.NewConnectionCodeRepository(n.repo)
		n.pmRepo = repos.NewPortMappingRepo(n.repo)
		idm := idgen.NewIDManager(st, ctx)
		sp, _ := services.NewSimpleStatsProvider(st, ctx)
		n.pms = services.NewPortMappingService(n.pmRepo, idm, sp.GetCounter(), ctx)
		n.cc = services.NewConnectionCodeService(n.codeRepo, n.pms, repos.NewPortMappingRepo(n.repo), cfg, ctx)
		w.nodes = append(w.nodes, n)
	}
	return w
}

func (w *world) close() {
	if w.g != nil {
		w.g.Deactivate()
	}
	w.cancel()
	for _, h := range w.hs {
		h.Close()
	}
}

// ---- ungated observation of the store (oracle side) -------------------------------

const (
	pmPrefix     = "tunnox:port_mapping:"
	clientIdxPfx = "tunnox:client_mappings:"
)

// mappings returns every port-mapping record in storage, sorted by id.
func (w *world) mappings() []*models.PortMapping {
	// a mapping record counts wherever it is stored: cache tier or persistent tier
	raw, _ := w.cache.Raw().QueryByPrefix(pmPrefix, 0)
	if w.pers != nil {
		if pm, _ := w.pers.QueryByPrefix(pmPrefix, 0); pm != nil {
			for k, v := range pm {
				if _, ok := raw[k]; !ok {
					raw[k] = v
				}
			}
		}
	}
	var out []*models.PortMapping
	for _, v := range raw {
		var m models.PortMapping
		if json.Unmarshal([]byte(v), &m) == nil && m.ID != "" {
			out = append(out, &m)
		}
	}
	sort.Slice(out, func(i, j int) bool { return out[i].ID < out[j].ID })
	return out
}

// indexEntries returns the mapping ids listed in a client's mapping index.
func (w *world) indexEntries(clientID int64) []string { return w.indexEntriesFor(clientID, "") }

// indexEntriesFor: only entries whose mapping listens at addr ("" = all).
func (w *world) indexEntriesFor(clientID int64, addr string) []string {
	l, err := w.cache.Raw().GetList(fmt.Sprintf("%s%d", clientIdxPfx, clientID))
	if err != nil {
		return nil
	}
	var ids []string
	for _, it := range l {
		s, _ := it.(string)
		var m models.PortMapping
		if json.Unmarshal([]byte(s), &m) == nil && (addr == "" || m.ListenAddress == addr) {
			ids = append(ids, m.ID)
		}
	}
	return ids
}

// codeRecord reads both copies of a code record (nil = absent).
func (w *world) codeRecord(code, id string) (byCode, byID *models.TunnelConnectionCode) {
	rd := func(key string) *models.TunnelConnectionCode {
		v, err := w.cache.Raw().Get(key)
		if err != nil {
			return nil
		}
		s, _ := v.(string)
		var c models.TunnelConnectionCode
		if json.Unmarshal([]byte(s), &c) != nil {
			return nil
		}
		return &c
	}
	return rd("tunnox:runtime:conncode:code:" + code), rd("tunnox:runtime:conncode:id:" + id)
}

// normKey replaces run-specific random identifiers in storage keys so that schedules
// compare equal across runs.
func normKey(k string) string {
	for _, p := range []string{pmPrefix, "tunnox:id:used:pmap:", "tunnox:runtime:conncode:code:", "tunnox:runtime:conncode:id:", "tunnox:runtime:conncode:claim:"} {
		if strings.HasPrefix(k, p) {
			return p + "*"
		}
	}
	return k
}

func normSteps(log []vkit.Step) string {
	var b strings.Builder
	for i, s := range log {
		if i > 0 {
			b.WriteString(" ; ")
		}
		b.WriteString(s.Task + ":" + strings.TrimPrefix(s.Op, "cache.") + "(" + strings.TrimPrefix(normKey(s.Key), "tunnox:") + ")")
	}
	return b.String()
}

// persFaults can make the k-th Set of a mapping record on the PERSISTENT tier fail (the record is not stored there).
type persFaults struct {
	*vkit.GatePersistent
	mu     sync.Mutex
	failAt int // 1-based; 0 none
	seen   int
	Fired  string
}

func (p *persFaults) arm(k int) { p.mu.Lock(); p.failAt, p.seen, p.Fired = k, 0, ""; p.mu.Unlock() }

func (p *persFaults) Set(key string, value any) error {
	if strings.HasPrefix(key, pmPrefix) {
		p.mu.Lock()
		hit := false
		if p.failAt > 0 {
			p.seen++
			hit = p.seen == p.failAt
			if hit {
				p.Fired = key
			}
		}
		p.mu.Unlock()
		if hit {
			return fmt.Errorf("%w (persistent Set %s)", vkit.ErrGateFault, key)
		}
	}
	return p.GatePersistent.Set(key, value)
}
