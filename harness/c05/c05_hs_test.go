package c05

import (
	"encoding/json"
	"fmt"
	"runtime"
	"strings"
	"testing"
	"time"

	"pgregory.net/rapid"

	"tunnox-core/internal/packet"
	"tunnox-core/verif/vkit"
	"tunnox-core/verif/vkit/miniserver"
)

// ---------------------------------------------------------------------------
// TestHandshakeSequences — the pre-authentication state machine needs more than one packet to be
// reached: a phase-one handshake for an EXISTING client id stores a challenge, and only then does a
// phase-two message get as far as the response verification. Sequences of 1..4 handshake packets on
// one fresh connection, with response fields of every shape an attacker can send (hex of the wrong
// length, upper case, non-hex, odd length, huge).

type HSStep struct {
	Client string `json:"client"` // existing | unknown | zero | negative
	Resp   string `json:"resp"`   // "" (phase one) or a shape name
	Token  string `json:"token,omitempty"`
	Type   string `json:"type,omitempty"`
}

type HSCase struct {
	HSSeq bool     `json:"hs_sequence"`
	Steps []HSStep `json:"steps"`
}

var hsExisting = map[*miniserver.Server]int64{}

func hsResp(kind string) string {
	switch kind {
	case "hex64":
		return strings.Repeat("ab", 32)
	case "HEX64":
		return strings.Repeat("AB", 32)
	case "hex62":
		return strings.Repeat("ab", 31)
	case "hex66":
		return strings.Repeat("ab", 33)
	case "hex128":
		return strings.Repeat("0f", 64)
	case "hex4000":
		return strings.Repeat("c3", 2000)
	case "odd":
		return strings.Repeat("a", 65)
	case "nonhex":
		return strings.Repeat("zz", 32)
	case "unicode":
		return strings.Repeat("é", 40)
	case "nul":
		return "ab\x00cd"
	}
	return ""
}

var hsRespKinds = []string{"", "", "hex64", "HEX64", "hex62", "hex66", "hex128", "hex4000", "odd", "nonhex", "unicode", "nul"}

func runHS(t vkit.TB, c HSCase) {
	srv, err := server()
	if err != nil {
		t.Fatalf("harness: %v", err)
	}
	id, ok := hsExisting[srv]
	if !ok {
		cl, err := srv.Cloud.GenerateAnonymousCredentials()
		if err != nil {
			t.Fatalf("harness: %v", err)
		}
		id = cl.ID
		hsExisting[srv] = id
	}
	cl, err := srv.Connect("8.8.4.4:4041")
	if err != nil {
		t.Fatalf("harness: %v", err)
	}
	defer cl.CloseByPeer()
	vkit.Journal("handshake-sequence", c)
	type res struct{ panic string }
	done := make(chan res, 1)
	go func() {
		var r res
		defer func() {
			if x := recover(); x != nil {
				buf := make([]byte, 4096)
				n := runtime.Stack(buf, false)
				r.panic = fmt.Sprintf("%v\n%s", x, buf[:n])
			}
			done <- r
		}()
		for _, s := range c.Steps {
			req := &packet.HandshakeRequest{Version: "2.0", Protocol: "tcp", ConnectionType: s.Type, Token: s.Token, ChallengeResponse: hsResp(s.Resp)}
			switch s.Client {
			case "existing":
				req.ClientID = id
			case "unknown":
				req.ClientID = 99999999
			case "negative":
				req.ClientID = -5
			}
			b, _ := json.Marshal(req)
			cl.Push(&packet.TransferPacket{PacketType: packet.Handshake, Payload: b})
		}
	}()
	var r res
	select {
	case r = <-done:
	case <-time.After(15 * time.Second):
		vkit.Violation(t, "C05/dispatcher-does-not-return/handshake-sequence", "HandlePacket blocked > 15 s", c)
		return
	}
	if r.panic != "" {
		where := "unknown"
		for _, l := range strings.Split(r.panic, "\n") {
			if strings.HasPrefix(l, "tunnox-core/internal/") && !strings.Contains(l, "verif") {
				where = strings.SplitN(strings.TrimPrefix(l, "tunnox-core/internal/"), "(", 2)[0]
				break
			}
		}
		vkit.Violation(t, "C05/dispatcher-panic/"+where, r.panic, c)
		return
	}
	if n := cl.Near.Pending(); n > 1<<20 {
		vkit.Violation(t, "C05/dispatcher-unbounded-reply", fmt.Sprintf("%d bytes written in reply to a handshake sequence", n), c)
		return
	}
	reached := false
	for i, s := range c.Steps {
		if i > 0 && s.Resp != "" && c.Steps[i-1].Client == "existing" && c.Steps[i-1].Resp == "" && s.Client == "existing" {
			reached = true
		}
	}
	vkit.Case("handshake-sequence", reached, fmt.Sprint(c))
}

func TestHandshakeSequences(t *testing.T) {
	vkit.Check(t, 4000, 120000, func(t *rapid.T) {
		c := HSCase{HSSeq: true}
		for n := rapid.IntRange(1, 4).Draw(t, "n"); n > 0; n-- {
			c.Steps = append(c.Steps, HSStep{
				Client: rapid.SampledFrom([]string{"existing", "existing", "existing", "unknown", "zero", "negative"}).Draw(t, "client"),
				Resp:   rapid.SampledFrom(hsRespKinds).Draw(t, "resp"),
				Token:  rapid.SampledFrom([]string{"", "", "new-client", "anonymous:x"}).Draw(t, "token"),
				Type:   rapid.SampledFrom([]string{"", "control", "tunnel", "weird"}).Draw(t, "type"),
			})
		}
		runHS(t, c)
	})
	// every response shape right after a phase one for the existing client
	for _, k := range hsRespKinds[2:] {
		runHS(t, HSCase{HSSeq: true, Steps: []HSStep{{Client: "existing", Type: "control"}, {Client: "existing", Resp: k, Type: "control"}}})
	}
	if srvPool != nil {
		srvPool.Close()
		srvPool = nil
	}
}
