package c05

import (
	"github.com/gorilla/mux"
	"tunnox-core/internal/httpservice"
	wsmodule "tunnox-core/internal/httpservice/modules/websocket"

	"bytes"
	"context"
	"encoding/binary"
	"fmt"
	"io"
	"net"
	"net/http"
	"net/http/httptest"
	"runtime"
	"strings"
	"testing"
	"time"

	"github.com/gorilla/websocket"
	"pgregory.net/rapid"

	"tunnox-core/internal/protocol/adapter"
	"tunnox-core/internal/stream"
	"tunnox-core/verif/vkit"
	"tunnox-core/verif/vkit/miniserver"
)

// ---------------------------------------------------------------------------
// The layers the stream factory puts UNDER the packet decoder on a raw connection: the chunked AEAD
// reader (StreamFactoryConfig.EnableEncryption) and the stream-level gzip reader. An unauthenticated
// peer controls every byte they see (it needs no key to send a chunk header). Same oracle as the
// plain decoder: a packet or an error, no panic, no hang on a finite stream, bounded allocation.

type LayerCase struct {
	Layers string `json:"layers"` // enc | gzip | enc+gzip
	Hex    string `json:"layer_hex"`
	Chunk  int    `json:"read_chunk"`
}

var layerKey = bytes.Repeat([]byte{0x42}, 32)

func layerCfg(layers string) *stream.StreamFactoryConfig {
	cfg := stream.DefaultStreamFactoryConfig()
	cfg.EnableEncryption = strings.Contains(layers, "enc")
	cfg.EncryptionKey = layerKey
	cfg.EnableCompression = strings.Contains(layers, "gzip")
	if i := strings.Index(layers, "rate="); i >= 0 {
		// the token-bucket reader/writer the factory puts directly on the raw connection
		cfg.EnableRateLimit = true
		fmt.Sscanf(layers[i:], "rate=%d", &cfg.RateLimitBytes)
	}
	return cfg
}

func decodeLayered(layers string, data []byte, chunk int) (r decResult) {
	ctx, cancel := context.WithCancel(context.Background())
	defer cancel()
	cr := &vkit.ChunkReader{Data: data, Fixed: chunk}
	if chunk == 0 {
		cr.Fixed = len(data) + 1
	}
	cfg := layerCfg(layers)
	sp := stream.NewConfigurableStreamFactory(ctx, cfg).CreateStreamProcessorWithConfig(cr, io.Discard, cfg)
	defer sp.Close()
	done := make(chan struct{})
	go func() {
		defer close(done)
		defer func() {
			if p := recover(); p != nil {
				r.panicked = fmt.Sprint(p)
			}
		}()
		var ms0, ms1 runtime.MemStats
		for i := 0; i < 64; i++ {
			runtime.ReadMemStats(&ms0)
			pkt, _, err := sp.ReadPacket()
			runtime.ReadMemStats(&ms1)
			if d := ms1.TotalAlloc - ms0.TotalAlloc; d > r.allocMax {
				r.allocMax = d
			}
			if err != nil {
				r.err = err
				return
			}
			r.packets++
			if n := len(pkt.Payload); n > r.maxPay {
				r.maxPay = n
			}
		}
	}()
	select {
	case <-done:
	case <-time.After(10 * time.Second):
		r.hung = true
	}
	return
}

// validLayered: what the real writer side produces for inner (a hostile or valid packet stream).
func validLayered(layers string, inner []byte) []byte {
	ctx, cancel := context.WithCancel(context.Background())
	defer cancel()
	var w bytes.Buffer
	cfg := layerCfg(layers)
	sp := stream.NewConfigurableStreamFactory(ctx, cfg).CreateStreamProcessorWithConfig(bytes.NewReader(nil), &w, cfg)
	if ww := sp.GetWriter(); ww != nil {
		ww.Write(inner)
		if f, ok := ww.(interface{ Flush() error }); ok {
			f.Flush()
		}
		if c, ok := ww.(io.Closer); ok {
			c.Close()
		}
	}
	sp.Close()
	return w.Bytes()
}

var hostileChunkLens = []uint32{0, 1, 2, 8, 15, 16, 17, 28, 65536 + 15, 65536 + 16, 65536 + 17, 1 << 20, 1 << 31, 0xFFFFFFFF}

func layerOracle(t vkit.TB, c LayerCase) {
	data := make([]byte, len(c.Hex)/2)
	fmt.Sscanf(c.Hex, "%x", &data)
	r := decodeLayered(c.Layers, data, c.Chunk)
	if r.hung {
		r = decodeLayered(c.Layers, data, c.Chunk) // re-run once before reporting
	}
	switch {
	case r.panicked != "":
		vkit.Violation(t, "C05/decoder-panic/layer="+c.Layers, r.panicked, c)
		return
	case r.hung:
		vkit.Violation(t, "C05/decoder-does-not-return/layer="+c.Layers, fmt.Sprintf("%d-byte finite stream", len(data)), c)
		return
	case r.allocMax > allocBoundPerPacket:
		vkit.Violation(t, "C05/unbounded-allocation/layer="+c.Layers, fmt.Sprintf("%d bytes allocated while decoding one packet (bound %d)", r.allocMax, allocBoundPerPacket), c)
		return
	}
	out := "error"
	if r.packets > 0 {
		out = "packets"
	}
	vkit.Case("layer:"+c.Layers+"/"+out, true, c.Layers+c.Hex[:min(len(c.Hex), 80)]+fmt.Sprint(len(c.Hex), c.Chunk))
}

func TestDecoderLayers(t *testing.T) {
	vkit.Check(t, 2400, 120000, func(t *rapid.T) {
		c := LayerCase{Layers: rapid.SampledFrom([]string{"enc", "enc", "gzip", "enc+gzip"}).Draw(t, "layers"), Chunk: rapid.SampledFrom([]int{0, 1, 3, 7, 64}).Draw(t, "chunk")}
		var s []byte
		switch rapid.IntRange(0, 3).Draw(t, "kind") {
		case 0: // hostile chunk headers: length field, nonce, as many "ciphertext" bytes as announced (or fewer)
			for n := rapid.IntRange(1, 3).Draw(t, "nchunks"); n > 0; n-- {
				l := rapid.SampledFrom(hostileChunkLens).Draw(t, "chunkLen")
				var h [4]byte
				binary.BigEndian.PutUint32(h[:], l)
				s = append(s, h[:]...)
				s = append(s, rapid.SliceOfN(rapid.Byte(), 12, 24).Draw(t, "nonce")...)
				have := int(l)
				if have > 70000 {
					have = rapid.SampledFrom([]int{0, 5, 70000}).Draw(t, "have")
				}
				if rapid.IntRange(0, 3).Draw(t, "short") == 0 && have > 0 {
					have = rapid.IntRange(0, have-1).Draw(t, "shortBy")
				}
				s = append(s, bytes.Repeat([]byte{0xA5}, have)...)
			}
		case 1: // what the real writer produces for a valid or hostile inner packet stream, then mutated
			inner := genValidStream(t)
			if rapid.Bool().Draw(t, "hostileInner") {
				inner = rapid.SliceOfN(rapid.Byte(), 0, 300).Draw(t, "inner")
			}
			s = validLayered(c.Layers, inner)
			for k := rapid.IntRange(0, 3).Draw(t, "nmut"); k > 0 && len(s) > 0; k-- {
				pos := rapid.IntRange(0, len(s)-1).Draw(t, "pos")
				switch rapid.IntRange(0, 3).Draw(t, "mut") {
				case 0:
					s[pos] ^= byte(1 << uint(rapid.IntRange(0, 7).Draw(t, "bit")))
				case 1:
					s = s[:pos]
				case 2:
					s = append(s, rapid.SliceOfN(rapid.Byte(), 1, 40).Draw(t, "trail")...)
				case 3:
					if len(s) >= 4 {
						binary.BigEndian.PutUint32(s[0:4], rapid.SampledFrom(hostileChunkLens).Draw(t, "len"))
					}
				}
			}
		case 2:
			s = rapid.SliceOfN(rapid.Byte(), 0, 200).Draw(t, "raw")
		case 3: // a gzip member header followed by garbage / a valid small member truncated
			s = append([]byte{0x1f, 0x8b, 0x08, 0}, rapid.SliceOfN(rapid.Byte(), 0, 100).Draw(t, "gz")...)
		}
		c.Hex = fmt.Sprintf("%x", s)
		layerOracle(t, c)
	})
}

// TestDecoderLayersChunkLengths: every chunk length 0..40 and the values around the limit, complete
// and one byte short, for the encrypted configurations.
func TestDecoderLayersChunkLengths(t *testing.T) {
	if vkit.Shard() != 0 {
		t.Skip("single shard")
	}
	var lens []uint32
	for l := uint32(0); l <= 40; l++ {
		lens = append(lens, l)
	}
	lens = append(lens, 65536+15, 65536+16, 65536+17, 1<<31, 0xFFFFFFFF)
	for _, layers := range []string{"enc", "enc+gzip"} {
		for _, l := range lens {
			for _, short := range []int{0, 1} {
				var h [4]byte
				binary.BigEndian.PutUint32(h[:], l)
				s := append(h[:], bytes.Repeat([]byte{7}, 12)...)
				have := int(l)
				if have > 70000 {
					have = 100
				}
				if have-short >= 0 {
					have -= short
				}
				s = append(s, bytes.Repeat([]byte{0xA5}, have)...)
				layerOracle(t, LayerCase{Layers: layers, Hex: fmt.Sprintf("%x", s)})
			}
		}
	}
	vkit.Exhaustive("encrypted chunk length 0..40 and limit neighbourhood x complete/short", true)
}

// TestRateLimitedDecoder: the factory's rate-limit layer (a token bucket on the raw connection) under
// the decoder. A finite stream of well-formed packets whose bodies are smaller than, equal to and larger
// than the bucket's burst size must be decoded (or refused) in bounded time: at these rates every case
// needs well under 4 s of token time; "does not return" is judged at 10 s, twice.
func TestRateLimitedDecoder(t *testing.T) {
	i := 0
	for _, rate := range []int{300, 800, 1000, 1024, 2048, 1 << 20} {
		burst := rate / 2
		if rate >= 1024 && burst < 1024 {
			burst = 1024
		}
		if burst > rate {
			burst = rate
		}
		for _, body := range []int{0, 1, burst - 1, burst, burst + 1, 2*burst + 7, 1100} {
			if body < 0 || body > 3*rate {
				continue
			}
			for _, ty := range []byte{0x01, 0x22} {
				i++
				if !vkit.Mine(i) {
					continue
				}
				if !vkit.Thorough() && ty == 0x22 && body != burst+1 {
					continue
				}
				s := append(frame(ty, bytes.Repeat([]byte{'x'}, body)), frame(0x24, nil)...)
				layerOracle(t, LayerCase{Layers: fmt.Sprintf("rate=%d", rate), Hex: fmt.Sprintf("%x", s), Chunk: 0})
				vkit.Class(fmt.Sprintf("rate-limit:body-vs-burst=%d", sign(body-burst)))
			}
		}
	}
	vkit.Exhaustive("rate x body size around the burst size", true)
}

func sign(x int) int {
	switch {
	case x < 0:
		return -1
	case x > 0:
		return 1
	}
	return 0
}

// ---------------------------------------------------------------------------
// The WebSocket transport under the decoder: the peer chooses the message TYPES too. A text, ping or
// empty message anywhere in the stream, then the peer hangs up: ReadPacket must keep returning (packets
// or an error) and must notice the end of the connection.

type WSMsgCase struct {
	Msgs []WSMsg `json:"ws_msgs"`
	Rig  string  `json:"ws_rig,omitempty"` // "" = the protocol adapter's server connection; "module" = the HTTP service's WebSocket module
}
type WSMsg struct {
	Kind string `json:"kind"` // binary | text | ping | pong | empty
	Hex  string `json:"hex"`
}

func runWSMsgs(t vkit.TB, c WSMsgCase) (key, detail string) {
	var cc *websocket.Conn
	var srv io.ReadWriteCloser
	if c.Rig == "module" {
		module := wsmodule.NewWebSocketModule(context.Background(), &httpservice.WebSocketModuleConfig{Enabled: true})
		router := mux.NewRouter()
		module.RegisterRoutes(router)
		hs := httptest.NewServer(router)
		defer hs.Close()
		var err error
		cc, _, err = websocket.DefaultDialer.Dial("ws"+strings.TrimPrefix(hs.URL, "http")+"/_tunnox", nil)
		if err != nil {
			t.Fatalf("HARNESS-ERROR websocket dial: %v", err)
		}
		select {
		case sc := <-module.GetConnChan():
			srv = sc
		case <-time.After(10 * time.Second):
			t.Fatalf("HARNESS-ERROR the module did not hand out the connection")
		}
	} else {
		up := websocket.Upgrader{}
		ch := make(chan *websocket.Conn, 1)
		ts := httptest.NewServer(http.HandlerFunc(func(w http.ResponseWriter, r *http.Request) {
			if cn, err := up.Upgrade(w, r, nil); err == nil {
				ch <- cn
			}
		}))
		defer ts.Close()
		var err error
		cc, _, err = websocket.DefaultDialer.Dial("ws"+strings.TrimPrefix(ts.URL, "http"), nil)
		if err != nil {
			t.Fatalf("HARNESS-ERROR websocket dial: %v", err)
		}
		var sc *websocket.Conn
		select {
		case sc = <-ch:
		case <-time.After(10 * time.Second):
			t.Fatalf("HARNESS-ERROR websocket accept timed out")
		}
		srv = adapter.VerifNewWSServerConn(sc, "127.0.0.1:1")
	}
	defer cc.Close()
	defer srv.Close()
	sp := stream.NewStreamProcessor(srv, srv, context.Background())
	defer sp.Close()
	done := make(chan string, 1)
	go func() {
		defer func() {
			if p := recover(); p != nil {
				done <- "panic: " + fmt.Sprint(p)
			}
		}()
		for i := 0; i < 64; i++ {
			if _, _, err := sp.ReadPacket(); err != nil {
				done <- ""
				return
			}
		}
		done <- ""
	}()
	for _, m := range c.Msgs {
		b := make([]byte, len(m.Hex)/2)
		fmt.Sscanf(m.Hex, "%x", &b)
		switch m.Kind {
		case "binary":
			cc.WriteMessage(websocket.BinaryMessage, b)
		case "empty":
			cc.WriteMessage(websocket.BinaryMessage, nil)
		case "text":
			cc.WriteMessage(websocket.TextMessage, b)
		case "ping":
			cc.WriteControl(websocket.PingMessage, b[:min(len(b), 100)], time.Now().Add(time.Second))
		case "pong":
			cc.WriteControl(websocket.PongMessage, b[:min(len(b), 100)], time.Now().Add(time.Second))
		}
	}
	cc.WriteControl(websocket.CloseMessage, websocket.FormatCloseMessage(websocket.CloseNormalClosure, ""), time.Now().Add(time.Second))
	cc.Close() // the peer hangs up: the stream is finite
	select {
	case p := <-done:
		if p != "" {
			return "C05/decoder-panic/websocket-message-types" + rigTag(c.Rig), p
		}
	case <-time.After(10 * time.Second):
		return "C05/decoder-does-not-return/websocket-message-types" + rigTag(c.Rig), "the peer sent its messages and closed the connection; ReadPacket is still blocked 10 s later"
	}
	return "", ""
}

func rigTag(r string) string {
	if r == "" {
		return ""
	}
	return "/rig=" + r
}

func TestWebSocketMessageTypes(t *testing.T) {
	vkit.Check(t, 320, 16000, func(t *rapid.T) {
		var c WSMsgCase
		c.Rig = rapid.SampledFrom([]string{"", "", "module"}).Draw(t, "rig")
		inner := genValidStream(t)
		nonBinary := false
		if rapid.IntRange(0, 3).Draw(t, "oversized") == 0 {
			// a header in one message, then ONE message larger than the announced body (and larger than the
			// buffer a reader would allocate for it)
			l := rapid.SampledFrom([]int{0, 1, 10, 4095, 4096, 5000}).Draw(t, "announced")
			var h [5]byte
			h[0] = rapid.SampledFrom([]byte{0x01, 0x22, 0x10}).Draw(t, "type")
			binary.BigEndian.PutUint32(h[1:], uint32(l))
			c.Msgs = append(c.Msgs, WSMsg{Kind: "binary", Hex: fmt.Sprintf("%x", h[:])})
			big := rapid.SampledFrom([]int{l + 1, 4096, 4097, 5000, 8193, 70000}).Draw(t, "big")
			c.Msgs = append(c.Msgs, WSMsg{Kind: "binary", Hex: fmt.Sprintf("%x", bytes.Repeat([]byte{0x5a}, big))})
		}
		for n := rapid.IntRange(1, 6).Draw(t, "nmsgs"); n > 0; n-- {
			k := rapid.SampledFrom([]string{"binary", "binary", "binary", "text", "ping", "pong", "empty"}).Draw(t, "kind")
			var b []byte
			switch rapid.IntRange(0, 2).Draw(t, "payload") {
			case 0:
				if len(inner) > 0 {
					cut := rapid.IntRange(0, len(inner)).Draw(t, "cut")
					b, inner = inner[:cut], inner[cut:]
				}
			case 1:
				b = rapid.SliceOfN(rapid.Byte(), 0, 60).Draw(t, "bytes")
			case 2:
				b = []byte(rapid.StringN(0, 30, 60).Draw(t, "str"))
			}
			if k != "binary" {
				nonBinary = true
			}
			c.Msgs = append(c.Msgs, WSMsg{Kind: k, Hex: fmt.Sprintf("%x", b)})
		}
		key, detail := runWSMsgs(t, c)
		if key != "" {
			vkit.Violation(t, key, detail, c)
			return
		}
		vkit.Case("ws-message-types", nonBinary, fmt.Sprint(c))
	})
}

// ---------------------------------------------------------------------------
// TestSilentPeer — a finite stream in TIME: a peer connects through a real protocol adapter
// (ListenFrom + accept loop + read loop + SessionManager), sends nothing or a truncated packet, stays
// silent for a while and then hangs up. The server must notice the end of the stream: the read loop
// returns and the connection is released (whatever read deadlines the adapter uses in between).

type SilentCase struct {
	Silent   bool   `json:"silent_peer"`
	Proto    string `json:"proto"`     // tcp | websocket
	Prefix   string `json:"prefix"`    // hex of what the peer sends before it goes silent
	SilentMs int    `json:"silent_ms"` // how long it stays silent before closing
}

func runSilent(t vkit.TB, c SilentCase) (key, detail string, skipped bool) {
	srv, err := miniserver.New(miniserver.Options{})
	if err != nil {
		t.Fatalf("harness: %v", err)
	}
	defer srv.Close()
	var a interface {
		ListenFrom(addr string) error
		Close() error
	}
	switch c.Proto {
	case "tcp":
		a = adapter.NewTcpAdapter(context.Background(), srv.SM)
	case "websocket":
		a = adapter.NewWebSocketAdapter(context.Background(), srv.SM)
	}
	addr := ""
	for try := 0; try < 20 && addr == ""; try++ {
		l, err := net.Listen("tcp", "127.0.0.1:0")
		if err != nil {
			continue
		}
		cand := l.Addr().String()
		l.Close()
		if a.ListenFrom(cand) == nil {
			addr = cand
		}
	}
	if addr == "" {
		return "", "", true
	}
	defer a.Close()
	prefix := make([]byte, len(c.Prefix)/2)
	fmt.Sscanf(c.Prefix, "%x", &prefix)
	var closePeer func()
	switch c.Proto {
	case "tcp":
		conn, err := net.DialTimeout("tcp", addr, 5*time.Second)
		if err != nil {
			return "", "", true
		}
		conn.Write(prefix)
		closePeer = func() { conn.Close() }
	case "websocket":
		conn, _, err := websocket.DefaultDialer.Dial("ws://"+addr+"/_tunnox", nil)
		if err != nil {
			return "", "", true
		}
		if len(prefix) > 0 {
			conn.WriteMessage(websocket.BinaryMessage, prefix)
		}
		closePeer = func() { conn.Close() }
	}
	// the server has the connection
	deadline := time.Now().Add(5 * time.Second)
	for srv.SM.GetConnectionStats().TotalConnections == 0 && time.Now().Before(deadline) {
		time.Sleep(5 * time.Millisecond)
	}
	if srv.SM.GetConnectionStats().TotalConnections == 0 {
		closePeer()
		return "", "", true
	}
	time.Sleep(time.Duration(c.SilentMs) * time.Millisecond)
	closePeer()
	deadline = time.Now().Add(8 * time.Second)
	for time.Now().Before(deadline) {
		if srv.SM.GetConnectionStats().TotalConnections == 0 {
			return "", "", false
		}
		time.Sleep(20 * time.Millisecond)
	}
	return "C05/connection-not-released-after-peer-hung-up/" + c.Proto, fmt.Sprintf("the peer sent %d bytes, stayed silent for %d ms and closed the connection; 8 s later the server still holds the connection (read loop has not noticed the end of the stream)", len(prefix), c.SilentMs), false
}

func TestSilentPeer(t *testing.T) {
	// real time: a handful of cases per shard, run in parallel
	silences := []int{0, 300, 11500}
	if vkit.Thorough() {
		silences = append(silences, 21000, 32000, 47000)
	}
	prefixes := []string{"", "01", "2200000010aabb"} // nothing; a lone type byte; a packet announcing 16 bytes and carrying 2
	type job struct{ c SilentCase }
	var jobs []SilentCase
	idx := 0
	for _, proto := range []string{"tcp", "websocket"} {
		for _, ms := range silences {
			for _, p := range prefixes {
				idx++
				if vkit.Mine(idx) {
					jobs = append(jobs, SilentCase{Silent: true, Proto: proto, Prefix: p, SilentMs: ms})
				}
			}
		}
	}
	type out struct {
		c           SilentCase
		key, detail string
		skipped     bool
	}
	res := make(chan out, len(jobs))
	for _, c := range jobs {
		go func(c SilentCase) {
			k, d, s := runSilent(t, c)
			res <- out{c, k, d, s}
		}(c)
	}
	for range jobs {
		o := <-res
		switch {
		case o.skipped:
			vkit.Skipped(1)
		case o.key != "":
			vkit.Violation(t, o.key, o.detail, o.c)
		default:
			vkit.Case("silent-peer/"+o.c.Proto, o.c.SilentMs >= 10000, fmt.Sprint(o.c))
		}
	}
}
