// C05 — hostile bytes cannot crash the server or make it allocate without bound.
package c05

import (
	"bytes"
	"compress/gzip"
	"context"
	"encoding/binary"
	"encoding/json"
	"fmt"
	"io"
	"os"
	"runtime"
	"runtime/debug"
	"sort"
	"strings"
	"testing"
	"time"

	"pgregory.net/rapid"

	"tunnox-core/internal/constants"
	"tunnox-core/internal/packet"
	"tunnox-core/internal/stream"
	"tunnox-core/verif/vkit"
	"tunnox-core/verif/vkit/miniserver"
)

func TestMain(m *testing.M) {
	debug.SetGCPercent(100)
	vkit.Main(m, "C05")
}

const maxBody = constants.MaxPacketBodySize

// allocation allowed for decoding ONE packet: pool buffer + copy of the body (2x), bounded
// inflate with bytes.Buffer doubling (<= ~4x) and JSON decoding of the body (<= ~2x).
const allocBoundPerPacket = 8 * maxBody

// ---------------------------------------------------------------------------
// decoder

type DecCase struct {
	Kind   string `json:"kind"`
	Hex    string `json:"hex,omitempty"` // explicit stream (small cases)
	Type   byte   `json:"type,omitempty"`
	Len    uint32 `json:"declared_len,omitempty"`
	Inflat int    `json:"inflated_size,omitempty"`
	Trunc  int    `json:"truncate_at,omitempty"`
	Chunk  int    `json:"chunk,omitempty"`
	Pre    int    `json:"empty_packets_before,omitempty"` // exact-body: this many well-formed empty packets first
}

func gzipOf(n int, b byte) []byte {
	var buf bytes.Buffer
	w, _ := gzip.NewWriterLevel(&buf, gzip.BestCompression)
	chunk := bytes.Repeat([]byte{b}, 1<<16)
	for n > 0 {
		k := len(chunk)
		if k > n {
			k = n
		}
		w.Write(chunk[:k])
		n -= k
	}
	w.Close()
	return buf.Bytes()
}

func frame(t byte, body []byte) []byte {
	out := []byte{t}
	var l [4]byte
	binary.BigEndian.PutUint32(l[:], uint32(len(body)))
	out = append(out, l[:]...)
	return append(out, body...)
}

func (c DecCase) stream() []byte {
	switch c.Kind {
	case "explicit", "mutated":
		b := make([]byte, len(c.Hex)/2)
		fmt.Sscanf(c.Hex, "%x", &b)
		return b
	case "declared-length":
		// header declares Len, followed by fewer bytes than declared
		out := []byte{c.Type}
		var l [4]byte
		binary.BigEndian.PutUint32(l[:], c.Len)
		out = append(out, l[:]...)
		n := c.Trunc
		if n > 1<<20 {
			n = 1 << 20
		}
		return append(out, make([]byte, n)...)
	case "exact-body":
		// a well-formed packet: the header declares Len and exactly Len body bytes follow, after Pre
		// well-formed empty packets on the same connection
		var out []byte
		for i := 0; i < c.Pre; i++ {
			out = append(out, frame([]byte{0x01, 0x20, 0x22, 0x24}[i%4], nil)...)
		}
		return append(out, frame(c.Type, make([]byte, c.Len))...)
	case "gzip-bomb":
		s := frame(c.Type|byte(packet.Compressed), gzipOf(c.Inflat, 'A'))
		if c.Trunc > 0 && c.Trunc < len(s) {
			s = s[:c.Trunc]
		}
		return s
	case "gzip-corrupt":
		z := gzipOf(c.Inflat, 'B')
		if len(z) > 12 {
			z[len(z)-5] ^= 0xFF // CRC
		}
		return frame(c.Type|byte(packet.Compressed), z)
	case "gzip-concat":
		z := append(gzipOf(c.Inflat, 'C'), gzipOf(c.Inflat, 'D')...)
		return frame(c.Type|byte(packet.Compressed), z)
	}
	return nil
}

type decResult struct {
	packets   int
	maxPay    int
	allocMax  uint64
	err       error
	hung      bool
	panicked  string
	pastCheck bool
}

func decodeOnce(data []byte, chunk int) (r decResult) { return decodeN(data, chunk, 64) }

func decodeN(data []byte, chunk int, limit int) (r decResult) {
	cr := &vkit.ChunkReader{Data: data, Fixed: chunk}
	sp := stream.NewStreamProcessor(cr, io.Discard, context.Background())
	defer sp.Close()
	done := make(chan struct{})
	go func() {
		defer close(done)
		defer func() {
			if p := recover(); p != nil {
				r.panicked = fmt.Sprint(p)
			}
		}()
		var ms0, ms1 runtime.MemStats
		for i := 0; i < limit; i++ {
			if limit <= 64 {
				runtime.ReadMemStats(&ms0)
			}
			pkt, _, err := sp.ReadPacket()
			if limit <= 64 {
				runtime.ReadMemStats(&ms1)
				if d := ms1.TotalAlloc - ms0.TotalAlloc; d > r.allocMax {
					r.allocMax = d
				}
			}
			if err != nil {
				r.err = err
				return
			}
			r.packets++
			n := len(pkt.Payload)
			if pkt.CommandPacket != nil {
				n = len(pkt.CommandPacket.CommandBody)
			}
			if n > r.maxPay {
				r.maxPay = n
			}
		}
	}()
	select {
	case <-done:
	case <-time.After(10 * time.Second):
		r.hung = true
	}
	return
}

func decodeOracle(t vkit.TB, c DecCase) {
	data := c.stream()
	vkit.Journal("decoder", c)
	limit := 64
	if c.Pre+2 > limit {
		limit = c.Pre + 2
	}
	r := decodeN(data, c.Chunk, limit)
	if r.hung {
		r = decodeN(data, c.Chunk, limit) // re-run once before reporting
	}
	class := "dec:" + c.Kind
	flagged := len(data) > 0 && data[0]&byte(packet.Compressed) != 0
	nt := r.packets > 0 || flagged
	switch {
	case r.panicked != "":
		vkit.Violation(t, "C05/decoder-panic/"+c.Kind, r.panicked, c)
		return
	case r.hung:
		vkit.Violation(t, "C05/decoder-does-not-return/"+c.Kind, fmt.Sprintf("%d-byte finite stream", len(data)), c)
		return
	case r.maxPay > maxBody:
		k := "C05/payload-exceeds-max-body"
		if flagged {
			k = "C05/decompressed-payload-exceeds-max-body"
		}
		vkit.Violation(t, k, fmt.Sprintf("returned payload of %d bytes (limit %d); %d bytes allocated for one packet", r.maxPay, maxBody, r.allocMax), c)
		return
	case r.allocMax > allocBoundPerPacket:
		k := "C05/unbounded-allocation"
		if flagged {
			k = "C05/unbounded-allocation-while-decompressing"
		}
		vkit.Violation(t, k, fmt.Sprintf("%d bytes allocated while decoding one packet (bound %d)", r.allocMax, allocBoundPerPacket), c)
		return
	}
	if c.Kind == "exact-body" && c.Len <= maxBody && c.Type&byte(packet.Compressed|packet.Encrypted) == 0 && c.Type&0x3F != 0x10 && c.Type&0x3F != 0x11 && c.Type&0x3F != 0x03 && r.packets != c.Pre+1 {
		vkit.Class("completeness-miss:well-formed-packet-not-decoded")
	}
	out := "error"
	if r.err == nil {
		out = "64-packets"
	} else if r.packets > 0 {
		out = "packets-then-error"
	}
	vkit.Case(class+"/"+out, nt, fmt.Sprintf("%s|%x|%d|%d|%s|%d", c.Kind, c.Type, c.Len, c.Inflat, out, len(data)))
	if nt {
		vkit.Sample(class, map[string]any{"case": c, "stream_len": len(data), "packets": r.packets, "max_alloc": r.allocMax, "err": fmt.Sprint(r.err)})
	}
}

var hostileLens = []uint32{0, 1, 4, 5, maxBody - 1, maxBody, maxBody + 1, 1 << 31, 0xFFFFFFFF, 0x7FFFFFFF, 0x01000001}

// genBoundaryLen: a body length near a power of two (buffer-pool size classes, slab sizes), or any
// length up to 70000.
func genBoundaryLen(t *rapid.T) uint32 {
	if rapid.IntRange(0, 3).Draw(t, "anyLen") == 0 {
		return uint32(rapid.IntRange(0, 70000).Draw(t, "len"))
	}
	k := rapid.IntRange(0, 22).Draw(t, "log2")
	d := rapid.IntRange(-2, 2).Draw(t, "delta")
	l := (1 << uint(k)) + d
	if l < 0 {
		l = 0
	}
	if l > maxBody {
		l = maxBody
	}
	return uint32(l)
}

func genValidStream(t *rapid.T) []byte {
	var w bytes.Buffer
	sp := stream.NewStreamProcessor(bytes.NewReader(nil), &w, context.Background())
	defer sp.Close()
	n := rapid.IntRange(1, 3).Draw(t, "npkts")
	for i := 0; i < n; i++ {
		ty := rapid.SampledFrom([]byte{0x01, 0x02, 0x03, 0x10, 0x11, 0x20, 0x21, 0x22, 0x23, 0x24, 0x3F}).Draw(t, "type")
		p := &packet.TransferPacket{PacketType: packet.Type(ty)}
		if ty == 0x10 || ty == 0x11 {
			p.CommandPacket = &packet.CommandPacket{CommandType: packet.CommandType(rapid.IntRange(0, 255).Draw(t, "ct")), CommandId: "x", CommandBody: rapid.StringN(0, 40, 200).Draw(t, "body")}
		} else {
			p.Payload = rapid.SliceOfN(rapid.Byte(), 0, 300).Draw(t, "payload")
		}
		sp.WritePacket(p, rapid.Bool().Draw(t, "compress"), 0)
	}
	return w.Bytes()
}

func TestDecoder(t *testing.T) {
	bigBudget := vkit.Pick(3, 12) // per shard: inflations > 16 MiB are expensive
	vkit.Check(t, 6000, 150000, func(t *rapid.T) {
		c := DecCase{Chunk: rapid.SampledFrom([]int{0, 0, 1, 7, 4096}).Draw(t, "chunk")}
		switch rapid.IntRange(0, 10).Draw(t, "source") {
		case 10:
			c.Kind = "exact-body"
			c.Type = rapid.SampledFrom([]byte{0x01, 0x02, 0x20, 0x21, 0x22, 0x23, 0x24, 0x3F, 0x10}).Draw(t, "type")
			c.Len = genBoundaryLen(t)
			c.Pre = rapid.SampledFrom([]int{0, 0, 0, 1, 2, 3, 17, 70}).Draw(t, "pre")
			if c.Len > 1<<20 && c.Chunk != 0 && c.Chunk < 4096 {
				c.Chunk = 4096
			}
		case 0, 1:
			c.Kind = "explicit"
			c.Hex = fmt.Sprintf("%x", rapid.SliceOfN(rapid.Byte(), 0, 64).Draw(t, "bytes"))
		case 2, 3, 4:
			c.Kind = "mutated"
			s := append([]byte(nil), genValidStream(t)...)
			for k := rapid.IntRange(1, 4).Draw(t, "nmut"); k > 0 && len(s) > 0; k-- {
				pos := rapid.IntRange(0, len(s)-1).Draw(t, "pos")
				switch rapid.IntRange(0, 4).Draw(t, "mut") {
				case 0:
					s[pos] ^= byte(1 << uint(rapid.IntRange(0, 7).Draw(t, "bit")))
				case 1:
					s = s[:pos]
				case 2:
					s = append(s, rapid.SliceOfN(rapid.Byte(), 1, 16).Draw(t, "trail")...)
				case 3:
					s[0] |= byte(rapid.SampledFrom([]int{0x40, 0x80, 0xC0}).Draw(t, "flag"))
				case 4:
					if len(s) >= 5 {
						binary.BigEndian.PutUint32(s[1:5], rapid.SampledFrom(hostileLens).Draw(t, "len"))
					}
				}
			}
			c.Hex = fmt.Sprintf("%x", s)
		case 5, 6:
			c.Kind = "declared-length"
			c.Type = byte(rapid.IntRange(0, 255).Draw(t, "type"))
			c.Len = rapid.SampledFrom(hostileLens).Draw(t, "len")
			c.Trunc = rapid.SampledFrom([]int{0, 1, 3, 100, 70000}).Draw(t, "have")
		case 7:
			c.Kind = "gzip-bomb"
			c.Type = rapid.SampledFrom([]byte{0x01, 0x10, 0x20, 0x22}).Draw(t, "type")
			c.Inflat = rapid.SampledFrom([]int{1000, 1 << 20, maxBody - 1, maxBody, maxBody + 1, 2 * maxBody}).Draw(t, "inflated")
			if c.Inflat > 1<<20 {
				if bigBudget <= 0 {
					c.Inflat = 1 << 20
				} else {
					bigBudget--
				}
			}
			if rapid.IntRange(0, 3).Draw(t, "trunc") == 0 {
				c.Trunc = rapid.IntRange(1, 200).Draw(t, "truncAt")
			}
		case 8:
			c.Kind = "gzip-corrupt"
			c.Type = 0x22
			c.Inflat = rapid.IntRange(1, 5000).Draw(t, "n")
		case 9:
			c.Kind = "gzip-concat"
			c.Type = 0x20
			c.Inflat = rapid.IntRange(1, 100000).Draw(t, "n")
		}
		decodeOracle(t, c)
	})
}

// TestBombs: the deterministic extreme-expansion family (thorough adds the 256 MiB member).
func TestBombs(t *testing.T) {
	if vkit.Shard() != 0 {
		t.Skip("single shard")
	}
	sizes := []int{maxBody + 1, 2 * maxBody}
	if vkit.Thorough() {
		sizes = append(sizes, 4*maxBody, 16*maxBody)
	}
	for _, n := range sizes {
		for _, ty := range []byte{0x01, 0x10, 0x22} {
			decodeOracle(t, DecCase{Kind: "gzip-bomb", Type: ty, Inflat: n})
		}
	}
}

// TestLengthBoundaries: a well-formed packet of every body length 2^k-1, 2^k, 2^k+1 up to the limit,
// as the first packet of a connection and after a few / very many well-formed empty packets.
func TestLengthBoundaries(t *testing.T) {
	i := 0
	for k := 0; (1<<uint(k))-1 <= maxBody; k++ {
		for d := -1; d <= 1; d++ {
			l := (1 << uint(k)) + d
			if l < 0 || l > maxBody {
				continue
			}
			for _, pre := range []int{0, 3, 40} {
				for _, ty := range []byte{0x20, 0x22, 0x01} {
					i++
					if !vkit.Mine(i) {
						continue
					}
					decodeOracle(t, DecCase{Kind: "exact-body", Type: ty, Len: uint32(l), Pre: pre})
				}
			}
		}
	}
	// long runs of empty packets on one connection, then a boundary length
	for _, pre := range []int{1000, 4200, 9000} {
		for _, l := range []uint32{0, 5, 4000, 4090, 4096} {
			i++
			if !vkit.Mine(i) {
				continue
			}
			decodeOracle(t, DecCase{Kind: "exact-body", Type: 0x22, Len: l, Pre: pre})
		}
	}
	vkit.Exhaustive("body length 2^k-1,2^k,2^k+1 x packets before", true)
}

// ---------------------------------------------------------------------------
// dispatcher

type DispCase struct {
	Type     byte   `json:"type"`
	HasCmd   bool   `json:"has_cmd"`
	CmdType  byte   `json:"cmd_type"`
	CmdID    string `json:"cmd_id"`
	Body     string `json:"body"`
	Payload  string `json:"payload"` // for non-command packets
	Sender   string `json:"sender"`
	Receiver string `json:"receiver"`
	Repeat   int    `json:"repeat"`
	// FromDecoder: hex of the byte stream this packet was decoded from (decode-then-dispatch cases);
	// the replay re-decodes the stream so that the dispatcher sees exactly what ReadPacket produced.
	FromDecoder string `json:"from_decoder,omitempty"`
}

var srvPool *miniserver.Server
var srvUses int

func server() (*miniserver.Server, error) {
	if srvPool == nil || srvUses > 200 {
		if srvPool != nil {
			srvPool.Close()
		}
		s, err := miniserver.New(miniserver.Options{RoutingTTL: time.Minute, ConnStateTTL: time.Minute})
		if err != nil {
			return nil, err
		}
		srvPool, srvUses = s, 0
	}
	srvUses++
	return srvPool, nil
}

func dispatchOracle(t vkit.TB, c DispCase) { dispatchPacket(t, c, nil) }

// dispatchPacket pushes p (or, when nil, the packet described by c) to the dispatcher of a fresh connection.
func dispatchPacket(t vkit.TB, c DispCase, ready *packet.TransferPacket) {
	srv, err := server()
	if err != nil {
		t.Fatalf("harness: %v", err)
	}
	cl, err := srv.Connect("8.8.4.4:4040")
	if err != nil {
		t.Fatalf("harness: %v", err)
	}
	defer cl.CloseByPeer()
	p := &packet.TransferPacket{PacketType: packet.Type(c.Type), Payload: []byte(c.Payload)}
	if c.HasCmd {
		p.CommandPacket = &packet.CommandPacket{CommandType: packet.CommandType(c.CmdType), CommandId: c.CmdID, CommandBody: c.Body, SenderId: c.Sender, ReceiverId: c.Receiver}
	}
	if ready != nil {
		p = ready
	}
	vkit.Journal("dispatcher", c)
	type res struct {
		err   error
		panic string
	}
	done := make(chan res, 1)
	go func() {
		var r res
		defer func() {
			if x := recover(); x != nil {
				buf := make([]byte, 4096)
				n := runtime.Stack(buf, false)
				r.panic = fmt.Sprintf("%v\n%s", x, buf[:n])
			}
			done <- r
		}()
		for i := 0; i <= c.Repeat; i++ {
			r.err = cl.Push(p)
		}
	}()
	var r res
	select {
	case r = <-done:
	case <-time.After(15 * time.Second):
		vkit.Violation(t, fmt.Sprintf("C05/dispatcher-does-not-return/type=%#x/cmd=%d", c.Type&0x3F, c.CmdType), "HandlePacket blocked > 15 s on a fresh connection", c)
		return
	}
	if r.panic != "" {
		where := "unknown"
		for _, l := range strings.Split(r.panic, "\n") {
			if strings.HasPrefix(l, "tunnox-core/internal/") && !strings.Contains(l, "verif") {
				where = strings.SplitN(strings.TrimPrefix(l, "tunnox-core/internal/"), "(", 2)[0]
				break
			}
		}
		vkit.Violation(t, "C05/dispatcher-panic/"+where, r.panic, c)
		return
	}
	if n := cl.Near.Pending(); n > 1<<20 {
		vkit.Violation(t, "C05/dispatcher-unbounded-reply", fmt.Sprintf("%d bytes written in reply to one packet", n), c)
		return
	}
	parsed := c.HasCmd && json.Valid([]byte(c.Body))
	out := "error"
	if r.err == nil {
		out = "ok"
	}
	vkit.Case(fmt.Sprintf("disp:type=%#x/%s", c.Type&0x3F, out), parsed || !c.HasCmd, fmt.Sprintf("%x|%v|%d|%s|%d", c.Type, c.HasCmd, c.CmdType, out, len(c.Body)+len(c.Payload)))
	vkit.Sample(fmt.Sprintf("disp:%#x", c.Type&0x3F), c)
}

var jsonTemplates = []string{
	`{}`, `null`, `[]`, `"x"`, `1e999`, `{"client_id":1}`, `{"client_id":"x","token":{}}`,
	`{"mapping_id":"pmap_x","tunnel_id":"t","secret_key":"s"}`, `{"tunnel_id":null}`,
	`{"target_address":"tcp://1.2.3.4:5","activation_ttl":1,"mapping_ttl":1}`, `{"code":"abc-def-ghi","listen_address":"0.0.0.0:1"}`,
	`{"mapping_id":"m","bytes_sent":99999999999999999999,"bytes_received":-1}`, `{"target_client_id":-1,"domain":"x"}`,
	`{"target_client_id":9223372036854775807,"query":"AAAA"}`, `{"request_id":"r","status_code":200,"body":"eA=="}`,
	`{"subdomain":"a","base_domain":"tunnox.net","target_url":"http://x"}`, `{"mapping_id":"hdm_1"}`,
	`{"reason":"x","code":"y"}`, `{"mappings":[{"mapping_id":"x"}]}`, `{"a":{"a":{"a":{"a":{"a":{"a":{"a":{"a":{}}}}}}}}}`,
}

// field names of the request bodies the command handlers decode (json tags of internal/packet,
// internal/command, internal/app/server) and a SMALL value pool, so that related fields often carry
// equal / nested / differently spelled values (subdomain == base_domain, a port out of range, ...)
var bodyFields = strings.Fields(`mapping_id client_id tunnel_id id type node_id secret_key protocol version user_id target_client_id
	target_address target_url name bytes_sent bytes_received target_port target_host subdomain port method listen_address headers code
	base_domain auth_code address url token reason payload mappings data config source_port request_id query_id mapping_ttl
	listen_client_id domain conn_id body bandwidth_limit activation_ttl ttl timeout status_code resume_token query qtype raw_query
	description full_domain connection_type challenge_response mapping_name listen_port dns_server enable_compression enable_encryption`)

var bodyValues = []string{`""`, `"a"`, `"tunnox.net"`, `" TUNNOX.NET "`, `".tunnox.net"`, `"x.tunnox.net"`, `"xtunnox.net"`, `"tunnel.test.local"`,
	`"http://127.0.0.1:80"`, `"http://"`, `"tcp://1.2.3.4:5"`, `"0.0.0.0:1"`, `"127.0.0.1"`, `"[::1]:80"`, `":"`, `"hdm_1"`, `"pmap_x"`, `"abc-def-ghi"`,
	`"tcp"`, `"udp"`, `"socks5"`, `"A"`, `"AAAA"`, `0`, `1`, `-1`, `65535`, `65536`, `4294967296`, `9223372036854775807`, `1.5`, `true`, `false`, `null`, `[]`, `{}`, `["a"]`, `{"a":"a"}`}

func genStructured(t *rapid.T) string {
	n := rapid.IntRange(1, 6).Draw(t, "nfields")
	var sb strings.Builder
	sb.WriteString("{")
	for i := 0; i < n; i++ {
		if i > 0 {
			sb.WriteString(",")
		}
		sb.WriteString(`"` + rapid.SampledFrom(bodyFields).Draw(t, "field") + `":` + rapid.SampledFrom(bodyValues).Draw(t, "value"))
	}
	sb.WriteString("}")
	return sb.String()
}

func genJSONish(t *rapid.T) string {
	switch rapid.IntRange(0, 8).Draw(t, "bodyKind") {
	case 6, 7, 8:
		return genStructured(t)
	case 0:
		return rapid.SampledFrom(jsonTemplates).Draw(t, "tmpl")
	case 1:
		// template with a field retyped / deleted
		s := rapid.SampledFrom(jsonTemplates).Draw(t, "tmpl")
		return strings.NewReplacer(`"x"`, rapid.SampledFrom([]string{`null`, `{}`, `[1]`, `12`, `"` + strings.Repeat("z", 5000) + `"`}).Draw(t, "repl")).Replace(s)
	case 2:
		return strings.Repeat("[", rapid.IntRange(1, 3000).Draw(t, "depth"))
	case 3:
		return rapid.StringN(0, 60, 300).Draw(t, "str")
	case 4:
		return ""
	default:
		return `{"` + rapid.StringMatching(`[a-z_]{1,12}`).Draw(t, "k") + `":` + rapid.SampledFrom([]string{`1`, `"s"`, `null`, `-0`, `[[]]`, `{"x":1}`}).Draw(t, "v") + `}`
	}
}

func genDisp(t *rapid.T) DispCase {
	c := DispCase{Type: byte(rapid.IntRange(0, 255).Draw(t, "type"))}
	if rapid.IntRange(0, 3).Draw(t, "defined") != 0 {
		c.Type = rapid.SampledFrom([]byte{0x01, 0x03, 0x10, 0x10, 0x10, 0x11, 0x11, 0x20, 0x22, 0x23, 0x50, 0x51, 0x60}).Draw(t, "dtype")
	}
	base := c.Type & 0x3F
	if base == 0x10 || base == 0x11 {
		c.HasCmd = true // ReadPacket always yields a CommandPacket for the two JSON packet types
		c.CmdType = byte(rapid.IntRange(0, 255).Draw(t, "cmd"))
		if rapid.Bool().Draw(t, "knownCmd") {
			c.CmdType = rapid.SampledFrom([]byte{10, 11, 13, 35, 50, 51, 70, 71, 72, 73, 74, 75, 76, 80, 81, 82, 83, 84, 85, 86, 87, 90, 91, 92, 93, 94, 95, 96, 100, 101, 102}).Draw(t, "kcmd")
		}
		c.CmdID = rapid.SampledFrom([]string{"", "id1", "../x", strings.Repeat("i", 300)}).Draw(t, "cid")
		c.Body = genJSONish(t)
		c.Sender = rapid.SampledFrom([]string{"", "1", "x"}).Draw(t, "snd")
		c.Receiver = rapid.SampledFrom([]string{"", "2", "y"}).Draw(t, "rcv")
	} else {
		c.Payload = genJSONish(t) // ... and never one for the other types
	}
	c.Repeat = rapid.SampledFrom([]int{0, 0, 0, 1, 3}).Draw(t, "repeat")
	return c
}

func TestDispatcher(t *testing.T) {
	vkit.Check(t, 8000, 300000, func(t *rapid.T) { dispatchOracle(t, genDisp(t)) })
	if srvPool != nil {
		srvPool.Close()
		srvPool = nil
	}
}

// TestDispatcherMatrix: every packet type byte x every command type x a few bodies, exhaustively.
func TestDispatcherMatrix(t *testing.T) {
	bodies := []string{``, `{}`, `null`, `{"mapping_id":"m","tunnel_id":"t","target_client_id":1,"domain":"d","code":"c"}`}
	i := 0
	for ty := 0; ty < 256; ty++ {
		base := byte(ty) & 0x3F
		if base == 0x10 || base == 0x11 {
			for cmd := 0; cmd < 256; cmd++ {
				for _, b := range bodies {
					i++
					if vkit.Mine(i) && (vkit.Thorough() || (ty < 0x40 && (cmd < 128))) {
						dispatchOracle(t, DispCase{Type: byte(ty), HasCmd: true, CmdType: byte(cmd), Body: b})
					}
				}
			}
			continue
		}
		for _, b := range bodies {
			i++
			if vkit.Mine(i) {
				dispatchOracle(t, DispCase{Type: byte(ty), Payload: b})
			}
		}
	}
	if srvPool != nil {
		srvPool.Close()
		srvPool = nil
	}
	vkit.Exhaustive("packet type byte x command type x 4 bodies on a fresh unauthenticated connection", vkit.Thorough())
}

// TestDispatcherRelations: handlers that relate two fields of a body (a sub-domain inside a base
// domain, a port inside an address, ...) are reached only by bodies whose fields are RELATED. For every
// command type the handlers know, every template body and every ordered pair of its fields, field i
// is given field j's value (as is, and upper-cased with surrounding blanks), plus each value of the
// pool for every single field.
func TestDispatcherRelations(t *testing.T) {
	cmds := []byte{10, 11, 13, 35, 50, 51, 70, 71, 72, 73, 74, 75, 76, 80, 81, 82, 83, 84, 85, 86, 87, 90, 91, 92, 93, 94, 95, 96, 100, 101, 102}
	if vkit.Thorough() {
		cmds = nil
		for c := 0; c < 256; c++ {
			cmds = append(cmds, byte(c))
		}
	}
	i := 0
	for _, tmpl := range jsonTemplates {
		var obj map[string]json.RawMessage
		if json.Unmarshal([]byte(tmpl), &obj) != nil || len(obj) == 0 {
			continue
		}
		var keys []string
		for k := range obj {
			keys = append(keys, k)
		}
		sort.Strings(keys)
		build := func(over map[string]string) string {
			var sb strings.Builder
			sb.WriteString("{")
			for n, k := range keys {
				if n > 0 {
					sb.WriteString(",")
				}
				v := string(obj[k])
				if o, ok := over[k]; ok {
					v = o
				}
				sb.WriteString(`"` + k + `":` + v)
			}
			sb.WriteString("}")
			return sb.String()
		}
		var bodies []string
		for _, a := range keys {
			for _, b := range keys {
				if a == b {
					continue
				}
				bodies = append(bodies, build(map[string]string{a: string(obj[b])}))
				var sv string
				if json.Unmarshal(obj[b], &sv) == nil {
					up, _ := json.Marshal(" " + strings.ToUpper(sv) + " ")
					bodies = append(bodies, build(map[string]string{a: string(up)}))
				}
			}
			if vkit.Thorough() {
				for _, v := range bodyValues {
					bodies = append(bodies, build(map[string]string{a: v}))
				}
			}
		}
		for _, cmd := range cmds {
			for _, b := range bodies {
				i++
				if vkit.Mine(i) {
					dispatchOracle(t, DispCase{Type: 0x10, HasCmd: true, CmdType: cmd, Body: b})
				}
			}
		}
	}
	if srvPool != nil {
		srvPool.Close()
		srvPool = nil
	}
	vkit.AddExtra("relation_bodies_dispatched", int64(i))
	vkit.Exhaustive("command type x template body x (field i := field j)", true)
}

// ---------------------------------------------------------------------------
// native fuzz targets (thorough tier)

func FuzzReadPacket(f *testing.F) {
	f.Add([]byte{0x03})
	f.Add(frame(0x22, []byte("hello")))
	f.Add(frame(0x10, []byte(`{"CommandType":70,"CommandBody":"{}"}`)))
	f.Add(frame(0x62, gzipOf(1<<20, 'A')))
	f.Add([]byte{0x22, 0xFF, 0xFF, 0xFF, 0xFF})
	f.Add([]byte{0x22, 0x01, 0x00, 0x00, 0x00})
	f.Add([]byte{0x22, 0x01, 0x00, 0x00, 0x01, 0x00})
	f.Add(frame(0x50, []byte{0x1f, 0x8b, 0x08, 0x00}))
	f.Fuzz(func(t *testing.T, data []byte) {
		r := decodeOnce(data, 0)
		if r.panicked != "" {
			t.Fatalf("panic: %s", r.panicked)
		}
		if r.hung {
			t.Fatalf("decoder does not return on a %d-byte stream", len(data))
		}
		if r.maxPay > maxBody || r.allocMax > allocBoundPerPacket {
			t.Fatalf("payload %d alloc %d", r.maxPay, r.allocMax)
		}
	})
}

func FuzzDispatch(f *testing.F) {
	f.Add(byte(0x10), byte(70), `{"target_address":"tcp://1.2.3.4:5"}`, "")
	f.Add(byte(0x01), byte(0), ``, `{"client_id":1,"challenge_response":"00"}`)
	f.Add(byte(0x20), byte(0), ``, `{"mapping_id":"m","tunnel_id":"t"}`)
	f.Add(byte(0x11), byte(81), `{"request_id":"r"}`, "")
	f.Add(byte(0x10), byte(96), `{"mapping_id":"m","bytes_sent":1}`, "")
	f.Fuzz(func(t *testing.T, ty, cmd byte, body, payload string) {
		c := DispCase{Type: ty, CmdType: cmd, Body: body, Payload: payload}
		b := ty & 0x3F
		c.HasCmd = b == 0x10 || b == 0x11
		dispatchOracle(t, c)
	})
}

func TestReplay(t *testing.T) {
	path := vkit.Replaying()
	if path == "" {
		t.Skip("no VERIF_REPLAY")
	}
	var raw map[string]any
	if _, err := vkit.LoadReplay(path, &raw); err != nil {
		t.Fatal(err)
	}
	b, _ := json.Marshal(raw)
	if _, isSilent := raw["silent_peer"]; isSilent {
		var c SilentCase
		json.Unmarshal(b, &c)
		if key, detail, _ := runSilent(t, c); key != "" {
			vkit.Violation(t, key, detail, c)
		}
		return
	}
	if _, isHS := raw["hs_sequence"]; isHS {
		var c HSCase
		json.Unmarshal(b, &c)
		runHS(t, c)
		return
	}
	if _, isLayer := raw["layers"]; isLayer {
		var c LayerCase
		json.Unmarshal(b, &c)
		layerOracle(t, c)
		return
	}
	if _, isWS := raw["ws_msgs"]; isWS {
		var c WSMsgCase
		json.Unmarshal(b, &c)
		if key, detail := runWSMsgs(t, c); key != "" {
			vkit.Violation(t, key, detail, c)
		}
		return
	}
	if _, isDec := raw["kind"]; isDec {
		var c DecCase
		json.Unmarshal(b, &c)
		decodeOracle(t, c)
		return
	}
	var c DispCase
	json.Unmarshal(b, &c)
	if c.FromDecoder != "" {
		raw := make([]byte, len(c.FromDecoder)/2)
		fmt.Sscanf(c.FromDecoder, "%x", &raw)
		sp := stream.NewStreamProcessor(&vkit.ChunkReader{Data: raw}, io.Discard, context.Background())
		defer sp.Close()
		for k := 0; k < 8; k++ {
			pkt, _, err := sp.ReadPacket()
			if err != nil {
				break
			}
			dispatchPacket(t, c, pkt)
		}
		return
	}
	dispatchOracle(t, c)
}

// TestRetention: "never ... retains memory beyond a fixed bound": many unsolicited packets of one
// kind with distinct ids and sizeable bodies on fresh unauthenticated connections; after the
// connections are closed and the garbage collector has run, the live heap must not have grown
// by more than a fixed bound (the server may not park what strangers send).
func TestRetention(t *testing.T) {
	type kind struct {
		ty   byte
		cmd  int // -1: not a command packet
		body func(i int, pad string) string
	}
	pad := strings.Repeat("r", 96*1024)
	var kinds []kind
	known := []int{10, 11, 13, 35, 50, 51, 60, 70, 71, 72, 73, 74, 75, 76, 80, 81, 82, 83, 84, 85, 86, 87, 90, 91, 92, 93, 94, 95, 96, 100, 101, 102}
	for _, ty := range []byte{0x10, 0x11} {
		for _, c := range known {
			c := c
			kinds = append(kinds, kind{ty, c, func(i int, pad string) string {
				return fmt.Sprintf(`{"request_id":"req-%d","command_id":"c-%d","mapping_id":"m-%d","tunnel_id":"t-%d","domain":"d%d.example","code":"code-%d","status_code":200,"body":"%s"}`, i, i, i, i, i, i, pad)
			}})
		}
	}
	for _, ty := range []byte{0x01, 0x20, 0x22, 0x23} {
		kinds = append(kinds, kind{ty, -1, func(i int, pad string) string {
			return fmt.Sprintf(`{"client_id":%d,"tunnel_id":"t-%d","mapping_id":"m-%d","token":"%s"}`, 1000+i, i, i, pad)
		}})
	}
	const perKind = 160   // x 96 KiB = 15 MiB sent per kind
	const bound = 4 << 20 // live heap growth tolerated after everything was closed and collected
	heap := func() uint64 {
		runtime.GC()
		runtime.GC()
		var ms runtime.MemStats
		runtime.ReadMemStats(&ms)
		return ms.HeapAlloc
	}
	uniq := 0
	measure := func(k kind) int64 {
		srv, err := miniserver.New(miniserver.Options{RoutingTTL: time.Minute})
		if err != nil {
			t.Fatalf("harness: %v", err)
		}
		defer srv.Close()
		before := heap()
		for i := 0; i < perKind; i++ {
			cl, err := srv.Connect(fmt.Sprintf("8.8.%d.%d:4040", i/250, i%250))
			if err != nil {
				t.Fatalf("harness: %v", err)
			}
			uniq++ // every packet ever sent carries fresh ids (a confirming second run must not overwrite the first run's entries)
			p := &packet.TransferPacket{PacketType: packet.Type(k.ty)}
			if k.cmd >= 0 {
				p.CommandPacket = &packet.CommandPacket{CommandType: packet.CommandType(k.cmd), CommandId: fmt.Sprintf("cid-%d", uniq), CommandBody: k.body(uniq, pad)}
			} else {
				p.Payload = []byte(k.body(uniq, pad))
			}
			func() {
				defer func() { recover() }()
				cl.Push(p)
			}()
			cl.CloseByPeer()
		}
		grown := int64(heap()) - int64(before)
		if grown > bound {
			time.Sleep(200 * time.Millisecond) // delayed frees / finalizers
			grown = int64(heap()) - int64(before)
		}
		return grown
	}
	for ki, k := range kinds {
		if !vkit.Mine(ki) {
			continue
		}
		c := DispCase{Type: k.ty, HasCmd: k.cmd >= 0, CmdType: byte(k.cmd), Body: "retention x" + fmt.Sprint(perKind)}
		vkit.Journal("retention", c)
		grown := measure(k)
		if grown > bound {
			grown = measure(k) // an independent second measurement must confirm it
		}
		name := fmt.Sprintf("type=%#x/cmd=%d", k.ty, k.cmd)
		if os.Getenv("VERIF_DEBUG") != "" {
			t.Logf("%s grown=%d", name, grown)
		}
		if grown > bound {
			vkit.Violation(t, "C05/dispatcher-retains-memory/"+name, fmt.Sprintf("%d packets of ~96 KiB each on fresh unauthenticated connections (all closed): live heap grew by %d bytes after GC (bound %d)", perKind, grown, bound), c)
			continue
		}
		vkit.Case("retention:"+name, true, "retention:"+name)
	}
}

// TestDecodeThenDispatch: the end-to-end path of the property - a hostile byte stream is decoded by the
// real ReadPacket and EVERY packet it yields is handed to the session dispatcher on a fresh
// unauthenticated connection (what adapter.connectionReadLoop does). Streams are built from frames
// with arbitrary type bytes and hostile bodies (empty, null, truncated JSON, gzip of nothing, ...).
func TestDecodeThenDispatch(t *testing.T) {
	bodies := [][]byte{nil, {}, []byte("null"), []byte("{}"), []byte(`{"CommandType":70}`), []byte(`{"CommandType":81,"CommandBody":"null"}`),
		[]byte(`{"CommandType":96,"CommandBody":"{}"}`), []byte(" "), []byte("[]"), []byte(`"x"`), []byte("0"), gzipOf(0, 'x'), gzipOf(4, 'n')}
	vkit.Check(t, 3000, 100000, func(t *rapid.T) {
		var streamBytes []byte
		n := rapid.IntRange(1, 4).Draw(t, "nframes")
		var desc []string
		for i := 0; i < n; i++ {
			ty := byte(rapid.IntRange(0, 255).Draw(t, "type"))
			if rapid.IntRange(0, 2).Draw(t, "json") != 0 {
				ty = rapid.SampledFrom([]byte{0x10, 0x11, 0x50, 0x51, 0x01, 0x20}).Draw(t, "jtype")
			}
			b := rapid.SampledFrom(bodies).Draw(t, "body")
			if rapid.IntRange(0, 3).Draw(t, "rand") == 0 {
				b = rapid.SliceOfN(rapid.Byte(), 0, 40).Draw(t, "rbody")
			}
			if ty&0x3F == 0x03 {
				streamBytes = append(streamBytes, ty)
			} else {
				streamBytes = append(streamBytes, frame(ty, b)...)
			}
			desc = append(desc, fmt.Sprintf("%#x:%d", ty, len(b)))
		}
		c := DecCase{Kind: "explicit", Hex: fmt.Sprintf("%x", streamBytes)}
		cr := &vkit.ChunkReader{Data: streamBytes}
		sp := stream.NewStreamProcessor(cr, io.Discard, context.Background())
		defer sp.Close()
		dispatched := 0
		for k := 0; k < 8; k++ {
			pkt, _, err := sp.ReadPacket()
			if err != nil {
				break
			}
			dc := DispCase{Type: byte(pkt.PacketType), HasCmd: pkt.CommandPacket != nil, Payload: string(pkt.Payload), FromDecoder: c.Hex}
			if pkt.CommandPacket != nil {
				dc.CmdType, dc.CmdID, dc.Body = byte(pkt.CommandPacket.CommandType), pkt.CommandPacket.CommandId, pkt.CommandPacket.CommandBody
			}
			dispatchPacket(t, dc, pkt)
			dispatched++
		}
		vkit.Case("decode-then-dispatch", dispatched > 0, strings.Join(desc, ","))
	})
	if srvPool != nil {
		srvPool.Close()
		srvPool = nil
	}
}
