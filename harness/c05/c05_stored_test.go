package c05

import (
	"context"
	"fmt"
	"os"
	"sort"
	"strings"
	"testing"
	"time"

	"tunnox-core/internal/core/storage/hybrid"
	"tunnox-core/internal/core/storage/memory"
	"tunnox-core/internal/packet"
	"tunnox-core/verif/vkit"
	"tunnox-core/verif/vkit/miniserver"
)

// ---------------------------------------------------------------------------
// TestStoredStateRetention — "an unauthenticated peer cannot make the server retain state without
// bound", for state kept in the STORE rather than on the heap: index entries, records, list members.
// For every command type and packet type the dispatcher knows, N packets with a body that passes the
// handler's own field checks (a superset body: every field any pre-authentication handler looks at,
// fresh names in each packet) are sent on fresh, never-authenticated connections, which are then
// closed. The number of keys WITHOUT an expiry that the store holds afterwards must not grow with N
// (keys with a TTL are bounded by the TTL and are only counted as a class).

func storedBody(i int) string {
	return fmt.Sprintf(`{"request_id":"req-%d","command_id":"c-%d","mapping_id":"m-%d","tunnel_id":"t-%d","domain":"d%d.example",`+
		`"code":"code-%d","status_code":200,"target_url":"http://localhost:3000","subdomain":"squat%d","base_domain":"tunnox.net",`+
		`"mapping_ttl":0,"description":"x","target_host":"127.0.0.1","target_port":8080,"target_address":"tcp://127.0.0.1:8080",`+
		`"listen_address":"0.0.0.0:%d","protocol":"tcp","activation_ttl":600,"mapping_duration":3600,"client_id":%d,"name":"n%d","full_domain":"squat%d.tunnox.net"}`,
		i, i, i, i, i, i, i, 20000+i%20000, 1000+i, i, i)
}

func TestStoredStateRetention(t *testing.T) {
	type kind struct {
		ty  byte
		cmd int
	}
	var kinds []kind
	known := []int{10, 11, 13, 35, 50, 51, 60, 70, 71, 72, 73, 74, 75, 76, 80, 81, 82, 83, 84, 85, 86, 87, 90, 91, 92, 93, 94, 95, 96, 100, 101, 102}
	for _, c := range known {
		kinds = append(kinds, kind{0x10, c})
	}
	for _, ty := range []byte{0x01, 0x20, 0x22, 0x23, 0x11} {
		kinds = append(kinds, kind{ty, -1})
	}
	uniq := 0
	// permanent keys after n packets of this kind (fresh server each time)
	measure := func(k kind, n int) (perm []string, ttl int, err error) {
		mem := memory.New(context.Background())
		hc := hybrid.DefaultConfig()
		hc.EnablePersistent = false
		st := hybrid.NewWithSharedCache(context.Background(), mem, nil, nil, hc)
		defer st.Close()
		srv, err := miniserver.New(miniserver.Options{Storage: st, RoutingTTL: time.Minute, ConnStateTTL: time.Minute})
		if err != nil {
			return nil, 0, err
		}
		defer srv.Close()
		keysNow := func() map[string]bool {
			m := map[string]bool{}
			ks, _ := mem.QueryByPrefix("", 0)
			for key := range ks {
				m[key] = true
			}
			return m
		}
		before := keysNow()
		for i := 0; i < n; i++ {
			cl, err := srv.Connect(fmt.Sprintf("8.7.%d.%d:4040", i/250, i%250))
			if err != nil {
				return nil, 0, err
			}
			uniq++
			p := &packet.TransferPacket{PacketType: packet.Type(k.ty)}
			if k.cmd >= 0 {
				p.CommandPacket = &packet.CommandPacket{CommandType: packet.CommandType(k.cmd), CommandId: fmt.Sprintf("cid-%d", uniq), CommandBody: storedBody(uniq)}
			} else {
				p.Payload = []byte(storedBody(uniq))
			}
			func() {
				defer func() { recover() }()
				cl.Push(p)
			}()
			cl.CloseByPeer()
		}
		time.Sleep(20 * time.Millisecond) // asynchronous clean-up after close
		for key := range keysNow() {
			if before[key] {
				continue
			}
			if d, e := mem.GetExpiration(key); e == nil && d > 0 {
				ttl++
				continue
			}
			perm = append(perm, key)
		}
		sort.Strings(perm)
		return perm, ttl, nil
	}
	for ki, k := range kinds {
		if !vkit.Mine(ki) {
			continue
		}
		c := DispCase{Type: k.ty, HasCmd: k.cmd >= 0, CmdType: byte(k.cmd), Body: "stored-state retention"}
		vkit.Journal("stored-retention", c)
		name := fmt.Sprintf("type=%#x/cmd=%d", k.ty, k.cmd)
		p1, ttl1, err := measure(k, 12)
		if err != nil {
			vkit.Violation(t, "C05/harness/stored-retention", err.Error(), c)
			return
		}
		p2, _, err := measure(k, 36)
		if err != nil {
			vkit.Violation(t, "C05/harness/stored-retention", err.Error(), c)
			return
		}
		if os.Getenv("VERIF_DEBUG") != "" {
			t.Logf("%s perm12=%d perm36=%d ttl12=%d %v", name, len(p1), len(p2), ttl1, p1)
		}
		if ttl1 > 0 {
			vkit.Class("stored-retention:keys-with-ttl-left-behind")
		}
		// three times the packets: a store that grows with the number of refused packets has grown
		if len(p2) >= len(p1)+12 {
			sample := p2
			if len(sample) > 4 {
				sample = sample[:4]
			}
			vkit.Violation(t, "C05/store-retains-entries-per-unauthenticated-packet/"+name,
				fmt.Sprintf("12 packets on fresh unauthenticated connections (all closed) left %d keys without expiry in the store, 36 packets left %d; e.g. %s", len(p1), len(p2), strings.Join(sample, ", ")), c)
			continue
		}
		vkit.Case("stored-retention:"+name, true, "stored-retention:"+name)
	}
}
