package c05

import (
	"context"
	"encoding/binary"
	"fmt"
	"io"
	"os"
	"runtime"
	"sort"
	"strings"
	"testing"
	"time"

	"tunnox-core/internal/core/storage/hybrid"
	"tunnox-core/internal/core/storage/memory"
	"tunnox-core/internal/packet"
	"tunnox-core/internal/stream"
	"tunnox-core/verif/vkit"
	"tunnox-core/verif/vkit/miniserver"
)

// ---------------------------------------------------------------------------
// TestStoredStateRetention — "an unauthenticated peer cannot make the server retain state without
// bound", for state kept in the STORE rather than on the heap: index entries, records, list members.
// For every command type and packet type the dispatcher knows, N packets with a body that passes the
// handler's own field checks (a superset body: every field any pre-authentication handler looks at,
// fresh names in each packet) are sent on fresh, never-authenticated connections, which are then
// closed. The number of keys WITHOUT an expiry that the store holds afterwards must not grow with N
// (keys with a TTL are bounded by the TTL and are only counted as a class).

func storedBody(i int) string {
	return fmt.Sprintf(`{"request_id":"req-%d","command_id":"c-%d","mapping_id":"m-%d","tunnel_id":"t-%d","domain":"d%d.example",`+
		`"code":"code-%d","status_code":200,"target_url":"http://localhost:3000","subdomain":"squat%d","base_domain":"tunnox.net",`+
		`"mapping_ttl":0,"description":"x","target_host":"127.0.0.1","target_port":8080,"target_address":"tcp://127.0.0.1:8080",`+
		`"listen_address":"0.0.0.0:%d","protocol":"tcp","activation_ttl":600,"mapping_duration":3600,"client_id":%d,"name":"n%d","full_domain":"squat%d.tunnox.net"}`,
		i, i, i, i, i, i, i, 20000+i%20000, 1000+i, i, i)
}

func TestStoredStateRetention(t *testing.T) {
	type kind struct {
		ty  byte
		cmd int
	}
	var kinds []kind
	known := []int{10, 11, 13, 35, 50, 51, 60, 70, 71, 72, 73, 74, 75, 76, 80, 81, 82, 83, 84, 85, 86, 87, 90, 91, 92, 93, 94, 95, 96, 100, 101, 102}
	for _, c := range known {
		kinds = append(kinds, kind{0x10, c})
	}
	for _, ty := range []byte{0x01, 0x20, 0x22, 0x23, 0x11} {
		kinds = append(kinds, kind{ty, -1})
	}
	uniq := 0
	// permanent keys after n packets of this kind (fresh server each time)
	measure := func(k kind, n int) (perm []string, ttl int, err error) {
		mem := memory.New(context.Background())
		hc := hybrid.DefaultConfig()
		hc.EnablePersistent = false
		st := hybrid.NewWithSharedCache(context.Background(), mem, nil, nil, hc)
		defer st.Close()
		srv, err := miniserver.New(miniserver.Options{Storage: st, RoutingTTL: time.Minute, ConnStateTTL: time.Minute})
		if err != nil {
			return nil, 0, err
		}
		defer srv.Close()
		keysNow := func() map[string]bool {
			m := map[string]bool{}
			ks, _ := mem.QueryByPrefix("", 0)
			for key := range ks {
				m[key] = true
			}
			return m
		}
		before := keysNow()
		for i := 0; i < n; i++ {
			cl, err := srv.Connect(fmt.Sprintf("8.7.%d.%d:4040", i/250, i%250))
			if err != nil {
				return nil, 0, err
			}
			uniq++
			p := &packet.TransferPacket{PacketType: packet.Type(k.ty)}
			if k.cmd >= 0 {
				p.CommandPacket = &packet.CommandPacket{CommandType: packet.CommandType(k.cmd), CommandId: fmt.Sprintf("cid-%d", uniq), CommandBody: storedBody(uniq)}
			} else {
				p.Payload = []byte(storedBody(uniq))
			}
			func() {
				defer func() { recover() }()
				cl.Push(p)
			}()
			cl.CloseByPeer()
		}
		time.Sleep(20 * time.Millisecond) // asynchronous clean-up after close
		for key := range keysNow() {
			if before[key] {
				continue
			}
			if d, e := mem.GetExpiration(key); e == nil && d > 0 {
				ttl++
				continue
			}
			perm = append(perm, key)
		}
		sort.Strings(perm)
		return perm, ttl, nil
	}
	for ki, k := range kinds {
		if !vkit.Mine(ki) {
			continue
		}
		c := DispCase{Type: k.ty, HasCmd: k.cmd >= 0, CmdType: byte(k.cmd), Body: "stored-state retention"}
		vkit.Journal("stored-retention", c)
		name := fmt.Sprintf("type=%#x/cmd=%d", k.ty, k.cmd)
		p1, ttl1, err := measure(k, 12)
		if err != nil {
			vkit.Violation(t, "C05/harness/stored-retention", err.Error(), c)
			return
		}
		p2, _, err := measure(k, 36)
		if err != nil {
			vkit.Violation(t, "C05/harness/stored-retention", err.Error(), c)
			return
		}
		if os.Getenv("VERIF_DEBUG") != "" {
			t.Logf("%s perm12=%d perm36=%d ttl12=%d %v", name, len(p1), len(p2), ttl1, p1)
		}
		if ttl1 > 0 {
			vkit.Class("stored-retention:keys-with-ttl-left-behind")
		}
		// three times the packets: a store that grows with the number of refused packets has grown
		if len(p2) >= len(p1)+12 {
			sample := p2
			if len(sample) > 4 {
				sample = sample[:4]
			}
			vkit.Violation(t, "C05/store-retains-entries-per-unauthenticated-packet/"+name,
				fmt.Sprintf("12 packets on fresh unauthenticated connections (all closed) left %d keys without expiry in the store, 36 packets left %d; e.g. %s", len(p1), len(p2), strings.Join(sample, ", ")), c)
			continue
		}
		vkit.Case("stored-retention:"+name, true, "stored-retention:"+name)
	}
}

// ---------------------------------------------------------------------------
// TestOpenConnectionRetention — "never retains memory beyond a fixed bound tied to the maximum packet body
// size", for a connection that STAYS OPEN: a peer sends many individually legal packets whose body lengths
// differ (so that every buffer size class of the reader is touched), each packet is consumed and dropped by
// the caller, and then the peer goes quiet. After a garbage collection the live heap may have grown by a few
// maximum-size bodies at most, however many packets went by.

type lazyFrames struct {
	lens []int
	i    int
	cur  []byte
}

func (l *lazyFrames) Read(p []byte) (int, error) {
	for len(l.cur) == 0 {
		if l.i >= len(l.lens) {
			return 0, io.EOF
		}
		n := l.lens[l.i]
		l.i++
		l.cur = make([]byte, 5+n)
		l.cur[0] = 0x22
		binary.BigEndian.PutUint32(l.cur[1:5], uint32(n))
	}
	k := copy(p, l.cur)
	l.cur = l.cur[k:]
	return k, nil
}

func TestOpenConnectionRetention(t *testing.T) {
	if vkit.Shard() != 0 {
		t.Skip("single shard")
	}
	heap := func() uint64 {
		runtime.GC()
		runtime.GC()
		var ms runtime.MemStats
		runtime.ReadMemStats(&ms)
		return ms.HeapAlloc
	}
	measure := func(lens []int) (grown int64, total int64, err error) {
		before := heap()
		src := &lazyFrames{lens: lens}
		sp := stream.NewStreamProcessor(src, io.Discard, context.Background())
		defer sp.Close()
		for range lens {
			pkt, _, rerr := sp.ReadPacket()
			if rerr != nil {
				return 0, 0, rerr
			}
			total += int64(len(pkt.Payload))
			pkt = nil
		}
		// the peer is quiet now, the connection stays open
		grown = int64(heap()) - int64(before)
		if grown > 3*maxBody {
			time.Sleep(200 * time.Millisecond)
			grown = int64(heap()) - int64(before)
		}
		runtime.KeepAlive(sp)
		return grown, total, nil
	}
	var lens []int
	for i := 0; i < 24; i++ {
		lens = append(lens, (1<<20)+i*389_120+i) // 1 MiB .. ~9.5 MiB, every one in a different 4 KiB class
	}
	c := DecCase{Kind: "open-connection-retention"}
	vkit.Journal("decoder", c)
	grown, total, err := measure(lens)
	if err == nil && grown > 3*maxBody {
		grown, total, err = measure(lens) // an independent second measurement must confirm it
	}
	if err != nil {
		vkit.Violation(t, "C05/harness/open-connection-retention", err.Error(), c)
		return
	}
	if grown > 3*maxBody {
		vkit.Violation(t, "C05/connection-retains-memory-after-packets-were-consumed",
			fmt.Sprintf("a peer sent %d legal packets (%d body bytes in all, every length in a different size class), each was read and dropped; with the connection still open the live heap after GC has grown by %d bytes (bound %d = 3 maximum bodies)", len(lens), total, grown, 3*maxBody), c)
		return
	}
	vkit.Case("open-connection-retention", true, "open-connection-retention")
}
