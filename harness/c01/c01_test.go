// C01 — packet framing round-trips however the transport chunks the bytes.
package c01

import (
	"bytes"
	"compress/gzip"
	"context"
	"encoding/json"
	"fmt"
	"io"
	"os"
	"reflect"
	"testing"
	"time"

	"pgregory.net/rapid"

	"tunnox-core/internal/constants"
	"tunnox-core/internal/packet"
	"tunnox-core/internal/stream"
	"tunnox-core/verif/vkit"
)

func TestMain(m *testing.M) { vkit.Main(m, "C01") }

// ---------------------------------------------------------------------------
// case description (JSON-serialisable: it is the replay unit)

type PktSpec struct {
	Type     byte   `json:"type"`     // base type 0x01..0x3F
	Compress bool   `json:"compress"` // useCompression argument of WritePacket
	Cmd      *Cmd   `json:"cmd,omitempty"`
	BodyLen  int    `json:"body_len"`
	BodyMode int    `json:"body_mode"` // 0 pseudo-random(seed), 1 repeating pattern(seed), 2 explicit, 3 gzip stream of mode 0, 4 the same cut short
	BodySeed uint64 `json:"body_seed"`
	Explicit []byte `json:"explicit,omitempty"`
	Rate     int64  `json:"rate,omitempty"` // rateLimitBytesPerSecond argument of WritePacket (0 = unlimited)
}

type Cmd struct {
	CommandType byte   `json:"ct"`
	CommandId   string `json:"id"`
	Token       string `json:"tok"`
	SenderId    string `json:"snd"`
	ReceiverId  string `json:"rcv"`
	CommandBody string `json:"body"`
}

type ChunkSpec struct {
	Strategy    string `json:"strategy"`
	Sizes       []int  `json:"sizes,omitempty"`
	Fixed       int    `json:"fixed,omitempty"`
	EOFWithLast bool   `json:"eof_with_last"`
}

type Case struct {
	Packets []PktSpec `json:"packets"`
	Chunk   ChunkSpec `json:"chunk"`
}

func (p PktSpec) body() []byte {
	switch p.BodyMode {
	case 2:
		return p.Explicit
	case 3, 4:
		// a body that is itself a complete gzip stream (a .gz file, a pre-compressed HTTP response) of
		// BodyLen pseudo-random bytes; mode 4: the same with its trailer cut (not a valid stream). Written
		// with or without the framing layer's own compression it must come back byte for byte.
		q := p
		q.BodyMode = 0
		var buf bytes.Buffer
		zw := gzip.NewWriter(&buf)
		zw.Write(q.body())
		zw.Close()
		b := buf.Bytes()
		if p.BodyMode == 4 && len(b) > 3 {
			b = b[:len(b)-3]
		}
		return b
	case 1:
		b := make([]byte, p.BodyLen)
		pat := []byte(fmt.Sprintf("tunnox-%d-", p.BodySeed%97))
		for i := range b {
			b[i] = pat[i%len(pat)]
		}
		return b
	default:
		b := make([]byte, p.BodyLen)
		x := p.BodySeed | 1
		for i := range b {
			x ^= x << 13
			x ^= x >> 7
			x ^= x << 17
			b[i] = byte(x >> 24)
		}
		return b
	}
}

func isJSONType(t byte) bool { return t == byte(packet.JsonCommand) || t == byte(packet.CommandResp) }

func (p PktSpec) packet() *packet.TransferPacket {
	tp := &packet.TransferPacket{PacketType: packet.Type(p.Type)}
	if isJSONType(p.Type) {
		c := p.Cmd
		if c == nil {
			c = &Cmd{}
		}
		tp.CommandPacket = &packet.CommandPacket{CommandType: packet.CommandType(c.CommandType), CommandId: c.CommandId,
			Token: c.Token, SenderId: c.SenderId, ReceiverId: c.ReceiverId, CommandBody: c.CommandBody}
		return tp
	}
	tp.Payload = p.body()
	return tp
}

// ---------------------------------------------------------------------------
// generators

var definedTypes = []byte{0x01, 0x02, 0x03, 0x10, 0x11, 0x20, 0x21, 0x22, 0x23, 0x24}

func genType(t *rapid.T) byte {
	if rapid.IntRange(0, 9).Draw(t, "typeClass") < 8 {
		return rapid.SampledFrom(definedTypes).Draw(t, "type")
	}
	return byte(rapid.IntRange(1, 0x3F).Draw(t, "rawType"))
}

func genLen(t *rapid.T, maxBody int) int {
	classes := []int{0, 1, 2, 3, 4, 5, 6, 7}
	switch rapid.SampledFrom(classes).Draw(t, "lenClass") {
	case 0:
		return 0
	case 1:
		return 1
	case 2:
		return rapid.IntRange(2, 64).Draw(t, "len")
	case 3:
		return 4096 + rapid.IntRange(-1, 1).Draw(t, "d")
	case 4:
		return 32*1024 + rapid.IntRange(-1, 1).Draw(t, "d")
	case 5:
		return 64*1024 + rapid.IntRange(-1, 1).Draw(t, "d")
	case 6:
		n := rapid.IntRange(65, maxBody).Draw(t, "len")
		return n
	default:
		return rapid.IntRange(2, 600).Draw(t, "len")
	}
}

func genStr(t *rapid.T, label string) string {
	switch rapid.IntRange(0, 4).Draw(t, label+"Class") {
	case 0:
		return ""
	case 1:
		return rapid.StringN(0, 40, 200).Draw(t, label) // arbitrary valid unicode
	case 2:
		return rapid.StringMatching(`[{}\[\]":,\\ntrue0-9]{0,30}`).Draw(t, label)
	default:
		return rapid.StringMatching(`[a-zA-Z0-9_-]{0,24}`).Draw(t, label)
	}
}

func genPkt(t *rapid.T, maxBody int) PktSpec {
	p := PktSpec{Type: genType(t), Compress: rapid.Bool().Draw(t, "compress")}
	// the per-packet rate limit of WritePacket: high enough that pacing costs no real time
	p.Rate = rapid.SampledFrom([]int64{0, 0, 0, 512 << 20, 64 << 20}).Draw(t, "rate")
	if isJSONType(p.Type) {
		p.Cmd = &Cmd{CommandType: byte(rapid.IntRange(0, 255).Draw(t, "ct")), CommandId: genStr(t, "id"), Token: genStr(t, "tok"),
			SenderId: genStr(t, "snd"), ReceiverId: genStr(t, "rcv"), CommandBody: genStr(t, "cbody")}
		if rapid.IntRange(0, 9).Draw(t, "bigCmd") == 0 {
			n := genLen(t, maxBody/2)
			p.Cmd.CommandBody = string(bytes.Repeat([]byte("a\"\\é"), n/5+1)[:n/5*5])
		}
		return p
	}
	p.BodyLen = genLen(t, maxBody)
	if p.BodyLen <= 64 && rapid.Bool().Draw(t, "explicit") {
		p.BodyMode = 2
		p.Explicit = rapid.SliceOfN(rapid.Byte(), p.BodyLen, p.BodyLen).Draw(t, "bytes")
		return p
	}
	p.BodyMode = rapid.SampledFrom([]int{0, 0, 0, 1, 1, 1, 3, 4}).Draw(t, "mode")
	p.BodySeed = rapid.Uint64().Draw(t, "bseed")
	return p
}

// pktBounds[i] = [start,end) of packet i in the wire stream; writes = boundaries of writer Write calls.
func genChunks(t *rapid.T, wireLen int, bounds [][2]int, writes []int) ChunkSpec {
	cs := ChunkSpec{EOFWithLast: rapid.Bool().Draw(t, "eofWithLast")}
	strategies := []string{"random", "ones", "headercut", "bodycut", "coalesced", "perwrite", "everyheader"}
	cs.Strategy = rapid.SampledFrom(strategies).Draw(t, "strategy")
	switch cs.Strategy {
	case "random":
		k := rapid.SampledFrom([]int{2, 3, 5, 17, 1500, 70000}).Draw(t, "k")
		n := wireLen/k + 2
		if n > 3000 {
			n = 3000
		}
		cs.Sizes = rapid.SliceOfN(rapid.IntRange(0, k), 0, n).Draw(t, "sizes")
		if len(cs.Sizes) >= 3000 || k <= 5 {
			cs.Fixed = k
		}
	case "ones":
		cs.Fixed = 1
	case "headercut":
		i := rapid.IntRange(0, len(bounds)-1).Draw(t, "pkt")
		o := rapid.IntRange(1, 5).Draw(t, "off")
		cut := bounds[i][0] + o
		if cut > wireLen {
			cut = wireLen
		}
		cs.Sizes = []int{cut}
		if rapid.Bool().Draw(t, "second") && cut+1 < wireLen {
			cs.Sizes = append(cs.Sizes, 1)
		}
	case "bodycut":
		i := rapid.IntRange(0, len(bounds)-1).Draw(t, "pkt")
		lo, hi := bounds[i][0], bounds[i][1]
		cut := rapid.IntRange(lo, hi).Draw(t, "cut")
		cs.Sizes = []int{cut}
	case "coalesced":
	case "perwrite":
		prev := 0
		zero := rapid.Bool().Draw(t, "zeroMsgs")
		for _, w := range writes {
			if zero && rapid.IntRange(0, 3).Draw(t, "z") == 0 {
				cs.Sizes = append(cs.Sizes, 0)
			}
			cs.Sizes = append(cs.Sizes, w-prev)
			prev = w
		}
	case "everyheader":
		// a cut after the type byte and inside the length of every packet
		o := rapid.IntRange(1, 4).Draw(t, "off")
		prev := 0
		for _, b := range bounds {
			c := b[0] + o
			if c > b[1] {
				c = b[1]
			}
			if c > prev {
				cs.Sizes = append(cs.Sizes, c-prev)
				prev = c
			}
			if b[1] > prev {
				cs.Sizes = append(cs.Sizes, b[1]-prev)
				prev = b[1]
			}
		}
	}
	return cs
}

// ---------------------------------------------------------------------------
// execution + oracle

type recWriter struct {
	buf    bytes.Buffer
	writes []int // cumulative offsets after each Write
}

func (w *recWriter) Write(p []byte) (int, error) {
	n, err := w.buf.Write(p)
	w.writes = append(w.writes, w.buf.Len())
	return n, err
}

var sentinel = PktSpec{Type: byte(packet.JsonCommand), Cmd: &Cmd{CommandType: 77, CommandId: "sentinel", CommandBody: "END"}}

// encode writes the packets with the real writer and returns wire bytes, per-packet bounds and write offsets.
func encode(pkts []PktSpec) (wire []byte, bounds [][2]int, writes []int, counts []int, err error) {
	w := &recWriter{}
	sp := stream.NewStreamProcessor(bytes.NewReader(nil), w, context.Background())
	defer sp.Close()
	for _, p := range pkts {
		start := w.buf.Len()
		n, e := sp.WritePacket(p.packet(), p.Compress, p.Rate)
		if e != nil {
			return nil, nil, nil, nil, e
		}
		bounds = append(bounds, [2]int{start, w.buf.Len()})
		counts = append(counts, n)
	}
	return append([]byte(nil), w.buf.Bytes()...), bounds, w.writes, counts, nil
}

type failure struct{ key, detail string }

func classifyCut(cs ChunkSpec, bounds [][2]int, wireLen int) (inHeader, inBody bool) {
	if cs.Fixed > 0 && cs.Fixed <= 4 {
		return true, true
	}
	off := 0
	for _, s := range cs.Sizes {
		off += s
		if off <= 0 || off >= wireLen {
			continue
		}
		for _, b := range bounds {
			if off > b[0] && off < b[1] {
				if off-b[0] < 5 {
					inHeader = true
				} else {
					inBody = true
				}
			}
		}
	}
	return
}

func runCase(c Case) (*failure, string, bool) {
	pkts := append(append([]PktSpec(nil), c.Packets...), sentinel)
	wire, bounds, _, counts, err := encode(pkts)
	if err != nil {
		return &failure{"C01/writer-rejected-in-domain-packet", err.Error()}, "", false
	}
	// writer's own byte count must equal what it put on the wire
	for i, b := range bounds {
		if counts[i] != b[1]-b[0] {
			return &failure{"C01/writer-count-mismatch", fmt.Sprintf("packet %d: WritePacket returned %d, wrote %d bytes", i, counts[i], b[1]-b[0])}, "", false
		}
	}
	cr := &vkit.ChunkReader{Data: wire, Chunks: c.Chunk.Sizes, EOFWithLast: c.Chunk.EOFWithLast, Fixed: c.Chunk.Fixed}
	sp := stream.NewStreamProcessor(cr, io.Discard, context.Background())
	defer sp.Close()
	inHeader, inBody := classifyCut(c.Chunk, bounds, len(wire))
	where := func(i int) string {
		s := "coalesced"
		if inHeader {
			s = "cut-in-header"
		} else if inBody {
			s = "cut-in-body"
		}
		if c.Chunk.EOFWithLast && i == len(pkts)-1 {
			s += "+eof-with-last"
		}
		return s
	}
	total := 0
	kept := make([][]byte, len(pkts))
	for i, want := range pkts {
		got, n, err := sp.ReadPacket()
		if err != nil {
			emptyBefore := false
			for j := 0; j <= i && j < len(pkts); j++ {
				if pkts[j].Type != byte(packet.Heartbeat) && !isJSONType(pkts[j].Type) && len(pkts[j].body()) == 0 {
					emptyBefore = true
				}
			}
			if emptyBefore {
				return &failure{"C01/empty-body-desync", fmt.Sprintf("packet %d/%d: %v", i, len(pkts), err)}, "", false
			}
			if len(wire) > 0 && bounds[i][1]-bounds[i][0]-5 > constants.MaxPacketBodySize {
				return &failure{"C01/compressed-body-exceeds-limit", fmt.Sprintf("packet %d wire body %d: %v", i, bounds[i][1]-bounds[i][0]-5, err)}, "", false
			}
			return &failure{"C01/read-error/" + where(i), fmt.Sprintf("packet %d/%d (type %#x, wire [%d,%d)): %v", i, len(pkts), want.Type, bounds[i][0], bounds[i][1], err)}, "", false
		}
		total += n
		wantType := packet.Type(want.Type)
		if want.Compress {
			wantType |= packet.Compressed
		}
		if got.PacketType != wantType {
			return &failure{"C01/type-mismatch", fmt.Sprintf("packet %d: got type %#x want %#x", i, got.PacketType, wantType)}, "", false
		}
		// "consumes exactly the bytes of each packet": nothing beyond this packet may have been
		// pulled off the transport (another reader of the same connection - raw stream mode after
		// TunnelOpen, a fresh processor - must find the following bytes)
		if cr.Consumed() > bounds[i][1] {
			return &failure{"C01/reader-consumed-beyond-packet", fmt.Sprintf("after packet %d (ends at %d) the reader has taken %d bytes off the transport", i, bounds[i][1], cr.Consumed())}, "", false
		}
		if n != bounds[i][1]-bounds[i][0] {
			return &failure{"C01/reader-count-mismatch", fmt.Sprintf("packet %d: ReadPacket returned %d bytes, packet occupies %d", i, n, bounds[i][1]-bounds[i][0])}, "", false
		}
		switch {
		case want.Type == byte(packet.Heartbeat):
			if len(got.Payload) != 0 || got.CommandPacket != nil {
				return &failure{"C01/heartbeat-has-body", fmt.Sprintf("packet %d", i)}, "", false
			}
		case isJSONType(want.Type):
			if got.CommandPacket == nil || !reflect.DeepEqual(*got.CommandPacket, *want.packet().CommandPacket) {
				return &failure{"C01/command-mismatch", fmt.Sprintf("packet %d: got %+v want %+v", i, got.CommandPacket, want.packet().CommandPacket)}, "", false
			}
		default:
			kept[i] = got.Payload
			if !bytes.Equal(got.Payload, want.body()) {
				return &failure{"C01/body-mismatch/" + where(i), fmt.Sprintf("packet %d: got %d bytes want %d (first diff at %d)", i, len(got.Payload), len(want.body()), firstDiff(got.Payload, want.body()))}, "", false
			}
		}
	}
	// payloads returned earlier must still hold their bytes after later packets were read
	for i, g := range kept {
		if g != nil && !bytes.Equal(g, pkts[i].body()) {
			return &failure{"C01/earlier-payload-overwritten-by-later-read", fmt.Sprintf("payload of packet %d (%d bytes) changed after reading the following packets (first diff at %d)", i, len(g), firstDiff(g, pkts[i].body()))}, "", false
		}
	}
	if total != len(wire) || cr.Consumed() != len(wire) {
		return &failure{"C01/bytes-not-consumed-exactly", fmt.Sprintf("returned counts sum %d, consumed %d, wire %d", total, cr.Consumed(), len(wire))}, "", false
	}
	if p, _, err := sp.ReadPacket(); err == nil {
		return &failure{"C01/packet-after-end", fmt.Sprintf("decoded an extra packet type %#x", p.PacketType)}, "", false
	}
	class := c.Chunk.Strategy
	nt := len(c.Packets) >= 1 && (inHeader || inBody)
	return nil, class, nt
}

func firstDiff(a, b []byte) int {
	for i := 0; i < len(a) && i < len(b); i++ {
		if a[i] != b[i] {
			return i
		}
	}
	if len(a) < len(b) {
		return len(a)
	}
	return len(b)
}

func caseSig(c Case) string {
	b, _ := json.Marshal(struct {
		T []byte
		L []int
		C ChunkSpec
	}{func() (t []byte) {
		for _, p := range c.Packets {
			x := p.Type
			if p.Compress {
				x |= 0x40
			}
			t = append(t, x)
		}
		return
	}(), func() (l []int) {
		for _, p := range c.Packets {
			l = append(l, p.BodyLen)
		}
		return
	}(), c.Chunk})
	return string(b)
}

func summarize(c Case) any {
	type ps struct {
		Type     string `json:"type"`
		Compress bool   `json:"compress"`
		Len      int    `json:"body_len"`
	}
	var out []ps
	for _, p := range c.Packets {
		l := p.BodyLen
		if p.Cmd != nil {
			l = len(p.Cmd.CommandBody)
		}
		out = append(out, ps{fmt.Sprintf("%#x", p.Type), p.Compress, l})
	}
	ch := c.Chunk
	if len(ch.Sizes) > 12 {
		ch.Sizes = append(append([]int(nil), ch.Sizes[:12]...), -len(c.Chunk.Sizes))
	}
	return map[string]any{"packets": out, "chunk": ch}
}

func check(t vkit.TB, c Case) {
	f, class, nt := runCase(c)
	if f != nil {
		vkit.Violation(t, f.key, f.detail, c)
		vkit.Case("known:"+f.key, false, "")
		return
	}
	vkit.Case(class, nt, caseSig(c))
	vkit.Sample(class, summarize(c))
	for _, p := range c.Packets {
		if p.Compress {
			vkit.Class("feat:compressed-packet")
		}
		if !isJSONType(p.Type) && p.Type != byte(packet.Heartbeat) && len(p.body()) == 0 {
			vkit.Class("feat:empty-body-packet")
		}
		if p.BodyLen > 64*1024 {
			vkit.Class("feat:body>64KiB")
		}
		if p.Type == byte(packet.Heartbeat) {
			vkit.Class("feat:heartbeat")
		}
	}
	for _, z := range c.Chunk.Sizes {
		if z == 0 {
			vkit.Class("feat:zero-length-read")
			break
		}
	}
	if c.Chunk.EOFWithLast {
		vkit.Class("feat:data-with-EOF")
	}
}

// TestFraming is the main generated search.
func TestFraming(t *testing.T) {
	maxBody := vkit.Pick(256*1024, 1024*1024)
	vkit.Check(t, 24000, 400000, func(t *rapid.T) {
		n := rapid.IntRange(1, 6).Draw(t, "npkts")
		var c Case
		for i := 0; i < n; i++ {
			c.Packets = append(c.Packets, genPkt(t, maxBody))
		}
		wire, bounds, writes, _, err := encode(append(append([]PktSpec(nil), c.Packets...), sentinel))
		if err != nil {
			vkit.Violation(t, "C01/writer-rejected-in-domain-packet", err.Error(), c)
			return
		}
		c.Chunk = genChunks(t, len(wire), bounds, writes)
		check(t, c)
	})
}

// TestLimitFamily runs bodies at and around MaxPacketBodySize (thorough tier; one case in quick).
func TestLimitFamily(t *testing.T) {
	if vkit.Shard() != 0 {
		t.Skip("single shard")
	}
	max := constants.MaxPacketBodySize
	type lc struct {
		n        int
		mode     int
		compress bool
	}
	cases := []lc{{max, 1, false}, {max, 1, true}, {max - 1, 1, true}}
	if vkit.Thorough() {
		cases = []lc{{max, 0, false}, {max, 1, false}, {max - 1, 0, false}, {max, 1, true}, {max, 0, true}, {max / 2, 0, true}}
	}
	for _, l := range cases {
		for _, ch := range []ChunkSpec{{Strategy: "coalesced"}, {Strategy: "random", Fixed: 65536 + 1}, {Strategy: "headercut", Sizes: []int{3}, EOFWithLast: true}} {
			c := Case{Packets: []PktSpec{{Type: 0x22, Compress: l.compress, BodyLen: l.n, BodyMode: l.mode, BodySeed: 7}, {Type: 0x20, BodyLen: 9, BodySeed: 3}}, Chunk: ch}
			check(t, c)
		}
	}
}

// TestReplay re-executes a saved JSON case (VERIF_REPLAY=path).
func TestReplay(t *testing.T) {
	path := vkit.Replaying()
	if path == "" {
		t.Skip("no VERIF_REPLAY")
	}
	// the replay unit is whichever case kind the violation was reported with
	var u struct {
		Case
		ConcCase
		WSCase
		EncCase
		TPCase
		WSMCase
		DuplexCase
		SlowCase
	}
	if _, err := vkit.LoadReplay(path, &u); err != nil {
		t.Fatalf("bad replay file: %v", err)
	}
	switch {
	case u.SlowCase.Slow != "":
		if f, _ := runSlow(t, u.SlowCase); f != nil {
			vkit.Violation(t, f.key, f.detail, u.SlowCase)
		}
	case len(u.Writers) > 0:
		for i := 0; i < 50; i++ { // schedule-dependent
			if f := runConc(u.ConcCase); f != nil {
				vkit.Violation(t, f.key, f.detail, u.ConcCase)
				return
			}
		}
	case len(u.ToServer)+len(u.ToClient) > 0:
		if f := runWS(t, u.WSCase); f != nil {
			vkit.Violation(t, f.key, f.detail, u.WSCase)
		}
	case u.WSMCase.WSModule:
		if f := runWSM(t, u.WSMCase); f != nil {
			vkit.Violation(t, f.key, f.detail, u.WSMCase)
		}
	case u.DuplexCase.Duplex:
		for i := 0; i < 20; i++ {
			if f := runDuplex(u.DuplexCase); f != nil {
				vkit.Violation(t, f.key, f.detail, u.DuplexCase)
				return
			}
		}
	case u.TPCase.Proto != "":
		checkTP(t, u.TPCase)
	case len(u.Pkts) > 0:
		if f, _ := runEnc(u.EncCase); f != nil {
			vkit.Violation(t, f.key, f.detail, u.EncCase)
		}
	default:
		check(t, u.Case)
	}
}

var _ = os.Getenv
var _ = time.Now

// FuzzFraming (thorough tier): coverage-guided search over (packet specs, chunk spec) decoded
// from the fuzz input by a small data provider; same oracle as TestFraming.
func FuzzFraming(f *testing.F) {
	f.Add([]byte{2, 0x22, 0, 5, 1, 0x10, 1, 9, 0, 3, 1, 4})
	f.Add([]byte{1, 0x23, 0, 0, 0, 2, 1})
	f.Add([]byte{3, 0x03, 0, 0, 0, 0x20, 1, 200, 1, 0x11, 0, 7, 2, 6, 1, 1, 1})
	f.Add([]byte{1, 0x22, 1, 255, 3, 1, 5})
	f.Fuzz(func(t *testing.T, in []byte) {
		pos := 0
		next := func() int {
			if pos >= len(in) {
				return 0
			}
			b := in[pos]
			pos++
			return int(b)
		}
		n := next()%5 + 1
		var c Case
		for i := 0; i < n; i++ {
			ty := byte(next()%0x3F) + 1
			p := PktSpec{Type: ty, Compress: next()%2 == 1}
			l := next()
			switch next() % 4 {
			case 1:
				l *= 64
			case 2:
				l = l*257 + 4090
			case 3:
				l = 65530 + l%12
			}
			if isJSONType(ty) {
				p.Cmd = &Cmd{CommandType: byte(l), CommandId: "f", CommandBody: string(bytes.Repeat([]byte("q"), l%3000))}
			} else {
				p.BodyLen, p.BodyMode, p.BodySeed = l, next()%2, uint64(next())
			}
			c.Packets = append(c.Packets, p)
		}
		c.Chunk.EOFWithLast = next()%2 == 1
		switch next() % 3 {
		case 0:
			c.Chunk.Fixed = next()%7 + 1
		case 1:
			for pos < len(in) && len(c.Chunk.Sizes) < 64 {
				c.Chunk.Sizes = append(c.Chunk.Sizes, next()%9)
			}
		}
		c.Chunk.Strategy = "fuzz"
		if fl, _, _ := runCase(c); fl != nil && !vkit.IsKnown(fl.key) {
			t.Fatalf("%s: %s", fl.key, fl.detail)
		}
	})
}
