package c01

import (
	"bytes"
	"context"
	"fmt"
	"io"
	"net"
	"net/http"
	"net/http/httptest"
	"runtime"
	"strings"
	"sync"
	"sync/atomic"
	"testing"
	"time"

	"github.com/gorilla/websocket"
	"pgregory.net/rapid"

	"tunnox-core/internal/packet"
	"tunnox-core/internal/protocol/adapter"
	"tunnox-core/internal/stream"
	"tunnox-core/verif/vkit"
)

// ---------------------------------------------------------------------------
// Concurrent writers: "one packet is written atomically w.r.t. other callers" (the writer issues
// the type byte, the length and the body as separate transport writes). Several goroutines write
// packets to ONE processor whose transport yields between writes; the decoded stream must be a
// permutation of the written packets, each intact.

type yieldWriter struct {
	mu  sync.Mutex
	buf bytes.Buffer
	n   atomic.Int64
}

func (w *yieldWriter) Write(p []byte) (int, error) {
	// a transport write that takes time: other goroutines get to run between the writes of one packet
	if w.n.Add(1)%2 == 0 {
		runtime.Gosched()
	} else {
		time.Sleep(20 * time.Microsecond)
	}
	w.mu.Lock()
	defer w.mu.Unlock()
	return w.buf.Write(p)
}

type ConcCase struct {
	Writers [][]PktSpec `json:"writers"`
}

func runConc(c ConcCase) *failure {
	w := &yieldWriter{}
	sp := stream.NewStreamProcessor(bytes.NewReader(nil), w, context.Background())
	var wg sync.WaitGroup
	var start atomic.Bool
	var werr atomic.Value
	for _, specs := range c.Writers {
		wg.Add(1)
		go func(specs []PktSpec) {
			defer wg.Done()
			for !start.Load() {
			}
			for _, p := range specs {
				if _, err := sp.WritePacket(p.packet(), p.Compress, 0); err != nil {
					werr.Store(err)
				}
			}
		}(specs)
	}
	start.Store(true)
	wg.Wait()
	sp.Close()
	if e := werr.Load(); e != nil {
		return &failure{"C01/concurrent-writers/writer-error", fmt.Sprint(e)}
	}
	// expected multiset
	want := map[string]int{}
	total := 0
	for _, specs := range c.Writers {
		for _, p := range specs {
			want[pktKey(p)]++
			total++
		}
	}
	rp := stream.NewStreamProcessor(bytes.NewReader(w.buf.Bytes()), io.Discard, context.Background())
	defer rp.Close()
	for i := 0; i < total; i++ {
		got, _, err := rp.ReadPacket()
		if err != nil {
			return &failure{"C01/concurrent-writers/frames-interleaved", fmt.Sprintf("packet %d of %d: %v", i, total, err)}
		}
		k := gotKey(got)
		if want[k] == 0 {
			return &failure{"C01/concurrent-writers/frames-interleaved", fmt.Sprintf("decoded packet %d (%s) was never written", i, k[:min(len(k), 80)])}
		}
		want[k]--
	}
	if _, _, err := rp.ReadPacket(); err == nil {
		return &failure{"C01/concurrent-writers/extra-packet", "more packets decoded than written"}
	}
	return nil
}

func pktKey(p PktSpec) string {
	t := p.Type
	if p.Compress {
		t |= 0x40
	}
	if p.Type == byte(packet.Heartbeat) {
		return fmt.Sprintf("%#x|", t)
	}
	if isJSONType(p.Type) {
		return fmt.Sprintf("%#x|cmd|%+v", t, *p.packet().CommandPacket)
	}
	return fmt.Sprintf("%#x|%x", t, p.body())
}

func gotKey(g *packet.TransferPacket) string {
	if g.PacketType.IsHeartbeat() {
		return fmt.Sprintf("%#x|", byte(g.PacketType))
	}
	if g.CommandPacket != nil {
		return fmt.Sprintf("%#x|cmd|%+v", byte(g.PacketType), *g.CommandPacket)
	}
	return fmt.Sprintf("%#x|%x", byte(g.PacketType), g.Payload)
}

func TestConcurrentWriters(t *testing.T) {
	vkit.Check(t, 1500, 40000, func(t *rapid.T) {
		var c ConcCase
		nw := rapid.IntRange(2, 4).Draw(t, "writers")
		for i := 0; i < nw; i++ {
			var specs []PktSpec
			for j := rapid.IntRange(1, 5).Draw(t, "n"); j > 0; j-- {
				p := genPkt(t, 2000)
				if rapid.IntRange(0, 2).Draw(t, "hb") == 0 {
					p = PktSpec{Type: byte(packet.Heartbeat)}
				}
				// make every body unique to its writer/position so a mixed-up frame cannot pass as another packet
				if !isJSONType(p.Type) && p.Type != byte(packet.Heartbeat) {
					p.BodyMode, p.BodySeed = 0, uint64(i*1000+j+1)
					if p.BodyLen < 8 {
						p.BodyLen = 8 + j
					}
				}
				specs = append(specs, p)
			}
			c.Writers = append(c.Writers, specs)
		}
		if f := runConc(c); f != nil {
			vkit.Violation(t, f.key, f.detail, c)
			return
		}
		sig := ""
		for _, ws := range c.Writers {
			for _, p := range ws {
				sig += fmt.Sprintf("%x:%d,", p.Type, p.BodyLen)
			}
			sig += "|"
		}
		vkit.Case("concurrent-writers", true, sig)
	})
}

// ---------------------------------------------------------------------------
// The real WebSocket adaptation (message -> stream) on both sides, over a loopback gorilla pair
// (hook: adapter.VerifNewWSServerConn / VerifNewWSClientConn): packets written by a
// StreamProcessor on one side must be read identically by a StreamProcessor on the other side,
// in both directions, for bodies around and above the 64 KiB WebSocket buffer size.

func wsPair(t vkit.TB) (srv, cli net.Conn, cleanup func()) {
	up := websocket.Upgrader{ReadBufferSize: 65536, WriteBufferSize: 65536}
	ch := make(chan *websocket.Conn, 1)
	ts := httptest.NewServer(http.HandlerFunc(func(w http.ResponseWriter, r *http.Request) {
		c, err := up.Upgrade(w, r, nil)
		if err == nil {
			ch <- c
		}
	}))
	d := websocket.Dialer{ReadBufferSize: 65536, WriteBufferSize: 65536}
	cc, _, err := d.Dial("ws"+strings.TrimPrefix(ts.URL, "http"), nil)
	if err != nil {
		ts.Close()
		t.Fatalf("HARNESS-ERROR websocket dial: %v", err)
	}
	var sc *websocket.Conn
	select {
	case sc = <-ch:
	case <-time.After(5 * time.Second):
		t.Fatalf("HARNESS-ERROR websocket accept timed out")
	}
	srv = adapter.VerifNewWSServerConn(sc, "127.0.0.1:1")
	cli = adapter.VerifNewWSClientConn(cc)
	return srv, cli, func() { srv.Close(); cli.Close(); ts.Close() }
}

type WSCase struct {
	ToServer []PktSpec `json:"client_to_server"`
	ToClient []PktSpec `json:"server_to_client"`
}

func runWS(t vkit.TB, c WSCase) *failure {
	srv, cli, cleanup := wsPair(t)
	defer cleanup()
	spS := stream.NewStreamProcessor(srv, srv, context.Background())
	spC := stream.NewStreamProcessor(cli, cli, context.Background())
	defer spS.Close()
	defer spC.Close()
	oneWay := func(dir string, w, r *stream.StreamProcessor, pkts []PktSpec) *failure {
		errc := make(chan error, 1)
		go func() {
			for _, p := range pkts {
				if _, err := w.WritePacket(p.packet(), p.Compress, 0); err != nil {
					errc <- err
					return
				}
			}
			errc <- nil
		}()
		for i, p := range pkts {
			type res struct {
				g   *packet.TransferPacket
				err error
			}
			rc := make(chan res, 1)
			go func() { g, _, err := r.ReadPacket(); rc <- res{g, err} }()
			select {
			case x := <-rc:
				if x.err != nil {
					return &failure{"C01/websocket/" + dir + "/read-error", fmt.Sprintf("packet %d (type %#x, body %d): %v", i, p.Type, len(p.body()), x.err)}
				}
				if gotKey(x.g) != pktKey(p) {
					return &failure{"C01/websocket/" + dir + "/packet-mismatch", fmt.Sprintf("packet %d (type %#x, body %d bytes): decoded type %#x with %d payload bytes", i, p.Type, len(p.body()), byte(x.g.PacketType), len(x.g.Payload))}
				}
			case <-time.After(10 * time.Second):
				return &failure{"C01/websocket/" + dir + "/reader-stuck", fmt.Sprintf("packet %d (type %#x, body %d bytes) was written but never completes on the reader", i, p.Type, len(p.body()))}
			}
		}
		if err := <-errc; err != nil {
			return &failure{"C01/websocket/" + dir + "/writer-error", err.Error()}
		}
		return nil
	}
	if f := oneWay("client-to-server", spC, spS, c.ToServer); f != nil {
		return f
	}
	return oneWay("server-to-client", spS, spC, c.ToClient)
}

func TestWebSocketPair(t *testing.T) {
	sizes := []int{0, 1, 100, 65535, 65536, 65537, 70000, 131072, 200000}
	vkit.Check(t, 160, 6000, func(t *rapid.T) {
		gen := func(label string) []PktSpec {
			var out []PktSpec
			for j := rapid.IntRange(1, 4).Draw(t, label+"n"); j > 0; j-- {
				p := genPkt(t, 4000)
				if !isJSONType(p.Type) && p.Type != byte(packet.Heartbeat) && rapid.Bool().Draw(t, label+"big") {
					p.BodyLen = rapid.SampledFrom(sizes).Draw(t, label+"size")
					p.BodyMode, p.BodySeed, p.Explicit = 0, uint64(j+7), nil
					p.Compress = rapid.IntRange(0, 3).Draw(t, label+"c") == 0
				}
				out = append(out, p)
			}
			return out
		}
		c := WSCase{ToServer: gen("up"), ToClient: gen("down")}
		if f := runWS(t, c); f != nil {
			vkit.Violation(t, f.key, f.detail, c)
			return
		}
		big := false
		for _, p := range append(append([]PktSpec{}, c.ToServer...), c.ToClient...) {
			if p.BodyLen > 65536 {
				big = true
			}
		}
		vkit.Case("websocket-pair", big, fmt.Sprintf("%d/%d/%v", len(c.ToServer), len(c.ToClient), big))
	})
}

// ---------------------------------------------------------------------------
// "The reader consumes exactly the bytes of each packet so that every following packet stays
// aligned" for the one flag combination the writer frames but this reader does not decode: the
// Encrypted flag (0x80; WritePacket writes PacketType verbatim, the reader answers "encryption not
// supported, use the transform package"). Whatever the reader returns for such a packet (an error,
// or the packet), the packets that follow it on the stream must decode unchanged, for every chunking.

type EncCase struct {
	Pkts  []PktSpec `json:"enc_packets"`
	Enc   []bool    `json:"encrypted_flag"`
	Chunk int       `json:"read_size"` // read size (0 = whole stream at once)
}

func runEnc(c EncCase) (*failure, bool) {
	var wire bytes.Buffer
	wp := stream.NewStreamProcessor(bytes.NewReader(nil), &wire, context.Background())
	for i, p := range c.Pkts {
		pk := p.packet()
		if c.Enc[i] {
			pk.PacketType |= packet.Encrypted
		}
		if _, err := wp.WritePacket(pk, p.Compress, 0); err != nil {
			wp.Close()
			return nil, false // not accepted by the writer: outside the property
		}
	}
	wp.Close()
	cr := &vkit.ChunkReader{Data: wire.Bytes(), Fixed: c.Chunk}
	if c.Chunk == 0 {
		cr.Fixed = len(cr.Data) + 1
	}
	rp := stream.NewStreamProcessor(cr, io.Discard, context.Background())
	defer rp.Close()
	afterRejected := false
	for i, p := range c.Pkts {
		got, _, err := rp.ReadPacket()
		if c.Enc[i] {
			if err != nil {
				afterRejected = true
			}
			continue
		}
		where := "plain"
		if afterRejected {
			where = "after-rejected-encrypted-flag-packet"
		}
		if err != nil {
			return &failure{"C01/encrypted-flag/following-packet-misaligned/" + where, fmt.Sprintf("packet %d of %d (type %#x, body %d): %v", i, len(c.Pkts), p.Type, len(p.body()), err)}, true
		}
		if gotKey(got) != pktKey(p) {
			return &failure{"C01/encrypted-flag/following-packet-misaligned/" + where, fmt.Sprintf("packet %d of %d (type %#x, body %d bytes) decoded as type %#x with %d payload bytes", i, len(c.Pkts), p.Type, len(p.body()), byte(got.PacketType), len(got.Payload))}, true
		}
	}
	return nil, true
}

func TestEncryptedFlagAlignment(t *testing.T) {
	vkit.Check(t, 3000, 60000, func(t *rapid.T) {
		var c EncCase
		anyEnc, follow := false, false
		for j := rapid.IntRange(2, 6).Draw(t, "n"); j > 0; j-- {
			p := genPkt(t, 3000)
			e := rapid.IntRange(0, 2).Draw(t, "enc") == 0
			if anyEnc && !e {
				follow = true
			}
			anyEnc = anyEnc || e
			c.Pkts = append(c.Pkts, p)
			c.Enc = append(c.Enc, e)
		}
		c.Chunk = rapid.SampledFrom([]int{0, 1, 2, 3, 5, 7, 64, 1500}).Draw(t, "chunk")
		f, accepted := runEnc(c)
		if !accepted {
			vkit.Excluded(1)
			return
		}
		if f != nil {
			vkit.Violation(t, f.key, f.detail, c)
			return
		}
		vkit.Case("encrypted-flag-alignment", follow, fmt.Sprint(c.Enc, c.Chunk, len(c.Pkts)))
	})
}
