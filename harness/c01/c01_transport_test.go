package c01

import (
	"context"
	"crypto/ecdsa"
	"crypto/elliptic"
	"crypto/rand"
	"crypto/tls"
	"crypto/x509"
	"crypto/x509/pkix"
	"fmt"
	"io"
	"math/big"
	"net"
	"strings"
	"sync"
	"sync/atomic"
	"testing"
	"time"

	"github.com/quic-go/quic-go"
	"pgregory.net/rapid"

	"tunnox-core/internal/client/transport"
	"tunnox-core/internal/packet"
	"tunnox-core/internal/protocol/adapter"
	"tunnox-core/internal/stream"
	"tunnox-core/verif/vkit"
)

// ---------------------------------------------------------------------------
// TestTransportPairs — the framing property over the REAL transports: the server's protocol
// adapters (tcp, websocket, quic, kcp: Listen/Accept) and the client's transports
// (transport.Dial), on loopback. What the transport does to the byte stream (TCP segments,
// WebSocket messages, QUIC stream frames, KCP segments, end-of-stream delivered together with the
// last bytes) is then not a double but the code that ships. For QUIC the two ends are also driven
// by a bare quic-go peer that finishes its stream right after the last packet (FIN in the frame
// that carries the last bytes).

type TPCase struct {
	Proto string    `json:"tp_proto"` // tcp | websocket | quic | kcp
	Peer  string    `json:"tp_peer"`  // real | raw-client | raw-server (quic)
	Up    []PktSpec `json:"tp_up"`    // client -> server
	Down  []PktSpec `json:"tp_down"`  // server -> client
	End   string    `json:"tp_end"`   // open | down-writer-closes | up-writer-closes
}

type acceptor interface {
	Listen(addr string) error
	Accept() (io.ReadWriteCloser, error)
}

var (
	tpMu     sync.Mutex
	tpAddr   = map[string]string{}
	tpSrv    = map[string]acceptor{}
	tpNonce  atomic.Uint64
	tpRawLn  *quic.Listener
	tpRawTLS *tls.Config
)

func freePort(udp bool) int {
	if udp {
		c, err := net.ListenUDP("udp", &net.UDPAddr{IP: net.IPv4(127, 0, 0, 1)})
		if err != nil {
			return 0
		}
		defer c.Close()
		return c.LocalAddr().(*net.UDPAddr).Port
	}
	l, err := net.Listen("tcp", "127.0.0.1:0")
	if err != nil {
		return 0
	}
	defer l.Close()
	return l.Addr().(*net.TCPAddr).Port
}

// tpServer returns the address of this process's adapter for proto (created on first use).
func tpServer(t vkit.TB, proto string) (acceptor, string) {
	tpMu.Lock()
	defer tpMu.Unlock()
	if a, ok := tpSrv[proto]; ok {
		return a, tpAddr[proto]
	}
	ctx := context.Background()
	for try := 0; try < 20; try++ {
		var a acceptor
		udp := proto == "quic" || proto == "kcp"
		switch proto {
		case "tcp":
			a = adapter.NewTcpAdapter(ctx, nil)
		case "websocket":
			a = adapter.NewWebSocketAdapter(ctx, nil)
		case "quic":
			a = adapter.NewQuicAdapter(ctx, nil)
		case "kcp":
			a = adapter.NewKcpAdapter(ctx, nil)
		}
		addr := fmt.Sprintf("127.0.0.1:%d", freePort(udp))
		if err := a.Listen(addr); err == nil {
			tpSrv[proto], tpAddr[proto] = a, addr
			return a, addr
		}
	}
	t.Fatalf("HARNESS-ERROR could not start a %s adapter on loopback", proto)
	return nil, ""
}

func tpRawServer(t vkit.TB) (*quic.Listener, string) {
	tpMu.Lock()
	defer tpMu.Unlock()
	if tpRawLn != nil {
		return tpRawLn, tpRawLn.Addr().String()
	}
	key, err := ecdsa.GenerateKey(elliptic.P256(), rand.Reader)
	if err != nil {
		t.Fatalf("HARNESS-ERROR key: %v", err)
	}
	tmpl := x509.Certificate{SerialNumber: big.NewInt(1), Subject: pkix.Name{Organization: []string{"verif"}}, NotBefore: time.Now().Add(-time.Hour), NotAfter: time.Now().Add(24 * time.Hour),
		KeyUsage: x509.KeyUsageDigitalSignature, ExtKeyUsage: []x509.ExtKeyUsage{x509.ExtKeyUsageServerAuth}, BasicConstraintsValid: true}
	der, err := x509.CreateCertificate(rand.Reader, &tmpl, &tmpl, &key.PublicKey, key)
	if err != nil {
		t.Fatalf("HARNESS-ERROR cert: %v", err)
	}
	tpRawTLS = &tls.Config{Certificates: []tls.Certificate{{Certificate: [][]byte{der}, PrivateKey: key}}, NextProtos: []string{"tunnox-quic"}}
	ln, err := quic.ListenAddr("127.0.0.1:0", tpRawTLS, &quic.Config{MaxIdleTimeout: 30 * time.Second})
	if err != nil {
		t.Fatalf("HARNESS-ERROR raw quic listener: %v", err)
	}
	tpRawLn = ln
	return ln, ln.Addr().String()
}

type rwc struct {
	io.Reader
	io.Writer
	closeFn func() error
}

func (r rwc) Close() error { return r.closeFn() }

const tpWait = 20 * time.Second

type tpRes struct {
	f       *failure
	timeout bool   // a wait ran out (re-run once before it counts)
	infra   string // the rig could not be brought up
}

func markerPkt(n uint64) *packet.TransferPacket {
	return &packet.TransferPacket{PacketType: packet.TunnelData, Payload: []byte(fmt.Sprintf("verif-marker-%016x", n))}
}

// readOne reads one packet with a bound.
func readOne(sp *stream.StreamProcessor) (*packet.TransferPacket, error, bool) {
	type res struct {
		g   *packet.TransferPacket
		err error
	}
	ch := make(chan res, 1)
	go func() { g, _, err := sp.ReadPacket(); ch <- res{g, err} }()
	select {
	case x := <-ch:
		return x.g, x.err, false
	case <-time.After(tpWait):
		return nil, nil, true
	}
}

func readSeq(sp *stream.StreamProcessor, pkts []PktSpec, dir string, c TPCase, expectEnd bool) tpRes {
	base := "C01/transport/" + c.Proto + "/" + c.Peer + "/" + dir
	for i, p := range pkts {
		g, err, to := readOne(sp)
		if to {
			return tpRes{timeout: true, f: &failure{base + "/reader-stuck", fmt.Sprintf("packet %d of %d (type %#x, body %d bytes) was written but never completes on the reader (ending %s)", i, len(pkts), p.Type, len(p.body()), c.End)}}
		}
		if err != nil {
			return tpRes{f: &failure{base + "/read-error", fmt.Sprintf("packet %d of %d (type %#x, body %d bytes, ending %s): %v", i, len(pkts), p.Type, len(p.body()), c.End, err)}}
		}
		if gotKey(g) != pktKey(p) {
			return tpRes{f: &failure{base + "/packet-mismatch", fmt.Sprintf("packet %d of %d (type %#x, body %d bytes): decoded type %#x with %d payload bytes", i, len(pkts), p.Type, len(p.body()), byte(g.PacketType), len(g.Payload))}}
		}
	}
	if expectEnd {
		g, err, to := readOne(sp)
		if to {
			return tpRes{timeout: true, f: &failure{base + "/end-of-stream-never-seen", "the writer closed after its last packet"}}
		}
		if err == nil {
			return tpRes{f: &failure{base + "/extra-packet", fmt.Sprintf("a packet (type %#x, %d bytes) was decoded after the last written one", byte(g.PacketType), len(g.Payload))}}
		}
	}
	return tpRes{}
}

func writeSeq(sp *stream.StreamProcessor, marker *packet.TransferPacket, pkts []PktSpec) error {
	if marker != nil {
		if _, err := sp.WritePacket(marker, false, 0); err != nil {
			return err
		}
	}
	for _, p := range pkts {
		if _, err := sp.WritePacket(p.packet(), p.Compress, 0); err != nil {
			return err
		}
	}
	return nil
}

// acceptMarked accepts connections until one starts with our marker packet (a late connection of
// an earlier, abandoned case is closed and skipped).
func acceptMarked(accept func() (io.ReadWriteCloser, error), want *packet.TransferPacket) (io.ReadWriteCloser, *stream.StreamProcessor, string) {
	deadline := time.Now().Add(tpWait)
	for time.Now().Before(deadline) {
		type acc struct {
			c   io.ReadWriteCloser
			err error
		}
		ch := make(chan acc, 1)
		go func() { c, err := accept(); ch <- acc{c, err} }()
		var a acc
		select {
		case a = <-ch:
		case <-time.After(time.Until(deadline)):
			go func() { // do not leave a conn of ours in the queue
				if x := <-ch; x.c != nil {
					x.c.Close()
				}
			}()
			return nil, nil, "accept timed out"
		}
		if a.err != nil {
			return nil, nil, "accept: " + a.err.Error()
		}
		sp := stream.NewStreamProcessor(a.c, a.c, context.Background())
		g, err, to := readOne(sp)
		if !to && err == nil && string(g.Payload) == string(want.Payload) {
			return a.c, sp, ""
		}
		sp.Close()
		a.c.Close()
	}
	return nil, nil, "no connection carrying this case's marker arrived"
}

func runTP(t vkit.TB, c TPCase) tpRes {
	ctx, cancel := context.WithTimeout(context.Background(), 3*tpWait)
	defer cancel()
	marker := markerPkt(tpNonce.Add(1)<<16 | uint64(time.Now().UnixNano()&0xffff))
	var cliConn, srvConn io.ReadWriteCloser
	var spC, spS *stream.StreamProcessor
	var closeUpWriter, closeDownWriter func()
	cleanup := []func(){}
	defer func() {
		for i := len(cleanup) - 1; i >= 0; i-- {
			cleanup[i]()
		}
	}()
	werr := make(chan error, 2)

	switch c.Peer {
	case "real", "raw-client":
		srv, addr := tpServer(t, c.Proto)
		if c.Peer == "real" {
			cc, err := transport.Dial(ctx, c.Proto, addr)
			if err != nil {
				return tpRes{infra: "dial: " + err.Error()}
			}
			cliConn = cc
			closeUpWriter = func() { cc.Close() }
		} else {
			qc, err := quic.DialAddr(ctx, addr, &tls.Config{InsecureSkipVerify: true, NextProtos: []string{"tunnox-quic"}}, &quic.Config{MaxIdleTimeout: 30 * time.Second})
			if err != nil {
				return tpRes{infra: "raw quic dial: " + err.Error()}
			}
			qs, err := qc.OpenStreamSync(ctx)
			if err != nil {
				qc.CloseWithError(0, "")
				return tpRes{infra: "raw quic stream: " + err.Error()}
			}
			cliConn = rwc{qs, qs, func() error { qs.CancelRead(0); qs.Close(); return qc.CloseWithError(0, "done") }}
			closeUpWriter = func() { qs.Close() } // FIN only: the connection stays up, nothing in flight is dropped
		}
		cleanup = append(cleanup, func() { cliConn.Close() })
		spC = stream.NewStreamProcessor(cliConn, cliConn, context.Background())
		cleanup = append(cleanup, func() { spC.Close() })
		go func() {
			err := writeSeq(spC, marker, c.Up)
			if err == nil && c.End == "up-writer-closes" {
				closeUpWriter()
			}
			werr <- err
		}()
		var why string
		srvConn, spS, why = acceptMarked(srv.Accept, marker)
		if srvConn == nil {
			return tpRes{infra: why}
		}
		sc := srvConn
		closeDownWriter = func() { sc.Close() }
		cleanup = append(cleanup, func() { spS.Close(); sc.Close() })
	case "raw-server":
		ln, addr := tpRawServer(t)
		cc, err := transport.Dial(ctx, "quic", addr)
		if err != nil {
			return tpRes{infra: "dial raw server: " + err.Error()}
		}
		cliConn = cc
		cleanup = append(cleanup, func() { cc.Close() })
		spC = stream.NewStreamProcessor(cc, cc, context.Background())
		cleanup = append(cleanup, func() { spC.Close() })
		go func() { werr <- writeSeq(spC, marker, c.Up) }()
		var why string
		srvConn, spS, why = acceptMarked(func() (io.ReadWriteCloser, error) {
			qc, err := ln.Accept(ctx)
			if err != nil {
				return nil, err
			}
			qs, err := qc.AcceptStream(ctx)
			if err != nil {
				qc.CloseWithError(0, "")
				return nil, err
			}
			return rwc{qs, qs, func() error { qs.CancelRead(0); qs.Close(); return qc.CloseWithError(0, "done") }}, nil
		}, marker)
		if srvConn == nil {
			return tpRes{infra: why}
		}
		sc := srvConn
		closeDownWriter = func() { sc.(rwc).Writer.(*quic.Stream).Close() } // FIN only
		cleanup = append(cleanup, func() { spS.Close(); sc.Close() })
	}

	// client -> server
	if r := readSeq(spS, c.Up, "client-to-server", c, c.End == "up-writer-closes"); r.f != nil {
		return r
	}
	select {
	case err := <-werr:
		if err != nil {
			return tpRes{f: &failure{"C01/transport/" + c.Proto + "/" + c.Peer + "/client-to-server/writer-error", err.Error()}}
		}
	case <-time.After(tpWait):
		return tpRes{timeout: true, f: &failure{"C01/transport/" + c.Proto + "/" + c.Peer + "/client-to-server/writer-stuck", "all packets were read but WritePacket has not returned"}}
	}
	if c.End == "up-writer-closes" {
		return tpRes{}
	}
	// server -> client
	go func() {
		err := writeSeq(spS, nil, c.Down)
		if err == nil && c.End == "down-writer-closes" {
			closeDownWriter()
		}
		werr <- err
	}()
	if r := readSeq(spC, c.Down, "server-to-client", c, c.End == "down-writer-closes"); r.f != nil {
		return r
	}
	select {
	case err := <-werr:
		if err != nil {
			return tpRes{f: &failure{"C01/transport/" + c.Proto + "/" + c.Peer + "/server-to-client/writer-error", err.Error()}}
		}
	case <-time.After(tpWait):
		return tpRes{timeout: true, f: &failure{"C01/transport/" + c.Proto + "/" + c.Peer + "/server-to-client/writer-stuck", "all packets were read but WritePacket has not returned"}}
	}
	return tpRes{}
}

// checkTP applies the re-run rule: a verdict that rests on a wait running out is confirmed by a second run.
func checkTP(t vkit.TB, c TPCase) {
	r := runTP(t, c)
	if r.infra != "" || r.timeout {
		r = runTP(t, c)
	}
	if r.f != nil && c.End != "open" && strings.Contains(r.f.detail, "connection reset by peer") {
		// a TCP reset after the writer closed its end: the kernel resets a connection that is closed while inbound bytes
		// (e.g. the peer's WebSocket pong) are still unread, and a reset discards what the other side has not read yet.
		// That is the transport's behaviour at an abrupt close, not framing; it is confirmed by a second run before it counts.
		if r2 := runTP(t, c); r2.f == nil && r2.infra == "" {
			vkit.Skipped(1)
			vkit.Class("tcp-reset-after-writer-close (re-run delivered everything)/" + c.Proto)
			return
		} else {
			r = r2
		}
	}
	switch {
	case r.infra != "":
		vkit.Skipped(1)
		vkit.Class("transport-rig-not-established/" + c.Proto)
		return
	case r.f != nil:
		vkit.Violation(t, r.f.key, r.f.detail, c)
		return
	}
	empty, big := false, false
	for _, p := range append(append([]PktSpec{}, c.Up...), c.Down...) {
		if !isJSONType(p.Type) && p.Type != byte(packet.Heartbeat) && len(p.body()) == 0 {
			empty = true
		}
		if p.BodyLen > 65536 {
			big = true
		}
	}
	vkit.Case("transport/"+c.Proto+"/"+c.Peer+"/"+c.End, empty || big || c.End != "open", fmt.Sprint(c.Proto, c.Peer, c.End, len(c.Up), len(c.Down), empty, big))
	if empty {
		vkit.Class("feat:transport-empty-body-packet")
	}
}

func genTPPkts(t *rapid.T, label string, min int) []PktSpec {
	sizes := []int{0, 0, 1, 100, 1199, 1200, 1201, 1350, 1400, 65535, 65536, 65537, 131072}
	var out []PktSpec
	for j := rapid.IntRange(min, 5).Draw(t, label+"n"); j > 0; j-- {
		p := genPkt(t, 3000)
		if !isJSONType(p.Type) && p.Type != byte(packet.Heartbeat) && rapid.Bool().Draw(t, label+"pick") {
			p.BodyLen = rapid.SampledFrom(sizes).Draw(t, label+"size")
			p.BodyMode, p.BodySeed, p.Explicit = 0, uint64(j+3), nil
		}
		if rapid.IntRange(0, 5).Draw(t, label+"hb") == 0 {
			p = PktSpec{Type: byte(packet.Heartbeat)}
		}
		out = append(out, p)
	}
	return out
}

func TestTransportPairs(t *testing.T) {
	vkit.Check(t, 480, 4000, func(t *rapid.T) {
		c := TPCase{Proto: rapid.SampledFrom([]string{"tcp", "websocket", "websocket", "quic", "quic", "kcp"}).Draw(t, "proto"), Peer: "real", End: "open"}
		if c.Proto == "quic" {
			c.Peer = rapid.SampledFrom([]string{"real", "raw-client", "raw-server"}).Draw(t, "peer")
		}
		c.Up = genTPPkts(t, "up", 0)
		c.Down = genTPPkts(t, "down", 1)
		// endings whose delivery the transport guarantees: an orderly close over TCP (tcp, websocket)
		// and a QUIC stream FIN with the connection kept up (bare quic-go peer)
		switch {
		case c.Proto == "tcp" || c.Proto == "websocket":
			c.End = rapid.SampledFrom([]string{"open", "down-writer-closes", "up-writer-closes"}).Draw(t, "end")
		case c.Peer == "raw-client":
			c.End = rapid.SampledFrom([]string{"open", "up-writer-closes"}).Draw(t, "end")
		case c.Peer == "raw-server":
			c.End = rapid.SampledFrom([]string{"open", "down-writer-closes"}).Draw(t, "end")
		}
		if c.End == "up-writer-closes" {
			c.Down = nil
			if len(c.Up) == 0 {
				c.Up = genTPPkts(t, "up2", 1)
			}
		}
		checkTP(t, c)
	})
}
