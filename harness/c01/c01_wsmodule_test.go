package c01

import (
	"bytes"
	"context"
	"fmt"
	"io"
	"net/http/httptest"
	"runtime"
	"strings"
	"sync"
	"testing"
	"time"
	"unicode/utf8"

	"github.com/gorilla/mux"
	gws "github.com/gorilla/websocket"
	"pgregory.net/rapid"

	"tunnox-core/internal/httpservice"
	wsmodule "tunnox-core/internal/httpservice/modules/websocket"
	"tunnox-core/internal/packet"
	"tunnox-core/internal/stream"
	"tunnox-core/verif/vkit"
)

// ---------------------------------------------------------------------------
// TestWSModuleFraming — the HTTP service's WebSocket transport (/_tunnox, WebSocketServerConn), the
// third message->stream adaptation in the tree. The peer (a proxy, another client implementation)
// chooses the message boundaries: a whole packet sequence in one message, one message per packet,
// arbitrary cuts, single bytes, empty messages in between. The packets decoded on the server side
// must be the ones written, for every cutting.

type WSMCase struct {
	WSModule bool      `json:"ws_module"`
	WPkts    []PktSpec `json:"wsm_packets"`
	Cut      string    `json:"cut"` // one | per-packet | random | bytes
	Sizes    []int     `json:"sizes,omitempty"`
}

func runWSM(t vkit.TB, c WSMCase) *failure {
	module := wsmodule.NewWebSocketModule(context.Background(), &httpservice.WebSocketModuleConfig{Enabled: true})
	router := mux.NewRouter()
	module.RegisterRoutes(router)
	hs := httptest.NewServer(router)
	defer hs.Close()
	d := gws.Dialer{HandshakeTimeout: 20 * time.Second}
	cc, _, err := d.Dial("ws"+strings.TrimPrefix(hs.URL, "http")+"/_tunnox", nil)
	if err != nil {
		t.Fatalf("HARNESS-ERROR websocket dial: %v", err)
	}
	defer cc.Close()
	var sc *wsmodule.WebSocketServerConn
	select {
	case sc = <-module.GetConnChan():
	case <-time.After(10 * time.Second):
		t.Fatalf("HARNESS-ERROR the module did not hand out the connection")
	}
	defer sc.Close()
	// the wire bytes of the sequence and the packet boundaries
	var wire bytes.Buffer
	var bounds []int
	wp := stream.NewStreamProcessor(bytes.NewReader(nil), &wire, context.Background())
	for _, p := range c.WPkts {
		if _, err := wp.WritePacket(p.packet(), p.Compress, 0); err != nil {
			wp.Close()
			return &failure{"C01/harness/ws-module-writer", err.Error()}
		}
		bounds = append(bounds, wire.Len())
	}
	wp.Close()
	data := wire.Bytes()
	var msgs [][]byte
	switch c.Cut {
	case "one":
		msgs = [][]byte{data}
	case "per-packet":
		prev := 0
		for _, b := range bounds {
			msgs = append(msgs, data[prev:b])
			prev = b
		}
	case "bytes":
		for i := range data {
			msgs = append(msgs, data[i:i+1])
		}
	default:
		pos := 0
		for _, n := range c.Sizes {
			if pos >= len(data) {
				break
			}
			if n > len(data)-pos {
				n = len(data) - pos
			}
			msgs = append(msgs, data[pos:pos+n]) // n == 0: an empty message
			pos += n
		}
		if pos < len(data) {
			msgs = append(msgs, data[pos:])
		}
	}
	var wg sync.WaitGroup
	wg.Add(1)
	go func() {
		defer wg.Done()
		for _, m := range msgs {
			if err := cc.WriteMessage(gws.BinaryMessage, m); err != nil {
				return
			}
		}
	}()
	defer wg.Wait()
	sp := stream.NewStreamProcessor(sc, io.Discard, context.Background())
	defer sp.Close()
	for i, p := range c.WPkts {
		type res struct {
			g   *packet.TransferPacket
			err error
		}
		rc := make(chan res, 1)
		go func() { g, _, err := sp.ReadPacket(); rc <- res{g, err} }()
		select {
		case x := <-rc:
			if x.err != nil {
				return &failure{"C01/ws-module/read-error/cut=" + c.Cut, fmt.Sprintf("packet %d of %d (type %#x, body %d): %v", i, len(c.WPkts), p.Type, len(p.body()), x.err)}
			}
			if gotKey(x.g) != pktKey(p) {
				return &failure{"C01/ws-module/packet-mismatch/cut=" + c.Cut, fmt.Sprintf("packet %d of %d (type %#x, body %d bytes) decoded as type %#x with %d payload bytes; %d messages", i, len(c.WPkts), p.Type, len(p.body()), byte(x.g.PacketType), len(x.g.Payload), len(msgs))}
			}
		case <-time.After(15 * time.Second):
			return &failure{"C01/ws-module/reader-stuck/cut=" + c.Cut, fmt.Sprintf("packet %d of %d was sent in %d messages and never completes on the reader", i, len(c.WPkts), len(msgs))}
		}
	}
	return nil
}

func TestWSModuleFraming(t *testing.T) {
	vkit.Check(t, 320, 8000, func(t *rapid.T) {
		c := WSMCase{WSModule: true, Cut: rapid.SampledFrom([]string{"one", "one", "per-packet", "random", "random", "bytes"}).Draw(t, "cut")}
		for j := rapid.IntRange(1, 4).Draw(t, "n"); j > 0; j-- {
			p := genPkt(t, 3000)
			p.Rate = 0
			if c.Cut == "bytes" && p.BodyLen > 200 {
				p.BodyLen = 200
			}
			c.WPkts = append(c.WPkts, p)
		}
		if c.Cut == "random" {
			c.Sizes = rapid.SliceOfN(rapid.SampledFrom([]int{0, 1, 2, 4, 5, 6, 7, 100, 1000, 70000}), 1, 40).Draw(t, "sizes")
		}
		if f := runWSM(t, c); f != nil {
			vkit.Violation(t, f.key, f.detail, c)
			return
		}
		vkit.Case("ws-module/"+c.Cut, c.Cut != "per-packet", fmt.Sprint(c.Cut, len(c.WPkts), c.Sizes))
	})
}

// ---------------------------------------------------------------------------
// TestDuplexProcessor — one StreamProcessor used in both directions at once (as every connection
// is): a reader whose bytes arrive in small pieces while other goroutines write packets through the
// same processor. Reading and writing share nothing observable: both streams must be intact. The
// writers reuse ONE packet object with alternating compression (WritePacket must not change the
// packet it is given).

type DuplexCase struct {
	Duplex bool      `json:"duplex"`
	In     []PktSpec `json:"in"`
	Out    []PktSpec `json:"out"`
}

type pieceReader struct {
	data []byte
	pos  int
}

func (r *pieceReader) Read(p []byte) (int, error) {
	if r.pos >= len(r.data) {
		return 0, io.EOF
	}
	// a piece arrives: writers get to run between the pieces of one header
	if r.pos%6 == 0 {
		time.Sleep(time.Microsecond)
	} else {
		runtime.Gosched()
	}
	p[0] = r.data[r.pos]
	r.pos++
	return 1, nil
}

func runDuplex(c DuplexCase) *failure {
	var wire bytes.Buffer
	wp := stream.NewStreamProcessor(bytes.NewReader(nil), &wire, context.Background())
	for _, p := range c.In {
		if _, err := wp.WritePacket(p.packet(), p.Compress, 0); err != nil {
			wp.Close()
			return &failure{"C01/harness/duplex-writer", err.Error()}
		}
	}
	wp.Close()
	out := &yieldWriter{}
	sp := stream.NewStreamProcessor(&pieceReader{data: wire.Bytes()}, out, context.Background())
	var wg sync.WaitGroup
	var werr error
	var mutated string
	wg.Add(1)
	go func() {
		defer wg.Done()
		for round := 0; round < 3; round++ {
			for _, p := range c.Out {
				pk := p.packet()
				before := pk.PacketType
				for _, compress := range []bool{true, false} { // the same object, written twice
					if _, err := sp.WritePacket(pk, compress, 0); err != nil {
						werr = err
						return
					}
					if pk.PacketType != before {
						mutated = fmt.Sprintf("WritePacket(compress=%v) changed the caller's packet type from %#x to %#x", compress, byte(before), byte(pk.PacketType))
					}
				}
			}
		}
	}()
	var f *failure
	for i, p := range c.In {
		g, _, err := sp.ReadPacket()
		if err != nil {
			f = &failure{"C01/duplex/read-disturbed-by-concurrent-write", fmt.Sprintf("incoming packet %d of %d (type %#x, body %d): %v", i, len(c.In), p.Type, len(p.body()), err)}
			break
		}
		if gotKey(g) != pktKey(p) {
			f = &failure{"C01/duplex/read-disturbed-by-concurrent-write", fmt.Sprintf("incoming packet %d of %d (type %#x, body %d bytes) decoded as type %#x with %d payload bytes; got %.300q want %.300q", i, len(c.In), p.Type, len(p.body()), byte(g.PacketType), len(g.Payload), gotKey(g), pktKey(p))}
			break
		}
	}
	wg.Wait()
	sp.Close()
	if f != nil {
		return f
	}
	if werr != nil {
		return &failure{"C01/duplex/writer-error", werr.Error()}
	}
	// what was written decodes to the written packets (each twice: compressed, plain), three rounds
	rp := stream.NewStreamProcessor(bytes.NewReader(out.buf.Bytes()), io.Discard, context.Background())
	defer rp.Close()
	for round := 0; round < 3; round++ {
		for i, p := range c.Out {
			for _, compress := range []bool{true, false} {
				g, _, err := rp.ReadPacket()
				q := p
				q.Compress = compress
				if err != nil {
					return &failure{"C01/duplex/written-stream-not-decodable", fmt.Sprintf("outgoing packet %d (type %#x, body %d, compress=%v; same packet object written before with the other setting): %v; %s", i, p.Type, len(p.body()), compress, err, mutated)}
				}
				if gotKey(g) != pktKey(q) {
					return &failure{"C01/duplex/written-packet-mismatch", fmt.Sprintf("outgoing packet %d (type %#x, compress=%v) decoded as type %#x with %d payload bytes; %s", i, p.Type, compress, byte(g.PacketType), len(g.Payload), mutated)}
				}
			}
		}
	}
	if mutated != "" {
		return &failure{"C01/writer-mutates-callers-packet", mutated}
	}
	return nil
}

func TestDuplexProcessor(t *testing.T) {
	vkit.Check(t, 400, 12000, func(t *rapid.T) {
		c := DuplexCase{Duplex: true}
		for j := rapid.IntRange(2, 6).Draw(t, "nin"); j > 0; j-- {
			p := genPkt(t, 300)
			p.Rate = 0
			if p.BodyLen > 48 {
				p.BodyLen = 48
				if p.BodyMode == 2 {
					p.BodyMode, p.Explicit = 0, nil
				}
			}
			if p.Cmd != nil && len(p.Cmd.CommandBody) > 64 {
				// cut on a rune boundary: command strings travel as JSON, which carries valid UTF-8 only
				cut := 60
				for cut > 0 && !utf8.RuneStart(p.Cmd.CommandBody[cut]) {
					cut--
				}
				p.Cmd.CommandBody = p.Cmd.CommandBody[:cut]
			}
			c.In = append(c.In, p)
		}
		for j := rapid.IntRange(1, 3).Draw(t, "nout"); j > 0; j-- {
			p := genPkt(t, 2000)
			p.Rate = 0
			c.Out = append(c.Out, p)
		}
		if f := runDuplex(c); f != nil {
			vkit.Violation(t, f.key, f.detail, c)
			return
		}
		vkit.Case("duplex", true, fmt.Sprint(len(c.In), len(c.Out)))
	})
}
