package c01

import (
	"bytes"
	"context"
	"fmt"
	"io"
	"net"
	"sync"
	"testing"
	"time"

	"github.com/gorilla/websocket"

	coretypes "tunnox-core/internal/core/types"
	"tunnox-core/internal/packet"
	"tunnox-core/internal/protocol/adapter"
	"tunnox-core/internal/protocol/session"
	"tunnox-core/internal/stream"
	"tunnox-core/verif/vkit"
	"tunnox-core/verif/vkit/miniserver"
)

// ---------------------------------------------------------------------------
// TestSlowTransports — "the outcome does not depend on how the transport splits the byte stream", with
// TIME between the pieces. Two shapes, both over real loopback sockets of the server's own adapters:
//
//   - read loop: the adapter's per-connection read loop (ListenFrom -> connectionReadLoop -> session) is
//     fed packets whose bytes arrive in two pieces with a pause of seconds between them, the first piece
//     ending after the type byte, inside the length field or inside the body. The session must be handed
//     exactly the packets that were sent.
//   - stalled write: one packet of several MiB is written through the adapter's connection to a peer with a
//     small receive buffer that does not read for several seconds and then reads everything. The packet
//     (and the one after it) must arrive intact.
//
// All cases of a process run concurrently, so the test costs the longest case (about 8 s).

type SlowCase struct {
	Slow    string    `json:"slow"`     // read-loop | stalled-write
	Proto   string    `json:"sl_proto"` // tcp | websocket
	SPkts   []PktSpec `json:"sl_pkts"`
	CutPkt  int       `json:"cut_packet"` // the pause falls inside this packet ...
	CutAt   int       `json:"cut_at"`     // ... after this many of its bytes
	PauseMs int       `json:"pause_ms"`
}

// recSession is the real session manager with the dispatch replaced by a recorder.
type recSession struct {
	*session.SessionManager
	mu   sync.Mutex
	got  map[string][]string
	wake chan struct{}
}

func (r *recSession) HandlePacket(p *coretypes.StreamPacket) error {
	r.mu.Lock()
	r.got[p.ConnectionID] = append(r.got[p.ConnectionID], gotKey(p.Packet))
	r.mu.Unlock()
	select {
	case r.wake <- struct{}{}:
	default:
	}
	return nil
}

func (r *recSession) ProcessPacket(connID string, p *packet.TransferPacket) error {
	return r.HandlePacket(&coretypes.StreamPacket{ConnectionID: connID, Packet: p})
}

func (r *recSession) all() [][]string {
	r.mu.Lock()
	defer r.mu.Unlock()
	var out [][]string
	for _, v := range r.got {
		out = append(out, append([]string(nil), v...))
	}
	return out
}

func runSlowReadLoop(c SlowCase) (f *failure, skipped string) {
	srv, err := miniserver.New(miniserver.Options{})
	if err != nil {
		return nil, "mini server: " + err.Error()
	}
	defer srv.Close()
	rec := &recSession{SessionManager: srv.SM, got: map[string][]string{}, wake: make(chan struct{}, 1)}
	var a interface {
		ListenFrom(addr string) error
		Close() error
	}
	switch c.Proto {
	case "tcp":
		a = adapter.NewTcpAdapter(context.Background(), rec)
	case "websocket":
		a = adapter.NewWebSocketAdapter(context.Background(), rec)
	}
	addr := ""
	for try := 0; try < 20 && addr == ""; try++ {
		cand := fmt.Sprintf("127.0.0.1:%d", freePort(false))
		if a.ListenFrom(cand) == nil {
			addr = cand
		}
	}
	if addr == "" {
		return nil, "no loopback port"
	}
	defer a.Close()
	// the wire image of the packets, and where the pause falls
	var wire bytes.Buffer
	wp := stream.NewStreamProcessor(bytes.NewReader(nil), &wire, context.Background())
	off := 0
	var want []string
	for i, p := range c.SPkts {
		if i == c.CutPkt {
			off = wire.Len() + c.CutAt
		}
		if _, err := wp.WritePacket(p.packet(), p.Compress, 0); err != nil {
			wp.Close()
			return nil, "writer: " + err.Error()
		}
		want = append(want, pktKey(p))
	}
	wp.Close()
	data := wire.Bytes()
	if off <= 0 || off >= len(data) {
		off = len(data) / 2
	}
	var send func(b []byte) error
	var closePeer func()
	switch c.Proto {
	case "tcp":
		conn, err := net.DialTimeout("tcp", addr, 5*time.Second)
		if err != nil {
			return nil, "dial: " + err.Error()
		}
		send = func(b []byte) error { _, err := conn.Write(b); return err }
		closePeer = func() { conn.Close() }
	case "websocket":
		conn, _, err := websocket.DefaultDialer.Dial("ws://"+addr+"/_tunnox", nil)
		if err != nil {
			return nil, "dial: " + err.Error()
		}
		send = func(b []byte) error { return conn.WriteMessage(websocket.BinaryMessage, b) }
		closePeer = func() { conn.Close() }
	}
	defer closePeer()
	if err := send(data[:off]); err != nil {
		return nil, "send: " + err.Error()
	}
	time.Sleep(time.Duration(c.PauseMs) * time.Millisecond)
	if err := send(data[off:]); err != nil {
		return &failure{"C01/read-loop/" + c.Proto + "/connection-dropped-during-pause-inside-packet",
			fmt.Sprintf("after a pause of %d ms inside packet %d (after %d of its bytes) the server no longer accepts the rest: %v", c.PauseMs, c.CutPkt, c.CutAt, err)}, ""
	}
	// everything was sent: the session must be handed exactly these packets
	deadline := time.After(15 * time.Second)
	for {
		var got []string
		for _, g := range rec.all() {
			got = append(got, g...)
		}
		if len(got) >= len(want) {
			for i := range want {
				if got[i] != want[i] {
					return &failure{"C01/read-loop/" + c.Proto + "/packet-mismatch-after-pause-inside-packet",
						fmt.Sprintf("the bytes of packet %d arrived in two pieces %d ms apart (first piece: %d bytes of it); the session was handed %d packets, packet %d is %.120q, sent %.120q", c.CutPkt, c.PauseMs, c.CutAt, len(got), i, got[i], want[i])}, ""
				}
			}
			if len(got) > len(want) {
				return &failure{"C01/read-loop/" + c.Proto + "/extra-packet-after-pause-inside-packet", fmt.Sprintf("%d packets sent, the session was handed %d", len(want), len(got))}, ""
			}
			return nil, ""
		}
		select {
		case <-rec.wake:
		case <-time.After(200 * time.Millisecond):
		case <-deadline:
			return &failure{"C01/read-loop/" + c.Proto + "/packets-lost-after-pause-inside-packet",
				fmt.Sprintf("the bytes of packet %d arrived in two pieces %d ms apart (first piece: %d bytes of it); 15 s after the last byte the session has been handed %d of %d packets: %.300q", c.CutPkt, c.PauseMs, c.CutAt, len(got), len(want), got)}, ""
		}
	}
}

func runStalledWrite(t vkit.TB, c SlowCase) (f *failure, skipped string) {
	srv, addr := tpServer(t, "tcp")
	marker := markerPkt(tpNonce.Add(1)<<16 | uint64(time.Now().UnixNano()&0xffff))
	d := net.Dialer{Timeout: 5 * time.Second}
	raw, err := d.Dial("tcp", addr)
	if err != nil {
		return nil, "dial: " + err.Error()
	}
	defer raw.Close()
	raw.(*net.TCPConn).SetReadBuffer(32 * 1024) // a peer with a small window: the writer's queue fills early
	spC := stream.NewStreamProcessor(raw, raw, context.Background())
	defer spC.Close()
	if _, err := spC.WritePacket(marker, false, 0); err != nil {
		return nil, "marker: " + err.Error()
	}
	sc, spS, why := acceptMarked(srv.Accept, marker)
	if why != "" {
		return nil, why
	}
	defer sc.Close()
	defer spS.Close()
	werr := make(chan error, 1)
	go func() { werr <- writeSeq(spS, nil, c.SPkts) }()
	time.Sleep(time.Duration(c.PauseMs) * time.Millisecond) // the peer is busy elsewhere
	for i, p := range c.SPkts {
		type res struct {
			g   *packet.TransferPacket
			err error
		}
		ch := make(chan res, 1)
		go func() { g, _, err := spC.ReadPacket(); ch <- res{g, err} }()
		select {
		case x := <-ch:
			if x.err != nil {
				return &failure{"C01/stalled-write/tcp/read-error", fmt.Sprintf("packet %d of %d (type %#x, body %d bytes) written to a peer that did not read for %d ms: %v", i, len(c.SPkts), p.Type, len(p.body()), c.PauseMs, x.err)}, ""
			}
			if gotKey(x.g) != pktKey(p) {
				detail := fmt.Sprintf("packet %d of %d (type %#x, body %d bytes) written to a peer that did not read for %d ms: decoded type %#x with %d payload bytes", i, len(c.SPkts), p.Type, len(p.body()), c.PauseMs, byte(x.g.PacketType), len(x.g.Payload))
				if b := p.body(); len(b) == len(x.g.Payload) {
					for k := range b {
						if b[k] != x.g.Payload[k] {
							detail += fmt.Sprintf("; first differing offset %d", k)
							break
						}
					}
				}
				return &failure{"C01/stalled-write/tcp/packet-mismatch", detail}, ""
			}
		case <-time.After(40 * time.Second):
			return &failure{"C01/stalled-write/tcp/reader-stuck", fmt.Sprintf("packet %d of %d never completes on the reader", i, len(c.SPkts))}, "timeout"
		}
	}
	select {
	case err := <-werr:
		if err != nil {
			return &failure{"C01/stalled-write/tcp/writer-error", fmt.Sprintf("WritePacket to a peer that did not read for %d ms and then read everything: %v", c.PauseMs, err)}, ""
		}
	case <-time.After(20 * time.Second):
		return nil, "writer did not return"
	}
	return nil, ""
}

func runSlow(t vkit.TB, c SlowCase) (*failure, string) {
	if c.Slow == "stalled-write" {
		f, sk := runStalledWrite(t, c)
		if sk == "timeout" { // re-run once before it counts
			f, sk = runStalledWrite(t, c)
			if sk == "timeout" {
				sk = ""
			}
		}
		return f, sk
	}
	return runSlowReadLoop(c)
}

func TestSlowTransports(t *testing.T) {
	var cases []SlowCase
	small := []PktSpec{{Type: 0x22, BodyLen: 40, BodySeed: 5}, {Type: 0x20, BodyLen: 300, BodySeed: 6, Compress: true}, {Type: 0x24, BodyLen: 0}, {Type: 0x22, BodyLen: 9, BodySeed: 7}}
	pauses := []int{2300}
	if vkit.Thorough() {
		pauses = []int{300, 2300, 5300, 11500}
	}
	for _, proto := range []string{"tcp", "websocket"} {
		for _, pause := range pauses {
			// after the type byte, inside the length field, inside the body, between two packets
			for _, cut := range [][2]int{{0, 1}, {1, 3}, {1, 5 + 17}, {3, 0}} {
				cases = append(cases, SlowCase{Slow: "read-loop", Proto: proto, SPkts: small, CutPkt: cut[0], CutAt: cut[1], PauseMs: pause})
			}
		}
	}
	big := []PktSpec{{Type: 0x22, BodyLen: 12 << 20, BodySeed: 11}, {Type: 0x20, BodyLen: 33, BodySeed: 12}}
	cases = append(cases, SlowCase{Slow: "stalled-write", Proto: "tcp", SPkts: big, PauseMs: 6500})
	if vkit.Thorough() {
		cases = append(cases, SlowCase{Slow: "stalled-write", Proto: "tcp", SPkts: big, PauseMs: 11500},
			SlowCase{Slow: "stalled-write", Proto: "tcp", SPkts: []PktSpec{{Type: 0x22, BodyLen: 6 << 20, BodySeed: 13, Compress: true}, {Type: 0x24}}, PauseMs: 6500})
	}
	type out struct {
		c  SlowCase
		f  *failure
		sk string
	}
	var wg sync.WaitGroup
	res := make(chan out, len(cases))
	for i, c := range cases {
		if !vkit.Mine(i) {
			continue
		}
		wg.Add(1)
		go func(c SlowCase) {
			defer wg.Done()
			f, sk := runSlow(t, c)
			res <- out{c, f, sk}
		}(c)
	}
	wg.Wait()
	close(res)
	for o := range res {
		if o.f != nil {
			vkit.Violation(t, o.f.key, o.f.detail, o.c)
			continue
		}
		if o.sk != "" {
			vkit.Skipped(1)
			vkit.Class("slow-transport-rig-not-up: " + o.sk)
			continue
		}
		vkit.Case("slow/"+o.c.Slow+"/"+o.c.Proto, true, fmt.Sprint(o.c.Slow, o.c.Proto, o.c.CutPkt, o.c.CutAt, o.c.PauseMs))
	}
	_ = io.EOF
}
