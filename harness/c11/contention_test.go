package c11

import (
	"context"
	"encoding/json"
	"fmt"
	"strings"
	"sync"
	"sync/atomic"
	"testing"
	"time"

	"tunnox-core/internal/cloud/models"
	"tunnox-core/internal/core/storage"
	"tunnox-core/internal/packet"
	"tunnox-core/verif/vkit"
	"tunnox-core/verif/vkit/miniserver"
)

// slowStore is the server's usual storage with a small latency on reads, so that two commands that are
// in flight at the same time really overlap inside the handlers (a remote store behaves like this).
type slowStore struct {
	*storage.HybridStorage
	delay atomic.Int64 // nanoseconds
}

func (s *slowStore) Get(key string) (any, error) {
	if d := s.delay.Load(); d > 0 {
		time.Sleep(time.Duration(d))
	}
	return s.HybridStorage.Get(key)
}

func newSlowStore() (*slowStore, error) {
	f := storage.NewStorageFactory(context.Background())
	hc := &storage.HybridStorageConfig{CacheType: "memory", EnablePersistent: false, HybridConfig: storage.DefaultHybridConfig()}
	hc.HybridConfig.EnablePersistent = false
	st, err := f.CreateStorage(hc)
	if err != nil {
		return nil, err
	}
	h, ok := st.(*storage.HybridStorage)
	if !ok {
		return nil, fmt.Errorf("storage factory returned %T", st)
	}
	return &slowStore{HybridStorage: h}, nil
}

type racer struct {
	name string
	conn *miniserver.Client
	body string
}

// volley sends one command per racer at the same instant, each on its own connection, and returns the
// replies per racer.
func (w *world) volley(ct packet.CommandType, rs []racer) (map[string][]*packet.TransferPacket, error) {
	var ready, wg sync.WaitGroup
	start := make(chan struct{})
	var go32 atomic.Int32
	for i := range rs {
		ready.Add(1)
		wg.Add(1)
		go func(r racer) {
			defer wg.Done()
			pkt := &packet.TransferPacket{PacketType: packet.JsonCommand, CommandPacket: &packet.CommandPacket{CommandType: ct, CommandId: nextID("c11"), CommandBody: r.body}}
			ready.Done()
			<-start
			for go32.Load() == 0 { // spin: all racers leave together
			}
			r.conn.Push(pkt)
		}(rs[i])
	}
	ready.Wait()
	close(start)
	go32.Store(1)
	done := make(chan struct{})
	go func() { wg.Wait(); close(done) }()
	select {
	case <-done:
	case <-time.After(recvPatience):
		return nil, fmt.Errorf("concurrent pushes did not return")
	}
	out := map[string][]*packet.TransferPacket{}
	for _, r := range rs {
		for r.conn.Near.Pending() > 0 {
			p, err := r.conn.Recv(recvPatience)
			if err != nil {
				return nil, fmt.Errorf("%s: %v", r.name, err)
			}
			if w.benignConfigPush(r.name, p) {
				continue
			}
			out[r.name] = append(out[r.name], p)
		}
	}
	return out, nil
}

func succeeded(ps []*packet.TransferPacket) bool {
	for _, p := range ps {
		if p.CommandPacket == nil {
			continue
		}
		var env struct {
			Success bool `json:"success"`
		}
		if json.Unmarshal([]byte(p.CommandPacket.CommandBody), &env) == nil && env.Success {
			return true
		}
	}
	return false
}

func bodies(ps []*packet.TransferPacket) string {
	var b strings.Builder
	for _, p := range ps {
		if p.CommandPacket != nil {
			b.WriteString(p.CommandPacket.CommandBody)
			b.WriteString("\n")
		}
	}
	return b.String()
}

// TestContention: a party, a stranger and an unauthenticated connection have the same command in flight
// at the same time, each on its own connection (handlers are shared by all connections). Per connection
// the usual oracle: the stranger / the unauthenticated connection never reads, changes or removes the
// object, whatever the party's command is doing at that moment.
func TestContention(t *testing.T) {
	type round struct {
		name string
		ct   packet.CommandType
	}
	cmds := []round{{"MappingGet", packet.MappingGet}, {"MappingList", packet.MappingList}, {"MappingDelete", packet.MappingDelete},
		{"ConfigGet", packet.ConfigGet}, {"ConnectionCodeList", packet.ConnectionCodeList}, {"HTTPDomainList", packet.HTTPDomainList},
		{"HTTPDomainDelete", packet.HTTPDomainDelete}, {"ConnectionCodeGenerate", packet.ConnectionCodeGenerate}, {"TunnelTrafficReport", packet.TunnelTrafficReport}}
	rounds := vkit.Pick(40, 400)
	for k, cmd := range cmds {
		if !vkit.Mine(k) {
			continue
		}
		st, err := newSlowStore()
		if err != nil {
			t.Fatalf("HARNESS-ERROR %v", err)
		}
		w, err := newWorldWith(st)
		if err != nil {
			t.Fatalf("HARNESS-ERROR %v", err)
		}
		u, err := w.requester("challenged")
		if err != nil {
			t.Fatalf("HARNESS-ERROR %v", err)
		}
		fail := func(who, effect, detail string, n int) {
			w.close()
			vkit.Violation(t, fmt.Sprintf("C11/%s/identity=%s/%s/while-the-same-command-of-a-party-is-in-flight", cmd.name, who, effect),
				fmt.Sprintf("round %d: %s", n, detail), Case{Steps: []Cell{{Cmd: cmd.name, Identity: "S", Claim: "empty", Target: "victim", Str: "contention"}}})
		}
		for n := 0; n < rounds; n++ {
			// party T (owner of the code and the domain, target of the mappings) or L for the mapping it may delete
			party, pbody, sbody := "T", "{}", "{}"
			victimMapping := w.m.ID
			var own *models.PortMapping
			switch cmd.ct {
			case packet.MappingGet:
				pbody = fmt.Sprintf(`{"mapping_id":%q}`, w.m.ID)
				sbody = pbody
			case packet.MappingDelete:
				// the party deletes a mapping of its own made for this round; the others name the victim mapping
				own, err = w.srv.Cloud.CreatePortMapping(&models.PortMapping{ListenClientID: w.who["L"].id, TargetClientID: w.who["T"].id, Protocol: models.ProtocolTCP,
					SourcePort: 30000 + n, TargetHost: "round-host.example", TargetPort: 80, SecretKey: fmt.Sprintf("round-secret-%d", n), Status: models.MappingStatusActive})
				if err != nil {
					t.Fatalf("HARNESS-ERROR %v", err)
				}
				party = "L"
				pbody = fmt.Sprintf(`{"mapping_id":%q}`, own.ID)
				sbody = fmt.Sprintf(`{"mapping_id":%q}`, w.m.ID)
			case packet.HTTPDomainDelete:
				pbody = `{"mapping_id":"hdm_does_not_exist"}`
				sbody = fmt.Sprintf(`{"mapping_id":%q}`, w.domID)
			case packet.ConnectionCodeGenerate:
				pbody = `{"target_address":"tcp://party-host.example:80","activation_ttl":600,"mapping_ttl":3600}`
				sbody = `{"target_address":"tcp://stranger-host.example:80","activation_ttl":600,"mapping_ttl":3600}`
			case packet.TunnelTrafficReport:
				pbody = fmt.Sprintf(`{"mapping_id":%q,"bytes_sent":1,"bytes_received":1}`, w.m.ID)
				sbody = fmt.Sprintf(`{"mapping_id":%q,"bytes_sent":1000000,"bytes_received":1000000}`, w.m.ID)
			}
			pc, err := w.requester(party)
			if err != nil {
				t.Fatalf("HARNESS-ERROR %v", err)
			}
			sc, err := w.requester("S")
			if err != nil {
				t.Fatalf("HARNESS-ERROR %v", err)
			}
			before, err := w.snap(nil, nil)
			if err != nil {
				t.Fatalf("HARNESS-ERROR %v", err)
			}
			st.delay.Store(int64(200 * time.Microsecond))
			got, err := w.volley(cmd.ct, []racer{{party, pc, pbody}, {"S", sc, sbody}, {"U", u, sbody}})
			st.delay.Store(0)
			if err != nil {
				t.Fatalf("HARNESS-ERROR %v", err)
			}
			after, err := w.snap(nil, nil)
			if err != nil {
				t.Fatalf("HARNESS-ERROR %v", err)
			}
			// reads: nothing of an object the receiver is not a party of, and no success for a named object of others
			for _, who := range []string{"S", "U"} {
				id := w.idOf(who)
				text := bodies(got[who])
				cls := "stranger"
				if id == 0 {
					cls = "unauthenticated"
				}
				for _, key := range sortedKeys(before) {
					o := before[key]
					if isParty(o, id) {
						continue
					}
					for _, tok := range o.Tokens {
						if strings.Contains(text, tok) && !strings.Contains(sbody, strings.Trim(tok, `"`)) {
							fail(cls, "read-"+o.Kind+"-of-other-client", fmt.Sprintf("reply to %s contains %q of %s %s: %s", who, tok, o.Kind, o.ID, trunc(text, 400)), n)
							return
						}
					}
				}
				if succeeded(got[who]) && (cmd.ct == packet.MappingGet || cmd.ct == packet.MappingDelete || cmd.ct == packet.HTTPDomainDelete || id == 0 && cmd.ct != packet.HTTPDomainList) {
					fail(cls, "success-reported-for-object-of-other-client", fmt.Sprintf("reply to %s: %s", who, trunc(text, 400)), n)
					return
				}
			}
			// effects: every change must be one the party was entitled to make itself
			pid := w.idOf(party)
			for _, ch := range diff(before, after) {
				switch ch.Kind {
				case "clientmaps", "clientdomains":
					continue
				}
				switch ch.Op {
				case "created":
					owner := int64(0)
					if len(ch.After.Parties) > 0 {
						owner = ch.After.Parties[0]
					}
					ok := owner == pid || (owner == w.idOf("S") && cmd.ct == packet.ConnectionCodeGenerate)
					if ok && owner == w.idOf("S") && !strings.Contains(ch.After.State, "stranger-host") {
						ok = false
					}
					if ok && owner == pid && cmd.ct == packet.ConnectionCodeGenerate && !strings.Contains(ch.After.State, "party-host") {
						ok = false
					}
					if !ok {
						fail("stranger", "created-"+ch.Kind+"-recorded-for-another-client", fmt.Sprintf("%s => %s", ch.Key, ch.After.State), n)
						return
					}
				default:
					mine := own != nil && (ch.Key == "mapping:"+own.ID || ch.Key == "traffic:"+own.ID)
					trafficByParty := cmd.ct == packet.TunnelTrafficReport && ch.Key == "traffic:"+victimMapping && ch.After != nil && ch.After.State == bumped(ch.Before.State, 1)
					if !mine && !trafficByParty {
						after := "(deleted)"
						if ch.After != nil {
							after = ch.After.State
						}
						fail("stranger", ch.Op+"-"+ch.Kind+"-of-other-client", fmt.Sprintf("%s: %s -> %s (party %s only touched its own object)", ch.Key, ch.Before.State, after, party), n)
						return
					}
				}
			}
			if !succeeded(got[party]) && cmd.ct != packet.TunnelTrafficReport && cmd.ct != packet.HTTPDomainDelete {
				vkit.Class("recorded:party-refused-under-contention:" + cmd.name)
			}
			vkit.Case("contention/"+cmd.name, true, fmt.Sprintf("contention|%s|%d", cmd.name, n%4))
		}
		w.close()
	}
}

// bumped renders the traffic state after adding n bytes in both directions.
func bumped(state string, n int64) string {
	var s, r int64
	fmt.Sscanf(state, "sent=%d recv=%d", &s, &r)
	return fmt.Sprintf("sent=%d recv=%d", s+n, r+n)
}
