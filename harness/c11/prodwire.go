// Package c11 holds the C11 check. This non-test file only provides access to the production
// command wiring of internal/app/server (Server.setupConnectionCodeCommands), so that the check runs
// against the executor, middleware chain and handler registration the real server installs at start-up
// rather than against a copy of that wiring.
package c11

import (
	"fmt"
	"reflect"
	"time"
	"unsafe"

	appserver "tunnox-core/internal/app/server"
	"tunnox-core/internal/cloud/repos"
	"tunnox-core/internal/cloud/services"
	"tunnox-core/internal/command"
	"tunnox-core/internal/core/types"
	"tunnox-core/internal/protocol/session"
	"tunnox-core/internal/utils"
)

//go:linkname setupConnectionCodeCommands tunnox-core/internal/app/server.(*Server).setupConnectionCodeCommands
func setupConnectionCodeCommands(s *appserver.Server) error

// installProductionCommandWiring runs the server's own start-up step that creates the command executor
// (with whatever middleware it installs) and registers the handler groups, on the given session manager.
func installProductionCommandWiring(sm *session.SessionManager, connCode *services.ConnectionCodeService,
	auth *appserver.ServerAuthHandler, domains repos.IHTTPDomainMappingRepository) (reg *command.CommandRegistry, err error) {
	defer func() {
		if r := recover(); r != nil {
			err = fmt.Errorf("production wiring not reachable (Server layout changed?): %v", r)
		}
	}()
	srv := &appserver.Server{}
	v := reflect.ValueOf(srv).Elem()
	set := func(name string, val any) {
		f := v.FieldByName(name)
		if !f.IsValid() {
			panic("no field " + name)
		}
		reflect.NewAt(f.Type(), unsafe.Pointer(f.UnsafeAddr())).Elem().Set(reflect.ValueOf(val))
	}
	set("serviceManager", utils.NewServiceManager(nil))
	set("session", sm)
	set("connCodeService", connCode)
	set("authHandler", auth)
	set("httpDomainRepo", domains)
	if err := setupConnectionCodeCommands(srv); err != nil {
		return nil, err
	}
	ex := sm.GetCommandExecutor()
	wr, ok := ex.(interface{ GetRegistry() types.CommandRegistry })
	if !ok {
		return nil, fmt.Errorf("executor %T has no registry", ex)
	}
	reg, ok = wr.GetRegistry().(*command.CommandRegistry)
	if !ok {
		return nil, fmt.Errorf("registry is %T", wr.GetRegistry())
	}
	return reg, nil
}


// setCommandTimeout shortens the executor's RPC time-out (30 s in production; the value lives in the
// executor's unexported rpcManager, whose SetTimeout is exported).
func setCommandTimeout(sm *session.SessionManager, d time.Duration) (err error) {
	defer func() {
		if r := recover(); r != nil {
			err = fmt.Errorf("executor time-out not reachable (executor layout changed?): %v", r)
		}
	}()
	ex, ok := sm.GetCommandExecutor().(*command.CommandExecutor)
	if !ok {
		return fmt.Errorf("executor is %T", sm.GetCommandExecutor())
	}
	f := reflect.ValueOf(ex).Elem().FieldByName("rpcManager")
	if !f.IsValid() {
		return fmt.Errorf("no field rpcManager")
	}
	rm := reflect.NewAt(f.Type(), unsafe.Pointer(f.UnsafeAddr())).Elem().Interface().(*command.RPCManager)
	rm.SetTimeout(d)
	return nil
}
