// C11 — control commands act with the connection's proven identity only.
package c11

import (
	"encoding/json"
	"fmt"
	"os"
	"sort"
	"strings"
	"sync"
	"testing"

	"pgregory.net/rapid"

	"tunnox-core/internal/command"
	"tunnox-core/internal/packet"
	"tunnox-core/verif/vkit"
)

func TestMain(m *testing.M) { vkit.Main(m, "C11") }

var identities = []string{"none", "challenged", "L", "T", "S"}
var claims = []string{"empty", "own", "T", "L"}

// Case is what a replay file holds: the steps executed in one fresh world.
type Case struct {
	Steps []Cell `json:"steps"`
	// Compare: a second list of steps executed in a second fresh world whose outcome must be identical
	// (metamorphic pair differing only in SenderId/ReceiverId/Token and spoofed in-body identity fields)
	Compare []Cell `json:"compare,omitempty"`
}

var survey = os.Getenv("C11_SURVEY") != "" // development aid: list every failing cell instead of stopping at the first
var surveyMu sync.Mutex
var surveyed = map[string]int{}

func report(t vkit.TB, f *fail, c Case) {
	if survey && !strings.Contains(f.key, "/harness/") {
		surveyMu.Lock()
		surveyed[f.key]++
		n := surveyed[f.key]
		surveyMu.Unlock()
		if n == 1 {
			t.Logf("SURVEY %s: %s", f.key, f.detail)
		}
		return
	}
	vkit.Violation(t, f.key, f.detail, c)
}

// runSteps executes the steps in one fresh world. It returns the normalised summaries.
func runSteps(t vkit.TB, steps []Cell, whole Case) (sums []string, classes []string, ok bool) {
	w, err := newWorld()
	if err != nil {
		vkit.Violation(t, "C11/harness/setup-failed", err.Error(), whole)
		return nil, nil, false
	}
	defer w.close()
	if w.setupFail != "" {
		report(t, &fail{"C11/setup-command/created-object-recorded-for-another-client", w.setupFail}, whole)
		return nil, nil, false
	}
	for i := range steps {
		res := w.step(&steps[i])
		for _, r := range res.recorded {
			vkit.Class(r)
		}
		if res.skipped {
			vkit.Excluded(1)
			sums = append(sums, "skipped")
			classes = append(classes, res.class)
			continue
		}
		if res.f != nil {
			res.f.detail = fmt.Sprintf("step %d %+v: %s", i, steps[i], res.f.detail)
			report(t, res.f, whole)
			vkit.Case("violating:"+res.class, false, "")
			return sums, classes, false
		}
		c := steps[i]
		vkit.Case(res.class, res.nontriv, fmt.Sprintf("%s|%s|%s|%s|%v|%v|%s|%s|%s|%s|%v|%s", c.Cmd, c.Identity, c.Claim, c.Target, c.AsResp, c.Pending, c.BodyTarget, c.When, c.MState, c.PrimeBy, c.FixedID, c.CodeState)+"|"+c.Again+"|"+c.Index+"|"+c.DomState+fmt.Sprint(c.Rehandshake))
		if res.nontriv {
			vkit.Sample(res.class, map[string]any{"cell": c, "outcome": trunc(res.summary, 300)})
		}
		sums = append(sums, res.summary)
		classes = append(classes, res.class)
	}
	return sums, classes, true
}

// group runs one (command, identity, body) under every claim variant in identical fresh worlds and
// requires identical normalised outcomes (oracle 3) on top of the per-world oracles (1)(2)(4).
func group(t vkit.TB, base Cell, claimSet []string) {
	var first string
	var firstCell Cell
	for i, cl := range claimSet {
		c := base
		c.Claim = cl
		sums, classes, ok := runSteps(t, []Cell{c}, Case{Steps: []Cell{c}})
		if !ok || len(sums) == 0 || sums[0] == "skipped" {
			return
		}
		if i == 0 {
			first, firstCell = sums[0], c
			continue
		}
		if sums[0] != first {
			cls := strings.SplitN(classes[0], "/", 2)
			key := fmt.Sprintf("C11/%s/identity=%s/outcome-depends-on-claimed-sender-receiver-token-or-in-body-identity", c.Cmd, strings.Split(cls[len(cls)-1], "/")[0])
			report(t, &fail{key, fmt.Sprintf("claim %q: %s\nclaim %q: %s", firstCell.Claim, first, c.Claim, sums[0])}, Case{Steps: []Cell{firstCell}, Compare: []Cell{c}})
			return
		}
		vkit.Class("metamorphic-pair-equal")
	}
}

func cellsOf(sp *spec, id string, draw int) []Cell {
	base := Cell{Cmd: sp.Name, Identity: id, Target: "victim", Str: "alpha", N: 1000}
	if draw > 0 {
		base.Str = fmt.Sprintf("d%dx%d", draw, vkit.Seed()%9973)
		base.N = int64(17*draw) + vkit.Seed()%50000
		// registry commands (and the type-only special cases) are executed whatever the packet type is
		if sp.Type != packet.DNSResolve && sp.Type != packet.DNSQuery && !sp.Resp {
			base.AsResp = true
		}
	}
	if sp.Resp {
		// nothing pending / the foreign answer arrives after, before, during the write of the request to the target
		out := []Cell{base}
		for _, when := range []string{"", "before", "during"} {
			c := base
			c.Pending, c.When = true, when
			out = append(out, c)
		}
		return out
	}
	out := []Cell{base}
	if sp.Type == packet.SOCKS5TunnelRequestCmd || sp.Type == packet.DNSResolve || sp.Type == packet.DNSQuery {
		// the in-body target_client_id: the mapping's target (default), omitted, an unrelated online client, the listen client itself
		for _, bt := range []string{"absent", "S", "L"} {
			c := base
			c.BodyTarget = bt
			out = append(out, c)
		}
	}
	if draw > 0 {
		return out
	}
	if sp.Object == "mapping" || sp.Object == "traffic" || sp.Type == packet.DNSResolve || sp.Type == packet.DNSQuery {
		out = append(out, mappingStates(base)...)
	}
	if sp.Type == packet.DNSResolve || sp.Type == packet.DNSQuery {
		// the default-target path (no target named) against mappings that are no longer valid
		d := base
		d.BodyTarget = "absent"
		out = append(out, mappingStates(d)...)
		for _, how := range []string{"delete", "revoked"} {
			c := d
			c.Again = how
			out = append(out, c)
		}
	}
	switch sp.Type {
	case packet.MappingGet, packet.MappingDelete, packet.SOCKS5TunnelRequestCmd, packet.TunnelTrafficReport:
		// mappings one side of which is client 0 (server-listened / target-less): identity 0 is nobody's identity
		for _, tg := range []string{"zero-listen", "zero-target"} {
			c := base
			c.Target = tg
			out = append(out, c)
		}
	}
	switch sp.Type {
	case packet.DNSResolve, packet.DNSQuery, packet.SOCKS5TunnelRequestCmd, packet.TunnelTrafficReport, packet.MappingGet, packet.MappingList, packet.ConfigGet:
		// permissions that derive from the relationship L->T: the same request twice, the relationship taken away in between
		for _, how := range []string{"delete", "revoked", "expired", "inactive"} {
			c := base
			c.Again = how
			out = append(out, c)
		}
	}
	if sp.Object == "mapping" || sp.Object == "traffic" {
		// the requester's per-client index holds the id of a mapping between two other clients
		c := base
		c.Index = "stale-id-reused"
		if sp.Type != packet.MappingList && sp.Type != packet.ConfigGet {
			c.Target = "reused-id"
		}
		out = append(out, c)
	}
	if !sp.Special && id != "none" && id != "challenged" {
		// the connection proved to be another client first, used it, and handshook again as the requester
		c := base
		c.Rehandshake = true
		out = append(out, c)
		if sp.Type == packet.HTTPDomainCreate {
			c.Target = "own" // the victim's name
			out = append(out, c)
		}
	}
	switch sp.Type {
	case packet.HTTPDomainCreate, packet.HTTPDomainDelete, packet.HTTPDomainList, packet.HTTPDomainCheckSubdomain:
		// the victim's domain mapping is paused; HTTPDomainCreate asks for exactly the victim's name
		for _, ds := range []string{"", "inactive"} {
			c := base
			c.DomState = ds
			if sp.Type == packet.HTTPDomainCreate {
				c.Target = "own"
			} else if ds == "" {
				continue
			}
			out = append(out, c)
		}
	}
	if !sp.Special {
		// the same packet (type, CommandId, body) was sent a moment ago by a client that is entitled to an answer
		c := base
		c.FixedID = true
		c.PrimeBy = "T"
		if id == "T" {
			c.PrimeBy = "L"
		}
		out = append(out, c)
	}
	if sp.Type == packet.ConnectionCodeActivate || sp.Type == packet.ConnectionCodeList || sp.Type == packet.MappingList {
		// the code was already activated by L, with exactly the request fields this cell presents
		c := base
		c.CodeState = "activated-by-L"
		out = append(out, c)
	}
	return out
}

// mappingStates: the same cell against a victim mapping whose record exists but is not valid.
func mappingStates(base Cell) []Cell {
	var out []Cell
	for _, st := range []string{"revoked", "expired", "inactive"} {
		c := base
		c.MState = st
		out = append(out, c)
	}
	return out
}

// TestMatrix: every dispatched command type x requester identity x claimed fields, victim objects named in the body.
func TestMatrix(t *testing.T) {
	draws := vkit.Pick(2, 12)
	i := 0
	for d := 0; d < draws; d++ {
		for si := range specs {
			for _, id := range identities {
				for _, base := range cellsOf(&specs[si], id, d) {
					i++
					if !vkit.Mine(i) {
						continue
					}
					group(t, base, claims)
				}
			}
		}
	}
	vkit.Exhaustive("command type (13 registry + 8 special forms) x identity {none, challenged, L, T, S} x claim {empty, own, T, L} x pending {no, yes} for response forms x in-body target_client_id {mapping target, absent, S, L} for SOCKS5 / DNS requests x answer timing {after, before, during the write of the pending request} for response forms x victim mapping state {active, revoked, expired, inactive} for mapping operations x mappings with client 0 as listen / target side x same packet (type, CommandId, body) sent first by an entitled client for registry commands x code already activated by L with the same request fields for code operations", true)
	if vkit.Shard() == 0 {
		vkit.Extra("command_types_in_table", len(specs))
	}
}

// TestRegistryEnumerated: the table covers exactly what the production wiring registers.
func TestRegistryEnumerated(t *testing.T) {
	w, err := newWorld()
	if err != nil {
		t.Fatalf("HARNESS-ERROR %v", err)
	}
	defer w.close()
	var got, want []int
	for _, ct := range w.srv.Registry.ListHandlers() {
		got = append(got, int(ct))
	}
	for _, ct := range registryTypes {
		want = append(want, int(ct))
	}
	sort.Ints(got)
	sort.Ints(want)
	if fmt.Sprint(got) != fmt.Sprint(want) {
		t.Fatalf("HARNESS-ERROR the command registry holds %v, the C11 table covers %v: extend the table", got, want)
	}
	for _, ct := range registryTypes {
		found := false
		for i := range specs {
			if specs[i].Type == ct && !specs[i].Special {
				found = true
			}
		}
		if !found {
			t.Fatalf("HARNESS-ERROR no spec for registered type %d", ct)
		}
	}
	if vkit.Shard() == 0 {
		vkit.Extra("registry_handlers", len(got))
	}
}

// TestUnregisteredTypes: every other (command type, packet type) pair is inert for an unauthenticated
// requester and for a stranger claiming the victim's identity.
func TestUnregisteredTypes(t *testing.T) {
	covered := map[[2]int]bool{}
	for i := range specs {
		if specs[i].Type == packet.HTTPProxyResponse {
			covered[[2]int{int(specs[i].Type), 1}] = true
			continue
		}
		covered[[2]int{int(specs[i].Type), 0}] = true
		covered[[2]int{int(specs[i].Type), 1}] = true
	}
	n := 0
	for k, id := range []string{"none", "S", "challenged"} {
		if !vkit.Mine(k) {
			continue
		}
		w, err := newWorld()
		if err != nil {
			t.Fatalf("HARNESS-ERROR %v", err)
		}
		rq, err := w.requester(id)
		if err != nil {
			t.Fatalf("HARNESS-ERROR %v", err)
		}
		rid := w.idOf(id)
		before, err := w.snap(nil, nil)
		if err != nil {
			t.Fatalf("HARNESS-ERROR %v", err)
		}
		claim := fmt.Sprint(w.who["T"].id)
		for ct := 0; ct < 256; ct++ {
			for pt := 0; pt < 2; pt++ {
				if covered[[2]int{ct, pt}] {
					continue
				}
				ptype := packet.JsonCommand
				if pt == 1 {
					ptype = packet.CommandResp
				}
				body := fmt.Sprintf(`{"mapping_id":%q,"code":%q,"target_client_id":%s,"client_id":%s,"request_id":"x","tunnel_id":"t","target_host":"h","target_port":1}`, w.m.ID, w.code, claim, claim)
				out := w.exchange(rq, &packet.TransferPacket{PacketType: ptype, CommandPacket: &packet.CommandPacket{CommandType: packet.CommandType(ct),
					CommandId: nextID("c11"), Token: claim, SenderId: claim, ReceiverId: claim, CommandBody: body}}, id)
				after, err := w.snap(nil, nil)
				if err != nil {
					t.Fatalf("HARNESS-ERROR %v", err)
				}
				sp := &spec{Name: fmt.Sprintf("type-%d", ct), Type: packet.CommandType(ct), Object: "none"}
				cell := Cell{Cmd: sp.Name, Identity: id, Claim: "T", Target: "victim", AsResp: pt == 1}
				res := w.judge(sp, &cell, rid, &meta{}, before, after, out, body)
				if res.f != nil {
					// an undeclared type that does something: the table must learn about it
					vkit.Violation(t, strings.Replace(res.f.key, "C11/", "C11/unregistered-", 1), res.f.detail, Case{Steps: []Cell{cell}})
					w.close()
					return
				}
				if len(diff(before, after)) > 0 {
					vkit.Violation(t, fmt.Sprintf("C11/unregistered-type-%d/has-effects", ct), fmt.Sprintf("%+v", diff(before, after)), Case{Steps: []Cell{cell}})
					w.close()
					return
				}
				n++
				if rq.Far.IsClosed() || (id != "none" && w.srv.SM.GetControlConnection(rq.ConnID) == nil) {
					if rq, err = w.requester(id); err != nil {
						t.Fatalf("HARNESS-ERROR %v", err)
					}
				}
			}
		}
		vkit.Case("unregistered-types-sweep/"+idClass(id, false), false, "")
		w.close()
	}
	vkit.AddExtra("unregistered_type_packet_pairs_checked_inert", int64(n))
}

// ---------------------------------------------------------------------------
// rapid parts

func genCell(t *rapid.T) Cell {
	names := make([]string, 0, len(specs))
	for i := range specs {
		names = append(names, specs[i].Name)
	}
	c := Cell{
		Cmd:      rapid.SampledFrom(names).Draw(t, "cmd"),
		Identity: rapid.SampledFrom([]string{"none", "challenged", "L", "T", "S", "S", "none"}).Draw(t, "identity"),
		Claim:    rapid.SampledFrom([]string{"empty", "own", "T", "L", "bogus", "T"}).Draw(t, "claim"),
		Target:   rapid.SampledFrom([]string{"victim", "victim", "victim", "own", "missing", "zero-listen", "zero-target", "reused-id"}).Draw(t, "target"),
		Str:      rapid.StringMatching(`[a-z0-9]{1,12}`).Draw(t, "str"),
		N:        rapid.Int64Range(0, 1<<40).Draw(t, "n"),
		TokenIs:  rapid.SampledFrom([]string{"id", "secret"}).Draw(t, "tokenIs"),
	}
	sp := specOf(c.Cmd)
	if sp.Type == packet.SOCKS5TunnelRequestCmd || ((sp.Type == packet.DNSResolve || sp.Type == packet.DNSQuery) && !sp.Resp) {
		c.BodyTarget = rapid.SampledFrom([]string{"", "absent", "T", "S", "L", "S"}).Draw(t, "bodyTarget")
	}
	if !sp.Resp {
		c.Again = rapid.SampledFrom([]string{"", "", "", "", "delete", "revoked", "expired", "inactive"}).Draw(t, "again")
	}
	c.DomState = rapid.SampledFrom([]string{"", "", "inactive"}).Draw(t, "domState")
	c.Rehandshake = rapid.IntRange(0, 4).Draw(t, "rehandshake") == 0
	c.Index = rapid.SampledFrom([]string{"", "", "", "", "stale-id-reused"}).Draw(t, "index")
	c.PrimeBy = rapid.SampledFrom([]string{"", "", "L", "T"}).Draw(t, "primeBy")
	c.FixedID = rapid.Bool().Draw(t, "fixedID")
	c.CodeState = rapid.SampledFrom([]string{"", "", "", "activated-by-L"}).Draw(t, "codeState")
	c.MState = rapid.SampledFrom([]string{"", "", "", "revoked", "expired", "inactive"}).Draw(t, "mstate")
	if sp.Resp {
		c.When = rapid.SampledFrom([]string{"", "before", "during", "during"}).Draw(t, "when")
		c.Pending = rapid.Bool().Draw(t, "pending")
	} else if sp.Type != packet.DNSResolve && sp.Type != packet.DNSQuery {
		c.AsResp = rapid.Bool().Draw(t, "flip")
	}
	return c
}

// TestRandomCells: one drawn command in a fresh world, as a metamorphic pair (drawn claim vs empty claim).
func TestRandomCells(t *testing.T) {
	vkit.Check(t, 480, 12000, func(t *rapid.T) {
		c := genCell(t)
		if c.Claim == "empty" {
			group(t, c, []string{"empty"})
			return
		}
		group(t, c, []string{"empty", c.Claim})
	})
}

// TestSequences: short random command sequences in one world; the state (new codes, activated mappings,
// deleted objects, closed connections) is carried across commands and every step is judged against the
// parties recorded in the state before it.
func TestSequences(t *testing.T) {
	vkit.Check(t, 320, 8000, func(t *rapid.T) {
		n := rapid.IntRange(2, vkit.Pick(6, 10)).Draw(t, "n")
		var c Case
		for i := 0; i < n; i++ {
			c.Steps = append(c.Steps, genCell(t))
		}
		_, classes, ok := runSteps(t, c.Steps, c)
		if ok {
			vkit.Class("sequence-completed")
			_ = classes
		}
	})
}

// ---------------------------------------------------------------------------
// SendNotifyToClient is not registered by the production wiring (internal/app/server registers four
// handler groups only). It is exercised here through a recording router and reported separately:
// the sender id on the delivered notification must be the connection's identity.

type recRouter struct {
	mu   sync.Mutex
	sent []*packet.ClientNotification
	to   []int64
}

func (r *recRouter) SendToClient(target int64, n *packet.ClientNotification) error {
	r.mu.Lock()
	defer r.mu.Unlock()
	r.sent = append(r.sent, n)
	r.to = append(r.to, target)
	return nil
}
func (r *recRouter) IsClientOnline(int64) bool { return true }

func TestNotifyHandlerNotInProduction(t *testing.T) {
	k := 0
	for _, id := range identities {
		for _, cl := range claims {
			k++
			if !vkit.Mine(k) {
				continue
			}
			w, err := newWorld()
			if err != nil {
				t.Fatalf("HARNESS-ERROR %v", err)
			}
			router := &recRouter{}
			if err := w.srv.Registry.Register(command.NewSendNotifyToClientHandler(router)); err != nil {
				t.Fatalf("HARNESS-ERROR %v", err)
			}
			rq, err := w.requester(id)
			if err != nil {
				t.Fatalf("HARNESS-ERROR %v", err)
			}
			rid := w.idOf(id)
			cell := Cell{Cmd: "SendNotifyToClient", Identity: id, Claim: cl}
			claim := w.claimed(&cell, rid)
			body := fmt.Sprintf(`{"target_client_id":%d,"type":1,"payload":"{}","priority":1%s}`, w.who["T"].id, strings.Replace(extras(claim, false), `"sender_id"`, `"sender_client_id"`, 1))
			w.exchange(rq, &packet.TransferPacket{PacketType: packet.JsonCommand, CommandPacket: &packet.CommandPacket{CommandType: packet.SendNotifyToClient,
				CommandId: nextID("c11"), Token: claim, SenderId: claim, ReceiverId: claim, CommandBody: body}}, id)
			router.mu.Lock()
			sent := append([]*packet.ClientNotification(nil), router.sent...)
			router.mu.Unlock()
			for _, n := range sent {
				switch {
				case rid != 0 && n.SenderClientID != rid:
					vkit.Violation(t, "C11/SendNotifyToClient(not-wired-in-production)/sender-on-notification-is-not-the-connection-identity",
						fmt.Sprintf("connection of %s(id %d) claim %q: notification delivered with sender %d", id, rid, claim, n.SenderClientID), Case{Steps: []Cell{cell}})
				case rid == 0:
					// reachable only if someone registers the handler: documented, not alarmed
					vkit.Class(fmt.Sprintf("recorded:notify-from-unauthenticated-connection-delivered-with-sender-%d(handler-not-wired)", n.SenderClientID))
				default:
					vkit.Class("notify:sender-is-connection-identity")
				}
			}
			vkit.Case("SendNotifyToClient(not-wired)/"+idClass(id, id == "T"), false, "")
			w.close()
		}
	}
}

// ---------------------------------------------------------------------------

func TestReplay(t *testing.T) {
	path := vkit.Replaying()
	if path == "" {
		t.Skip("no VERIF_REPLAY")
	}
	var c Case
	if _, err := vkit.LoadReplay(path, &c); err != nil {
		t.Fatal(err)
	}
	a, _, ok := runSteps(t, c.Steps, c)
	if !ok || len(c.Compare) == 0 {
		return
	}
	b, _, ok := runSteps(t, c.Compare, c)
	if !ok {
		return
	}
	if fmt.Sprint(a) != fmt.Sprint(b) {
		js, _ := json.Marshal(c)
		vkit.Violation(t, fmt.Sprintf("C11/%s/replayed/outcome-depends-on-claimed-sender-receiver-token-or-in-body-identity", c.Steps[0].Cmd), fmt.Sprintf("%v\nvs\n%v\n%s", a, b, js), c)
	}
}
