package c11

import (
	"encoding/json"
	"fmt"
	"sort"
	"strings"
	"time"

	"tunnox-core/internal/packet"
	"tunnox-core/internal/protocol/httptypes"
	"tunnox-core/verif/vkit/miniserver"
)

// Cell is one command sent by one requester. JSON-serialisable for replay.
type Cell struct {
	Cmd      string `json:"cmd"`
	Identity string `json:"identity"`           // none | challenged | L | T | S
	Claim    string `json:"claim"`              // empty | own | L | T | bogus : value of SenderId/ReceiverId/Token and of spoofed in-body identity fields
	Target   string `json:"target"`             // victim | own | missing : which object the in-body ids name
	AsResp   bool   `json:"flip_packet_type"`   // request forms sent as CommandResp packets (registry commands are executed for both packet types)
	Pending  bool   `json:"pending,omitempty"`  // response forms: a request L->T (or server->T) is pending
	Str      string `json:"str,omitempty"`      // drawn string (subdomain / description / domain)
	N        int64  `json:"n,omitempty"`        // drawn number (bytes, port)
	TokenIs  string `json:"token_is,omitempty"` // id (default) | secret : Token carries the claimed client's id or (for own) nothing else
	// BodyTarget: the in-body target_client_id of the commands in which it is a real field (SOCKS5 tunnel
	// request, DNS requests): "" = the victim mapping's target T (dns: per Target), absent = field omitted,
	// T | S | L = that client's id. For SOCKS5 it is an identity field like any other: it must have no effect.
	BodyTarget string `json:"body_target,omitempty"`
	// When (response forms with Pending): at which point of the pending request the foreign answer arrives:
	// "" = after the request was written to the target, before = before the request is issued,
	// during = while the request is being written to a back-pressured target connection.
	When string `json:"when,omitempty"`
	// PrimeBy: a client (L | T) that sends the very same packet (command type, CommandId, body) on its own
	// connection immediately before the requester does (a retransmission seen from another connection).
	PrimeBy string `json:"prime_by,omitempty"`
	// FixedID: the CommandId is a small per-connection style counter ("cmd-<n%3>") that collides across connections.
	FixedID bool `json:"fixed_command_id,omitempty"`
	// CodeState: "" = T's code is unused, activated-by-L = L activated it with the same listen_address the cell sends.
	CodeState string `json:"code_state,omitempty"`
	// Again: the command is sent twice; after the first (judged) round the relationship L->T is taken away
	// (delete | revoked | expired | inactive applied to the victim mappings); the second round is the one reported.
	Again string `json:"again_after,omitempty"`
	// DomState: inactive = T's http domain mapping is paused (status inactive, not expired).
	DomState string `json:"domain_state,omitempty"`
	// Rehandshake: the requester's connection first proved to be ANOTHER client (T; L when the requester is T),
	// sent an executor command under that identity and then handshook again as the requester.
	Rehandshake bool `json:"rehandshake,omitempty"`
	// Index: stale-id-reused = the per-client index of L and T holds the id of a deleted mapping of theirs that
	// now names a mapping between two other clients (S -> an unknown client); Target reused-id names that id.
	Index string `json:"index_state,omitempty"`
	// MState: state the victim's mappings (L->T) are put into before the command: "" = active,
	// revoked | expired | inactive (the record exists but IsValid() is false).
	MState string `json:"mapping_state,omitempty"`
}

type meta struct {
	mappingID string // mapping named in the body
	targetID  int64  // client named in the body as the one to reach
	newCode   bool
	genSub    bool
	fullDom   string
}

type spec struct {
	Name    string
	Type    packet.CommandType
	Resp    bool   // response form: always a CommandResp packet
	Special bool   // handled before the executor in handleCommandPacket
	Public  bool   // answers no client-owned state (documented assumption)
	Object  string // kind of victim object the command names: mapping code domain traffic client none
	Body    func(w *world, c *Cell, rid int64, m *meta) string
}

func extras(claim string, withTarget bool) string {
	if claim == "" {
		return ""
	}
	s := fmt.Sprintf(`,"client_id":%s,"sender_id":%s,"listen_client_id":%s,"owner_client_id":%s,"user_id":"%s","created_by":"client-%s"`, claim, claim, claim, claim, claim, claim)
	if withTarget {
		s += fmt.Sprintf(`,"target_client_id":%s`, claim)
	}
	return s
}

// pick the mapping / code / domain / client the body names
func (w *world) mappingFor(c *Cell, rid int64, socks bool) string {
	switch c.Target {
	case "reused-id":
		if w.reusedID != "" {
			return w.reusedID
		}
		return "pm_does_not_exist"
	case "zero-listen":
		return w.m0.ID
	case "zero-target":
		return w.mt0.ID
	case "missing":
		return "pm_does_not_exist"
	case "own":
		// a mapping the requester is a party of, if any
		maps, _ := w.srv.Cloud.GetClientPortMappings(rid)
		type cand struct {
			port int
			id   string
		}
		var cs []cand
		for _, m := range maps {
			if m.ListenClientID == rid || m.TargetClientID == rid {
				cs = append(cs, cand{m.SourcePort, m.ID})
			}
		}
		// ids are random per world: order by the listen port, which the case determines
		sort.Slice(cs, func(i, j int) bool { return cs[i].port > cs[j].port })
		if rid != 0 && len(cs) > 0 {
			return cs[0].id
		}
		return "pm_does_not_exist"
	}
	if socks {
		return w.ms.ID
	}
	return w.m.ID
}

func activationListenAddr(c *Cell) string { return fmt.Sprintf("127.0.0.1:%d", 20000+c.N%20000) }

func jstr(s string) string { b, _ := json.Marshal(s); return string(b) }

var specs = []spec{
	{Name: "ConnectionCodeGenerate", Type: packet.ConnectionCodeGenerate, Object: "none",
		Body: func(w *world, c *Cell, rid int64, m *meta) string {
			m.newCode = true
			return fmt.Sprintf(`{"target_address":"tcp://req-host.example:%d","activation_ttl":600,"mapping_ttl":3600,"description":%s%s}`, 1024+c.N%60000, jstr("d"+c.Str), extras(w.claimed(c, rid), true))
		}},
	{Name: "ConnectionCodeList", Type: packet.ConnectionCodeList, Object: "code",
		Body: func(w *world, c *Cell, rid int64, m *meta) string { return `{"x":1` + extras(w.claimed(c, rid), true) + `}` }},
	{Name: "ConnectionCodeActivate", Type: packet.ConnectionCodeActivate, Object: "code",
		Body: func(w *world, c *Cell, rid int64, m *meta) string {
			code := w.code
			if c.Target == "missing" {
				code = "zzz-zzz-zzz"
			}
			return fmt.Sprintf(`{"code":%s,"listen_address":%s%s}`, jstr(code), jstr(activationListenAddr(c)), extras(w.claimed(c, rid), true))
		}},
	{Name: "MappingList", Type: packet.MappingList, Object: "mapping",
		Body: func(w *world, c *Cell, rid int64, m *meta) string { return `{"direction":""` + extras(w.claimed(c, rid), true) + `}` }},
	{Name: "MappingGet", Type: packet.MappingGet, Object: "mapping",
		Body: func(w *world, c *Cell, rid int64, m *meta) string {
			m.mappingID = w.mappingFor(c, rid, false)
			return fmt.Sprintf(`{"mapping_id":%s%s}`, jstr(m.mappingID), extras(w.claimed(c, rid), true))
		}},
	{Name: "MappingDelete", Type: packet.MappingDelete, Object: "mapping",
		Body: func(w *world, c *Cell, rid int64, m *meta) string {
			m.mappingID = w.mappingFor(c, rid, false)
			return fmt.Sprintf(`{"mapping_id":%s%s}`, jstr(m.mappingID), extras(w.claimed(c, rid), true))
		}},
	{Name: "ConfigGet", Type: packet.ConfigGet, Object: "mapping",
		Body: func(w *world, c *Cell, rid int64, m *meta) string { return `{"x":1` + extras(w.claimed(c, rid), true) + `}` }},
	{Name: "HTTPDomainGetBaseDomains", Type: packet.HTTPDomainGetBaseDomains, Public: true, Object: "none",
		Body: func(w *world, c *Cell, rid int64, m *meta) string { return `{"x":1` + extras(w.claimed(c, rid), true) + `}` }},
	{Name: "HTTPDomainCheckSubdomain", Type: packet.HTTPDomainCheckSubdomain, Public: true, Object: "none",
		Body: func(w *world, c *Cell, rid int64, m *meta) string {
			sub := w.domSub
			if c.Target != "victim" {
				sub = "free-" + subdomainOf(c.Str)
			}
			return fmt.Sprintf(`{"subdomain":%s,"base_domain":"tunnox.net"%s}`, jstr(sub), extras(w.claimed(c, rid), true))
		}},
	{Name: "HTTPDomainGenSubdomain", Type: packet.HTTPDomainGenSubdomain, Public: true, Object: "none",
		Body: func(w *world, c *Cell, rid int64, m *meta) string {
			m.genSub = true
			return `{"base_domain":"tunnox.net"` + extras(w.claimed(c, rid), true) + `}`
		}},
	{Name: "HTTPDomainCreate", Type: packet.HTTPDomainCreate, Object: "none",
		Body: func(w *world, c *Cell, rid int64, m *meta) string {
			sub := "req-" + subdomainOf(c.Str)
			if c.Target == "own" {
				sub = w.domSub // the victim's name: must be refused as taken and leave the victim's record alone
			}
			m.fullDom = sub + ".tunnox.net"
			return fmt.Sprintf(`{"target_url":"http://req-web.example:%d","subdomain":%s,"base_domain":"tunnox.net","description":%s%s}`, 1024+c.N%60000, jstr(sub), jstr("d"+c.Str), extras(w.claimed(c, rid), true))
		}},
	{Name: "HTTPDomainDelete", Type: packet.HTTPDomainDelete, Object: "domain",
		Body: func(w *world, c *Cell, rid int64, m *meta) string {
			id := w.domID
			if c.Target == "missing" {
				id = "hdm_424242"
			}
			return fmt.Sprintf(`{"mapping_id":%s%s}`, jstr(id), extras(w.claimed(c, rid), true))
		}},
	{Name: "HTTPDomainList", Type: packet.HTTPDomainList, Object: "domain",
		Body: func(w *world, c *Cell, rid int64, m *meta) string { return `{"x":1` + extras(w.claimed(c, rid), true) + `}` }},
	// ---- the special cases of handleCommandPacket -------------------------------------------
	{Name: "SOCKS5TunnelRequest", Type: packet.SOCKS5TunnelRequestCmd, Special: true, Object: "mapping",
		Body: func(w *world, c *Cell, rid int64, m *meta) string {
			m.mappingID = w.mappingFor(c, rid, true)
			m.targetID = w.who["T"].id
			tfield := fmt.Sprintf(`"target_client_id":%d,`, m.targetID)
			switch c.BodyTarget {
			case "absent":
				tfield = ""
			case "T", "S", "L":
				tfield = fmt.Sprintf(`"target_client_id":%d,`, w.who[c.BodyTarget].id)
			}
			return fmt.Sprintf(`{"tunnel_id":"socks5-tunnel-%d-1080","mapping_id":%s,%s"target_host":"dyn-host.example","target_port":%d,"protocol":"tcp"%s}`,
				1790000000000000000+c.N, jstr(m.mappingID), tfield, 1+c.N%65000, extras(w.claimed(c, rid), false))
		}},
	{Name: "DNSResolveReq", Type: packet.DNSResolve, Special: true, Object: "client",
		Body: func(w *world, c *Cell, rid int64, m *meta) string {
			m.targetID = w.dnsTarget(c)
			return fmt.Sprintf(`{"domain":%s,"qtype":1%s%s}`, jstr("q"+subdomainOf(c.Str)+".example"), dnsTargetField(c, m.targetID), extras(w.claimed(c, rid), false))
		}},
	{Name: "DNSQueryReq", Type: packet.DNSQuery, Special: true, Object: "client",
		Body: func(w *world, c *Cell, rid int64, m *meta) string {
			m.targetID = w.dnsTarget(c)
			b, _ := json.Marshal([]byte("raw-dns-query-" + c.Str))
			return fmt.Sprintf(`{"query_id":"q-%d"%s,"dns_server":"9.9.9.9:53","raw_query":%s%s}`, c.N, dnsTargetField(c, m.targetID), b, extras(w.claimed(c, rid), false))
		}},
	{Name: "TunnelTrafficReport", Type: packet.TunnelTrafficReport, Special: true, Object: "traffic",
		Body: func(w *world, c *Cell, rid int64, m *meta) string {
			m.mappingID = w.mappingFor(c, rid, false)
			return fmt.Sprintf(`{"mapping_id":%s,"bytes_sent":%d,"bytes_received":%d,"connections":1,"timestamp":1790000000000%s}`, jstr(m.mappingID), 1+c.N, 7+c.N, extras(w.claimed(c, rid), true))
		}},
	{Name: "Disconnect", Type: packet.Disconnect, Special: true, Object: "client",
		Body: func(w *world, c *Cell, rid int64, m *meta) string { return `{"reason":"bye"` + extras(w.claimed(c, rid), true) + `}` }},
	{Name: "DNSResolveResp", Type: packet.DNSResolve, Resp: true, Special: true, Object: "client"},
	{Name: "DNSQueryResp", Type: packet.DNSQuery, Resp: true, Special: true, Object: "client"},
	{Name: "HTTPProxyResp", Type: packet.HTTPProxyResponse, Resp: true, Special: true, Object: "client"},
}

var registryTypes = []packet.CommandType{packet.ConnectionCodeGenerate, packet.ConnectionCodeList, packet.ConnectionCodeActivate,
	packet.MappingList, packet.MappingGet, packet.MappingDelete, packet.ConfigGet,
	packet.HTTPDomainGetBaseDomains, packet.HTTPDomainCheckSubdomain, packet.HTTPDomainGenSubdomain, packet.HTTPDomainCreate, packet.HTTPDomainDelete, packet.HTTPDomainList}

func specOf(name string) *spec {
	for i := range specs {
		if specs[i].Name == name {
			return &specs[i]
		}
	}
	return nil
}

func subdomainOf(s string) string {
	var b strings.Builder
	for _, r := range strings.ToLower(s) {
		if (r >= 'a' && r <= 'z') || (r >= '0' && r <= '9') {
			b.WriteRune(r)
		}
	}
	if b.Len() == 0 {
		return "x"
	}
	return b.String()
}

func dnsTargetField(c *Cell, id int64) string {
	if c.BodyTarget == "absent" {
		return ""
	}
	return fmt.Sprintf(`,"target_client_id":%d`, id)
}

func (w *world) dnsTarget(c *Cell) int64 {
	switch c.BodyTarget {
	case "absent":
		return 0 // field omitted: the server falls back to the requester's own default target
	case "T", "S", "L":
		return w.who[c.BodyTarget].id
	}
	switch c.Target {
	case "own":
		return -1 // "use my default target": resolved by the server from the requester's own socks mappings
	case "missing":
		return bogusID
	}
	return w.who["T"].id
}

// claimed returns the numeric text used for SenderId/ReceiverId/Token and the spoofed in-body fields.
func (w *world) claimed(c *Cell, rid int64) string {
	switch c.Claim {
	case "own":
		if rid == 0 {
			return fmt.Sprint(bogusID)
		}
		return fmt.Sprint(rid)
	case "L", "T":
		return fmt.Sprint(w.who[c.Claim].id)
	case "bogus":
		return fmt.Sprint(bogusID)
	}
	return ""
}

// ---------------------------------------------------------------------------

type fail struct{ key, detail string }

type stepResult struct {
	class    string
	nontriv  bool
	summary  string // normalised: effects + replies + deliveries (metamorphic comparison)
	f        *fail
	skipped  bool
	recorded []string
}

func idClass(identity string, party bool) string {
	switch {
	case identity == "none" || identity == "challenged":
		return "unauthenticated"
	case party:
		return "party"
	}
	return "stranger"
}

// step executes one cell in the world and judges it.
func (w *world) step(c *Cell) (res stepResult) {
	sp := specOf(c.Cmd)
	if sp == nil {
		res.f = &fail{"C11/harness/unknown-command", c.Cmd}
		return
	}
	rq, err := w.requester(c.Identity)
	if err != nil {
		res.f = &fail{"C11/harness/setup-failed", err.Error()}
		return
	}
	rid := w.idOf(c.Identity)
	if c.Again != "" {
		first := *c
		first.Again = ""
		r1 := w.step(&first)
		if r1.f != nil {
			return r1
		}
		if err := w.removeEntitlement(c.Again); err != nil {
			res.f = &fail{"C11/harness/setup-failed", err.Error()}
			return
		}
		second := *c
		second.Again, second.MState = "", ""
		r2 := w.step(&second)
		r2.class += "/again-after-" + c.Again
		r2.recorded = append(r2.recorded, r1.recorded...)
		if !r1.skipped && !r2.skipped {
			r2.summary = r1.summary + " || " + r2.summary
		}
		if r2.f != nil && !strings.Contains(r2.f.key, "/harness/") {
			r2.f.key += "/entitlement-removed-between-two-identical-requests"
		}
		return r2
	}
	if c.DomState == "inactive" {
		if err := w.pauseDomain(); err != nil {
			res.f = &fail{"C11/harness/setup-failed", err.Error()}
			return
		}
	}
	if c.Rehandshake && rid != 0 {
		prev := "T"
		if c.Identity == "T" {
			prev = "L"
		}
		if err := w.rehandshake(c.Identity, prev); err != nil {
			res.f = &fail{"C11/harness/setup-failed", err.Error()}
			return
		}
		if rq, err = w.requester(c.Identity); err != nil {
			res.f = &fail{"C11/harness/setup-failed", err.Error()}
			return
		}
	}
	if c.Index == "stale-id-reused" {
		if err := w.makeStaleIndex(); err != nil {
			res.f = &fail{"C11/harness/setup-failed", err.Error()}
			return
		}
		if rq, err = w.requester(c.Identity); err != nil {
			res.f = &fail{"C11/harness/setup-failed", err.Error()}
			return
		}
	}
	if w.pushLeak != "" {
		res.f = &fail{"C11/ConfigPushAfterLogin/identity=stranger/read-mapping-of-other-client/per-client-index-holds-id-of-a-mapping-of-other-clients", w.pushLeak}
		w.pushLeak = ""
		return
	}
	if c.MState != "" {
		if err := w.setMappingState(c.MState); err != nil {
			res.f = &fail{"C11/harness/setup-failed", err.Error()}
			return
		}
	}
	if c.CodeState == "activated-by-L" {
		if err := w.activateCodeAs("L", activationListenAddr(c)); err != nil {
			res.f = &fail{"C11/harness/setup-failed", err.Error()}
			return
		}
		if rq, err = w.requester(c.Identity); err != nil {
			res.f = &fail{"C11/harness/setup-failed", err.Error()}
			return
		}
	}
	if sp.Resp {
		return w.stepResponse(sp, c, rq, rid)
	}
	var m meta
	body := sp.Body(w, c, rid, &m)
	claim := w.claimed(c, rid)
	token := claim
	if c.TokenIs == "secret" && (c.Claim == "L" || c.Claim == "T") {
		token = "client-" + claim
	}
	cmdID := nextID("c11")
	if c.FixedID {
		cmdID = fmt.Sprintf("cmd-%d", c.N%3)
	}
	pt := packet.JsonCommand
	if c.AsResp {
		pt = packet.CommandResp
	}
	pkt := &packet.TransferPacket{PacketType: pt, CommandPacket: &packet.CommandPacket{CommandType: sp.Type, CommandId: cmdID,
		Token: token, SenderId: claim, ReceiverId: claim, CommandBody: body}}
	reqText := body
	if c.PrimeBy != "" && c.PrimeBy != c.Identity {
		// the same packet, first, from a client that is entitled to an answer
		pc, err := w.requester(c.PrimeBy)
		if err != nil {
			res.f = &fail{"C11/harness/setup-failed", err.Error()}
			return
		}
		cp := *pkt.CommandPacket
		pout := w.exchange(pc, &packet.TransferPacket{PacketType: pt, CommandPacket: &cp}, c.PrimeBy)
		if pout.hung || pout.recvErr != "" {
			res.f = &fail{"C11/harness/push-did-not-return-or-packet-unreadable", fmt.Sprintf("priming %+v", *c)}
			return
		}
		if rq, err = w.requester(c.Identity); err != nil { // the primer may have been the one that closed connections
			res.f = &fail{"C11/harness/setup-failed", err.Error()}
			return
		}
	}
	var extraDom []string
	if m.fullDom != "" {
		extraDom = append(extraDom, m.fullDom)
	}
	before, err := w.snap(nil, extraDom)
	if err != nil {
		res.f = &fail{"C11/harness/snapshot-failed", err.Error()}
		return
	}
	out := w.exchange(rq, pkt, c.Identity)
	if out.hung || out.recvErr != "" {
		res.f = &fail{"C11/harness/push-did-not-return-or-packet-unreadable", fmt.Sprintf("cell %+v hung=%v recvErr=%s", *c, out.hung, out.recvErr)}
		return
	}
	// a newly generated code is only known from the reply
	var extraCodes []string
	for _, p := range out.replies {
		if p.CommandPacket != nil {
			var r struct {
				Data struct {
					Code string `json:"code"`
				} `json:"data"`
			}
			if json.Unmarshal([]byte(p.CommandPacket.CommandBody), &r) == nil && r.Data.Code != "" {
				extraCodes = append(extraCodes, r.Data.Code)
			}
		}
	}
	after, err := w.snap(extraCodes, extraDom)
	if err != nil {
		res.f = &fail{"C11/harness/snapshot-failed", err.Error()}
		return
	}
	res = w.judge(sp, c, rid, &m, before, after, out, reqText)
	if res.f != nil && !strings.Contains(res.f.key, "/harness/") && !strings.Contains(res.f.key, "client-0") {
		// the circumstance that makes the case special is part of the root-cause key (only where it can matter)
		isRead := strings.Contains(res.f.key, "/read-") || strings.Contains(res.f.key, "/success-reported")
		codeOp := sp.Type == packet.ConnectionCodeActivate || sp.Type == packet.ConnectionCodeList || sp.Type == packet.MappingList || sp.Type == packet.MappingGet
		switch {
		case c.PrimeBy != "" && c.PrimeBy != c.Identity && isRead && !sp.Special:
			res.f.key += "/same-command-id-and-body-sent-just-before-by-entitled-client"
		case c.CodeState != "" && codeOp:
			res.f.key += "/code-already-activated-by-another-client"
		case c.Rehandshake && !sp.Special:
			res.f.key += "/connection-had-another-proven-identity-before-its-last-handshake"
		case c.DomState != "" && (sp.Type == packet.HTTPDomainCreate || sp.Type == packet.HTTPDomainDelete):
			res.f.key += "/victim-domain-mapping-paused"
		case c.Index != "" && (sp.Object == "mapping" || sp.Object == "traffic"):
			res.f.key += "/per-client-index-holds-id-of-a-mapping-of-other-clients"
		case strings.HasPrefix(c.Target, "zero-") && m.mappingID != "":
			res.f.key += "/mapping-with-client-0-as-" + strings.TrimPrefix(c.Target, "zero-") + "-side"
		}
	}
	return res
}

func replyText(out *outcome) string {
	var b strings.Builder
	for _, p := range out.replies {
		if p.CommandPacket != nil {
			b.WriteString(p.CommandPacket.CommandBody)
			b.WriteString("\n")
		}
		b.Write(p.Payload)
	}
	return b.String()
}

func (w *world) judge(sp *spec, c *Cell, rid int64, m *meta, before, after snapshot, out *outcome, reqText string) (res stepResult) {
	authed := rid != 0
	changes := diff(before, after)
	// is the requester a party of the object the command names?
	party := authed
	objExists := true
	switch sp.Object {
	case "mapping", "traffic":
		if sp.Type == packet.MappingList || sp.Type == packet.ConfigGet {
			if o, ok := before["mapping:"+w.m.ID]; ok {
				party = isParty(o, rid)
			} else {
				objExists = false
			}
		} else if o, ok := before["mapping:"+m.mappingID]; ok {
			party = isParty(o, rid)
		} else {
			objExists = false
		}
	case "code":
		if o, ok := before["code:"+w.code]; ok && c.Target != "missing" {
			party = isParty(o, rid)
			if sp.Type == packet.ConnectionCodeActivate {
				party = authed // the code is a bearer credential: any authenticated holder may activate it
			}
		} else {
			objExists = false
		}
	case "domain":
		if o, ok := before["domain:"+w.domID]; ok && c.Target != "missing" {
			party = isParty(o, rid)
		} else {
			objExists = false
		}
	case "client":
		if sp.Type == packet.Disconnect {
			party = true
		} else {
			// DNS: is the requester the listen client of a mapping whose target is the named client?
			party = false
			for _, o := range before {
				if o.Kind == "mapping" && authed && o.Parties[0] == rid && (o.Parties[1] == m.targetID || m.targetID <= 0) && o.hasState("valid=true") {
					party = true
				}
			}
			objExists = m.targetID != bogusID
		}
	}
	cls := idClass(c.Identity, party)
	res.class = fmt.Sprintf("%s/%s", sp.Name, cls)
	if sp.Public || sp.Object == "none" {
		// nothing of another client is named: only authenticated / unauthenticated matters
		if authed {
			res.class = fmt.Sprintf("%s/authenticated", sp.Name)
		}
	}
	res.nontriv = !party && objExists && !sp.Public
	if sp.Public {
		res.nontriv = false
	}
	if sp.Object == "none" && !sp.Public {
		res.nontriv = !authed // create commands: the unauthenticated requester is the one not entitled
	}
	bad := func(effect, detail string) stepResult {
		res.f = &fail{fmt.Sprintf("C11/%s/identity=%s/%s", sp.Name, cls, effect), detail}
		return res
	}
	// ---- (1)(2)(4) effects on stored state ------------------------------------------------
	allowedFor := map[int64]bool{} // clients whose derived lists may change as a consequence of an allowed change
	var effects []string
	var fresh []string // ids / secrets of objects created by this command (blanked in the summary)
	touched := map[string]bool{} // ids of objects this command was allowed to create, change or remove
	for _, ch := range changes {
		if ch.Kind == "index" && ch.Op == "changed" && ch.Before.State == "-" {
			ch.Op = "created" // the name was free before
		}
		switch ch.Op {
		case "created":
			o := ch.After
			switch o.Kind {
			case "mapping", "traffic", "code", "domain", "index":
				owner := int64(0)
				if len(o.Parties) > 0 {
					owner = o.Parties[0]
				}
				if !authed || owner != rid {
					whom := "another-client"
					switch {
					case owner == 0:
						whom = "nobody(client-0)"
					case fmt.Sprint(owner) == w.claimed(c, rid) && owner != rid:
						whom = "the-claimed-client"
					}
					cl := idClass(c.Identity, false)
					res.f = &fail{fmt.Sprintf("C11/%s/identity=%s/created-%s-recorded-for-%s", sp.Name, cl, o.Kind, whom),
						fmt.Sprintf("requester %s(id %d) created %s %s: %s", c.Identity, rid, o.Kind, o.ID, o.State)}
					return res
				}
				for _, p := range o.Parties {
					allowedFor[p] = true
				}
				if o.Kind != "index" {
					fresh = append(fresh, o.ID)
				}
				touched[o.ID] = true
				for _, tk := range o.Tokens {
					if !strings.Contains(tk, "secret-host") {
						fresh = append(fresh, strings.Trim(tk, `"`))
					}
				}
			}
		case "changed", "deleted":
			o := ch.Before
			switch o.Kind {
			case "clientmaps", "clientdomains":
				continue // judged below
			case "secret":
				continue
			}
			if o.Kind == "code" && authed && strings.Contains(reqText, jstr(o.ID)) && ch.After != nil && !ch.Before.hasState("activated=true") {
				// the code is a bearer credential: the authenticated holder activates it; the activation must name the holder
				if !strings.Contains(ch.After.State, fmt.Sprintf("activated=true by=%d ", rid)) {
					res.f = &fail{fmt.Sprintf("C11/%s/identity=%s/code-activation-recorded-for-another-client", sp.Name, idClass(c.Identity, false)),
						fmt.Sprintf("requester %s(id %d): %s -> %s", c.Identity, rid, o.State, ch.After.State)}
					return res
				}
				allowedFor[rid] = true
				for _, p := range o.Parties {
					allowedFor[p] = true
				}
				effects = append(effects, ch.Op+" "+ch.Key+" => "+ch.After.State)
				continue
			}
			if !isParty(o, rid) {
				cl := idClass(c.Identity, false)
				after := "(deleted)"
				if ch.After != nil {
					after = ch.After.State
				}
				res.f = &fail{fmt.Sprintf("C11/%s/identity=%s/%s-%s-of-other-client", sp.Name, cl, ch.Op, o.Kind),
					fmt.Sprintf("requester %s(id %d) is not a party of %s %s (parties %v): %s -> %s", c.Identity, rid, o.Kind, o.ID, o.Parties, o.State, after)}
				return res
			}
			for _, p := range o.Parties {
				allowedFor[p] = true
			}
			touched[o.ID] = true
		}
		eff := ch.Op + " " + ch.Key
		if ch.After != nil {
			eff += " => " + ch.After.State
		}
		effects = append(effects, eff)
	}
	for _, ch := range changes {
		if ch.Op == "created" {
			continue
		}
		o := ch.Before
		if o.Kind != "clientmaps" && o.Kind != "clientdomains" {
			continue
		}
		// a derived list may also change exactly by the ids of objects this command was allowed to create or remove
		// (an index can hold ids of objects its client is no party of: stale entries)
		onlyTouched := authed && ch.After != nil
		if onlyTouched {
			for _, id := range listDelta(o.State, ch.After.State) {
				if !touched[id] {
					onlyTouched = false
				}
			}
		}
		if (!allowedFor[o.Parties[0]] && o.Parties[0] != rid && !onlyTouched) || !authed {
			cl := idClass(c.Identity, false)
			res.f = &fail{fmt.Sprintf("C11/%s/identity=%s/changed-%s-of-other-client", sp.Name, cl, o.Kind),
				fmt.Sprintf("requester %s(id %d): list of client %s went %s -> %v", c.Identity, rid, o.ID, o.State, ch.After)}
			return res
		}
	}
	// ---- (1)(2) reads: nothing of an object the requester is not a party of ------------------------
	rt := replyText(out)
	check := func(s snapshot) *fail {
		for _, k := range sortedKeys(s) {
			o := s[k]
			if len(o.Tokens) == 0 || isParty(o, rid) {
				continue
			}
			if o.Kind == "code" && authed && strings.Contains(reqText, o.ID) {
				continue // the code is a bearer credential: its holder is shown what it leads to
			}
			for _, tok := range o.Tokens {
				if strings.Contains(rt, tok) && !strings.Contains(reqText, strings.Trim(tok, `"`)) {
					cl := idClass(c.Identity, false)
					return &fail{fmt.Sprintf("C11/%s/identity=%s/read-%s-of-other-client", sp.Name, cl, o.Kind),
						fmt.Sprintf("reply to %s(id %d) contains %q of %s %s (parties %v): %s", c.Identity, rid, tok, o.Kind, o.ID, o.Parties, trunc(rt, 600))}
				}
			}
		}
		return nil
	}
	if f := check(before); f != nil {
		res.f = f
		return res
	}
	if f := check(after); f != nil {
		res.f = f
		return res
	}
	// ---- (1)(2) reach: packets on other clients' connections ----------------------------------------
	for _, n := range sortedKeys(out.others) {
		if len(out.others[n]) == 0 {
			continue
		}
		recv := w.idOf(n)
		ok := false
		switch {
		case sp.Type == packet.SOCKS5TunnelRequestCmd:
			if o, has := before["mapping:"+m.mappingID]; has && authed && o.Parties[0] == rid && o.Parties[1] == recv {
				ok = true
			}
		case sp.Type == packet.DNSResolve || sp.Type == packet.DNSQuery:
			named := m.targetID > 0 && recv == m.targetID
			if m.targetID <= 0 {
				// default path: the receiver must be the target of one of the requester's own mappings
				for _, o := range before {
					if o.Kind == "mapping" && o.Parties[0] == rid && o.Parties[1] == recv && o.hasState("valid=true") {
						named = true
					}
				}
			}
			// the permission derives from a relationship: the source must (still) be the listen client of a
			// valid mapping whose target is the receiver (isDNSTargetAllowed states exactly this rule)
			if authed && recv != 0 && named && party {
				ok = true
			} else if authed && recv != 0 && m.targetID <= 0 {
				// root cause of its own: no target named, the server picks the default target from the requester's mappings
				return bad("packet-delivered-to-other-client/default-target-taken-from-mapping-that-is-no-longer-valid",
					fmt.Sprintf("requester %s(id %d) named no target; the request went to %s(id %d) although no valid mapping of the requester leads there (mapping state %q, again-after %q): %s", c.Identity, rid, n, recv, c.MState, c.Again, pktString(out.others[n][0])))
			} else if authed && recv != 0 {
				return bad("packet-delivered-to-other-client/requester-has-no-valid-mapping-to-the-target",
					fmt.Sprintf("requester %s(id %d) is not the listen client of a valid mapping to %s(id %d) (named target %d): %s", c.Identity, rid, n, recv, m.targetID, pktString(out.others[n][0])))
			}
		}
		if !ok && sp.Type == packet.SOCKS5TunnelRequestCmd {
			if o, has := before["mapping:"+m.mappingID]; has && authed && o.Parties[0] == rid {
				// the mapping's own listen client reached somebody who is not the mapping's target
				return bad("packet-delivered-to-client-that-is-not-the-mappings-target",
					fmt.Sprintf("listen client %s(id %d) of mapping %s (target %d) sent in-body target_client_id=%q and the request was delivered to %s(id %d): %s",
						c.Identity, rid, m.mappingID, o.Parties[1], c.BodyTarget, n, recv, pktString(out.others[n][0])))
			}
		}
		if !ok && !authed {
			if o, has := before["mapping:"+m.mappingID]; has && sp.Type == packet.SOCKS5TunnelRequestCmd && o.Parties[0] == 0 {
				// root cause of its own: "client 0" on the mapping equals the id of a connection that never authenticated
				return bad("packet-delivered-to-other-client/mapping-listen-client-0-equals-identity-of-unauthenticated-connection",
					fmt.Sprintf("unauthenticated requester %s named mapping %s (listen client 0, target %d); the tunnel-open request (with the mapping's secret key) was delivered to %s: %s",
						c.Identity, m.mappingID, o.Parties[1], n, pktString(out.others[n][0])))
			}
		}
		if !ok {
			return bad("packet-delivered-to-other-client", fmt.Sprintf("requester %s(id %d) caused delivery to %s: %s", c.Identity, rid, n, pktString(out.others[n][0])))
		}
	}
	// ---- an operation on an existing object of other clients is not reported as done -----------------
	if !party && objExists && (sp.Type == packet.MappingGet || sp.Type == packet.MappingDelete || sp.Type == packet.HTTPDomainDelete) {
		for _, p := range out.replies {
			if p.CommandPacket == nil || !p.PacketType.IsCommandResp() {
				continue
			}
			var env struct {
				Success bool `json:"success"`
			}
			if json.Unmarshal([]byte(p.CommandPacket.CommandBody), &env) == nil && env.Success {
				return bad("success-reported-for-object-of-other-client", fmt.Sprintf("requester %s(id %d) is not a party of the named object (mapping state %q) and was answered %s", c.Identity, rid, c.MState, trunc(p.CommandPacket.CommandBody, 300)))
			}
		}
	}
	// ---- tolerated and counted ------------------------------------------------------------------
	if !authed && strings.Contains(rt, `"success":true`) && !sp.Public {
		res.recorded = append(res.recorded, "recorded:success-true-to-unauthenticated:"+sp.Name)
	}
	if party && !sp.Public && !strings.Contains(rt, `"success":true`) && len(out.others) == 0 && len(changes) == 0 {
		res.recorded = append(res.recorded, "recorded:entitled-but-no-effect:"+sp.Name)
	}
	// ---- summary for the metamorphic comparison -------------------------------------------------
	var sb strings.Builder
	sb.WriteString("effects:")
	sort.SliceStable(fresh, func(i, j int) bool { return len(fresh[i]) > len(fresh[j]) })
	for _, e := range effects {
		for _, f := range fresh {
			if f != "" {
				e = strings.ReplaceAll(e, f, "<new>")
			}
		}
		sb.WriteString(" [" + w.norm(e, nil) + "]")
	}
	sb.WriteString(" replies:")
	for _, p := range out.replies {
		if p.CommandPacket != nil {
			if p.PacketType.IsJsonCommand() {
				fmt.Fprintf(&sb, " [forwarded cmd=%d %s]", p.CommandPacket.CommandType, w.normDelivered(p.CommandPacket.CommandBody))
				continue
			}
			fmt.Fprintf(&sb, " [type=%d cmd=%d %s]", p.PacketType&0x3F, p.CommandPacket.CommandType, w.normJSON(p.CommandPacket.CommandBody, m.genSub))
		}
	}
	sb.WriteString(" deliveries:")
	for _, n := range sortedKeys(out.others) {
		for _, p := range out.others[n] {
			if p.CommandPacket != nil {
				fmt.Fprintf(&sb, " [%s cmd=%d %s]", n, p.CommandPacket.CommandType, w.normDelivered(p.CommandPacket.CommandBody))
			}
		}
	}
	fmt.Fprintf(&sb, " pushErr=%v", out.pushErr != "")
	res.summary = sb.String()
	return res
}

// a forwarded body carries the spoofed in-body fields verbatim (they are part of the request the
// target is asked to serve); only the claim-independent part is compared.
func (w *world) normDelivered(body string) string {
	var v map[string]any
	if json.Unmarshal([]byte(body), &v) != nil {
		return w.norm(body, nil)
	}
	for _, k := range []string{"client_id", "sender_id", "listen_client_id", "owner_client_id", "user_id", "created_by"} {
		delete(v, k)
	}
	b, _ := json.Marshal(v)
	return w.norm(string(b), nil)
}

// ---------------------------------------------------------------------------
// response forms: DNSResolve / DNSQuery / HTTPProxyResponse arriving as CommandResp.

const injectedMarker = "66.66.66.66"

// unboundedLink lifts the back-pressure again. (A bound of 0 would switch the pipe back to its
// unbounded mode, but a writer already parked in the bounded loop would never leave it.)
const unboundedLink = 1 << 30

func (w *world) stepResponse(sp *spec, c *Cell, rq *miniserver.Client, rid int64) (res stepResult) {
	authed := rid != 0
	isTarget := c.Identity == "T"
	cls := idClass(c.Identity, isTarget)
	res.class = fmt.Sprintf("%s/%s/pending=%v", sp.Name, cls, c.Pending)
	if c.Pending && c.When != "" {
		res.class += "/answer-arrives-" + c.When + "-write"
	}
	res.nontriv = c.Pending && !isTarget
	if c.Pending && c.When != "" && isTarget {
		// the real target cannot answer a request it has not received yet
		res.skipped = true
		return
	}
	if c.Pending && c.Identity == "L" {
		// the asker's own connection is busy inside the synchronous wait: it cannot inject on the same connection
		res.skipped = true
		return
	}
	claim := w.claimed(c, rid)
	if c.Pending {
		// the asker and the target must be online before the state is recorded (an earlier step may have closed them)
		for _, n := range []string{"L", "T"} {
			if _, err := w.requester(n); err != nil {
				res.f = &fail{"C11/harness/setup-failed", err.Error()}
				return
			}
		}
		var err error
		if rq, err = w.requester(c.Identity); err != nil {
			res.f = &fail{"C11/harness/setup-failed", err.Error()}
			return
		}
	}
	before, err := w.snap(nil, nil)
	if err != nil {
		res.f = &fail{"C11/harness/snapshot-failed", err.Error()}
		return
	}
	pendID := nextID("pend")
	inject := func(cmdID string) *outcome {
		var body string
		switch sp.Type {
		case packet.DNSResolve:
			body = `{"success":true,"ips":["` + injectedMarker + `"],"ttl":60` + extras(claim, true) + `}`
		case packet.DNSQuery:
			b, _ := json.Marshal(packet.DNSQueryResponse{QueryID: "q-" + pendID, Success: true, RawAnswer: []byte(injectedMarker)})
			body = string(b)
		case packet.HTTPProxyResponse:
			rid := cmdID
			if c.N%2 == 1 {
				rid = "" // the handler then falls back to the CommandId
			}
			b, _ := json.Marshal(httptypes.HTTPProxyResponse{RequestID: rid, StatusCode: 200, Body: []byte(injectedMarker)})
			body = string(b)
		}
		return w.exchange(rq, &packet.TransferPacket{PacketType: packet.CommandResp, CommandPacket: &packet.CommandPacket{CommandType: sp.Type,
			CommandId: cmdID, Token: claim, SenderId: claim, ReceiverId: claim, CommandBody: body}}, c.Identity)
	}
	var got string   // what the asker finally received
	var out *outcome // outcome of the injection
	if !c.Pending {
		out = inject(pendID)
	} else {
		lc, err := w.requester("L")
		if err != nil {
			res.f = &fail{"C11/harness/setup-failed", err.Error()}
			return
		}
		tc, err := w.requester("T")
		if err != nil {
			res.f = &fail{"C11/harness/setup-failed", err.Error()}
			return
		}
		if c.When == "before" {
			out = inject(pendID) // the foreign answer is there before the request exists
		}
		if c.When == "during" {
			// a back-pressured link to the target: the server's write of the request blocks after its first byte
			tc.Near.SetMaxBuffered(1)
			defer tc.Near.SetMaxBuffered(unboundedLink)
		}
		done := make(chan string, 1)
		var wantType packet.CommandType
		switch sp.Type {
		case packet.DNSResolve:
			wantType = packet.DNSResolve
			go func() {
				err := lc.Push(&packet.TransferPacket{PacketType: packet.JsonCommand, CommandPacket: &packet.CommandPacket{CommandType: packet.DNSResolve, CommandId: pendID,
					CommandBody: fmt.Sprintf(`{"domain":"intranet.example","qtype":1,"target_client_id":%d}`, w.who["T"].id)}})
				done <- fmt.Sprint(err)
			}()
		case packet.DNSQuery:
			wantType = packet.DNSQuery
			go func() {
				b, _ := json.Marshal(packet.DNSQueryRequest{QueryID: "q-" + pendID, TargetClientID: w.who["T"].id, DNSServer: "9.9.9.9:53", RawQuery: []byte("raw")})
				err := lc.Push(&packet.TransferPacket{PacketType: packet.JsonCommand, CommandPacket: &packet.CommandPacket{CommandType: packet.DNSQuery, CommandId: pendID, CommandBody: string(b)}})
				done <- fmt.Sprint(err)
			}()
		case packet.HTTPProxyResponse:
			wantType = packet.HTTPProxyRequest
			go func() {
				r, err := w.srv.SM.SendHTTPProxyRequest(w.who["T"].id, &httptypes.HTTPProxyRequest{RequestID: pendID, Method: "GET", URL: "http://d-secret-host.example:8080/", Timeout: 25})
				if err != nil {
					done <- "error: " + err.Error()
					return
				}
				done <- string(r.Body)
			}()
		}
		deadline := time.Now().Add(recvPatience)
		forwarded, finished := false, false
		if c.When == "during" {
			// wait until the write to T has begun (its first byte is buffered, the rest is blocked) ...
			for tc.Near.Pending() == 0 && !finished && time.Now().Before(deadline) {
				select {
				case r := <-done:
					done <- r
					finished = true
				default:
					time.Sleep(100 * time.Microsecond)
				}
			}
			if !finished && tc.Near.Pending() > 0 {
				// ... the foreign answer arrives now; nobody reads T's connection meanwhile
				w.hold = tc
				out = inject(pendID)
				w.hold = nil
			}
			finished = false
			tc.Near.SetMaxBuffered(unboundedLink) // the link drains: the write completes
		}
		// the request must show up on T's connection (or the asker is turned away at once)
		for !forwarded && !finished && time.Now().Before(deadline) {
			if tc.Near.Pending() > 0 {
				p, err := tc.Recv(recvPatience)
				if err != nil {
					res.f = &fail{"C11/harness/packet-unreadable", fmt.Sprintf("T: %v", err)}
					return
				}
				if p.CommandPacket != nil && p.CommandPacket.CommandType == wantType && p.CommandPacket.CommandId == pendID {
					forwarded = true
				}
				continue
			}
			select {
			case r := <-done:
				done <- r
				finished = true
			default:
				time.Sleep(100 * time.Microsecond)
			}
		}
		if !forwarded {
			// the legitimate request L->T was not forwarded: nothing is pending, nothing can be injected
			select {
			case <-done:
			case <-time.After(recvPatience):
			}
			for lc.Near.Pending() > 0 {
				if _, err := lc.Recv(recvPatience); err != nil {
					break
				}
			}
			res.recorded = append(res.recorded, "recorded:legitimate-request-not-forwarded:"+sp.Name)
			res.skipped = true
			return
		}
		if sp.Type == packet.HTTPProxyResponse {
			time.Sleep(5 * time.Millisecond) // the waiter registers right after writing the request
		}
		// 1. the requester injects its answer   2. the real target answers
		if isTarget {
			out = inject(pendID)
		} else {
			// the exchange helper would auto-answer for T; T's forwarded packet is already consumed, so it does not
			if out == nil {
				out = inject(pendID)
			}
			legit := func() {
				switch sp.Type {
				case packet.DNSResolve:
					tc.Push(&packet.TransferPacket{PacketType: packet.CommandResp, CommandPacket: &packet.CommandPacket{CommandType: packet.DNSResolve, CommandId: pendID,
						CommandBody: `{"success":true,"ips":["` + legitAnswerIP + `"],"ttl":60}`}})
				case packet.DNSQuery:
					b, _ := json.Marshal(packet.DNSQueryResponse{QueryID: "q-" + pendID, Success: true, RawAnswer: []byte(legitAnswerIP)})
					tc.Push(&packet.TransferPacket{PacketType: packet.CommandResp, CommandPacket: &packet.CommandPacket{CommandType: packet.DNSQuery, CommandId: pendID, CommandBody: string(b)}})
				case packet.HTTPProxyResponse:
					b, _ := json.Marshal(httptypes.HTTPProxyResponse{RequestID: pendID, StatusCode: 200, Body: []byte(legitAnswerIP)})
					tc.Push(&packet.TransferPacket{PacketType: packet.CommandResp, CommandPacket: &packet.CommandPacket{CommandType: packet.HTTPProxyResponse, CommandId: pendID, CommandBody: string(b)}})
				}
			}
			legit()
			// the answer may race with the waiter's registration (HTTP proxy): repeat until the asker is released
			tick := time.NewTicker(5 * time.Millisecond)
			defer tick.Stop()
			stop := time.After(recvPatience)
		waitL:
			for {
				select {
				case r := <-done:
					done <- r
					break waitL
				case <-tick.C:
					legit()
				case <-stop:
					break waitL
				}
			}
		}
		select {
		case r := <-done:
			got = r
		case <-time.After(recvPatience):
			res.f = &fail{"C11/harness/pending-request-never-released", fmt.Sprintf("%+v", *c)}
			return
		}
		// what L received on its connection (DNS forms); the exchange helper may already have read it
		absorb := func(p *packet.TransferPacket) {
			if p.CommandPacket == nil || w.benignConfigPush("L", p) {
				return
			}
			b := p.CommandPacket.CommandBody
			got += " | " + b
			// DNSQuery answers travel base64-encoded inside a json string
			for _, mk := range []string{injectedMarker, legitAnswerIP} {
				enc, _ := json.Marshal([]byte(mk))
				if strings.Contains(b, strings.Trim(string(enc), `"`)) {
					got += " | contains " + mk
				}
			}
		}
		if lc != rq {
			for _, p := range out.others["L"] {
				absorb(p)
			}
			delete(out.others, "L")
		}
		for lc.Near.Pending() > 0 {
			p, err := lc.Recv(recvPatience)
			if err != nil {
				break
			}
			absorb(p)
		}
		if !isTarget && strings.Contains(got, injectedMarker) {
			timing := ""
			if c.When != "" {
				timing = "/answer-arrived-" + c.When + "-write-of-request"
			}
			res.f = &fail{fmt.Sprintf("C11/%s/identity=%s/answer-of-non-target-accepted-for-pending-request-to-other-client%s", sp.Name, cls, timing),
				fmt.Sprintf("request %s was sent to client T; the answer pushed by %s(id %d, authenticated=%v) was delivered to the asker: %s", pendID, c.Identity, rid, authed, trunc(got, 400))}
			return
		}
		if isTarget && !strings.Contains(got, injectedMarker) {
			res.recorded = append(res.recorded, "recorded:answer-of-real-target-not-delivered:"+sp.Name)
		}
	}
	after, err := w.snap(nil, nil)
	if err != nil {
		res.f = &fail{"C11/harness/snapshot-failed", err.Error()}
		return
	}
	if ch := diff(before, after); len(ch) > 0 {
		res.f = &fail{fmt.Sprintf("C11/%s/identity=%s/%s-%s-of-other-client", sp.Name, idClass(c.Identity, false), ch[0].Op, ch[0].Kind), fmt.Sprintf("%+v", ch[0])}
		return
	}
	if out == nil {
		out = &outcome{others: map[string][]*packet.TransferPacket{}}
	}
	for _, n := range sortedKeys(out.others) {
		if len(out.others[n]) > 0 {
			res.f = &fail{fmt.Sprintf("C11/%s/identity=%s/packet-delivered-to-other-client", sp.Name, cls), fmt.Sprintf("to %s: %s", n, pktString(out.others[n][0]))}
			return
		}
	}
	accepted := strings.Contains(got, injectedMarker)
	res.summary = fmt.Sprintf("pending=%v when=%s accepted=%v replies=%d pushErr=%v", c.Pending, c.When, accepted, len(out.replies), out.pushErr != "")
	return
}


// listDelta returns the ids by which two rendered id lists ("[a b c] err=false") differ.
func listDelta(a, b string) []string {
	parse := func(s string) map[string]bool {
		m := map[string]bool{}
		if i, j := strings.Index(s, "["), strings.Index(s, "]"); i >= 0 && j > i {
			for _, f := range strings.Fields(s[i+1 : j]) {
				m[f] = true
			}
		}
		return m
	}
	ma, mb := parse(a), parse(b)
	var out []string
	for k := range ma {
		if !mb[k] {
			out = append(out, k)
		}
	}
	for k := range mb {
		if !ma[k] {
			out = append(out, k)
		}
	}
	return out
}
