package c11

import (
	"context"
	"encoding/json"
	"fmt"
	"strings"
	"sync"
	"testing"
	"time"

	"tunnox-core/internal/core/storage"
	"tunnox-core/internal/packet"
	"tunnox-core/verif/vkit"
	"tunnox-core/verif/vkit/miniserver"
)

// gateStore is the server's usual storage whose next n operations can be held back (a stalled remote
// store): arm(n) returns a gate; the next n operations park on it until it is opened.
type gateStore struct {
	*storage.HybridStorage
	mu   sync.Mutex
	gate *stall
}

type stall struct {
	slots  int
	parked int
	open   chan struct{}
}

func (g *gateStore) arm(n int) *stall {
	s := &stall{slots: n, open: make(chan struct{})}
	g.mu.Lock()
	g.gate = s
	g.mu.Unlock()
	return s
}

func (g *gateStore) parkedOn(s *stall) int {
	g.mu.Lock()
	defer g.mu.Unlock()
	return s.parked
}

func (g *gateStore) pass() {
	g.mu.Lock()
	s := g.gate
	if s == nil || s.slots == 0 {
		g.mu.Unlock()
		return
	}
	s.slots--
	s.parked++
	g.mu.Unlock()
	<-s.open
}

func (g *gateStore) Get(key string) (any, error)        { g.pass(); return g.HybridStorage.Get(key) }
func (g *gateStore) Exists(key string) (bool, error)    { g.pass(); return g.HybridStorage.Exists(key) }
func (g *gateStore) GetList(key string) ([]any, error)  { g.pass(); return g.HybridStorage.GetList(key) }
func (g *gateStore) Incr(key string) (int64, error)     { g.pass(); return g.HybridStorage.Incr(key) }
func (g *gateStore) Set(key string, v any, ttl time.Duration) error {
	g.pass()
	return g.HybridStorage.Set(key, v, ttl)
}
func (g *gateStore) SetNX(key string, v any, ttl time.Duration) (bool, error) {
	g.pass()
	return g.HybridStorage.SetNX(key, v, ttl)
}

func newGateStore() (*gateStore, error) {
	f := storage.NewStorageFactory(context.Background())
	hc := &storage.HybridStorageConfig{CacheType: "memory", EnablePersistent: false, HybridConfig: storage.DefaultHybridConfig()}
	hc.HybridConfig.EnablePersistent = false
	st, err := f.CreateStorage(hc)
	if err != nil {
		return nil, err
	}
	h, ok := st.(*storage.HybridStorage)
	if !ok {
		return nil, fmt.Errorf("storage factory returned %T", st)
	}
	return &gateStore{HybridStorage: h}, nil
}

// TestTimedOutHandler: a command whose handler outlives the executor's time-out (stalled store) while a
// command of ANOTHER connection is being executed. Everything the late handler does and answers must
// still carry the identity of the connection its command arrived on.
func TestTimedOutHandler(t *testing.T) {
	type slow struct {
		name string
		ct   packet.CommandType
		body string
	}
	const timeout = 250 * time.Millisecond
	slows := []slow{
		{"HTTPDomainCreate", packet.HTTPDomainCreate, `{"target_url":"http://late-web.example:8080","subdomain":"late-site","base_domain":"tunnox.net"}`},
		{"ConnectionCodeGenerate", packet.ConnectionCodeGenerate, `{"target_address":"tcp://late-host.example:80","activation_ttl":600,"mapping_ttl":3600}`},
		{"HTTPDomainList", packet.HTTPDomainList, `{}`},
		{"MappingList", packet.MappingList, `{}`},
		{"ConnectionCodeActivate", packet.ConnectionCodeActivate, ""},
	}
	k := 0
	for _, sl := range slows {
		for _, late := range []string{"S", "L"} {
			k++
			if !vkit.Mine(k) {
				continue
			}
			st, err := newGateStore()
			if err != nil {
				t.Fatalf("HARNESS-ERROR %v", err)
			}
			w, err := newWorldWith(st)
			if err != nil {
				t.Fatalf("HARNESS-ERROR %v", err)
			}
			if err := setCommandTimeout(w.srv.SM, timeout); err != nil {
				t.Fatalf("HARNESS-ERROR %v", err)
			}
			body := sl.body
			if sl.ct == packet.ConnectionCodeActivate {
				body = fmt.Sprintf(`{"code":%q,"listen_address":"127.0.0.1:23456"}`, w.code)
			}
			lateConn, _ := w.requester(late)
			otherConn, _ := w.requester("T")
			lateID, otherID := "late-"+nextID("c11"), "other-"+nextID("c11")
			before, err := w.snap(nil, []string{"late-site.tunnox.net"})
			if err != nil {
				t.Fatalf("HARNESS-ERROR %v", err)
			}
			// 1. the late command: its first storage operation stalls; the executor gives up after the time-out
			a := st.arm(1)
			lateDone := make(chan error, 1)
			go func() {
				lateDone <- lateConn.Push(&packet.TransferPacket{PacketType: packet.JsonCommand, CommandPacket: &packet.CommandPacket{CommandType: sl.ct, CommandId: lateID, CommandBody: body}})
			}()
			select {
			case <-lateDone:
			case <-time.After(recvPatience):
				t.Fatalf("HARNESS-ERROR late push never returned")
			}
			stalled := st.parkedOn(a) == 1
			// 2. a command of another connection is dispatched and stalls too (it is in flight when the late handler resumes)
			b := st.arm(1)
			otherDone := make(chan error, 1)
			go func() {
				otherDone <- otherConn.Push(&packet.TransferPacket{PacketType: packet.JsonCommand, CommandPacket: &packet.CommandPacket{CommandType: packet.HTTPDomainList, CommandId: otherID, CommandBody: `{}`}})
			}()
			deadline := time.Now().Add(timeout / 2)
			for st.parkedOn(b) == 0 && time.Now().Before(deadline) {
				time.Sleep(200 * time.Microsecond)
			}
			overlapped := st.parkedOn(b) == 1
			// 3. the store answers the late command's operation: the late handler runs to its end
			close(a.open)
			time.Sleep(20 * time.Millisecond)
			close(b.open)
			select {
			case <-otherDone:
			case <-time.After(recvPatience):
				t.Fatalf("HARNESS-ERROR other push never returned")
			}
			// let the late handler (detached from its Execute) finish: wait until the connections are quiet
			quiet := 0
			var lateGot, otherGot []*packet.TransferPacket
			for quiet < 15 {
				moved := false
				for _, x := range []struct {
					c   *miniserver.Client
					n   string
					dst *[]*packet.TransferPacket
				}{{lateConn, late, &lateGot}, {otherConn, "T", &otherGot}} {
					for x.c.Near.Pending() > 0 {
						p, err := x.c.Recv(recvPatience)
						if err != nil {
							t.Fatalf("HARNESS-ERROR %v", err)
						}
						moved = true
						if !w.benignConfigPush(x.n, p) {
							*x.dst = append(*x.dst, p)
						}
					}
				}
				if moved {
					quiet = 0
				} else {
					quiet++
					time.Sleep(2 * time.Millisecond)
				}
			}
			after, err := w.snap(nil, []string{"late-site.tunnox.net"})
			if err != nil {
				t.Fatalf("HARNESS-ERROR %v", err)
			}
			cell := Cell{Cmd: sl.name, Identity: late, Claim: "empty", Target: "victim", Str: "handler-outlives-timeout"}
			fail := func(effect, detail string) {
				w.close()
				vkit.Violation(t, fmt.Sprintf("C11/%s/identity=%s/%s/handler-outlived-the-executor-timeout-while-another-connection-was-served", sl.name, late, effect), detail, Case{Steps: []Cell{cell}})
			}
			// every response is delivered to the connection whose command it answers, at most one per command
			if len(otherGot) > 1 {
				fail("response-delivered-to-other-connection", fmt.Sprintf("T sent one command (HTTPDomainList %s) and received %d packets: %s", otherID, len(otherGot), describePkts(otherGot)))
				return
			}
			for _, p := range otherGot {
				if p.CommandPacket != nil && p.CommandPacket.CommandId == lateID {
					fail("response-delivered-to-other-connection", "T received the answer to "+lateID+": "+pktString(p))
					return
				}
			}
			for _, p := range lateGot {
				if p.CommandPacket != nil && p.CommandPacket.CommandId == otherID {
					fail("response-delivered-to-other-connection", late+" received the answer to "+otherID+": "+pktString(p))
					return
				}
			}
			// reads
			for who, got := range map[string][]*packet.TransferPacket{late: lateGot, "T": otherGot} {
				id, text := w.idOf(who), bodies(got)
				for _, snap := range []snapshot{before, after} {
					for _, key := range sortedKeys(snap) {
						o := snap[key]
						if isParty(o, id) || (o.Kind == "code" && strings.Contains(body, o.ID) && who == late) {
							continue
						}
						for _, tok := range o.Tokens {
							if strings.Contains(text, tok) {
								fail("read-"+o.Kind+"-of-other-client", fmt.Sprintf("packets to %s contain %q of %s %s: %s", who, tok, o.Kind, o.ID, trunc(text, 400)))
								return
							}
						}
					}
				}
			}
			// effects: everything created or changed by the late command is recorded for / allowed to its sender
			lid := w.idOf(late)
			for _, ch := range diff(before, after) {
				if ch.Kind == "clientmaps" || ch.Kind == "clientdomains" || ch.Kind == "conn" {
					continue
				}
				if ch.Kind == "index" && ch.Op == "changed" && ch.Before.State == "-" {
					ch.Op = "created"
				}
				switch ch.Op {
				case "created":
					owner := int64(0)
					if len(ch.After.Parties) > 0 {
						owner = ch.After.Parties[0]
					}
					if owner != lid {
						fail("created-"+ch.Kind+"-recorded-for-another-client", fmt.Sprintf("command of %s(id %d) created %s => %s", late, lid, ch.Key, ch.After.State))
						return
					}
				default:
					bearer := ch.Kind == "code" && sl.ct == packet.ConnectionCodeActivate && ch.After != nil && strings.Contains(ch.After.State, fmt.Sprintf("activated=true by=%d ", lid))
					if !isParty(ch.Before, lid) && !bearer {
						after := "(deleted)"
						if ch.After != nil {
							after = ch.After.State
						}
						fail(ch.Op+"-"+ch.Kind+"-of-other-client", fmt.Sprintf("%s: %s -> %s", ch.Key, ch.Before.State, after))
						return
					}
				}
			}
			class := fmt.Sprintf("timed-out-handler/%s/late=%s", sl.name, late)
			if !stalled || !overlapped {
				class += "/no-overlap(stall-not-established)"
			}
			vkit.Case(class, stalled && overlapped, class)
			w.close()
		}
	}
}

func describePkts(ps []*packet.TransferPacket) string {
	var b strings.Builder
	for _, p := range ps {
		b.WriteString("{" + pktString(p) + "} ")
	}
	return b.String()
}

var _ = json.Marshal
