// empty: allows the body-less go:linkname declaration in prodwire.go
