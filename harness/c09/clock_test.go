package c09

import "time"

// stopwatch guards oracles that lean on a real-time lifetime against a stalled or suspended process: elapsed time is
// read on the monotonic AND on the wall clock (a VM pause or a clock step moves one without the other).
type stopwatch struct{ t0 time.Time }

func startWatch() stopwatch { return stopwatch{time.Now()} }

func (w stopwatch) elapsed() (mono, wall time.Duration) {
	now := time.Now()
	return now.Sub(w.t0), now.Round(0).Sub(w.t0.Round(0))
}

// suspect reports that more than limit has passed on either clock, or that the two clocks disagree by more than 500 ms.
func (w stopwatch) suspect(limit time.Duration) bool {
	mono, wall := w.elapsed()
	d := mono - wall
	if d < 0 {
		d = -d
	}
	return mono > limit || wall > limit || d > 500*time.Millisecond
}

// beforeBoth / afterBoth compare two measured instants on the monotonic and on the wall clock; an oracle that needs
// "certainly before" / "certainly after" asks both, because the code under test compares wall-clock instants for
// records that went through JSON and monotonic ones for records kept in memory.
func beforeBoth(a, b time.Time) bool { return a.Before(b) && a.Round(0).Before(b.Round(0)) }
func afterBoth(a, b time.Time) bool  { return a.After(b) && a.Round(0).After(b.Round(0)) }
