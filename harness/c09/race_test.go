// C09, contention part (E3): races that a sequential history cannot reach.
//
//  1. expired-but-unswept record: concurrent lookups of a lapsed tunnel id against a fresh registration of the
//     same id on the in-memory backends — a completed registration must never be lost.
//  2. two source-side opens for one tunnel id racing on one node (different legitimate clients, different
//     mappings): at quiescence the routing record must describe the bridge that actually exists on the node.
//
// Not replay-deterministic: the replay unit is the round parameters; TestReplayRace re-runs them many times.
package c09

import (
	"context"
	"encoding/json"
	"fmt"
	"runtime"
	"sync"
	"sync/atomic"
	"testing"
	"time"

	"tunnox-core/internal/cloud/models"
	"tunnox-core/internal/core/storage"
	"tunnox-core/internal/core/storage/hybrid"
	"tunnox-core/internal/core/storage/memory"
	"tunnox-core/internal/packet"
	"tunnox-core/internal/protocol/session/tunnel"
	"tunnox-core/verif/vkit"
	"tunnox-core/verif/vkit/miniserver"
)

// notTheSubject is the waiting period used where the lifetime is not what a test is about: long enough that no stall
// or suspension of the process can make a freshly registered record lapse before it is read back.
const notTheSubject = time.Hour

type RaceCase struct {
	Kind    string `json:"kind"`    // expired-lookup-vs-register | duplicate-open | concurrent-register (Lookers = registrations per round)
	Backend string `json:"backend"` // memory | hybrid-memory (redis | hybrid-redis for concurrent-register)
	Lookers int    `json:"lookers,omitempty"`
	Rounds  int    `json:"rounds"`
}

// spinStart releases n goroutines at (as nearly as possible) the same instant.
type spinStart struct {
	ready atomic.Int32
	gate  atomic.Bool
}

func (s *spinStart) wait() {
	s.ready.Add(1)
	for i := 0; !s.gate.Load(); i++ {
		if i > 2000 { // oversubscribed machine: do not starve the goroutine that has to arrive
			runtime.Gosched()
		}
	}
}

func (s *spinStart) release(n int) {
	for int(s.ready.Load()) < n {
		runtime.Gosched()
	}
	s.gate.Store(true)
}

// ---------------------------------------------------------------------------
// 1. lookups of a lapsed id ∥ re-registration of the same id

func memStore(backend string) storage.Storage {
	ctx := context.Background()
	if backend == "hybrid-memory" {
		return hybrid.New(ctx, memory.New(ctx), nil, hybrid.DefaultConfig())
	}
	return memory.New(ctx)
}

func runExpiredLookupRace(c RaceCase) *failure {
	ctx := context.Background()
	st := memStore(c.Backend)
	shortNode := tunnel.NewRoutingTable(st, 2*time.Millisecond) // registers the record that lapses
	nodes := []*tunnel.RoutingTable{tunnel.NewRoutingTable(st, notTheSubject), tunnel.NewRoutingTable(st, notTheSubject), shortNode}
	const batch = 64
	done := 0
	for done < c.Rounds {
		n := batch
		if c.Rounds-done < n {
			n = c.Rounds - done
		}
		ids := make([]string, n)
		for i := range ids {
			ids[i] = fmt.Sprintf("race:%d*", done+i)
			old := &tunnel.WaitingState{TunnelID: ids[i], MappingID: "old-mapping", SourceNodeID: "node-3", SourceClientID: 1, TargetClientID: 2, TargetHost: "old.example", TargetPort: 1}
			if err := shortNode.RegisterWaitingTunnel(ctx, old); err != nil {
				return &failure{"C09/race/register-error/" + c.Backend, err.Error()}
			}
		}
		time.Sleep(8 * time.Millisecond) // every record of the batch has lapsed, nobody has read it since
		for i, id := range ids {
			fresh := &StateSpec{Mapping: Str{Lit: fmt.Sprintf("fresh-%d", done+i)}, SrcNode: Str{Lit: "node-1"}, SrcClient: int64(done + i), TgtClient: 1<<53 + 1, Host: Str{Lit: "fresh.example"}, Port: 3306}
			var ss spinStart
			var wg sync.WaitGroup
			var regErr error
			early := make([]*tunnel.WaitingState, c.Lookers)
			for g := 0; g < c.Lookers; g++ {
				wg.Add(1)
				go func(g int) {
					defer wg.Done()
					ss.wait()
					early[g], _ = nodes[1+g%2].LookupWaitingTunnel(ctx, id)
				}(g)
			}
			wg.Add(1)
			go func() {
				defer wg.Done()
				ss.wait()
				regErr = nodes[0].RegisterWaitingTunnel(ctx, fresh.build(id))
			}()
			ss.release(c.Lookers + 1)
			wg.Wait()
			if regErr != nil {
				return &failure{"C09/race/register-error/" + c.Backend, regErr.Error()}
			}
			// a racing lookup sees nothing or the fresh record, never the lapsed one
			for _, got := range early {
				if got != nil && got.MappingID == "old-mapping" {
					return &failure{"C09/race/lapsed-record-resolved/" + c.Backend, fmt.Sprintf("round %d: a lookup racing the re-registration of %q returned the lapsed record", done+i, id)}
				}
			}
			// quiescence: the completed registration resolves on every node
			for ni, tb := range nodes {
				got, err := tb.LookupWaitingTunnel(ctx, id)
				if err != nil {
					return &failure{fmt.Sprintf("C09/race/completed-registration-lost/%s/lookup-vs-register", c.Backend),
						fmt.Sprintf("round %d: %d lookups of the lapsed id %q raced its re-registration; the registration returned nil but node-%d now answers: %v", done+i, c.Lookers, id, ni+1, err)}
				}
				if f, cl, d := compare(id, fresh, got); f != "" {
					return &failure{fmt.Sprintf("C09/race/field-mismatch/%s/%s/%s", c.Backend, f, cl), fmt.Sprintf("round %d: %s", done+i, d)}
				}
			}
		}
		done += n
	}
	return nil
}

// ---------------------------------------------------------------------------
// 3. concurrent registrations of different tunnels on the Redis-backed stores

func runConcurrentRegisterRace(c RaceCase) *failure {
	if err := setupEnv(); err != nil {
		panic("C09 harness: cannot start miniredis: " + err.Error())
	}
	ctx := context.Background()
	// node tables: 0 and 1 share ONE storage object (one process, several callers), 2 has its own
	var stores []storage.Storage
	if c.Backend == "redis" {
		redisA.mr.FlushAll()
		stores = []storage.Storage{redisA.clients[0], redisA.clients[0], redisA.clients[1]}
	} else {
		redisB.mr.FlushAll()
		h0 := hybrid.NewWithSharedCache(ctx, memory.New(ctx), noCloseRedis{redisB.clients[0]}, nil, hybrid.DefaultConfig())
		h1 := hybrid.NewWithSharedCache(ctx, memory.New(ctx), noCloseRedis{redisB.clients[1]}, nil, hybrid.DefaultConfig())
		stores = []storage.Storage{h0, h0, h1}
	}
	var nodes []*tunnel.RoutingTable
	for _, st := range stores {
		nodes = append(nodes, tunnel.NewRoutingTable(st, notTheSubject))
	}
	width := c.Lookers // concurrent registrations per round
	for r := 0; r < c.Rounds; r++ {
		ids := make([]string, width)
		specs := make([]*StateSpec, width)
		for g := 0; g < width; g++ {
			ids[g] = fmt.Sprintf("creg:%d:%d*", r, g)
			// records of clearly different lengths and contents: a mixed-up or truncated record cannot pass for the right one
			specs[g] = &StateSpec{Mapping: Str{Lit: fmt.Sprintf("map-%d-", g), Rep: string(rune('a' + g)), N: 7 + 61*g}, Secret: Str{Rep: "s", N: g},
				SrcNode: Str{Lit: fmt.Sprintf("node-%d", g%3+1)}, SrcClient: int64(r*100 + g), TgtClient: 1<<53 + int64(g), Host: Str{Lit: fmt.Sprintf("host-%d.example", g)}, Port: 1000 + g}
		}
		var ss spinStart
		var wg sync.WaitGroup
		errs := make([]error, width)
		for g := 0; g < width; g++ {
			wg.Add(1)
			go func(g int) {
				defer wg.Done()
				ss.wait()
				errs[g] = nodes[g%len(nodes)].RegisterWaitingTunnel(ctx, specs[g].build(ids[g]))
			}(g)
		}
		ss.release(width)
		wg.Wait()
		for g := 0; g < width; g++ {
			if errs[g] != nil {
				return &failure{"C09/race/register-error/" + c.Backend, errs[g].Error()}
			}
			for ni, nd := range []*tunnel.RoutingTable{nodes[0], nodes[2]} {
				got, err := nd.LookupWaitingTunnel(ctx, ids[g])
				if err != nil {
					return &failure{fmt.Sprintf("C09/race/concurrent-register/record-unreadable/%s/%s", c.Backend, errShape(err)),
						fmt.Sprintf("round %d: %d tunnels were registered at the same instant; %q afterwards on node %d: %v", r, width, ids[g], ni, err)}
				}
				if f, _, d := compare(ids[g], specs[g], got); f != "" {
					return &failure{fmt.Sprintf("C09/race/concurrent-register/foreign-or-mixed-record/%s/%s", c.Backend, f),
						fmt.Sprintf("round %d: %d tunnels were registered at the same instant; %q resolves on node %d to a record that is not its own: %s", r, width, ids[g], ni, d)}
				}
			}
			nodes[2].RemoveWaitingTunnel(ctx, ids[g])
		}
	}
	return nil
}

// ---------------------------------------------------------------------------
// 2. two source-side opens for the same tunnel id racing on one node

func pushTunnelOpen(c *miniserver.Client, req *packet.TunnelOpenRequest) {
	b, _ := json.Marshal(req)
	c.Push(&packet.TransferPacket{PacketType: packet.TunnelOpen, TunnelID: req.TunnelID, Payload: b})
}

func runDuplicateOpenRace(c RaceCase) (*failure, int) {
	ctx := context.Background()
	st := memStore(c.Backend)
	srv, err := miniserver.New(miniserver.Options{Storage: st, NodeID: "node-1", RoutingTTL: notTheSubject, NoSecurityGate: true})
	if err != nil {
		panic("C09 harness: miniserver.New: " + err.Error())
	}
	defer srv.Close()
	other := tunnel.NewRoutingTable(st, notTheSubject)
	type party struct {
		id     int64
		secret string
		mp     *models.PortMapping
		target int64
	}
	var ps [2]party
	for i := range ps {
		l, err1 := srv.Cloud.GenerateAnonymousCredentials()
		t, err2 := srv.Cloud.GenerateAnonymousCredentials()
		if err1 != nil || err2 != nil {
			panic(fmt.Sprintf("C09 harness: credentials: %v %v", err1, err2))
		}
		mp, err := srv.Cloud.CreatePortMapping(&models.PortMapping{ListenClientID: l.ID, TargetClientID: t.ID, Protocol: models.ProtocolTCP, SourcePort: 17800 + i,
			TargetHost: fmt.Sprintf("target-%d.example", i), TargetPort: 1000 + i, SecretKey: fmt.Sprintf("mapping-secret-%d-0123456789abcdef", i), Status: models.MappingStatusActive})
		if err != nil {
			panic("C09 harness: mapping: " + err.Error())
		}
		ps[i] = party{l.ID, l.SecretKeyPlaintext, mp, t.ID}
	}
	both := 0
	for r := 0; r < c.Rounds; r++ {
		tid := fmt.Sprintf("tcp-tunnel-%d-17800", 1790000000000000000+int64(r))
		var conns [2]*miniserver.Client
		for i := range ps {
			cl, err := srv.Connect(fmt.Sprintf("8.%d.%d.%d:1", i, r>>8&255, r&255))
			if err != nil {
				panic("C09 harness: Connect: " + err.Error())
			}
			if resp, err := cl.Login(ps[i].id, ps[i].secret, "tunnel"); err != nil || resp == nil || !resp.Success {
				panic(fmt.Sprintf("C09 harness: login failed: %+v %v", resp, err))
			}
			conns[i] = cl
		}
		var ss spinStart
		var wg sync.WaitGroup
		for i := range ps {
			wg.Add(1)
			go func(i int) {
				defer wg.Done()
				ss.wait()
				pushTunnelOpen(conns[i], &packet.TunnelOpenRequest{MappingID: ps[i].mp.ID, TunnelID: tid})
			}(i)
		}
		ss.release(2)
		wg.Wait() // a source-side open returns once its bridge exists or it was refused
		// which bridge does the node hold for the id?
		owner := -1
		for i := range ps {
			if br := srv.SM.GetTunnelBridgeByMappingID(ps[i].mp.ID, 0); br != nil && br.GetTunnelID() == tid {
				owner = i
			}
		}
		for ni, tb := range []*tunnel.RoutingTable{srv.Routing, other} {
			got, err := tb.LookupWaitingTunnel(ctx, tid)
			if err != nil {
				if !isGoneErr(err) {
					return &failure{"C09/race/lookup-error/" + c.Backend, err.Error()}, both
				}
				continue // resolving to nothing is acceptable for a contested id
			}
			if owner < 0 {
				return &failure{"C09/race/duplicate-open/record-without-bridge/" + c.Backend,
					fmt.Sprintf("round %d: node-%d resolves %s to mapping %s but node-1 holds no bridge for it", r, ni+1, tid, got.MappingID)}, both
			}
			w := ps[owner]
			want := &StateSpec{Mapping: Str{Lit: w.mp.ID}, SrcNode: Str{Lit: "node-1"}, SrcClient: w.id, TgtClient: w.target, Host: Str{Lit: w.mp.TargetHost}, Port: w.mp.TargetPort}
			if f, _, d := compare(tid, want, got); f != "" {
				return &failure{fmt.Sprintf("C09/race/duplicate-open/record-of-refused-open/%s/%s", c.Backend, f),
					fmt.Sprintf("round %d: two source-side opens for %s raced; node-1 holds the bridge of mapping %s, node-%d resolves the id to another registration: %s", r, tid, w.mp.ID, ni+1, d)}, both
			}
		}
		if owner >= 0 {
			if br := srv.SM.GetTunnelBridgeByMappingID(ps[owner].mp.ID, 0); br != nil {
				br.Close()
			}
		}
		for _, cl := range conns {
			cl.CloseByPeer()
		}
		// wait for the lifecycle goroutine to retire the id so that bridges do not pile up
		retired := false
		for deadline := time.Now().Add(2 * endBound); time.Now().Before(deadline); {
			if _, err := other.LookupWaitingTunnel(ctx, tid); err != nil {
				retired = true
				break
			}
			time.Sleep(time.Millisecond)
		}
		if !retired && owner >= 0 {
			return &failure{"C09/race/duplicate-open/resolves-after-bridge-close/" + c.Backend,
				fmt.Sprintf("round %d: the bridge of %s was closed and its transports dropped, %v later the id still resolves", r, tid, 2*endBound)}, both
		}
	}
	return nil, both
}

func checkRace(t vkit.TB, c RaceCase) {
	var f *failure
	switch c.Kind {
	case "expired-lookup-vs-register":
		f = runExpiredLookupRace(c)
	case "duplicate-open":
		f, _ = runDuplicateOpenRace(c)
	case "concurrent-register":
		f = runConcurrentRegisterRace(c)
	default:
		return
	}
	if f != nil {
		vkit.Violation(t, f.key, f.detail, c)
		vkit.Case("known:"+f.key, false, "")
		return
	}
	vkit.Case("race:"+c.Kind+"/"+c.Backend, true, fmt.Sprintf("race|%s|%s|%d|shard%d", c.Kind, c.Backend, c.Lookers, vkit.Shard()))
	vkit.AddExtra("race_rounds/"+c.Kind, int64(c.Rounds))
}

// TestContention: every shard runs both races on both in-memory backends.
func TestContention(t *testing.T) {
	lookRounds := vkit.PerShard(vkit.Pick(24000, 480000))
	dupRounds := vkit.PerShard(vkit.Pick(1600, 24000))
	regRounds := vkit.PerShard(vkit.Pick(4800, 48000))
	for _, be := range []string{"redis", "hybrid-redis"} {
		checkRace(t, RaceCase{Kind: "concurrent-register", Backend: be, Lookers: 8, Rounds: regRounds / 2})
	}
	for _, be := range []string{"memory", "hybrid-memory"} {
		for lookers := 1; lookers <= 3; lookers++ {
			checkRace(t, RaceCase{Kind: "expired-lookup-vs-register", Backend: be, Lookers: lookers, Rounds: lookRounds / 6})
		}
		checkRace(t, RaceCase{Kind: "duplicate-open", Backend: be, Rounds: dupRounds / 2})
	}
}

// TestReplayRace re-runs saved round parameters (the schedule itself cannot be replayed) with 10x the rounds.
func TestReplayRace(t *testing.T) {
	path := vkit.Replaying()
	if path == "" {
		t.Skip("no VERIF_REPLAY")
	}
	var c RaceCase
	if _, err := vkit.LoadReplay(path, &c); err != nil || c.Kind == "" {
		t.Skip("not a race case")
	}
	c.Rounds *= 10
	checkRace(t, c)
}
