// C09, server part: the routing record of a tunnel opened on a real (mini-)server node.
//
// A legitimate source opens a tunnel on node 1 (client TunnelOpen after a tunnel-type login, or the
// server-internal StartServerTunnel). While the bridge waits for its target the id must resolve, from
// node 1's own RoutingTable and from a second RoutingTable over the same store (another node), to the
// source node and the mapping's clients / target address. Once the tunnel ends — aborted while still
// waiting (bridge closed, node context cancelled, session manager closed) or served and then finished —
// the id must stop resolving on every node within a bounded time, although the 30 s ttl has not lapsed.
package c09

import (
	"context"
	"encoding/json"
	"fmt"
	"strings"
	"testing"
	"time"

	"pgregory.net/rapid"

	"tunnox-core/internal/cloud/models"
	"tunnox-core/internal/core/storage"
	"tunnox-core/internal/core/storage/hybrid"
	"tunnox-core/internal/core/storage/memory"
	"tunnox-core/internal/packet"
	"tunnox-core/internal/protocol/session/tunnel"
	"tunnox-core/verif/vkit"
	"tunnox-core/verif/vkit/miniserver"
)

type SrvCase struct {
	Backend  string `json:"backend"`
	Start    string `json:"start"` // client-open | server-tunnel
	End      string `json:"end"`   // still-waiting | bridge-close | ctx-cancel | sm-close | served-then-closed
	Host     string `json:"host"`
	Port     int    `json:"port"`
	Seq      int    `json:"seq"`                 // makes the tunnel id
	Bystand  bool   `json:"bystand"`             // a second waiting tunnel on another mapping must be unaffected by a bridge-close of the first
	RegFault bool   `json:"reg_fault,omitempty"` // node 1's store refuses the first write of the routing record (transient fault), the tunnel is ended at once
	Dup      string `json:"dup,omitempty"`       // while waiting: "", "replay-same-client" or "other-client-other-mapping" sends a second source-side open for the same tunnel id
}

const endBound = 3 * time.Second

func genSrvCase(t *rapid.T) SrvCase {
	c := SrvCase{
		Backend: rapid.SampledFrom(backendNames).Draw(t, "backend"),
		Start:   rapid.SampledFrom([]string{"client-open", "client-open", "server-tunnel"}).Draw(t, "start"),
		End:     rapid.SampledFrom([]string{"still-waiting", "bridge-close", "bridge-close", "ctx-cancel", "sm-close", "served-then-closed", "served-then-closed"}).Draw(t, "end"),
		Host:    rapid.SampledFrom([]string{"127.0.0.1", "10.9.8.7", "db.internal.example", "::1", "主机.example"}).Draw(t, "host"),
		Port:    rapid.SampledFrom([]int{1, 22, 3306, 65535}).Draw(t, "port"),
		Seq:     rapid.IntRange(1, 999999).Draw(t, "seq"),
		Bystand: rapid.Bool().Draw(t, "bystand"),
	}
	c.Dup = rapid.SampledFrom([]string{"", "", "replay-same-client", "other-client-other-mapping"}).Draw(t, "dup")
	if rapid.IntRange(0, 9).Draw(t, "regFault") == 0 {
		c.RegFault, c.Dup, c.Bystand = true, "", false
		if c.End == "served-then-closed" {
			c.End = "bridge-close"
		}
	}
	if c.Start == "server-tunnel" && c.End == "served-then-closed" {
		c.End = "bridge-close" // the server-internal source has no client transport to finish a served tunnel with
	}
	return c
}

// node 1's store as the server sees it: the real storage whose next write of a routing record can be refused once
type srvFaultMem struct {
	*memory.Storage
	arm *faultArm
}

func (f srvFaultMem) Set(key string, value any, ttl time.Duration) error {
	if f.arm.refuses(key) {
		return fmt.Errorf("injected: transient storage error")
	}
	return f.Storage.Set(key, value, ttl)
}

type srvFaultHyb struct {
	*hybrid.Storage
	arm *faultArm
}

func (f srvFaultHyb) Set(key string, value any, ttl time.Duration) error {
	if f.arm.refuses(key) {
		return fmt.Errorf("injected: transient storage error")
	}
	return f.Storage.Set(key, value, ttl)
}

func (a *faultArm) refuses(key string) bool {
	a.mu.Lock()
	defer a.mu.Unlock()
	if !a.armed || !strings.HasPrefix(key, "tunnox:tunnel_waiting:") {
		return false
	}
	a.armed = false
	a.hits++
	return true
}

func srvStores(backend string, arm *faultArm) (node1, node2 storage.Storage) {
	ctx := context.Background()
	switch backend {
	case "memory":
		m := memory.New(ctx)
		return srvFaultMem{m, arm}, m
	case "hybrid-memory":
		h := hybrid.New(ctx, memory.New(ctx), nil, hybrid.DefaultConfig())
		return srvFaultHyb{h, arm}, h
	case "redis":
		redisA.mr.FlushAll()
		return faultyRedis{redisA.clients[0], arm}, redisA.clients[1]
	default:
		redisB.mr.FlushAll()
		mk := func(i int) *hybrid.Storage {
			return hybrid.NewWithSharedCache(ctx, memory.New(ctx), noCloseRedis{redisB.clients[i]}, nil, hybrid.DefaultConfig())
		}
		return srvFaultHyb{mk(0), arm}, mk(1)
	}
}

func sendTunnelOpen(c *miniserver.Client, req *packet.TunnelOpenRequest, wait time.Duration) *packet.TunnelOpenAckResponse {
	b, _ := json.Marshal(req)
	done := make(chan struct{})
	go func() {
		defer close(done)
		c.Push(&packet.TransferPacket{PacketType: packet.TunnelOpen, TunnelID: req.TunnelID, Payload: b})
	}()
	// the dispatcher writes the ack before it has finished handling the packet (bridge creation and routing
	// registration follow); a source-side open returns once the bridge exists, a target-side open only when
	// the tunnel is over, so the wait for the dispatcher is bounded and its expiry is not an error
	defer func() {
		select {
		case <-done:
		case <-time.After(300 * time.Millisecond):
		}
	}()
	deadline := time.Now().Add(wait)
	for time.Now().Before(deadline) {
		p, err := c.Recv(time.Until(deadline))
		if err != nil {
			return nil
		}
		if p.PacketType&0x3F == packet.TunnelOpenAck {
			var a packet.TunnelOpenAckResponse
			if json.Unmarshal(p.Payload, &a) != nil {
				return nil
			}
			return &a
		}
	}
	return nil
}

// runSrvCase returns a failure, or "" and whether the case was executed (false: excluded by construction).
func runSrvCase(c SrvCase) (*failure, bool) {
	if err := setupEnv(); err != nil {
		panic("C09 harness: cannot start miniredis: " + err.Error())
	}
	ctx := context.Background()
	watch := startWatch()
	arm := &faultArm{}
	st1, st2 := srvStores(c.Backend, arm)
	srv, err := miniserver.New(miniserver.Options{Storage: st1, NodeID: "node-1", RoutingTTL: 30 * time.Second, NoSecurityGate: true})
	if err != nil {
		panic("C09 harness: miniserver.New: " + err.Error())
	}
	defer srv.Close()
	tables := []*tunnel.RoutingTable{srv.Routing, tunnel.NewRoutingTable(st2, 30*time.Second)}

	L, err1 := srv.Cloud.GenerateAnonymousCredentials()
	T, err2 := srv.Cloud.GenerateAnonymousCredentials()
	if err1 != nil || err2 != nil {
		panic(fmt.Sprintf("C09 harness: credentials: %v %v", err1, err2))
	}
	mkMapping := func(port int) *models.PortMapping {
		mp, err := srv.Cloud.CreatePortMapping(&models.PortMapping{ListenClientID: L.ID, TargetClientID: T.ID, Protocol: models.ProtocolTCP,
			SourcePort: port, TargetHost: c.Host, TargetPort: c.Port, SecretKey: "mapping-secret-0123456789abcdef", Status: models.MappingStatusActive})
		if err != nil {
			return nil
		}
		mp, err = srv.Cloud.GetPortMapping(mp.ID)
		if err != nil {
			return nil
		}
		return mp
	}
	mp := mkMapping(17788)
	if mp == nil {
		return nil, false
	}

	type opened struct {
		tid    string
		secret string // what the source put into the request
		src    *miniserver.Client
		mp     *models.PortMapping
	}
	open := func(mp *models.PortMapping, start string, seq int) *opened {
		o := &opened{mp: mp}
		if start == "server-tunnel" {
			a, _ := vkit.NewBufConnPair("9.9.9.9:9", "10.0.0.1:8000")
			tid, err := srv.SM.StartServerTunnel(mp.ID, a)
			if err != nil {
				panic("C09 harness: StartServerTunnel: " + err.Error())
			}
			o.tid, o.secret = tid, mp.SecretKey
			return o
		}
		src, err := srv.Connect(fmt.Sprintf("5.5.%d.%d:1001", seq>>8&255, seq&255))
		if err != nil {
			panic("C09 harness: Connect: " + err.Error())
		}
		if r, err := src.Login(L.ID, L.SecretKeyPlaintext, "tunnel"); err != nil || r == nil || !r.Success {
			panic(fmt.Sprintf("C09 harness: source login failed: %+v %v", r, err))
		}
		o.tid = fmt.Sprintf("tcp-tunnel-%d-%d", 1790000000000000000+int64(seq), mp.SourcePort)
		ack := sendTunnelOpen(src, &packet.TunnelOpenRequest{MappingID: mp.ID, TunnelID: o.tid}, 2*time.Second)
		if ack == nil || !ack.Success {
			panic(fmt.Sprintf("C09 harness: legitimate source could not open the tunnel: %+v", ack))
		}
		o.src = src
		return o
	}
	// (a) a waiting tunnel resolves on every node with the registered data
	waiting := func(o *opened, when string) *failure {
		for ni, tb := range tables {
			st, err := tb.LookupWaitingTunnel(ctx, o.tid)
			// registration follows the ack; target nodes poll the routing table for the same reason (lookupTunnelRouting)
			for deadline := time.Now().Add(2 * time.Second); err != nil && isGoneErr(err) && time.Now().Before(deadline); {
				time.Sleep(5 * time.Millisecond)
				st, err = tb.LookupWaitingTunnel(ctx, o.tid)
			}
			if err != nil && isGoneErr(err) && watch.suspect(12*time.Second) {
				vkit.Skipped(1) // stalled or suspended process: the 30 s waiting period may really have lapsed
				return nil
			}
			if err != nil {
				shape := errShape(err)
				if isGoneErr(err) {
					shape = "not-found"
				}
				return &failure{fmt.Sprintf("C09/server/waiting-tunnel-not-routable/%s/%s", c.Backend, shape),
					fmt.Sprintf("%s: node-%d lookup(%s): %v", when, ni+1, o.tid, err)}
			}
			want := &StateSpec{Mapping: Str{Lit: o.mp.ID}, Secret: Str{Lit: o.secret}, SrcNode: Str{Lit: "node-1"}, SrcClient: L.ID, TgtClient: T.ID, Host: Str{Lit: c.Host}, Port: c.Port}
			if field, class, detail := compare(o.tid, want, st); field != "" {
				return &failure{fmt.Sprintf("C09/server/field-mismatch/%s/%s/%s", c.Backend, field, class), fmt.Sprintf("%s: node-%d lookup(%s): %s", when, ni+1, o.tid, detail)}
			}
		}
		return nil
	}
	// (b)/(c) an ended tunnel stops resolving on every node within a bounded time
	ended := func(o *opened) *failure {
		for ni, tb := range tables {
			var st *tunnel.WaitingState
			var err error
			for attempt := 0; attempt < 2; attempt++ { // the bound, then one more full bound before reporting
				deadline := time.Now().Add(endBound)
				for {
					st, err = tb.LookupWaitingTunnel(ctx, o.tid)
					if err != nil || time.Now().After(deadline) {
						break
					}
					time.Sleep(5 * time.Millisecond)
				}
				if err != nil {
					break
				}
			}
			if err == nil {
				return &failure{fmt.Sprintf("C09/server/resolves-after-tunnel-end/%s/%s/%s", c.End, c.Start, c.Backend),
					fmt.Sprintf("tunnel %s ended (%s) on node-1 but %v later node-%d still resolves it to source node %q (ttl 30s not lapsed)", o.tid, c.End, 2*endBound, ni+1, st.SourceNodeID)}
			}
			if !isGoneErr(err) {
				return &failure{fmt.Sprintf("C09/server/lookup-error/%s/%s", c.Backend, errShape(err)), fmt.Sprintf("after end: node-%d lookup(%s): %v", ni+1, o.tid, err)}
			}
		}
		return nil
	}

	if c.RegFault {
		arm.set()
	}
	o := open(mp, c.Start, c.Seq)
	refused := arm.take() > 0
	if !refused {
		if f := waiting(o, "while waiting"); f != nil {
			return f, true
		}
	}
	var by *opened
	if c.Bystand {
		mp2 := mkMapping(17789)
		if mp2 != nil {
			by = open(mp2, "client-open", c.Seq+1)
			if f := waiting(by, "bystander while waiting"); f != nil {
				return f, true
			}
		}
	}
	// a second source-side open for the id of a waiting tunnel (replayed by the same client, or by another
	// legitimate client with a mapping of its own) must leave the record exactly as registered
	var dupConn *miniserver.Client
	if c.Dup != "" {
		req := &packet.TunnelOpenRequest{MappingID: mp.ID, TunnelID: o.tid}
		id, secret := L.ID, L.SecretKeyPlaintext
		if c.Dup == "other-client-other-mapping" {
			L2, err := srv.Cloud.GenerateAnonymousCredentials()
			if err != nil {
				panic("C09 harness: credentials: " + err.Error())
			}
			m2, err := srv.Cloud.CreatePortMapping(&models.PortMapping{ListenClientID: L2.ID, TargetClientID: L.ID, Protocol: models.ProtocolTCP,
				SourcePort: 17790, TargetHost: "other.example", TargetPort: 2222, SecretKey: "other-secret-0123456789abcdef012", Status: models.MappingStatusActive})
			if err != nil {
				panic("C09 harness: second mapping: " + err.Error())
			}
			req.MappingID, id, secret = m2.ID, L2.ID, L2.SecretKeyPlaintext
		}
		dc, err := srv.Connect(fmt.Sprintf("7.7.%d.%d:1003", c.Seq>>8&255, c.Seq&255))
		if err != nil {
			panic("C09 harness: Connect: " + err.Error())
		}
		if r, err := dc.Login(id, secret, "tunnel"); err != nil || r == nil || !r.Success {
			panic(fmt.Sprintf("C09 harness: duplicate opener login failed: %+v %v", r, err))
		}
		dupConn = dc
		sendTunnelOpen(dc, req, 2*time.Second) // accepted as a source re-attach or refused: either way the record must not change
		if f := waiting(o, "after a duplicate open ("+c.Dup+")"); f != nil {
			f.key = "C09/server/record-changed-by-duplicate-open/" + c.Dup + "/" + c.Backend
			return f, true
		}
	}
	// A replayed open by the listen client is attached to the bridge as its second end, i.e. the tunnel is then
	// being served between the client's two connections; a node that shuts down also drops its transports, which
	// is what ends a served tunnel.
	shutdownTransports := func() {
		if dupConn != nil && c.Dup == "replay-same-client" {
			dupConn.CloseByPeer()
			if o.src != nil {
				o.src.CloseByPeer()
			}
		}
	}
	switch c.End {
	case "still-waiting":
		time.Sleep(20 * time.Millisecond)
		if refused {
			return nil, true // the registration was refused; whether and when the node publishes the record later is not promised
		}
		return waiting(o, "still waiting after 20ms"), true
	case "bridge-close":
		br := srv.SM.GetTunnelBridgeByMappingID(mp.ID, 0)
		if br == nil || br.GetTunnelID() != o.tid {
			panic("C09 harness: waiting bridge not found through GetTunnelBridgeByMappingID")
		}
		br.Close()
	case "ctx-cancel":
		srv.Cancel()
		shutdownTransports()
	case "sm-close":
		srv.SM.Close()
		shutdownTransports()
	case "served-then-closed":
		tc, err := srv.Connect(fmt.Sprintf("6.6.%d.%d:1002", c.Seq>>8&255, c.Seq&255))
		if err != nil {
			panic("C09 harness: Connect: " + err.Error())
		}
		if r, err := tc.Login(T.ID, T.SecretKeyPlaintext, "tunnel"); err != nil || r == nil || !r.Success {
			panic(fmt.Sprintf("C09 harness: target login failed: %+v %v", r, err))
		}
		ack := sendTunnelOpen(tc, &packet.TunnelOpenRequest{MappingID: mp.ID, TunnelID: o.tid, SecretKey: mp.SecretKey}, 2*time.Second)
		if ack == nil || !ack.Success {
			panic(fmt.Sprintf("C09 harness: legitimate target could not attach: %+v", ack))
		}
		tc.CloseByPeer()
		o.src.CloseByPeer()
		if dupConn != nil {
			dupConn.CloseByPeer() // a replayed open may have become the bridge's source transport
		}
	}
	endedAt := time.Now()
	if f := ended(o); f != nil {
		return f, true
	}
	if refused {
		// the tunnel ended within milliseconds of a refused registration: nothing the node does later on behalf of the
		// dead tunnel (late retries of the registration) may make its id resolve again
		time.Sleep(time.Until(endedAt.Add(1500 * time.Millisecond)))
		for ni, tb := range tables {
			if st, err := tb.LookupWaitingTunnel(ctx, o.tid); err == nil {
				return &failure{fmt.Sprintf("C09/server/ended-tunnel-published-late/%s/%s/%s", c.End, c.Start, c.Backend),
					fmt.Sprintf("the first registration of %s was refused by the store, the tunnel ended (%s) right away; %v later node-%d resolves the id to source node %q", o.tid, c.End, time.Since(endedAt).Round(time.Millisecond), ni+1, st.SourceNodeID)}, true
			}
		}
	}
	if by != nil {
		if c.End == "bridge-close" || c.End == "served-then-closed" {
			// ending one tunnel must not unroute another one that is still waiting
			if f := waiting(by, "bystander after the other tunnel ended"); f != nil {
				f.key = "C09/server/bystander-unrouted/" + c.End + "/" + c.Backend
				return f, true
			}
		} else if f := ended(by); f != nil { // node-wide shutdown ends every waiting tunnel
			return f, true
		}
	}
	return nil, true
}

func checkSrv(t vkit.TB, c SrvCase) {
	f, ran := runSrvCase(c)
	if !ran {
		vkit.Excluded(1)
		return
	}
	if f != nil {
		vkit.Violation(t, f.key, f.detail, c)
		vkit.Case("known:"+f.key, false, "")
		return
	}
	class := "server:" + c.Start + "/" + c.End
	vkit.Case(class, c.End != "still-waiting", fmt.Sprintf("srv|%s|%s|%s|%s|%d|%v|%s|%v", c.Backend, c.Start, c.End, c.Host, c.Port, c.Bystand, c.Dup, c.RegFault))
	vkit.Class("server-backend:" + c.Backend)
	if c.Dup != "" {
		vkit.Class("server-dup:" + c.Dup)
	}
	if c.RegFault {
		vkit.Class("server:first-registration-refused")
	}
	vkit.Sample(class, c)
}

// TestServerTunnelLifecycle: generated (backend, start, end, target) combinations on a real mini-server node.
func TestServerTunnelLifecycle(t *testing.T) {
	vkit.Check(t, 320, 4000, func(t *rapid.T) {
		checkSrv(t, genSrvCase(t))
	})
}

// TestServerTunnelMatrix: every (start, end) pair once per backend (deterministic floor; shard 0 only).
func TestServerTunnelMatrix(t *testing.T) {
	if vkit.Shard() != 0 {
		t.Skip("single shard")
	}
	seq := 100
	for _, be := range backendNames {
		for _, start := range []string{"client-open", "server-tunnel"} {
			for _, end := range []string{"still-waiting", "bridge-close", "ctx-cancel", "sm-close", "served-then-closed"} {
				if start == "server-tunnel" && end == "served-then-closed" {
					continue
				}
				seq += 2
				checkSrv(t, SrvCase{Backend: be, Start: start, End: end, Host: "10.9.8.7", Port: 3306, Seq: seq, Bystand: end == "bridge-close"})
			}
			if start == "client-open" {
				seq += 2
				checkSrv(t, SrvCase{Backend: be, Start: start, End: "bridge-close", Host: "10.9.8.7", Port: 3306, Seq: seq, RegFault: true})
			}
		}
	}
}

// TestReplayServer re-executes a saved server case (VERIF_REPLAY=path whose case has a "backend" member).
func TestReplayServer(t *testing.T) {
	path := vkit.Replaying()
	if path == "" {
		t.Skip("no VERIF_REPLAY")
	}
	var c SrvCase
	if _, err := vkit.LoadReplay(path, &c); err != nil || c.Backend == "" {
		t.Skip("not a server case")
	}
	checkSrv(t, c)
}
