// C09, server part, real-time leg: a source end that waits for its target for the whole waiting period.
//
// The bridge's wait for its target is a real-time timer, so this leg needs real time: TestLongWaitStart (first
// test of the package, one shard only) opens tunnels on mini-servers with the production routing ttl of 30 s and
// returns at once; TestLongWaitVerdict (last test of the package, z_longwait_test.go) looks at them ~31.5 s later,
// after all other tests of the shard have run in between. Oracle: as long as the source end is still waiting for
// its target on its node, the tunnel id resolves on every node; once the source end has been released it does not.
package c09

import (
	"context"
	"fmt"
	"testing"
	"time"

	"github.com/alicebob/miniredis/v2"

	"tunnox-core/internal/cloud/configs"
	"tunnox-core/internal/cloud/models"
	"tunnox-core/internal/core/storage"
	"tunnox-core/internal/core/storage/memory"
	redisstore "tunnox-core/internal/core/storage/redis"
	"tunnox-core/internal/packet"
	"tunnox-core/internal/protocol/session/tunnel"
	"tunnox-core/verif/vkit"
	"tunnox-core/verif/vkit/miniserver"
)

type longWait struct {
	backend string
	timeout int // mapping config.timeout in seconds (0 = service default)
	srv     *miniserver.Server
	tables  []*tunnel.RoutingTable
	mpID    string
	tid     string
	t0      time.Time
}

var longWaits []*longWait

const routingPeriod = 30 * time.Second

func longWaitShard() bool { return vkit.Shard() == 1%vkit.NShards() }

func TestLongWaitStart(t *testing.T) {
	if !longWaitShard() || vkit.Replaying() != "" {
		t.Skip("one shard only")
	}
	ctx := context.Background()
	mr, err := miniredis.Run() // its own server: the other tests flush theirs
	if err != nil {
		t.Fatalf("C09 harness: miniredis: %v", err)
	}
	seq := 0
	for _, be := range []string{"memory", "redis"} {
		for _, timeout := range []int{60, 0, 45} {
			if be == "redis" && timeout != 60 {
				continue // one Redis-backed server is enough
			}
			seq++
			var st1, st2 storage.Storage
			if be == "memory" {
				m := memory.New(ctx)
				st1, st2 = m, m
			} else {
				a, err1 := redisstore.New(ctx, &redisstore.Config{Addr: mr.Addr(), PoolSize: 2})
				b, err2 := redisstore.New(ctx, &redisstore.Config{Addr: mr.Addr(), PoolSize: 2})
				if err1 != nil || err2 != nil {
					t.Fatalf("C09 harness: redis client: %v %v", err1, err2)
				}
				st1, st2 = a, b
			}
			srv, err := miniserver.New(miniserver.Options{Storage: st1, NodeID: "node-1", RoutingTTL: routingPeriod, NoSecurityGate: true})
			if err != nil {
				t.Fatalf("C09 harness: miniserver.New: %v", err)
			}
			L, err1 := srv.Cloud.GenerateAnonymousCredentials()
			T, err2 := srv.Cloud.GenerateAnonymousCredentials()
			if err1 != nil || err2 != nil {
				t.Fatalf("C09 harness: credentials: %v %v", err1, err2)
			}
			mp, err := srv.Cloud.CreatePortMapping(&models.PortMapping{ListenClientID: L.ID, TargetClientID: T.ID, Protocol: models.ProtocolTCP, SourcePort: 17900 + seq,
				TargetHost: "10.9.8.7", TargetPort: 3306, SecretKey: "mapping-secret-0123456789abcdef", Status: models.MappingStatusActive,
				Config: configs.MappingConfig{Timeout: timeout}})
			if err != nil {
				t.Fatalf("C09 harness: mapping: %v", err)
			}
			src, err := srv.Connect(fmt.Sprintf("4.4.4.%d:1001", seq))
			if err != nil {
				t.Fatalf("C09 harness: connect: %v", err)
			}
			if r, err := src.Login(L.ID, L.SecretKeyPlaintext, "tunnel"); err != nil || r == nil || !r.Success {
				t.Fatalf("C09 harness: source login failed: %+v %v", r, err)
			}
			lw := &longWait{backend: be, timeout: timeout, srv: srv, mpID: mp.ID, tid: fmt.Sprintf("tcp-tunnel-%d-%d", 1790000000000900000+int64(seq), mp.SourcePort),
				tables: []*tunnel.RoutingTable{srv.Routing, tunnel.NewRoutingTable(st2, routingPeriod)}}
			lw.t0 = time.Now()
			ack := sendTunnelOpen(src, &packet.TunnelOpenRequest{MappingID: mp.ID, TunnelID: lw.tid}, 2*time.Second)
			if ack == nil || !ack.Success {
				t.Fatalf("C09 harness: legitimate source could not open the tunnel: %+v", ack)
			}
			longWaits = append(longWaits, lw)
		}
	}
}
