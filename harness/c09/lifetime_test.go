// C09, waiting-period part: production-scale waiting periods (5 s .. 60 s) on the Redis-backed stores.
//
// The store-side clock of the Redis server (miniredis) is driven by FastForward only, so no real time passes:
// several tunnels are registered, the server clock is advanced to just before the end of the waiting period
// (e.g. 90 %, 97 %, 99.7 %) and every tunnel must still resolve on every node with the registered data; then
// the clock is moved past the end and no node may resolve them any more. A tunnel re-registered half-way gets
// a full new period. (The record's own ExpiresAt is wall-clock based and stays in the future during the case.)
package c09

import (
	"context"
	"fmt"
	"testing"
	"time"

	"github.com/alicebob/miniredis/v2"
	"pgregory.net/rapid"

	"tunnox-core/internal/core/storage"
	"tunnox-core/internal/core/storage/hybrid"
	"tunnox-core/internal/core/storage/memory"
	"tunnox-core/internal/protocol/session/tunnel"
	"tunnox-core/verif/vkit"
)

type LifeCase struct {
	Backend  string `json:"backend"` // redis | hybrid-redis
	TTLms    int    `json:"life_ttl_ms"`
	Tunnels  int    `json:"tunnels"`
	Permille []int  `json:"permille"` // ascending fractions of the waiting period at which every node looks every tunnel up (< 1000)
	Renew    bool   `json:"renew"`    // tunnel 0 is registered again at 500 permille with new data
}

func genLifeCase(t *rapid.T) LifeCase {
	c := LifeCase{
		Backend: rapid.SampledFrom([]string{"redis", "hybrid-redis"}).Draw(t, "backend"),
		TTLms:   rapid.SampledFrom([]int{2000, 5000, 5000, 10000, 30000, 30000, 30000, 60000}).Draw(t, "ttl"),
		Tunnels: rapid.IntRange(3, 8).Draw(t, "tunnels"),
		Renew:   rapid.Bool().Draw(t, "renew"),
	}
	last := 0
	for _, lo := range []int{600, 890, 950, 985} {
		p := rapid.IntRange(lo, lo+12).Draw(t, "permille")
		if p > last {
			c.Permille = append(c.Permille, p)
			last = p
		}
	}
	return c
}

func runLifeCase(c LifeCase) *failure {
	if err := setupEnv(); err != nil {
		panic("C09 harness: cannot start miniredis: " + err.Error())
	}
	ctx := context.Background()
	var mr *miniredis.Miniredis
	var stores []storage.Storage
	if c.Backend == "redis" {
		mr = redisA.mr
		mr.FlushAll()
		for i := 0; i < maxNodes; i++ {
			stores = append(stores, redisA.clients[i])
		}
	} else {
		mr = redisB.mr
		mr.FlushAll()
		for i := 0; i < maxNodes; i++ {
			stores = append(stores, hybrid.NewWithSharedCache(ctx, memory.New(ctx), noCloseRedis{redisB.clients[i]}, nil, hybrid.DefaultConfig()))
		}
	}
	ttl := time.Duration(c.TTLms) * time.Millisecond
	var nodes []*tunnel.RoutingTable
	for _, st := range stores {
		nodes = append(nodes, tunnel.NewRoutingTable(st, ttl))
	}
	type tun struct {
		id    string
		spec  *StateSpec
		start time.Duration // store-clock instant of the (last) registration
	}
	spec := func(i, gen int) *StateSpec {
		return &StateSpec{Mapping: Str{Lit: fmt.Sprintf("map-%d-%d", i, gen)}, Secret: Str{Lit: "s"}, SrcNode: Str{Lit: fmt.Sprintf("node-%d", i%maxNodes+1)},
			SrcClient: int64(1000 + i), TgtClient: 1<<53 + int64(i), Host: Str{Lit: "10.0.0.9"}, Port: 3306 + gen}
	}
	var tuns []*tun
	watch := startWatch()
	for i := 0; i < c.Tunnels; i++ {
		tn := &tun{id: fmt.Sprintf("life:%d*", i), spec: spec(i, 0)}
		if err := nodes[i%maxNodes].RegisterWaitingTunnel(ctx, tn.spec.build(tn.id)); err != nil {
			return &failure{"C09/lifetime/register-error/" + c.Backend, err.Error()}
		}
		tuns = append(tuns, tn)
	}
	var clock time.Duration // how far the Redis server clock has been advanced
	advanceTo := func(d time.Duration) {
		if d > clock {
			mr.FastForward(d - clock)
			clock = d
		}
	}
	checkAll := func(when string) *failure {
		// the whole case must stay far away from the records' wall-clock ExpiresAt (it takes milliseconds)
		if watch.suspect(ttl / 4) {
			vkit.Skipped(1)
			return nil
		}
		for _, tn := range tuns {
			age := clock - tn.start
			for ni, nd := range nodes {
				got, err := nd.LookupWaitingTunnel(ctx, tn.id)
				if age < ttl {
					if err != nil {
						shape := errShape(err)
						if isGoneErr(err) {
							shape = "gone"
						}
						return &failure{fmt.Sprintf("C09/lifetime/waiting-tunnel-unroutable-before-expiry/%s/%s", c.Backend, shape),
							fmt.Sprintf("%s: %s registered with a waiting period of %v; %v (%.1f%%) into it node-%d answers: %v", when, tn.id, ttl, age, 100*float64(age)/float64(ttl), ni+1, err)}
					}
					if f, cl, d := compare(tn.id, tn.spec, got); f != "" {
						return &failure{fmt.Sprintf("C09/lifetime/field-mismatch/%s/%s/%s", c.Backend, f, cl), fmt.Sprintf("%s: %s on node-%d: %s", when, tn.id, ni+1, d)}
					}
				} else if err == nil {
					return &failure{"C09/lifetime/resolves-after-store-expiry/" + c.Backend,
						fmt.Sprintf("%s: %s still resolves on node-%d %v after a registration with waiting period %v", when, tn.id, ni+1, age, ttl)}
				} else if !isGoneErr(err) {
					return &failure{fmt.Sprintf("C09/lifetime/lookup-error/%s/%s", c.Backend, errShape(err)), err.Error()}
				}
			}
		}
		return nil
	}
	renewed := false
	for _, p := range c.Permille {
		if c.Renew && !renewed && p > 500 {
			advanceTo(ttl / 2)
			tn := tuns[0]
			tn.spec, tn.start = spec(0, 1), clock
			if err := nodes[1].RegisterWaitingTunnel(ctx, tn.spec.build(tn.id)); err != nil {
				return &failure{"C09/lifetime/register-error/" + c.Backend, err.Error()}
			}
			renewed = true
		}
		advanceTo(ttl * time.Duration(p) / 1000)
		if f := checkAll(fmt.Sprintf("at %d permille", p)); f != nil {
			return f
		}
	}
	// past the end of the first period: only a renewed tunnel is still waiting
	advanceTo(ttl + ttl/200)
	if f := checkAll("just past the period"); f != nil {
		return f
	}
	if renewed {
		advanceTo(ttl/2 + ttl*990/1000)
		if f := checkAll("at 990 permille of the renewed period"); f != nil {
			return f
		}
		advanceTo(ttl/2 + ttl + ttl/200)
		if f := checkAll("past the renewed period"); f != nil {
			return f
		}
	}
	return nil
}

func checkLife(t vkit.TB, c LifeCase) {
	if f := runLifeCase(c); f != nil {
		vkit.Violation(t, f.key, f.detail, c)
		vkit.Case("known:"+f.key, false, "")
		return
	}
	vkit.Case(fmt.Sprintf("lifetime:%s/ttl=%ds", c.Backend, c.TTLms/1000), true, fmt.Sprintf("life|%s|%d|%d|%v|%v", c.Backend, c.TTLms, c.Tunnels, c.Permille, c.Renew))
	if c.Renew {
		vkit.Class("lifetime:renewed-half-way")
	}
}

// TestWaitingPeriod: generated (backend, waiting period, tunnel count, check instants).
func TestWaitingPeriod(t *testing.T) {
	vkit.Check(t, 320, 4000, func(t *rapid.T) {
		checkLife(t, genLifeCase(t))
	})
}

// TestWaitingPeriodMatrix: the server's 30 s period and the 5 s threshold at fixed instants (shard 0 only).
func TestWaitingPeriodMatrix(t *testing.T) {
	if vkit.Shard() != 0 {
		t.Skip("single shard")
	}
	for _, be := range []string{"redis", "hybrid-redis"} {
		for _, ttl := range []int{4999, 5000, 30000} {
			checkLife(t, LifeCase{Backend: be, TTLms: ttl, Tunnels: 8, Permille: []int{900, 967, 997}, Renew: ttl == 30000})
		}
	}
}

// TestReplayLife re-executes a saved waiting-period case.
func TestReplayLife(t *testing.T) {
	path := vkit.Replaying()
	if path == "" {
		t.Skip("no VERIF_REPLAY")
	}
	var c LifeCase
	if _, err := vkit.LoadReplay(path, &c); err != nil || c.TTLms == 0 {
		t.Skip("not a waiting-period case")
	}
	checkLife(t, c)
}
