// C09: (1) a lookup that starts after RemoveWaitingTunnel completed, while an older lookup of the same id is still
// waiting for its (slow) Redis reply on the same node; (2) a waiting tunnel in an in-memory store that is at capacity.
package c09

import (
	"context"
	"fmt"
	"net"
	"sync"
	"testing"
	"time"

	goredis "github.com/redis/go-redis/v9"
	"pgregory.net/rapid"

	"tunnox-core/internal/core/storage"
	"tunnox-core/internal/core/storage/hybrid"
	"tunnox-core/internal/core/storage/memory"
	redisstore "tunnox-core/internal/core/storage/redis"
	"tunnox-core/internal/protocol/session/tunnel"
	"tunnox-core/verif/vkit"
)

type OverlapCase struct {
	Overlap string `json:"overlap"` // remove | reregister
	Backend string `json:"backend"` // redis | hybrid-redis
	Late    int    `json:"late"`    // lookups started after the change
}

// slowReply holds the reply of one GET of a key (the command has been executed by the server) until released.
type slowReply struct {
	mu      sync.Mutex
	key     string
	entered chan struct{}
	release chan struct{}
}

func (h *slowReply) arm(key string) {
	h.mu.Lock()
	h.key, h.entered, h.release = key, make(chan struct{}), make(chan struct{})
	h.mu.Unlock()
}
func (h *slowReply) DialHook(next goredis.DialHook) goredis.DialHook {
	return func(ctx context.Context, network, addr string) (net.Conn, error) { return next(ctx, network, addr) }
}
func (h *slowReply) ProcessPipelineHook(next goredis.ProcessPipelineHook) goredis.ProcessPipelineHook {
	return next
}
func (h *slowReply) ProcessHook(next goredis.ProcessHook) goredis.ProcessHook {
	return func(ctx context.Context, cmd goredis.Cmder) error {
		err := next(ctx, cmd)
		args := cmd.Args()
		if len(args) >= 2 && fmt.Sprint(args[0]) == "get" {
			h.mu.Lock()
			hold := h.key != "" && fmt.Sprint(args[1]) == h.key
			var entered, release chan struct{}
			if hold {
				h.key = ""
				entered, release = h.entered, h.release
			}
			h.mu.Unlock()
			if hold {
				close(entered)
				<-release
			}
		}
		return err
	}
}

func runOverlapCase(c OverlapCase) *failure {
	if err := setupEnv(); err != nil {
		panic("C09 harness: cannot start miniredis: " + err.Error())
	}
	ctx := context.Background()
	mr := redisA.mr
	if c.Backend == "hybrid-redis" {
		mr = redisB.mr
	}
	mr.FlushAll()
	hook := &slowReply{}
	mk := func(withHook bool) storage.Storage {
		cl, err := redisstore.New(ctx, &redisstore.Config{Addr: mr.Addr(), PoolSize: 8})
		if err != nil {
			panic("C09 harness: redis client: " + err.Error())
		}
		if withHook {
			cl.Client().AddHook(hook)
		}
		if c.Backend == "hybrid-redis" {
			return hybrid.NewWithSharedCache(ctx, memory.New(ctx), cl, nil, hybrid.DefaultConfig())
		}
		return cl
	}
	stX, stY := mk(true), mk(false)
	defer stX.Close()
	defer stY.Close()
	nodeX := tunnel.NewRoutingTable(stX, notTheSubject) // the node with the slow Redis reply
	nodeY := tunnel.NewRoutingTable(stY, notTheSubject)
	id := "ovl:1*"
	old := &StateSpec{Mapping: Str{Lit: "old-mapping"}, SrcNode: Str{Lit: "node-2"}, SrcClient: 1, TgtClient: 2, Host: Str{Lit: "old.example"}, Port: 1}
	fresh := &StateSpec{Mapping: Str{Lit: "fresh-mapping"}, SrcNode: Str{Lit: "node-1"}, SrcClient: 3, TgtClient: 4, Host: Str{Lit: "fresh.example"}, Port: 2}
	if err := nodeY.RegisterWaitingTunnel(ctx, old.build(id)); err != nil {
		return &failure{"C09/overlap/register-error/" + c.Backend, err.Error()}
	}
	hook.arm("tunnox:tunnel_waiting:" + id)
	var once sync.Once
	release := func() { once.Do(func() { close(hook.release) }) }
	defer release()
	first := make(chan error, 1)
	go func() { _, err := nodeX.LookupWaitingTunnel(ctx, id); first <- err }()
	select {
	case <-hook.entered:
	case <-time.After(5 * time.Second):
		panic("C09 harness: the first lookup never reached Redis")
	}
	// the change completes while the first lookup still waits for its reply
	if c.Overlap == "remove" {
		if err := nodeX.RemoveWaitingTunnel(ctx, id); err != nil {
			return &failure{"C09/overlap/remove-error/" + c.Backend, err.Error()}
		}
	} else if err := nodeX.RegisterWaitingTunnel(ctx, fresh.build(id)); err != nil {
		return &failure{"C09/overlap/register-error/" + c.Backend, err.Error()}
	}
	type ans struct {
		st  *tunnel.WaitingState
		err error
	}
	late := make(chan ans, c.Late)
	for i := 0; i < c.Late; i++ {
		go func() { st, err := nodeX.LookupWaitingTunnel(ctx, id); late <- ans{st, err} }()
	}
	var got []ans
	timeout := time.After(100 * time.Millisecond)
collect:
	for len(got) < c.Late {
		select {
		case a := <-late:
			got = append(got, a)
		case <-timeout:
			break collect
		}
	}
	release()
	for len(got) < c.Late {
		select {
		case a := <-late:
			got = append(got, a)
		case <-time.After(5 * time.Second):
			return &failure{"C09/overlap/late-lookup-never-returned/" + c.Backend, "a lookup started after the change did not return within 5 s of the older lookup's release"}
		}
	}
	<-first
	for _, a := range got {
		if c.Overlap == "remove" {
			if a.err == nil {
				return &failure{"C09/overlap/resolves-after-remove/" + c.Backend,
					fmt.Sprintf("RemoveWaitingTunnel(%s) had returned while an older lookup on the same node was waiting for its Redis reply; a lookup started AFTER the removal still resolves the id to source node %q", id, a.st.SourceNodeID)}
			}
			if !isGoneErr(a.err) {
				return &failure{"C09/overlap/lookup-error/" + c.Backend, a.err.Error()}
			}
			continue
		}
		if a.err != nil {
			return &failure{"C09/overlap/re-registered-tunnel-not-resolved/" + c.Backend, fmt.Sprintf("a lookup started after the re-registration of %s returned: %v", id, a.err)}
		}
		if f, _, d := compare(id, fresh, a.st); f != "" {
			return &failure{"C09/overlap/stale-record-after-re-register/" + c.Backend + "/" + f, fmt.Sprintf("a lookup started after the re-registration of %s returned the previous record: %s", id, d)}
		}
	}
	return nil
}

func checkOverlap(t vkit.TB, c OverlapCase) {
	if f := runOverlapCase(c); f != nil {
		vkit.Violation(t, f.key, f.detail, c)
		vkit.Case("known:"+f.key, false, "")
		return
	}
	vkit.Case("overlap:"+c.Overlap+"/"+c.Backend, true, fmt.Sprintf("overlap|%s|%s|%d", c.Overlap, c.Backend, c.Late))
}

func TestOverlappingLookupAfterChange(t *testing.T) {
	vkit.Check(t, 96, 1200, func(t *rapid.T) {
		checkOverlap(t, OverlapCase{Overlap: rapid.SampledFrom([]string{"remove", "remove", "reregister"}).Draw(t, "change"),
			Backend: rapid.SampledFrom([]string{"redis", "hybrid-redis"}).Draw(t, "backend"), Late: rapid.IntRange(1, 3).Draw(t, "late")})
	})
}

// ---------------------------------------------------------------------------
// a waiting tunnel in an in-memory store that holds very many long-lived keys

type FullStoreCase struct {
	FullStore string `json:"full_store"` // backend
	Keys      int    `json:"keys"`
}

func runFullStoreCase(c FullStoreCase) *failure {
	ctx := context.Background()
	var st storage.Storage = memory.New(ctx)
	if c.FullStore == "hybrid-memory" {
		st = hybrid.New(ctx, memory.New(ctx), nil, hybrid.DefaultConfig())
	}
	for i := 0; i < c.Keys; i++ { // a long-running node: client configs, mappings, runtime state ...
		st.Set(fmt.Sprintf("tunnox:runtime:filler:%d", i), "x", 24*time.Hour)
	}
	nodes := []*tunnel.RoutingTable{tunnel.NewRoutingTable(st, 30*time.Second), tunnel.NewRoutingTable(st, 30*time.Second)}
	spec := func(i int) *StateSpec {
		return &StateSpec{Mapping: Str{Lit: fmt.Sprintf("map-%d", i)}, SrcNode: Str{Lit: "node-1"}, SrcClient: int64(i), TgtClient: 7, Host: Str{Lit: "10.0.0.9"}, Port: 3306}
	}
	var ids []string
	watch := startWatch()
	for step := 0; step < 6; step++ {
		id := fmt.Sprintf("full:%d*", step)
		if err := nodes[step%2].RegisterWaitingTunnel(ctx, spec(step).build(id)); err != nil {
			return &failure{"C09/full-store/register-error/" + c.FullStore, err.Error()}
		}
		ids = append(ids, id)
		// unrelated new keys keep arriving
		st.Set(fmt.Sprintf("tunnox:runtime:late:%d", step), "y", time.Hour)
		nodes[0].RegisterNodeAddress(fmt.Sprintf("node-%d", step), "10.0.0.1:50052")
		for i, tid := range ids {
			for ni, nd := range nodes {
				got, err := nd.LookupWaitingTunnel(ctx, tid)
				if err != nil && watch.suspect(10*time.Second) {
					vkit.Skipped(1) // stalled or suspended process: the 30 s period may really have lapsed
					return nil
				}
				if err != nil {
					return &failure{"C09/full-store/waiting-tunnel-dropped/" + c.FullStore,
						fmt.Sprintf("store holds %d long-lived keys; tunnel %s registered with a 30 s period, then new unrelated keys were written; node-%d now answers: %v", c.Keys, tid, ni+1, err)}
				}
				if f, _, d := compare(tid, spec(i), got); f != "" {
					return &failure{"C09/full-store/field-mismatch/" + c.FullStore + "/" + f, d}
				}
			}
		}
		if step == 2 {
			time.Sleep(1100 * time.Millisecond)
		}
	}
	return nil
}

func TestFullStore(t *testing.T) {
	if vkit.Shard() != 2%vkit.NShards() {
		t.Skip("one shard only")
	}
	for _, be := range []string{"memory", "hybrid-memory"} {
		for _, n := range []int{99998, 100000, 130000} {
			c := FullStoreCase{FullStore: be, Keys: n}
			if f := runFullStoreCase(c); f != nil {
				vkit.Violation(t, f.key, f.detail, c)
				return
			}
			vkit.Case("full-store:"+be, true, fmt.Sprintf("full|%s|%d", be, n))
		}
	}
}

// TestReplayOverlap re-executes saved cases of this file.
func TestReplayOverlap(t *testing.T) {
	path := vkit.Replaying()
	if path == "" {
		t.Skip("no VERIF_REPLAY")
	}
	var oc OverlapCase
	if _, err := vkit.LoadReplay(path, &oc); err == nil && oc.Overlap != "" {
		checkOverlap(t, oc)
		return
	}
	var fc FullStoreCase
	if _, err := vkit.LoadReplay(path, &fc); err == nil && fc.FullStore != "" {
		if f := runFullStoreCase(fc); f != nil {
			vkit.Violation(t, f.key, f.detail, fc)
		}
		return
	}
	t.Skip("not a case of this file")
}
