package c09

import (
	"context"
	"fmt"
	"testing"
	"time"

	"tunnox-core/verif/vkit"
)

type LongWaitCase struct {
	LongWait string `json:"long_wait"` // backend
	Timeout  int    `json:"mapping_timeout_s"`
}

func (lw *longWait) waiting() bool {
	br := lw.srv.SM.GetTunnelBridgeByMappingID(lw.mpID, 0)
	return br != nil && br.GetTunnelID() == lw.tid
}

// resolves reports on how many of the nodes the id resolves.
func (lw *longWait) resolves() int {
	n := 0
	for _, tb := range lw.tables {
		if _, err := tb.LookupWaitingTunnel(context.Background(), lw.tid); err == nil {
			n++
		}
	}
	return n
}

// TestLongWaitVerdict must stay the last test of the package (file name z_*).
func TestLongWaitVerdict(t *testing.T) {
	if len(longWaits) == 0 {
		t.Skip("nothing started in this shard")
	}
	defer func() {
		for _, lw := range longWaits {
			lw.srv.Close()
		}
	}()
	// up to the end of the routing period a waiting source end must be routable from every node
	for _, lw := range longWaits {
		if age := time.Since(lw.t0); !(stopwatch{lw.t0}).suspect(routingPeriod-2*time.Second) && lw.waiting() {
			if n := lw.resolves(); n != len(lw.tables) {
				vkit.Violation(t, "C09/server/waiting-tunnel-not-routable/"+lw.backend+"/during-period",
					fmt.Sprintf("%v into the period the source end of %s waits on node-1 but only %d of %d nodes resolve it", age.Round(time.Millisecond), lw.tid, n, len(lw.tables)),
					LongWaitCase{lw.backend, lw.timeout})
				return
			}
		}
	}
	// look again once the routing period is over
	for _, lw := range longWaits {
		if d := time.Until(lw.t0.Add(routingPeriod + 1500*time.Millisecond)); d > 0 {
			time.Sleep(d)
		}
	}
	for _, lw := range longWaits {
		// the record lapses and the bridge's wait ends at (almost) the same instant; only a source end that keeps
		// waiting while its id has stopped resolving for 3 s on end is reported
		var since time.Time
		verdict := "released"
		for deadline := time.Now().Add(8 * time.Second); time.Now().Before(deadline); time.Sleep(50 * time.Millisecond) {
			w, n := lw.waiting(), lw.resolves()
			if !w {
				if n == 0 {
					break
				}
				verdict = "released-but-resolving"
				since = time.Time{}
				continue
			}
			if n == len(lw.tables) {
				verdict, since = "waiting-and-routable", time.Time{}
				continue
			}
			if since.IsZero() {
				since = time.Now()
			}
			if time.Since(since) > 3*time.Second {
				verdict = "waiting-but-unroutable"
				break
			}
		}
		age := time.Since(lw.t0).Round(100 * time.Millisecond)
		if (stopwatch{lw.t0}).suspect(time.Hour) && verdict != "released" {
			// the wall clock and the monotonic clock disagree (suspended VM, clock step): the record's wall-clock expiry and
			// the bridge's monotonic timer no longer describe the same 30 s
			vkit.Skipped(1)
			continue
		}
		switch verdict {
		case "waiting-but-unroutable":
			vkit.Violation(t, "C09/server/waiting-bridge-outlives-routing-record/"+lw.backend,
				fmt.Sprintf("%v after the open (routing period %v, mapping config.timeout %d s) node-1 still holds the waiting source end of %s, but the id resolves on %d of %d nodes", age, routingPeriod, lw.timeout, lw.tid, lw.resolves(), len(lw.tables)),
				LongWaitCase{lw.backend, lw.timeout})
			return
		case "released-but-resolving":
			vkit.Violation(t, "C09/server/resolves-after-tunnel-end/wait-timeout/"+lw.backend,
				fmt.Sprintf("%v after the open the source end of %s has been released but the id still resolves", age, lw.tid), LongWaitCase{lw.backend, lw.timeout})
			return
		}
		vkit.Case(fmt.Sprintf("server:long-wait/%s/timeout=%ds", lw.backend, lw.timeout), true, fmt.Sprintf("longwait|%s|%d", lw.backend, lw.timeout))
	}
}
