package c09

import "fmt"

func init() { probeDebug = func(b string, err error, id string) { fmt.Printf("PROBE-ERR %s %v id=%q\n", b, err, id) } }
