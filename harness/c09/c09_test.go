// C09 — a waiting tunnel is routable from any node until served or expired.
//
// One generated history (register / lookup / remove / re-register / sleep / node-address ops over a
// small pool of tunnel ids and 2-3 nodes) is executed in lock-step on four backends that all carry
// the routing records of the real tunnel.RoutingTable:
//
//	memory          one memory.Storage shared by every node's RoutingTable
//	hybrid-memory   one hybrid facade over memory (what createMemoryStorage builds)
//	redis           one miniredis server, one redis.Storage client per node
//	hybrid-redis    per node: hybrid(local memory, shared redis client) over one miniredis server
//
// Oracle: a reference model id -> (registered fields, [registration interval], ttl) per backend.
// Every timestamp is measured around the call; a lookup whose measured interval overlaps the
// expiry uncertainty zone is accepted either way and counted as a skipped timing step.
package c09

import (
	"context"
	"encoding/json"
	"fmt"
	"math"
	"strings"
	"sync"
	"testing"
	"time"
	"unicode/utf8"

	"github.com/alicebob/miniredis/v2"
	"pgregory.net/rapid"

	"tunnox-core/internal/core/storage"
	"tunnox-core/internal/core/storage/hybrid"
	"tunnox-core/internal/core/storage/memory"
	redisstore "tunnox-core/internal/core/storage/redis"
	"tunnox-core/internal/protocol/session/tunnel"
	"tunnox-core/verif/vkit"
)

func TestMain(m *testing.M) { vkit.Main(m, "C09") }

// ---------------------------------------------------------------------------
// case description (JSON-serialisable replay unit)

// Str is a string given literally or as N repetitions of Rep (large values stay small in replay files).
type Str struct {
	Lit string `json:"lit,omitempty"`
	Rep string `json:"rep,omitempty"`
	N   int    `json:"n,omitempty"`
}

func (s Str) V() string {
	if s.N > 0 {
		return s.Lit + strings.Repeat(s.Rep, s.N)
	}
	return s.Lit
}

type StateSpec struct {
	Mapping   Str   `json:"mapping"`
	Secret    Str   `json:"secret"`
	SrcNode   Str   `json:"src_node"`
	SrcClient int64 `json:"src_client"`
	TgtClient int64 `json:"tgt_client"`
	Host      Str   `json:"host"`
	Port      int   `json:"port"`
}

type Op struct {
	Kind   string     `json:"kind"` // register lookup remove sleep regaddr getaddr
	Node   int        `json:"node"`
	ID     int        `json:"id,omitempty"`     // index into IDs (tunnel ops) or NodeIDs (address ops)
	State  *StateSpec `json:"state,omitempty"`  // register
	Fault  bool       `json:"fault,omitempty"`  // register: the Redis tier of the registering node refuses this one write (Redis-backed stores only)
	Mutate string     `json:"mutate,omitempty"` // register: "", "fields", "tunnelid": caller mutates its struct afterwards
	Ms     int        `json:"ms,omitempty"`     // sleep
	FF     bool       `json:"ff,omitempty"`     // sleep: also advance the Redis server's clock (false = store-side expiry lags)
	Addr   *Str       `json:"addr,omitempty"`   // regaddr
}

type Case struct {
	TTLms   []int `json:"ttl_ms"` // per node
	IDs     []Str `json:"ids"`
	NodeIDs []Str `json:"node_ids"`
	Ops     []Op  `json:"ops"`
}

// ---------------------------------------------------------------------------
// generators

func validUTF8(s string) string {
	if utf8.ValidString(s) {
		return s
	}
	return strings.ToValidUTF8(s, "�")
}

var bigPatterns = []string{"a", "é\"\\", "\x00z", "隧道", "{\"k\":[1,2]}", "<&> "}

func genStr(t *rapid.T, label string) Str {
	switch rapid.IntRange(0, 11).Draw(t, label+"Class") {
	case 0:
		return Str{}
	case 1, 2:
		return Str{Lit: validUTF8(rapid.StringN(0, 24, 96).Draw(t, label))}
	case 3:
		return Str{Lit: rapid.StringMatching(`[{}\[\]":,\\ntrue0-9 ]{1,24}`).Draw(t, label)}
	case 4:
		return Str{Lit: rapid.SampledFrom([]string{"\x00", "a\x00b", "\x00\x00tail", "x\u0000"}).Draw(t, label)}
	case 5:
		p := rapid.SampledFrom(bigPatterns).Draw(t, label+"Pat")
		n := 65536/len(p) + rapid.IntRange(0, 2).Draw(t, label+"Over")
		return Str{Rep: p, N: n}
	case 6:
		return Str{Lit: rapid.SampledFrom([]string{"隧道-αβγ-😀", "  ", "<script>&amp;</script>", "�", "é", "\U0010FFFF", "null", "\"\"", "{}", "\\u0000", "1e400", "-0"}).Draw(t, label)}
	default:
		return Str{Lit: rapid.StringMatching(`[a-zA-Z0-9_.-]{1,20}`).Draw(t, label)}
	}
}

func genInt64(t *rapid.T, label string) int64 {
	switch rapid.IntRange(0, 5).Draw(t, label+"Class") {
	case 0:
		return rapid.SampledFrom([]int64{0, 1, -1, math.MaxInt64, math.MinInt64, 1 << 53, 1<<53 + 1, -(1<<53 + 1), math.MaxInt64 - 1, 1<<63 - 1025}).Draw(t, label)
	case 1, 2:
		return rapid.Int64().Draw(t, label)
	default:
		return rapid.Int64Range(1, 99999999).Draw(t, label)
	}
}

func genPort(t *rapid.T) int {
	switch rapid.IntRange(0, 3).Draw(t, "portClass") {
	case 0:
		return rapid.SampledFrom([]int{0, -1, 65535, 65536, 70001, math.MaxInt32, math.MinInt32, math.MaxInt64, math.MinInt64, 1<<53 + 1}).Draw(t, "port")
	case 1:
		return rapid.Int().Draw(t, "port")
	default:
		return rapid.IntRange(1, 65535).Draw(t, "port")
	}
}

func genTunnelID(t *rapid.T, i int, prev []Str) Str {
	label := fmt.Sprintf("id%d", i)
	if len(prev) > 0 && rapid.IntRange(0, 2).Draw(t, label+"Related") == 0 {
		base := prev[rapid.IntRange(0, len(prev)-1).Draw(t, label+"Base")]
		if base.N == 0 {
			switch rapid.IntRange(0, 5).Draw(t, label+"Rel") {
			case 0:
				return Str{Lit: base.Lit + ":"}
			case 1:
				return Str{Lit: base.Lit + "*"}
			case 2:
				return Str{Lit: "tunnox:tunnel_waiting:" + base.Lit}
			case 3:
				return Str{Lit: base.Lit + ":addr"}
			case 4:
				return Str{Lit: strings.ToUpper(base.Lit) + " "}
			default:
				return Str{Lit: "*" + base.Lit}
			}
		}
	}
	switch rapid.IntRange(0, 7).Draw(t, label+"Class") {
	case 0:
		return Str{Lit: rapid.SampledFrom([]string{"*", ":", "a:b:c", "tunnox:node:node-1:addr", "tunnox:tunnel_waiting:", "t*", "?[a-z]", "tcp-tunnel-1700000000000000000-7", "server-udp-m1-1700000000000000000", " ", "\x00"}).Draw(t, label)}
	case 1:
		return Str{Lit: validUTF8(rapid.StringN(1, 16, 64).Draw(t, label))}
	case 2:
		return Str{Rep: rapid.SampledFrom([]string{"k", "隧", ":*"}).Draw(t, label+"Pat"), N: rapid.SampledFrom([]int{300, 5000, 70000}).Draw(t, label+"N")}
	default:
		return Str{Lit: rapid.StringMatching(`[a-z0-9:*_-]{1,24}`).Draw(t, label)}
	}
}

func genState(t *rapid.T, node int) *StateSpec {
	s := &StateSpec{Mapping: genStr(t, "mapping"), Secret: genStr(t, "secret"), SrcClient: genInt64(t, "srcClient"),
		TgtClient: genInt64(t, "tgtClient"), Host: genStr(t, "host"), Port: genPort(t)}
	if rapid.IntRange(0, 3).Draw(t, "srcNodeReal") > 0 {
		s.SrcNode = Str{Lit: fmt.Sprintf("node-%d", node+1)}
	} else {
		s.SrcNode = genStr(t, "srcNode")
	}
	return s
}

const (
	shortTTLms   = 150
	longTTLms    = 30000
	sleepPastMs  = 300
	sleepShortMs = 50
)

func genCase(t *rapid.T) Case {
	var c Case
	nn := rapid.IntRange(2, 3).Draw(t, "nodes")
	for i := 0; i < nn; i++ {
		c.TTLms = append(c.TTLms, rapid.SampledFrom([]int{shortTTLms, shortTTLms, longTTLms}).Draw(t, "ttl"))
	}
	nid := rapid.IntRange(2, 4).Draw(t, "nids")
	seen := map[string]bool{}
	for i := 0; i < nid; i++ {
		id := genTunnelID(t, i, c.IDs)
		if id.V() == "" || seen[id.V()] {
			id = Str{Lit: id.Lit + fmt.Sprintf("#%d", i), Rep: id.Rep, N: id.N}
		}
		seen[id.V()] = true
		c.IDs = append(c.IDs, id)
	}
	c.NodeIDs = []Str{{Lit: "node-1"}, {Lit: rapid.SampledFrom([]string{"node-2", "node-1:addr", "节点:二", "n*", "node 3", "tunnox:node:node-1"}).Draw(t, "nodeID")}}
	kinds := []string{"register", "register", "register", "register", "lookup", "lookup", "lookup", "lookup", "lookup",
		"remove", "remove", "sleepPast", "sleepPast", "sleepPast", "sleepShort", "regaddr", "getaddr"}
	n := rapid.IntRange(3, 14).Draw(t, "nops")
	past, short := 0, 0
	// generation-time sketch of the history (which ids were registered, which would lapse on a long sleep):
	// it only steers the draw towards lookups that can resolve or must have lapsed; the oracle never reads it.
	var known []int           // ids registered at least once
	lapsing := map[int]bool{} // ids currently registered through a short-ttl node
	var afterSleep []int
	pickID := func() int {
		if len(afterSleep) > 0 && rapid.IntRange(0, 3).Draw(t, "chase") > 0 {
			return afterSleep[rapid.IntRange(0, len(afterSleep)-1).Draw(t, "lapsed")]
		}
		if len(known) > 0 && rapid.IntRange(0, 3).Draw(t, "preferKnown") > 0 {
			return known[rapid.IntRange(0, len(known)-1).Draw(t, "known")]
		}
		return rapid.IntRange(0, nid-1).Draw(t, "id")
	}
	for i := 0; i < n; i++ {
		k := rapid.SampledFrom(kinds).Draw(t, "kind")
		if len(afterSleep) > 0 && rapid.IntRange(0, 2).Draw(t, "lookAfterSleep") > 0 {
			k = "lookup"
		}
		if k == "sleepPast" && (past >= 2 || len(lapsing) == 0) {
			k = "register"
		}
		if k == "sleepShort" && short >= 3 {
			k = "lookup"
		}
		op := Op{Node: rapid.IntRange(0, nn-1).Draw(t, "node")}
		switch k {
		case "register":
			op.Kind = "register"
			op.ID = pickID()
			op.State = genState(t, op.Node)
			op.Mutate = rapid.SampledFrom([]string{"", "", "", "fields", "tunnelid"}).Draw(t, "mutate")
			op.Fault = rapid.IntRange(0, 7).Draw(t, "fault") == 0
			known = append(known, op.ID)
			if c.TTLms[op.Node] == shortTTLms {
				lapsing[op.ID] = true
			} else {
				delete(lapsing, op.ID)
			}
		case "lookup":
			op.Kind = k
			op.ID = pickID()
		case "remove":
			op.Kind = k
			op.ID = pickID()
			delete(lapsing, op.ID)
		case "sleepPast":
			past++
			op.Kind, op.Ms, op.FF = "sleep", sleepPastMs, rapid.Bool().Draw(t, "ff")
			afterSleep = afterSleep[:0]
			for id := 0; id < nid; id++ {
				if lapsing[id] {
					afterSleep = append(afterSleep, id)
				}
			}
			lapsing = map[int]bool{}
		case "sleepShort":
			short++
			op.Kind, op.Ms, op.FF = "sleep", sleepShortMs, rapid.Bool().Draw(t, "ff")
		case "regaddr":
			op.Kind = "regaddr"
			op.ID = rapid.IntRange(0, len(c.NodeIDs)-1).Draw(t, "nid")
			a := genAddr(t)
			op.Addr = &a
		case "getaddr":
			op.Kind = "getaddr"
			op.ID = rapid.IntRange(0, len(c.NodeIDs)-1).Draw(t, "nid")
		}
		c.Ops = append(c.Ops, op)
	}
	return c
}

func genAddr(t *rapid.T) Str {
	switch rapid.IntRange(0, 3).Draw(t, "addrClass") {
	case 0:
		return Str{Lit: rapid.SampledFrom([]string{"10.0.0.7:50052", "[2001:db8::1]:50052", "tunnox-0.tunnox.svc.cluster.local:50052", "\"10.0.0.7:50052\"", "{\"addr\":\"x\"}", "12345", "true", "null", " 10.0.0.7:1 ", "主机:50052", "a\x00b:1"}).Draw(t, "addr")}
	case 1:
		return genStr(t, "addr")
	default:
		return Str{Lit: fmt.Sprintf("10.%d.%d.%d:%d", rapid.IntRange(0, 255).Draw(t, "a"), rapid.IntRange(0, 255).Draw(t, "b"), rapid.IntRange(0, 255).Draw(t, "c"), rapid.IntRange(1, 65535).Draw(t, "p"))}
	}
}

// ---------------------------------------------------------------------------
// backends

type noCloseRedis struct{ *redisstore.Storage }

func (noCloseRedis) Close() error { return nil }

// faultyRedis is one node's Redis storage whose next write of a routing record can be refused once
// (a Redis hiccup that hits exactly one node's registration).
type faultyRedis struct {
	*redisstore.Storage
	arm *faultArm
}

type faultArm struct {
	mu    sync.Mutex
	armed bool
	hits  int
}

func (a *faultArm) set() { a.mu.Lock(); a.armed = true; a.mu.Unlock() }

func (a *faultArm) take() int {
	a.mu.Lock()
	defer a.mu.Unlock()
	n := a.hits
	a.hits, a.armed = 0, false
	return n
}

func (f faultyRedis) Close() error { return nil }

func (f faultyRedis) Set(key string, value any, ttl time.Duration) error {
	f.arm.mu.Lock()
	hit := f.arm.armed && strings.HasPrefix(key, "tunnox:tunnel_waiting:")
	if hit {
		f.arm.armed = false
		f.arm.hits++
	}
	f.arm.mu.Unlock()
	if hit {
		return fmt.Errorf("injected: redis unavailable")
	}
	return f.Storage.Set(key, value, ttl)
}

type redisEnv struct {
	mr      *miniredis.Miniredis
	clients []*redisstore.Storage
}

var (
	envOnce sync.Once
	envErr  error
	redisA  *redisEnv // plain redis backend
	redisB  *redisEnv // shared tier of hybrid-redis
)

const maxNodes = 3

func newRedisEnv() (*redisEnv, error) {
	mr, err := miniredis.Run()
	if err != nil {
		return nil, err
	}
	e := &redisEnv{mr: mr}
	for i := 0; i < maxNodes; i++ {
		c, err := redisstore.New(context.Background(), &redisstore.Config{Addr: mr.Addr(), PoolSize: 2})
		if err != nil {
			return nil, err
		}
		e.clients = append(e.clients, c)
	}
	return e, nil
}

func setupEnv() error {
	envOnce.Do(func() {
		if redisA, envErr = newRedisEnv(); envErr != nil {
			return
		}
		redisB, envErr = newRedisEnv()
	})
	return envErr
}

type entry struct {
	spec   StateSpec
	regLo  time.Time
	regHi  time.Time
	ttl    time.Duration
	caller *tunnel.WaitingState // struct handed to Register (kept to be able to restore it)
}

type backend struct {
	arms   []*faultArm // per node; Redis-backed stores only
	name   string
	tables []*tunnel.RoutingTable
	mr     *miniredis.Miniredis
	model  map[string]*entry
	gone   map[string]string // id -> why the model no longer holds it
	addrs  map[string]string
}

var backendNames = []string{"memory", "hybrid-memory", "redis", "hybrid-redis"}

func buildBackends(ttls []int) []*backend {
	ctx := context.Background()
	mk := func(name string, mr *miniredis.Miniredis, stores func(i int) storage.Storage) *backend {
		b := &backend{name: name, mr: mr, model: map[string]*entry{}, gone: map[string]string{}, addrs: map[string]string{}}
		for i, ms := range ttls {
			b.tables = append(b.tables, tunnel.NewRoutingTable(stores(i), time.Duration(ms)*time.Millisecond))
		}
		return b
	}
	mem := memory.New(ctx)
	hm := hybrid.New(ctx, memory.New(ctx), nil, hybrid.DefaultConfig())
	redisA.mr.FlushAll()
	redisB.mr.FlushAll()
	newArms := func() []*faultArm {
		a := make([]*faultArm, maxNodes)
		for i := range a {
			a[i] = &faultArm{}
		}
		return a
	}
	armsA, armsB := newArms(), newArms()
	out := []*backend{
		mk("memory", nil, func(int) storage.Storage { return mem }),
		mk("hybrid-memory", nil, func(int) storage.Storage { return hm }),
		mk("redis", redisA.mr, func(i int) storage.Storage { return faultyRedis{redisA.clients[i], armsA[i]} }),
		mk("hybrid-redis", redisB.mr, func(i int) storage.Storage {
			return hybrid.NewWithSharedCache(ctx, memory.New(ctx), faultyRedis{redisB.clients[i], armsB[i]}, nil, hybrid.DefaultConfig())
		}),
	}
	out[2].arms, out[3].arms = armsA, armsB
	return out
}

// ---------------------------------------------------------------------------
// execution + oracle

type failure struct{ key, detail string }

const guard = 25 * time.Millisecond // tolerated wall-clock adjustment between a registration and a lookup

func strClass(s string) string {
	switch {
	case s == "":
		return "empty"
	case len(s) >= 65536:
		return "large"
	case strings.ContainsRune(s, 0):
		return "nul"
	case strings.ContainsAny(s, "{}[]\":\\<>&  "):
		return "metachar"
	}
	for i := 0; i < len(s); i++ {
		if s[i] >= 0x80 {
			return "unicode"
		}
	}
	return "ascii"
}

func intClass(v int64) string {
	switch {
	case v > 1<<53 || v < -(1<<53):
		return ">2^53"
	case v < 0:
		return "negative"
	case v == 0:
		return "zero"
	}
	return "small"
}

func short(s string) string {
	if len(s) > 48 {
		return fmt.Sprintf("%q…(%d bytes)", s[:48], len(s))
	}
	return fmt.Sprintf("%q", s)
}

func (sp *StateSpec) build(id string) *tunnel.WaitingState {
	return &tunnel.WaitingState{TunnelID: id, MappingID: sp.Mapping.V(), SecretKey: sp.Secret.V(), SourceNodeID: sp.SrcNode.V(),
		SourceClientID: sp.SrcClient, TargetClientID: sp.TgtClient, TargetHost: sp.Host.V(), TargetPort: sp.Port,
		// values a caller might leave in the struct: Register must overwrite them
		CreatedAt: time.Unix(1, 0), ExpiresAt: time.Unix(2, 0)}
}

// compare returns "" or (field, class, detail) of the first payload field that differs.
func compare(id string, want *StateSpec, got *tunnel.WaitingState) (field, class, detail string) {
	type f struct {
		name string
		w, g string
	}
	for _, x := range []f{{"tunnel_id", id, got.TunnelID}, {"mapping_id", want.Mapping.V(), got.MappingID}, {"secret_key", want.Secret.V(), got.SecretKey},
		{"source_node_id", want.SrcNode.V(), got.SourceNodeID}, {"target_host", want.Host.V(), got.TargetHost}} {
		if x.w != x.g {
			return x.name, strClass(x.w), fmt.Sprintf("want %s got %s", short(x.w), short(x.g))
		}
	}
	if want.SrcClient != got.SourceClientID {
		return "source_client_id", intClass(want.SrcClient), fmt.Sprintf("want %d got %d", want.SrcClient, got.SourceClientID)
	}
	if want.TgtClient != got.TargetClientID {
		return "target_client_id", intClass(want.TgtClient), fmt.Sprintf("want %d got %d", want.TgtClient, got.TargetClientID)
	}
	if want.Port != got.TargetPort {
		return "target_port", intClass(int64(want.Port)), fmt.Sprintf("want %d got %d", want.Port, got.TargetPort)
	}
	return "", "", ""
}

func isGoneErr(err error) bool { return err == tunnel.ErrNotFound || err == tunnel.ErrExpired }

func errShape(err error) string {
	s := err.Error()
	switch {
	case strings.Contains(s, "unexpected value type"):
		return "unexpected-value-type"
	case strings.Contains(s, "unmarshal"):
		return "decode-failed"
	case strings.Contains(s, "marshal"):
		return "encode-failed"
	case strings.Contains(s, "tunnel_id is required"):
		return "id-rejected"
	}
	return "storage-error"
}

type stats struct {
	faulted                                                                       int
	reReg, expiryLookup, removeLookup, lagging, crossNode, found, gone, ambiguous int
	aliased, copied                                                               map[string]bool
}

// lookup performs one LookupWaitingTunnel on b from node and checks it against b's model.
// verdict: "found", "gone" or "ambiguous".
func (b *backend) lookup(node int, id string, st *stats) (verdict string, f *failure) {
	ctx := context.Background()
	lb := time.Now()
	got, err := b.tables[node].LookupWaitingTunnel(ctx, id)
	la := time.Now()
	e := b.model[id]
	if err != nil && !isGoneErr(err) {
		return "", &failure{fmt.Sprintf("C09/lookup-error/%s/%s", b.name, errShape(err)), fmt.Sprintf("lookup(%s) on node %d: %v", short(id), node, err)}
	}
	if err == nil && got == nil {
		return "", &failure{"C09/lookup-nil-without-error/" + b.name, fmt.Sprintf("lookup(%s)", short(id))}
	}
	if e == nil {
		if err == nil {
			why := b.gone[id]
			if why == "" {
				why = "never-registered"
			}
			return "", &failure{fmt.Sprintf("C09/resolves-after-%s/%s", why, b.name),
				fmt.Sprintf("lookup(%s) on node %d resolved to node %s although the id is %s", short(id), node, short(got.SourceNodeID), why)}
		}
		return "gone", nil
	}
	expLo, expHi := e.regLo.Add(e.ttl), e.regHi.Add(e.ttl)
	mustLive := beforeBoth(la, expLo.Add(-guard))
	mustGone := afterBoth(lb, expHi.Add(guard))
	if err != nil {
		if mustLive {
			kind := "not-found"
			if err == tunnel.ErrExpired {
				kind = "expired"
			}
			return "", &failure{fmt.Sprintf("C09/live-tunnel-not-resolved/%s/%s", b.name, kind),
				fmt.Sprintf("lookup(%s) on node %d %v after registration (ttl %v): %v", short(id), node, la.Sub(e.regLo), e.ttl, err)}
		}
		if !mustGone {
			vkit.Skipped(1)
			st.ambiguous++
			verdict = "ambiguous"
		} else {
			verdict = "gone"
		}
		delete(b.model, id)
		b.gone[id] = "expiry"
		return verdict, nil
	}
	// resolved
	if mustGone {
		return "", &failure{"C09/resolves-after-expiry/" + b.name,
			fmt.Sprintf("lookup(%s) on node %d resolved %v after registration, ttl %v (store-side expiry %s)", short(id), node, lb.Sub(e.regHi), e.ttl, b.expiryMode())}
	}
	if field, class, detail := compare(id, &e.spec, got); field != "" {
		return "", &failure{fmt.Sprintf("C09/field-mismatch/%s/%s/%s", b.name, field, class), fmt.Sprintf("lookup(%s) on node %d: %s: %s", short(id), node, field, detail)}
	}
	if got.CreatedAt.Before(e.regLo.Add(-guard)) || got.CreatedAt.After(e.regHi.Add(guard)) {
		return "", &failure{"C09/field-mismatch/" + b.name + "/created_at", fmt.Sprintf("created_at %v outside registration interval [%v,%v]", got.CreatedAt, e.regLo, e.regHi)}
	}
	if !got.ExpiresAt.Equal(got.CreatedAt.Add(e.ttl)) {
		return "", &failure{"C09/field-mismatch/" + b.name + "/expires_at", fmt.Sprintf("expires_at %v != created_at %v + ttl %v", got.ExpiresAt, got.CreatedAt, e.ttl)}
	}
	if !mustLive {
		vkit.Skipped(1)
		st.ambiguous++
		return "ambiguous", nil
	}
	return "found", nil
}

func (b *backend) expiryMode() string {
	if b.mr != nil {
		return "driven by FastForward"
	}
	return "wall clock"
}

func runCase(c Case) (*failure, *stats) {
	st := &stats{aliased: map[string]bool{}, copied: map[string]bool{}}
	if err := setupEnv(); err != nil {
		panic("C09 harness: cannot start miniredis: " + err.Error())
	}
	bs := buildBackends(c.TTLms)
	ctx := context.Background()
	expired := false
	removed := false
	for oi, op := range c.Ops {
		switch op.Kind {
		case "register":
			id := c.IDs[op.ID].V()
			for _, b := range bs {
				if b.model[id] != nil {
					st.reReg++
				}
				ws := op.State.build(id)
				if op.Fault && b.arms != nil {
					b.arms[op.Node].set()
				}
				tb := time.Now()
				err := b.tables[op.Node].RegisterWaitingTunnel(ctx, ws)
				ta := time.Now()
				if b.arms != nil && b.arms[op.Node].take() > 0 {
					st.faulted++
					if err != nil {
						continue // the registration reported its failure: nothing was registered, whatever the id held before stays
					}
					// reported success although the store refused the write: judged like any other registration below
				}
				if err != nil {
					return &failure{fmt.Sprintf("C09/register-error/%s/%s", b.name, errShape(err)), fmt.Sprintf("op %d register(%s): %v", oi, short(id), err)}, st
				}
				ttl := time.Duration(c.TTLms[op.Node]) * time.Millisecond
				b.model[id] = &entry{spec: *op.State, regLo: tb, regHi: ta, ttl: ttl, caller: ws}
				delete(b.gone, id)
				if op.Mutate != "" {
					// The caller changes its own struct after Register returned. The only production caller
					// (startSourceBridge) never does; the observation is recorded, not judged (see check.json).
					orig := *ws
					switch op.Mutate {
					case "fields":
						ws.MappingID += "-mutated"
						ws.SourceNodeID = "node-mutated"
						ws.SourceClientID ^= 0x55
						ws.TargetPort++
					case "tunnelid":
						ws.TunnelID += "-mutated"
					}
					peer := (op.Node + 1) % len(b.tables)
					got, lerr := b.tables[peer].LookupWaitingTunnel(ctx, id)
					if lerr == nil && got != nil {
						if f, _, _ := compare(id, op.State, got); f == "" {
							st.copied[b.name] = true
						} else {
							st.aliased[b.name] = true
						}
					}
					*ws = orig
				}
			}
		case "lookup":
			id := c.IDs[op.ID].V()
			verdicts := make([]string, len(bs))
			for i, b := range bs {
				e := b.model[id]
				why := b.gone[id]
				v, f := b.lookup(op.Node, id, st)
				if f != nil {
					f.detail = fmt.Sprintf("op %d: ", oi) + f.detail
					return f, st
				}
				verdicts[i] = v
				if i == 0 {
					switch v {
					case "found":
						st.found++
						if e != nil && e.spec.SrcNode.V() != fmt.Sprintf("node-%d", op.Node+1) {
							st.crossNode++
						}
					case "gone":
						st.gone++
						if e != nil || why == "expiry" {
							st.expiryLookup++
							expired = true
						}
						if why == "remove" {
							st.removeLookup++
							removed = true
						}
					}
				}
			}
			// Every backend is judged against the same model function of (history, measured time); a direct
			// comparison of the verdicts would be unsound because the backends are visited at different instants.
			_ = verdicts
		case "remove":
			id := c.IDs[op.ID].V()
			for _, b := range bs {
				if err := b.tables[op.Node].RemoveWaitingTunnel(ctx, id); err != nil {
					return &failure{"C09/remove-error/" + b.name, fmt.Sprintf("op %d remove(%s): %v", oi, short(id), err)}, st
				}
				if b.model[id] != nil || b.gone[id] != "" {
					b.gone[id] = "remove"
				}
				delete(b.model, id)
			}
		case "sleep":
			d := time.Duration(op.Ms) * time.Millisecond
			time.Sleep(d)
			if op.FF {
				for _, b := range bs {
					if b.mr != nil {
						b.mr.FastForward(d)
					}
				}
			} else if op.Ms >= sleepPastMs {
				st.lagging++
			}
		case "regaddr":
			nid := c.NodeIDs[op.ID].V()
			addr := op.Addr.V()
			for _, b := range bs {
				if err := b.tables[op.Node].RegisterNodeAddress(nid, addr); err != nil {
					return &failure{"C09/node-address/register-error/" + b.name, fmt.Sprintf("op %d RegisterNodeAddress(%s,%s): %v", oi, short(nid), short(addr), err)}, st
				}
				b.addrs[nid] = addr
			}
		case "getaddr":
			nid := c.NodeIDs[op.ID].V()
			for _, b := range bs {
				got, err := b.tables[op.Node].GetNodeAddress(nid)
				want, have := b.addrs[nid]
				switch {
				case !have || want == "":
					// never registered (or registered as the empty string, which is no address): must not produce an address
					if err == nil && got != "" {
						return &failure{"C09/node-address/unregistered-resolves/" + b.name, fmt.Sprintf("op %d GetNodeAddress(%s) = %s", oi, short(nid), short(got))}, st
					}
				case err != nil:
					return &failure{fmt.Sprintf("C09/node-address/lookup-error/%s/%s", b.name, strClass(want)), fmt.Sprintf("op %d GetNodeAddress(%s) registered as %s: %v", oi, short(nid), short(want), err)}, st
				case got != want:
					return &failure{fmt.Sprintf("C09/node-address/mismatch/%s/%s", b.name, strClass(want)), fmt.Sprintf("op %d GetNodeAddress(%s): want %s got %s", oi, short(nid), short(want), short(got))}, st
				}
			}
		}
	}
	_ = expired
	_ = removed
	return nil, st
}

// ---------------------------------------------------------------------------
// evidence

func caseSig(c Case) string {
	var sb strings.Builder
	fmt.Fprint(&sb, c.TTLms, "|")
	for _, id := range c.IDs {
		sb.WriteString(strClass(id.V()) + ",")
	}
	for _, op := range c.Ops {
		fmt.Fprintf(&sb, "|%s%d.%d", op.Kind[:3], op.Node, op.ID)
		if op.State != nil {
			s := op.State
			fmt.Fprintf(&sb, "(%s,%s,%s,%s,%s,%s,%s)%s", strClass(s.Mapping.V()), strClass(s.Secret.V()), strClass(s.SrcNode.V()), strClass(s.Host.V()),
				intClass(s.SrcClient), intClass(s.TgtClient), intClass(int64(s.Port)), op.Mutate)
		}
		if op.Kind == "sleep" {
			fmt.Fprintf(&sb, "%d%v", op.Ms, op.FF)
		}
	}
	return sb.String()
}

func summarize(c Case) any {
	b, _ := json.Marshal(c)
	if len(b) > 1500 {
		return map[string]any{"ttl_ms": c.TTLms, "n_ids": len(c.IDs), "n_ops": len(c.Ops), "truncated_json": string(b[:1500])}
	}
	return c
}

func check(t vkit.TB, c Case) {
	f, st := runCase(c)
	if f != nil {
		vkit.Violation(t, f.key, f.detail, c)
		vkit.Case("known:"+f.key, false, "")
		return
	}
	special := false
	for _, op := range c.Ops {
		if op.State == nil {
			continue
		}
		s := op.State
		for _, v := range []string{s.Mapping.V(), s.Secret.V(), s.SrcNode.V(), s.Host.V(), c.IDs[op.ID].V()} {
			switch strClass(v) {
			case "large":
				vkit.Class("feat:field>=64KiB")
				special = true
			case "unicode":
				vkit.Class("feat:non-ascii-field")
				special = true
			case "nul":
				vkit.Class("feat:NUL-in-field")
				special = true
			case "metachar":
				vkit.Class("feat:json-metachar-field")
			case "empty":
				vkit.Class("feat:empty-field")
			}
		}
		if intClass(s.SrcClient) == ">2^53" || intClass(s.TgtClient) == ">2^53" {
			vkit.Class("feat:client-id-beyond-2^53")
			special = true
		}
		if s.Port > 65535 || s.Port < 0 {
			vkit.Class("feat:port-outside-uint16")
		}
		if strings.ContainsAny(c.IDs[op.ID].V(), ":*") {
			vkit.Class("feat:tunnel-id-with-colon-or-star")
		}
	}
	class := "register+lookup"
	switch {
	case st.expiryLookup > 0 && st.reReg > 0:
		class = "expiry+re-register"
	case st.expiryLookup > 0:
		class = "expiry-then-lookup"
	case st.reReg > 0:
		class = "re-register"
	case st.removeLookup > 0:
		class = "remove-then-lookup"
	case st.found == 0:
		class = "no-live-lookup"
	}
	nt := st.found+st.gone > 0 && (st.reReg > 0 || st.expiryLookup > 0 || special)
	vkit.Case(class, nt, caseSig(c))
	vkit.Sample(class, summarize(c))
	if st.faulted > 0 {
		vkit.Class("feat:registration-write-refused-by-redis")
	}
	if st.crossNode > 0 {
		vkit.Class("feat:lookup-from-other-node-resolved")
	}
	if st.removeLookup > 0 {
		vkit.Class("feat:lookup-after-remove")
	}
	if st.expiryLookup > 0 {
		vkit.Class("feat:lookup-after-expiry")
	}
	if st.lagging > 0 && st.expiryLookup > 0 {
		vkit.Class("feat:expiry-with-lagging-store-ttl")
	}
	vkit.AddExtra("lookups_resolved", int64(st.found))
	vkit.AddExtra("lookups_gone", int64(st.gone))
	vkit.AddExtra("lookups_in_boundary_zone", int64(st.ambiguous))
	for n := range st.aliased {
		vkit.Class("obs:backend-aliases-callers-struct/" + n)
	}
	for n := range st.copied {
		vkit.Class("obs:backend-copies-callers-struct/" + n)
	}
}

// TestRouting is the generated search.
func TestRouting(t *testing.T) {
	vkit.Check(t, 2400, 36000, func(t *rapid.T) {
		check(t, genCase(t))
	})
}

// TestFieldMatrix registers one record per (field, value class) on every backend and reads it back
// from another node: a deterministic floor under the random search.
func TestFieldMatrix(t *testing.T) {
	if vkit.Shard() != 0 {
		t.Skip("single shard")
	}
	vals := []Str{{}, {Lit: "plain"}, {Lit: "隧道😀"}, {Lit: "a\x00b"}, {Lit: "{\"x\":[1,\"\\\\\"]}"}, {Rep: "é\"\\", N: 65536/4 + 1}, {Lit: "<&> "}}
	ints := []int64{0, -1, 1<<53 + 1, math.MaxInt64, math.MinInt64}
	i := 0
	for _, v := range vals {
		for _, n := range ints {
			i++
			sp := &StateSpec{Mapping: v, Secret: v, SrcNode: v, Host: v, SrcClient: n, TgtClient: -n, Port: int(n)}
			c := Case{TTLms: []int{longTTLms, shortTTLms}, IDs: []Str{{Lit: fmt.Sprintf("m:%d*", i)}, {Lit: fmt.Sprintf("m:%d", i)}}, NodeIDs: []Str{{Lit: "node-1"}},
				Ops: []Op{{Kind: "register", Node: 0, ID: 0, State: sp}, {Kind: "lookup", Node: 1, ID: 0}, {Kind: "lookup", Node: 1, ID: 1},
					{Kind: "remove", Node: 1, ID: 0}, {Kind: "lookup", Node: 0, ID: 0}}}
			check(t, c)
		}
	}
}

// TestReplay re-executes a saved JSON case (VERIF_REPLAY=path).
func TestReplay(t *testing.T) {
	path := vkit.Replaying()
	if path == "" {
		t.Skip("no VERIF_REPLAY")
	}
	var c Case
	if _, err := vkit.LoadReplay(path, &c); err != nil {
		t.Fatalf("bad replay file: %v", err)
	}
	check(t, c)
}
