package c03

import (
	"fmt"
	"net"
	"testing"
	"time"

	"pgregory.net/rapid"

	"tunnox-core/internal/packet"
	"tunnox-core/internal/security"
	"tunnox-core/verif/vkit"
	"tunnox-core/verif/vkit/miniserver"
)

// ---------------------------------------------------------------------------
// TestAddressForms — "a banned or blacklisted address is never authenticated", over the forms a
// peer address takes on real sockets. The handshake handler derives the address it asks the
// blacklist and the ban table about from the connection's net.Addr: a *net.TCPAddr (TCP, WebSocket),
// a *net.UDPAddr (KCP, QUIC), IPv4, IPv4-in-IPv6, global IPv6 and link-local IPv6 carrying a zone
// ("fe80::1%eth0"). The administrator's entry is the plain address (AddToBlacklist accepts only a
// valid IP or CIDR; bans are keyed by the address string the handler itself derives), exact or as a
// covering network. Whatever the form, a locked address gets neither an identity nor a challenge.

type AddrCase struct {
	AddrForm string `json:"addr_form"`
	Lock     string `json:"lock"`    // none | blacklist-exact | blacklist-cidr | ban
	Attempt  string `json:"attempt"` // first | login
	LockAt   string `json:"lock_at"` // before | between (after the challenge was issued, login only)
}

type addrForm struct {
	name  string
	addr  net.Addr
	ip    string // what an administrator enters for this peer
	cidr  string // a covering network
	other string // an address in another network, as a control entry
}

var addrForms = []addrForm{
	{"tcp4", &net.TCPAddr{IP: net.IPv4(9, 9, 9, 1), Port: 40001}, "9.9.9.1", "9.9.9.0/24", "9.9.8.1"},
	{"tcp4-as-16-bytes", &net.TCPAddr{IP: net.ParseIP("::ffff:9.9.9.1"), Port: 40001}, "9.9.9.1", "9.9.0.0/16", "9.8.9.1"},
	{"udp4", &net.UDPAddr{IP: net.IPv4(9, 9, 9, 1).To4(), Port: 40001}, "9.9.9.1", "9.9.9.1/32", "9.9.9.2"},
	{"tcp6", &net.TCPAddr{IP: net.ParseIP("2001:db8::1"), Port: 40001}, "2001:db8::1", "2001:db8::/32", "2001:db9::1"},
	{"udp6", &net.UDPAddr{IP: net.ParseIP("2001:db8::1"), Port: 40001}, "2001:db8::1", "2001:db8::/64", "2001:db8:0:1::1"},
	{"tcp6-link-local-zone", &net.TCPAddr{IP: net.ParseIP("fe80::1"), Port: 40001, Zone: "eth0"}, "fe80::1", "fe80::/10", "fe81::1"},
	{"udp6-link-local-zone", &net.UDPAddr{IP: net.ParseIP("fe80::abcd"), Port: 40001, Zone: "2"}, "fe80::abcd", "fe80::/64", "fe80:0:0:1::1"},
	{"tcp6-loopback", &net.TCPAddr{IP: net.IPv6loopback, Port: 40001}, "::1", "::1/128", "::2"},
}

func runAddr(c AddrCase) (key, detail string, admitted bool, err error) {
	var f *addrForm
	for i := range addrForms {
		if addrForms[i].name == c.AddrForm {
			f = &addrForms[i]
		}
	}
	if f == nil {
		return "", "", false, fmt.Errorf("unknown address form %q", c.AddrForm)
	}
	srv, err := miniserver.New(miniserver.Options{
		BruteForce: &security.BruteForceConfig{MaxFailures: 100000, TimeWindow: time.Hour, BanDuration: time.Hour, PermanentBanAt: 1000000, CleanupInterval: time.Hour},
		IPRate:     &security.RateLimitConfig{Rate: 100000, Burst: 100000, TTL: time.Hour},
	})
	if err != nil {
		return "", "", false, err
	}
	defer srv.Close()
	cred, err := srv.Cloud.GenerateAnonymousCredentials()
	if err != nil {
		return "", "", false, err
	}
	lock := func() error {
		// an entry for an unrelated address is always present: it must neither lock nor unlock this peer
		if err := srv.IPM.AddToBlacklist(f.other, time.Hour, "verif-other", "verif"); err != nil {
			return err
		}
		switch c.Lock {
		case "blacklist-exact":
			return srv.IPM.AddToBlacklist(f.ip, time.Hour, "verif", "verif")
		case "blacklist-cidr":
			return srv.IPM.AddToBlacklist(f.cidr, time.Hour, "verif", "verif")
		case "ban":
			srv.Brute.BanIP(f.ip, time.Hour, "verif")
		}
		return nil
	}
	locked := c.Lock != "none"
	if c.LockAt != "between" || c.Attempt != "login" {
		if err := lock(); err != nil {
			return "", "", false, err
		}
	}
	cl, err := srv.ConnectFrom(f.addr.String(), f.addr)
	if err != nil {
		return "", "", false, err
	}
	defer cl.CloseByPeer()
	state := func() string {
		cc := srv.SM.GetControlConnection(cl.ConnID)
		if cc == nil {
			return "no connection object"
		}
		return fmt.Sprintf("authenticated=%v client=%d", cc.IsAuthenticated(), cc.GetClientID())
	}
	authed := func() bool {
		cc := srv.SM.GetControlConnection(cl.ConnID)
		return cc != nil && cc.IsAuthenticated()
	}
	what := fmt.Sprintf("peer %T %s, entry %s", f.addr, f.addr.String(), c.Lock)
	switch c.Attempt {
	case "first":
		r, herr, rerr := cl.Handshake(&packet.HandshakeRequest{ClientID: 0, Token: "new-client", Version: "2.0", Protocol: "tcp", ConnectionType: "control"})
		if rerr != nil {
			return "", "", false, fmt.Errorf("no handshake response: %v (dispatcher: %v)", rerr, herr)
		}
		if locked && (r.Success || authed()) {
			return "C03/authenticated-without-proof/first/banned-or-blacklisted-address/form=" + c.AddrForm + "/" + c.Lock,
				fmt.Sprintf("%s: first-connect got %+v; connection: %s", what, r, state()), true, nil
		}
		return "", "", r.Success, nil
	default:
		r1, herr, rerr := cl.Handshake(&packet.HandshakeRequest{ClientID: cred.ID, Version: "2.0", Protocol: "tcp", ConnectionType: "control"})
		if rerr != nil {
			return "", "", false, fmt.Errorf("no handshake response: %v (dispatcher: %v)", rerr, herr)
		}
		if c.LockAt == "between" {
			if err := lock(); err != nil {
				return "", "", false, err
			}
		} else if locked && r1.NeedResponse && r1.Challenge != "" {
			return "C03/challenge-issued-to-ineligible/banned-or-blacklisted-address/form=" + c.AddrForm + "/" + c.Lock,
				fmt.Sprintf("%s: phase 1 got a challenge: %+v", what, r1), true, nil
		}
		if !r1.NeedResponse || r1.Challenge == "" {
			if locked && (r1.Success || authed()) {
				return "C03/authenticated-without-proof/phase1/banned-or-blacklisted-address/form=" + c.AddrForm + "/" + c.Lock,
					fmt.Sprintf("%s: phase 1 got %+v; connection: %s", what, r1, state()), true, nil
			}
			return "", "", false, nil
		}
		r2, herr, rerr := cl.Handshake(&packet.HandshakeRequest{ClientID: cred.ID, Version: "2.0", Protocol: "tcp", ConnectionType: "control",
			ChallengeResponse: miniserver.ComputeResponse(cred.SecretKeyPlaintext, r1.Challenge)})
		if rerr != nil {
			return "", "", false, fmt.Errorf("no handshake response: %v (dispatcher: %v)", rerr, herr)
		}
		if locked && (r2.Success || authed()) {
			return "C03/authenticated-without-proof/phase2/banned-or-blacklisted-address/form=" + c.AddrForm + "/" + c.Lock,
				fmt.Sprintf("%s (entry made %s the challenge): valid response got %+v; connection: %s", what, c.LockAt, r2, state()), true, nil
		}
		return "", "", r2.Success, nil
	}
}

func checkAddr(t vkit.TB, c AddrCase) {
	key, detail, admitted, err := runAddr(c)
	if err != nil {
		vkit.Violation(t, "C03/harness/address-forms", err.Error(), c)
		return
	}
	if key != "" {
		vkit.Violation(t, key, detail, c)
		vkit.Case("known", false, "")
		return
	}
	if c.Lock == "none" && !admitted {
		vkit.Class("completeness-miss:address-form/" + c.AddrForm) // recorded, not asserted
	}
	vkit.Class("addr-form:" + c.AddrForm)
	vkit.Class("addr-lock:" + c.Lock + "/" + c.Attempt + "/" + c.LockAt)
	vkit.Case("address-form", c.Lock != "none", fmt.Sprintf("%s|%s|%s|%s", c.AddrForm, c.Lock, c.Attempt, c.LockAt))
}

func TestAddressForms(t *testing.T) {
	// the whole product space is small: enumerated in both tiers, then drawn at random as well so
	// that a replay file is a generated case like any other
	n := 0
	for _, f := range addrForms {
		for _, lock := range []string{"none", "blacklist-exact", "blacklist-cidr", "ban"} {
			for _, att := range []string{"first", "login"} {
				for _, at := range []string{"before", "between"} {
					if at == "between" && att != "login" {
						continue
					}
					n++
					if !vkit.Mine(n) {
						continue
					}
					checkAddr(t, AddrCase{AddrForm: f.name, Lock: lock, Attempt: att, LockAt: at})
				}
			}
		}
	}
	vkit.Exhaustive("address forms x lock kinds x attempt x lock time", true)
	vkit.Check(t, 60, 600, func(t *rapid.T) {
		c := AddrCase{
			AddrForm: addrForms[rapid.IntRange(0, len(addrForms)-1).Draw(t, "form")].name,
			Lock:     rapid.SampledFrom([]string{"none", "blacklist-exact", "blacklist-cidr", "ban"}).Draw(t, "lock"),
			Attempt:  rapid.SampledFrom([]string{"first", "login"}).Draw(t, "attempt"),
			LockAt:   rapid.SampledFrom([]string{"before", "between"}).Draw(t, "at"),
		}
		checkAddr(t, c)
	})
}
