// C03 — only a proven key holder is ever authenticated as a client.
package c03

import (
	"encoding/json"
	"fmt"
	"strings"
	"testing"
	"time"

	"pgregory.net/rapid"

	"tunnox-core/internal/cloud/repos"
	"tunnox-core/internal/packet"
	"tunnox-core/internal/security"
	"tunnox-core/verif/vkit"
	"tunnox-core/verif/vkit/miniserver"
)

func TestMain(m *testing.M) { vkit.Main(m, "C03") }

// ---------------------------------------------------------------------------
// case = a list of actions (JSON-serialisable; challenges are regenerated on replay,
// the response *kind* is what is recorded)

type Action struct {
	Kind   string `json:"kind"` // first | phase1 | phase2 | malformed | ban | blacklist | expire
	Conn   int    `json:"conn"`
	Client string `json:"client,omitempty"` // A B E U
	Token  string `json:"token,omitempty"`
	Resp   string `json:"resp,omitempty"` // valid | stale | foreign | othersecret | replay | garbage | validhex-wrong
	Type   string `json:"type,omitempty"` // "", control, tunnel
	IP     int    `json:"ip,omitempty"`
}

type Case struct {
	Actions []Action `json:"actions"`
}

const nConns = 3

var connIPs = []string{"9.9.9.1", "9.9.9.1", "9.9.9.2"}
var ips = []string{"9.9.9.1", "9.9.9.2"}

type connModel struct {
	chal      string         // latest unconsumed challenge issued on this connection
	oldChals  []string       // replaced or consumed challenges
	authed    int64          // 0 = not authenticated
	ctrlFor   map[int64]bool // identities this connection ever earned (proof or fresh issuance)
	accepted  []string       // responses that were accepted (for replay)
	acceptedC []string       // their clients
}

type world struct {
	srv        *miniserver.Server
	cl         [nConns]*miniserver.Client
	m          [nConns]*connModel
	ids        map[string]int64
	secrets    map[int64]string
	expired    map[int64]bool
	banned     map[string]bool
	black      map[string]bool
	issued     map[int64]bool // identities issued by first-connect during the run
	keyless    map[int64]bool // registered clients without a stored secret
	dead       [nConns]bool
	shortBlack map[string]bool
	cidrBlack  bool
	restarts   int
	renames    int
}

func newWorld() (*world, error) {
	srv, err := miniserver.New(miniserver.Options{
		BruteForce: &security.BruteForceConfig{MaxFailures: 100000, TimeWindow: time.Hour, BanDuration: time.Hour, PermanentBanAt: 1000000, CleanupInterval: 20 * time.Millisecond},
		IPRate:     &security.RateLimitConfig{Rate: 100000, Burst: 100000, TTL: time.Hour},
	})
	if err != nil {
		return nil, err
	}
	w := &world{srv: srv, ids: map[string]int64{}, secrets: map[int64]string{}, expired: map[int64]bool{}, banned: map[string]bool{}, black: map[string]bool{}, issued: map[int64]bool{}, keyless: map[int64]bool{}, shortBlack: map[string]bool{}}
	for _, name := range []string{"A", "B", "E"} {
		c, err := srv.Cloud.GenerateAnonymousCredentials()
		if err != nil {
			return nil, err
		}
		w.ids[name] = c.ID
		w.secrets[c.ID] = c.SecretKeyPlaintext
	}
	// K: an un-migrated legacy client whose record carries no encrypted secret: nobody can prove
	// possession of its key, so it can never be authenticated by challenge-response
	{
		c, err := srv.Cloud.GenerateAnonymousCredentials()
		if err != nil {
			return nil, err
		}
		cr := repos.NewClientConfigRepository(srv.Repo)
		cfg, err := cr.GetConfig(c.ID)
		if err != nil {
			return nil, err
		}
		cfg.SecretKeyEncrypted = ""
		if err := cr.UpdateConfig(cfg); err != nil {
			return nil, err
		}
		w.ids["K"] = c.ID
		w.keyless[c.ID] = true
	}
	w.ids["U"] = 87654321
	for w.ids["U"] == w.ids["A"] || w.ids["U"] == w.ids["B"] || w.ids["U"] == w.ids["E"] || w.ids["U"] == w.ids["K"] {
		w.ids["U"]++
	}
	// E is expired from the start
	if err := w.expire(w.ids["E"]); err != nil {
		return nil, err
	}
	for i := 0; i < nConns; i++ {
		c, err := srv.Connect(fmt.Sprintf("%s:%d", connIPs[i], 40000+i))
		if err != nil {
			return nil, err
		}
		w.cl[i] = c
		w.m[i] = &connModel{ctrlFor: map[int64]bool{}}
	}
	return w, nil
}

func (w *world) expire(id int64) error {
	// credential expiry is a stored field of the client config (set 30 days ahead at
	// registration and preserved by UpdateClient); move it into the past through the repository.
	cr := repos.NewClientConfigRepository(w.srv.Repo)
	c, err := cr.GetConfig(id)
	if err != nil {
		return err
	}
	past := time.Now().Add(-time.Hour)
	c.ExpiresAt = &past
	if err := cr.UpdateConfig(c); err != nil {
		return err
	}
	// confirmed through the repository: what the SERVICE answers for this client is part of what is under test
	cfg, err := cr.GetConfig(id)
	// (judged on the stored field, not through the model's own IsExpired helper)
	if err != nil || cfg.ExpiresAt == nil || !time.Now().After(*cfg.ExpiresAt) {
		return fmt.Errorf("could not expire client %d (cfg=%v err=%v)", id, cfg, err)
	}
	w.expired[id] = true
	return nil
}

func (w *world) close() { w.srv.Close() }

type realState struct {
	present bool // a control-connection object exists for this connection
	authed  bool
	id      int64
}

func (w *world) real(i int) realState {
	cc := w.srv.SM.GetControlConnection(w.cl[i].ConnID)
	if cc == nil {
		return realState{}
	}
	return realState{true, cc.IsAuthenticated(), cc.GetClientID()}
}

type fail struct{ key, detail string }

// step executes one action and checks the oracle. Returns a failure or nil, and a class tag.
func (w *world) step(a Action) (*fail, string) {
	ip := connIPs[a.Conn%nConns]
	switch a.Kind {
	case "ban":
		w.srv.Brute.BanIP(ips[a.IP%2], time.Hour, "verif")
		w.banned[ips[a.IP%2]] = true
		return w.invariants("ban")
	case "blacklist":
		w.srv.IPM.AddToBlacklist(ips[a.IP%2], time.Hour, "verif", "verif")
		w.black[ips[a.IP%2]] = true
		w.shortBlack[ips[a.IP%2]] = false // re-adding an address replaces its exact entry
		return w.invariants("blacklist")
	case "ban-permanent":
		w.srv.Brute.BanIP(ips[a.IP%2], 0, "verif-permanent") // duration 0 = permanent
		w.banned[ips[a.IP%2]] = true
		return w.invariants("ban-permanent")
	case "blacklist-cidr":
		w.srv.IPM.AddToBlacklist("9.9.9.0/24", time.Hour, "verif", "verif") // covers both addresses
		w.cidrBlack = true
		return w.invariants("blacklist-cidr")
	case "blacklist-short":
		// an exact entry that lapses after 25 ms: by itself it decides nothing for the model once it may
		// have lapsed (unknown), but it must never hide another live entry or ban
		w.srv.IPM.AddToBlacklist(ips[a.IP%2], 25*time.Millisecond, "verif-short", "verif")
		w.shortBlack[ips[a.IP%2]] = true
		w.black[ips[a.IP%2]] = false // ... it REPLACES a long-lived exact entry of the same address
		return w.invariants("blacklist-short")
	case "sleep":
		time.Sleep(60 * time.Millisecond) // lets short entries lapse and the cleanup ticker run
		return w.invariants("sleep")
	case "restart":
		// the server process is replaced: a new server over the same storage (client records and the
		// persisted black/white lists survive; connections, pending challenges and the in-memory
		// failure/ban bookkeeping do not)
		st := w.srv.Storage
		for i := 0; i < nConns; i++ {
			w.cl[i].CloseByPeer()
		}
		w.srv.Close()
		srv, err := miniserver.New(miniserver.Options{Storage: st,
			BruteForce: &security.BruteForceConfig{MaxFailures: 100000, TimeWindow: time.Hour, BanDuration: time.Hour, PermanentBanAt: 1000000, CleanupInterval: 20 * time.Millisecond},
			IPRate:     &security.RateLimitConfig{Rate: 100000, Burst: 100000, TTL: time.Hour}})
		if err != nil {
			return &fail{"C03/harness/restart-failed", err.Error()}, ""
		}
		w.srv = srv
		w.restarts++
		for i := 0; i < nConns; i++ {
			c, err := srv.Connect(fmt.Sprintf("%s:%d", connIPs[i], 42000+10*w.restarts+i))
			if err != nil {
				return &fail{"C03/harness/reconnect-failed", err.Error()}, ""
			}
			w.cl[i] = c
			w.m[i] = &connModel{ctrlFor: map[int64]bool{}}
			w.dead[i] = false
		}
		w.banned = map[string]bool{}
		return w.invariants("restart")
	case "migrate":
		// an administrator runs the credential migration (plaintext secret -> encrypted storage) for a
		// client: it never creates a secret where there was none, nor changes who holds the key
		if err := w.srv.Cloud.MigrateClientCredentials(w.ids[a.Client]); err != nil {
			vkit.Class("migrate-refused")
		}
		return w.invariants("migrate")
	case "rename":
		// an administrator edits the client record (management API rename): it changes neither who
		// holds the key nor whether the credentials have expired
		id := w.ids[a.Client]
		if c, err := w.srv.Cloud.GetClient(id); err == nil && c != nil {
			w.renames++
			c.Name = fmt.Sprintf("renamed-%d", w.renames)
			if err := w.srv.Cloud.UpdateClient(c); err != nil {
				vkit.Class("rename-refused")
			}
		}
		return w.invariants("rename")
	case "expire":
		id := w.ids[a.Client]
		if _, ok := w.secrets[id]; ok && !w.expired[id] {
			if err := w.expire(id); err != nil {
				return &fail{"C03/harness/expire-failed", err.Error()}, ""
			}
		}
		return w.invariants("expire")
	}
	i := a.Conn % nConns
	if w.dead[i] {
		w.cl[i].CloseByPeer()
		c, err := w.srv.Connect(fmt.Sprintf("%s:%d", connIPs[i], 41000+i))
		if err != nil {
			return &fail{"C03/harness/reconnect-failed", err.Error()}, ""
		}
		w.cl[i] = c
		w.m[i] = &connModel{ctrlFor: map[int64]bool{}}
		w.dead[i] = false
	}
	m := w.m[i]
	before := make([]realState, nConns)
	for k := range before {
		before[k] = w.real(k)
	}
	gate := w.banned[ip] || w.black[ip] || w.cidrBlack
	// a short-lived exact blacklist entry may or may not have lapsed: when nothing else blocks the
	// address the model does not know whether this message passes the gate
	gateUnknown := !gate && w.shortBlack[ip]
	var req *packet.HandshakeRequest
	var raw []byte
	allowedID := int64(0) // identity this step is allowed to authenticate as (0: none)
	allowNew := false     // a brand-new identity may be issued
	tag := a.Kind
	consumes := false
	switch a.Kind {
	case "malformed":
		raw = []byte(`{"client_id": "oops", `)
	case "first":
		req = &packet.HandshakeRequest{ClientID: 0, Token: a.Token, Version: "2.0", Protocol: "tcp", ConnectionType: a.Type}
		if !gate && (a.Token == "new-client" || strings.HasPrefix(a.Token, "anonymous:")) {
			allowNew = true
		}
	case "phase1":
		req = &packet.HandshakeRequest{ClientID: w.ids[a.Client], Version: "2.0", Protocol: "tcp", ConnectionType: a.Type}
	case "phase2":
		id := w.ids[a.Client]
		sec, known := w.secrets[id]
		other := w.secrets[w.ids["A"]]
		if a.Client == "A" {
			other = w.secrets[w.ids["B"]]
		}
		if !known {
			sec = "no-such-secret"
		}
		resp := ""
		valid := false
		switch a.Resp {
		case "valid":
			if m.chal != "" {
				resp = miniserver.ComputeResponse(sec, m.chal)
				valid = known
			} else {
				resp = miniserver.ComputeResponse(sec, "never-issued")
			}
		case "stale":
			if len(m.oldChals) > 0 {
				resp = miniserver.ComputeResponse(sec, m.oldChals[len(m.oldChals)-1])
			} else {
				resp = miniserver.ComputeResponse(sec, "never-issued")
			}
		case "foreign":
			f := ""
			for k := 0; k < nConns; k++ {
				if k != i && w.m[k].chal != "" {
					f = w.m[k].chal
				}
			}
			if f == "" {
				f = "never-issued"
			}
			resp = miniserver.ComputeResponse(sec, f)
		case "othersecret":
			c := m.chal
			if c == "" {
				c = "never-issued"
			}
			resp = miniserver.ComputeResponse(other, c)
		case "replay":
			resp = "00"
			for k := len(m.accepted) - 1; k >= 0; k-- {
				if m.acceptedC[k] == a.Client {
					resp = m.accepted[k]
					break
				}
			}
			if resp == "00" {
				// a response accepted on another connection for this client
				for k := 0; k < nConns; k++ {
					for j := range w.m[k].accepted {
						if w.m[k].acceptedC[j] == a.Client {
							resp = w.m[k].accepted[j]
						}
					}
				}
			}
		case "emptykey":
			c := m.chal
			if c == "" {
				c = "never-issued"
			}
			resp = miniserver.ComputeResponse("", c)
		default:
			resp = "zz-not-hex"
		}
		req = &packet.HandshakeRequest{ClientID: id, Version: "2.0", Protocol: "tcp", ConnectionType: a.Type, ChallengeResponse: resp}
		tag = "phase2:" + a.Resp
		if !gate && (known || w.keyless[id]) && !w.expired[id] {
			if m.chal != "" {
				consumes = true
				if valid {
					allowedID = id
				}
			}
		}
	}
	if raw == nil {
		raw, _ = json.Marshal(req)
	}
	w.cl[i].Drain()
	herr := w.cl[i].Push(&packet.TransferPacket{PacketType: packet.Handshake, Payload: raw})
	var resp *packet.HandshakeResponse
	if a.Kind != "malformed" {
		r, rerr := w.cl[i].RecvHandshakeResp(2 * time.Second)
		if rerr != nil {
			return &fail{"C03/harness/no-handshake-response", fmt.Sprintf("action %+v: %v (dispatcher error: %v)", a, rerr, herr)}, tag
		}
		resp = r
	}
	after := w.real(i)
	// (the session layer answers a refusal with the handler's error text: "IP blacklisted: <reason>"; the
	// handler's own response text is "Access denied")
	if gateUnknown && resp != nil && !resp.Success && (strings.HasPrefix(resp.Error, "Access denied") || strings.HasPrefix(resp.Error, "IP blacklisted")) {
		// the short-lived blacklist entry was still in force: the message stopped at the gate, nothing
		// (in particular no pending challenge) was consumed
		consumes = false
	}
	// (2) a message that is not allowed to authenticate never reports success and never changes state
	success := resp != nil && resp.Success
	switch {
	case success && allowNew:
		if resp.ClientID == 0 || !after.authed || after.id != resp.ClientID {
			return &fail{"C03/first-connect/state-mismatch", fmt.Sprintf("response %+v, connection state %+v", resp, after)}, tag
		}
		if _, exists := w.secrets[resp.ClientID]; exists {
			return &fail{"C03/first-connect/issued-existing-identity", fmt.Sprintf("new identity %d collides with an existing client", resp.ClientID)}, tag
		}
		w.secrets[resp.ClientID] = resp.SecretKey
		w.issued[resp.ClientID] = true
		m.authed = resp.ClientID
		m.ctrlFor[resp.ClientID] = true
		tag += ":ok"
	case success && allowedID != 0:
		if !after.authed || after.id != allowedID {
			return &fail{"C03/phase2/state-mismatch", fmt.Sprintf("success for %d but connection state %+v", allowedID, after)}, tag
		}
		m.accepted = append(m.accepted, req.ChallengeResponse)
		m.acceptedC = append(m.acceptedC, a.Client)
		m.authed = allowedID
		m.ctrlFor[allowedID] = true
		tag += ":ok"
	case success:
		why := "invalid"
		switch {
		case gate:
			why = "banned-or-blacklisted-address"
		case a.Kind == "phase2" && w.expired[w.ids[a.Client]]:
			why = "expired-client"
		case a.Kind == "phase2" && a.Client == "U":
			why = "unknown-client"
		case a.Kind == "phase2" && a.Client == "K":
			why = "client-without-stored-secret/response=" + a.Resp
		case a.Kind == "phase2":
			why = "response=" + a.Resp
			if m.chal == "" {
				why += "/no-pending-challenge"
			}
		case a.Kind == "first":
			why = "first-connect-token=" + a.Token
		}
		return &fail{"C03/authenticated-without-proof/" + a.Kind + "/" + why, fmt.Sprintf("action %+v got %+v; connection now %+v", a, resp, after)}, tag
	default:
		// refused (or challenge issued): state of THIS connection must be unchanged
		if after.authed != before[i].authed || after.id != before[i].id {
			return &fail{"C03/refused-message-changed-identity/" + a.Kind, fmt.Sprintf("action %+v refused (%+v) but connection state went %+v -> %+v", a, resp, before[i], after)}, tag
		}
		if allowNew || allowedID != 0 {
			vkit.Class("completeness-miss:" + a.Kind) // valid proof refused: recorded, not asserted
		}
		tag += ":refused"
	}
	// challenge bookkeeping from the real response
	if a.Kind == "phase1" && resp != nil && resp.NeedResponse && resp.Challenge != "" {
		if gate || w.expired[w.ids[a.Client]] || a.Client == "U" || a.Client == "K" {
			return &fail{"C03/challenge-issued-to-ineligible/" + a.Client, fmt.Sprintf("action %+v got a challenge", a)}, tag
		}
		if m.chal != "" {
			m.oldChals = append(m.oldChals, m.chal)
		}
		for k := 0; k < nConns; k++ {
			if w.m[k].chal == resp.Challenge {
				return &fail{"C03/challenge-reused-across-connections", resp.Challenge}, tag
			}
			for _, o := range w.m[k].oldChals {
				if o == resp.Challenge {
					return &fail{"C03/challenge-reused", resp.Challenge}, tag
				}
			}
		}
		m.chal = resp.Challenge
		tag += ":challenge"
	}
	if consumes {
		m.oldChals = append(m.oldChals, m.chal)
		m.chal = ""
	}
	// no other connection's identity may change because of this message
	for k := 0; k < nConns; k++ {
		if k == i {
			continue
		}
		now := w.real(k)
		if now == before[k] {
			continue
		}
		// the only legitimate effect on another connection: a successful control-type login as the
		// same client evicts that client's previous control connection (duplicate login)
		evicted := before[k].present && !now.present
		if evicted && herr == nil && a.Type != "tunnel" && before[k].authed && after.authed && before[k].id == after.id {
			// the evicted transport is closed by the server; the adapter then drops the connection.
			// A later action on this slot uses a fresh connection from the same address.
			w.dead[k] = true
			vkit.Class("feat:duplicate-login-eviction")
			continue
		}
		return &fail{"C03/message-changed-other-connection", fmt.Sprintf("action %+v on conn %d changed conn %d: %+v -> %+v", a, i, k, before[k], now)}, tag
	}
	f, _ := w.invariants(tag)
	return f, tag
}

// invariants (1) and (5), checked after every step.
func (w *world) invariants(tag string) (*fail, string) {
	for i := 0; i < nConns; i++ {
		if w.dead[i] {
			continue
		}
		r := w.real(i)
		if r.authed && (w.m[i].authed == 0 || r.id != w.m[i].authed) {
			return &fail{"C03/authenticated-state-not-earned", fmt.Sprintf("conn %d is authenticated as %d, model says it earned %d", i, r.id, w.m[i].authed)}, tag
		}
		if !r.authed && w.m[i].authed != 0 {
			return &fail{"C03/authentication-lost", fmt.Sprintf("conn %d earned %d but is not authenticated", i, w.m[i].authed)}, tag
		}
	}
	for id := range w.secrets {
		cc := w.srv.SM.GetControlConnectionByClientID(id)
		if cc == nil {
			continue
		}
		ok := false
		for i := 0; i < nConns; i++ {
			if !w.dead[i] && w.cl[i].ConnID == cc.GetConnID() && w.m[i].ctrlFor[id] {
				ok = true
			}
		}
		if !ok {
			return &fail{"C03/control-channel-installed-without-proof", fmt.Sprintf("lookup of client %d returns connection %s which never proved or was issued identity %d", id, cc.GetConnID(), id)}, tag
		}
	}
	return nil, tag
}

func runCase(t vkit.TB, c Case) {
	w, err := newWorld()
	if err != nil {
		t.Fatalf("harness: %v", err)
	}
	defer w.close()
	okAuth, refusedAfterChallenge, challenged := 0, 0, false
	var kinds []string
	for n, a := range c.Actions {
		f, tag := w.step(a)
		kinds = append(kinds, tag)
		vkit.Class("step:" + tag)
		if f != nil {
			vkit.Violation(t, f.key, fmt.Sprintf("step %d: %s", n, f.detail), c)
			vkit.Case("known", false, "")
			return
		}
		if strings.HasSuffix(tag, ":challenge") {
			challenged = true
		}
		if strings.HasPrefix(tag, "phase2") && strings.HasSuffix(tag, ":ok") {
			okAuth++
		}
		if challenged && strings.HasSuffix(tag, ":refused") {
			refusedAfterChallenge++
		}
	}
	nt := okAuth > 0 && refusedAfterChallenge > 0
	vkit.Case("sequence", nt, strings.Join(kinds, ","))
	if nt {
		vkit.Sample("sequence", c.Actions)
	}
}

func genAction(t *rapid.T) Action {
	kind := rapid.SampledFrom([]string{"first", "phase1", "phase1", "phase1", "phase2", "phase2", "phase2", "phase2", "phase2", "malformed", "ban", "blacklist", "expire", "ban-permanent", "blacklist-cidr", "blacklist-short", "sleep", "restart", "rename", "migrate"}).Draw(t, "kind")
	a := Action{Kind: kind, Conn: rapid.IntRange(0, nConns-1).Draw(t, "conn")}
	a.Type = rapid.SampledFrom([]string{"", "control", "control", "tunnel"}).Draw(t, "type")
	switch kind {
	case "first":
		a.Token = rapid.SampledFrom([]string{"new-client", "anonymous:x", "other", ""}).Draw(t, "token")
	case "phase1":
		a.Client = rapid.SampledFrom([]string{"A", "A", "B", "B", "E", "U", "K"}).Draw(t, "client")
	case "phase2":
		a.Client = rapid.SampledFrom([]string{"A", "A", "B", "B", "E", "U", "K"}).Draw(t, "client")
		a.Resp = rapid.SampledFrom([]string{"valid", "valid", "valid", "stale", "foreign", "othersecret", "replay", "garbage", "emptykey"}).Draw(t, "resp")
	case "blacklist-short", "sleep":
		a.IP = rapid.IntRange(0, 1).Draw(t, "ip")
		if rapid.IntRange(0, 1).Draw(t, "rare") != 0 {
			a = Action{Kind: "phase1", Conn: a.Conn, Client: "B", Type: a.Type}
		}
	case "rename":
		a.Client = rapid.SampledFrom([]string{"A", "B", "E", "E", "K"}).Draw(t, "client")
	case "migrate":
		a.Client = rapid.SampledFrom([]string{"A", "K", "K", "K", "U"}).Draw(t, "client")
	case "restart":
		if rapid.IntRange(0, 1).Draw(t, "rare") != 0 {
			a = Action{Kind: "phase2", Conn: a.Conn, Client: "A", Resp: "valid", Type: a.Type}
		}
	case "ban", "blacklist", "ban-permanent", "blacklist-cidr":
		a.IP = rapid.IntRange(0, 1).Draw(t, "ip")
		// keep bans rare so that most sequences still authenticate
		if rapid.IntRange(0, 3).Draw(t, "rare") != 0 {
			a = Action{Kind: "phase1", Conn: a.Conn, Client: "A", Type: a.Type}
		}
	case "expire":
		a.Client = rapid.SampledFrom([]string{"A", "B"}).Draw(t, "client")
		if rapid.IntRange(0, 2).Draw(t, "rare") != 0 {
			a = Action{Kind: "phase2", Conn: a.Conn, Client: "B", Resp: "valid", Type: a.Type}
		}
	}
	return a
}

func TestHandshakeSequences(t *testing.T) {
	vkit.Check(t, 12000, 200000, func(t *rapid.T) {
		n := rapid.IntRange(1, vkit.Pick(16, 28)).Draw(t, "n")
		var c Case
		for i := 0; i < n; i++ {
			c.Actions = append(c.Actions, genAction(t))
		}
		runCase(t, c)
	})
}

// TestEnumerated runs every sequence up to a depth bound over a reduced alphabet
// (2 connections x 2 clients x message kinds), exhaustively.
func TestEnumerated(t *testing.T) {
	var alpha []Action
	for conn := 0; conn < 2; conn++ {
		alpha = append(alpha, Action{Kind: "first", Conn: conn, Token: "new-client"})
		for _, cl := range []string{"A", "B"} {
			alpha = append(alpha, Action{Kind: "phase1", Conn: conn, Client: cl, Type: "control"})
			for _, r := range []string{"valid", "stale", "foreign", "othersecret", "replay"} {
				alpha = append(alpha, Action{Kind: "phase2", Conn: conn, Client: cl, Resp: r, Type: "control"})
			}
		}
		alpha = append(alpha, Action{Kind: "phase2", Conn: conn, Client: "A", Resp: "valid", Type: "tunnel"})
		alpha = append(alpha, Action{Kind: "phase2", Conn: conn, Client: "K", Resp: "emptykey", Type: "control"})
		if conn == 0 {
			alpha = append(alpha, Action{Kind: "phase1", Conn: conn, Client: "K", Type: "control"})
		}
	}
	alpha = append(alpha, Action{Kind: "ban", IP: 0}, Action{Kind: "expire", Client: "A"}, Action{Kind: "rename", Client: "A"}, Action{Kind: "migrate", Client: "K"})
	depth := vkit.Pick(3, 4)
	total := 1
	for i := 0; i < depth; i++ {
		total *= len(alpha)
	}
	idx := make([]int, depth)
	n := 0
	for k := 0; k < total; k++ {
		x := k
		for d := 0; d < depth; d++ {
			idx[d] = x % len(alpha)
			x /= len(alpha)
		}
		if !vkit.Mine(k) {
			continue
		}
		var c Case
		for d := 0; d < depth; d++ {
			c.Actions = append(c.Actions, alpha[idx[d]])
		}
		runCase(t, c)
		n++
	}
	vkit.AddExtra("enumerated_sequences", int64(n))
	vkit.Extra("enumeration_depth", depth)
	vkit.Extra("enumeration_alphabet", len(alpha))
	vkit.Exhaustive(fmt.Sprintf("all sequences of length %d over %d actions", depth, len(alpha)), true)
}

func TestReplay(t *testing.T) {
	path := vkit.Replaying()
	if path == "" {
		t.Skip("no VERIF_REPLAY")
	}
	var g WSGate
	vkit.LoadReplay(path, &g)
	if g.WSGate {
		if key, detail, _ := runWSGate(t, g); key != "" {
			vkit.Violation(t, key, detail, g)
		}
		return
	}
	var ac AddrCase
	vkit.LoadReplay(path, &ac)
	if ac.AddrForm != "" {
		checkAddr(t, ac)
		return
	}
	var c Case
	if _, err := vkit.LoadReplay(path, &c); err != nil {
		t.Fatal(err)
	}
	runCase(t, c)
}
