package c03

import (
	"encoding/json"
	"fmt"
	"net/http"
	"net/http/httptest"
	"strings"
	"sync"
	"testing"
	"time"

	"github.com/gorilla/mux"
	gws "github.com/gorilla/websocket"
	"pgregory.net/rapid"

	"tunnox-core/internal/httpservice"
	wsmodule "tunnox-core/internal/httpservice/modules/websocket"
	"tunnox-core/internal/packet"
	"tunnox-core/internal/security"
	"tunnox-core/internal/stream"
	"tunnox-core/verif/vkit"
	"tunnox-core/verif/vkit/miniserver"
)

// ---------------------------------------------------------------------------
// TestWebSocketGate — the handshake gates over the HTTP service's WebSocket transport (/_tunnox): the
// real WebSocketModule behind httptest, wired to the mini-server's SessionManager and auth handler.
// The address the gates judge must be the peer's socket address whatever forwarding headers the
// upgrade request carries: a blacklisted / banned peer gets neither an identity nor a challenge, and
// a header naming a blacklisted address does not lock an admissible peer out.

type WSGate struct {
	WSGate  bool   `json:"ws_gate"`
	Lock    string `json:"lock"`    // none | blacklist-peer | ban-peer | blacklist-claimed
	Header  int    `json:"header"`  // index into wsHeaders
	Message string `json:"message"` // first | phase1 | login
}

var wsHeaders = []http.Header{
	nil,
	{"X-Forwarded-For": {"203.0.113.77"}},
	{"X-Forwarded-For": {"203.0.113.77, 10.0.0.1"}},
	{"X-Real-Ip": {"203.0.113.77"}},
	{"Forwarded": {"for=203.0.113.77;proto=https"}},
	{"X-Forwarded-For": {"not-an-address"}, "X-Real-Ip": {"203.0.113.77"}},
}

type wsStream struct {
	conn *gws.Conn
	buf  []byte
	wmu  sync.Mutex
}

func (s *wsStream) Read(p []byte) (int, error) {
	for len(s.buf) == 0 {
		_, data, err := s.conn.ReadMessage()
		if err != nil {
			return 0, err
		}
		s.buf = data
	}
	n := copy(p, s.buf)
	s.buf = s.buf[n:]
	return n, nil
}

func (s *wsStream) Write(p []byte) (int, error) {
	s.wmu.Lock()
	defer s.wmu.Unlock()
	if err := s.conn.WriteMessage(gws.BinaryMessage, p); err != nil {
		return 0, err
	}
	return len(p), nil
}

func runWSGate(t vkit.TB, c WSGate) (key, detail string, skipped bool) {
	srv, err := miniserver.New(miniserver.Options{
		BruteForce: &security.BruteForceConfig{MaxFailures: 100000, TimeWindow: time.Hour, BanDuration: time.Hour, PermanentBanAt: 1000000, CleanupInterval: time.Hour},
		IPRate:     &security.RateLimitConfig{Rate: 100000, Burst: 100000, TTL: time.Hour},
	})
	if err != nil {
		t.Fatalf("HARNESS-ERROR miniserver: %v", err)
	}
	defer srv.Close()
	cl, err := srv.Cloud.GenerateAnonymousCredentials()
	if err != nil {
		t.Fatalf("HARNESS-ERROR credentials: %v", err)
	}
	module := wsmodule.NewWebSocketModule(srv.Ctx, &httpservice.WebSocketModuleConfig{Enabled: true})
	module.SetSession(srv.SM)
	router := mux.NewRouter()
	module.RegisterRoutes(router)
	hs := httptest.NewServer(router)
	defer hs.Close()
	url := "ws" + strings.TrimPrefix(hs.URL, "http") + "/_tunnox"
	const peer, claimed = "127.0.0.1", "203.0.113.77"
	switch c.Lock {
	case "blacklist-peer":
		srv.IPM.AddToBlacklist(peer, time.Hour, "verif", "verif")
	case "ban-peer":
		srv.Brute.BanIP(peer, time.Hour, "verif")
	case "blacklist-claimed":
		srv.IPM.AddToBlacklist(claimed, time.Hour, "verif", "verif")
	}
	d := gws.Dialer{HandshakeTimeout: 20 * time.Second}
	conn, _, err := d.Dial(url, wsHeaders[c.Header%len(wsHeaders)])
	if err != nil {
		return "", "", true
	}
	defer conn.Close()
	ws := &wsStream{conn: conn}
	sp := stream.NewStreamProcessor(ws, ws, srv.Ctx)
	defer sp.Close()
	send := func(req *packet.HandshakeRequest) (*packet.HandshakeResponse, error) {
		b, _ := json.Marshal(req)
		conn.SetReadDeadline(time.Now().Add(20 * time.Second))
		if _, err := sp.WritePacket(&packet.TransferPacket{PacketType: packet.Handshake, Payload: b}, false, 0); err != nil {
			return nil, err
		}
		for {
			p, _, err := sp.ReadPacket()
			if err != nil {
				return nil, err
			}
			if p.PacketType&0x3F == packet.HandshakeResp {
				r := &packet.HandshakeResponse{}
				return r, json.Unmarshal(p.Payload, r)
			}
		}
	}
	var resp *packet.HandshakeResponse
	switch c.Message {
	case "first":
		resp, err = send(&packet.HandshakeRequest{ClientID: 0, Token: "new-client", Version: "2.0", Protocol: "websocket", ConnectionType: "control"})
	default:
		resp, err = send(&packet.HandshakeRequest{ClientID: cl.ID, Version: "2.0", Protocol: "websocket", ConnectionType: "control"})
		if err == nil && c.Message == "login" && resp != nil && resp.NeedResponse {
			resp, err = send(&packet.HandshakeRequest{ClientID: cl.ID, Version: "2.0", Protocol: "websocket", ConnectionType: "control",
				ChallengeResponse: miniserver.ComputeResponse(cl.SecretKeyPlaintext, resp.Challenge)})
		}
	}
	if err != nil || resp == nil {
		if c.Lock == "blacklist-peer" || c.Lock == "ban-peer" {
			return "", "", false // refused by closing the connection: fine
		}
		return "", "", true
	}
	progressed := resp.Success || resp.NeedResponse
	locked := c.Lock == "blacklist-peer" || c.Lock == "ban-peer"
	hdr := fmt.Sprint(wsHeaders[c.Header%len(wsHeaders)])
	switch {
	case locked && progressed:
		return "C03/websocket/locked-out-peer-admitted/" + c.Lock, fmt.Sprintf("socket address %s is %s; its %s handshake with upgrade headers %s was answered success=%v challenge=%v", peer, c.Lock, c.Message, hdr, resp.Success, resp.NeedResponse), false
	case !locked && !progressed:
		return "C03/websocket/admissible-peer-refused/" + c.Lock, fmt.Sprintf("socket address %s is neither banned nor blacklisted (lock=%s, upgrade headers %s); its %s handshake was refused: %s", peer, c.Lock, hdr, c.Message, resp.Error), false
	}
	return "", "", false
}

func TestWebSocketGate(t *testing.T) {
	vkit.Check(t, 240, 8000, func(t *rapid.T) {
		c := WSGate{WSGate: true,
			Lock:    rapid.SampledFrom([]string{"none", "blacklist-peer", "blacklist-peer", "ban-peer", "ban-peer", "blacklist-claimed"}).Draw(t, "lock"),
			Header:  rapid.IntRange(0, len(wsHeaders)-1).Draw(t, "header"),
			Message: rapid.SampledFrom([]string{"first", "phase1", "login"}).Draw(t, "message")}
		key, detail, skipped := runWSGate(t, c)
		if skipped {
			vkit.Skipped(1)
			return
		}
		if key != "" {
			vkit.Violation(t, key, detail, c)
			return
		}
		vkit.Case("ws-gate/"+c.Lock, c.Header != 0, fmt.Sprint(c))
	})
}
