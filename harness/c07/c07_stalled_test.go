package c07

import (
	"fmt"
	"sync"
	"testing"
	"time"

	"tunnox-core/verif/vkit"
)

// ---------------------------------------------------------------------------
// TestEvictStalledPeer — "after a connection is evicted no lookup returns it AND its transport is
// closed", when the evicted peer is not reading: the server's farewell (KickClient) cannot be written for
// a few seconds because the peer's window is full. However long that takes, once the eviction has run its
// course the old transport is closed and the client's lookup names the new connection (or nothing).

type StallCase struct {
	Stalled string `json:"evict_stalled_peer"` // duplicate-login | kick
	StallMs int    `json:"stall_ms"`
}

func runStalled(c StallCase) (key, detail string, err error) {
	w, err := newWorld(Case{MaxConns: 100, MaxControl: 100})
	if err != nil {
		return "", "", err
	}
	defer w.srv.Close()
	x, err := w.srv.Connect("7.7.7.1:1001")
	if err != nil {
		return "", "", err
	}
	if r, err := x.Login(w.ids[0], w.secrets[0], "control"); err != nil || r == nil || !r.Success {
		return "", "", fmt.Errorf("first login failed: %+v %v", r, err)
	}
	time.Sleep(20 * time.Millisecond) // asynchronous pushes after login
	x.Drain()
	x.Near.SetMaxBuffered(1) // the old peer stops reading: one byte fits, then the server's write blocks
	y, err := w.srv.Connect("7.7.7.2:1002")
	if err != nil {
		return "", "", err
	}
	done := make(chan struct{})
	go func() {
		defer close(done)
		switch c.Stalled {
		case "kick":
			w.srv.SM.KickOldControlConnection(w.ids[0], "none")
		default:
			y.Login(w.ids[0], w.secrets[0], "control")
		}
	}()
	// the peer resumes reading after the stall
	stall := time.Duration(c.StallMs) * time.Millisecond
	select {
	case <-done:
	case <-time.After(stall):
	}
	var wg sync.WaitGroup
	stop := make(chan struct{})
	wg.Add(1)
	go func() {
		defer wg.Done()
		for {
			select {
			case <-stop:
				return
			default:
			}
			x.Near.ReadAllAvailable()
			time.Sleep(time.Millisecond)
		}
	}()
	select {
	case <-done:
	case <-time.After(15 * time.Second):
		close(stop)
		wg.Wait()
		return "C07/eviction-never-returns/stalled-peer/" + c.Stalled, fmt.Sprintf("the evicted peer did not read for %d ms and then read everything; 15 s later the evicting operation has not returned", c.StallMs), nil
	}
	// the eviction has run its course: give asynchronous tails a moment, then judge
	deadline := time.Now().Add(3 * time.Second)
	for time.Now().Before(deadline) && !x.Far.IsClosed() {
		time.Sleep(5 * time.Millisecond)
	}
	close(stop)
	wg.Wait()
	if !x.Far.IsClosed() {
		return "C07/evicted-connection-transport-open/farewell-write-stalled/" + c.Stalled,
			fmt.Sprintf("client's old control connection %s was evicted (%s) while its peer did not read for %d ms; 3 s after the evicting operation returned (the peer reading again) the old transport is still open", x.ConnID, c.Stalled, c.StallMs), nil
	}
	if cc := w.srv.SM.GetControlConnectionByClientID(w.ids[0]); cc != nil && cc.GetConnID() == x.ConnID {
		return "C07/lookup-returns-closed-connection/farewell-write-stalled/" + c.Stalled, fmt.Sprintf("lookup of the client still returns the evicted connection %s", x.ConnID), nil
	}
	return "", "", nil
}

func TestEvictStalledPeer(t *testing.T) {
	cases := []StallCase{{"duplicate-login", 2600}, {"kick", 2600}, {"duplicate-login", 300}}
	if vkit.Thorough() {
		cases = append(cases, StallCase{"kick", 5600}, StallCase{"duplicate-login", 11000})
	}
	type out struct {
		c           StallCase
		key, detail string
		err         error
	}
	res := make(chan out, len(cases))
	n := 0
	for i, c := range cases {
		if !vkit.Mine(i) {
			continue
		}
		n++
		go func(c StallCase) { k, d, e := runStalled(c); res <- out{c, k, d, e} }(c)
	}
	for ; n > 0; n-- {
		o := <-res
		switch {
		case o.err != nil:
			vkit.Violation(t, "C07/harness/stalled-peer", o.err.Error(), o.c)
		case o.key != "":
			vkit.Violation(t, o.key, o.detail, o.c)
		default:
			vkit.Case("evict-stalled-peer/"+o.c.Stalled, true, fmt.Sprint(o.c))
		}
	}
}
