// C07 — the server's view of control connections is consistent, one per client.
package c07

import (
	"context"
	"encoding/json"
	"fmt"
	"strings"
	"sync"
	"sync/atomic"
	"testing"
	"time"
	"tunnox-core/internal/protocol/httptypes"

	"pgregory.net/rapid"

	"tunnox-core/internal/cloud/models"
	"tunnox-core/internal/core/storage/hybrid"
	"tunnox-core/internal/core/storage/memory"
	"tunnox-core/internal/packet"
	"tunnox-core/internal/protocol/session"
	"tunnox-core/internal/security"
	"tunnox-core/verif/vkit"
	"tunnox-core/verif/vkit/miniserver"
)

func TestMain(m *testing.M) { vkit.Main(m, "C07") }

type Action struct {
	Kind   string `json:"kind"` // accept | login | kick | heartbeat | sweep | close_server | close_peer | phase1
	Conn   int    `json:"conn"`
	Client int    `json:"client"`
	Mask   int    `json:"mask,omitempty"` // sweep: which connections are left idle
}

type Case struct {
	MaxControl int      `json:"max_control"`
	MaxConns   int      `json:"max_conns"`
	Actions    []Action `json:"actions"`
}

const maxSlots = 5
const nClients = 3

type slot struct {
	cl         *miniserver.Client
	dead       bool
	handshook  bool  // sent at least one handshake message (a control-connection object exists)
	authed     int64 // identity per the model (0 none)
	loginSeq   int   // sequence number of its last successful CONTROL login
	tunnelOnly bool  // its identity comes from a tunnel-type handshake: authenticated, never a control channel
	handedOver bool  // its TunnelOpen was accepted: the session layer took it out of the control registry (Unregister) and runs it as a tunnel end
}

type world struct {
	srv      *miniserver.Server
	slots    []*slot
	ids      [nClients]int64
	secrets  [nClients]string
	seq      int
	cfg      Case
	outage   *vkit.OutageStore
	scfg     *session.SessionConfig
	mapID    string // a port mapping client 0 (listen) -> client 1 (target)
	tunnels  int
	proxySeq int
}

func newWorld(c Case) (*world, error) {
	// the storage the server builds (hybrid facade over memory), wrapped so that a state-store outage
	// can be switched on for single actions
	hc := hybrid.DefaultConfig()
	hc.EnablePersistent = false
	outage := vkit.NewOutageStore(hybrid.NewWithSharedCache(context.Background(), memory.New(context.Background()), nil, nil, hc))
	scfg := &session.SessionConfig{HeartbeatTimeout: time.Hour, CleanupInterval: time.Hour, MaxConnections: c.MaxConns, MaxControlConnections: c.MaxControl}
	srv, err := miniserver.New(miniserver.Options{
		Storage:    outage,
		Session:    scfg,
		BruteForce: &security.BruteForceConfig{MaxFailures: 100000, TimeWindow: time.Hour, BanDuration: time.Hour, PermanentBanAt: 1000000, CleanupInterval: time.Hour},
		IPRate:     &security.RateLimitConfig{Rate: 100000, Burst: 100000, TTL: time.Hour},
	})
	if err != nil {
		return nil, err
	}
	w := &world{srv: srv, cfg: c, outage: outage, scfg: scfg}
	for i := 0; i < nClients; i++ {
		cl, err := srv.Cloud.GenerateAnonymousCredentials()
		if err != nil {
			return nil, err
		}
		w.ids[i], w.secrets[i] = cl.ID, cl.SecretKeyPlaintext
	}
	mp, err := srv.Cloud.CreatePortMapping(&models.PortMapping{ListenClientID: w.ids[0], TargetClientID: w.ids[1], Protocol: models.ProtocolTCP,
		SourcePort: 17788, TargetHost: "127.0.0.1", TargetPort: 3306, SecretKey: "c07-mapping-secret-0123456789abcdef", Status: models.MappingStatusActive})
	if err != nil {
		return nil, err
	}
	w.mapID = mp.ID
	return w, nil
}

type fail struct{ key, detail string }

// realSweep runs the server's own heartbeat-timeout sweep (hook VerifCleanupStaleConnections: the
// function the cleanup ticker calls) with a 5 ms timeout; the cleanup ticker itself never fires here.
func (w *world) realSweep() {
	w.scfg.HeartbeatTimeout = 5 * time.Millisecond
	w.srv.SM.VerifCleanupStaleConnections()
	w.scfg.HeartbeatTimeout = time.Hour
}

func (w *world) live() []*slot {
	var out []*slot
	for _, s := range w.slots {
		if !s.dead {
			out = append(out, s)
		}
	}
	return out
}

// adapterRole: what protocol/adapter does when a connection's transport is closed
// (read loop fails): SessionManager.CloseConnection and close of the transport.
func (w *world) adapterRole() {
	for _, s := range w.slots {
		if !s.dead && (s.cl.Far.IsClosed() || s.cl.Near.IsClosed()) {
			w.srv.SM.CloseConnection(s.cl.ConnID)
			s.cl.Far.Close()
			s.cl.Near.Close()
			s.cl.SP.Close()
			s.dead = true
		}
	}
}

func (w *world) step(a Action) (*fail, string) {
	tag := a.Kind
	pickFrom := func(l []*slot) *slot {
		if len(l) == 0 {
			return nil
		}
		return l[a.Conn%len(l)]
	}
	pick := func() *slot { return pickFrom(w.live()) }
	// connections that still speak the packet protocol (a handed-over tunnel connection carries raw bytes)
	pickCtl := func() *slot {
		var l []*slot
		for _, s := range w.live() {
			if !s.handedOver {
				l = append(l, s)
			}
		}
		return pickFrom(l)
	}
	switch a.Kind {
	case "accept":
		if len(w.slots) >= maxSlots+6 {
			return nil, "accept:skipped"
		}
		liveBefore := len(w.live())
		cl, err := w.srv.Connect(fmt.Sprintf("7.7.7.%d:%d", len(w.slots)+1, 30000+len(w.slots)))
		if err != nil {
			if w.cfg.MaxConns > 0 && liveBefore >= w.cfg.MaxConns {
				return nil, "accept:refused-at-cap"
			}
			return &fail{"C07/accept-refused-below-cap", fmt.Sprintf("%d live connections, cap %d: %v", liveBefore, w.cfg.MaxConns, err)}, tag
		}
		w.slots = append(w.slots, &slot{cl: cl})
	case "login", "phase1":
		s := pickCtl()
		if s == nil {
			return nil, tag + ":skipped"
		}
		ci := a.Client % nClients
		s.handshook = true
		if a.Kind == "phase1" {
			resp, _, _ := s.cl.Handshake(&packet.HandshakeRequest{ClientID: w.ids[ci], Version: "2.0", Protocol: "tcp", ConnectionType: "control"})
			// any accepted control-type handshake message on a connection that already proved an
			// identity (re)installs it as that identity's control channel
			if resp != nil && resp.NeedResponse && s.authed != 0 {
				w.seq++
				s.loginSeq = w.seq
				s.tunnelOnly = false
			}
			break
		}
		if s.authed != 0 && s.authed != w.ids[ci] {
			tag = "login:reauth-other-id"
		} else if s.authed == w.ids[ci] {
			tag = "login:same-again"
		}
		for _, o := range w.live() {
			if o != s && o.authed == w.ids[ci] {
				tag = "login:duplicate"
			}
		}
		resp, err := s.cl.Login(w.ids[ci], w.secrets[ci], "control")
		if err == nil && resp != nil && resp.Success {
			w.seq++
			s.authed = w.ids[ci]
			s.loginSeq = w.seq
			s.tunnelOnly = false
		} else if s.cl.Far.IsClosed() {
			// evicted while handshaking (e.g. registry at cap): nothing to assert here
			tag += ":evicted-during"
		} else {
			return &fail{"C07/harness/login-failed", fmt.Sprintf("login of client %d on %s: %+v %v", ci, s.cl.ConnID, resp, err)}, tag
		}
	case "login_tunnel":
		// a data connection: tunnel-type handshake (authenticated, registered, but never installed as
		// the client's control channel); only on connections that carry no identity yet
		s := pickCtl()
		if s == nil || s.authed != 0 {
			return nil, tag + ":skipped"
		}
		ci := a.Client % nClients
		s.handshook = true
		resp, err := s.cl.Login(w.ids[ci], w.secrets[ci], "tunnel")
		if err == nil && resp != nil && resp.Success {
			s.authed = w.ids[ci]
			s.tunnelOnly = true
			s.loginSeq = 0
		} else if !s.cl.Far.IsClosed() {
			return &fail{"C07/harness/login-failed", fmt.Sprintf("tunnel-type login of client %d: %+v %v", ci, resp, err)}, tag
		}
	case "login_bad":
		// phase one for a client (a challenge is issued), then a phase two with a response computed from
		// the wrong secret: refused, and the connection's identity must be what it was
		s := pickCtl()
		if s == nil {
			return nil, tag + ":skipped"
		}
		ci := a.Client % nClients
		s.handshook = true
		if s.authed != 0 && s.authed != w.ids[ci] {
			tag = "login_bad:on-connection-of-other-client"
		}
		r1, _, _ := s.cl.Handshake(&packet.HandshakeRequest{ClientID: w.ids[ci], Version: "2.0", Protocol: "tcp", ConnectionType: "control"})
		if r1 == nil || !r1.NeedResponse {
			break
		}
		if s.authed != 0 {
			w.seq++
			s.loginSeq = w.seq
			s.tunnelOnly = false
		}
		r2, _, _ := s.cl.Handshake(&packet.HandshakeRequest{ClientID: w.ids[ci], Version: "2.0", Protocol: "tcp", ConnectionType: "control",
			ChallengeResponse: miniserver.ComputeResponse("not-the-secret-of-this-client", r1.Challenge)})
		if r2 != nil && r2.Success {
			return &fail{"C07/login-with-wrong-secret-accepted", fmt.Sprintf("client %d on %s", ci, s.cl.ConnID)}, tag
		}
	case "tunnel_open":
		// a data connection of the mapping's listen client opens a tunnel: once accepted, the session
		// layer hands the connection over to the tunnel machinery (it leaves the control registry)
		s := pick()
		if s == nil || s.handedOver || s.authed != w.ids[0] {
			return nil, tag + ":skipped"
		}
		if !s.tunnelOnly {
			tag = "tunnel_open:on-control-connection" // a legacy client: its control-type connection itself becomes the data tunnel
		}
		w.tunnels++
		tid := fmt.Sprintf("c07-tunnel-%d", w.tunnels)
		b, _ := json.Marshal(&packet.TunnelOpenRequest{MappingID: w.mapID, TunnelID: tid})
		go s.cl.Push(&packet.TransferPacket{PacketType: packet.TunnelOpen, TunnelID: tid, Payload: b})
		deadline := time.Now().Add(5 * time.Second)
		accepted := false
		for time.Now().Before(deadline) {
			p, err := s.cl.Recv(time.Until(deadline))
			if err != nil {
				break
			}
			if p.PacketType&0x3F == packet.TunnelOpenAck {
				var ack packet.TunnelOpenAckResponse
				accepted = json.Unmarshal(p.Payload, &ack) == nil && ack.Success
				break
			}
		}
		if !accepted {
			if s.cl.Far.IsClosed() {
				tag += ":closed-by-server"
				break
			}
			return &fail{"C07/harness/tunnel-open-not-accepted", s.cl.ConnID}, tag
		}
		// the hand-over happens right after the acknowledgement is written
		for i := 0; i < 2000 && w.srv.SM.GetControlConnection(s.cl.ConnID) != nil; i++ {
			time.Sleep(time.Millisecond)
		}
		s.handedOver = true
	case "reregister":
		// the same underlying connection is registered again as a FRESH control-connection object (same conn
		// id, same stream, no identity yet), as notifyTargetClientToOpenTunnel does for transports that are not
		// registered as control connections: whatever the registry does with the old object, a lookup of the
		// identity the OLD object had must not return anything that is not live and logged in as that client
		s := pickCtl()
		if s == nil || !s.handshook {
			return nil, tag + ":skipped"
		}
		old := w.srv.SM.GetControlConnection(s.cl.ConnID)
		if old == nil {
			return nil, tag + ":skipped"
		}
		w.srv.SM.RegisterControlConnection(session.NewControlConnection(old.ConnID, old.Stream, old.RemoteAddr, old.Protocol))
		s.authed, s.loginSeq, s.tunnelOnly = 0, 0, false
	case "kick":
		ci := a.Client % nClients
		except := "none"
		if s := pick(); s != nil && a.Mask%2 == 0 {
			except = s.cl.ConnID
		}
		w.srv.SM.KickOldControlConnection(w.ids[ci], except)
	case "proxy_push_fail":
		// the HTTP side pushes a proxy request to a client's control connection and the write fails (transient
		// I/O error): the request fails, and whatever the server does about the connection, once the call has
		// returned no lookup may hand out a connection whose transport or stream is gone
		ci := a.Client % nClients
		cc0 := w.srv.SM.GetControlConnectionByClientID(w.ids[ci])
		if cc0 == nil {
			return nil, tag + ":skipped"
		}
		var sl *slot
		for _, x := range w.live() {
			if x.cl.ConnID == cc0.GetConnID() {
				sl = x
			}
		}
		if sl == nil {
			return nil, tag + ":skipped"
		}
		sl.cl.Far.FailWriteAfter.Store(0)
		w.proxySeq++
		done := make(chan error, 1)
		go func() {
			_, err := w.srv.SM.SendHTTPProxyRequest(w.ids[ci], &httptypes.HTTPProxyRequest{RequestID: fmt.Sprintf("c07-proxy-%d", w.proxySeq), Method: "GET", URL: "http://127.0.0.1:1/", Timeout: 1})
			done <- err
		}()
		select {
		case err := <-done:
			if err == nil {
				tag += ":unexpected-success"
			}
		case <-time.After(5 * time.Second):
			return &fail{"C07/harness/proxy-push-did-not-return", "SendHTTPProxyRequest with a failing transport write did not return within 5 s"}, tag
		}
		sl.cl.Far.FailWriteAfter.Store(-1)
		if cc := w.srv.SM.GetControlConnectionByClientID(w.ids[ci]); cc != nil {
			for _, x := range w.slots {
				if x.cl.ConnID == cc.GetConnID() && (x.cl.Far.IsClosed() || cc.Stream == nil) {
					return &fail{"C07/lookup-returns-connection-without-transport/after-failed-push-returned",
						fmt.Sprintf("a proxy-request push to client %d failed on a transport write error and returned; a lookup of the client still returns %s, whose transport is closed=%v and whose stream is nil=%v", ci, cc.GetConnID(), x.cl.Far.IsClosed(), cc.Stream == nil)}, tag
				}
			}
		}
		// the outbound stream of this connection may now be cut mid-packet: the peer hangs up
		sl.cl.Near.Close()
	case "heartbeat":
		s := pickCtl()
		if s == nil {
			return nil, tag + ":skipped"
		}
		s.cl.Push(&packet.TransferPacket{PacketType: packet.Heartbeat})
	case "sweep":
		// leave the masked connections idle for > timeout, refresh the others, then sweep
		time.Sleep(6 * time.Millisecond)
		for i, s := range w.live() {
			if a.Mask&(1<<uint(i)) == 0 && !s.handedOver {
				s.cl.Push(&packet.TransferPacket{PacketType: packet.Heartbeat})
			}
		}
		w.realSweep()
	case "sweep_outage":
		// the heartbeat-timeout sweep while the state store (and with it the cloud control's offline
		// notification) fails: the evicted connections must be closed and forgotten all the same
		time.Sleep(6 * time.Millisecond)
		for i, s := range w.live() {
			if a.Mask&(1<<uint(i)) == 0 && !s.handedOver {
				s.cl.Push(&packet.TransferPacket{PacketType: packet.Heartbeat})
			}
		}
		w.outage.Down.Store(true)
		w.realSweep()
		w.outage.Down.Store(false)
	case "close_server_outage", "close_peer_outage":
		// the connection ends while the state store is unreachable (every storage call fails)
		s := pick()
		if s == nil {
			return nil, tag + ":skipped"
		}
		w.outage.Down.Store(true)
		if a.Kind == "close_server_outage" {
			w.srv.SM.CloseConnection(s.cl.ConnID)
		} else {
			s.cl.Near.Close()
		}
		w.adapterRole()
		w.outage.Down.Store(false)
	case "close_server":
		s := pick()
		if s == nil {
			return nil, tag + ":skipped"
		}
		w.srv.SM.CloseConnection(s.cl.ConnID)
	case "close_peer":
		s := pick()
		if s == nil {
			return nil, tag + ":skipped"
		}
		s.cl.Near.Close()
	}
	w.adapterRole()
	return w.invariants(), tag
}

func (w *world) invariants() *fail {
	sm := w.srv.SM
	reg := sm.GetClientRegistry()
	byConn := map[string]*slot{}
	for _, s := range w.slots {
		byConn[s.cl.ConnID] = s
	}
	// lookups by client id
	for ci := 0; ci < nClients; ci++ {
		id := w.ids[ci]
		cc := sm.GetControlConnectionByClientID(id)
		// the interface-typed accessor (what the HTTP side uses for "is the client online?") must agree: nothing is nil
		if ci := sm.GetControlConnectionInterface(id); (ci == nil) != (cc == nil) {
			return &fail{"C07/interface-lookup-disagrees-with-lookup", fmt.Sprintf("client %d: GetControlConnectionByClientID nil=%v, GetControlConnectionInterface == nil is %v", ci2(ci), cc == nil, ci == nil)}
		} else if ci != nil && ci.GetConnID() != cc.GetConnID() {
			return &fail{"C07/interface-lookup-disagrees-with-lookup", fmt.Sprintf("%s vs %s", ci.GetConnID(), cc.GetConnID())}
		}
		// the most recent successful login that is still live
		var cur *slot
		for _, s := range w.live() {
			if s.authed == id && !s.tunnelOnly && !s.handedOver && (cur == nil || s.loginSeq > cur.loginSeq) {
				cur = s
			}
		}
		if cc != nil {
			s := byConn[cc.GetConnID()]
			switch {
			case s == nil:
				return &fail{"C07/lookup-returns-unknown-connection", fmt.Sprintf("client %d -> %s", ci, cc.GetConnID())}
			case s.dead:
				return &fail{"C07/lookup-returns-closed-connection", fmt.Sprintf("client %d -> %s which was closed/evicted", ci, cc.GetConnID())}
			case !cc.IsAuthenticated() || cc.GetClientID() != id:
				return &fail{"C07/lookup-returns-foreign-connection", fmt.Sprintf("lookup of client id %d returns connection %s authenticated=%v as %d", id, cc.GetConnID(), cc.IsAuthenticated(), cc.GetClientID())}
			case s.handedOver:
				return &fail{"C07/lookup-returns-connection-handed-over-to-a-tunnel", fmt.Sprintf("client %d -> %s, which left the control registry when its TunnelOpen was accepted and now carries raw tunnel bytes", id, cc.GetConnID())}
			case s.tunnelOnly:
				return &fail{"C07/lookup-returns-tunnel-type-connection", fmt.Sprintf("client %d -> %s, which only completed a tunnel-type handshake", id, cc.GetConnID())}
			case s.authed != id:
				return &fail{"C07/lookup-returns-connection-not-logged-in-as-client", fmt.Sprintf("client %d -> %s (model: %d)", id, cc.GetConnID(), s.authed)}
			}
			if cur != nil && s != cur {
				return &fail{"C07/lookup-returns-superseded-connection", fmt.Sprintf("client %d: lookup gives %s but the most recent live login is %s", ci, cc.GetConnID(), cur.cl.ConnID)}
			}
		} else if cur != nil {
			return &fail{"C07/live-current-connection-not-found", fmt.Sprintf("client %d logged in last on live connection %s but lookup returns nothing", ci, cur.cl.ConnID)}
		}
		// at most one registered connection per client (all handshakes here are control-type)
		n := 0
		for _, c := range reg.List() {
			if sl := byConn[c.GetConnID()]; sl != nil && sl.tunnelOnly {
				continue
			}
			if c.IsAuthenticated() && c.GetClientID() == id {
				n++
			}
		}
		if n > 1 {
			return &fail{"C07/several-control-connections-for-one-client", fmt.Sprintf("client %d has %d registered authenticated connections", ci, n)}
		}
	}
	// closed / evicted connections are gone from every view and their transport is closed
	for _, s := range w.slots {
		if !s.dead {
			continue
		}
		id := s.cl.ConnID
		if sm.GetControlConnection(id) != nil {
			return &fail{"C07/closed-connection-still-registered", id}
		}
		if _, ok := sm.GetConnection(id); ok {
			return &fail{"C07/closed-connection-still-in-connection-map", id}
		}
		for _, c := range reg.ListAuthenticated() {
			if c.GetConnID() == id {
				return &fail{"C07/closed-connection-listed-authenticated", id}
			}
		}
		if !s.cl.Far.IsClosed() {
			return &fail{"C07/closed-connection-transport-open", id}
		}
	}
	// counts
	liveN, ctrlN, handed := 0, 0, 0
	for _, s := range w.live() {
		liveN++
		if s.handedOver {
			handed++ // moved from the connection map to the tunnel machinery at a moment the harness does not observe
		}
		if s.handshook && !s.handedOver && sm.GetControlConnection(s.cl.ConnID) != nil {
			ctrlN++
		}
		if s.handedOver && sm.GetControlConnection(s.cl.ConnID) != nil {
			return &fail{"C07/handed-over-tunnel-connection-still-in-control-registry", s.cl.ConnID}
		}
	}
	if n := len(reg.List()); reg.Count() != n {
		return &fail{"C07/registry-count-differs-from-registry-content", fmt.Sprintf("Count() = %d, %d connections listed", reg.Count(), n)}
	}
	st := sm.GetConnectionStats()
	if st.TotalConnections > liveN || st.TotalConnections < liveN-handed {
		return &fail{"C07/total-connection-count-wrong", fmt.Sprintf("stats say %d, %d connections are open", st.TotalConnections, liveN)}
	}
	if st.ControlConnections != ctrlN || reg.Count() != ctrlN {
		return &fail{"C07/control-connection-count-wrong", fmt.Sprintf("stats %d registry %d, model %d", st.ControlConnections, reg.Count(), ctrlN)}
	}
	if w.cfg.MaxControl > 0 && reg.Count() > w.cfg.MaxControl {
		return &fail{"C07/control-cap-exceeded", fmt.Sprintf("%d > %d", reg.Count(), w.cfg.MaxControl)}
	}
	if sm.GetActiveChannels() != st.ControlConnections+st.TunnelConnections {
		return &fail{"C07/active-channels-inconsistent", fmt.Sprintf("%d vs %d+%d", sm.GetActiveChannels(), st.ControlConnections, st.TunnelConnections)}
	}
	// a live connection that the model says is registered must not have been silently dropped
	for _, s := range w.live() {
		if s.handshook && !s.handedOver && sm.GetControlConnection(s.cl.ConnID) == nil {
			return &fail{"C07/live-connection-dropped-from-registry-with-open-transport", s.cl.ConnID}
		}
	}
	return nil
}

func ci2(ci session.ControlConnectionInterface) int64 {
	if ci == nil {
		return 0
	}
	return ci.GetClientID()
}

func runCase(t vkit.TB, c Case) {
	w, err := newWorld(c)
	if err != nil {
		t.Fatalf("harness: %v", err)
	}
	defer w.srv.Close()
	var tags []string
	interesting := false
	for n, a := range c.Actions {
		f, tag := w.step(a)
		tags = append(tags, tag)
		vkit.Class("step:" + tag)
		if f != nil {
			vkit.Violation(t, f.key, fmt.Sprintf("step %d (%s): %s; steps so far: %s", n, tag, f.detail, strings.Join(tags, ",")), c)
			vkit.Case("known", false, "")
			return
		}
		if strings.HasPrefix(tag, "login:") || tag == "login_tunnel" || strings.HasPrefix(tag, "login_bad") || strings.HasPrefix(tag, "tunnel_open") {
			interesting = true
		}
	}
	// every other case ends with a server shutdown while connections are still up: afterwards no lookup by
	// client id may return a connection (they are all closed), by either accessor
	if len(c.Actions)%2 == 1 {
		w.srv.SM.Close()
		for ci := 0; ci < nClients; ci++ {
			if cc := w.srv.SM.GetControlConnectionByClientID(w.ids[ci]); cc != nil {
				vkit.Violation(t, "C07/lookup-returns-closed-connection/after-session-manager-shutdown", fmt.Sprintf("client %d -> %s after SessionManager.Close()", ci, cc.GetConnID()), c)
				return
			}
			if ci2x := w.srv.SM.GetControlConnectionInterface(w.ids[ci]); ci2x != nil {
				vkit.Violation(t, "C07/lookup-returns-closed-connection/after-session-manager-shutdown", fmt.Sprintf("client %d -> interface lookup not nil after SessionManager.Close()", ci), c)
				return
			}
		}
		if n := w.srv.SM.GetClientRegistry().Count(); n != 0 {
			vkit.Violation(t, "C07/counts-do-not-return-to-zero/after-session-manager-shutdown", fmt.Sprintf("registry count %d", n), c)
			return
		}
		vkit.Case("sequence+shutdown", interesting, fmt.Sprintf("%d/%d/%s", c.MaxControl, c.MaxConns, strings.Join(tags, ",")))
		return
	}
	// close everything: counts must return to zero
	for _, s := range w.live() {
		s.cl.Near.Close()
	}
	w.adapterRole()
	if f := w.invariants(); f != nil {
		vkit.Violation(t, f.key+"/after-closing-all", f.detail, c)
		return
	}
	st := w.srv.SM.GetConnectionStats()
	if st.TotalConnections != 0 || st.ControlConnections != 0 || w.srv.SM.GetActiveChannels() != 0 {
		vkit.Violation(t, "C07/counts-do-not-return-to-zero", fmt.Sprintf("%+v", st), c)
		return
	}
	vkit.Case("sequence", interesting, fmt.Sprintf("%d/%d/%s", c.MaxControl, c.MaxConns, strings.Join(tags, ",")))
	if interesting {
		vkit.Sample("sequence", c)
	}
}

func genCase(t *rapid.T) Case {
	c := Case{MaxControl: rapid.SampledFrom([]int{0, 2, 3}).Draw(t, "maxControl"), MaxConns: rapid.SampledFrom([]int{0, 0, 4}).Draw(t, "maxConns")}
	n := rapid.IntRange(2, vkit.Pick(22, 40)).Draw(t, "n")
	c.Actions = append(c.Actions, Action{Kind: "accept"}, Action{Kind: "accept"})
	for i := 0; i < n; i++ {
		k := rapid.SampledFrom([]string{"accept", "accept", "login", "login", "login", "login", "login_tunnel", "login_tunnel", "tunnel_open", "tunnel_open", "login_bad", "login_bad", "phase1", "kick", "heartbeat", "sweep", "sweep_outage", "reregister", "proxy_push_fail", "close_server", "close_peer", "close_server_outage", "close_peer_outage"}).Draw(t, "kind")
		a := Action{Kind: k, Conn: rapid.IntRange(0, 7).Draw(t, "conn"), Client: rapid.IntRange(0, nClients-1).Draw(t, "client")}
		if k == "sweep" || k == "kick" || k == "sweep_outage" {
			a.Mask = rapid.IntRange(0, 31).Draw(t, "mask")
			if k != "kick" && rapid.IntRange(0, 2).Draw(t, "rare") != 0 {
				a.Kind = "login"
			}
		}
		c.Actions = append(c.Actions, a)
	}
	return c
}

func TestRegistrySequences(t *testing.T) {
	vkit.Check(t, 3000, 80000, func(t *rapid.T) { runCase(t, genCase(t)) })
}

// TestEnumerated: every sequence up to a depth bound over 2 clients x 3 connections.
func TestEnumerated(t *testing.T) {
	var alpha []Action
	for conn := 0; conn < 3; conn++ {
		for cl := 0; cl < 2; cl++ {
			alpha = append(alpha, Action{Kind: "login", Conn: conn, Client: cl})
		}
		alpha = append(alpha, Action{Kind: "close_peer", Conn: conn}, Action{Kind: "close_server", Conn: conn})
	}
	alpha = append(alpha, Action{Kind: "kick", Client: 0, Mask: 1}, Action{Kind: "accept"}, Action{Kind: "proxy_push_fail", Client: 0})
	depth := vkit.Pick(3, 5)
	total := 1
	for i := 0; i < depth; i++ {
		total *= len(alpha)
	}
	n := 0
	for k := 0; k < total; k++ {
		if !vkit.Mine(k) {
			continue
		}
		c := Case{MaxControl: 2, Actions: []Action{{Kind: "accept"}, {Kind: "accept"}, {Kind: "accept"}}}
		x := k
		for d := 0; d < depth; d++ {
			c.Actions = append(c.Actions, alpha[x%len(alpha)])
			x /= len(alpha)
		}
		runCase(t, c)
		n++
	}
	vkit.AddExtra("enumerated_sequences", int64(n))
	vkit.Exhaustive(fmt.Sprintf("all sequences of length %d over %d actions (3 connections, 2 clients, control cap 2)", depth, len(alpha)), true)
}

// TestConcurrent: the same operations from several goroutines; invariants at quiescence.
func TestConcurrent(t *testing.T) {
	rounds := vkit.PerShard(vkit.Pick(300, 6000))
	vkit.Check(t, rounds*vkit.NShards(), rounds*vkit.NShards(), func(t *rapid.T) {
		c := Case{MaxControl: rapid.SampledFrom([]int{0, 3}).Draw(t, "maxControl")}
		w, err := newWorld(c)
		if err != nil {
			t.Fatalf("harness: %v", err)
		}
		defer w.srv.Close()
		nconn := rapid.IntRange(3, 5).Draw(t, "nconn")
		for i := 0; i < nconn; i++ {
			w.step(Action{Kind: "accept"})
		}
		type op struct{ slot, client int }
		var scripts [][]op
		ng := rapid.IntRange(2, 4).Draw(t, "goroutines")
		for g := 0; g < ng; g++ {
			var s []op
			for j := 0; j < rapid.IntRange(1, 3).Draw(t, "nops"); j++ {
				s = append(s, op{rapid.IntRange(0, nconn-1).Draw(t, "slot"), rapid.IntRange(0, 1).Draw(t, "client")})
			}
			scripts = append(scripts, s)
		}
		// each connection is driven by at most one goroutine (a connection's packets are sequential)
		owner := map[int]int{}
		for g, s := range scripts {
			for _, o := range s {
				if _, ok := owner[o.slot]; !ok {
					owner[o.slot] = g
				}
			}
		}
		var start atomic.Bool
		var wg sync.WaitGroup
		var mu sync.Mutex
		for g, s := range scripts {
			wg.Add(1)
			go func(g int, s []op) {
				defer wg.Done()
				for !start.Load() {
				}
				for _, o := range s {
					if owner[o.slot] != g {
						continue
					}
					sl := w.slots[o.slot]
					sl.handshook = true
					resp, err := sl.cl.Login(w.ids[o.client], w.secrets[o.client], "control")
					if err == nil && resp != nil && resp.Success {
						mu.Lock()
						w.seq++
						sl.authed = w.ids[o.client]
						sl.loginSeq = w.seq
						mu.Unlock()
					}
				}
			}(g, s)
		}
		start.Store(true)
		wg.Wait()
		w.adapterRole()
		// with concurrent logins the "most recent" login is not defined by the harness: only
		// the consistency part of the invariants is asserted
		for _, s := range w.slots {
			s.loginSeq = 0
		}
		f := w.invariantsConcurrent()
		if f != nil {
			vkit.Violation(t, f.key+"/concurrent", f.detail, map[string]any{"nconn": nconn, "scripts": fmt.Sprint(scripts), "max_control": c.MaxControl})
			return
		}
		vkit.Case("concurrent", ng >= 2, fmt.Sprint(nconn, scripts, c.MaxControl))
	})
}

// invariantsConcurrent: lookup soundness + closed connections gone + counts, without the
// "most recent login" expectation.
func (w *world) invariantsConcurrent() *fail {
	sm := w.srv.SM
	byConn := map[string]*slot{}
	for _, s := range w.slots {
		byConn[s.cl.ConnID] = s
	}
	for ci := 0; ci < nClients; ci++ {
		id := w.ids[ci]
		cc := sm.GetControlConnectionByClientID(id)
		if cc == nil {
			continue
		}
		s := byConn[cc.GetConnID()]
		if s == nil || s.dead {
			return &fail{"C07/lookup-returns-closed-connection", fmt.Sprintf("client %d -> %s", ci, cc.GetConnID())}
		}
		if !cc.IsAuthenticated() || cc.GetClientID() != id {
			return &fail{"C07/lookup-returns-foreign-connection", fmt.Sprintf("client id %d -> %s authenticated as %d", id, cc.GetConnID(), cc.GetClientID())}
		}
	}
	for _, s := range w.slots {
		if s.dead {
			if sm.GetControlConnection(s.cl.ConnID) != nil {
				return &fail{"C07/closed-connection-still-registered", s.cl.ConnID}
			}
			if _, ok := sm.GetConnection(s.cl.ConnID); ok {
				return &fail{"C07/closed-connection-still-in-connection-map", s.cl.ConnID}
			}
		}
	}
	if n := len(w.live()); sm.GetConnectionStats().TotalConnections != n {
		return &fail{"C07/total-connection-count-wrong", fmt.Sprintf("stats %d, open %d", sm.GetConnectionStats().TotalConnections, n)}
	}
	return nil
}

func TestReplay(t *testing.T) {
	path := vkit.Replaying()
	if path == "" {
		t.Skip("no VERIF_REPLAY")
	}
	var rr struct {
		RemoveRace string `json:"remove_race"`
	}
	vkit.LoadReplay(path, &rr)
	if rr.RemoveRace != "" { // schedule-dependent: the replay unit is the search itself
		TestRemoveRace(t)
		return
	}
	var sc StallCase
	vkit.LoadReplay(path, &sc)
	if sc.Stalled != "" {
		if key, detail, err := runStalled(sc); err != nil {
			t.Fatal(err)
		} else if key != "" {
			vkit.Violation(t, key, detail, sc)
		}
		return
	}
	var c Case
	if _, err := vkit.LoadReplay(path, &c); err != nil {
		t.Fatal(err)
	}
	runCase(t, c)
}

// TestRemoveRace: lookups racing the removal of a connection. A lookup that STARTS after the
// connection's transport has been closed must not return that connection (closing and detaching
// are one step for every observer); nor may a racing lookup ever return a connection of another
// client. The closer is, per round, the server (CloseConnection), a kick, or the duplicate login of
// the same client on another connection.
func TestRemoveRace(t *testing.T) {
	rounds := vkit.PerShard(vkit.Pick(1600, 40000))
	vkit.Check(t, rounds*vkit.NShards(), rounds*vkit.NShards(), func(t *rapid.T) {
		how := rapid.SampledFrom([]string{"close", "kick", "duplicate-login"}).Draw(t, "how")
		nLook := rapid.IntRange(1, 3).Draw(t, "lookers")
		w, err := newWorld(Case{})
		if err != nil {
			t.Fatalf("harness: %v", err)
		}
		defer w.srv.Close()
		w.step(Action{Kind: "accept"})
		w.step(Action{Kind: "accept"})
		x, y := w.slots[0], w.slots[1]
		if r, err := x.cl.Login(w.ids[0], w.secrets[0], "control"); err != nil || r == nil || !r.Success {
			t.Fatalf("HARNESS-ERROR login: %+v %v", r, err)
		}
		x.handshook, x.authed = true, w.ids[0]
		sm := w.srv.SM
		var start atomic.Bool
		var done atomic.Bool
		var wg sync.WaitGroup
		var bad atomic.Value
		for i := 0; i < nLook; i++ {
			wg.Add(1)
			go func() {
				defer wg.Done()
				for !start.Load() {
				}
				for n := 0; !done.Load() || n < 50; n++ {
					closedBefore := x.cl.Far.IsClosed()
					cc := sm.GetControlConnectionByClientID(w.ids[0])
					if cc == nil {
						if done.Load() {
							n++
						}
						continue
					}
					if cc.GetClientID() != w.ids[0] || !cc.IsAuthenticated() {
						bad.Store(fmt.Sprintf("C07/lookup-returns-foreign-connection|lookup of %d gave %s (client %d, authenticated %v)", w.ids[0], cc.GetConnID(), cc.GetClientID(), cc.IsAuthenticated()))
						return
					}
					// CloseConnection closes the transport before it deregisters (the closing operation is still
					// in progress then); the registry's own removals (duplicate login, kick) are one step
					if closedBefore && how != "close" && cc.GetConnID() == x.cl.ConnID {
						bad.Store("C07/lookup-returns-closed-connection|the lookup started after the transport of " + x.cl.ConnID + " was closed and still returned it (" + how + ")")
						return
					}
				}
			}()
		}
		start.Store(true)
		switch how {
		case "close":
			sm.CloseConnection(x.cl.ConnID)
		case "kick":
			sm.KickOldControlConnection(w.ids[0], "none")
		case "duplicate-login":
			y.cl.Login(w.ids[0], w.secrets[0], "control")
			y.handshook, y.authed = true, w.ids[0]
		}
		done.Store(true)
		// once the removing operation has returned, no lookup may return the removed connection
		if cc := sm.GetControlConnectionByClientID(w.ids[0]); cc != nil && cc.GetConnID() == x.cl.ConnID {
			bad.Store("C07/lookup-returns-closed-connection|" + how + " of " + x.cl.ConnID + " has returned and a lookup still returns it")
		}
		wg.Wait()
		if b := bad.Load(); b != nil {
			parts := strings.SplitN(b.(string), "|", 2)
			vkit.Violation(t, parts[0]+"/racing-removal", parts[1], map[string]any{"remove_race": how, "lookers": nLook})
			return
		}
		w.adapterRole()
		if f := w.invariantsConcurrent(); f != nil {
			vkit.Violation(t, f.key+"/after-racing-removal", f.detail, map[string]any{"remove_race": how, "lookers": nLook})
			return
		}
		vkit.Case("remove-race/"+how, true, fmt.Sprint(how, nLook))
	})
}
