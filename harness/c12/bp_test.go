package c12

// UDP -> tunnel under tunnel back-pressure, around the 20 ms flush timer.
//
// The tunnel's write side has pipe semantics (net.Pipe, a synchronous stream, a full socket
// buffer): Write hands the caller's slice over and returns only when the peer has taken it;
// the peer sees the bytes the slice holds AT THAT MOMENT. A case is a list of datagram
// groups: group 0 is offered, the harness waits until a tunnel Write is in flight (the timer
// flush), offers the next group WHILE that write is blocked, gives the relay a moment to
// read it, and only then lets the peer take the write - and so on. Finally the UDP side
// ends and everything else is drained.
//
// Oracle: what the peer took, concatenated, decodes to exactly the offered datagrams
// (boundaries, contents, order); the relay forwards everything and returns.

import (
	"bytes"
	"encoding/json"
	"io"
	"sync"
	"testing"
	"time"

	"pgregory.net/rapid"

	"tunnox-core/internal/utils/iocopy"
	"tunnox-core/verif/vkit"
)

type BPCase struct {
	Groups  [][]DG `json:"groups"`
	GraceUS int    `json:"grace_us"` // how long a blocked write is left in flight after the next group was offered
}

type bpTunnel struct {
	h         *hub
	writes    chan []byte
	taken     chan struct{}
	closedCh  chan struct{}
	closeOnce sync.Once
	readGate  chan struct{}
	gateOnce  sync.Once
	// under h.mu
	entered, done int
	out           []byte
	closeWrites   int
	closed        bool
}

func (t *bpTunnel) Read(p []byte) (int, error) {
	select {
	case <-t.readGate:
		return 0, io.EOF
	case <-t.closedCh:
		return 0, io.ErrClosedPipe
	}
}

func (t *bpTunnel) Write(p []byte) (int, error) {
	t.h.do(func() { t.entered++ })
	select {
	case t.writes <- p:
	case <-t.closedCh:
		return 0, io.ErrClosedPipe
	}
	select {
	case <-t.taken:
		return len(p), nil
	case <-t.closedCh:
		return 0, io.ErrClosedPipe
	}
}

func (t *bpTunnel) CloseWrite() error { t.h.do(func() { t.closeWrites++ }); return nil }
func (t *bpTunnel) Close() error {
	t.closeOnce.Do(func() { close(t.closedCh) })
	t.h.do(func() { t.closed = true })
	return nil
}
func (t *bpTunnel) releaseRead() { t.gateOnce.Do(func() { close(t.readGate) }) }

// take lets the peer consume one pending Write (copying what the slice holds now).
func (t *bpTunnel) take(d time.Duration) bool {
	select {
	case p := <-t.writes:
		b := append([]byte(nil), p...)
		t.h.do(func() { t.out = append(t.out, b...); t.done++ })
		select {
		case t.taken <- struct{}{}:
		case <-t.closedCh: // the writer has already left through the closed tunnel
		}
		return true
	case <-time.After(d):
		return false
	}
}

func runBP(c *BPCase) (fail *failure, class string, nt bool, sig string) {
	var all []DG
	for _, g := range c.Groups {
		all = append(all, g...)
	}
	if len(all) == 0 {
		return nil, "", false, ""
	}
	baseline, _ := relayGoroutines()
	h := newHub()
	ps := &pktSide{h: h}
	tn := &bpTunnel{h: h, writes: make(chan []byte), taken: make(chan struct{}), closedCh: make(chan struct{}), readGate: make(chan struct{})}
	returned := false
	var res *iocopy.Result
	go func() {
		r := iocopy.UDP(ps, tn, &iocopy.Options{LogPrefix: "c12"})
		h.do(func() { res = r; returned = true })
	}()
	stopDrain := make(chan struct{})
	drainDone := make(chan struct{})
	draining := false
	defer func() {
		// nothing survives the case: ending both sides makes every relay goroutine fall out
		ps.Close()
		tn.releaseRead()
		tn.Close()
		h.wait(bound(), func() bool { return returned })
		if draining {
			close(stopDrain)
			<-drainDone
		}
	}()
	B := bound()
	grace := time.Duration(c.GraceUS) * time.Microsecond
	fed, wantLen := 0, 0
	for gi, g := range c.Groups {
		for _, d := range g {
			b := d.bytes()
			h.do(func() { ps.q = append(ps.q, b) })
			fed++
			wantLen += 2 + d.Len
		}
		if gi > 0 {
			// a tunnel write is blocked right now: leave it in flight while the relay reads on
			want := int64(0)
			for _, d := range all[:fed] {
				want += int64(d.Len)
			}
			h.wait(grace, func() bool { return ps.consumed >= want })
			tn.take(B)
		}
		if gi == len(c.Groups)-1 {
			break
		}
		// wait until a tunnel write is in flight again (timer flush, or an early flush)
		if !h.wait(B, func() bool { return tn.entered > tn.done || returned }) {
			return hangf("C12/udp/udp-to-tunnel/datagrams-not-forwarded/flush-timer", "%d datagrams offered, %d of %d encoded bytes taken by the tunnel peer, no further tunnel write within %v", fed, len(tn.out), wantLen, B), "", false, ""
		}
	}
	// the UDP side ends: the relay has to flush what it holds; the peer takes everything
	h.do(func() { ps.eof = true })
	draining = true
	go func() {
		defer close(drainDone)
		for {
			select {
			case <-stopDrain:
				return
			default:
			}
			tn.take(2 * time.Millisecond)
		}
	}()
	if !h.wait(B, func() bool { return tn.closeWrites > 0 || returned }) {
		return hangf("C12/udp/udp-to-tunnel/back-pressured-tunnel/direction-not-finished", "UDP side ended, UDP->tunnel direction still running after %v (%d of %d encoded bytes taken)", B, len(tn.out), wantLen), "", false, ""
	}
	tn.releaseRead()
	if !h.wait(B, func() bool { return returned }) {
		return hangf("C12/udp/no-return/back-pressured-tunnel", "UDP() still running %v after both sides ended", B), "", false, ""
	}
	var out []byte
	h.do(func() { out = tn.out })
	dec, rest, bad := refDecode(out)
	const k = "C12/udp/udp-to-tunnel/back-pressured-tunnel/"
	for i := 0; i < len(dec) && i < len(all); i++ {
		if w := all[i].bytes(); !bytes.Equal(dec[i], w) {
			return failf(k+"datagram-altered", "record %d of the stream the tunnel peer took: %d bytes, datagram %d had %d (first difference at %d); %d groups, a later group was offered while a tunnel write was in flight",
				i, len(dec[i]), i, len(w), firstDiff(dec[i], w), len(c.Groups)), "", false, ""
		}
	}
	if bad != "" || rest != 0 {
		return failf(k+"stream-not-decodable", "the tunnel peer took %d bytes that do not end on a record boundary (%d trailing bytes; %s)", len(out), rest, bad), "", false, ""
	}
	if len(dec) != len(all) {
		return failf(k+"datagram-count", "%d datagrams offered, %d records taken by the tunnel peer", len(all), len(dec)), "", false, ""
	}
	if res.SendError != nil {
		return failf(k+"error-reported", "no transport error occurred, Result.SendError=%v", res.SendError), "", false, ""
	}
	if f := leakAfter(baseline); f != nil {
		return f, "", false, ""
	}
	b, _ := json.Marshal(c)
	return nil, "udp:back-pressured-tunnel/groups=" + map[bool]string{true: "2", false: "3+"}[len(c.Groups) == 2], len(c.Groups) >= 2, string(b)
}

// TestUDPBackPressure: datagrams arriving while the timer's tunnel write is blocked.
func TestUDPBackPressure(t *testing.T) {
	resetSlowBudget()
	vkit.Check(t, 320, 4000, func(t *rapid.T) {
		c := &BPCase{GraceUS: rapid.SampledFrom([]int{300, 1500, 4000}).Draw(t, "grace")}
		ng := rapid.IntRange(2, 3).Draw(t, "groups")
		for g := 0; g < ng; g++ {
			n := rapid.IntRange(1, 4).Draw(t, "n")
			var grp []DG
			for i := 0; i < n; i++ {
				l := rapid.IntRange(1, 300).Draw(t, "len")
				if rapid.IntRange(0, 9).Draw(t, "big") == 0 {
					l = rapid.IntRange(301, 20000).Draw(t, "biglen")
				}
				grp = append(grp, DG{Len: l, Seed: rapid.Uint64().Draw(t, "seed")})
			}
			c.Groups = append(c.Groups, grp)
		}
		check(t, Case{BP: c})
	})
}

// TestUDPBoundarySizes: datagrams at and beyond the IPv4 maximum, both directions.
func TestUDPBoundarySizes(t *testing.T) {
	resetSlowBudget()
	if vkit.Shard() != 0 {
		t.Skip("single shard")
	}
	for _, l := range []int{65506, 65507, 65508, 65520, 65534, 65535} {
		for _, mode := range []string{"eof", "open", "idle"} {
			c := UDPCase{Records: []DG{{Len: 3, Seed: 1}, {Len: l, Seed: uint64(l)}, {Len: 5, Seed: 2}}, Cut: -1, End: "eof", Mode: mode, FeedFirst: true}
			if mode != "idle" {
				c.Dgrams = []DG{{Len: l, Seed: 7}, {Len: 1, Seed: 8}, {Len: l, Seed: 9}}
			}
			check(t, Case{UDP: &c})
			c2 := c
			c2.Fixed, c2.End = 1499, "err"
			check(t, Case{UDP: &c2})
		}
	}
}
