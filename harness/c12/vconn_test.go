package c12

// The UDP listen side of a mapping: mapping.UDPMappingAdapter accepts one
// mapping.UDPVirtualConn per local source address and tunnel.runDataCopy hands it to
// iocopy.UDP as the UDP side. Its Write queues the datagram for an asynchronous writeLoop,
// while iocopy.UDP's tunnel->UDP direction decodes records in place in ONE reused read
// buffer: whatever Write keeps must not alias the caller's slice.
//
// Here the real adapter listens on a loopback port, a plain UDP socket plays the local
// application, and
//   - UDPCase.Mode "listen" runs iocopy.UDP over the accepted UDPVirtualConn (bursts of
//     distinct-content records in chunked tunnel reads; the application socket must
//     receive them byte for byte), and
//   - VConnCase is the direct metamorphic check: Write(p), then overwrite p; what the
//     application receives must be what p held when Write was called.

import (
	"bytes"
	"encoding/json"
	"io"
	"net"
	"os"
	"sync"
	"testing"
	"time"

	"pgregory.net/rapid"

	"tunnox-core/internal/client/mapping"
	"tunnox-core/internal/config"
	"tunnox-core/verif/vkit"
)

type listenEnv struct {
	ad       *mapping.UDPMappingAdapter
	dst      *net.UDPAddr
	accepted chan io.ReadWriteCloser
	used     map[int]bool // local ports of earlier application sockets (a session is keyed by source address)
}

var lenv struct {
	mu   sync.Mutex
	env  *listenEnv
	dead bool
}

// getListenEnv starts (once per process) a real UDP mapping adapter on a loopback port.
// The adapter binds with SO_REUSEPORT, so the port is derived from the pid (outside the
// ephemeral range): two shards can then never share a port and steal each other's datagrams.
func getListenEnv() *listenEnv {
	lenv.mu.Lock()
	defer lenv.mu.Unlock()
	if lenv.env != nil || lenv.dead {
		return lenv.env
	}
	if !realOK() {
		lenv.dead = true
		return nil
	}
	for attempt := 0; attempt < 8; attempt++ {
		port := 10000 + (os.Getpid()*7+attempt*1301)%20000
		ad := mapping.NewUDPMappingAdapter()
		if err := ad.StartListener(config.MappingConfig{MappingID: "c12", Protocol: "udp", LocalPort: port}); err != nil {
			continue
		}
		env := &listenEnv{ad: ad, dst: &net.UDPAddr{IP: net.IPv4(127, 0, 0, 1), Port: port},
			accepted: make(chan io.ReadWriteCloser, 64), used: map[int]bool{}}
		go func() {
			for {
				c, err := ad.Accept()
				if err != nil {
					return
				}
				env.accepted <- c
			}
		}()
		// self-test: a datagram to the port yields exactly one session
		if app, vc := env.session([]byte("c12-selftest")); vc != nil {
			vc.Close()
			app.Close()
			lenv.env = env
			return env
		}
		ad.Close()
	}
	lenv.dead = true
	return nil
}

// session opens a fresh application socket, sends hello to the mapping port and returns
// the virtual connection the adapter created for it (nil when that does not happen in time:
// an environment problem, not a verdict).
func (e *listenEnv) session(hello []byte) (*net.UDPConn, io.ReadWriteCloser) {
	for {
		select {
		case stale := <-e.accepted:
			stale.Close()
			continue
		default:
		}
		break
	}
	var app *net.UDPConn
	for try := 0; try < 16; try++ {
		a, err := net.ListenUDP("udp4", &net.UDPAddr{IP: net.IPv4(127, 0, 0, 1)})
		if err != nil {
			return nil, nil
		}
		p := a.LocalAddr().(*net.UDPAddr).Port
		if e.used[p] {
			a.Close()
			continue
		}
		e.used[p] = true
		app = a
		break
	}
	if app == nil {
		return nil, nil
	}
	app.SetReadBuffer(4 << 20)
	if _, err := app.WriteToUDP(hello, e.dst); err != nil {
		app.Close()
		return nil, nil
	}
	select {
	case vc := <-e.accepted:
		return app, vc
	case <-time.After(3 * time.Second):
		app.Close()
		return nil, nil
	}
}

// appReader collects what the application socket receives.
type appReader struct {
	h   *hub
	got [][]byte
}

func startAppReader(h *hub, app *net.UDPConn) *appReader {
	r := &appReader{h: h}
	go func() {
		buf := make([]byte, 65536)
		for {
			n, _, err := app.ReadFromUDP(buf)
			if err != nil {
				return
			}
			b := append([]byte(nil), buf[:n]...)
			h.do(func() { r.got = append(r.got, b) })
		}
	}()
	return r
}

// ---------------------------------------------------------------------------
// direct metamorphic check of UDPVirtualConn.Write

type VConnCase struct {
	Dgrams []DG `json:"dgrams"` // written one after the other from ONE reused buffer
}

func runVConn(c *VConnCase) (fail *failure, class string, nt bool, sig string) {
	env := getListenEnv()
	if env == nil || len(c.Dgrams) == 0 || !realFits(c.Dgrams) {
		vkit.Skipped(1)
		return nil, "", false, ""
	}
	app, vc := env.session([]byte("c12-hello"))
	if vc == nil {
		vkit.Skipped(1)
		return nil, "", false, ""
	}
	defer app.Close()
	defer vc.Close()
	h := newHub()
	rd := startAppReader(h, app)
	buf := make([]byte, 65536)
	var want [][]byte
	for _, d := range c.Dgrams {
		p := buf[:d.Len]
		fill(p, d.Seed, 0)
		want = append(want, append([]byte(nil), p...))
		if n, err := vc.Write(p); err != nil || n != d.Len {
			return failf("C12/udp-virtual-conn/write-rejected", "Write of %d bytes returned (%d, %v)", d.Len, n, err), "", false, ""
		}
		// the caller owns p again (io.Writer: "Write must not retain p"): scribble over it,
		// as iocopy.UDP's next tunnel read does
		for i := range p {
			p[i] ^= 0xFF
		}
	}
	B := bound()
	h.wait(B, func() bool { return len(rd.got) >= len(want) })
	var got [][]byte
	h.do(func() { got = rd.got })
	for i := 0; i < len(got) && i < len(want); i++ {
		if !bytes.Equal(got[i], want[i]) {
			return failf("C12/udp-virtual-conn/write-retains-callers-buffer", "datagram %d of %d: %d bytes received, %d written, first difference at %d: the application received what the caller's buffer held AFTER Write returned",
				i, len(want), len(got[i]), len(want[i]), firstDiff(got[i], want[i])), "", false, ""
		}
	}
	if len(got) != len(want) {
		return hangf("C12/udp-virtual-conn/datagram-lost", "%d datagrams written to the virtual connection, %d received by the application within %v", len(want), len(got), B), "", false, ""
	}
	b, _ := json.Marshal(c)
	return nil, "vconn:write-then-overwrite", len(want) >= 2, string(b)
}

// TestUDPVirtualConnWrite: Write(p) then mutate p must not change what is delivered.
func TestUDPVirtualConnWrite(t *testing.T) {
	resetSlowBudget()
	vkit.Check(t, 400, 6000, func(t *rapid.T) {
		n := rapid.IntRange(1, 48).Draw(t, "n")
		c := &VConnCase{}
		for i := 0; i < n; i++ {
			c.Dgrams = append(c.Dgrams, DG{Len: rapid.IntRange(1, 1400).Draw(t, "len"), Seed: rapid.Uint64().Draw(t, "seed")})
		}
		check(t, Case{VC: c})
	})
}

// genListen: a burst of distinct-content records through the real UDPVirtualConn.
func genListen(t *rapid.T) *UDPCase {
	c := &UDPCase{Mode: "listen", Cut: -1}
	n := rapid.IntRange(2, 60).Draw(t, "nrec")
	budget := 60000
	for i := 0; i < n && budget > 0; i++ {
		l := rapid.IntRange(1, 1400).Draw(t, "len")
		if rapid.IntRange(0, 19).Draw(t, "big") == 0 {
			l = rapid.IntRange(1401, 9000).Draw(t, "biglen")
		}
		c.Records = append(c.Records, DG{Len: l, Seed: rapid.Uint64().Draw(t, "seed")})
		budget -= l + 1500
	}
	stream, ends := refEncode(c.Records)
	if rapid.IntRange(0, 2).Draw(t, "cutTail") == 0 { // the stream ends inside the last record
		last := 0
		if len(ends) > 1 {
			last = ends[len(ends)-2]
		}
		c.Cut = rapid.IntRange(last+1, len(stream)-1).Draw(t, "cut")
	}
	total := len(stream)
	if c.Cut >= 0 {
		total = c.Cut
	}
	c.End = rapid.SampledFrom([]string{"eof", "err", "timeout"}).Draw(t, "end")
	genChunks(t, c, ends, total)
	c.EOFWithLast = false
	c.Dgrams = genDGs(t, "dg", 1, 4, false)
	for i := range c.Dgrams {
		if c.Dgrams[i].Len > 1400 {
			c.Dgrams[i].Len = 1400
		}
	}
	return c
}

// TestUDPListenSide drives iocopy.UDP over the real listen-side virtual connection.
func TestUDPListenSide(t *testing.T) {
	resetSlowBudget()
	vkit.Check(t, 800, 12000, func(t *rapid.T) {
		check(t, Case{UDP: genListen(t)})
	})
}
