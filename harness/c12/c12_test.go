// C12 — client-side relays deliver everything and always terminate.
//
// Two relays are driven directly, exactly as internal/client/tunnel.(*Tunnel).runDataCopy,
// client.handleTCPTargetTunnel / handleUDPTargetTunnel and SOCKS5TunnelCreatorImpl.forwardData
// drive them:
//
//	iocopy.Bidirectional(local, tunnel, opts)   TCP relay  (tcp_test.go)
//	iocopy.UDP(udpSide, tunnel, opts)           UDP relay  (udp_test.go)
//
// This file holds what both parts share: the replay unit, the bounded-wait rule for
// "returns", the goroutine-leak oracle and deterministic payload bytes.
package c12

import (
	"bytes"
	"encoding/json"
	"fmt"
	"os"
	"runtime"
	"sort"
	"strings"
	"sync"
	"testing"
	"time"

	"tunnox-core/verif/vkit"
)

func TestMain(m *testing.M) {
	// shrinking re-executes relay cases that allocate ~1 MB each (and, in TestUDPEveryCut,
	// hundreds of them per attempt): keep the shrink phase of a failing run short.
	if os.Getenv("VERIF_SHRINKTIME") == "" {
		os.Setenv("VERIF_SHRINKTIME", "6s")
	}
	vkit.Main(m, "C12")
}

// Case is the JSON replay unit: exactly one of TCP / UDP is set.
type Case struct {
	TCP   *TCPCase     `json:"tcp,omitempty"`
	UDP   *UDPCase     `json:"udp,omitempty"`
	VC    *VConnCase   `json:"vconn,omitempty"`
	BP    *BPCase      `json:"backpressure,omitempty"`
	Long  *LongCase    `json:"long,omitempty"`
	RT    *RealTCPCase `json:"real_tcp,omitempty"`
	Socks *SocksCase   `json:"socks5,omitempty"`
}

// failure is what an oracle returns; timing says that the verdict rests on a bounded
// wait (the case is then re-run once before it is reported).
type failure struct {
	key, detail string
	timing      bool
}

func failf(key, format string, a ...any) *failure {
	return &failure{key: key, detail: fmt.Sprintf(format, a...)}
}
func hangf(key, format string, a ...any) *failure {
	return &failure{key: key, detail: fmt.Sprintf(format, a...), timing: true}
}

// ---------------------------------------------------------------------------
// bounded wait: "returns" is what the property promises, so a wait that expires IS the
// violation. The relays have no timer longer than 20 ms and, on the paths exercised here,
// finish in tens of microseconds; the bound is 3 s or 1000 x the median observed return
// latency, whichever is larger, and an expired wait is confirmed by re-running the case.

var lat struct {
	mu      sync.Mutex
	samples []time.Duration
	n       int
	bound   time.Duration
}

func noteLatency(d time.Duration) {
	lat.mu.Lock()
	if len(lat.samples) < 1024 {
		lat.samples = append(lat.samples, d)
	} else {
		lat.samples[lat.n%len(lat.samples)] = d
	}
	lat.n++
	if lat.n%128 == 16 { // refresh the bound now and then (a sort per call would dominate the run)
		s := append([]time.Duration(nil), lat.samples...)
		sort.Slice(s, func(i, j int) bool { return s[i] < s[j] })
		b := 1000 * s[len(s)/2]
		if b > 20*time.Second {
			b = 20 * time.Second
		}
		lat.bound = b
	}
	lat.mu.Unlock()
}

func bound() time.Duration {
	lat.mu.Lock()
	b := lat.bound
	lat.mu.Unlock()
	if b < 3*time.Second {
		b = 3 * time.Second
	}
	return b
}

// hub is a mutex + condition the harness goroutines (collectors, relay runner) share;
// wait blocks until pred holds or d expired.
type hub struct {
	mu   sync.Mutex
	cond *sync.Cond
}

func newHub() *hub { h := &hub{}; h.cond = sync.NewCond(&h.mu); return h }

func (h *hub) do(f func()) {
	h.mu.Lock()
	f()
	h.cond.Broadcast()
	h.mu.Unlock()
}

// wait reports whether pred (evaluated under the hub lock) became true within d.
func (h *hub) wait(d time.Duration, pred func() bool) bool {
	h.mu.Lock()
	defer h.mu.Unlock()
	if pred() {
		return true
	}
	expired := false
	tm := time.AfterFunc(d, func() {
		h.mu.Lock()
		expired = true
		h.cond.Broadcast()
		h.mu.Unlock()
	})
	defer tm.Stop()
	for !pred() {
		if expired {
			return false
		}
		h.cond.Wait()
	}
	return true
}

// ---------------------------------------------------------------------------
// goroutine-leak oracle: goroutines whose stack contains a frame of the relay package.

const relayPkg = "tunnox-core/internal/utils/iocopy."

var stackBuf = make([]byte, 1<<20)
var stackMu sync.Mutex

func relayGoroutines() (n int, sample string) {
	stackMu.Lock()
	defer stackMu.Unlock()
	for {
		k := runtime.Stack(stackBuf, true)
		if k < len(stackBuf) {
			for _, g := range bytes.Split(stackBuf[:k], []byte("\n\n")) {
				if bytes.Contains(g, []byte(relayPkg)) {
					n++
					if sample == "" {
						sample = string(g)
					}
				}
			}
			return
		}
		stackBuf = make([]byte, 2*len(stackBuf))
	}
}

// leakAfter waits (shortly) until no more relay goroutines exist than before the case.
func leakAfter(baseline int) *failure {
	deadline := time.Now().Add(2 * time.Second)
	for {
		n, sample := relayGoroutines()
		if n <= baseline {
			return nil
		}
		if time.Now().After(deadline) {
			fn := "?"
			for _, l := range strings.Split(sample, "\n") {
				if strings.Contains(l, relayPkg) {
					fn = strings.TrimSpace(l)
					break
				}
			}
			return hangf("C12/goroutine-outlives-return", "%d relay goroutine(s) still alive 2 s after the relay returned (had %d before the case); first: %s", n, baseline, fn)
		}
		time.Sleep(200 * time.Microsecond)
	}
}

// ---------------------------------------------------------------------------
// transport error kinds: what a failed transport returns (on EVERY call from then on).
//
//	generic   a plain error
//	timeout   permanent, Timeout()==true, Temporary()==false (QUIC/KCP idle timeout)
//	deadline  os.ErrDeadlineExceeded (also Timeout()==true)
//
// None of them is retryable: the transport is dead, the relay has to finish.
var errKinds = []string{"generic", "timeout", "deadline"}

func errOfKind(kind string, generic error) error {
	switch kind {
	case "timeout":
		return vkit.TimeoutForever
	case "deadline":
		return os.ErrDeadlineExceeded
	}
	return generic
}

// ---------------------------------------------------------------------------
// deterministic payload bytes: position dependent, so reordering / duplication shows.

func fill(dst []byte, seed uint64, off int) {
	for i := range dst {
		p := uint64(off + i)
		x := (seed | 1) * 0x9E3779B97F4A7C15
		x ^= p * 0xD1B54A32D192ED03
		x ^= x >> 29
		x *= 0xBF58476D1CE4E5B9
		x ^= x >> 32
		dst[i] = byte(x)
	}
}

func payload(seed uint64, n int) []byte {
	b := make([]byte, n)
	fill(b, seed, 0)
	return b
}

func firstDiff(a, b []byte) int {
	for i := 0; i < len(a) && i < len(b); i++ {
		if a[i] != b[i] {
			return i
		}
	}
	if len(a) < len(b) {
		return len(a)
	}
	return len(b)
}

// ---------------------------------------------------------------------------
// running a case: oracle, one confirmation run for timing verdicts, known-finding routing.

func run(c Case) (*failure, string, bool, string) {
	if c.TCP != nil {
		return runTCP(c.TCP)
	}
	if c.VC != nil {
		return runVConn(c.VC)
	}
	if c.BP != nil {
		return runBP(c.BP)
	}
	if c.RT != nil {
		return runRealTCP(c.RT)
	}
	if c.Socks != nil {
		return runSocks(*c.Socks), "tcp:socks5-listener/connect-session-beyond-handshake-deadline", true, "socks/long"
	}
	if c.Long != nil {
		return runLong(*c.Long), "tcp:long-lived-half-closed/first-to-close=" + c.Long.FirstToClose, true, "long/" + c.Long.FirstToClose
	}
	return runUDP(c.UDP)
}

// Shrinking budget for verdicts that rest on a bounded wait: every execution of such a
// case costs two full bounds, and rapid's shrinker may try hundreds of variants of one
// drawn value before it looks at its deadline. After two reported timing verdicts in one
// test function further cases are not executed (rapid sees them as invalid, i.e. "does not
// reproduce", and settles on the smallest failing case found so far); a case that already
// failed is reported again from memory so that rapid's final re-run agrees.
var slow struct {
	mu      sync.Mutex
	reports int
	seen    map[string]*failure
}

func resetSlowBudget() {
	slow.mu.Lock()
	slow.reports = 0
	slow.seen = map[string]*failure{}
	slow.mu.Unlock()
}

func check(t vkit.TB, c Case) {
	cj, _ := json.Marshal(c)
	slow.mu.Lock()
	prev, exhausted := slow.seen[string(cj)], slow.reports >= 2
	slow.mu.Unlock()
	if prev != nil {
		vkit.Violation(t, prev.key, prev.detail, c)
		return
	}
	if exhausted {
		if sk, ok := t.(interface{ SkipNow() }); ok {
			sk.SkipNow()
		}
		return
	}
	f, class, nt, sig := run(c)
	if f != nil && f.timing && !vkit.IsKnown(f.key) {
		// confirm once: a timing verdict must reproduce (a listed finding is only counted,
		// never reported, so it is not worth a second bounded wait)
		f2, class2, nt2, sig2 := run(c)
		if f2 == nil || f2.key != f.key {
			vkit.Skipped(1)
			vkit.Class("note:timing-verdict-not-reproduced")
			f, class, nt, sig = f2, class2, nt2, sig2
			if f != nil && f.timing {
				// a different timing verdict on the second run: inconclusive for this case
				vkit.Class("note:timing-verdict-unstable")
				return
			}
		}
	}
	if f != nil {
		if f.timing && !vkit.IsKnown(f.key) {
			slow.mu.Lock()
			slow.reports++
			if slow.seen == nil {
				slow.seen = map[string]*failure{}
			}
			slow.seen[string(cj)] = f
			slow.mu.Unlock()
		}
		vkit.Violation(t, f.key, f.detail, c)
		vkit.Case("known:"+f.key, false, "")
		return
	}
	if class == "" { // excluded by construction / skipped (already counted)
		return
	}
	vkit.Case(class, nt, sig)
}

// excludedRegion reports whether a case falls into a region whose listed finding has been
// confirmed three times in this process: such cases are no longer generated (each
// confirmation costs a full bounded wait) and are counted as excluded by construction.
func excludedRegion(key string) bool {
	return vkit.IsKnown(key) && vkit.KnownHits(key) >= 3
}

// TestReplay re-executes a saved JSON case (VERIF_REPLAY=path).
func TestReplay(t *testing.T) {
	path := vkit.Replaying()
	if path == "" {
		t.Skip("no VERIF_REPLAY")
	}
	var c Case
	if _, err := vkit.LoadReplay(path, &c); err != nil {
		t.Fatalf("bad replay file: %v", err)
	}
	if c.TCP == nil && c.UDP == nil && c.VC == nil && c.BP == nil && c.Long == nil && c.RT == nil && c.Socks == nil {
		t.Fatalf("replay file holds neither a tcp nor a udp case")
	}
	check(t, c)
}
