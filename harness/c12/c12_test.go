// C12 — client-side relays deliver everything and always terminate.
//
// Two relays are driven directly, exactly as internal/client/tunnel.(*Tunnel).runDataCopy,
// client.handleTCPTargetTunnel / handleUDPTargetTunnel and SOCKS5TunnelCreatorImpl.forwardData
// drive them:
//
//	iocopy.Bidirectional(local, tunnel, opts)   TCP relay  (tcp_test.go)
//	iocopy.UDP(udpSide, tunnel, opts)           UDP relay  (udp_test.go)
//
// This file holds what both parts share: the replay unit, the bounded-wait rule for
// "returns", the goroutine-leak oracle and deterministic payload bytes.
package c12

import (
	"bytes"
	"fmt"
	"runtime"
	"strings"
	"sync"
	"testing"
	"time"

	"tunnox-core/verif/vkit"
)

func TestMain(m *testing.M) { vkit.Main(m, "C12") }

// Case is the JSON replay unit: exactly one of TCP / UDP is set.
type Case struct {
	TCP *TCPCase `json:"tcp,omitempty"`
	UDP *UDPCase `json:"udp,omitempty"`
}

// failure is what an oracle returns; timing says that the verdict rests on a bounded
// wait (the case is then re-run once before it is reported).
type failure struct {
	key, detail string
	timing      bool
}

func failf(key, format string, a ...any) *failure {
	return &failure{key: key, detail: fmt.Sprintf(format, a...)}
}
func hangf(key, format string, a ...any) *failure {
	return &failure{key: key, detail: fmt.Sprintf(format, a...), timing: true}
}

// ---------------------------------------------------------------------------
// bounded wait: "returns" is what the property promises, so a wait that expires IS the
// violation. The relays have no timer longer than 20 ms and, on the paths exercised here,
// finish in tens of microseconds; the bound is 3 s or 1000 x the median observed return
// latency, whichever is larger, and an expired wait is confirmed by re-running the case.

var lat struct {
	mu      sync.Mutex
	samples []time.Duration
}

func noteLatency(d time.Duration) {
	lat.mu.Lock()
	if len(lat.samples) < 4096 {
		lat.samples = append(lat.samples, d)
	} else {
		lat.samples[int(d)%len(lat.samples)] = d
	}
	lat.mu.Unlock()
}

func bound() time.Duration {
	b := 3 * time.Second
	lat.mu.Lock()
	n := len(lat.samples)
	if n >= 16 {
		s := append([]time.Duration(nil), lat.samples...)
		// median by partial selection (n is small)
		for i := 0; i <= n/2; i++ {
			m := i
			for j := i + 1; j < n; j++ {
				if s[j] < s[m] {
					m = j
				}
			}
			s[i], s[m] = s[m], s[i]
		}
		if m := 1000 * s[n/2]; m > b {
			b = m
		}
	}
	lat.mu.Unlock()
	if b > 20*time.Second {
		b = 20 * time.Second
	}
	return b
}

// hub is a mutex + condition the harness goroutines (collectors, relay runner) share;
// wait blocks until pred holds or d expired.
type hub struct {
	mu   sync.Mutex
	cond *sync.Cond
}

func newHub() *hub { h := &hub{}; h.cond = sync.NewCond(&h.mu); return h }

func (h *hub) do(f func()) {
	h.mu.Lock()
	f()
	h.cond.Broadcast()
	h.mu.Unlock()
}

// wait reports whether pred (evaluated under the hub lock) became true within d.
func (h *hub) wait(d time.Duration, pred func() bool) bool {
	h.mu.Lock()
	defer h.mu.Unlock()
	if pred() {
		return true
	}
	expired := false
	tm := time.AfterFunc(d, func() {
		h.mu.Lock()
		expired = true
		h.cond.Broadcast()
		h.mu.Unlock()
	})
	defer tm.Stop()
	for !pred() {
		if expired {
			return false
		}
		h.cond.Wait()
	}
	return true
}

// ---------------------------------------------------------------------------
// goroutine-leak oracle: goroutines whose stack contains a frame of the relay package.

const relayPkg = "tunnox-core/internal/utils/iocopy."

var stackBuf = make([]byte, 1<<20)
var stackMu sync.Mutex

func relayGoroutines() (n int, sample string) {
	stackMu.Lock()
	defer stackMu.Unlock()
	for {
		k := runtime.Stack(stackBuf, true)
		if k < len(stackBuf) {
			for _, g := range bytes.Split(stackBuf[:k], []byte("\n\n")) {
				if bytes.Contains(g, []byte(relayPkg)) {
					n++
					if sample == "" {
						sample = string(g)
					}
				}
			}
			return
		}
		stackBuf = make([]byte, 2*len(stackBuf))
	}
}

// leakAfter waits (shortly) until no more relay goroutines exist than before the case.
func leakAfter(baseline int) *failure {
	deadline := time.Now().Add(2 * time.Second)
	for {
		n, sample := relayGoroutines()
		if n <= baseline {
			return nil
		}
		if time.Now().After(deadline) {
			fn := "?"
			for _, l := range strings.Split(sample, "\n") {
				if strings.Contains(l, relayPkg) {
					fn = strings.TrimSpace(l)
					break
				}
			}
			return hangf("C12/goroutine-outlives-return", "%d relay goroutine(s) still alive 2 s after the relay returned (had %d before the case); first: %s", n, baseline, fn)
		}
		time.Sleep(200 * time.Microsecond)
	}
}

// ---------------------------------------------------------------------------
// deterministic payload bytes: position dependent, so reordering / duplication shows.

func fill(dst []byte, seed uint64, off int) {
	for i := range dst {
		p := uint64(off + i)
		x := (seed | 1) * 0x9E3779B97F4A7C15
		x ^= p * 0xD1B54A32D192ED03
		x ^= x >> 29
		x *= 0xBF58476D1CE4E5B9
		x ^= x >> 32
		dst[i] = byte(x)
	}
}

func payload(seed uint64, n int) []byte {
	b := make([]byte, n)
	fill(b, seed, 0)
	return b
}

func firstDiff(a, b []byte) int {
	for i := 0; i < len(a) && i < len(b); i++ {
		if a[i] != b[i] {
			return i
		}
	}
	if len(a) < len(b) {
		return len(a)
	}
	return len(b)
}

// ---------------------------------------------------------------------------
// running a case: oracle, one confirmation run for timing verdicts, known-finding routing.

func run(c Case) (*failure, string, bool, string) {
	if c.TCP != nil {
		return runTCP(c.TCP)
	}
	return runUDP(c.UDP)
}

func check(t vkit.TB, c Case) {
	f, class, nt, sig := run(c)
	if f != nil && f.timing && !vkit.IsKnown(f.key) {
		// confirm once: a timing verdict must reproduce (a listed finding is only counted,
		// never reported, so it is not worth a second bounded wait)
		f2, class2, nt2, sig2 := run(c)
		if f2 == nil || f2.key != f.key {
			vkit.Skipped(1)
			vkit.Class("note:timing-verdict-not-reproduced")
			f, class, nt, sig = f2, class2, nt2, sig2
			if f != nil && f.timing {
				// a different timing verdict on the second run: inconclusive for this case
				vkit.Class("note:timing-verdict-unstable")
				return
			}
		}
	}
	if f != nil {
		vkit.Violation(t, f.key, f.detail, c)
		vkit.Case("known:"+f.key, false, "")
		return
	}
	if class == "" { // excluded by construction / skipped (already counted)
		return
	}
	vkit.Case(class, nt, sig)
}

// excludedRegion reports whether a case falls into a region whose listed finding has been
// confirmed three times in this process: such cases are no longer generated (each
// confirmation costs a full bounded wait) and are counted as excluded by construction.
func excludedRegion(key string) bool {
	return vkit.IsKnown(key) && vkit.KnownHits(key) >= 3
}

// TestReplay re-executes a saved JSON case (VERIF_REPLAY=path).
func TestReplay(t *testing.T) {
	path := vkit.Replaying()
	if path == "" {
		t.Skip("no VERIF_REPLAY")
	}
	var c Case
	if _, err := vkit.LoadReplay(path, &c); err != nil {
		t.Fatalf("bad replay file: %v", err)
	}
	if c.TCP == nil && c.UDP == nil {
		t.Fatalf("replay file holds neither a tcp nor a udp case")
	}
	check(t, c)
}
