package c12

// A SOCKS5 CONNECT session through the REAL client socks5.Listener that outlives every
// allowance of the handshake phase: the listener accepts a real TCP connection, performs the
// handshake, and hands the user socket to the tunnel creator, which - exactly like
// client.SOCKS5TunnelCreatorImpl (CreateSOCKS5Tunnel / forwardData) - sends the success reply
// and relays with iocopy.Simple(userConn, tunnelRWC). The tunnel side keeps sending a few
// bytes every EveryMS until Seconds after the connection was accepted (more than the 30 s
// handshake deadline of the listener), then finishes.
//
// Oracle: every byte reaches the user, then end-of-stream; the relay returns without error.
// Real time is the subject: the case runs in the background of the binary (aa_long_test.go).

import (
	"bytes"
	"context"
	"fmt"
	"io"
	"net"
	"time"

	"tunnox-core/internal/client/socks5"
	"tunnox-core/internal/utils/iocopy"
	"tunnox-core/verif/vkit"
)

type SocksCase struct {
	Seconds int `json:"seconds"` // the tunnel side keeps sending until this long after accept
	EveryMS int `json:"every_ms"`
}

type socksCreator struct {
	tunnelNear *vkit.BufConn
	result     chan *iocopy.Result
}

func (c *socksCreator) CreateSOCKS5Tunnel(userConn net.Conn, mappingID string, targetClientID int64,
	targetHost string, targetPort int, secretKey string, onSuccess func()) error {
	if onSuccess != nil {
		onSuccess()
	}
	rwc, err := iocopy.NewReadWriteCloser(c.tunnelNear, c.tunnelNear, func() error { return c.tunnelNear.Close() })
	if err != nil {
		return err
	}
	go func() { c.result <- iocopy.Simple(userConn, rwc, "c12-socks5") }()
	return nil
}

func runSocks(c SocksCase) *failure {
	near, far := vkit.NewBufConnPair("10.6.0.2:7002", "10.6.0.1:40002")
	defer near.Close()
	defer far.Close()
	creator := &socksCreator{tunnelNear: near, result: make(chan *iocopy.Result, 1)}
	l := socks5.NewListener(context.Background(), &socks5.ListenerConfig{ListenAddr: "127.0.0.1:0", MappingID: "c12-socks"}, creator)
	if err := l.Start(); err != nil {
		vkit.Skipped(1)
		return nil
	}
	defer l.Close()
	user, err := net.DialTimeout("tcp", l.GetListenAddr(), 3*time.Second)
	if err != nil {
		vkit.Skipped(1)
		return nil
	}
	defer user.Close()
	accepted := time.Now()
	const k = "C12/tcp/socks5-listener/"
	user.SetDeadline(time.Now().Add(20 * time.Second)) // handshake only; cleared below
	user.Write([]byte{0x05, 0x01, 0x00})
	sel := make([]byte, 2)
	if _, err := io.ReadFull(user, sel); err != nil || sel[1] != 0x00 {
		return failf(k+"handshake-failed", "method selection: % x, %v", sel, err)
	}
	user.Write([]byte{0x05, 0x01, 0x00, 0x01, 1, 2, 3, 4, 0x00, 0x50})
	reply := make([]byte, 10)
	if _, err := io.ReadFull(user, reply); err != nil || reply[1] != 0x00 {
		return failf(k+"handshake-failed", "CONNECT reply: % x, %v", reply, err)
	}
	user.SetDeadline(time.Time{})

	h := newHub()
	colFar := startCollector(h, far)
	var got []byte
	var readErr error
	readerDone := false
	go func() {
		buf := make([]byte, 4096)
		for {
			n, err := user.Read(buf)
			b := append([]byte(nil), buf[:n]...)
			h.do(func() {
				got = append(got, b...)
				if err != nil {
					readErr, readerDone = err, true
				}
			})
			if err != nil {
				return
			}
		}
	}()
	B := bound()
	req := payload(81, 200)
	user.Write(req)
	if !h.wait(B, func() bool { return len(colFar.buf) >= len(req) }) {
		return hangf(k+"request-not-forwarded", "%d request bytes, %d at the tunnel side after %v", len(req), len(colFar.buf), B)
	}
	var sent []byte
	for i := 0; time.Since(accepted) < time.Duration(c.Seconds)*time.Second; i++ {
		b := make([]byte, 1+i%9)
		fill(b, 82, len(sent))
		far.Write(b)
		sent = append(sent, b...)
		want := len(sent)
		if !h.wait(B, func() bool { return len(got) >= want || readerDone }) || len(got) < want {
			n := 0
			var e error
			h.do(func() { n, e = len(got), readErr })
			return failf(k+"tunnel-to-user-cut", "CONNECT session through the real socks5.Listener: %.1f s after the user connection was accepted, %d of %d tunnel->user bytes have arrived and the user's read ended with %v (a few bytes were sent every %d ms)",
				time.Since(accepted).Seconds(), n, want, e, c.EveryMS)
		}
		time.Sleep(time.Duration(c.EveryMS) * time.Millisecond)
	}
	far.CloseWrite()
	if !h.wait(B, func() bool { return readerDone }) {
		return hangf(k+"end-of-stream-not-forwarded", "the tunnel side finished, the user saw no end-of-stream within %v", B)
	}
	user.Close()
	var res *iocopy.Result
	select {
	case res = <-creator.result:
	case <-time.After(B):
		return hangf("C12/tcp/no-return-after-both-directions-finished", "socks5 session: relay still running %v after both sides finished", B)
	}
	if !bytes.Equal(got, sent) || readErr != io.EOF {
		return failf(k+"tunnel-to-user-cut", "user received %d of %d bytes, read ended with %v", len(got), len(sent), readErr)
	}
	if !bytes.Equal(colFar.buf, req) {
		return failf(k+"request-differs", "tunnel side received %d bytes, request has %d", len(colFar.buf), len(req))
	}
	if res.ReceiveError != nil {
		return failf(k+"tunnel-to-user-error", "nothing failed, Result.ReceiveError=%v", res.ReceiveError)
	}
	return nil
}

var _ = fmt.Sprintf
