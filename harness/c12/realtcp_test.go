package c12

// The TCP listen side on REAL kernel sockets: mapping.TCPMappingAdapter accepts the local
// application's connection (and configures the socket), the relay runs between that socket
// and the tunnel. Shape: the application sends its request and half-closes FIRST, the
// tunnel then delivers a response larger than the socket buffers while the application
// reads slowly, the tunnel side finishes, the relay returns and closes the socket.
//
// Oracle: the application receives every response byte and then end-of-stream (io.EOF) -
// bytes still queued in the socket when the relay closes it belong to the stream.

import (
	"bytes"
	"encoding/json"
	"errors"
	"fmt"
	"io"
	"net"
	"os"
	"sync"
	"testing"
	"time"

	"pgregory.net/rapid"

	"tunnox-core/internal/client/mapping"
	"tunnox-core/internal/client/tunnel"
	"tunnox-core/internal/config"
	"tunnox-core/internal/utils/iocopy"
	"tunnox-core/verif/vkit"
)

type RealTCPCase struct {
	Req         int  `json:"req"`           // request bytes, then the application half-closes
	Resp        int  `json:"resp"`          // response bytes from the tunnel side, then it half-closes
	ReadChunk   int  `json:"read_chunk"`    // the application reads this much ...
	ReadEveryUS int  `json:"read_every_us"` // ... then pauses this long
	SmallRcvBuf bool `json:"small_rcvbuf"`  // application socket with a 32 KiB receive buffer
	ViaTunnel   bool `json:"via_tunnel"`    // relay run by client tunnel.Tunnel instead of iocopy.Bidirectional
}

var tcpEnv struct {
	mu   sync.Mutex
	ad   *mapping.TCPMappingAdapter
	addr string
	dead bool
}

func tcpAdapter() (*mapping.TCPMappingAdapter, string) {
	tcpEnv.mu.Lock()
	defer tcpEnv.mu.Unlock()
	if tcpEnv.ad != nil || tcpEnv.dead {
		return tcpEnv.ad, tcpEnv.addr
	}
	for attempt := 0; attempt < 8; attempt++ {
		port := 10000 + (os.Getpid()*11+attempt*1709+5000)%20000
		ad := mapping.NewTCPMappingAdapter()
		if err := ad.StartListener(config.MappingConfig{MappingID: "c12-tcp", Protocol: "tcp", LocalPort: port}); err != nil {
			continue
		}
		tcpEnv.ad, tcpEnv.addr = ad, fmt.Sprintf("127.0.0.1:%d", port)
		return tcpEnv.ad, tcpEnv.addr
	}
	tcpEnv.dead = true
	return nil, ""
}

func runRealTCP(c *RealTCPCase) (fail *failure, class string, nt bool, sig string) {
	ad, addr := tcpAdapter()
	if ad == nil {
		vkit.Skipped(1)
		return nil, "", false, ""
	}
	d, err := net.DialTimeout("tcp4", addr, 3*time.Second)
	if err != nil {
		vkit.Skipped(1)
		return nil, "", false, ""
	}
	app := d.(*net.TCPConn)
	defer app.Close()
	if c.SmallRcvBuf {
		app.SetReadBuffer(32 * 1024)
	}
	local, err := ad.Accept()
	if err != nil {
		vkit.Skipped(1)
		return nil, "", false, ""
	}
	defer local.Close()
	rB, appB := vkit.NewBufConnPair("10.5.0.2:7002", "10.5.0.1:40002")
	defer rB.Close()
	defer appB.Close()

	h := newHub()
	colB := startCollector(h, appB)
	returned := false
	if c.ViaTunnel {
		rwc, _ := iocopy.NewReadWriteCloser(rB, rB, rB.Close)
		tun := tunnel.NewTunnel(&tunnel.TunnelConfig{
			ID: fmt.Sprintf("c12-real-%d", tunnelSeq.Add(1)), MappingID: "c12", Role: tunnel.TunnelRoleListen, Protocol: "tcp",
			LocalConn: local, TunnelRWC: rwc, Manager: tunnelManager(),
			OnClosed: func(tunnel.CloseReason, error) { h.do(func() { returned = true }) },
		})
		tunnelManager().RegisterTunnel(tun)
		if err := tun.Start(); err != nil {
			panic("c12: tunnel.Start: " + err.Error())
		}
	} else {
		go func() {
			iocopy.Bidirectional(local, rB, &iocopy.Options{LogPrefix: "c12-real"})
			h.do(func() { returned = true })
		}()
	}
	B := bound()
	// the slow reader
	var got []byte
	var readErr error
	readerDone := false
	go func() {
		buf := make([]byte, c.ReadChunk)
		for {
			n, err := io.ReadFull(app, buf)
			if n > 0 {
				b := append([]byte(nil), buf[:n]...)
				h.do(func() { got = append(got, b...) })
			}
			if err != nil {
				if errors.Is(err, io.ErrUnexpectedEOF) {
					err = io.EOF
				}
				h.do(func() { readErr = err; readerDone = true })
				return
			}
			time.Sleep(time.Duration(c.ReadEveryUS) * time.Microsecond)
		}
	}()
	req := payload(71, c.Req)
	app.Write(req)
	app.CloseWrite() // the application finishes its direction first
	if !h.wait(B, func() bool { return colB.eof && len(colB.buf) >= len(req) }) {
		return hangf("C12/tcp/real-socket/request-or-half-close-not-forwarded", "%d request bytes then half-close: the tunnel side has %d bytes, eof=%v after %v", len(req), len(colB.buf), colB.eof, B), "", false, ""
	}
	resp := payload(72, c.Resp)
	appB.Write(resp)
	appB.CloseWrite()
	long := B + 60*time.Second // the relay can only write as fast as the application reads
	if !h.wait(long, func() bool { return returned }) {
		return hangf("C12/tcp/no-return-after-both-directions-finished", "real-socket case: relay still running %v after the tunnel side finished (application has %d of %d bytes)", long, len(got), len(resp)), "", false, ""
	}
	atClose := 0
	h.do(func() { atClose = len(got) })
	if !h.wait(long, func() bool { return readerDone }) {
		return hangf("C12/tcp/real-socket/application-read-not-released", "application still blocked in Read %v after the relay closed the socket", long), "", false, ""
	}
	if !bytes.Equal(colB.buf, req) {
		return failf("C12/tcp/real-socket/request-differs", "tunnel side received %d bytes, request has %d", len(colB.buf), len(req)), "", false, ""
	}
	if len(got) < len(resp) || readErr != io.EOF {
		return failf("C12/tcp/real-socket/response-tail-lost-after-relay-close", "application half-closed first; %d response bytes; it had read %d when the relay returned and closed the socket, and ended with %d bytes and error %v (want all bytes, then io.EOF): what was still queued in the socket was discarded",
			len(resp), atClose, len(got), readErr), "", false, ""
	}
	if !bytes.Equal(got, resp) {
		return failf("C12/tcp/real-socket/response-differs", "application received %d bytes, first difference at %d", len(got), firstDiff(got, resp)), "", false, ""
	}
	b, _ := json.Marshal(c)
	class = "tcp:real-listen-socket/app-half-closes-first+slow-reader"
	if c.ViaTunnel {
		class = "tunnel+" + class
	}
	if atClose < len(resp) {
		vkit.Class("tcp-feat:bytes-still-in-socket-when-relay-closed")
	}
	return nil, class, atClose < len(resp), string(b)
}

// TestTCPRealListenSocket: a handful of slow-reader cases on real sockets.
func TestTCPRealListenSocket(t *testing.T) {
	resetSlowBudget()
	vkit.Check(t, 24, 240, func(t *rapid.T) {
		c := &RealTCPCase{
			Req:         rapid.IntRange(1, 5000).Draw(t, "req"),
			Resp:        rapid.IntRange(2<<20, 6<<20).Draw(t, "resp"),
			ReadChunk:   rapid.SampledFrom([]int{16 * 1024, 64 * 1024}).Draw(t, "chunk"),
			ReadEveryUS: rapid.SampledFrom([]int{500, 2000}).Draw(t, "every"),
			SmallRcvBuf: rapid.Bool().Draw(t, "smallRcv"),
			ViaTunnel:   rapid.Bool().Draw(t, "viaTunnel"),
		}
		check(t, Case{RT: c})
	})
}
