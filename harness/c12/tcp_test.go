package c12

// TCP relay: iocopy.Bidirectional(connA, connB) between two application endpoints.
//
//	appA <==pair==> rA  [ Bidirectional(rA, rB) ]  rB <==pair==> appB
//
// The harness owns appA/appB (it writes payloads, half-closes, closes) and arms transport
// faults on the relay's own ends rA/rB (read error / write error after k bytes). A case is
// a script of steps; after every step the harness waits until what the step must have
// caused is observable, so the outcome of a script is a function of the script alone.
//
// What is asserted (and why it is inside the property statement):
//   - while no transport error has happened ("clean"): every byte an application wrote
//     arrives at the other application, in order, nothing else arrives; after a half-close
//     (or close) of one application the other one sees end-of-stream when the relay's end
//     supports CloseWrite (Bidirectional doc, item 1) and the reverse direction keeps
//     delivering; Bidirectional does not return before both directions have finished;
//   - the first transport error: the direction it hits has delivered exactly the bytes up
//     to the failure point;
//   - after the first error a relay may legitimately tear everything down, so from then on
//     only "what arrives is a prefix of what was sent" is required of the data;
//   - always: once both directions have finished (source at end-of-stream or failed)
//     Bidirectional returns within the bound, both relay ends are closed, Result counts
//     equal the bytes the relay's ends accepted, OnComplete ran once, no relay goroutine
//     is left.

import (
	"bytes"
	"context"
	"encoding/json"
	"errors"
	"fmt"
	"io"
	"regexp"
	"runtime"
	"strconv"
	"strings"
	"sync"
	"sync/atomic"
	"testing"
	"time"

	"pgregory.net/rapid"

	"tunnox-core/internal/client/tunnel"
	"tunnox-core/internal/stream/transform"
	"tunnox-core/internal/utils/iocopy"
	"tunnox-core/verif/vkit"
)

type TCPStep struct {
	Op string `json:"op"`          // sendA sendB sendBoth hcA hcB closeA closeB sendhcA sendhcB (send and half-close at once)
	N  int    `json:"n,omitempty"` // bytes (sendA/sendB; A's bytes in sendBoth)
	M  int    `json:"m,omitempty"` // B's bytes in sendBoth
}

type TCPCase struct {
	SeedA      uint64    `json:"seed_a"`
	SeedB      uint64    `json:"seed_b"`
	NoCWA      bool      `json:"no_closewrite_a"` // relay end towards A lacks CloseWrite
	NoCWB      bool      `json:"no_closewrite_b"`
	ReadCapA   int       `json:"readcap_a"` // short reads on the relay's ends
	ReadCapB   int       `json:"readcap_b"`
	FailReadA  int64     `json:"fail_read_a"` // relay end towards A: Read fails after k bytes (-1 never)
	FailReadB  int64     `json:"fail_read_b"`
	FailWriteA int64     `json:"fail_write_a"` // relay end towards A: Write fails after k bytes
	FailWriteB int64     `json:"fail_write_b"`
	Steps      []TCPStep `json:"steps"`
	// ErrKindA/B: kind of the error the injected faults of that relay end return (generic, timeout, deadline)
	ErrKindA string `json:"err_kind_a,omitempty"`
	ErrKindB string `json:"err_kind_b,omitempty"`
	// EOFWithDataA/B: that relay end returns its last buffered bytes TOGETHER with io.EOF
	// (io.Reader allows it; the project's QUIC stream conn does it)
	EOFWithDataA bool `json:"eof_with_data_a,omitempty"`
	EOFWithDataB bool `json:"eof_with_data_b,omitempty"`
	// Pre: this many leading steps (sends and half-closes only) are performed BEFORE the relay
	// starts, so that it finds data and end-of-stream already buffered (data+EOF in one Read)
	Pre int `json:"pre,omitempty"`
	// ReactiveA/B: that application behaves like a client waiting for a response: when its
	// incoming stream ends (EOF or closed) after a transport error it closes its socket.
	ReactiveA bool `json:"reactive_a,omitempty"`
	ReactiveB bool `json:"reactive_b,omitempty"`
	// ViaTunnel: the relay is not called directly but run by the client's tunnel.Tunnel
	// (NewTunnel / Start -> runDataCopy), end A being its LocalConn and end B its TunnelRWC
	// built with iocopy.NewReadWriteCloser as mapping.BaseMappingHandler does.
	ViaTunnel bool `json:"via_tunnel,omitempty"`
	// Limit: BandwidthLimit (bytes/s) of the transformer handed to Bidirectional, built with
	// transform.NewTransformer exactly as client.handleTCPTargetTunnel does (0: none)
	Limit int64 `json:"bandwidth_limit,omitempty"`
}

// recConn is a relay end that records the read deadlines the relay sets on it.
type recConn struct {
	*vkit.BufConn
	mu       sync.Mutex
	pending  time.Time // the read deadline currently armed (zero: none)
	setAt    time.Time // when it was armed
	setCalls int
	// closedByLimitedWriter: Close was called from the rate-limited writer's Close, i.e. the
	// relay's "close the wrapped writer to flush it" fully closed this end
	closedByLimitedWriter atomic.Bool
}

func (r *recConn) Close() error {
	if !r.BufConn.IsClosed() {
		var pcs [24]uintptr
		n := runtime.Callers(2, pcs[:])
		fr := runtime.CallersFrames(pcs[:n])
		for {
			f, more := fr.Next()
			if strings.Contains(f.Function, "transform.(*rateLimitedWriter).Close") {
				r.closedByLimitedWriter.Store(true)
			}
			if !more {
				break
			}
		}
	}
	return r.BufConn.Close()
}

func (r *recConn) SetReadDeadline(t time.Time) error {
	r.mu.Lock()
	r.pending, r.setAt = t, time.Now()
	r.setCalls++
	r.mu.Unlock()
	return r.BufConn.SetReadDeadline(t)
}
func (r *recConn) SetDeadline(t time.Time) error { return r.SetReadDeadline(t) }
func (r *recConn) armed() (time.Time, time.Time) {
	r.mu.Lock()
	defer r.mu.Unlock()
	return r.pending, r.setAt
}

// the client's tunnel manager (one per process) for ViaTunnel cases
var tunnelSeq atomic.Int64
var tunnelMgr struct {
	once sync.Once
	m    *tunnel.DefaultTunnelManager
}

func tunnelManager() *tunnel.DefaultTunnelManager {
	tunnelMgr.once.Do(func() { tunnelMgr.m = tunnel.NewTunnelManager(context.Background(), tunnel.TunnelRoleListen) })
	return tunnelMgr.m
}

// ---------------------------------------------------------------------------
// model

type dirState struct {
	sent, exp, hard int    // written by the source app / delivered per model / mandatory
	ended           bool   // the direction has finished
	endKind         string // eof, read-fault, write-fault, write-to-closed
	fr, fw          int64  // fault positions (-1 none): read at source end, write at destination end
}

type tcpModel struct {
	d          [2]dirState // 0: A->B, 1: B->A
	hc, closed [2]bool     // per application
	clean      bool
	firstFault int // direction of the first fault, -1 none
	firstKind  string
}

func newTCPModel(c *TCPCase) *tcpModel {
	m := &tcpModel{clean: true, firstFault: -1}
	m.d[0].fr, m.d[0].fw = c.FailReadA, c.FailWriteB
	m.d[1].fr, m.d[1].fw = c.FailReadB, c.FailWriteA
	for d := 0; d < 2; d++ {
		if m.d[d].fr == 0 { // the very first Read fails
			m.fault(d, "read-fault")
		}
	}
	return m
}

func (m *tcpModel) fault(d int, kind string) {
	m.d[d].ended = true
	m.d[d].endKind = kind
	if m.clean {
		m.clean = false
		m.firstFault = d
		m.firstKind = kind
	}
}

// advance accounts n more bytes written by the source application of direction d.
func (m *tcpModel) advance(d, n int) (faulted bool) {
	s := &m.d[d]
	s.sent += n
	if s.ended || n == 0 {
		return false
	}
	if m.closed[1-d] { // destination application is gone: the relay's write fails
		m.fault(d, "write-to-closed")
		return true
	}
	r := int64(s.sent)
	readFault := s.fr >= 0 && r >= s.fr
	if readFault {
		r = s.fr
	}
	if s.fw >= 0 && r > s.fw {
		s.exp = int(s.fw)
		m.fault(d, "write-fault")
		return true
	}
	s.exp = int(r)
	if readFault {
		m.fault(d, "read-fault")
		return true
	}
	return false
}

func (m *tcpModel) bothEnded() bool { return m.d[0].ended && m.d[1].ended }

// ---------------------------------------------------------------------------
// execution

type collector struct {
	buf  []byte
	eof  bool
	done bool
}

func startCollector(h *hub, c *vkit.BufConn) *collector {
	col := &collector{}
	go func() {
		b := make([]byte, 64*1024)
		for {
			n, err := c.Read(b)
			h.do(func() {
				col.buf = append(col.buf, b[:n]...)
				if err != nil {
					col.eof = err == io.EOF
					col.done = true
				}
			})
			if err != nil {
				return
			}
		}
	}()
	return col
}

// tcpObs: what a failing run looked like from outside (for root-cause keys).
type tcpObs struct {
	errs          [2]error // Result errors, when the relay returned
	bClosedEarly  bool     // end B was closed by the rate-limited writer's Close (when A->B finished)
	returnedEarly bool
	background    bool
}

var burstMsg = regexp.MustCompile(`Wait\(n=(\d+)\) exceeds limiter's burst`)

// runTCP runs the case; failures of bandwidth-limited runs get the key of their root cause
// in the rate-limiting transformer (internal/stream/transform), which is what the
// target-side relay (client.handleTCPTargetTunnel) is configured with.
func runTCP(c *TCPCase) (*failure, string, bool, string) { return runTCPOpt(c, false) }

// runTCPOpt: background = the case runs concurrently with other cases of the binary (the
// goroutine-leak diff, which counts relay goroutines process-wide, is then meaningless).
func runTCPOpt(c *TCPCase, background bool) (*failure, string, bool, string) {
	obs := tcpObs{background: background}
	f, class, nt, sig := runTCPInner(c, &obs)
	if f == nil || c.Limit <= 0 {
		return f, class, nt, sig
	}
	for _, e := range obs.errs {
		if e == nil {
			continue
		}
		if strings.Contains(e.Error(), "would exceed context deadline") {
			return &failure{key: "C12/tcp/bandwidth-limit/limiter-wait-exceeds-its-own-timeout",
				detail: fmt.Sprintf("BandwidthLimit=%d: the limiter refused to wait for a chunk (%v): the direction ended there and the rest of the stream was dropped - the relay is supposed to be slow, not lossy [%s: %s]", c.Limit, e, f.key, f.detail)}, "", false, ""
		}
		if mm := burstMsg.FindStringSubmatch(e.Error()); mm != nil {
			n, _ := strconv.ParseInt(mm[1], 10, 64)
			rel := "within"
			if n > 2*c.Limit {
				rel = "above"
			}
			return &failure{key: "C12/tcp/bandwidth-limit/one-read-exceeds-limiter-burst/chunk-" + rel + "-2x-limit",
				detail: fmt.Sprintf("BandwidthLimit=%d: a %d-byte chunk (one Read of the 32 KiB copy buffer) made the limiter fail (%v); the direction ended there [%s: %s]", c.Limit, n, e, f.key, f.detail)}, "", false, ""
		}
	}
	if obs.bClosedEarly {
		return &failure{key: "C12/tcp/bandwidth-limit/end-of-A-to-B-closes-end-B",
			detail: fmt.Sprintf("BandwidthLimit=%d: when A->B finished the relay CLOSED its end B (the rate-limited writer's Close closes its target) while B->A was still in use [%s: %s]", c.Limit, f.key, f.detail), timing: false}, "", false, ""
	}
	return f, class, nt, sig
}

func runTCPInner(c *TCPCase, obs *tcpObs) (fail *failure, class string, nt bool, sig string) {
	baseline, _ := relayGoroutines()
	appA, rA := vkit.NewBufConnPair("10.1.0.1:40001", "10.1.0.2:7001")
	rB, appB := vkit.NewBufConnPair("10.2.0.2:7002", "10.2.0.1:40002")
	rA.NoCloseWrite, rB.NoCloseWrite = c.NoCWA, c.NoCWB
	rA.ReadCap.Store(int32(c.ReadCapA))
	rB.ReadCap.Store(int32(c.ReadCapB))
	rA.FailReadAfter.Store(c.FailReadA)
	rB.FailReadAfter.Store(c.FailReadB)
	rA.FailWriteAfter.Store(c.FailWriteA)
	rB.FailWriteAfter.Store(c.FailWriteB)
	rA.FailErr = errOfKind(c.ErrKindA, nil)
	rB.FailErr = errOfKind(c.ErrKindB, nil)
	rA.EOFWithData.Store(c.EOFWithDataA)
	rB.EOFWithData.Store(c.EOFWithDataB)
	app := [2]*vkit.BufConn{appA, appB}
	// what the relay is given: the same ends, recording SetReadDeadline
	cA, cB := &recConn{BufConn: rA}, &recConn{BufConn: rB}
	relEnd := [2]*recConn{cA, cB}
	noCW := [2]bool{c.NoCWA, c.NoCWB}
	seed := [2]uint64{c.SeedA, c.SeedB}

	h := newHub()
	col := [2]*collector{startCollector(h, appA), startCollector(h, appB)}
	var res *iocopy.Result
	returned := false
	completions := 0
	var cbSent, cbRecv int64
	started := false
	var tunStats *tunnel.TunnelStats
	onClosedCalls := 0
	start := func() {
		started = true
		if c.ViaTunnel {
			rwc, _ := iocopy.NewReadWriteCloser(cB, cB, cB.Close)
			var tun *tunnel.Tunnel
			tun = tunnel.NewTunnel(&tunnel.TunnelConfig{
				ID: fmt.Sprintf("c12-%d", tunnelSeq.Add(1)), MappingID: "c12", Role: tunnel.TunnelRoleListen, Protocol: "tcp",
				LocalConn: cA, TunnelRWC: rwc, Manager: tunnelManager(),
				OnClosed: func(tunnel.CloseReason, error) {
					st := tun.GetStats()
					h.do(func() { tunStats = st; onClosedCalls++; returned = true })
				},
			})
			tunnelManager().RegisterTunnel(tun)
			if err := tun.Start(); err != nil {
				panic("c12: tunnel.Start: " + err.Error())
			}
			return
		}
		go func() {
			opts := &iocopy.Options{LogPrefix: "c12", OnComplete: func(s, r int64, err error) {
				h.do(func() { completions++; cbSent, cbRecv = s, r })
			}}
			if c.Limit > 0 {
				opts.Transformer, _ = transform.NewTransformer(&transform.TransformConfig{BandwidthLimit: c.Limit})
			}
			r := iocopy.Bidirectional(cA, cB, opts)
			h.do(func() { res = r; returned = true })
		}()
	}
	var m *tcpModel
	defer func() {
		if !started {
			start()
		}
		if fail != nil && m != nil {
			obs.bClosedEarly = cB.closedByLimitedWriter.Load()
			h.do(func() {
				if res != nil && !c.ViaTunnel {
					obs.errs = [2]error{res.SendError, res.ReceiveError}
				}
			})
		}
		// nothing of this case may survive it: closing all four ends makes every relay
		// goroutine and every collector fall out of its Read/Write.
		for _, x := range []*vkit.BufConn{appA, appB, rA, rB} {
			x.Close()
		}
		h.wait(bound(), func() bool { return col[0].done && col[1].done && returned })
	}()

	m = newTCPModel(c)
	B := bound()
	if c.Limit > 0 {
		// a limited run that moves more than the limiter's initial bucket takes real time
		total := 0
		for _, st := range c.Steps {
			total += st.N + st.M
		}
		B += time.Duration(1.5 * float64(total) / float64(c.Limit) * float64(time.Second))
	}
	halfCloseThenReverse := 0 // bytes delivered in the reverse direction after a propagated half-close
	var halfClosedDir [2]bool // direction ended by a clean half-close/close while the reverse was alive
	concurrent := false
	stopped := false

	write := func(x, from, n int) {
		if n <= 0 {
			return
		}
		b := make([]byte, n)
		fill(b, seed[x], from)
		app[x].Write(b)
	}
	// earlyReturn: Bidirectional returned although a direction has not finished.
	earlyReturn := func() *failure {
		isRet := false
		h.do(func() { isRet = returned })
		if !isRet || m.bothEnded() {
			return nil
		}
		if m.clean {
			return failf("C12/tcp/returned-before-both-directions-finished",
				"Bidirectional returned while direction(s) still open and no transport error had occurred (A->B finished=%v, B->A finished=%v)", m.d[0].ended, m.d[1].ended)
		}
		stopped = true // a relay that tears down after an error: allowed
		return nil
	}
	settle := func(d int, mandatory bool) *failure {
		if m.closed[1-d] {
			return nil
		}
		want := m.d[d].exp
		// (when the relay has returned it has closed its ends: the collector then drains what
		// is buffered and finishes, so "done" is the right thing to wait for, not "returned")
		ok := h.wait(B, func() bool { return len(col[1-d].buf) >= want || col[1-d].done })
		got := 0
		h.do(func() { got = len(col[1-d].buf) })
		if got >= want {
			return nil
		}
		if f := earlyReturn(); f != nil {
			return f
		}
		if !mandatory {
			vkit.Class("note:tcp-after-fault-delivery-differs-from-model")
			stopped = true
			return nil
		}
		if !ok {
			return hangf("C12/tcp/bytes-not-delivered", "direction %s: %d of %d bytes arrived within %v while the relay is live", dirName(d), got, want, B)
		}
		return nil
	}
	endOfStream := func(src int) *failure {
		// direction src just finished by end-of-stream at its source
		dst := 1 - src
		if !m.clean || noCW[dst] || m.closed[dst] {
			return nil
		}
		if !h.wait(B, func() bool { return col[dst].eof || returned }) {
			return hangf("C12/tcp/half-close-not-propagated", "application %s finished sending (%d bytes) but %s did not see end-of-stream within %v although the relay's end supports CloseWrite",
				appName(src), m.d[src].sent, appName(dst), B)
		}
		return earlyReturn()
	}

	// pending: waits owed for steps that were performed before the relay started
	var pendSettle [2]bool
	var pendEOS [2]bool
	flushPending := func() *failure {
		for d := 0; d < 2; d++ {
			if pendSettle[d] {
				pendSettle[d] = false
				if f := settle(d, m.d[d].hard == m.d[d].exp); f != nil {
					return f
				}
			}
		}
		for x := 0; x < 2; x++ {
			if pendEOS[x] {
				pendEOS[x] = false
				if f := endOfStream(x); f != nil {
					return f
				}
			}
		}
		return nil
	}
	preOK := func(op string) bool {
		switch op {
		case "sendA", "sendB", "sendBoth", "hcA", "hcB", "sendhcA", "sendhcB":
			return true
		}
		return false
	}
	// afterFault: the first transport error has ended one direction. The application at the
	// receiving end of that direction may be idle, waiting for exactly those bytes (it sent its
	// request and has not half-closed): unless it is told that nothing more will come (EOF from
	// the relay's half-close, or the connection closed) nothing ever ends the other direction
	// and Bidirectional cannot return. Asserted when the relay's end supports CloseWrite
	// (Bidirectional doc, item 1: "when a direction ends, CloseWrite() tells the peer EOF").
	reactive := [2]bool{c.ReactiveA, c.ReactiveB}
	notified := false
	afterFault := func() *failure {
		if m.clean || notified || stopped {
			return nil
		}
		notified = true
		d := m.firstFault
		dst := 1 - d
		if m.firstKind == "write-to-closed" || noCW[dst] || m.closed[dst] {
			return nil
		}
		if !h.wait(B, func() bool { return col[dst].eof || col[dst].done }) {
			other := "still open and idle"
			if m.d[dst].ended {
				other = "finished"
			}
			return hangf("C12/tcp/failed-direction-not-signalled/"+m.firstKind,
				"direction %s ended by %s after %d bytes, but application %s saw neither end-of-stream nor a closed connection within %v (relay end supports CloseWrite; direction %s is %s, so nothing else can end the relay)",
				dirName(d), m.firstKind, m.d[d].exp, appName(dst), B, dirName(dst), other)
		}
		vkit.Class("tcp-feat:error-end-signalled-to-peer")
		if reactive[dst] {
			if !m.d[dst].ended {
				vkit.Class("tcp-feat:idle-requester-closes-after-error-end")
				m.d[dst].ended = true
				m.d[dst].endKind = "eof"
			}
			app[dst].Close()
			m.closed[dst] = true
		}
		return nil
	}
	preSteps := 0
	for i, st := range c.Steps {
		if !started && (i >= c.Pre || !preOK(st.Op)) {
			start()
			if f := flushPending(); f != nil {
				return f, "", false, ""
			}
		}
		if !started {
			preSteps++
		}
		if stopped {
			break
		}
		if started {
			if f := earlyReturn(); f != nil {
				return f, "", false, ""
			}
			if f := afterFault(); f != nil {
				return f, "", false, ""
			}
		}
		op := st.Op
		andHalfClose := false
		if op == "sendhcA" || op == "sendhcB" {
			andHalfClose = true
			op = "send" + op[len(op)-1:]
		}
		switch op {
		case "sendA", "sendB":
			x := 0
			if op == "sendB" {
				x = 1
			}
			if m.hc[x] || m.closed[x] || st.N <= 0 {
				continue
			}
			wasClean := m.clean
			from := m.d[x].sent
			m.advance(x, st.N)
			if wasClean {
				m.d[x].hard = m.d[x].exp
			}
			write(x, from, st.N)
			if andHalfClose {
				// data and end-of-stream reach the relay's end together
				app[x].CloseWrite()
				m.hc[x] = true
				eos := false
				if !m.d[x].ended {
					m.d[x].ended = true
					m.d[x].endKind = "eof"
					eos = true
				}
				if !started {
					pendSettle[x] = true
					pendEOS[x] = pendEOS[x] || eos
					continue
				}
				if f := settle(x, wasClean); f != nil {
					return f, "", false, ""
				}
				if eos {
					if f := endOfStream(x); f != nil {
						return f, "", false, ""
					}
				}
				continue
			}
			if !started {
				pendSettle[x] = true
				continue
			}
			sendStart := time.Now()
			if f := settle(x, wasClean); f != nil {
				return f, "", false, ""
			}
			if wasClean && halfClosedDir[1-x] && m.clean {
				halfCloseThenReverse += st.N
			}
			// the other direction has finished, this one just carried bytes: a read deadline that
			// is armed on this direction's source and was not set again since the bytes passed is
			// an absolute cut-off for a direction that is alive (an idle timeout would be re-armed)
			if m.clean && m.d[1-x].ended && !m.d[x].ended {
				if dl, at := relEnd[x].armed(); !dl.IsZero() && at.Before(sendStart) {
					return failf("C12/tcp/unrefreshed-read-deadline-on-active-direction",
						"direction %s finished (%s); %d more bytes then went %s, yet the relay's read deadline on that direction's source end is still the one armed before (expires %v after it was set, %v from now): the reverse direction will be cut while it is alive",
						dirName(1-x), m.d[1-x].endKind, st.N, dirName(x), dl.Sub(at).Round(time.Millisecond), time.Until(dl).Round(time.Millisecond)), "", false, ""
				}
				vkit.Class("tcp-feat:no-stale-read-deadline-after-half-close")
			}
		case "sendBoth":
			if m.hc[0] || m.closed[0] || m.hc[1] || m.closed[1] || st.N <= 0 || st.M <= 0 {
				continue
			}
			wasClean := m.clean
			fromA, fromB := m.d[0].sent, m.d[1].sent
			fa := m.advance(0, st.N)
			fb := m.advance(1, st.M)
			if wasClean {
				switch {
				case !fa && !fb:
					m.d[0].hard, m.d[1].hard = m.d[0].exp, m.d[1].exp
				case fa && !fb:
					m.d[0].hard = m.d[0].exp
				case fb && !fa:
					m.d[1].hard = m.d[1].exp
				}
			}
			write(0, fromA, st.N)
			write(1, fromB, st.M)
			concurrent = true
			if !started {
				pendSettle[0], pendSettle[1] = true, true
				continue
			}
			if f := settle(0, wasClean && !fb); f != nil {
				return f, "", false, ""
			}
			if f := settle(1, wasClean && !fa); f != nil {
				return f, "", false, ""
			}
		case "hcA", "hcB", "closeA", "closeB":
			x := 0
			if op == "hcB" || op == "closeB" {
				x = 1
			}
			hard := op == "closeA" || op == "closeB"
			if m.closed[x] || (!hard && m.hc[x]) {
				continue
			}
			if hard {
				app[x].Close()
				m.closed[x] = true
			} else {
				app[x].CloseWrite()
				m.hc[x] = true
			}
			if !m.d[x].ended {
				m.d[x].ended = true
				m.d[x].endKind = "eof"
				if !m.d[1-x].ended && m.clean && !hard && started {
					halfClosedDir[x] = true
				}
				if !started {
					pendEOS[x] = true
					continue
				}
				if f := endOfStream(x); f != nil {
					return f, "", false, ""
				}
			}
		}
	}
	if !started {
		start()
		if f := flushPending(); f != nil {
			return f, "", false, ""
		}
	}
	if f := afterFault(); f != nil {
		return f, "", false, ""
	}
	// finish: bring every direction that is still open to its end (source half-closes)
	for x := 0; x < 2 && !stopped; x++ {
		if !m.d[x].ended && !m.closed[x] && !m.hc[x] {
			if f := earlyReturn(); f != nil {
				return f, "", false, ""
			}
			app[x].CloseWrite()
			m.hc[x] = true
			m.d[x].ended = true
			m.d[x].endKind = "eof"
		}
	}
	t0 := time.Now()
	if !h.wait(B, func() bool { return returned }) {
		return hangf("C12/tcp/no-return-after-both-directions-finished",
			"Bidirectional still running %v after both directions finished (A->B: %s after %d bytes, B->A: %s after %d bytes)", B, m.d[0].endKind, m.d[0].exp, m.d[1].endKind, m.d[1].exp), "", false, ""
	}
	noteLatency(time.Since(t0))

	// --- after return
	if !rA.IsClosed() || !rB.IsClosed() {
		return failf("C12/tcp/conn-left-open", "after return: relay end towards A closed=%v, towards B closed=%v", rA.IsClosed(), rB.IsClosed()), "", false, ""
	}
	// the relay closed its ends, so both applications' reads have ended
	if !h.wait(B, func() bool { return col[0].done && col[1].done }) {
		return hangf("C12/tcp/application-read-not-released", "an application read is still blocked %v after the relay closed its ends", B), "", false, ""
	}
	for d := 0; d < 2; d++ {
		got := col[1-d].buf
		s := m.d[d]
		if len(got) > s.sent {
			return failf("C12/tcp/extra-bytes", "direction %s: %d bytes arrived, only %d were sent", dirName(d), len(got), s.sent), "", false, ""
		}
		want := payload(seed[d], len(got))
		if !bytes.Equal(got, want) {
			return failf("C12/tcp/corrupted-or-reordered", "direction %s: byte %d of %d differs from what was sent", dirName(d), firstDiff(got, want), len(got)), "", false, ""
		}
		need := s.hard
		tag := "before-first-error"
		if m.clean {
			need, tag = s.sent, "no-error-run"
		}
		if len(got) < need {
			return failf("C12/tcp/bytes-lost/"+tag, "direction %s (ended by %s): %d bytes arrived, %d were due (%d sent)", dirName(d), s.endKind, len(got), need, s.sent), "", false, ""
		}
	}
	// Result counts = bytes the relay's destination ends accepted
	accepted := [2]int64{rB.BytesWritten(), rA.BytesWritten()}
	if c.ViaTunnel {
		// the Tunnel keeps the Result to itself; what it publishes are the traffic statistics
		if tunStats.BytesSent != accepted[0] || tunStats.BytesRecv != accepted[1] {
			return failf("C12/tcp/tunnel-stats-mismatch", "Tunnel stats sent=%d recv=%d, the relay ends accepted %d / %d", tunStats.BytesSent, tunStats.BytesRecv, accepted[0], accepted[1]), "", false, ""
		}
		res = &iocopy.Result{BytesSent: accepted[0], BytesReceived: accepted[1]}
	}
	reported := [2]int64{res.BytesSent, res.BytesReceived}
	for d := 0; d < 2; d++ {
		if reported[d] != accepted[d] {
			kind := m.d[d].endKind
			if kind == "write-fault" || kind == "write-to-closed" {
				kind = "write-error"
			}
			return failf("C12/tcp/result-count-mismatch/direction-ended-by-"+kind,
				"direction %s: Result reports %d bytes, the destination accepted %d (direction ended by %s)", dirName(d), reported[d], accepted[d], m.d[d].endKind), "", false, ""
		}
	}
	if !c.ViaTunnel && (completions != 1 || cbSent != res.BytesSent || cbRecv != res.BytesReceived) {
		return failf("C12/tcp/oncomplete", "OnComplete ran %d times with (%d,%d); Result has (%d,%d)", completions, cbSent, cbRecv, res.BytesSent, res.BytesReceived), "", false, ""
	}
	errs := [2]error{res.SendError, res.ReceiveError}
	if c.ViaTunnel {
		ambiguousSkip := errors.New("n/a")
		errs = [2]error{nil, nil}
		if m.firstFault >= 0 {
			errs[m.firstFault] = ambiguousSkip // not observable through the Tunnel
		}
	}
	if m.clean && (errs[0] != nil || errs[1] != nil) {
		return failf("C12/tcp/error-reported-on-clean-run", "no transport error was injected, Result has SendError=%v ReceiveError=%v", errs[0], errs[1]), "", false, ""
	}
	// (a read fault placed exactly where the source's stream ends is ambiguous: an end that
	// returns its last bytes together with io.EOF never performs the failing Read)
	ambiguous := m.firstFault >= 0 && m.firstKind == "read-fault" && m.d[m.firstFault].fr == int64(m.d[m.firstFault].sent) &&
		(m.hc[m.firstFault] || m.closed[m.firstFault])
	if m.firstFault >= 0 && errs[m.firstFault] == nil && !ambiguous {
		return failf("C12/tcp/fault-not-reported/"+m.firstKind, "direction %s failed (%s) but its Result error is nil", dirName(m.firstFault), m.firstKind), "", false, ""
	}
	if !obs.background {
		if f := leakAfter(baseline); f != nil {
			return f, "", false, ""
		}
	}

	// --- classification
	switch {
	case m.clean:
		class = "tcp:clean/"
		switch {
		case m.closed[0] || m.closed[1]:
			class += "with-hard-close"
		case halfClosedDir[0] || halfClosedDir[1]:
			class += "half-close-then-reverse"
		default:
			class += "both-finish-at-end"
		}
	default:
		class = "tcp:fault/" + m.firstKind
	}
	nt = m.clean && halfCloseThenReverse >= 1024
	if nt {
		vkit.Class("tcp-feat:half-close-then>=1KiB-reverse")
	}
	if c.NoCWA || c.NoCWB {
		vkit.Class("tcp-feat:end-without-CloseWrite")
	}
	if c.ReadCapA == 1 || c.ReadCapB == 1 {
		vkit.Class("tcp-feat:1-byte-reads")
	}
	if m.d[0].sent > 32*1024 || m.d[1].sent > 32*1024 {
		vkit.Class("tcp-feat:payload>32KiB(copy-buffer)")
	}
	if concurrent {
		vkit.Class("tcp-feat:both-directions-at-once")
	}
	if c.Limit > 0 {
		vkit.Class(fmt.Sprintf("tcp-feat:bandwidth-limit=%d", c.Limit))
		class = "limited+" + class
	}
	if c.ViaTunnel {
		vkit.Class("tcp-feat:run-by-client-tunnel.Tunnel")
		class = "tunnel+" + class
	}
	if preSteps > 0 {
		vkit.Class("tcp-feat:data/EOF-buffered-before-relay-starts")
	}
	if c.EOFWithDataA || c.EOFWithDataB {
		vkit.Class("tcp-feat:relay-end-returns-data-with-EOF")
	}
	if !m.clean {
		k := c.ErrKindA
		if (m.firstFault == 0) == (m.firstKind == "write-fault") { // A->B write / B->A read happen on B's end
			k = c.ErrKindB
		}
		if m.firstKind == "write-to-closed" || k == "" {
			k = "generic"
		}
		vkit.Class("tcp-feat:first-error-kind=" + k)
	}
	if !m.clean && (m.d[0].hard > 0 || m.d[1].hard > 0) {
		vkit.Class("tcp-feat:fault-after-some-bytes")
	}
	b, _ := json.Marshal(c)
	sig = string(b)
	vkit.Sample(class, c)
	return nil, class, nt, sig
}

func dirName(d int) string {
	if d == 0 {
		return "A->B"
	}
	return "B->A"
}
func appName(x int) string {
	if x == 0 {
		return "A"
	}
	return "B"
}

// ---------------------------------------------------------------------------
// generator

func genSize(t *rapid.T, label string) int {
	switch rapid.IntRange(0, 11).Draw(t, label+"Class") {
	case 0:
		return 1
	case 1, 2, 3:
		return rapid.IntRange(2, 200).Draw(t, label)
	case 4, 5, 6, 7:
		return rapid.IntRange(1024, 6000).Draw(t, label)
	case 8:
		return 32*1024 + rapid.IntRange(-1, 1).Draw(t, label)
	case 9:
		return rapid.IntRange(60000, 200000).Draw(t, label)
	default:
		return rapid.IntRange(200, 1100).Draw(t, label)
	}
}

func genTCP(t *rapid.T) *TCPCase {
	c := &TCPCase{SeedA: rapid.Uint64().Draw(t, "seedA"), SeedB: rapid.Uint64().Draw(t, "seedB"),
		FailReadA: -1, FailReadB: -1, FailWriteA: -1, FailWriteB: -1}
	c.NoCWA = rapid.IntRange(0, 3).Draw(t, "noCWA") == 0
	c.NoCWB = rapid.IntRange(0, 2).Draw(t, "noCWB") == 0 // the tunnel end usually lacks CloseWrite in production
	caps := []int{0, 0, 0, 1, 7, 1000, 4096, 32768}
	c.ReadCapA = rapid.SampledFrom(caps).Draw(t, "capA")
	c.ReadCapB = rapid.SampledFrom(caps).Draw(t, "capB")
	var hc, closed [2]bool
	var sent [2]int
	n := rapid.IntRange(1, 7).Draw(t, "nsteps")
	for i := 0; i < n; i++ {
		var ops []string
		canA, canB := !hc[0] && !closed[0], !hc[1] && !closed[1]
		if canA {
			ops = append(ops, "sendA", "sendA", "sendA", "hcA", "sendhcA")
		}
		if canB {
			ops = append(ops, "sendB", "sendB", "sendB", "hcB", "sendhcB")
		}
		if canA && canB {
			ops = append(ops, "sendBoth", "sendBoth")
		}
		if !closed[0] && i > 0 {
			ops = append(ops, "closeA")
		}
		if !closed[1] && i > 0 {
			ops = append(ops, "closeB")
		}
		if len(ops) == 0 {
			break
		}
		st := TCPStep{Op: rapid.SampledFrom(ops).Draw(t, "op")}
		// the request / half-close / response shape: after a half-close the other side answers
		answer := -1
		if k := len(c.Steps); k > 0 && rapid.IntRange(0, 2).Draw(t, "answer") > 0 {
			if c.Steps[k-1].Op == "hcA" && canB {
				st.Op, answer = "sendB", 1
			} else if c.Steps[k-1].Op == "hcB" && canA {
				st.Op, answer = "sendA", 0
			}
		}
		switch st.Op {
		case "sendA", "sendB", "sendhcA", "sendhcB":
			x := 0
			if st.Op == "sendB" || st.Op == "sendhcB" {
				x = 1
			}
			st.N = genSize(t, "n")
			if answer >= 0 && st.N < 1024 {
				st.N += 1024
			}
			sent[x] += st.N
			if st.Op == "sendhcA" || st.Op == "sendhcB" {
				hc[x] = true
			}
		case "sendBoth":
			st.N, st.M = genSize(t, "n"), genSize(t, "m")
			sent[0] += st.N
			sent[1] += st.M
		case "hcA":
			hc[0] = true
		case "hcB":
			hc[1] = true
		case "closeA":
			closed[0] = true
		case "closeB":
			closed[1] = true
		}
		c.Steps = append(c.Steps, st)
	}
	// how the relay's ends report end-of-stream and errors
	c.EOFWithDataA = rapid.IntRange(0, 2).Draw(t, "eofWithDataA") == 0
	c.EOFWithDataB = rapid.IntRange(0, 1).Draw(t, "eofWithDataB") == 0 // the tunnel end (QUIC streams do this)
	c.ErrKindA = rapid.SampledFrom(errKinds).Draw(t, "errKindA")
	c.ErrKindB = rapid.SampledFrom(errKinds).Draw(t, "errKindB")
	c.ViaTunnel = rapid.IntRange(0, 3).Draw(t, "viaTunnel") == 0
	if !c.ViaTunnel && rapid.IntRange(0, 4).Draw(t, "limited") == 0 {
		// the bucket starts full with 2 x limit tokens: a run that moves no more than that in
		// total never waits, so these cases cost no wall-clock time
		total := int64(sent[0] + sent[1])
		var fit []int64
		for _, l := range []int64{4096, 8000, 16383, 16384, 20000, 32767, 32768, 65536, 1 << 20} {
			if 2*l >= total {
				fit = append(fit, l)
			}
		}
		if len(fit) > 0 {
			c.Limit = rapid.SampledFrom(fit).Draw(t, "limit")
		}
	}
	c.ReactiveA = rapid.Bool().Draw(t, "reactiveA")
	c.ReactiveB = rapid.Bool().Draw(t, "reactiveB")
	if rapid.IntRange(0, 2).Draw(t, "preStart") == 0 {
		c.Pre = rapid.IntRange(1, len(c.Steps)).Draw(t, "pre")
	}
	// transport faults at drawn byte positions
	nf := 0
	switch f := rapid.IntRange(0, 19).Draw(t, "faults"); {
	case f >= 12 && f < 19:
		nf = 1
	case f == 19:
		nf = 2
	}
	for i := 0; i < nf; i++ {
		which := rapid.IntRange(0, 3).Draw(t, "faultAt")
		total := sent[0]
		if which == 1 || which == 2 { // read at B's end / write at A's end: direction B->A
			total = sent[1]
		}
		var k int
		switch rapid.IntRange(0, 5).Draw(t, "posClass") {
		case 0:
			k = 0
		case 1:
			k = total
		case 2:
			k = total + 1
		default:
			k = rapid.IntRange(0, total).Draw(t, "pos")
		}
		switch which {
		case 0:
			c.FailReadA = int64(k)
		case 1:
			c.FailReadB = int64(k)
		case 2:
			c.FailWriteA = int64(k)
		case 3:
			c.FailWriteB = int64(k)
		}
	}
	return c
}

// TestTCPRelay is the generated search over scripts for iocopy.Bidirectional.
func TestTCPRelay(t *testing.T) {
	resetSlowBudget()
	vkit.Check(t, 12000, 150000, func(t *rapid.T) {
		check(t, Case{TCP: genTCP(t)})
	})
}

// TestTCPScripted runs the canonical shapes once per run (request / half-close / response,
// with and without CloseWrite on the tunnel end), so they are present whatever the seed.
func TestTCPScripted(t *testing.T) {
	resetSlowBudget()
	if vkit.Shard() != 0 {
		t.Skip("single shard")
	}
	base := func() TCPCase {
		return TCPCase{SeedA: 11, SeedB: 22, FailReadA: -1, FailReadB: -1, FailWriteA: -1, FailWriteB: -1}
	}
	for _, noCW := range []bool{false, true} {
		for _, cap := range []int{0, 1, 4096} {
			c := base()
			c.NoCWB, c.ReadCapA, c.ReadCapB = noCW, cap, cap
			c.Steps = []TCPStep{{Op: "sendA", N: 700}, {Op: "hcA"}, {Op: "sendB", N: 40000}, {Op: "sendB", N: 1}, {Op: "hcB"}}
			check(t, Case{TCP: &c})
			// through tunnel.Tunnel: the tunnel side finishes first, the local application waits
			// for end-of-stream, then sends its last bytes and closes
			ct := base()
			ct.ViaTunnel, ct.NoCWB, ct.ReadCapA, ct.ReadCapB = true, noCW, cap, cap
			ct.Steps = []TCPStep{{Op: "sendA", N: 300}, {Op: "sendB", N: 30000}, {Op: "hcB"}, {Op: "sendA", N: 2000}, {Op: "closeA"}}
			check(t, Case{TCP: &ct})
			c2 := base()
			c2.NoCWA, c2.ReadCapA, c2.ReadCapB = noCW, cap, cap
			c2.Steps = []TCPStep{{Op: "sendBoth", N: 100000, M: 70000}, {Op: "hcB"}, {Op: "sendA", N: 5000}, {Op: "closeA"}}
			check(t, Case{TCP: &c2})
		}
	}
	// data and end-of-stream found together by the relay (one Read returns n>0 and io.EOF)
	for _, cap := range []int{0, 1, 100} {
		for _, n := range []int{1, 300, 40000} {
			c := base()
			c.EOFWithDataA, c.EOFWithDataB, c.ReadCapA, c.ReadCapB, c.Pre = true, true, cap, cap, 2
			c.Steps = []TCPStep{{Op: "sendhcB", N: n}, {Op: "sendhcA", N: n + 7}}
			check(t, Case{TCP: &c})
			c2 := base()
			c2.EOFWithDataB, c2.NoCWB, c2.ReadCapB, c2.Pre = true, true, cap, 1
			c2.Steps = []TCPStep{{Op: "sendB", N: n}, {Op: "sendA", N: 2000}, {Op: "sendhcB", N: n}, {Op: "sendhcA", N: 9}}
			check(t, Case{TCP: &c2})
		}
	}
	// bandwidth-limited relay (target side): one Read fills the 32 KiB copy buffer
	for _, lim := range []int64{12000, 16384, 20000, 32767, 32768, 65536} {
		for _, op := range []string{"sendA", "sendB"} {
			c := base()
			c.Limit, c.Pre = lim, 1
			c.Steps = []TCPStep{{Op: op, N: 32768}, {Op: "hcB"}, {Op: "hcA"}}
			check(t, Case{TCP: &c})
		}
		c := base() // request / half-close / response under a limit
		c.Limit = lim
		c.Steps = []TCPStep{{Op: "sendA", N: 700}, {Op: "hcA"}, {Op: "sendB", N: 4000}, {Op: "hcB"}}
		check(t, Case{TCP: &c})
	}
	// request sent, requester idle (no half-close), the response direction dies at a point
	for _, kind := range errKinds {
		for _, k := range []int64{0, 1, 300} {
			c := base() // tunnel read error while the local app waits
			c.ErrKindB, c.FailReadB, c.ReactiveA, c.NoCWB = kind, k, true, true
			c.Steps = []TCPStep{{Op: "sendA", N: 700}, {Op: "sendB", N: 1000}}
			check(t, Case{TCP: &c})
			c2 := base() // write to the local socket fails while the local app waits
			c2.ErrKindA, c2.FailWriteA, c2.ReactiveA, c2.NoCWB = kind, k, true, true
			c2.Steps = []TCPStep{{Op: "sendA", N: 700}, {Op: "sendB", N: 1000}}
			check(t, Case{TCP: &c2})
			c3 := base() // mirrored: local read error while the tunnel side waits
			c3.ErrKindA, c3.FailReadA, c3.ReactiveB = kind, k, true
			c3.Steps = []TCPStep{{Op: "sendB", N: 700}, {Op: "sendA", N: 1000}}
			check(t, Case{TCP: &c3})
		}
	}
	for _, kind := range errKinds {
		c := base()
		c.ErrKindA, c.ErrKindB, c.FailReadB, c.FailWriteB = kind, kind, 1200, 900
		c.Steps = []TCPStep{{Op: "sendBoth", N: 800, M: 1100}, {Op: "sendB", N: 200}, {Op: "sendA", N: 200}}
		check(t, Case{TCP: &c})
	}
	for _, k := range []int64{0, 1, 4999, 5000} {
		c := base()
		c.FailWriteB = k
		c.Steps = []TCPStep{{Op: "sendA", N: 5000}, {Op: "sendB", N: 300}, {Op: "sendA", N: 1}}
		check(t, Case{TCP: &c})
		c2 := base()
		c2.FailReadB = k
		c2.Steps = []TCPStep{{Op: "sendB", N: 5000}, {Op: "sendA", N: 300}, {Op: "hcA"}}
		check(t, Case{TCP: &c2})
	}
}

var _ = fmt.Sprintf
