package c12

// Long-lived half-closed connections (real time is the subject here).
//
// One side half-closes at t=0, the other direction keeps trickling bytes for longer than
// any fixed "drain" allowance a relay might be tempted to apply (12 s in quick, 35 s in
// thorough) and only then finishes. The case runs in the BACKGROUND of the whole test
// binary on shards 0 and 1 (one orientation each): TestAALongHalfClosedStart (first test
// of the binary) starts it, TestZZLongHalfClosedVerdict (last test) collects the verdict,
// so it adds nothing to the wall time of a run that takes longer than the case.
//
// Oracle: every trickled byte arrives, then end-of-stream; Bidirectional returns after the
// trickling side finished, without an error.

import (
	"bytes"
	"fmt"
	"sync"
	"testing"
	"time"

	"tunnox-core/internal/utils/iocopy"
	"tunnox-core/verif/vkit"
)

type LongCase struct {
	FirstToClose string `json:"first_to_close"` // A or B half-closes at t=0; the other side trickles
	Seconds      int    `json:"seconds"`
	EveryMS      int    `json:"every_ms"`
}

var longRun struct {
	mu      sync.Mutex
	started bool
	c       LongCase
	done    chan struct{}
	fail    *failure
}

func runLong(c LongCase) *failure {
	appA, rA := vkit.NewBufConnPair("10.3.0.1:40001", "10.3.0.2:7001")
	rB, appB := vkit.NewBufConnPair("10.4.0.2:7002", "10.4.0.1:40002")
	defer func() {
		for _, x := range []*vkit.BufConn{appA, appB, rA, rB} {
			x.Close()
		}
	}()
	h := newHub()
	closer, talker := appA, appB // closer half-closes first, talker keeps sending
	name := "B->A"
	if c.FirstToClose == "B" {
		closer, talker = appB, appA
		name = "A->B"
	}
	colCloser := startCollector(h, closer) // receives the trickle
	colTalker := startCollector(h, talker)
	var res *iocopy.Result
	returned := false
	go func() {
		r := iocopy.Bidirectional(rA, rB, &iocopy.Options{LogPrefix: "c12-long"})
		h.do(func() { res = r; returned = true })
	}()
	request := payload(5, 300)
	closer.Write(request)
	closer.CloseWrite()
	B := bound()
	if !h.wait(B, func() bool { return colTalker.eof }) {
		return hangf("C12/tcp/half-close-not-propagated", "long-lived case: the half-close of %s was not passed on within %v", c.FirstToClose, B)
	}
	start := time.Now()
	var sent []byte
	for i := 0; time.Since(start) < time.Duration(c.Seconds)*time.Second; i++ {
		b := make([]byte, 1+i%7)
		fill(b, 99, len(sent))
		talker.Write(b)
		sent = append(sent, b...)
		want := len(sent)
		if !h.wait(B, func() bool { return len(colCloser.buf) >= want || returned }) || len(colCloser.buf) < want {
			got := 0
			isRet := false
			h.do(func() { got = len(colCloser.buf); isRet = returned })
			errs := ""
			if isRet {
				errs = fmt.Sprintf("; Bidirectional returned with SendError=%v ReceiveError=%v", res.SendError, res.ReceiveError)
			}
			return failf("C12/tcp/long-half-closed/reverse-direction-cut", "%s half-closed at t=0, direction %s kept sending a few bytes every %d ms: %.1f s later %d of %d bytes have arrived%s",
				c.FirstToClose, name, c.EveryMS, time.Since(start).Seconds(), got, want, errs)
		}
		time.Sleep(time.Duration(c.EveryMS) * time.Millisecond)
	}
	talker.CloseWrite()
	if !h.wait(B, func() bool { return returned }) {
		return hangf("C12/tcp/no-return-after-both-directions-finished", "long-lived case: Bidirectional still running %v after the second half-close", B)
	}
	h.wait(B, func() bool { return colCloser.done && colTalker.done })
	if !bytes.Equal(colCloser.buf, sent) || !bytes.Equal(colTalker.buf, request) {
		return failf("C12/tcp/long-half-closed/bytes-differ", "trickled %d bytes, %d arrived (first difference at %d); request %d bytes, %d arrived", len(sent), len(colCloser.buf), firstDiff(colCloser.buf, sent), len(request), len(colTalker.buf))
	}
	if res.SendError != nil || res.ReceiveError != nil {
		return failf("C12/tcp/error-reported-on-clean-run", "long-lived case: nothing failed, Result has SendError=%v ReceiveError=%v", res.SendError, res.ReceiveError)
	}
	return nil
}

// TestAALongHalfClosedStart must stay the first test of the binary (file name order).
func TestAALongHalfClosedStart(t *testing.T) {
	if vkit.Replaying() != "" || vkit.Shard() > 1 {
		t.Skip("long-lived case runs on shards 0 and 1")
	}
	longRun.mu.Lock()
	defer longRun.mu.Unlock()
	longRun.started = true
	longRun.c = LongCase{FirstToClose: []string{"A", "B"}[vkit.Shard()%2], Seconds: vkit.Pick(12, 35), EveryMS: 250}
	longRun.done = make(chan struct{})
	go func() {
		f := runLong(longRun.c)
		longRun.mu.Lock()
		longRun.fail = f
		longRun.mu.Unlock()
		close(longRun.done)
	}()
}
