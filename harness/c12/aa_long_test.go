package c12

// Long-lived half-closed connections (real time is the subject here).
//
// One side half-closes at t=0, the other direction keeps trickling bytes for longer than
// any fixed "drain" allowance a relay might be tempted to apply (12 s in quick, 35 s in
// thorough) and only then finishes. The case runs in the BACKGROUND of the whole test
// binary on shards 0 and 1 (one orientation each): TestAALongHalfClosedStart (first test
// of the binary) starts it, TestZZLongHalfClosedVerdict (last test) collects the verdict,
// so it adds nothing to the wall time of a run that takes longer than the case.
//
// Oracle: every trickled byte arrives, then end-of-stream; Bidirectional returns after the
// trickling side finished, without an error.

import (
	"bytes"
	"fmt"
	"sync"
	"testing"
	"time"

	"tunnox-core/internal/utils/iocopy"
	"tunnox-core/verif/vkit"
)

type LongCase struct {
	FirstToClose string `json:"first_to_close"` // A or B half-closes at t=0; the other side trickles
	Seconds      int    `json:"seconds"`
	EveryMS      int    `json:"every_ms"`
}

func runLong(c LongCase) *failure {
	appA, rA := vkit.NewBufConnPair("10.3.0.1:40001", "10.3.0.2:7001")
	rB, appB := vkit.NewBufConnPair("10.4.0.2:7002", "10.4.0.1:40002")
	defer func() {
		for _, x := range []*vkit.BufConn{appA, appB, rA, rB} {
			x.Close()
		}
	}()
	h := newHub()
	closer, talker := appA, appB // closer half-closes first, talker keeps sending
	name := "B->A"
	if c.FirstToClose == "B" {
		closer, talker = appB, appA
		name = "A->B"
	}
	colCloser := startCollector(h, closer) // receives the trickle
	colTalker := startCollector(h, talker)
	var res *iocopy.Result
	returned := false
	go func() {
		r := iocopy.Bidirectional(rA, rB, &iocopy.Options{LogPrefix: "c12-long"})
		h.do(func() { res = r; returned = true })
	}()
	request := payload(5, 300)
	closer.Write(request)
	closer.CloseWrite()
	B := bound()
	if !h.wait(B, func() bool { return colTalker.eof }) {
		return hangf("C12/tcp/half-close-not-propagated", "long-lived case: the half-close of %s was not passed on within %v", c.FirstToClose, B)
	}
	start := time.Now()
	var sent []byte
	for i := 0; time.Since(start) < time.Duration(c.Seconds)*time.Second; i++ {
		b := make([]byte, 1+i%7)
		fill(b, 99, len(sent))
		talker.Write(b)
		sent = append(sent, b...)
		want := len(sent)
		if !h.wait(B, func() bool { return len(colCloser.buf) >= want || returned }) || len(colCloser.buf) < want {
			got := 0
			isRet := false
			h.do(func() { got = len(colCloser.buf); isRet = returned })
			errs := ""
			if isRet {
				errs = fmt.Sprintf("; Bidirectional returned with SendError=%v ReceiveError=%v", res.SendError, res.ReceiveError)
			}
			return failf("C12/tcp/long-half-closed/reverse-direction-cut", "%s half-closed at t=0, direction %s kept sending a few bytes every %d ms: %.1f s later %d of %d bytes have arrived%s",
				c.FirstToClose, name, c.EveryMS, time.Since(start).Seconds(), got, want, errs)
		}
		time.Sleep(time.Duration(c.EveryMS) * time.Millisecond)
	}
	talker.CloseWrite()
	if !h.wait(B, func() bool { return returned }) {
		return hangf("C12/tcp/no-return-after-both-directions-finished", "long-lived case: Bidirectional still running %v after the second half-close", B)
	}
	h.wait(B, func() bool { return colCloser.done && colTalker.done })
	if !bytes.Equal(colCloser.buf, sent) || !bytes.Equal(colTalker.buf, request) {
		return failf("C12/tcp/long-half-closed/bytes-differ", "trickled %d bytes, %d arrived (first difference at %d); request %d bytes, %d arrived", len(sent), len(colCloser.buf), firstDiff(colCloser.buf, sent), len(request), len(colTalker.buf))
	}
	if res.SendError != nil || res.ReceiveError != nil {
		return failf("C12/tcp/error-reported-on-clean-run", "long-lived case: nothing failed, Result has SendError=%v ReceiveError=%v", res.SendError, res.ReceiveError)
	}
	return nil
}

// bgJob: one slow case that runs in the background of the whole binary.
type bgJob struct {
	c    Case
	done chan struct{}
	fail *failure
}

var bgJobs struct {
	mu   sync.Mutex
	jobs []*bgJob
}

// slowLimited: a bandwidth limit so low that the transfer outlasts the limiter's initial
// bucket and every 32 KiB chunk has to be waited for over several seconds (about 8 s in
// all): 64 KiB pre-buffered, so that the relay reads two full copy buffers.
func slowLimited(op string) Case {
	return Case{TCP: &TCPCase{SeedA: 41, SeedB: 42, FailReadA: -1, FailReadB: -1, FailWriteA: -1, FailWriteB: -1,
		Limit: 6500, Pre: 1, Steps: []TCPStep{{Op: op, N: 65536}, {Op: "hcA"}, {Op: "hcB"}}}}
}

// TestAALongHalfClosedStart must stay the first test of the binary (file name order).
// Background jobs by shard: 0,1 long-lived half-closed connection (one orientation each);
// 2,3 slow bandwidth-limited transfer (one direction each); 4 SOCKS5 CONNECT session through
// the real socks5.Listener that is still receiving 33 s after accept.
func TestAALongHalfClosedStart(t *testing.T) {
	if vkit.Replaying() != "" {
		t.Skip("replay")
	}
	all := []Case{
		{Long: &LongCase{FirstToClose: "A", Seconds: vkit.Pick(12, 35), EveryMS: 250}},
		{Long: &LongCase{FirstToClose: "B", Seconds: vkit.Pick(12, 35), EveryMS: 250}},
		slowLimited("sendA"),
		slowLimited("sendB"),
		{Socks: &SocksCase{Seconds: 33, EveryMS: 400}},
	}
	bgJobs.mu.Lock()
	defer bgJobs.mu.Unlock()
	for i, c := range all {
		if i%vkit.NShards() != vkit.Shard() || vkit.Shard() >= len(all) {
			continue
		}
		j := &bgJob{c: c, done: make(chan struct{})}
		bgJobs.jobs = append(bgJobs.jobs, j)
		go func() {
			var f *failure
			if j.c.Long != nil {
				f = runLong(*j.c.Long)
			} else if j.c.Socks != nil {
				f = runSocks(*j.c.Socks)
			} else {
				f, _, _, _ = runTCPOpt(j.c.TCP, true)
			}
			bgJobs.mu.Lock()
			j.fail = f
			bgJobs.mu.Unlock()
			close(j.done)
		}()
	}
	// the foreground cases diff the process-wide number of relay goroutines: let the
	// background relays come up before the first foreground case takes its baseline
	deadline := time.Now().Add(3 * time.Second)
	for len(bgJobs.jobs) > 0 && time.Now().Before(deadline) {
		if n, _ := relayGoroutines(); n >= 3*len(bgJobs.jobs) {
			break
		}
		time.Sleep(time.Millisecond)
	}
}
