package c12

// UDP relay: iocopy.UDP(udpSide, tunnel).
//
//	datagrams  <-- udpSide  [ iocopy.UDP ]  tunnel -->  [len:2 BE][data] [len:2 BE][data] ...
//
// tunnel -> UDP: the tunnel's read side serves a reference-encoded record stream in drawn
// chunks, cut at a byte offset, ending with EOF or a transport error. Oracle: exactly the
// records complete before the cut reach the UDP side (order, boundaries, contents) and
// UDP() RETURNS within the bound - whatever the UDP side is doing.
//
// UDP -> tunnel: datagrams offered on the UDP side; what the relay writes to the tunnel
// must decode (own reference decoder) to the same sequence.
//
// The UDP side is a packet-oriented fake with the blocking behaviour of
// mapping.UDPVirtualConn (Read blocks; Close makes it return io.EOF), or a real connected
// loopback *net.UDPConn (what client.handleUDPTargetTunnel passes; this is the sendmmsg
// path of udp_batch.go). The tunnel side is iocopy.NewReadWriteCloser(reader, writer,
// closer) exactly as the callers build it.

import (
	"bytes"
	"encoding/json"
	"errors"
	"fmt"
	"io"
	"net"
	"sync"
	"sync/atomic"
	"testing"
	"time"

	"pgregory.net/rapid"

	"tunnox-core/internal/utils/iocopy"
	"tunnox-core/verif/vkit"
)

const (
	keySpin     = "C12/udp-relay-spins-on-partial-record-at-tunnel-end"
	keyWaitsUDP = "C12/udp-relay-waits-for-udp-side-after-tunnel-eof"
)

type DG struct {
	Len  int    `json:"len"`
	Seed uint64 `json:"seed"`
}

func (d DG) bytes() []byte { return payload(d.Seed, d.Len) }

type UDPCase struct {
	Records     []DG   `json:"records"`       // tunnel -> UDP, reference-encoded
	Cut         int    `json:"cut"`           // the tunnel stream ends after this many bytes (-1: after the last record)
	End         string `json:"end"`           // eof | err (generic error) | timeout (permanent, Timeout()==true) | deadline (os.ErrDeadlineExceeded); errors repeat on every Read
	Chunks      []int  `json:"chunks"`        // read chunking of the tunnel stream (0 = a (0,nil) read)
	Fixed       int    `json:"fixed"`         // chunk size after the listed ones (0 = rest at once)
	EOFWithLast bool   `json:"eof_with_last"` // final bytes returned together with the end (EOF or error)
	Dgrams      []DG   `json:"dgrams"`        // UDP -> tunnel
	// Mode: what the UDP side does.
	//  idle  nothing arrives, the relay is blocked in udpSide.Read when the tunnel ends
	//  eof   Dgrams arrive, then the UDP side reports end (session closed); tunnel ends after the relay forwarded them
	//  open  Dgrams arrive, UDP side stays open; tunnel ends after the relay forwarded them
	//  race  Dgrams arrive, UDP side stays open; tunnel ends whenever its stream is consumed
	Mode      string `json:"mode"`
	FeedFirst bool   `json:"feed_first"` // datagrams queued before the relay starts
	Real      bool   `json:"real"`       // UDP side is a real connected loopback socket (modes idle/open/race)
}

// ---------------------------------------------------------------------------
// reference codec

func refEncode(recs []DG) (stream []byte, ends []int) {
	for _, r := range recs {
		stream = append(stream, byte(r.Len>>8), byte(r.Len))
		stream = append(stream, r.bytes()...)
		ends = append(ends, len(stream))
	}
	return
}

// refDecode splits a byte stream into records; rest is the length of a trailing partial record.
func refDecode(b []byte) (out [][]byte, rest int, bad string) {
	for len(b) > 0 {
		if len(b) < 2 {
			return out, len(b), ""
		}
		n := int(b[0])<<8 | int(b[1])
		if n == 0 {
			return out, len(b), "zero-length record"
		}
		if len(b) < 2+n {
			return out, len(b), ""
		}
		out = append(out, b[2:2+n])
		b = b[2+n:]
	}
	return out, 0, ""
}

// cutClass: where offset c falls in the stream.
func cutClass(ends []int, c int) string {
	start := 0
	for _, e := range ends {
		if c == start || c == e {
			return "boundary"
		}
		if c < e {
			if c-start < 2 {
				return "in-length"
			}
			return "in-body"
		}
		start = e
	}
	return "boundary"
}

// ---------------------------------------------------------------------------
// tunnel side

var errInjected = errors.New("c12: injected tunnel transport error")

type tunSide struct {
	cr       vkit.ChunkReader
	total    int
	endErr   error         // nil: io.EOF
	gate     chan struct{} // closed when the end of the stream may be delivered
	released atomic.Bool
	// observations
	endDelivered  atomic.Bool
	readsAfterEnd atomic.Int64
	mu            sync.Mutex
	out           []byte
	closed        atomic.Int32
	h             *hub
	holdAll       bool // nothing is served before the gate opens
	// containment of a relay goroutine that does not stop reading after the end
	killed atomic.Bool
	parked atomic.Bool
}

func (s *tunSide) Read(p []byte) (int, error) {
	if s.parked.Load() {
		select {} // never again on a CPU
	}
	if s.killed.Load() {
		// a zero length prefix is the one input on which the de-framing loop gives up
		clear(p)
		return len(p), nil
	}
	end := s.endErr
	if end == nil {
		end = io.EOF
	}
	if s.holdAll && !s.released.Load() {
		<-s.gate
	}
	if s.cr.Consumed() < s.total {
		n, err := s.cr.Read(p)
		if err != nil {
			s.endDelivered.Store(true)
		}
		return n, err
	}
	if !s.endDelivered.Load() {
		<-s.gate
		s.endDelivered.Store(true)
		return 0, end
	}
	s.readsAfterEnd.Add(1)
	return 0, end
}

func (s *tunSide) Write(p []byte) (int, error) {
	s.h.do(func() {
		s.mu.Lock()
		s.out = append(s.out, p...)
		s.mu.Unlock()
	})
	return len(p), nil
}

func (s *tunSide) captured() []byte {
	s.mu.Lock()
	defer s.mu.Unlock()
	return append([]byte(nil), s.out...)
}
func (s *tunSide) capturedLen() int { s.mu.Lock(); defer s.mu.Unlock(); return len(s.out) }
func (s *tunSide) release() {
	if !s.released.Swap(true) {
		close(s.gate)
	}
}

// ---------------------------------------------------------------------------
// UDP side (fake): packet oriented, blocking Read, Close => io.EOF (as UDPVirtualConn)

type pktSide struct {
	h        *hub // shares the hub lock
	q        [][]byte
	eof      bool // report end once the queue is empty
	closed   bool
	frozen   bool
	got      [][]byte
	consumed int64
	closes   int
}

func (p *pktSide) Read(b []byte) (int, error) {
	p.h.mu.Lock()
	defer p.h.mu.Unlock()
	for {
		if p.closed {
			return 0, io.EOF
		}
		if len(p.q) > 0 {
			d := p.q[0]
			p.q = p.q[1:]
			n := copy(b, d)
			p.consumed += int64(n)
			p.h.cond.Broadcast()
			return n, nil
		}
		if p.eof {
			return 0, io.EOF
		}
		p.h.cond.Wait()
	}
}

func (p *pktSide) Write(b []byte) (int, error) {
	p.h.mu.Lock()
	defer p.h.mu.Unlock()
	if p.closed {
		return 0, io.ErrClosedPipe
	}
	if !p.frozen {
		p.got = append(p.got, append([]byte(nil), b...)) // the relay reuses its buffer
	}
	return len(b), nil
}

func (p *pktSide) Close() error {
	p.h.do(func() { p.closed = true; p.closes++ })
	return nil
}

// ---------------------------------------------------------------------------
// real loopback sockets

var realSockets struct {
	once sync.Once
	ok   bool
}

func realOK() bool {
	realSockets.once.Do(func() {
		a, err := net.ListenUDP("udp4", &net.UDPAddr{IP: net.IPv4(127, 0, 0, 1)})
		if err != nil {
			return
		}
		defer a.Close()
		b, err := net.DialUDP("udp4", nil, a.LocalAddr().(*net.UDPAddr))
		if err != nil {
			return
		}
		defer b.Close()
		if _, err := b.Write([]byte{1}); err != nil {
			return
		}
		a.SetReadDeadline(time.Now().Add(time.Second))
		buf := make([]byte, 8)
		if n, _, err := a.ReadFromUDP(buf); err == nil && n == 1 {
			realSockets.ok = true
		}
	})
	return realSockets.ok
}

// realBudget: total volume that cannot overflow a default-sized socket buffer.
func realFits(ds []DG) bool {
	t := 0
	for _, d := range ds {
		t += d.Len + 1500
	}
	return t <= 100000
}

// ---------------------------------------------------------------------------
// execution + oracle

func runUDP(c *UDPCase) (fail *failure, class string, nt bool, sig string) {
	stream, ends := refEncode(c.Records)
	cut := c.Cut
	if cut < 0 || cut > len(stream) {
		cut = len(stream)
	}
	cc := cutClass(ends, cut)
	mid := cc != "boundary"
	end := c.End
	switch end {
	case "err", "timeout", "deadline":
	default:
		end = "eof"
	}
	mode := c.Mode
	switch mode {
	case "idle", "eof", "open", "race", "listen":
	default:
		mode = "idle"
	}
	listen := mode == "listen" // UDP side = real mapping.UDPVirtualConn (vconn_test.go)
	real := c.Real && mode != "eof" && !listen
	if real && (!realOK() || !realFits(c.Records) || !realFits(c.Dgrams)) {
		real = false
	}
	for _, d := range append(append([]DG(nil), c.Records...), c.Dgrams...) {
		if d.Len > 65507 { // a real IPv4 socket cannot carry it: the conn double does
			real = false
			vkit.Class("udp-feat:datagram-65508..65535")
			break
		}
	}
	dgrams := c.Dgrams
	if mode == "idle" {
		dgrams = nil
	}
	udpOpenAtEnd := mode != "eof"
	var lenvp *listenEnv
	if listen {
		if len(dgrams) == 0 {
			dgrams = []DG{{Len: 9, Seed: 12}}
		}
		lenvp = getListenEnv()
		if lenvp == nil || !realFits(c.Records) || !realFits(dgrams) {
			vkit.Skipped(1)
			return nil, "", false, ""
		}
	}
	spinKey := keySpin + "/cut-" + cc + "/" + end
	// regions of listed findings already confirmed three times are no longer generated
	if (mid && excludedRegion(spinKey)) || (udpOpenAtEnd && excludedRegion(keyWaitsUDP)) {
		vkit.Excluded(1)
		exclCount.Add(1)
		return nil, "", false, ""
	}
	var want [][]byte
	for i, e := range ends {
		if e <= cut {
			want = append(want, c.Records[i].bytes())
		}
	}
	gated := mode == "eof" || mode == "open" || listen

	baseline, _ := relayGoroutines()
	h := newHub()
	ts := &tunSide{total: cut, gate: make(chan struct{}), h: h}
	ts.cr = vkit.ChunkReader{Data: stream[:cut], Chunks: c.Chunks, Fixed: c.Fixed, EOFWithLast: c.EOFWithLast && !listen}
	// when the end travels with the last bytes and must not arrive before the relay has
	// forwarded the UDP side's datagrams, the whole tunnel stream is held back until then
	ts.holdAll = gated && c.EOFWithLast && !listen
	if end != "eof" {
		ts.endErr = errOfKind(end, errInjected) // "err" is the generic kind
		ts.cr.Err = ts.endErr
	}
	tunnel, _ := iocopy.NewReadWriteCloser(ts, ts, func() error { ts.closed.Add(1); return nil })

	var udpSide io.ReadWriteCloser
	var ps *pktSide
	var app, rs *net.UDPConn
	var vc io.ReadWriteCloser
	var ard *appReader
	if listen {
		// the first datagram makes the adapter create the virtual connection
		app, vc = lenvp.session(dgrams[0].bytes())
		if vc == nil {
			vkit.Skipped(1)
			return nil, "", false, ""
		}
		defer app.Close()
		defer vc.Close()
		ard = startAppReader(h, app)
		udpSide = vc
	} else if real {
		var err error
		app, err = net.ListenUDP("udp4", &net.UDPAddr{IP: net.IPv4(127, 0, 0, 1)})
		if err == nil {
			app.SetReadBuffer(4 << 20)
			rs, err = net.DialUDP("udp4", nil, app.LocalAddr().(*net.UDPAddr))
		}
		if err != nil {
			if app != nil {
				app.Close()
			}
			vkit.Skipped(1)
			return nil, "", false, ""
		}
		rs.SetReadBuffer(4 << 20)
		defer app.Close()
		defer rs.Close()
		udpSide = rs
	} else {
		ps = &pktSide{h: h}
		udpSide = ps
	}
	feed := func() {
		for i, d := range dgrams {
			b := d.bytes()
			if listen {
				if i > 0 {
					app.WriteToUDP(b, lenvp.dst)
				}
			} else if real {
				app.WriteToUDP(b, rs.LocalAddr().(*net.UDPAddr))
			} else {
				h.do(func() { ps.q = append(ps.q, b) })
			}
		}
		if mode == "eof" {
			h.do(func() { ps.eof = true })
		}
	}
	if c.FeedFirst {
		feed()
	}
	var res *iocopy.Result
	returned := false
	completions := 0
	go func() {
		r := iocopy.UDP(udpSide, tunnel, &iocopy.Options{LogPrefix: "c12", OnComplete: func(s, r int64, err error) {
			h.do(func() { completions++ })
		}})
		h.do(func() { res = r; returned = true })
	}()
	// reap makes sure nothing of this case keeps running: end the UDP side, and feed a
	// relay that is still reading its finished tunnel the one input it gives up on.
	reap := func() {
		ts.release()
		if ps != nil {
			h.do(func() { ps.frozen = true })
			ps.Close()
		} else if vc != nil {
			vc.Close()
		} else {
			rs.Close()
		}
		if h.wait(300*time.Millisecond, func() bool { return returned }) {
			return
		}
		ts.killed.Store(true)
		if !h.wait(2*time.Second, func() bool { return returned }) {
			ts.parked.Store(true)
			vkit.AddExtra("relay_goroutines_parked_after_hang", 1)
		}
	}
	defer func() {
		if fail != nil {
			reap()
		}
	}()
	if !c.FeedFirst {
		feed()
	}
	B := bound()
	wantOut := 0
	for _, d := range dgrams {
		wantOut += 2 + d.Len
	}
	if gated {
		// the tunnel ends only after the relay has forwarded everything the UDP side offered
		if !h.wait(B, func() bool { return ts.capturedLen() >= wantOut || returned }) {
			how := "flush-timer"
			if mode == "eof" {
				how = "udp-side-end"
			}
			return hangf("C12/udp/udp-to-tunnel/datagrams-not-forwarded/"+how, "%d datagrams (%d encoded bytes) offered, %d bytes written to the tunnel after %v (tunnel still open, UDP side %s)",
				len(dgrams), wantOut, ts.capturedLen(), B, map[bool]string{true: "ended", false: "open"}[mode == "eof"]), "", false, ""
		}
	}
	if listen {
		// UDPVirtualConn.Close drops what its writeLoop has not sent yet: the tunnel may only
		// end once the application has received the datagrams (a loss shows below)
		h.wait(B, func() bool { return len(ard.got) >= len(want) || returned })
	}
	ts.release()
	t0 := time.Now()
	if !h.wait(B, func() bool { return returned }) {
		r1 := ts.readsAfterEnd.Load()
		time.Sleep(5 * time.Millisecond)
		r2 := ts.readsAfterEnd.Load()
		detail := fmt.Sprintf("UDP() still running %v after the tunnel stream ended (%s at offset %d of %d, cut %s, %d records complete); UDP side %s; tunnel Read called %d times after the end was returned (+%d in the last 5 ms)",
			B, end, cut, len(stream), cc, len(want), mode, r2, r2-r1)
		switch {
		case r2 > 1000: // a relay that keeps reading a stream that has ended: the spin (it may be descheduled right now)
			return hangf(spinKey, "%s", detail), "", false, ""
		case udpOpenAtEnd:
			return hangf(keyWaitsUDP, "%s", detail), "", false, ""
		default:
			return hangf("C12/udp/no-return/unclassified", "%s", detail), "", false, ""
		}
	}
	noteLatency(time.Since(t0))

	// --- tunnel -> UDP
	var got [][]byte
	lossKeyTiming := false
	if listen {
		lossKeyTiming = true
		time.Sleep(2 * time.Millisecond) // room for a datagram too many
		h.do(func() { got = ard.got })
	} else if real {
		lossKeyTiming = true
		buf := make([]byte, 65536)
		for len(got) <= len(want) {
			d := time.Second
			if len(got) == len(want) {
				d = 3 * time.Millisecond
			}
			app.SetReadDeadline(time.Now().Add(d))
			n, _, err := app.ReadFromUDP(buf)
			if err != nil {
				break
			}
			got = append(got, append([]byte(nil), buf[:n]...))
		}
	} else {
		h.do(func() { got = ps.got })
	}
	for i := 0; i < len(got) && i < len(want); i++ {
		if !bytes.Equal(got[i], want[i]) {
			key := "C12/udp/tunnel-to-udp/datagram-altered"
			if listen {
				key += "/listen-side-virtual-conn"
			}
			return failf(key, "datagram %d: got %d bytes, record has %d (first difference at %d); stream of %d records cut at %d (%s)",
				i, len(got[i]), len(want[i]), firstDiff(got[i], want[i]), len(c.Records), cut, cc), "", false, ""
		}
	}
	if len(got) < len(want) {
		f := failf("C12/udp/tunnel-to-udp/datagram-lost/cut-"+cc, "%d records were complete before the cut at %d (%s, %s), %d datagrams reached the UDP side", len(want), cut, cc, end, len(got))
		f.timing = lossKeyTiming
		return f, "", false, ""
	}
	if len(got) > len(want) {
		return failf("C12/udp/tunnel-to-udp/extra-datagram/cut-"+cc, "%d records were complete before the cut at %d (%s), %d datagrams reached the UDP side (extra one has %d bytes)", len(want), cut, cc, len(got), len(got[len(want)])), "", false, ""
	}
	// --- UDP -> tunnel
	out := ts.captured()
	dec, rest, bad := refDecode(out)
	if bad != "" || rest != 0 {
		return failf("C12/udp/udp-to-tunnel/stream-not-decodable", "tunnel received %d bytes that do not end on a record boundary (%d trailing bytes; %s)", len(out), rest, bad), "", false, ""
	}
	for i := range dec {
		if i >= len(dgrams) {
			return failf("C12/udp/udp-to-tunnel/extra-record", "tunnel received %d records, %d datagrams were offered", len(dec), len(dgrams)), "", false, ""
		}
		if w := dgrams[i].bytes(); !bytes.Equal(dec[i], w) {
			return failf("C12/udp/udp-to-tunnel/datagram-altered", "record %d: %d bytes, datagram had %d (first difference at %d)", i, len(dec[i]), len(w), firstDiff(dec[i], w)), "", false, ""
		}
	}
	if gated && len(dec) != len(dgrams) {
		return failf("C12/udp/udp-to-tunnel/datagram-lost", "%d datagrams offered while the tunnel was up, %d records written", len(dgrams), len(dec)), "", false, ""
	}
	// --- result, closing, leak
	if ts.closed.Load() == 0 {
		return failf("C12/udp/conn-left-open", "tunnel side not closed after return"), "", false, ""
	}
	if ps != nil {
		closed := false
		h.do(func() { closed = ps.closed })
		if !closed {
			return failf("C12/udp/conn-left-open", "UDP side not closed after return"), "", false, ""
		}
	}
	var wantRecv, fwd int64
	for _, w := range want {
		wantRecv += int64(len(w))
	}
	for _, d := range dec {
		fwd += int64(len(d))
	}
	if res.BytesReceived != wantRecv {
		return failf("C12/udp/result-count-mismatch/received", "Result.BytesReceived=%d, %d payload bytes were delivered to the UDP side", res.BytesReceived, wantRecv), "", false, ""
	}
	if gated && res.BytesSent != fwd {
		return failf("C12/udp/result-count-mismatch/sent", "Result.BytesSent=%d, %d payload bytes were written to the tunnel", res.BytesSent, fwd), "", false, ""
	}
	if completions != 1 {
		return failf("C12/udp/oncomplete", "OnComplete ran %d times", completions), "", false, ""
	}
	if end != "eof" && res.ReceiveError == nil {
		return failf("C12/udp/tunnel-error-not-reported", "the tunnel read failed with a transport error at offset %d, Result.ReceiveError is nil", cut), "", false, ""
	}
	if f := leakAfter(baseline); f != nil {
		return f, "", false, ""
	}

	class = "udp:" + mode + "/cut-" + cc + "/" + end
	if listen {
		class = "udp:listen-side-virtual-conn" + "/cut-" + cc + "/" + end
	} else if real {
		class = "udp:real-socket+" + mode + "/cut-" + cc + "/" + end
	}
	nt = mid || (len(dec) > 0 && len(want) > 0)
	if mid {
		vkit.Class("udp-feat:cut-strictly-inside-record")
	}
	if len(stream) > 256*1024 {
		vkit.Class("udp-feat:stream>256KiB(refill-threshold)")
	}
	if wantOut > 128*1024 {
		vkit.Class("udp-feat:batch>128KiB(early-flush)")
	}
	if len(want) > 32 {
		vkit.Class("udp-feat:>32-records(send-batch)")
	}
	for _, r := range c.Records {
		if r.Len == 65507 {
			vkit.Class("udp-feat:max-datagram")
			break
		}
	}
	if c.EOFWithLast && cut > 0 {
		vkit.Class("udp-feat:data-with-end")
	}
	type sg struct {
		R, D   []int
		Cut    int
		E, M   string
		Ch     []int
		Fx     int
		Re, Wl bool
	}
	s := sg{Cut: cut, E: end, M: mode, Ch: c.Chunks, Fx: c.Fixed, Re: real, Wl: c.EOFWithLast}
	for _, r := range c.Records {
		s.R = append(s.R, r.Len)
	}
	for _, r := range dgrams {
		s.D = append(s.D, r.Len)
	}
	b, _ := json.Marshal(s)
	vkit.Sample(class, s)
	return nil, class, nt, string(b)
}

// ---------------------------------------------------------------------------
// generators

func genDGLen(t *rapid.T, label string, allowHuge bool) int {
	hi := 9
	if allowHuge {
		hi = 11
	}
	switch rapid.IntRange(0, hi).Draw(t, label+"Class") {
	case 0, 1:
		return 1
	case 2, 3, 4:
		return rapid.IntRange(2, 40).Draw(t, label)
	case 5, 6:
		return rapid.IntRange(41, 600).Draw(t, label)
	case 7:
		return rapid.IntRange(255, 257).Draw(t, label) // both length bytes in play
	case 8:
		return rapid.IntRange(1200, 1500).Draw(t, label)
	case 9:
		return rapid.IntRange(1501, 9000).Draw(t, label)
	case 10:
		// the largest IPv4 datagram, and lengths only the 16-bit prefix bounds (IPv6 /
		// virtual connections can carry them; the encoder forwards them)
		return rapid.SampledFrom([]int{65507, 65507, 65508, 65520, 65535}).Draw(t, label+"Edge")
	default:
		return rapid.IntRange(9001, 65507).Draw(t, label)
	}
}

func genDGs(t *rapid.T, label string, min, max int, allowHuge bool) []DG {
	n := rapid.IntRange(min, max).Draw(t, label+"N")
	out := make([]DG, n)
	for i := range out {
		out[i] = DG{Len: genDGLen(t, label+"Len", allowHuge), Seed: rapid.Uint64().Draw(t, label+"Seed")}
	}
	return out
}

func genChunks(t *rapid.T, c *UDPCase, ends []int, total int) {
	c.EOFWithLast = rapid.Bool().Draw(t, "eofWithLast")
	switch rapid.IntRange(0, 5).Draw(t, "chunking") {
	case 0: // everything at once
	case 1:
		if total <= 8192 {
			c.Fixed = 1
		} else {
			c.Fixed = 1499
		}
	case 2:
		k := rapid.SampledFrom([]int{2, 3, 7, 64, 1500, 70000}).Draw(t, "k")
		if total/k > 4000 {
			k = total/4000 + 1
		}
		c.Chunks = rapid.SliceOfN(rapid.IntRange(0, k), 0, 40).Draw(t, "sizes")
		c.Fixed = k
	case 3: // every length prefix split in two
		prev := 0
		start := 0
		for _, e := range ends {
			if start+1 <= total && start+1 > prev {
				c.Chunks = append(c.Chunks, start+1-prev)
				prev = start + 1
			}
			if e <= total && e > prev {
				c.Chunks = append(c.Chunks, e-prev)
				prev = e
			}
			start = e
			if len(c.Chunks) > 4000 {
				break
			}
		}
	case 4: // one record per read
		prev := 0
		for _, e := range ends {
			if e <= total {
				c.Chunks = append(c.Chunks, e-prev)
				prev = e
			}
			if len(c.Chunks) > 4000 {
				break
			}
		}
	case 5: // prefix and body in separate reads, with spurious empty reads
		prev := 0
		start := 0
		for _, e := range ends {
			if start+2 <= total {
				c.Chunks = append(c.Chunks, start+2-prev, 0)
				prev = start + 2
			}
			if e <= total {
				c.Chunks = append(c.Chunks, e-prev)
				prev = e
			}
			start = e
			if len(c.Chunks) > 4000 {
				break
			}
		}
	}
}

func genCut(t *rapid.T, ends []int, total int) int {
	if len(ends) == 0 {
		return -1
	}
	i := rapid.IntRange(0, len(ends)-1).Draw(t, "cutRec")
	start := 0
	if i > 0 {
		start = ends[i-1]
	}
	switch rapid.IntRange(0, 9).Draw(t, "cutClass") {
	case 0, 1, 2:
		return -1
	case 3:
		return start + 1 // inside the length prefix
	case 4, 5:
		return rapid.IntRange(start+2, ends[i]-1).Draw(t, "cutBody") // inside the body (a record has >= 1 byte)
	case 6:
		return ends[i] - 1
	case 7:
		return start // boundary
	default:
		return rapid.IntRange(0, total).Draw(t, "cutAny")
	}
}

func genUDP(t *rapid.T) *UDPCase {
	c := &UDPCase{}
	shape := rapid.IntRange(0, 19).Draw(t, "shape")
	switch {
	case shape == 0: // > 256 KiB of records: the reader stops refilling
		c.Records = genDGs(t, "rec", 5, 9, false)
		for i := range c.Records {
			c.Records[i].Len = rapid.IntRange(40000, 65507).Draw(t, "bigRec")
		}
	case shape == 1: // more than one send batch of tiny records
		c.Records = genDGs(t, "rec", 33, 80, false)
		for i := range c.Records {
			c.Records[i].Len = rapid.IntRange(1, 12).Draw(t, "tinyRec")
		}
	default:
		c.Records = genDGs(t, "rec", 0, 10, true)
	}
	stream, ends := refEncode(c.Records)
	c.Cut = genCut(t, ends, len(stream))
	total := len(stream)
	if c.Cut >= 0 {
		total = c.Cut
	}
	c.End = rapid.SampledFrom([]string{"eof", "eof", "err", "timeout", "deadline"}).Draw(t, "end")
	genChunks(t, c, ends, total)
	c.Mode = rapid.SampledFrom([]string{"idle", "idle", "idle", "eof", "eof", "eof", "eof", "open", "open", "race"}).Draw(t, "mode")
	c.FeedFirst = rapid.Bool().Draw(t, "feedFirst")
	if c.Mode != "idle" {
		if rapid.IntRange(0, 14).Draw(t, "bigBatch") == 0 { // > 128 KiB offered at once: early flush of the batch buffer
			c.Dgrams = genDGs(t, "dg", 3, 6, false)
			for i := range c.Dgrams {
				c.Dgrams[i].Len = rapid.IntRange(50000, 65507).Draw(t, "bigDg")
			}
		} else {
			c.Dgrams = genDGs(t, "dg", 0, 10, true)
		}
	}
	if c.Mode != "eof" {
		c.Real = rapid.IntRange(0, 3).Draw(t, "real") == 0
	}
	return c
}

// TestUDPRelay is the generated search over datagram sequences, chunkings, cuts and UDP-side behaviour.
func TestUDPRelay(t *testing.T) {
	resetSlowBudget()
	vkit.Check(t, 6000, 60000, func(t *rapid.T) {
		check(t, Case{UDP: genUDP(t)})
	})
}

// TestUDPEveryCut enumerates EVERY cut offset of small record streams (<= 200 bytes), with
// all four endings (EOF, generic error, permanent timeout-class error, deadline error), once with the UDP side idle and once with the UDP side already ended.
func TestUDPEveryCut(t *testing.T) {
	resetSlowBudget()
	allRun := true
	vkit.Check(t, 120, 2400, func(t *rapid.T) {
		var recs []DG
		left := 200
		n := rapid.IntRange(1, 8).Draw(t, "nrec")
		for i := 0; i < n && left >= 3; i++ {
			max := left - 2
			if max > 70 {
				max = 70
			}
			l := 1
			if rapid.IntRange(0, 2).Draw(t, "tiny") > 0 && max >= 2 {
				l = rapid.IntRange(1, max).Draw(t, "len")
			}
			recs = append(recs, DG{Len: l, Seed: rapid.Uint64().Draw(t, "seed")})
			left -= 2 + l
		}
		stream, ends := refEncode(recs)
		var base UDPCase
		base.Records = recs
		genChunks(t, &base, ends, len(stream))
		dg := genDGs(t, "dg", 0, 3, false)
		for cut := 0; cut <= len(stream); cut++ {
			for _, end := range []string{"eof", "err", "timeout", "deadline"} {
				for _, mode := range []string{"idle", "eof"} {
					c := base
					c.Cut, c.End, c.Mode = cut, end, mode
					c.FeedFirst = cut%2 == 0
					if mode == "eof" {
						c.Dgrams = dg
					}
					before := excludedNow()
					check(t, Case{UDP: &c})
					if excludedNow() != before {
						allRun = false
					}
				}
			}
		}
		vkit.AddExtra("udp_streams_with_every_cut_offset", 1)
	})
	vkit.Exhaustive("udp:every-cut-offset-of-each-drawn-stream(<=200B) x {eof,err,timeout,deadline} x {udp idle, udp ended}", allRun)
}

var exclCount atomic.Int64

func excludedNow() int64 { return exclCount.Load() }
