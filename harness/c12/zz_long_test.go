package c12

import (
	"testing"

	"tunnox-core/verif/vkit"
)

// TestZZLongHalfClosedVerdict must stay the last test of the binary (file name order): it
// collects the verdicts of the background cases started by TestAALongHalfClosedStart.
func TestZZLongHalfClosedVerdict(t *testing.T) {
	bgJobs.mu.Lock()
	jobs := bgJobs.jobs
	bgJobs.mu.Unlock()
	if len(jobs) == 0 {
		t.Skip("no background case on this shard")
	}
	for _, j := range jobs {
		<-j.done
		bgJobs.mu.Lock()
		f := j.fail
		bgJobs.mu.Unlock()
		if f != nil {
			vkit.Violation(t, f.key, f.detail, j.c)
			vkit.Case("known:"+f.key, false, "")
			continue
		}
		if j.c.Socks != nil {
			vkit.Case("tcp:socks5-listener/connect-session-beyond-handshake-deadline", true, "socks/long")
		} else if j.c.Long != nil {
			vkit.Case("tcp:long-lived-half-closed/first-to-close="+j.c.Long.FirstToClose, true, "long/"+j.c.Long.FirstToClose)
		} else {
			vkit.Case("limited+tcp:slow(outlasts-the-initial-bucket)/"+j.c.TCP.Steps[0].Op, true, "slowlimit/"+j.c.TCP.Steps[0].Op)
		}
	}
}
