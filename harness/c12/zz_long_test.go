package c12

import (
	"testing"

	"tunnox-core/verif/vkit"
)

// TestZZLongHalfClosedVerdict must stay the last test of the binary (file name order).
func TestZZLongHalfClosedVerdict(t *testing.T) {
	longRun.mu.Lock()
	started, done, c := longRun.started, longRun.done, longRun.c
	longRun.mu.Unlock()
	if !started {
		t.Skip("not started on this shard")
	}
	<-done
	longRun.mu.Lock()
	f := longRun.fail
	longRun.mu.Unlock()
	if f != nil {
		vkit.Violation(t, f.key, f.detail, Case{Long: &c})
		vkit.Case("known:"+f.key, false, "")
		return
	}
	vkit.Case("tcp:long-lived-half-closed/first-to-close="+c.FirstToClose, true, "long/"+c.FirstToClose)
}
