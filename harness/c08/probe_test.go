package c08

import (
	"context"
	"fmt"
	"testing"
	"time"

	"github.com/alicebob/miniredis/v2"

	"tunnox-core/internal/core/storage"
	"tunnox-core/internal/core/storage/hybrid"
	"tunnox-core/internal/core/storage/memory"
	redisstore "tunnox-core/internal/core/storage/redis"
	"tunnox-core/internal/packet"
	"tunnox-core/verif/vkit"
	"tunnox-core/verif/vkit/miniserver"
)

func TestProbe(t *testing.T) {
	vkit.SilenceLogs()
	ctx := context.Background()
	mr := miniredis.RunT(t)
	mr2 := miniredis.RunT(t)
	pers := vkit.NewGatePersistent(nil, "p")
	mem := memory.New(ctx)
	hm := hybrid.New(ctx, memory.New(ctx), nil, hybrid.DefaultConfig())
	backs := map[string]func(i int) storage.Storage{
		"memory":        func(int) storage.Storage { return mem },
		"hybrid-memory": func(int) storage.Storage { return hm },
		"redis": func(int) storage.Storage {
			c, err := redisstore.New(ctx, &redisstore.Config{Addr: mr.Addr()})
			if err != nil {
				t.Fatal(err)
			}
			return c
		},
		"hybrid-redis": func(int) storage.Storage {
			c, err := redisstore.New(ctx, &redisstore.Config{Addr: mr2.Addr()})
			if err != nil {
				t.Fatal(err)
			}
			cfg := hybrid.DefaultConfig()
			cfg.EnablePersistent = true
			return hybrid.NewWithSharedCache(ctx, memory.New(ctx), c, pers, cfg)
		},
	}
	for _, name := range []string{"memory", "hybrid-memory", "redis", "hybrid-redis"} {
		t0 := time.Now()
		var nodes []*miniserver.Server
		for i := 0; i < 2; i++ {
			s, err := miniserver.New(miniserver.Options{Storage: backs[name](i), NodeID: fmt.Sprintf("node-%d", i+1), ConnStateTTL: 300 * time.Millisecond})
			if err != nil {
				t.Fatal(name, err)
			}
			nodes = append(nodes, s)
		}
		t.Logf("%s: built in %v", name, time.Since(t0))
		c, err := nodes[0].Connect("1.2.3.4:1000")
		if err != nil {
			t.Fatal(err)
		}
		r, err := c.HandshakeNew("control")
		t.Logf("%s: new: %+v err=%v", name, r, err)
		if r == nil || !r.Success {
			continue
		}
		for i, n := range nodes {
			node, conn, err := n.SM.GetConnectionStateStore().FindClientNode(ctx, c.ClientID)
			t.Logf("%s: node%d find -> %q %q %v (conn %s)", name, i+1, node, conn, err, c.ConnID)
		}
		c2, _ := nodes[1].Connect("1.2.3.4:1001")
		t1 := time.Now()
		r2, err := c2.Login(c.ClientID, c.Secret, "control")
		t.Logf("%s: login on node2: %+v err=%v in %v", name, r2, err, time.Since(t1))
		for i, n := range nodes {
			node, conn, err := n.SM.GetConnectionStateStore().FindClientNode(ctx, c.ClientID)
			t.Logf("%s: node%d find -> %q %q %v (conn2 %s)", name, i+1, node, conn, err, c2.ConnID)
		}
		t1 = time.Now()
		err = c2.Push(&packet.TransferPacket{PacketType: packet.Heartbeat})
		t.Logf("hb err=%v %v", err, time.Since(t1))
		c.CloseByPeer()
		for i, n := range nodes {
			node, conn, err := n.SM.GetConnectionStateStore().FindClientNode(ctx, c.ClientID)
			t.Logf("%s: after old close node%d find -> %q %q %v", name, i+1, node, conn, err)
		}
		c2.CloseByPeer()
		for i, n := range nodes {
			node, conn, err := n.SM.GetConnectionStateStore().FindClientNode(ctx, c.ClientID)
			t.Logf("%s: after close node%d find -> %q %q %v", name, i+1, node, conn, err)
		}
		t1 = time.Now()
		for _, n := range nodes {
			n.Close()
		}
		t.Logf("closed in %v", time.Since(t1))
	}
}
