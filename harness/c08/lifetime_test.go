// C08, registration-lifetime part: fractional and production-scale lifetimes on the Redis-backed stores.
//
// Only the Redis server's clock moves (miniredis FastForward), no real time passes, so the records' wall-clock
// ExpiresAt stays in the future and what is decided is the key lifetime the store was given. A client logs in on one
// node and heartbeats at intervals shorter than the lifetime (e.g. every 1.2 s for a 1.5 s lifetime); right before
// every heartbeat, and right after it, every node must find it. After the last heartbeat plus a full lifetime nobody may.
package c08

import (
	"context"
	"fmt"
	"testing"
	"time"

	"github.com/alicebob/miniredis/v2"
	"pgregory.net/rapid"

	"tunnox-core/internal/core/storage"
	"tunnox-core/internal/core/storage/hybrid"
	"tunnox-core/internal/core/storage/memory"
	"tunnox-core/internal/packet"
	"tunnox-core/verif/vkit"
	"tunnox-core/verif/vkit/miniserver"
)

type LifeCase struct {
	LifeBackend string `json:"life_backend"` // redis | hybrid-redis
	TTLms       int    `json:"life_ttl_ms"`
	GapPermille []int  `json:"gap_permille"` // heartbeat gaps as fractions of the lifetime (< 1000)
	Node        int    `json:"node"`
}

func genLifeCase(t *rapid.T) LifeCase {
	c := LifeCase{LifeBackend: rapid.SampledFrom([]string{"redis", "hybrid-redis"}).Draw(t, "backend"),
		TTLms: rapid.SampledFrom([]int{1100, 1500, 1500, 1900, 2500, 4700, 30000, 300000}).Draw(t, "ttl"), Node: rapid.IntRange(0, 1).Draw(t, "node")}
	for i := rapid.IntRange(2, 4).Draw(t, "beats"); i > 0; i-- {
		c.GapPermille = append(c.GapPermille, rapid.SampledFrom([]int{500, 700, 800, 900, 950, 985}).Draw(t, "gap"))
	}
	return c
}

func runLifeCase(c LifeCase) *failure {
	if err := setupEnv(); err != nil {
		panic("C08 harness: cannot start miniredis: " + err.Error())
	}
	ctx := context.Background()
	var mr *miniredis.Miniredis
	pers := vkit.NewGatePersistent(nil, "persistent")
	var nodes []*miniserver.Server
	ttl := time.Duration(c.TTLms) * time.Millisecond
	for i := 0; i < 2; i++ {
		var st storage.Storage
		if c.LifeBackend == "redis" {
			mr = redisA.mr
			if i == 0 {
				mr.FlushAll()
			}
			st = redisA.clients[i]
		} else {
			mr = redisB.mr
			if i == 0 {
				mr.FlushAll()
			}
			cfg := hybrid.DefaultConfig()
			cfg.EnablePersistent = true
			st = hybrid.NewWithSharedCache(ctx, memory.New(ctx), noCloseRedis{redisB.clients[i]}, pers, cfg)
		}
		s, err := miniserver.New(miniserver.Options{Storage: st, NodeID: fmt.Sprintf("node-%d", i+1), NoSecurityGate: true, ConnStateTTL: ttl})
		if err != nil {
			panic("C08 harness: miniserver.New: " + err.Error())
		}
		defer s.Close()
		nodes = append(nodes, s)
	}
	watch := startWatch()
	cl, err := nodes[c.Node].Connect(nextAddr())
	if err != nil {
		panic("C08 harness: Connect: " + err.Error())
	}
	if r, err := cl.HandshakeNew("control"); err != nil || r == nil || !r.Success {
		panic(fmt.Sprintf("C08 harness: first-connection handshake failed: %+v %v", r, err))
	}
	wantNode := nodes[c.Node].NodeID
	find := func(when string, since time.Duration) *failure {
		if watch.suspect(ttl / 3) { // both clocks must stay far from the records' ExpiresAt
			vkit.Skipped(1)
			return nil
		}
		for ni, n := range nodes {
			node, conn, err := n.SM.GetConnectionStateStore().FindClientNode(ctx, cl.ClientID)
			if err != nil {
				return &failure{fmt.Sprintf("C08/lifetime/live-client-not-found/%s/%s", c.LifeBackend, errShape(err)),
					fmt.Sprintf("%s: lifetime %v, last handshake/heartbeat %v ago on the store's clock; node-%d answers: %v", when, ttl, since, ni+1, err)}
			}
			if node != wantNode || conn != cl.ConnID {
				return &failure{"C08/lifetime/wrong-location/" + c.LifeBackend, fmt.Sprintf("%s: node-%d answers (%s,%s), expected (%s,%s)", when, ni+1, node, conn, wantNode, cl.ConnID)}
			}
		}
		return nil
	}
	if f := find("right after the handshake", 0); f != nil {
		return f
	}
	for i, p := range c.GapPermille {
		gap := ttl * time.Duration(p) / 1000
		mr.FastForward(gap)
		if f := find(fmt.Sprintf("before heartbeat %d", i+1), gap); f != nil {
			return f
		}
		if err := cl.Push(&packet.TransferPacket{PacketType: packet.Heartbeat}); err != nil {
			panic("C08 harness: heartbeat push failed: " + err.Error())
		}
		cl.Drain()
		if f := find(fmt.Sprintf("after heartbeat %d", i+1), 0); f != nil {
			return f
		}
	}
	// silence for more than a lifetime: the store must have let the registration go
	mr.FastForward(ttl + ttl/100 + time.Millisecond)
	for ni, n := range nodes {
		if node, conn, err := n.SM.GetConnectionStateStore().FindClientNode(ctx, cl.ClientID); err == nil {
			return &failure{"C08/lifetime/resolves-after-store-expiry/" + c.LifeBackend, fmt.Sprintf("a full lifetime (%v) after the last heartbeat node-%d still answers (%s,%s)", ttl, ni+1, node, conn)}
		}
	}
	cl.CloseByPeer()
	return nil
}

func checkLife(t vkit.TB, c LifeCase) {
	if f := runLifeCase(c); f != nil {
		vkit.Violation(t, f.key, f.detail, c)
		vkit.Case("known:"+f.key, false, "")
		return
	}
	vkit.Case(fmt.Sprintf("lifetime:%s/ttl=%dms", c.LifeBackend, c.TTLms), true, fmt.Sprintf("life|%s|%d|%v|%d", c.LifeBackend, c.TTLms, c.GapPermille, c.Node))
}

func TestRegistrationLifetime(t *testing.T) {
	vkit.Check(t, 240, 3000, func(t *rapid.T) { checkLife(t, genLifeCase(t)) })
}

func TestReplayLife(t *testing.T) {
	path := vkit.Replaying()
	if path == "" {
		t.Skip("no VERIF_REPLAY")
	}
	var c LifeCase
	if _, err := vkit.LoadReplay(path, &c); err != nil || c.LifeBackend == "" {
		t.Skip("not a lifetime case")
	}
	checkLife(t, c)
}
