// C08, contention part (E3): the expiry sweeper of the in-memory store against a reconnect / late keep-alive.
//
// tunnox:client_conn:<id> is rewritten by every handshake and keep-alive of a client. A client whose previous
// registration has lapsed but was not swept yet reconnects (RegisterConnection) or heartbeats (KeepAlive) while a
// sweeper goroutine runs Storage.CleanupExpired in a loop over a store that also holds many other keys. After the
// round every node must find the client at the connection that was just registered.
// Not replay-deterministic: the replay unit is the round parameters.
package c08

import (
	"context"
	"fmt"
	"runtime"
	"sync"
	"sync/atomic"
	"testing"
	"time"

	"tunnox-core/internal/core/storage"
	"tunnox-core/internal/core/storage/hybrid"
	"tunnox-core/internal/core/storage/memory"
	"tunnox-core/internal/protocol/session/connstate"
	"tunnox-core/verif/vkit"
)

type RaceCase struct {
	Race    string `json:"race"`    // sweep-vs-register | sweep-vs-keepalive
	Backend string `json:"backend"` // memory | hybrid-memory
	Fillers int    `json:"fillers"`
	Batches int    `json:"batches"`
	Width   int    `json:"width"` // clients re-registered concurrently per batch
}

func runSweepRace(c RaceCase) *failure {
	ctx := context.Background()
	var st storage.Storage = memory.New(ctx)
	if c.Backend == "hybrid-memory" {
		st = hybrid.New(ctx, memory.New(ctx), nil, hybrid.DefaultConfig())
	}
	for i := 0; i < c.Fillers; i++ { // the rest of the server's runtime state living in the same store
		st.Set(fmt.Sprintf("tunnox:runtime:filler:%d", i), "x", time.Hour)
	}
	lapsing := connstate.NewStore(st, "node-1", 2*time.Millisecond) // the registrations that lapse
	// the lifetime of the fresh registrations is not the subject here: long enough to survive any stall of the process
	nodes := []*connstate.Store{connstate.NewStore(st, "node-1", time.Hour), connstate.NewStore(st, "node-2", time.Hour)}
	for b := 0; b < c.Batches; b++ {
		type cli struct {
			id            int64
			oldConn, conn string
			node          int
		}
		cs := make([]cli, c.Width)
		for i := range cs {
			cs[i] = cli{id: int64(1000 + i), oldConn: fmt.Sprintf("conn-old-%d-%d", b, i), node: (b + i) % 2}
			if err := lapsing.RegisterConnection(ctx, &connstate.Info{ConnectionID: cs[i].oldConn, ClientID: cs[i].id, Protocol: "tcp", ConnType: "control"}); err != nil {
				return &failure{"C08/race/register-error/" + c.Backend, err.Error()}
			}
		}
		time.Sleep(6 * time.Millisecond) // lapsed, not swept, not read
		var scanning atomic.Bool
		var stop atomic.Bool
		var wg, sweeper sync.WaitGroup
		sweeper.Add(1)
		go func() { // the store's cleanup ticker; sweeps at least once and until every actor is done
			defer sweeper.Done()
			for {
				scanning.Store(true)
				st.CleanupExpired()
				if stop.Load() {
					return
				}
			}
		}()
		errs := make([]error, c.Width)
		for i := range cs {
			wg.Add(1)
			go func(i int) {
				defer wg.Done()
				for n := 0; !scanning.Load(); n++ {
					if n > 2000 {
						runtime.Gosched()
					}
				}
				x := &cs[i]
				if c.Race == "sweep-vs-keepalive" {
					// the old connection is still the client's connection on node 1; its heartbeat arrives late
					x.conn, x.node = x.oldConn, 0
					errs[i] = nodes[0].KeepAlive(ctx, &connstate.Info{ConnectionID: x.conn, ClientID: x.id, Protocol: "tcp", ConnType: "control"})
				} else {
					x.conn = fmt.Sprintf("conn-new-%d-%d", b, i)
					errs[i] = nodes[x.node].RegisterConnection(ctx, &connstate.Info{ConnectionID: x.conn, ClientID: x.id, Protocol: "tcp", ConnType: "control"})
				}
			}(i)
		}
		wg.Wait()
		stop.Store(true)
		sweeper.Wait()
		for i, x := range cs {
			if errs[i] != nil {
				return &failure{"C08/race/register-error/" + c.Backend, errs[i].Error()}
			}
			for ni, nd := range nodes {
				node, conn, err := nd.FindClientNode(ctx, x.id)
				want := fmt.Sprintf("node-%d", x.node+1)
				if err != nil {
					return &failure{fmt.Sprintf("C08/race/completed-registration-lost/%s/%s", c.Backend, c.Race),
						fmt.Sprintf("batch %d: client %d's lapsed registration was still in the store when it registered (%s,%s) while the expiry sweeper ran; the call returned nil but node-%d answers: %v", b, x.id, want, x.conn, ni+1, err)}
				}
				if node != want || conn != x.conn {
					return &failure{fmt.Sprintf("C08/race/wrong-location/%s/%s", c.Backend, c.Race), fmt.Sprintf("batch %d: node-%d answers (%s,%s), expected (%s,%s)", b, ni+1, node, conn, want, x.conn)}
				}
			}
			for _, nd := range nodes {
				nd.UnregisterConnection(ctx, x.conn)
			}
		}
	}
	return nil
}

func checkRace(t vkit.TB, c RaceCase) {
	if f := runSweepRace(c); f != nil {
		vkit.Violation(t, f.key, f.detail, c)
		vkit.Case("known:"+f.key, false, "")
		return
	}
	vkit.Case("race:"+c.Race+"/"+c.Backend, true, fmt.Sprintf("race|%s|%s|%d|shard%d", c.Race, c.Backend, c.Fillers, vkit.Shard()))
	vkit.AddExtra("race_rounds/"+c.Race, int64(c.Batches*c.Width))
}

// TestSweeperContention: every shard runs both races on both in-memory backends.
func TestSweeperContention(t *testing.T) {
	batches := vkit.PerShard(vkit.Pick(1600, 16000)) / 4
	for _, be := range []string{"memory", "hybrid-memory"} {
		for _, race := range []string{"sweep-vs-register", "sweep-vs-keepalive"} {
			checkRace(t, RaceCase{Race: race, Backend: be, Fillers: 20000, Batches: batches, Width: 12})
		}
	}
}

// TestReplayRace re-runs saved round parameters with 10x the batches.
func TestReplayRace(t *testing.T) {
	path := vkit.Replaying()
	if path == "" {
		t.Skip("no VERIF_REPLAY")
	}
	var c RaceCase
	if _, err := vkit.LoadReplay(path, &c); err != nil || c.Race == "" {
		t.Skip("not a race case")
	}
	c.Batches *= 10
	checkRace(t, c)
}
