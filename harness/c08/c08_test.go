// C08 — cross-node lookup finds a connected client at its current node.
//
// One generated history of connect / authenticate / heartbeat / close / time-advance events of two
// clients over 2-3 mini-server nodes is executed in lock-step on four storage backends shared by the
// nodes. After every event, every node asks its ConnectionStateStore where each client is, and the
// answer is judged against a reference model of the history.
//
//	memory          one memory.Storage shared by every node
//	hybrid-memory   one hybrid facade over memory (what createMemoryStorage builds)
//	redis           one miniredis server, one redis.Storage client per node
//	hybrid-redis    per node: hybrid(node-local memory cache, shared redis client, shared persistent tier)
package c08

import (
	"context"
	"encoding/json"
	"fmt"
	"strings"
	"sync"
	"testing"
	"time"

	"github.com/alicebob/miniredis/v2"
	"pgregory.net/rapid"

	"tunnox-core/internal/core/storage"
	"tunnox-core/internal/core/storage/hybrid"
	"tunnox-core/internal/core/storage/memory"
	redisstore "tunnox-core/internal/core/storage/redis"
	"tunnox-core/internal/packet"
	"tunnox-core/internal/protocol/session"
	"tunnox-core/internal/protocol/session/connstate"
	"tunnox-core/verif/vkit"
	"tunnox-core/verif/vkit/miniserver"
)

func TestMain(m *testing.M) { vkit.Main(m, "C08") }

// ---------------------------------------------------------------------------
// case description (JSON-serialisable replay unit)

type Op struct {
	Kind   string `json:"kind"`             // connect relogin hb hbold close tick sweep shutdown
	Client int    `json:"client,omitempty"` // connect, hb
	Node   int    `json:"node,omitempty"`   // connect
	Mode   string `json:"mode,omitempty"`   // connect: good | bad-secret | tunnel-type | no-handshake | dead-at-response (valid credentials, transport dead when the node writes its final response)
	// close: "read1" / "read2" = the closing node's store fails the 1st / 2nd read of a connection record once (every backend)
	Fault string `json:"fault,omitempty"` // connect(good) / hb: the shared tier of the handling node refuses the write of "conn_state", "client_conn" (once) or "both" (for the whole event); tiered backend only
	Conn  int    `json:"conn,omitempty"`  // close / hbold: ordinal of the connect op whose connection is closed (by its owning node) / heartbeats late
	HB    []int  `json:"hb,omitempty"`    // tick: clients that send a heartbeat on their newest connection after the pause; sweep: clients kept active
	FF    bool   `json:"ff,omitempty"`    // tick: the Redis server's clock advances too (false: store-side expiry lags)
}

type Case struct {
	Nodes int  `json:"nodes"`
	TTLms int  `json:"ttl_ms"` // registration lifetime; 0 = pass 0 to NewConnectionStateStore (documented default 5 min)
	Ops   []Op `json:"ops"`
	// nodes whose cloud control cannot read or write the client runtime state (tunnox:runtime:client:state:*) for the
	// whole history, while the connection-state records in the same store are healthy
	CloudOut []int `json:"cloud_out,omitempty"`
}

const (
	shortTTLms = 300
	nClients   = 2
	guard      = 25 * time.Millisecond
)

func (c Case) ttl() time.Duration {
	if c.TTLms == 0 {
		return 5 * time.Minute
	}
	return time.Duration(c.TTLms) * time.Millisecond
}

// ---------------------------------------------------------------------------
// generator (keeps a sketch of the history so that drawn events are applicable; the oracle never reads it)

func genCase(t *rapid.T) Case {
	c := Case{Nodes: rapid.IntRange(2, 3).Draw(t, "nodes")}
	c.TTLms = rapid.SampledFrom([]int{shortTTLms, shortTTLms, shortTTLms, 30000, 0}).Draw(t, "ttl")
	short := c.TTLms == shortTTLms
	if rapid.IntRange(0, 3).Draw(t, "cloudOutage") == 0 {
		for nd := 0; nd < c.Nodes; nd++ {
			if rapid.Bool().Draw(t, "cloudOutNode") {
				c.CloudOut = append(c.CloudOut, nd)
			}
		}
	}
	type gconn struct {
		client int
		node   int
		open   bool
		good   bool
	}
	var conns []gconn
	created := [nClients]bool{}
	newest := [nClients]int{-1, -1}
	n := rapid.IntRange(4, 16).Draw(t, "nops")
	ticks := 0
	kinds := []string{"connect", "connect", "connect", "connect", "hb", "hbold", "close", "close", "close", "tick", "tick", "tick", "streak", "sweep", "lapse", "relogin", "sibling", "shutdown"}
	streaks, lapses, siblings := 0, 0, 0
	down := make([]bool, c.Nodes)
	liveNode := func(label string) int {
		for {
			if nd := rapid.IntRange(0, c.Nodes-1).Draw(t, label); !down[nd] {
				return nd
			}
		}
	}
	shutdowns := 0
	for i := 0; i < n; i++ {
		k := rapid.SampledFrom(kinds).Draw(t, "kind")
		if k == "streak" && (!short || streaks >= 1) {
			k = "close"
		}
		if k == "shutdown" && (shutdowns >= 1 || i < 3) {
			k = "close"
		}
		if k == "sibling" && (!short || siblings >= 1) {
			k = "sweep"
		}
		if k == "lapse" && (!short || lapses >= 1) {
			k = "connect"
		}
		if k == "tick" && (!short || ticks >= 5) {
			k = "connect"
		}
		var openIdx, superseded []int
		for j, g := range conns {
			if g.open {
				openIdx = append(openIdx, j)
				if g.good && newest[g.client] != j {
					superseded = append(superseded, j)
				}
			}
		}
		if k == "close" && len(openIdx) == 0 {
			k = "connect"
		}
		if k == "hbold" && len(superseded) == 0 {
			k = "connect"
		}
		var goodOpen []int
		for _, j := range openIdx {
			if conns[j].good {
				goodOpen = append(goodOpen, j)
			}
		}
		if k == "relogin" && len(goodOpen) == 0 {
			k = "connect"
		}
		var hbable []int
		for x := 0; x < nClients; x++ {
			if newest[x] >= 0 && conns[newest[x]].open {
				hbable = append(hbable, x)
			}
		}
		if k == "hb" && len(hbable) == 0 {
			k = "connect"
		}
		switch k {
		case "connect":
			op := Op{Kind: "connect", Client: rapid.IntRange(0, nClients-1).Draw(t, "client"), Node: liveNode("node")}
			op.Mode = rapid.SampledFrom([]string{"good", "good", "good", "good", "good", "good", "bad-secret", "tunnel-type", "no-handshake", "dead-at-response"}).Draw(t, "mode")
			if !created[op.Client] {
				op.Mode = "good" // the first event of a client registers it (first-connection handshake)
				created[op.Client] = true
			}
			conns = append(conns, gconn{client: op.Client, node: op.Node, open: true, good: op.Mode == "good"})
			if op.Mode == "good" {
				newest[op.Client] = len(conns) - 1
				op.Fault = genFault(t)
			}
			c.Ops = append(c.Ops, op)
		case "hb":
			c.Ops = append(c.Ops, Op{Kind: "hb", Client: hbable[rapid.IntRange(0, len(hbable)-1).Draw(t, "hbClient")], Fault: genFault(t)})
		case "relogin":
			// the client authenticates again on a connection it already holds (superseded ones preferred: the client
			// fell back to its old connection); from now on that connection is its current one
			j := goodOpen[rapid.IntRange(0, len(goodOpen)-1).Draw(t, "reloginConn")]
			if len(superseded) > 0 && rapid.Bool().Draw(t, "preferSuperseded") {
				j = superseded[rapid.IntRange(0, len(superseded)-1).Draw(t, "reloginOld")]
			}
			newest[conns[j].client] = j
			c.Ops = append(c.Ops, Op{Kind: "relogin", Conn: j})
		case "hbold":
			// a late heartbeat on a superseded connection that its node still believes in
			c.Ops = append(c.Ops, Op{Kind: "hbold", Conn: superseded[rapid.IntRange(0, len(superseded)-1).Draw(t, "oldConn")]})
		case "close":
			j := openIdx[rapid.IntRange(0, len(openIdx)-1).Draw(t, "closeConn")]
			// prefer closing a superseded connection (the old node noticing late) half of the time
			if len(superseded) > 0 && rapid.Bool().Draw(t, "preferOld") {
				j = superseded[0]
			}
			conns[j].open = false
			c.Ops = append(c.Ops, Op{Kind: "close", Conn: j, Fault: rapid.SampledFrom([]string{"", "", "", "", "read1", "read2"}).Draw(t, "readFault")})
		case "streak":
			// a session that outlives the registration lifetime: 4-5 pauses of ttl/3, every connected client heartbeating
			// on its newest connection; superseded connections stay silent, so their records lapse
			streaks++
			for j := rapid.IntRange(4, 5).Draw(t, "streakLen"); j > 0; j-- {
				c.Ops = append(c.Ops, Op{Kind: "tick", HB: append([]int(nil), hbable...), FF: rapid.IntRange(0, 3).Draw(t, "ff") > 0})
			}
			if len(superseded) > 0 && rapid.IntRange(0, 3).Draw(t, "lateHB") > 0 {
				c.Ops = append(c.Ops, Op{Kind: "hbold", Conn: superseded[rapid.IntRange(0, len(superseded)-1).Draw(t, "oldConn")]})
			}
		case "shutdown":
			// a node is shut down (SessionManager.Close) and its transports are then torn down by the adapters' read loops
			shutdowns++
			nd := liveNode("downNode")
			down[nd] = true
			for j := range conns {
				if conns[j].node == nd {
					conns[j].open = false
				}
			}
			c.Ops = append(c.Ops, Op{Kind: "shutdown", Node: nd})
		case "sibling":
			// a second, idle connection of a connected client on the same node (tunnel-type login that never opens a
			// tunnel, or a failed login) goes stale and is swept while the control connection keeps heartbeating; the
			// session then outlives the registration lifetime on heartbeats alone
			if len(hbable) == 0 {
				break
			}
			siblings++
			x := hbable[rapid.IntRange(0, len(hbable)-1).Draw(t, "siblingClient")]
			nd := conns[newest[x]].node
			mode := rapid.SampledFrom([]string{"tunnel-type", "tunnel-type", "bad-secret", "no-handshake"}).Draw(t, "siblingMode")
			c.Ops = append(c.Ops, Op{Kind: "connect", Client: x, Node: nd, Mode: mode})
			conns = append(conns, gconn{client: x, node: nd, open: false}) // swept right below
			keep := []int{x}
			for _, y := range hbable {
				if y != x && rapid.Bool().Draw(t, "keepOther") {
					keep = append(keep, y)
				}
			}
			c.Ops = append(c.Ops, Op{Kind: "sweep", Node: nd, HB: keep})
			for j := range conns {
				if conns[j].open && conns[j].node == nd {
					kept := false
					for _, y := range keep {
						if newest[y] == j {
							kept = true
						}
					}
					if !kept {
						conns[j].open = false
					}
				}
			}
			for j := rapid.IntRange(4, 5).Draw(t, "siblingStreak"); j > 0; j-- {
				c.Ops = append(c.Ops, Op{Kind: "tick", HB: keep, FF: rapid.IntRange(0, 3).Draw(t, "ff") > 0})
			}
		case "lapse":
			// the client is silent for longer than the registration lifetime while its connection lives (heartbeat gap,
			// or the store lost the records), then its heartbeats resume: they must make it findable again
			lapses++
			for j := 0; j < 4; j++ {
				c.Ops = append(c.Ops, Op{Kind: "tick", FF: rapid.IntRange(0, 3).Draw(t, "ff") > 0})
			}
			for _, x := range hbable {
				if rapid.IntRange(0, 2).Draw(t, "reloginAfterLapse") == 0 {
					c.Ops = append(c.Ops, Op{Kind: "relogin", Conn: newest[x]})
				} else {
					c.Ops = append(c.Ops, Op{Kind: "hb", Client: x})
				}
			}
		case "tick":
			ticks++
			op := Op{Kind: "tick", FF: rapid.IntRange(0, 3).Draw(t, "ff") > 0}
			for _, x := range hbable {
				if rapid.IntRange(0, 3).Draw(t, "tickHB") > 0 {
					op.HB = append(op.HB, x)
				}
			}
			c.Ops = append(c.Ops, op)
		case "sweep":
			// heartbeat-timeout sweep on one node: everything on it that is not kept active is closed by the node
			op := Op{Kind: "sweep", Node: liveNode("sweepNode")}
			for _, x := range hbable {
				if rapid.IntRange(0, 2).Draw(t, "keep") == 0 {
					op.HB = append(op.HB, x)
				}
			}
			for j := range conns {
				if conns[j].open && conns[j].node == op.Node {
					kept := false
					for _, x := range op.HB {
						if newest[x] == j {
							kept = true
						}
					}
					if !kept {
						conns[j].open = false // sketch only; the executor observes what the sweep really removed
					}
				}
			}
			c.Ops = append(c.Ops, op)
		}
	}
	return c
}

func genFault(t *rapid.T) string {
	return rapid.SampledFrom([]string{"", "", "", "", "", "", "", "", "", "both", "both", "conn_state", "client_conn"}).Draw(t, "fault")
}

// ---------------------------------------------------------------------------
// backends

type noCloseRedis struct{ *redisstore.Storage }

func (noCloseRedis) Close() error { return nil }

// faultyShared is the shared tier of one node of the tiered backend: the real Redis storage whose Set can be
// made to fail for connection-state keys (a Redis outage that hits exactly one node's write).
type faultyShared struct {
	*redisstore.Storage
	arm *faultArm
}

type faultArm struct {
	mu   sync.Mutex
	mode string // "", conn_state, client_conn (one shot), both (until disarmed)
	hits int
}

func (a *faultArm) set(mode string) { a.mu.Lock(); a.mode = mode; a.mu.Unlock() }

func (a *faultArm) take() int {
	a.mu.Lock()
	defer a.mu.Unlock()
	n := a.hits
	a.hits = 0
	a.mode = ""
	return n
}

func (a *faultArm) fails(key string) bool {
	a.mu.Lock()
	defer a.mu.Unlock()
	isState, isIndex := strings.HasPrefix(key, "tunnox:conn_state:"), strings.HasPrefix(key, "tunnox:client_conn:")
	switch {
	case a.mode == "both" && (isState || isIndex):
	case a.mode == "conn_state" && isState, a.mode == "client_conn" && isIndex:
		a.mode = ""
	default:
		return false
	}
	a.hits++
	return true
}

func (f faultyShared) Close() error { return nil }

// readArm makes one node's store fail one read of a tunnox:conn_state: key (a transient storage error).
type readArm struct {
	mu    sync.Mutex
	cloud bool // the cloud control's client runtime state is unreachable through this node's store
	armed bool
	skip  int
	hits  int
}

func (a *readArm) set(skip int) { a.mu.Lock(); a.armed, a.skip = true, skip; a.mu.Unlock() }

func (a *readArm) take() int {
	a.mu.Lock()
	defer a.mu.Unlock()
	n := a.hits
	a.hits, a.armed = 0, false
	return n
}

func (a *readArm) fails(key string) error {
	a.mu.Lock()
	defer a.mu.Unlock()
	if !a.armed || !strings.HasPrefix(key, "tunnox:conn_state:") {
		return nil
	}
	if a.skip > 0 {
		a.skip--
		return nil
	}
	a.armed = false
	a.hits++
	return fmt.Errorf("injected: transient storage read error")
}

func (a *readArm) cloudDown(key string) error {
	a.mu.Lock()
	defer a.mu.Unlock()
	if a.cloud && strings.HasPrefix(key, "tunnox:runtime:client:state:") {
		return fmt.Errorf("injected: client runtime state unavailable")
	}
	return nil
}

// one facade per backend kind: the real storage with a Get that can fail once
type faultMem struct {
	*memory.Storage
	arm *readArm
}

func (f faultMem) Get(key string) (any, error) {
	if err := f.arm.fails(key); err != nil {
		return nil, err
	}
	if err := f.arm.cloudDown(key); err != nil {
		return nil, err
	}
	return f.Storage.Get(key)
}

func (f faultMem) Set(key string, value any, ttl time.Duration) error {
	if err := f.arm.cloudDown(key); err != nil {
		return err
	}
	return f.Storage.Set(key, value, ttl)
}

type faultHyb struct {
	*hybrid.Storage
	arm *readArm
}

func (f faultHyb) Get(key string) (any, error) {
	if err := f.arm.fails(key); err != nil {
		return nil, err
	}
	if err := f.arm.cloudDown(key); err != nil {
		return nil, err
	}
	return f.Storage.Get(key)
}

func (f faultHyb) Set(key string, value any, ttl time.Duration) error {
	if err := f.arm.cloudDown(key); err != nil {
		return err
	}
	return f.Storage.Set(key, value, ttl)
}

type faultRedis struct {
	*redisstore.Storage
	arm *readArm
}

func (f faultRedis) Get(key string) (any, error) {
	if err := f.arm.fails(key); err != nil {
		return nil, err
	}
	if err := f.arm.cloudDown(key); err != nil {
		return nil, err
	}
	return f.Storage.Get(key)
}

func (f faultRedis) Set(key string, value any, ttl time.Duration) error {
	if err := f.arm.cloudDown(key); err != nil {
		return err
	}
	return f.Storage.Set(key, value, ttl)
}

func (f faultyShared) Set(key string, value any, ttl time.Duration) error {
	if f.arm.fails(key) {
		return fmt.Errorf("injected: shared cache unavailable")
	}
	return f.Storage.Set(key, value, ttl)
}

type redisEnv struct {
	mr      *miniredis.Miniredis
	clients []*redisstore.Storage
}

var (
	envOnce sync.Once
	envErr  error
	redisA  *redisEnv
	redisB  *redisEnv
)

const maxNodes = 3

func newRedisEnv() (*redisEnv, error) {
	mr, err := miniredis.Run()
	if err != nil {
		return nil, err
	}
	e := &redisEnv{mr: mr}
	for i := 0; i < maxNodes; i++ {
		c, err := redisstore.New(context.Background(), &redisstore.Config{Addr: mr.Addr(), PoolSize: 4})
		if err != nil {
			return nil, err
		}
		e.clients = append(e.clients, c)
	}
	return e, nil
}

func setupEnv() error {
	envOnce.Do(func() {
		if redisA, envErr = newRedisEnv(); envErr != nil {
			return
		}
		redisB, envErr = newRedisEnv()
	})
	return envErr
}

type bconn struct {
	cl     *miniserver.Client
	client int
	node   int
	authed bool // authenticated *control* connection
	open   bool
	seq    int
	mode   string
}

type bclient struct {
	id     int64
	secret string
	latest *bconn // connection of the most recent successful control handshake
	// last refresh (handshake or heartbeat) of latest, measured around the call
	refLo, refHi time.Time
	hsLo         time.Time // start of latest's handshake
	hbSince      bool      // a heartbeat was sent on latest since its handshake
	oldCleanup   bool      // an older connection on another node was closed after latest's handshake
	contested    bool      // a superseded connection heartbeated while latest was not provably kept alive: nothing promised until the next handshake
}

type backend struct {
	arms         []*faultArm // per node; tiered backend only
	rarms        []*readArm  // per node; every backend
	ttl          time.Duration
	down         []bool // nodes that were shut down
	deadResponse bool
	shutdownLast bool // a shutdown took a client's last connection with it
	lapsed       bool // a heartbeat arrived after the registration had provably lapsed
	relogins     int
	reloginOld   bool // a second handshake on a superseded connection made it the current one again
	readHit      bool
	faulted      bool
	name         string
	nodes        []*miniserver.Server
	mr           *miniredis.Miniredis
	conns        []*bconn
	clients      [nClients]*bclient
	dead         bool
	// evidence
	reconnectOtherNode bool
	oldClosedLate      bool
	hbSpan             bool
	lateOldHB          bool // a superseded connection heartbeated while the newest one was kept alive
	sweptLast          bool // a stale sweep closed a client's last open connection
	sweptAny           bool
	resolved, gone     int
}

var backendNames = []string{"memory", "hybrid-memory", "redis", "hybrid-redis"}

func buildBackends(c Case) []*backend {
	ctx := context.Background()
	mem := memory.New(ctx)
	hm := hybrid.New(ctx, memory.New(ctx), nil, hybrid.DefaultConfig())
	pers := vkit.NewGatePersistent(nil, "persistent")
	redisA.mr.FlushAll()
	redisB.mr.FlushAll()
	arms := make([]*faultArm, maxNodes)
	for i := range arms {
		arms[i] = &faultArm{}
	}
	rarms := map[string][]*readArm{}
	for _, name := range backendNames {
		for i := 0; i < maxNodes; i++ {
			rarms[name] = append(rarms[name], &readArm{})
		}
	}
	stores := map[string]func(i int) storage.Storage{
		"memory":        func(i int) storage.Storage { return faultMem{mem, rarms["memory"][i]} },
		"hybrid-memory": func(i int) storage.Storage { return faultHyb{hm, rarms["hybrid-memory"][i]} },
		"redis":         func(i int) storage.Storage { return faultRedis{redisA.clients[i], rarms["redis"][i]} },
		"hybrid-redis": func(i int) storage.Storage {
			cfg := hybrid.DefaultConfig()
			cfg.EnablePersistent = true
			return faultHyb{hybrid.NewWithSharedCache(ctx, memory.New(ctx), faultyShared{redisB.clients[i], arms[i]}, pers, cfg), rarms["hybrid-redis"][i]}
		},
	}
	var out []*backend
	for _, name := range backendNames {
		b := &backend{name: name, rarms: rarms[name], ttl: c.ttl()}
		for _, nd := range c.CloudOut {
			if nd < maxNodes {
				b.rarms[nd].cloud = true
			}
		}
		switch name {
		case "redis":
			b.mr = redisA.mr
		case "hybrid-redis":
			b.mr = redisB.mr
			b.arms = arms
		}
		for i := 0; i < c.Nodes; i++ {
			st := stores[name](i)
			nodeID := fmt.Sprintf("node-%d", i+1)
			o := miniserver.Options{Storage: st, NodeID: nodeID, NoSecurityGate: true}
			if c.TTLms > 0 {
				o.ConnStateTTL = time.Duration(c.TTLms) * time.Millisecond
			}
			s, err := miniserver.New(o)
			if err != nil {
				panic("C08 harness: miniserver.New: " + err.Error())
			}
			if c.TTLms == 0 {
				// what components_session.go does, with the "use the default" lifetime
				s.SM.SetConnectionStateStore(session.NewConnectionStateStore(st, nodeID, 0))
			}
			b.nodes = append(b.nodes, s)
		}
		out = append(out, b)
	}
	return out
}

func (b *backend) close() {
	for _, c := range b.conns {
		if c.open && c.cl != nil {
			c.cl.CloseByPeer()
			c.open = false
		}
	}
	for _, n := range b.nodes {
		n.Close()
	}
}

// ---------------------------------------------------------------------------
// execution + oracle

type failure struct{ key, detail string }

func errShape(err error) string {
	switch {
	case err == connstate.ErrConnectionNotFound:
		return "not-found"
	case err == connstate.ErrConnectionExpired:
		return "expired"
	case strings.Contains(err.Error(), "unexpected value type"):
		return "unexpected-value-type"
	case strings.Contains(err.Error(), "unmarshal"):
		return "decode-failed"
	}
	return "storage-error"
}

var addrSeq int

func nextAddr() string {
	addrSeq++
	return fmt.Sprintf("10.%d.%d.%d:%d", (addrSeq>>16)&255, (addrSeq>>8)&255, addrSeq&255, 20000+addrSeq%30000)
}

// armFault makes the shared tier of node refuse connection-state writes during the coming event; the returned
// function ends the outage and marks the client as degraded when a write was actually refused.
func (b *backend) armFault(node int, mode string, client int) func() {
	if mode == "" || b.arms == nil {
		return func() {}
	}
	b.arms[node].set(mode)
	return func() {
		if b.arms[node].take() > 0 {
			b.faulted = true
			if x := b.clients[client]; x != nil {
				// a registration or keep-alive that lost a write: nothing is promised for the client until its next
				// handshake, except that answers name open connections and that nothing outlives the last close
				x.contested = true
			}
		}
	}
}

func (b *backend) connect(op Op, seq int) *failure {
	if b.isDown(op.Node) {
		b.conns = append(b.conns, &bconn{})
		return nil
	}
	cl, err := b.nodes[op.Node].Connect(nextAddr())
	if err != nil {
		panic("C08 harness: Connect: " + err.Error())
	}
	defer b.armFault(op.Node, op.Fault, op.Client)()
	bc := &bconn{cl: cl, client: op.Client, node: op.Node, open: true, seq: seq, mode: op.Mode}
	b.conns = append(b.conns, bc)
	x := b.clients[op.Client]
	good := func(tb, ta time.Time) {
		bc.authed = true
		if x.latest != nil && x.latest.open && x.latest.node != bc.node {
			b.reconnectOtherNode = true
		}
		x.latest, x.refLo, x.refHi, x.hsLo, x.hbSince, x.oldCleanup, x.contested = bc, tb, ta, tb, false, false, false
	}
	if x == nil {
		tb := time.Now()
		r, err := cl.HandshakeNew("control")
		ta := time.Now()
		if err != nil || r == nil || !r.Success {
			panic(fmt.Sprintf("C08 harness: first-connection handshake failed on %s: %+v %v", b.name, r, err))
		}
		x = &bclient{id: cl.ClientID, secret: cl.Secret}
		b.clients[op.Client] = x
		good(tb, ta)
		return nil
	}
	switch op.Mode {
	case "good":
		tb := time.Now()
		r, err := cl.Login(x.id, x.secret, "control")
		ta := time.Now()
		if err != nil || r == nil || !r.Success {
			return &failure{"C08/unclassified/valid-login-refused/" + b.name, fmt.Sprintf("login of client created on another node refused on node-%d: %+v %v", op.Node+1, r, err)}
		}
		good(tb, ta)
	case "bad-secret":
		r, err := cl.Login(x.id, "00"+x.secret, "control")
		if err == nil && r != nil && r.Success {
			return &failure{"C08/unclassified/wrong-secret-accepted/" + b.name, "login with a wrong secret succeeded"}
		}
	case "tunnel-type":
		r, err := cl.Login(x.id, x.secret, "tunnel")
		if err != nil || r == nil || !r.Success {
			return &failure{"C08/unclassified/valid-login-refused/" + b.name, fmt.Sprintf("tunnel-type login refused: %+v %v", r, err)}
		}
	case "dead-at-response":
		// the client started this handshake and abandoned the connection; the node processes the (valid) second
		// phase when the transport can no longer be written to: the handshake never completed for the client
		r1, _, rerr := cl.Handshake(&packet.HandshakeRequest{ClientID: x.id, Version: "2.0", Protocol: "tcp", ConnectionType: "control"})
		if rerr != nil || r1 == nil || !r1.NeedResponse || r1.Challenge == "" {
			return &failure{"C08/unclassified/valid-login-refused/" + b.name, fmt.Sprintf("no challenge for a valid client: %+v %v", r1, rerr)}
		}
		cl.Far.FailWriteAfter.Store(0)
		body, _ := json.Marshal(&packet.HandshakeRequest{ClientID: x.id, Version: "2.0", Protocol: "tcp", ConnectionType: "control",
			ChallengeResponse: miniserver.ComputeResponse(x.secret, r1.Challenge)})
		cl.Push(&packet.TransferPacket{PacketType: packet.Handshake, Payload: body})
		b.deadResponse = true
	case "no-handshake":
	}
	cl.Drain()
	return nil
}

// shutdown closes node's session manager, then the adapters' read loops fail and close every connection of the node.
func (b *backend) shutdown(node int) {
	if b.down == nil {
		b.down = make([]bool, len(b.nodes))
	}
	if node >= len(b.nodes) || b.down[node] {
		return
	}
	b.down[node] = true
	b.nodes[node].SM.Close()
	for _, bc := range b.conns {
		if bc.cl == nil || !bc.open || bc.node != node {
			continue
		}
		bc.cl.CloseByPeer()
		b.noteClosed(bc)
		if bc.authed {
			last := true
			for _, o := range b.conns {
				if o.cl != nil && o.client == bc.client && o.open && o.authed {
					last = false
				}
			}
			if last {
				b.shutdownLast = true
			}
		}
	}
}

func (b *backend) isDown(node int) bool { return b.down != nil && node < len(b.down) && b.down[node] }

// relogin performs a second successful control handshake on an open, already authenticated connection.
func (b *backend) relogin(k, seq int) *failure {
	if k >= len(b.conns) {
		return nil
	}
	bc := b.conns[k]
	if bc.cl == nil || !bc.open || !bc.authed {
		return nil
	}
	x := b.clients[bc.client]
	dead := func() *failure {
		// the node itself has dropped this transport (a same-node re-login kicks the superseded connection): the
		// adapter's read loop would fail and close the connection, which is what the harness does here
		bc.cl.CloseByPeer()
		b.noteClosed(bc)
		return nil
	}
	if bc.cl.Far.IsClosed() || bc.cl.Near.IsClosed() {
		return dead()
	}
	bc.cl.Drain()
	tb := time.Now()
	r, err := bc.cl.Login(x.id, x.secret, "control")
	ta := time.Now()
	if r == nil && (bc.cl.Far.IsClosed() || bc.cl.Near.IsClosed()) {
		return dead()
	}
	if err != nil || r == nil || !r.Success {
		return &failure{"C08/unclassified/valid-login-refused/" + b.name, fmt.Sprintf("second handshake on the client's open connection %s refused: %+v %v", bc.cl.ConnID, r, err)}
	}
	bc.cl.Drain()
	if x.latest != bc {
		b.reloginOld = true
	}
	if tb.After(x.refHi.Add(b.ttl + guard)) {
		b.lapsed = true
	}
	bc.seq = seq
	x.latest, x.refLo, x.refHi, x.hsLo, x.hbSince, x.oldCleanup, x.contested = bc, tb, ta, tb, false, false, false
	b.relogins++
	return nil
}

func (b *backend) heartbeat(client int) { b.heartbeatFault(client, "") }

func (b *backend) heartbeatFault(client int, fault string) {
	x := b.clients[client]
	if x == nil || x.latest == nil || !x.latest.open {
		return
	}
	defer b.armFault(x.latest.node, fault, client)()
	tb := time.Now()
	if tb.After(x.refHi.Add(b.ttl + guard)) {
		b.lapsed = true
	}
	err := x.latest.cl.Push(&packet.TransferPacket{PacketType: packet.Heartbeat})
	ta := time.Now()
	if err != nil {
		panic("C08 harness: heartbeat push failed: " + err.Error())
	}
	x.latest.cl.Drain()
	x.refLo, x.refHi, x.hbSince = tb, ta, true
}

func (b *backend) closeConn(k int, fault string) {
	if k >= len(b.conns) || !b.conns[k].open {
		return
	}
	bc := b.conns[k]
	switch fault {
	case "read1":
		b.rarms[bc.node].set(0)
	case "read2":
		b.rarms[bc.node].set(1)
	}
	bc.cl.CloseByPeer()
	if b.rarms[bc.node].take() > 0 {
		b.readHit = true
	}
	b.noteClosed(bc)
}

// noteClosed records that bc's owning node closed it.
func (b *backend) noteClosed(bc *bconn) {
	bc.open = false
	x := b.clients[bc.client]
	if bc.authed && x != nil && x.latest != nil && x.latest != bc && x.latest.open && bc.seq < x.latest.seq {
		b.oldClosedLate = true
		if x.latest.node != bc.node {
			x.oldCleanup = true
		}
	}
}

// heartbeatOld pushes a late heartbeat on a superseded connection (its node still serves it).
func (b *backend) heartbeatOld(c Case, k int) {
	if k >= len(b.conns) {
		return
	}
	bc := b.conns[k]
	if bc.cl == nil || !bc.open || !bc.authed {
		return
	}
	x := b.clients[bc.client]
	if x.latest == bc {
		b.heartbeat(bc.client)
		return
	}
	if err := bc.cl.Push(&packet.TransferPacket{PacketType: packet.Heartbeat}); err != nil {
		panic("C08 harness: heartbeat push failed: " + err.Error())
	}
	after := time.Now()
	bc.cl.Drain()
	if x.latest.open && beforeBoth(after, x.refLo.Add(c.ttl()-guard)) {
		b.lateOldHB = true // the newest connection is provably alive: the answer must not move
	} else {
		x.contested = true
	}
}

// sweep runs the heartbeat-timeout sweep of SessionManager.cleanupStaleConnections on one node with a
// 5 ms timeout, after the kept clients heartbeated; which connections it closed is observed, not predicted.
func (b *backend) sweep(node int, keep []int) {
	for _, x := range keep {
		if cx := b.clients[x]; cx != nil && cx.latest != nil && cx.latest.open {
			b.heartbeat(x)
		}
	}
	srv := b.nodes[node]
	srv.SM.GetClientRegistry().CleanupStale(5*time.Millisecond, func(connID string, clientID int64, authenticated bool) error {
		return srv.SM.CloseConnection(connID)
	})
	for _, bc := range b.conns {
		if bc.cl == nil || !bc.open || bc.node != node {
			continue
		}
		if _, still := srv.SM.GetConnection(bc.cl.ConnID); still {
			continue
		}
		// closed by the node; finish the transport like the adapter would
		bc.cl.Near.Close()
		bc.cl.Far.Close()
		bc.cl.SP.Close()
		b.noteClosed(bc)
		b.sweptAny = true
		if bc.authed {
			last := true
			for _, o := range b.conns {
				if o.cl != nil && o.client == bc.client && o.open && o.authed {
					last = false
				}
			}
			if last {
				b.sweptLast = true
			}
		}
	}
}

func (b *backend) describe(connID string) string {
	for _, c := range b.conns {
		if c.cl != nil && c.cl.ConnID == connID {
			switch {
			case !c.open:
				return "closed-conn"
			case !c.authed:
				return "unauthenticated-or-tunnel-conn"
			default:
				return "older-open-conn"
			}
		}
	}
	return "unknown-conn"
}

// judge asks every node where every client is and compares with the model.
func (b *backend) judge(c Case, step string) *failure {
	ctx := context.Background()
	ttl := c.ttl()
	for xi, x := range b.clients {
		if x == nil {
			continue
		}
		var openAuthed []*bconn
		for _, bc := range b.conns {
			if bc.cl != nil && bc.client == xi && bc.open && bc.authed {
				openAuthed = append(openAuthed, bc)
			}
		}
		for ni, n := range b.nodes {
			if b.isDown(ni) {
				continue // a node that was shut down answers nobody
			}
			lb := time.Now()
			node, conn, err := n.SM.GetConnectionStateStore().FindClientNode(ctx, x.id)
			la := time.Now()
			where := fmt.Sprintf("%s: node-%d FindClientNode(client %d)", step, ni+1, xi)
			if err == nil && conn == "" {
				return &failure{"C08/unclassified/empty-answer/" + b.name, where + " returned no error and no connection"}
			}
			switch {
			case len(openAuthed) == 0:
				if err == nil {
					return &failure{fmt.Sprintf("C08/resolves-after-last-close/%s/%s", b.name, b.describe(conn)),
						fmt.Sprintf("%s = (%s,%s) although the client has no open authenticated control connection", where, node, conn)}
				}
				b.gone++
			case x.latest.open && !x.contested:
				fresh := beforeBoth(la, x.refLo.Add(ttl-guard))
				stale := afterBoth(lb, x.refHi.Add(ttl+guard))
				want := x.latest
				wantNode := b.nodes[want.node].NodeID
				if err != nil {
					if !fresh {
						if !stale {
							vkit.Skipped(1)
						}
						continue // not kept alive within the registration lifetime: nothing promised
					}
					shape := errShape(err)
					key := fmt.Sprintf("C08/live-client-not-found/%s/%s", b.name, shape)
					switch {
					case shape == "unexpected-value-type" || shape == "decode-failed":
						key = fmt.Sprintf("C08/lookup-error/%s/%s", b.name, shape)
					case x.oldCleanup && la.Before(x.hsLo.Add(ttl-guard)):
						// the handshake's own registration cannot have lapsed yet: something removed it
						key = "C08/index-erased-by-older-connection-cleanup/" + b.name
					case x.hbSince && !la.Before(x.hsLo.Add(ttl-guard)):
						// only the heartbeats can have kept the registration alive, and they did not
						key = "C08/heartbeat-does-not-refresh/" + b.name
					}
					return &failure{key, fmt.Sprintf("%s: %v; expected (%s,%s): handshake %v ago, last keep-alive %v ago, ttl %v", where, err, wantNode, want.cl.ConnID,
						la.Sub(x.hsLo).Round(time.Millisecond), la.Sub(x.refLo).Round(time.Millisecond), ttl)}
				}
				if conn != want.cl.ConnID {
					return &failure{fmt.Sprintf("C08/wrong-location/%s/%s", b.name, b.describe(conn)),
						fmt.Sprintf("%s = (%s,%s), expected (%s,%s)", where, node, conn, wantNode, want.cl.ConnID)}
				}
				if node != wantNode {
					return &failure{fmt.Sprintf("C08/wrong-location/%s/wrong-node", b.name), fmt.Sprintf("%s = (%s,%s), expected node %s", where, node, conn, wantNode)}
				}
				if fresh {
					b.resolved++
					if x.hbSince && !la.Before(x.hsLo.Add(ttl+guard)) {
						b.hbSpan = true
					}
				} else if !stale {
					vkit.Skipped(1)
				}
			default:
				// the newest connection is closed while a superseded one is still open on its node (the client is not
				// keeping anything alive), or a superseded connection heartbeated while the newest one had not been kept
				// alive: either answer is accepted, but a resolved answer must name an open connection of the client
				if err == nil {
					ok := false
					for _, bc := range openAuthed {
						if bc.cl.ConnID == conn && b.nodes[bc.node].NodeID == node {
							ok = true
						}
					}
					if !ok {
						return &failure{fmt.Sprintf("C08/wrong-location/%s/%s", b.name, b.describe(conn)),
							fmt.Sprintf("%s = (%s,%s): answer names no open authenticated connection of the client", where, node, conn)}
					}
				}
			}
		}
	}
	return nil
}

type result struct {
	failures map[string]*failure // per backend
	bs       []*backend
}

func runCase(c Case) *result {
	if err := setupEnv(); err != nil {
		panic("C08 harness: cannot start miniredis: " + err.Error())
	}
	bs := buildBackends(c)
	res := &result{failures: map[string]*failure{}, bs: bs}
	defer func() {
		for _, b := range bs {
			b.close()
		}
	}()
	fail := func(b *backend, f *failure) {
		if f != nil {
			res.failures[b.name] = f
			b.dead = true
		}
	}
	seq := 0
	for oi, op := range c.Ops {
		step := fmt.Sprintf("after op %d (%s)", oi, op.Kind)
		switch op.Kind {
		case "connect":
			seq++
			for _, b := range bs {
				if !b.dead {
					fail(b, b.connect(op, seq))
				} else {
					b.conns = append(b.conns, &bconn{}) // keep ordinals aligned
				}
			}
		case "relogin":
			seq++
			for _, b := range bs {
				if !b.dead {
					fail(b, b.relogin(op.Conn, seq))
				}
			}
		case "hb":
			for _, b := range bs {
				if !b.dead {
					b.heartbeatFault(op.Client, op.Fault)
				}
			}
		case "hbold":
			for _, b := range bs {
				if !b.dead {
					b.heartbeatOld(c, op.Conn)
				}
			}
		case "close":
			for _, b := range bs {
				if !b.dead {
					b.closeConn(op.Conn, op.Fault)
				}
			}
		case "shutdown":
			for _, b := range bs {
				if !b.dead {
					b.shutdown(op.Node)
				}
			}
		case "sweep":
			time.Sleep(6 * time.Millisecond)
			for _, b := range bs {
				if !b.dead && op.Node < len(b.nodes) && !b.isDown(op.Node) {
					b.sweep(op.Node, op.HB)
				}
			}
		case "tick":
			d := c.ttl() / 3
			time.Sleep(d)
			for _, b := range bs {
				if op.FF && b.mr != nil {
					b.mr.FastForward(d)
				}
				if !b.dead {
					for _, x := range op.HB {
						b.heartbeat(x)
					}
				}
			}
		}
		for _, b := range bs {
			if !b.dead {
				fail(b, b.judge(c, step))
			}
		}
	}
	return res
}

// ---------------------------------------------------------------------------
// evidence

func caseSig(c Case) string {
	var sb strings.Builder
	fmt.Fprintf(&sb, "%d/%d/%v", c.Nodes, c.TTLms, c.CloudOut)
	for _, op := range c.Ops {
		fmt.Fprintf(&sb, "|%s.%d.%d.%s.%d.%v.%v", op.Kind, op.Client, op.Node, op.Mode, op.Conn, op.HB, op.FF)
	}
	return sb.String()
}

func check(t vkit.TB, c Case) {
	res := runCase(c)
	sig := caseSig(c)
	failed := false
	for _, b := range res.bs {
		if f := res.failures[b.name]; f != nil {
			vkit.Case("known:"+f.key, false, "")
			continue
		}
		class := "plain"
		switch {
		case b.reconnectOtherNode && b.oldClosedLate && b.hbSpan:
			class = "reconnect-elsewhere+late-old-close+heartbeats-beyond-ttl"
		case b.reconnectOtherNode && b.oldClosedLate:
			class = "reconnect-elsewhere-then-late-old-close"
		case b.hbSpan:
			class = "heartbeats-beyond-ttl"
		case b.reconnectOtherNode:
			class = "reconnect-elsewhere"
		case b.oldClosedLate:
			class = "same-node-relogin-then-old-close"
		}
		if b.lateOldHB {
			vkit.Class("feat:late-heartbeat-on-superseded-conn/" + b.name)
		}
		if b.shutdownLast {
			vkit.Class("feat:node-shutdown-took-last-conn/" + b.name)
		}
		if b.deadResponse {
			vkit.Class("feat:handshake-response-unwritable/" + b.name)
		}
		if b.relogins > 0 {
			vkit.Class("feat:second-handshake-on-authenticated-conn/" + b.name)
		}
		if b.reloginOld {
			vkit.Class("feat:second-handshake-on-superseded-conn/" + b.name)
		}
		if b.lapsed {
			vkit.Class("feat:heartbeat-after-lapsed-registration/" + b.name)
		}
		if b.readHit {
			vkit.Class("feat:transient-read-error-during-close/" + b.name)
		}
		if b.faulted {
			vkit.Class("feat:shared-tier-write-refused/" + b.name)
		}
		if b.sweptAny {
			vkit.Class("feat:stale-sweep-closed-conn/" + b.name)
		}
		if b.sweptLast {
			vkit.Class("feat:stale-sweep-closed-last-conn/" + b.name)
		}
		nt := (b.reconnectOtherNode && b.oldClosedLate) || b.hbSpan || b.lateOldHB || b.sweptLast || b.lapsed || b.readHit || b.reloginOld || b.shutdownLast
		vkit.Case(class+"/"+b.name, nt, b.name+"#"+sig)
		vkit.AddExtra("lookups_resolved_fresh", int64(b.resolved))
		vkit.AddExtra("lookups_not_connected", int64(b.gone))
	}
	vkit.Sample(fmt.Sprintf("ttl=%d", c.TTLms), c)
	for _, op := range c.Ops {
		if op.Kind == "connect" && op.Mode != "good" {
			vkit.Class("feat:connect/" + op.Mode)
		}
		if op.Kind == "tick" && !op.FF {
			vkit.Class("feat:tick-with-lagging-store-clock")
		}
	}
	if len(c.CloudOut) > 0 {
		vkit.Class("feat:cloud-runtime-state-outage")
	}
	switch c.TTLms {
	case 0:
		vkit.Class("feat:ttl-0-means-default")
	case shortTTLms:
		vkit.Class("feat:ttl-shorter-than-session")
	}
	// report failures last: an unlisted key fails the test here
	for _, name := range backendNames {
		if f := res.failures[name]; f != nil {
			failed = true
			vkit.Violation(t, f.key, f.detail, c)
		}
	}
	_ = failed
}

// TestClusterLookup is the generated search.
func TestClusterLookup(t *testing.T) {
	vkit.Check(t, 800, 10000, func(t *rapid.T) {
		check(t, genCase(t))
	})
}

// TestScenarios runs the three history shapes named in the property statement deterministically.
func TestScenarios(t *testing.T) {
	if vkit.Shard() != 0 {
		t.Skip("single shard")
	}
	for _, c := range []Case{
		// connect, lookup everywhere, close, lookup
		{Nodes: 2, TTLms: 30000, Ops: []Op{{Kind: "connect", Client: 0, Node: 0, Mode: "good"}, {Kind: "close", Conn: 0}}},
		// reconnect to another node before the old node notices; old node cleans up late
		{Nodes: 2, TTLms: 30000, Ops: []Op{{Kind: "connect", Client: 0, Node: 0, Mode: "good"}, {Kind: "connect", Client: 0, Node: 1, Mode: "good"}, {Kind: "close", Conn: 0}, {Kind: "hb", Client: 0}, {Kind: "close", Conn: 1}}},
		// registration lifetime shorter than the session, kept alive by heartbeats
		{Nodes: 3, TTLms: shortTTLms, Ops: []Op{{Kind: "connect", Client: 0, Node: 2, Mode: "good"}, {Kind: "tick", HB: []int{0}, FF: true}, {Kind: "tick", HB: []int{0}, FF: true},
			{Kind: "tick", HB: []int{0}, FF: true}, {Kind: "tick", HB: []int{0}, FF: true}, {Kind: "tick", HB: []int{0}, FF: false}, {Kind: "close", Conn: 0}}},
		// the old connection's record lapses on node 1 while the client lives on node 2; then a late heartbeat arrives on the old connection
		{Nodes: 2, TTLms: shortTTLms, Ops: []Op{{Kind: "connect", Client: 0, Node: 0, Mode: "good"}, {Kind: "connect", Client: 0, Node: 1, Mode: "good"},
			{Kind: "tick", HB: []int{0}, FF: true}, {Kind: "tick", HB: []int{0}, FF: true}, {Kind: "tick", HB: []int{0}, FF: true}, {Kind: "tick", HB: []int{0}, FF: true}, {Kind: "tick", HB: []int{0}, FF: true},
			{Kind: "hbold", Conn: 0}, {Kind: "tick", HB: []int{0}, FF: true}, {Kind: "close", Conn: 0}, {Kind: "close", Conn: 1}}},
		// the client's only connection dies silently and is closed by the heartbeat-timeout sweep
		{Nodes: 2, TTLms: 30000, Ops: []Op{{Kind: "connect", Client: 0, Node: 0, Mode: "good"}, {Kind: "connect", Client: 1, Node: 0, Mode: "good"}, {Kind: "sweep", Node: 0, HB: []int{1}}, {Kind: "sweep", Node: 1}, {Kind: "sweep", Node: 0}}},
		// the shared tier refuses node 1's registration writes; the next heartbeat repairs them; after the close nothing may remain
		{Nodes: 2, TTLms: 30000, Ops: []Op{{Kind: "connect", Client: 0, Node: 0, Mode: "good", Fault: "both"}, {Kind: "hb", Client: 0}, {Kind: "close", Conn: 0},
			{Kind: "connect", Client: 0, Node: 1, Mode: "good"}, {Kind: "hb", Client: 0, Fault: "client_conn"}, {Kind: "hb", Client: 0, Fault: "conn_state"}, {Kind: "close", Conn: 1}}},
		// the registration lapses during a heartbeat gap; the resumed heartbeat must rebuild it; late cleanup of the old node with a transient read error
		{Nodes: 2, TTLms: shortTTLms, Ops: []Op{{Kind: "connect", Client: 0, Node: 0, Mode: "good"}, {Kind: "tick", FF: true}, {Kind: "tick", FF: true}, {Kind: "tick", FF: true}, {Kind: "tick", FF: true},
			{Kind: "hb", Client: 0}, {Kind: "connect", Client: 0, Node: 1, Mode: "good"}, {Kind: "close", Conn: 0, Fault: "read2"}, {Kind: "hb", Client: 0}, {Kind: "close", Conn: 1, Fault: "read1"}}},
		// (a) a1 on node 1, b1 on node 2, second handshake on the still-open a1; (b) silence longer than the lifetime, second handshake
		{Nodes: 2, TTLms: 30000, Ops: []Op{{Kind: "connect", Client: 0, Node: 0, Mode: "good"}, {Kind: "connect", Client: 0, Node: 1, Mode: "good"}, {Kind: "relogin", Conn: 0}, {Kind: "close", Conn: 1}, {Kind: "close", Conn: 0}}},
		{Nodes: 2, TTLms: shortTTLms, Ops: []Op{{Kind: "connect", Client: 0, Node: 0, Mode: "good"}, {Kind: "tick", FF: true}, {Kind: "tick", FF: true}, {Kind: "tick", FF: true}, {Kind: "tick", FF: true}, {Kind: "relogin", Conn: 0}, {Kind: "close", Conn: 0}}},
		// the cloud control's runtime state is unreachable on every node; heartbeats must still keep the location records alive
		{Nodes: 2, TTLms: shortTTLms, CloudOut: []int{0, 1}, Ops: []Op{{Kind: "connect", Client: 0, Node: 1, Mode: "good"}, {Kind: "tick", HB: []int{0}, FF: true}, {Kind: "tick", HB: []int{0}, FF: true},
			{Kind: "tick", HB: []int{0}, FF: true}, {Kind: "tick", HB: []int{0}, FF: true}, {Kind: "tick", HB: []int{0}, FF: true}, {Kind: "close", Conn: 0}}},
		// an idle tunnel-type sibling of the control connection is swept; the control connection lives on by heartbeats
		{Nodes: 2, TTLms: shortTTLms, Ops: []Op{{Kind: "connect", Client: 0, Node: 0, Mode: "good"}, {Kind: "connect", Client: 0, Node: 0, Mode: "tunnel-type"}, {Kind: "sweep", Node: 0, HB: []int{0}},
			{Kind: "tick", HB: []int{0}, FF: true}, {Kind: "tick", HB: []int{0}, FF: true}, {Kind: "tick", HB: []int{0}, FF: true}, {Kind: "tick", HB: []int{0}, FF: true}, {Kind: "tick", HB: []int{0}, FF: true}, {Kind: "close", Conn: 0}}},
		// the node holding the client's only connection is shut down; the other node must not keep locating it there
		{Nodes: 2, TTLms: 30000, Ops: []Op{{Kind: "connect", Client: 0, Node: 0, Mode: "good"}, {Kind: "connect", Client: 1, Node: 1, Mode: "good"}, {Kind: "shutdown", Node: 0}, {Kind: "hb", Client: 1}}},
		// a handshake abandoned on node 1 is finished by the node when its transport is dead, after the client completed one on node 2
		{Nodes: 2, TTLms: 30000, Ops: []Op{{Kind: "connect", Client: 0, Node: 1, Mode: "good"}, {Kind: "connect", Client: 0, Node: 0, Mode: "dead-at-response"}, {Kind: "close", Conn: 1}, {Kind: "hb", Client: 0}, {Kind: "close", Conn: 0}}},
		// default lifetime (ttl argument 0)
		{Nodes: 2, TTLms: 0, Ops: []Op{{Kind: "connect", Client: 1, Node: 1, Mode: "good"}, {Kind: "connect", Client: 1, Node: 1, Mode: "bad-secret"}, {Kind: "connect", Client: 1, Node: 0, Mode: "tunnel-type"}, {Kind: "close", Conn: 0}}},
	} {
		check(t, c)
	}
}

// TestReplay re-executes a saved JSON case (VERIF_REPLAY=path).
func TestReplay(t *testing.T) {
	path := vkit.Replaying()
	if path == "" {
		t.Skip("no VERIF_REPLAY")
	}
	var c Case
	if _, err := vkit.LoadReplay(path, &c); err != nil {
		t.Fatalf("bad replay file: %v", err)
	}
	check(t, c)
}
