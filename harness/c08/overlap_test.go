// C08, overlapping lookups on a slow shared tier.
//
// Tiered backend (node-local memory + shared Redis). A lookup on node X is held up inside the shared tier after it
// has read the client index (slow Redis round trip). Meanwhile the client completes a handshake on another node.
// A second lookup on node X that STARTS after that handshake returned must report the new node and connection,
// whatever the first, older lookup eventually returns.
package c08

import (
	"context"
	"fmt"
	"strings"
	"sync"
	"testing"
	"time"

	"pgregory.net/rapid"

	"tunnox-core/internal/core/storage/hybrid"
	"tunnox-core/internal/core/storage/memory"
	redisstore "tunnox-core/internal/core/storage/redis"
	"tunnox-core/verif/vkit"
	"tunnox-core/verif/vkit/miniserver"
)

type OverlapCase struct {
	Overlap   bool `json:"overlap"` // marks the case kind in replay files
	Nodes     int  `json:"nodes"`
	FirstNode int  `json:"first_node"` // where the client is connected at first
	NextNode  int  `json:"next_node"`  // where it reconnects
	AskNode   int  `json:"ask_node"`   // where the two lookups run
	CloseOld  bool `json:"close_old"`  // the old node closes the old connection before the second lookup
	Lookups   int  `json:"lookups"`    // number of late lookups (1..3)
}

// slowShared is one node's shared tier; a Get of the armed key is held after the value was read.
type slowShared struct {
	*redisstore.Storage
	gate *slowGate
}

type slowGate struct {
	mu      sync.Mutex
	prefix  string
	entered chan struct{}
	release chan struct{}
}

func (g *slowGate) arm(prefix string) {
	g.mu.Lock()
	g.prefix, g.entered, g.release = prefix, make(chan struct{}), make(chan struct{})
	g.mu.Unlock()
}

func (s slowShared) Close() error { return nil }

func (s slowShared) Get(key string) (any, error) {
	v, err := s.Storage.Get(key)
	s.gate.mu.Lock()
	hold := s.gate.prefix != "" && strings.HasPrefix(key, s.gate.prefix)
	var entered, release chan struct{}
	if hold {
		s.gate.prefix = "" // one shot
		entered, release = s.gate.entered, s.gate.release
	}
	s.gate.mu.Unlock()
	if hold {
		close(entered)
		<-release
	}
	return v, err
}

func genOverlapCase(t *rapid.T) OverlapCase {
	c := OverlapCase{Overlap: true, Nodes: rapid.IntRange(2, 3).Draw(t, "nodes")}
	c.FirstNode = rapid.IntRange(0, c.Nodes-1).Draw(t, "first")
	c.NextNode = rapid.IntRange(0, c.Nodes-1).Draw(t, "next")
	c.AskNode = rapid.IntRange(0, c.Nodes-1).Draw(t, "ask")
	c.CloseOld = rapid.Bool().Draw(t, "closeOld")
	c.Lookups = rapid.IntRange(1, 3).Draw(t, "lookups")
	return c
}

func runOverlapCase(c OverlapCase) *failure {
	if err := setupEnv(); err != nil {
		panic("C08 harness: cannot start miniredis: " + err.Error())
	}
	ctx := context.Background()
	redisB.mr.FlushAll()
	pers := vkit.NewGatePersistent(nil, "persistent")
	var nodes []*miniserver.Server
	var gates []*slowGate
	for i := 0; i < c.Nodes; i++ {
		g := &slowGate{}
		cfg := hybrid.DefaultConfig()
		cfg.EnablePersistent = true
		st := hybrid.NewWithSharedCache(ctx, memory.New(ctx), slowShared{redisB.clients[i], g}, pers, cfg)
		s, err := miniserver.New(miniserver.Options{Storage: st, NodeID: fmt.Sprintf("node-%d", i+1), NoSecurityGate: true, ConnStateTTL: time.Hour}) // the lifetime is not the subject here
		if err != nil {
			panic("C08 harness: miniserver.New: " + err.Error())
		}
		defer s.Close()
		nodes = append(nodes, s)
		gates = append(gates, g)
	}
	a1, err := nodes[c.FirstNode].Connect(nextAddr())
	if err != nil {
		panic("C08 harness: Connect: " + err.Error())
	}
	defer a1.CloseByPeer()
	if r, err := a1.HandshakeNew("control"); err != nil || r == nil || !r.Success {
		panic(fmt.Sprintf("C08 harness: first-connection handshake failed: %+v %v", r, err))
	}
	id, secret := a1.ClientID, a1.Secret
	ask := nodes[c.AskNode].SM.GetConnectionStateStore()
	type ans struct {
		node, conn string
		err        error
	}
	// lookup #1: reads the index (still the old connection) and is then held inside the shared tier
	gates[c.AskNode].arm("tunnox:client_conn:")
	var releaseOnce sync.Once
	release := func() { releaseOnce.Do(func() { close(gates[c.AskNode].release) }) }
	defer release() // registered last of the clean-ups that can touch the store, so it runs before them
	first := make(chan ans, 1)
	go func() {
		n, cn, err := ask.FindClientNode(ctx, id)
		first <- ans{n, cn, err}
	}()
	select {
	case <-gates[c.AskNode].entered:
	case <-time.After(5 * time.Second):
		panic("C08 harness: the first lookup never reached the shared tier")
	}
	// the client completes a handshake on another (or the same) node
	b1, err := nodes[c.NextNode].Connect(nextAddr())
	if err != nil {
		panic("C08 harness: Connect: " + err.Error())
	}
	defer func() { release(); b1.CloseByPeer() }()
	loginDone := make(chan string, 1)
	go func() {
		if r, err := b1.Login(id, secret, "control"); err != nil || r == nil || !r.Success {
			loginDone <- fmt.Sprintf("login failed: %+v %v", r, err)
			return
		}
		loginDone <- ""
	}()
	select {
	case msg := <-loginDone:
		if msg != "" {
			panic("C08 harness: " + msg)
		}
	case <-time.After(time.Second):
		// the handshake itself is waiting for the slow read of the older lookup (it reads the same key on this node):
		// slowness, not a wrong answer; let the read finish, the case then has no overlap left to judge
		release()
		if msg := <-loginDone; msg != "" {
			vkit.Class("overlap:handshake-failed-behind-slow-read")
			return nil
		}
		vkit.Class("overlap:handshake-waited-for-slow-read")
	}
	if c.CloseOld {
		closed := make(chan struct{})
		go func() { a1.CloseByPeer(); close(closed) }()
		select {
		case <-closed:
		case <-time.After(time.Second): // the old node's clean-up reads the same key behind the slow read
			release()
			<-closed
			vkit.Class("overlap:close-waited-for-slow-read")
		}
	}
	// late lookups: started after the handshake returned
	late := make(chan ans, c.Lookups)
	for i := 0; i < c.Lookups; i++ {
		go func() {
			n, cn, err := ask.FindClientNode(ctx, id)
			late <- ans{n, cn, err}
		}()
	}
	var got []ans
	timeout := time.After(100 * time.Millisecond) // a late lookup that waits for the old one is given the old one's answer below
collect:
	for len(got) < c.Lookups {
		select {
		case a := <-late:
			got = append(got, a)
		case <-timeout:
			break collect
		}
	}
	release()
	for len(got) < c.Lookups {
		select {
		case a := <-late:
			got = append(got, a)
		case <-time.After(5 * time.Second):
			return &failure{"C08/overlap/late-lookup-never-returned", "a lookup started after the handshake did not return within 5 s of the older lookup's release"}
		}
	}
	<-first
	wantNode := nodes[c.NextNode].NodeID
	for _, a := range got {
		if a.err != nil {
			return &failure{"C08/overlap/late-lookup-not-found/" + errShape(a.err),
				fmt.Sprintf("client handshook on %s (conn %s); a lookup on node-%d started afterwards answers: %v", wantNode, b1.ConnID, c.AskNode+1, a.err)}
		}
		if a.conn != b1.ConnID || a.node != wantNode {
			what := "unknown-conn"
			if a.conn == a1.ConnID {
				what = "previous-conn"
			}
			return &failure{"C08/overlap/late-lookup-reports-" + what,
				fmt.Sprintf("client handshook on %s (conn %s) while an older lookup on node-%d was still in flight; a lookup started AFTER the handshake returned answers (%s,%s)", wantNode, b1.ConnID, c.AskNode+1, a.node, a.conn)}
		}
	}
	return nil
}

func checkOverlap(t vkit.TB, c OverlapCase) {
	if f := runOverlapCase(c); f != nil {
		vkit.Violation(t, f.key, f.detail, c)
		vkit.Case("known:"+f.key, false, "")
		return
	}
	class := "overlap:reconnect-other-node"
	if c.FirstNode == c.NextNode {
		class = "overlap:relogin-same-node"
	}
	vkit.Case(class, true, fmt.Sprintf("overlap|%d|%d|%d|%d|%v|%d", c.Nodes, c.FirstNode, c.NextNode, c.AskNode, c.CloseOld, c.Lookups))
}

// TestOverlappingLookups: generated placements of the old connection, the new one and the asking node.
func TestOverlappingLookups(t *testing.T) {
	vkit.Check(t, 160, 2000, func(t *rapid.T) {
		checkOverlap(t, genOverlapCase(t))
	})
}

// TestReplayOverlap re-executes a saved overlap case.
func TestReplayOverlap(t *testing.T) {
	path := vkit.Replaying()
	if path == "" {
		t.Skip("no VERIF_REPLAY")
	}
	var c OverlapCase
	if _, err := vkit.LoadReplay(path, &c); err != nil || !c.Overlap {
		t.Skip("not an overlap case")
	}
	checkOverlap(t, c)
}
