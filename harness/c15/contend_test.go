package c15

// E3 contention part: the gate scheduler serialises whole store operations, so a race
// INSIDE the backend's SetNX (check and set no longer one atomic step) is invisible to it.
// Here nothing is gated: G generators (IDManager instances = nodes, every kind) or
// NodeIDAllocators on ONE store the server builds (hybrid facade over the memory backend
// from the storage factory, or the memory backend directly) are released from a spin
// barrier, thousands of rounds, with the collision amplifier pinning candidates so that all
// G callers claim the same class at the same moment.

import (
	"context"
	"errors"
	"fmt"
	"io"
	"net"
	"runtime"
	"strconv"
	"strings"
	"sync"
	"sync/atomic"
	"testing"
	"time"

	"github.com/alicebob/miniredis/v2"

	"tunnox-core/internal/core/idgen"
	"tunnox-core/internal/core/node"
	"tunnox-core/internal/core/storage"
	"tunnox-core/verif/vkit"
)

// foldStore folds `tunnox:id:used:<kind>:<id>` keys onto K classes ABOVE the store (the
// store itself is exactly what the factory built). Pinned candidates: the i-th claim of a
// round gets class (base + i/G) mod K, so the first G claims (every caller's first
// candidate) hit one key together, the losers' second candidates hit the next key together,
// and so on. Lock-free on the claim path (an atomic counter and a sync.Map) so the callers
// reach the backend's SetNX as simultaneously as the barrier released them.
type foldStore struct {
	inner storage.Storage
	cas   storage.CASStore
	k, g  int64
	base  int64
	calls int64
	memo  sync.Map // "<kind>:<id>" -> class
}

func (f *foldStore) newRound(base int) {
	atomic.StoreInt64(&f.calls, 0)
	f.base = int64(base)
	f.memo = sync.Map{}
}

func (f *foldStore) fold(key string, fresh bool) string {
	if !strings.HasPrefix(key, usedPrefix) {
		return key
	}
	rest := key[len(usedPrefix):]
	i := strings.IndexByte(rest, ':')
	if i < 0 {
		return key
	}
	if c, ok := f.memo.Load(rest); ok {
		return classKey(rest[:i], c.(int))
	}
	c := hashClass(rest, int(f.k))
	if fresh {
		n := atomic.AddInt64(&f.calls, 1) - 1
		c = int((f.base + n/f.g) % f.k)
	}
	act, _ := f.memo.LoadOrStore(rest, c)
	return classKey(rest[:i], act.(int))
}

func (f *foldStore) classOf(kind, id string) (int, bool) {
	c, ok := f.memo.Load(kind + ":" + id)
	if !ok {
		return 0, false
	}
	return c.(int), true
}

func (f *foldStore) Set(k string, v any, ttl time.Duration) error {
	return f.inner.Set(f.fold(k, false), v, ttl)
}
func (f *foldStore) Get(k string) (any, error)     { return f.inner.Get(f.fold(k, false)) }
func (f *foldStore) Delete(k string) error         { return f.inner.Delete(f.fold(k, false)) }
func (f *foldStore) Exists(k string) (bool, error) { return f.inner.Exists(f.fold(k, false)) }
func (f *foldStore) SetExpiration(k string, d time.Duration) error {
	return f.inner.SetExpiration(k, d)
}
func (f *foldStore) GetExpiration(k string) (time.Duration, error) { return f.inner.GetExpiration(k) }
func (f *foldStore) CleanupExpired() error                         { return f.inner.CleanupExpired() }
func (f *foldStore) Close() error                                  { return nil }
func (f *foldStore) SetNX(k string, v any, ttl time.Duration) (bool, error) {
	return f.cas.SetNX(f.fold(k, true), v, ttl)
}
func (f *foldStore) CompareAndSwap(k string, o, n any, ttl time.Duration) (bool, error) {
	return f.cas.CompareAndSwap(f.fold(k, false), o, n, ttl)
}

var _ storage.Storage = (*foldStore)(nil)
var _ storage.CASStore = (*foldStore)(nil)

// ContendCase is the replayable description of a contention run.
type ContendCase struct {
	Mode   string `json:"mode"`   // contend-idgen | contend-nodealloc
	Store  string `json:"store"`  // hybrid(memory) | memory
	Kind   string `json:"kind"`   // client | node | pmap | user (idgen)
	K      int    `json:"k"`      // classes
	G      int    `json:"g"`      // concurrent generators (= nodes)
	Taken  int    `json:"taken"`  // classes pre-existing (0..K-1, the first ones)
	Rounds int    `json:"rounds"` // rounds to run
	// Sweep: before every round each class key holds an EXPIRED, not yet swept marker (a
	// leftover older than its TTL) and a sweeper calls the store's CleanupExpired (what the
	// backend's cleanup ticker does) while the generators claim. Filler = live unrelated keys
	// in the store (a sweep is a full scan: the larger the store the longer it takes).
	Sweep  bool `json:"sweep,omitempty"`
	Filler int  `json:"filler,omitempty"`
}

type contendResult struct {
	key, detail    string
	rounds         int
	exhaustedRound int // rounds in which at least one caller ran out
	fullHouse      int // rounds in which >= 2 callers succeeded (distinct ids from one contended start)
}

func buildStore(ctx context.Context, which string) (storage.Storage, error) {
	switch which {
	case "memory":
		return storage.NewMemoryStorage(ctx), nil
	case "redis", "hybrid(memory+redis)":
		// the Redis backend: miniredis behind a proxy that delays every request like a network
		// hop, so that calls of several generators on the ONE RedisStorage object overlap
		mr, err := miniredis.Run()
		if err != nil {
			return nil, err
		}
		addr, err := slowProxy(ctx, mr.Addr(), 2*time.Millisecond)
		if err != nil {
			mr.Close()
			return nil, err
		}
		go func() { <-ctx.Done(); mr.Close() }()
		rc := &storage.RedisConfig{Addr: addr, PoolSize: 32}
		if which == "redis" {
			return storage.NewRedisStorage(ctx, rc)
		}
		f := storage.NewStorageFactory(ctx)
		hc := &storage.HybridStorageConfig{CacheType: "memory", EnablePersistent: false, HybridConfig: storage.DefaultHybridConfig(), SharedCacheConfig: rc}
		hc.HybridConfig.EnablePersistent = false
		return f.CreateStorage(hc)
	}
	f := storage.NewStorageFactory(ctx)
	hc := &storage.HybridStorageConfig{CacheType: "memory", EnablePersistent: false, HybridConfig: storage.DefaultHybridConfig()}
	hc.HybridConfig.EnablePersistent = false
	return f.CreateStorage(hc)
}

// slowProxy forwards TCP to target and delays every client->server chunk (closed with ctx).
func slowProxy(ctx context.Context, target string, delay time.Duration) (string, error) {
	ln, err := net.Listen("tcp", "127.0.0.1:0")
	if err != nil {
		return "", err
	}
	go func() { <-ctx.Done(); ln.Close() }()
	go func() {
		for {
			c, err := ln.Accept()
			if err != nil {
				return
			}
			go func(c net.Conn) {
				s, err := net.Dial("tcp", target)
				if err != nil {
					c.Close()
					return
				}
				go func() { <-ctx.Done(); c.Close(); s.Close() }()
				go func() { io.Copy(c, s); c.Close() }()
				buf := make([]byte, 64*1024)
				for {
					n, err := c.Read(buf)
					if n > 0 {
						time.Sleep(delay)
						if _, werr := s.Write(buf[:n]); werr != nil {
							break
						}
					}
					if err != nil {
						break
					}
				}
				s.Close()
				c.Close()
			}(c)
		}
	}()
	return ln.Addr().String(), nil
}

// spinBarrier releases n goroutines as close to simultaneously as user space allows.
type spinBarrier struct {
	n     int32
	ready int32
}

func (b *spinBarrier) wait() {
	atomic.AddInt32(&b.ready, 1)
	for i := 0; atomic.LoadInt32(&b.ready) < b.n; i++ {
		if i%2000 == 1999 {
			runtime.Gosched()
		}
	}
}

func runContend(c ContendCase) contendResult {
	var r contendResult
	ctx, cancel := context.WithCancel(context.Background())
	defer cancel()
	st, err := buildStore(ctx, c.Store)
	if err != nil {
		return contendResult{key: "C15/harness/contend-setup-failed", detail: err.Error()}
	}
	defer st.Close()
	if c.Mode == "contend-nodealloc" {
		return runContendNodes(ctx, c, st)
	}
	cas, ok := st.(storage.CASStore)
	if !ok {
		return contendResult{key: "C15/harness/contend-setup-failed", detail: "store has no SetNX"}
	}
	fs := &foldStore{inner: st, cas: cas, k: int64(c.K), g: int64(c.G)}
	mgrs := make([]*idgen.IDManager, c.G)
	for i := range mgrs {
		mgrs[i] = idgen.NewIDManager(fs, ctx)
		defer mgrs[i].Close()
	}
	w := &world{c: Case{Mode: "idgen"}, idms: mgrs}
	taken := map[int]bool{}
	for cl := 0; cl < c.Taken && cl < c.K; cl++ {
		st.Set(classKey(c.Kind, cl), "preexisting", 0)
		taken[cl] = true
	}
	free := c.K - len(taken)
	ids := make([]string, c.G)
	errs := make([]error, c.G)
	for i := 0; i < c.Filler; i++ {
		st.Set(fmt.Sprintf("tunnox:temp:verif-filler:%d", i), i, time.Hour)
	}
	for round := 0; round < c.Rounds; round++ {
		fs.newRound(round)
		nb := c.G
		var sweeping int32
		var swg sync.WaitGroup
		if c.Sweep {
			for cl := 0; cl < c.K; cl++ {
				st.Set(classKey(c.Kind, cl), "expired-leftover", time.Nanosecond)
			}
			nb++
			atomic.StoreInt32(&sweeping, 1)
		}
		b := &spinBarrier{n: int32(nb)}
		var wg sync.WaitGroup
		wg.Add(c.G)
		for i := 0; i < c.G; i++ {
			go func(i int) {
				defer wg.Done()
				b.wait()
				ids[i], errs[i] = w.generate(i, c.Kind)
			}(i)
		}
		if c.Sweep {
			swg.Add(1)
			go func() {
				defer swg.Done()
				b.wait()
				for n := 0; n < 1 || atomic.LoadInt32(&sweeping) == 1; n++ {
					_ = st.CleanupExpired()
				}
			}()
		}
		wg.Wait()
		atomic.StoreInt32(&sweeping, 0)
		swg.Wait()
		r.rounds++
		// quiescent: oracle
		holder := map[int]string{}
		winners, failed := 0, 0
		fail := func(key, detail string) {
			r.key = key
			r.detail = fmt.Sprintf("round %d (%d generators, %d classes, %d pre-existing, kind %s, store %s): %s; results ids=%v errs=%v", round, c.G, c.K, len(taken), c.Kind, c.Store, detail, ids, errs)
		}
		for i := 0; i < c.G; i++ {
			if errs[i] != nil {
				failed++
				if !errors.Is(errs[i], idgen.ErrIDExhausted) || ids[i] != "" {
					fail("C15/contend/unclean-failure", fmt.Sprintf("generator %d: id %q err %v", i, ids[i], errs[i]))
					return r
				}
				continue
			}
			winners++
			if !wellFormed(c.Kind, ids[i]) {
				fail("C15/contend/malformed-id", ids[i])
				return r
			}
			cl, ok := fs.classOf(c.Kind, ids[i])
			if !ok {
				fail("C15/contend/returned-id-never-claimed", ids[i])
				return r
			}
			if taken[cl] {
				fail("C15/contend/preexisting-id-handed-out/concurrent-claims-of-one-key", fmt.Sprintf("generator %d got %q (class %d), taken before the round", i, ids[i], cl))
				return r
			}
			if other, dup := holder[cl]; dup {
				if c.Sweep {
					fail("C15/contend/duplicate-live-id/claims-during-concurrent-sweep", fmt.Sprintf("generators returned %q and %q, both class %d, both live: a claim succeeded although the class had just been claimed (its fresh marker vanished while CleanupExpired ran, or SetNX is not exclusive)", other, ids[i], cl))
					return r
				}
				fail("C15/contend/duplicate-live-id/concurrent-claims-of-one-key", fmt.Sprintf("generators returned %q and %q, both class %d, both live: the store's SetNX let two simultaneous claims of one absent key succeed", other, ids[i], cl))
				return r
			}
			holder[cl] = ids[i]
			if ex, _ := st.Exists(classKey(c.Kind, cl)); !ex {
				fail("C15/contend/live-id-marker-missing", fmt.Sprintf("%q (class %d) was handed out and is live, but its marker is gone from the store (IsUsed would be false, the id can be handed out again)", ids[i], cl))
				return r
			}
		}
		if winners > free {
			fail("C15/contend/no-exhaustion-error", fmt.Sprintf("%d ids handed out, only %d classes were free", winners, free))
			return r
		}
		if failed > 0 {
			r.exhaustedRound++
		}
		if winners >= 2 {
			r.fullHouse++
		}
		// a second, sequential wave: with every id of the first wave still live, further
		// generations may only get the remaining classes
		if c.Sweep {
			for j := 0; j <= c.K-winners; j++ {
				id, err := w.generate(0, c.Kind)
				if err != nil {
					if !errors.Is(err, idgen.ErrIDExhausted) {
						fail("C15/contend/unclean-failure", err.Error())
						return r
					}
					break
				}
				cl, _ := fs.classOf(c.Kind, id)
				if other, dup := holder[cl]; dup {
					fail("C15/contend/duplicate-live-id/marker-of-live-id-removed", fmt.Sprintf("%q (class %d) handed out while %q of the same class is live and unreleased", id, cl, other))
					return r
				}
				holder[cl] = id
				ids = append(ids, id)
				errs = append(errs, nil)
			}
		}
		// release everything (sequentially), markers must be gone
		for i := 0; i < len(ids); i++ {
			if errs[i] == nil {
				if err := w.release(i, c.Kind, ids[i]); err != nil {
					fail("C15/contend/release-failed", err.Error())
					return r
				}
			}
		}
		ids, errs = ids[:c.G], errs[:c.G]
		for cl := 0; cl < c.K; cl++ {
			if ex, _ := st.Exists(classKey(c.Kind, cl)); ex != taken[cl] {
				fail("C15/contend/released-id-still-marked", fmt.Sprintf("class %d marked=%v after all releases (pre-existing=%v)", cl, ex, taken[cl]))
				return r
			}
		}
	}
	return r
}

func runContendNodes(ctx context.Context, c ContendCase, st storage.Storage) contendResult {
	var r contendResult
	// slots 1..Taken are held by other nodes
	for s := 1; s <= c.Taken; s++ {
		st.Set(node.NodeIDKeyPrefix+fmt.Sprintf("node-%04d", s), "other-node", 0)
	}
	ids := make([]string, c.G)
	errs := make([]error, c.G)
	for round := 0; round < c.Rounds; round++ {
		allocs := make([]*node.NodeIDAllocator, c.G)
		for i := range allocs {
			allocs[i] = node.NewNodeIDAllocator(st)
		}
		b := &spinBarrier{n: int32(c.G)}
		var wg sync.WaitGroup
		wg.Add(c.G)
		for i := 0; i < c.G; i++ {
			go func(i int) {
				defer wg.Done()
				b.wait()
				ids[i], errs[i] = allocs[i].AllocateNodeID(ctx)
			}(i)
		}
		wg.Wait()
		r.rounds++
		seen := map[string]int{}
		for i := 0; i < c.G; i++ {
			fail := func(key, detail string) {
				r.key = key
				r.detail = fmt.Sprintf("round %d (%d allocators, slots 1..%d pre-filled, store %s): %s; results ids=%v errs=%v", round, c.G, c.Taken, c.Store, detail, ids, errs)
			}
			if errs[i] != nil {
				fail("C15/contend-nodealloc/unexpected-failure", fmt.Sprintf("allocator %d: %v (the range is far from full)", i, errs[i]))
				return r
			}
			var slot int
			if n, e := fmt.Sscanf(ids[i], "node-%04d", &slot); n != 1 || e != nil || ids[i] != fmt.Sprintf("node-%04d", slot) {
				fail("C15/contend-nodealloc/malformed-id", ids[i])
				return r
			}
			if slot <= c.Taken {
				fail("C15/contend-nodealloc/preexisting-id-handed-out/concurrent-claims-of-one-key", ids[i]+" is held by another node")
				return r
			}
			if j, dup := seen[ids[i]]; dup {
				fail("C15/contend-nodealloc/duplicate-live-id/concurrent-claims-of-one-key", fmt.Sprintf("allocators %d and %d both hold %s", j, i, ids[i]))
				return r
			}
			seen[ids[i]] = i
		}
		r.fullHouse++
		for i := 0; i < c.G; i++ {
			_ = allocs[i].Release()
		}
	}
	return r
}

func reportContend(t vkit.TB, c ContendCase, r contendResult) {
	class := c.Mode + "/" + c.Store
	sig := fmt.Sprintf("%s|%s|%s|k=%d|g=%d|taken=%d|sweep=%v", c.Mode, c.Store, c.Kind, c.K, c.G, c.Taken, c.Sweep)
	if c.Sweep {
		class += "/expired-leftovers+concurrent-sweep"
	}
	if r.key != "" {
		vkit.Violation(t, r.key, r.detail, c)
		vkit.Case("known:"+class, true, sig)
		return
	}
	vkit.Case(class, true, sig)
	vkit.AddExtra("contention_rounds", int64(r.rounds))
	vkit.AddExtra("contention_rounds_with_exhaustion", int64(r.exhaustedRound))
	vkit.AddExtra("contention_rounds_with_two_or_more_winners", int64(r.fullHouse))
	vkit.Class("contend:g=" + strconv.Itoa(c.G))
}

// TestContention: every configuration gets its share of the round budget. Configurations
// are enumerated (not drawn) so that each shard runs a known set; the scheduling of the
// goroutines is the random element.
func TestContention(t *testing.T) {
	if runtime.GOMAXPROCS(0) < 2 {
		t.Skip("needs real parallelism")
	}
	var cases []ContendCase
	for _, store := range []string{"hybrid(memory)", "memory"} {
		for ki, kind := range idKinds {
			// G callers on one class at a time; K >= G (no exhaustion), K < G (exhaustion), pre-existing classes
			cases = append(cases,
				ContendCase{Mode: "contend-idgen", Store: store, Kind: kind, K: 8, G: 8},
				ContendCase{Mode: "contend-idgen", Store: store, Kind: kind, K: 2 + ki, G: 4, Taken: 1},
				ContendCase{Mode: "contend-idgen", Store: store, Kind: kind, K: 2, G: 3 + ki%2},
			)
		}
		for ki, kind := range idKinds {
			cases = append(cases, ContendCase{Mode: "contend-idgen", Store: store, Kind: kind, K: 4 + ki, G: 4, Sweep: true, Filler: 3000})
		}
		cases = append(cases,
			ContendCase{Mode: "contend-nodealloc", Store: store, G: 8},
			ContendCase{Mode: "contend-nodealloc", Store: store, G: 4, Taken: 3},
		)
	}
	// the Redis backend (every operation is a delayed network round trip: few rounds, each
	// with all callers in flight together)
	for _, store := range []string{"redis", "hybrid(memory+redis)"} {
		for ki, kind := range idKinds {
			cases = append(cases, ContendCase{Mode: "contend-idgen", Store: store, Kind: kind, K: 4 + ki%2, G: 4, Taken: ki % 2})
		}
		cases = append(cases, ContendCase{Mode: "contend-nodealloc", Store: store, G: 4})
	}
	perCase := vkit.Pick(2500, 40000)
	for i, c := range cases {
		if !vkit.Mine(i) {
			continue
		}
		c.Rounds = perCase
		if c.K < c.G && c.Mode == "contend-idgen" {
			c.Rounds = perCase / 8 // every loser makes 100 attempts
		}
		if c.Mode == "contend-nodealloc" {
			c.Rounds = perCase / 2
		}
		if c.Sweep {
			c.Rounds = perCase / 5 // every round scans the filler keys several times
		}
		if strings.Contains(c.Store, "redis") {
			c.Rounds = vkit.Pick(60, 1500)
		}
		r := runContend(c)
		reportContend(t, c, r)
		if r.key != "" {
			return
		}
	}
}
