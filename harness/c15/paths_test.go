package c15

// Client ids across BOTH call paths. Registered clients (CloudControl.CreateClient), anonymous
// clients (GenerateAnonymousCredentials) and any other IDManager on the store draw from ONE
// 8-digit number space, so they must exclude each other whichever marker key the services
// file the numbers under. The real cloud control (mini-server assembly) runs on
// hybrid(memory) behind the collision amplifier, which folds by id SPACE (amp.go idSpace):
// with K = 2..5 classes every generation collides.

import (
	"context"
	"fmt"
	"strconv"
	"testing"

	"pgregory.net/rapid"

	"tunnox-core/internal/cloud/factories"
	"tunnox-core/internal/cloud/managers"
	"tunnox-core/internal/core/storage/hybrid"
	"tunnox-core/verif/vkit"
	"tunnox-core/verif/vkit/miniserver"
)

type PathOp struct {
	Do  string `json:"do"`  // anon | reg | gen (a second IDManager of the process) | del
	Arg int    `json:"arg"` // del: index (mod) into the live clients
}

type PathCase struct {
	K     int      `json:"k"`
	Cands []int    `json:"cands"`
	Ops   []PathOp `json:"ops"`
}

type liveClient struct {
	id   int64
	path string
	cls  int
}

func runPathCase(c PathCase) (key, detail string, stats map[string]int) {
	stats = map[string]int{}
	ctx, cancel := context.WithCancel(context.Background())
	defer cancel()
	a := newAmp(vkit.NewGateCache(nil, "cache"), c.K, false, [][]int{c.Cands})
	st := hybrid.NewWithSharedCache(ctx, a, nil, nil, hybrid.DefaultConfig())
	srv, err := miniserver.New(miniserver.Options{Storage: st, NoCommands: true, NoSecurityGate: true})
	if err != nil {
		return "C15/harness/paths-setup-failed", err.Error(), stats
	}
	defer srv.Close()
	a.bind(0)
	var live []liveClient
	hist := ""
	for i, op := range c.Ops {
		var id int64
		var gerr error
		path := op.Do
		switch op.Do {
		case "anon":
			cl, e := srv.Cloud.GenerateAnonymousCredentials()
			gerr = e
			if e == nil {
				id = cl.ID
			}
		case "reg":
			cl, e := srv.Cloud.CreateClient("", fmt.Sprintf("client-%d", i))
			gerr = e
			if e == nil {
				id = cl.ID
			}
		case "gen":
			id, gerr = srv.IDM.GenerateClientID()
		case "del":
			if len(live) == 0 {
				continue
			}
			j := ((op.Arg % len(live)) + len(live)) % len(live)
			l := live[j]
			live = append(live[:j], live[j+1:]...)
			switch l.path {
			case "anon":
				_ = srv.Cloud.DeleteAnonymousClient(l.id)
			case "reg":
				_ = srv.Cloud.DeleteClient(l.id)
			default:
				_ = srv.IDM.ReleaseClientID(l.id)
			}
			hist += fmt.Sprintf(" del(%s %d)", l.path, l.id)
			continue
		default:
			continue
		}
		if gerr != nil {
			hist += fmt.Sprintf(" %s->err", path)
			stats["generation-failed-cleanly"]++
			if len(live) < c.K {
				// scripted candidates cycle through every class: a free one is always reached
				return "C15/paths/spurious-exhaustion", fmt.Sprintf("%d of %d client ids live, %s failed: %v; history:%s", len(live), c.K, path, gerr, hist), stats
			}
			continue
		}
		sid := strconv.FormatInt(id, 10)
		cls, ok := a.lookup("client", sid)
		hist += fmt.Sprintf(" %s->%d(class %d)", path, id, cls)
		if !ok || !wellFormed("client", sid) {
			return "C15/paths/returned-id-never-claimed", fmt.Sprintf("%s returned client id %d which was never claimed in the store; history:%s", path, id, hist), stats
		}
		for _, l := range live {
			if l.cls == cls {
				mech := "one-call-path"
				if l.path != path {
					mech = "call-paths-do-not-exclude-each-other/" + l.path + "-vs-" + path
					stats["cross-path-collision-attempts"]++
				}
				return "C15/paths/duplicate-live-client-id/" + mech, fmt.Sprintf("%s returned client id %d (class %d) while client %d (class %d, obtained through %s) is live: the two paths draw from one 8-digit space but do not see each other's claims; history:%s", path, id, cls, l.id, l.cls, l.path, hist), stats
			}
		}
		live = append(live, liveClient{id, path, cls})
		stats["path:"+path]++
		if len(live) > c.K {
			return "C15/paths/no-exhaustion-error", fmt.Sprintf("%d live client ids in a space of %d; history:%s", len(live), c.K, hist), stats
		}
	}
	// every live client id is marked used in the client id space, whichever path issued it
	for _, l := range live {
		used, err := srv.IDM.IsClientIDUsed(l.id)
		if err != nil || !used {
			return "C15/paths/live-client-id-not-marked-used/issued-through-" + l.path, fmt.Sprintf("client %d was issued through %s and is live, but IsClientIDUsed = %v, %v: another generation can hand it out again; history:%s", l.id, l.path, used, err, hist), stats
		}
	}
	if len(live) >= 2 {
		paths := map[string]bool{}
		for _, l := range live {
			paths[l.path] = true
		}
		if len(paths) >= 2 {
			stats["live-ids-from-several-paths"]++
		}
	}
	return "", "", stats
}

func reportPath(t vkit.TB, c PathCase, key, detail string, stats map[string]int) {
	if key != "" {
		vkit.Violation(t, key, detail, c)
		vkit.Case("known:paths", true, fmt.Sprintf("%+v", c))
		return
	}
	vkit.Case("paths/client-id-space", stats["live-ids-from-several-paths"] > 0, fmt.Sprintf("%+v", c))
	for k, n := range stats {
		for i := 0; i < n; i++ {
			vkit.Class("paths-feat:" + k)
		}
	}
}

func TestClientIDAcrossCallPaths(t *testing.T) {
	vkit.Check(t, 1600, 40000, func(t *rapid.T) {
		c := PathCase{K: rapid.IntRange(2, 5).Draw(t, "k")}
		c.Cands = rapid.SliceOfN(rapid.IntRange(0, 2), 0, 8).Draw(t, "cands")
		n := rapid.IntRange(2, 8).Draw(t, "n")
		for i := 0; i < n; i++ {
			switch rapid.IntRange(0, 6).Draw(t, fmt.Sprintf("op%d", i)) {
			case 0, 1:
				c.Ops = append(c.Ops, PathOp{Do: "anon"})
			case 2, 3:
				c.Ops = append(c.Ops, PathOp{Do: "reg"})
			case 4:
				c.Ops = append(c.Ops, PathOp{Do: "gen"})
			default:
				c.Ops = append(c.Ops, PathOp{Do: "del", Arg: rapid.IntRange(0, 3).Draw(t, fmt.Sprintf("arg%d", i))})
			}
		}
		key, detail, stats := runPathCase(c)
		reportPath(t, c, key, detail, stats)
	})
}

func replayPath(t *testing.T, path string) {
	var c PathCase
	if _, err := vkit.LoadReplay(path, &c); err != nil {
		t.Fatal(err)
	}
	key, detail, stats := runPathCase(c)
	reportPath(t, c, key, detail, stats)
}

// ---------------------------------------------------------------------------
// Wiring of the id markers: every way the server builds its cloud-control services (the
// plain factory and the PostgreSQL-mode factory; the Pg handle itself is absent offline —
// the user-id path does not touch it) must put the services' IDManager on the SHARED server
// storage. Two nodes = two dependency sets from the same factory over one amplified store.

type WiringCase struct {
	Factory string `json:"factory"` // deps | deps-with-postgres
	K       int    `json:"k"`
	Cands   []int  `json:"cands"`
	Nodes   []int  `json:"nodes"` // node (0/1) that creates the i-th user
}

func runWiringCase(c WiringCase) (key, detail string) {
	ctx, cancel := context.WithCancel(context.Background())
	defer cancel()
	a := newAmp(vkit.NewGateCache(nil, "cache"), c.K, false, [][]int{c.Cands})
	st := hybrid.NewWithSharedCache(ctx, a, nil, nil, hybrid.DefaultConfig())
	defer st.Close()
	var deps [2]*managers.CloudControlDeps
	for i := range deps {
		if c.Factory == "deps-with-postgres" {
			deps[i] = factories.CreateBuiltinCloudControlDepsWithPostgres(st, nil, ctx)
		} else {
			deps[i] = factories.CreateBuiltinCloudControlDeps(st, ctx)
		}
	}
	a.bind(0)
	holder := map[int]string{}
	hist := ""
	for i, n := range c.Nodes {
		u, err := deps[n%2].UserService.CreateUser(fmt.Sprintf("user%d", i), fmt.Sprintf("u%d@example.com", i), 0)
		if err != nil {
			hist += fmt.Sprintf(" node%d->err", n%2+1)
			if len(holder) < c.K {
				return "C15/wiring/spurious-exhaustion", fmt.Sprintf("factory %s: %d of %d user ids live, CreateUser on node %d failed: %v; history:%s", c.Factory, len(holder), c.K, n%2+1, err, hist)
			}
			continue
		}
		cls, ok := a.lookup("user", u.ID)
		hist += fmt.Sprintf(" node%d->%s", n%2+1, u.ID)
		if !ok {
			return "C15/wiring/id-issued-without-claim-in-the-shared-store", fmt.Sprintf("factory %s: node %d issued user id %s, but no claim for it ever reached the server's shared storage: its marker is private to the process, another node (or this one after a restart) can hand the same id out; history:%s", c.Factory, n%2+1, u.ID, hist)
		}
		if other, dup := holder[cls]; dup {
			return "C15/wiring/duplicate-live-user-id-across-nodes", fmt.Sprintf("factory %s: node %d issued %s (class %d) while %s of the same class is live; history:%s", c.Factory, n%2+1, u.ID, cls, other, hist)
		}
		holder[cls] = u.ID
		if len(holder) > c.K {
			return "C15/wiring/no-exhaustion-error", hist
		}
	}
	return "", ""
}

func TestFactoryWiring(t *testing.T) {
	vkit.Check(t, 400, 8000, func(t *rapid.T) {
		c := WiringCase{Factory: rapid.SampledFrom([]string{"deps", "deps-with-postgres"}).Draw(t, "factory"), K: rapid.IntRange(2, 5).Draw(t, "k")}
		c.Cands = rapid.SliceOfN(rapid.IntRange(0, 2), 0, 6).Draw(t, "cands")
		c.Nodes = rapid.SliceOfN(rapid.IntRange(0, 1), 2, 7).Draw(t, "nodes")
		key, detail := runWiringCase(c)
		if key != "" {
			vkit.Violation(t, key, detail, c)
			vkit.Case("known:wiring/"+c.Factory, true, fmt.Sprintf("%+v", c))
			return
		}
		vkit.Case("wiring/"+c.Factory, true, fmt.Sprintf("%+v", c))
	})
}

func replayWiring(t *testing.T, path string) {
	var c WiringCase
	if _, err := vkit.LoadReplay(path, &c); err != nil {
		t.Fatal(err)
	}
	if key, detail := runWiringCase(c); key != "" {
		vkit.Violation(t, key, detail, c)
	}
}
