package c15

import (
	"testing"
	"time"
)

// TestZRenewalResult collects the scenario started by TestARenewalStart (last test of the package).
func TestZRenewalResult(t *testing.T) {
	if renewalDone == nil {
		t.Skip("not started in this shard")
	}
	select {
	case o := <-renewalDone:
		reportRenewal(t, o)
	case <-time.After(120 * time.Second):
		t.Skip("renewal scenario did not finish")
	}
}
