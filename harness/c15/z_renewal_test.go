package c15

import (
	"testing"
	"time"
)

// TestZRenewalResult collects the scenario started by TestARenewalStart (last test of the package).
func TestZRenewalResult(t *testing.T) {
	if renewalDone == nil {
		t.Skip("not started in this shard")
	}
	deadline := time.After(150 * time.Second)
	for range renewalVias {
		select {
		case o := <-renewalDone:
			reportRenewal(t, o)
		case <-deadline:
			t.Skip("renewal scenario did not finish")
		}
	}
}
