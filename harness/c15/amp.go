package c15

import (
	"bytes"
	"errors"
	"hash/fnv"
	"runtime"
	"strconv"
	"strings"
	"sync"
	"time"

	"tunnox-core/verif/vkit"
)

// amp is the collision-amplifying layer: a vkit.GateCache (real memory backend, every
// operation parks on the gate) whose key space for `tunnox:id:used:<kind>:<id>` markers is
// folded onto K classes per kind. From the generator's point of view the id space of a
// kind has K ids, so every generation contends.
//
// The class of an id is a function of the id (memoised at first sight, so Release/IsUsed of
// an id always hit the class its SetNX hit). Two ways to pick the class of a fresh id:
//   - scripted (default): the n-th fresh candidate presented by task t gets Cands[t][n]
//     (then n mod K): the collision pattern is part of the generated case, the run is a
//     deterministic function of (case, pick sequence) although the candidates themselves
//     come from crypto/rand — needed for DFS re-execution, shrinking and replay;
//   - hashed: fnv(id) mod K — the literal "hash mod K" fold; candidates are crypto-random
//     so the collision pattern is random too (invariant checks only).
//
// Pre-filled node-allocator slots (`tunnox:node:allocated:node-NNNN` keys written before
// the run and never released) are served without parking: an operation on a key that no
// task ever changes commutes with every other operation, so scheduling it is pointless
// (AllocateNodeID scans ~1000 of them).
type amp struct {
	*vkit.GateCache
	K      int
	Hashed bool
	// LostAnswer: an injected fault on a write is "applied, but the answer was lost" (the
	// classic timeout of a networked store): the operation is performed and an error returned.
	// Otherwise the faulted operation is not performed.
	LostAnswer bool

	mu      sync.Mutex
	memo    map[string]int // "<kind>:<id>" -> class
	bound   map[int64]int  // goroutine id -> task index
	scripts [][]int
	pos     []int        // fresh candidates seen per task
	fault   map[int]bool // task -> its last store operation was an injected fault
	fast    map[string]bool
	FastOps int64
}

const usedPrefix = "tunnox:id:used:"
const nodeSlotPrefix = "tunnox:node:allocated:"

func newAmp(gc *vkit.GateCache, k int, hashed bool, scripts [][]int) *amp {
	return &amp{GateCache: gc, K: k, Hashed: hashed, memo: map[string]int{}, bound: map[int64]int{},
		scripts: scripts, pos: make([]int, len(scripts)+1), fault: map[int]bool{}, fast: map[string]bool{}}
}

func goid() int64 {
	var buf [64]byte
	n := runtime.Stack(buf[:], false)
	b := buf[:n]
	b = b[len("goroutine "):]
	i := bytes.IndexByte(b, ' ')
	id, _ := strconv.ParseInt(string(b[:i]), 10, 64)
	return id
}

// bind declares the calling goroutine to be task ti (scripts are per task).
func (a *amp) bind(ti int) {
	a.mu.Lock()
	a.bound[goid()] = ti
	for len(a.pos) <= ti {
		a.pos = append(a.pos, 0)
	}
	a.mu.Unlock()
}

func (a *amp) task() int {
	if t, ok := a.bound[goid()]; ok {
		return t
	}
	return -1
}

func hashClass(s string, k int) int {
	h := fnv.New32a()
	h.Write([]byte(s))
	return int(h.Sum32() % uint32(k))
}

// idSpace: the id space a marker belongs to. The class of an id is a function of the id
// within its SPACE, not of the marker's key prefix: every 8-digit number in the ClientID
// range is a client id whatever key prefix ("kind") the marker is filed under, so two
// generators that file the same numbers under different prefixes still draw from one space
// and must exclude each other.
func idSpace(kind, id string) string {
	if v, err := strconv.ParseInt(id, 10, 64); err == nil && v >= 10000000 && v <= 99999999 {
		return "client"
	}
	return kind
}

// classOf returns (and fixes at first sight) the class of an id of a kind.
func (a *amp) classOf(kind, id string) int {
	a.mu.Lock()
	defer a.mu.Unlock()
	mk := idSpace(kind, id) + ":" + id
	if c, ok := a.memo[mk]; ok {
		return c
	}
	c := hashClass(mk, a.K)
	if t := a.task(); t >= 0 {
		n := a.pos[t]
		a.pos[t]++
		if a.Hashed {
			// keep the hash
		} else if t < len(a.scripts) && n < len(a.scripts[t]) {
			c = ((a.scripts[t][n] % a.K) + a.K) % a.K
		} else {
			c = n % a.K
		}
	}
	a.memo[mk] = c
	return c
}

// lookup reports the class of an id that has already been presented to the store.
func (a *amp) lookup(kind, id string) (int, bool) {
	a.mu.Lock()
	defer a.mu.Unlock()
	c, ok := a.memo[idSpace(kind, id)+":"+id]
	return c, ok
}

// candidates is the number of fresh candidates task t has presented so far.
func (a *amp) candidates(t int) int {
	a.mu.Lock()
	defer a.mu.Unlock()
	if t < len(a.pos) {
		return a.pos[t]
	}
	return 0
}

func (a *amp) lastFaulted(t int) bool {
	a.mu.Lock()
	defer a.mu.Unlock()
	return a.fault[t]
}

func classKey(kind string, c int) string { return usedPrefix + kind + ":class" + strconv.Itoa(c) }

// xl folds a key. fast = serve without parking.
func (a *amp) xl(key string) (string, bool) {
	if strings.HasPrefix(key, usedPrefix) {
		rest := key[len(usedPrefix):]
		i := strings.IndexByte(rest, ':')
		if i < 0 {
			return key, false
		}
		return classKey(rest[:i], a.classOf(rest[:i], rest[i+1:])), false
	}
	if strings.HasPrefix(key, nodeSlotPrefix) {
		a.mu.Lock()
		f := a.fast[key]
		if f {
			a.FastOps++
		}
		a.mu.Unlock()
		return key, f
	}
	return key, false
}

func (a *amp) note(err error) {
	a.mu.Lock()
	if t := a.task(); t >= 0 {
		a.fault[t] = errors.Is(err, vkit.ErrGateFault)
	}
	a.mu.Unlock()
}

func (a *amp) Set(key string, value any, ttl time.Duration) error {
	k, fast := a.xl(key)
	if fast {
		return a.GateCache.Storage.Set(k, value, ttl)
	}
	err := a.GateCache.Set(k, value, ttl)
	if a.LostAnswer && errors.Is(err, vkit.ErrGateFault) {
		a.GateCache.Storage.Set(k, value, ttl)
	}
	a.note(err)
	return err
}

func (a *amp) Get(key string) (any, error) {
	k, fast := a.xl(key)
	if fast {
		return a.GateCache.Storage.Get(k)
	}
	v, err := a.GateCache.Get(k)
	a.note(err)
	return v, err
}

func (a *amp) Delete(key string) error {
	k, fast := a.xl(key)
	if fast {
		return a.GateCache.Storage.Delete(k)
	}
	err := a.GateCache.Delete(k)
	if a.LostAnswer && errors.Is(err, vkit.ErrGateFault) {
		a.GateCache.Storage.Delete(k)
	}
	a.note(err)
	return err
}

func (a *amp) Exists(key string) (bool, error) {
	k, fast := a.xl(key)
	if fast {
		return a.GateCache.Storage.Exists(k)
	}
	ok, err := a.GateCache.Exists(k)
	a.note(err)
	return ok, err
}

func (a *amp) SetNX(key string, value any, ttl time.Duration) (bool, error) {
	k, fast := a.xl(key)
	if fast {
		return a.GateCache.Storage.SetNX(k, value, ttl)
	}
	ok, err := a.GateCache.SetNX(k, value, ttl)
	if a.LostAnswer && errors.Is(err, vkit.ErrGateFault) {
		a.GateCache.Storage.SetNX(k, value, ttl)
	}
	a.note(err)
	return ok, err
}
