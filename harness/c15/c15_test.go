// C15 — generated identifiers are unique among live identifiers.
//
// Gate-scheduler exploration of idgen.IDManager / StorageIDGenerator and
// node.NodeIDAllocator over the stores the server can construct (hybrid facade over the
// memory backend, with and without a shared tier), behind a collision-amplifying fold of
// the marker key space (see amp.go).
package c15

import (
	"context"
	"errors"
	"fmt"
	"sort"
	"strconv"
	"strings"
	"sync"
	"testing"
	"time"

	"pgregory.net/rapid"

	"tunnox-core/internal/core/idgen"
	"tunnox-core/internal/core/node"
	"tunnox-core/internal/core/storage"
	"tunnox-core/internal/core/storage/hybrid"
	stypes "tunnox-core/internal/core/storage/types"
	"tunnox-core/verif/vkit"
)

func TestMain(m *testing.M) { vkit.Main(m, "C15") }

// stall: how long the scheduler waits for a task that is neither parked nor finished before
// it goes on without it. The code under test holds no lock across store operations, so the
// wait only matters (a) on a starved machine and (b) for mutants that do block. Exhaustive
// enumeration needs the same tree on every re-execution and waits long; random schedules
// only need a valid execution and move on quickly.
var stall = 60 * time.Millisecond

// ---------------------------------------------------------------------------
// case

type Op struct {
	Do  string `json:"do"`  // gen | rel | genu (GenerateUnique*: generate + caller's check function, Arg = what the check answers)
	Arg int    `json:"arg"` // rel: index (mod) into the ids this task holds; no-op when it holds none
}

type Task struct {
	Node  int    `json:"node"` // node (IDManager / allocator owner) the task runs on
	Kind  string `json:"kind"` // client | node | pmap | user | nodeslot
	Ops   []Op   `json:"ops"`
	Cands []int  `json:"cands"` // class of the n-th fresh candidate this task presents (then n mod K)
}

type Seeded struct {
	Kind  string `json:"kind"`
	Class int    `json:"class"`
}

type Case struct {
	Mode    string   `json:"mode"`        // idgen | hashed | fallback | nodealloc
	K       int      `json:"k"`           // classes per kind (nodealloc: unused)
	Shared  bool     `json:"shared_tier"` // true: one hybrid per node (own local cache) over one shared tier; false: every node on one hybrid store
	Nodes   int      `json:"nodes"`
	Tasks   []Task   `json:"tasks"`
	Preseed []Seeded `json:"preseed"`    // classes already taken before the run
	Free    []int    `json:"free_slots"` // nodealloc: the slots of 1..1000 that are NOT pre-filled
	Picks   []int    `json:"picks"`
	FailAt  int      `json:"fail_at"`               // -1: no injected store fault
	FailOp  string   `json:"fail_op,omitempty"`     // "": any store operation; else only this one (Delete, SetNX, ...) counts for fail_at
	Lost    bool     `json:"lost_answer,omitempty"` // the faulted write is applied but reports an error (else: not applied)
	Probe   bool     `json:"probe"`                 // after the schedule: generate sequentially until the kind is exhausted
}

var idKinds = []string{"client", "node", "pmap", "user"}

// ---------------------------------------------------------------------------
// store without SetNX (the generator's non-atomic fallback path)

type noCAS struct{ s storage.Storage }

func (n noCAS) Set(k string, v any, ttl time.Duration) error    { return n.s.Set(k, v, ttl) }
func (n noCAS) Get(k string) (any, error)                       { return n.s.Get(k) }
func (n noCAS) Delete(k string) error                           { return n.s.Delete(k) }
func (n noCAS) Exists(k string) (bool, error)                   { return n.s.Exists(k) }
func (n noCAS) SetExpiration(k string, ttl time.Duration) error { return n.s.SetExpiration(k, ttl) }
func (n noCAS) GetExpiration(k string) (time.Duration, error)   { return n.s.GetExpiration(k) }
func (n noCAS) CleanupExpired() error                           { return n.s.CleanupExpired() }
func (n noCAS) Close() error                                    { return nil }

var _ storage.Storage = noCAS{}

// ---------------------------------------------------------------------------
// world

type world struct {
	c      Case
	wg     sync.WaitGroup // task goroutines: all must have returned before the stores are closed
	g      *vkit.Gate
	amp    *amp
	hs     []*hybrid.Storage
	idms   []*idgen.IDManager
	fbGen  *idgen.StorageIDGenerator[int64] // fallback mode: the single generator instance
	ctx    context.Context
	cancel context.CancelFunc
	m      *model
}

func newWorld(c Case) *world {
	w := &world{c: c, g: vkit.NewGate()}
	w.ctx, w.cancel = context.WithCancel(context.Background())
	scripts := make([][]int, len(c.Tasks))
	for i, t := range c.Tasks {
		scripts[i] = t.Cands
	}
	k := c.K
	if k < 1 {
		k = 1
	}
	tier := "cache"
	if c.Shared {
		tier = "shared"
	}
	w.amp = newAmp(vkit.NewGateCache(w.g, tier), k, c.Mode == "hashed", scripts)
	nodes := c.Nodes
	if nodes < 1 {
		nodes = 1
	}
	if c.Shared {
		for i := 0; i < nodes; i++ {
			local := vkit.NewGateCache(w.g, fmt.Sprintf("local%d", i))
			w.hs = append(w.hs, hybrid.NewWithSharedCache(w.ctx, local, w.amp, nil, hybrid.DefaultConfig()))
		}
	} else {
		w.hs = append(w.hs, hybrid.NewWithSharedCache(w.ctx, w.amp, nil, nil, hybrid.DefaultConfig()))
	}
	if c.Mode == "fallback" {
		w.fbGen = idgen.NewStorageIDGenerator[int64](noCAS{w.hs[0]}, "", "tunnox:id:used:client", w.ctx)
	} else if c.Mode != "nodealloc" {
		for i := 0; i < nodes; i++ {
			w.idms = append(w.idms, idgen.NewIDManager(w.store(i), w.ctx))
		}
	}
	w.m = newModel(w)
	return w
}

func (w *world) store(nodeIdx int) *hybrid.Storage {
	if len(w.hs) == 1 {
		return w.hs[0]
	}
	return w.hs[((nodeIdx%len(w.hs))+len(w.hs))%len(w.hs)]
}

func (w *world) idm(nodeIdx int) *idgen.IDManager {
	return w.idms[((nodeIdx%len(w.idms))+len(w.idms))%len(w.idms)]
}

// drained waits (gate open) until every task goroutine has returned.
func (w *world) drained(d time.Duration) bool {
	w.g.Deactivate()
	done := make(chan struct{})
	go func() { w.wg.Wait(); close(done) }()
	select {
	case <-done:
		return true
	case <-time.After(d):
		return false
	}
}

// aborted classifies an aborted schedule: more steps than any terminating program can
// take = the code under test does not terminate (reported); otherwise the scheduler gave up
// because a task made no progress for seconds on a starved machine (case skipped).
func (w *world) aborted(r *result, log []vkit.Step) {
	fin := w.drained(60 * time.Second)
	if len(log) >= w.g.MaxSteps || !fin {
		r.key, r.detail = "C15/harness/schedule-aborted", fmt.Sprintf("steps=%d tasks finished=%v; %s", len(log), fin, vkit.StepsString(tail(log, 30)))
		return
	}
	r.skipped = true
}

func (w *world) close() {
	w.drained(60 * time.Second)
	w.cancel()
	for _, m := range w.idms {
		m.Close()
	}
	if w.fbGen != nil {
		w.fbGen.Close()
	}
	for _, h := range w.hs {
		h.Close()
	}
	w.amp.GateCache.Storage.Close()
}

func (w *world) generate(nodeIdx int, kind string) (string, error) {
	if w.fbGen != nil {
		v, err := w.fbGen.Generate()
		if err != nil {
			return "", err
		}
		return strconv.FormatInt(v, 10), nil
	}
	m := w.idm(nodeIdx)
	switch kind {
	case "client":
		v, err := m.GenerateClientID()
		if err != nil {
			return "", err
		}
		return strconv.FormatInt(v, 10), nil
	case "node":
		return m.GenerateNodeID()
	case "pmap":
		return m.GeneratePortMappingID()
	default:
		return m.GenerateUserID()
	}
}

// checkScripts: what the caller's existence check (a repository lookup in the services)
// answers for the successive candidates of one GenerateUnique* call.
var checkScripts = [][]string{
	{"free"},
	{"error"}, // repository unavailable: the helper documents "assume free, use this id"
	{"exists", "free"},
	{"exists", "error"},
	{"exists", "exists", "free"},
}

// generateUnique drives IDManager.GenerateUnique{Client,PortMapping,Node}ID with a scripted
// check function; how = the answer that made the helper accept the returned id.
func (w *world) generateUnique(nodeIdx int, kind string, script int) (id string, err error, how string) {
	if w.fbGen != nil || kind == "user" {
		id, err = w.generate(nodeIdx, kind)
		return id, err, "no-check"
	}
	sc := checkScripts[((script%len(checkScripts))+len(checkScripts))%len(checkScripts)]
	n := 0
	answer := func() (bool, error) {
		a := "free"
		if n < len(sc) {
			a = sc[n]
		}
		n++
		how = "check-said-" + a
		switch a {
		case "exists":
			return true, nil
		case "error":
			return false, errors.New("verif: repository unavailable")
		}
		return false, nil
	}
	m := w.idm(nodeIdx)
	switch kind {
	case "client":
		v, e := m.GenerateUniqueClientID(func(int64) (bool, error) { return answer() })
		if e != nil {
			return "", e, how
		}
		return strconv.FormatInt(v, 10), nil, how
	case "node":
		id, err = m.GenerateUniqueNodeID(func(string) (bool, error) { return answer() })
	default:
		id, err = m.GenerateUniquePortMappingID(func(string) (bool, error) { return answer() })
	}
	return id, err, how
}

func (w *world) release(nodeIdx int, kind, id string) error {
	if w.fbGen != nil {
		v, _ := strconv.ParseInt(id, 10, 64)
		return w.fbGen.Release(v)
	}
	m := w.idm(nodeIdx)
	switch kind {
	case "client":
		v, _ := strconv.ParseInt(id, 10, 64)
		return m.ReleaseClientID(v)
	case "node":
		return m.ReleaseNodeID(id)
	case "pmap":
		return m.ReleasePortMappingID(id)
	default:
		return m.ReleaseUserID(id)
	}
}

func wellFormed(kind, id string) bool {
	switch kind {
	case "client":
		v, err := strconv.ParseInt(id, 10, 64)
		return err == nil && v >= idgen.ClientIDMin && v <= idgen.ClientIDMax
	case "node":
		return strings.HasPrefix(id, idgen.PrefixNodeID) && len(id) == len(idgen.PrefixNodeID)+idgen.RandomPartLength
	case "pmap":
		return strings.HasPrefix(id, idgen.PrefixPortMappingID) && len(id) == len(idgen.PrefixPortMappingID)+idgen.RandomPartLength
	case "user":
		return strings.HasPrefix(id, idgen.PrefixUserID) && len(id) == len(idgen.PrefixUserID)+idgen.RandomPartLength
	}
	return true
}

// ---------------------------------------------------------------------------
// model / oracle

type model struct {
	w       *world
	mu      sync.Mutex
	live    map[string]map[int]string // kind -> class -> id held (returned, release not yet started)
	taken   map[string]map[int]bool   // kind -> class pre-existing
	key     string
	detail  string
	gens    int
	exhaust int
	rels    int
	gated   bool              // exhaustion observed while tasks were scheduled (not in the probe)
	origin  map[string]string // "<kind>:<id>" -> check answer that made GenerateUnique* accept it
}

func newModel(w *world) *model {
	return &model{w: w, live: map[string]map[int]string{}, taken: map[string]map[int]bool{}}
}

// noteOrigin remembers which check answer made a GenerateUnique* call accept an id.
func (m *model) noteOrigin(kind, id, how string) {
	m.mu.Lock()
	if m.origin == nil {
		m.origin = map[string]string{}
	}
	m.origin[kind+":"+id] = how
	m.mu.Unlock()
}

func (m *model) fail(key, detail string) {
	if m.key == "" {
		m.key, m.detail = key, detail
	}
}

func (m *model) failed() bool { m.mu.Lock(); defer m.mu.Unlock(); return m.key != "" }

// claimShape names how the returned id was (supposedly) claimed, so that different root
// causes of the same symptom get different keys.
func (m *model) claimShape(ti, candBefore int) string {
	a := m.w.amp
	switch {
	case a.lastFaulted(ti):
		return "after-store-error"
	case a.candidates(ti)-candBefore >= idgen.MaxAttempts:
		return "on-exhaustion"
	case m.w.c.Mode == "fallback":
		return "exists-then-set-fallback"
	}
	return "claim-not-exclusive"
}

func (m *model) onGen(ti int, kind, id string, err error, candBefore int) {
	m.mu.Lock()
	defer m.mu.Unlock()
	mode := m.w.c.Mode
	if err != nil {
		if !errors.Is(err, idgen.ErrIDExhausted) {
			m.fail("C15/"+mode+"/unclean-failure", fmt.Sprintf("task %d Generate(%s) failed with %v (want ErrIDExhausted)", ti, kind, err))
		}
		if id != "" {
			m.fail("C15/"+mode+"/id-returned-with-error", fmt.Sprintf("task %d Generate(%s) = %q with error %v", ti, kind, id, err))
		}
		m.exhaust++
		return
	}
	m.gens++
	if !wellFormed(kind, id) {
		m.fail("C15/"+mode+"/malformed-id", fmt.Sprintf("task %d Generate(%s) = %q", ti, kind, id))
		return
	}
	c, ok := m.w.amp.lookup(kind, id)
	if !ok {
		m.fail("C15/"+mode+"/returned-id-never-claimed", fmt.Sprintf("task %d Generate(%s) = %q: no claim for it ever reached the store", ti, kind, id))
		return
	}
	shape := m.claimShape(ti, candBefore)
	if m.taken[kind][c] {
		m.fail("C15/"+mode+"/preexisting-id-handed-out/"+shape, fmt.Sprintf("task %d Generate(%s) = %q (class %d), which was taken before the run", ti, kind, id, c))
		return
	}
	if other, dup := m.live[kind][c]; dup {
		m.fail("C15/"+mode+"/duplicate-live-id/"+shape, fmt.Sprintf("task %d Generate(%s) = %q (class %d) while %q of the same class is live and unreleased", ti, kind, id, c, other))
		return
	}
	if m.live[kind] == nil {
		m.live[kind] = map[int]string{}
	}
	m.live[kind][c] = id
}

func (m *model) onRelStart(kind, id string) {
	m.mu.Lock()
	defer m.mu.Unlock()
	m.rels++
	if c, ok := m.w.amp.lookup(kind, id); ok && m.live[kind][c] == id {
		delete(m.live[kind], c)
	}
}

// markerOf reads the store's own view (ungated).
func (m *model) marker(kind string, c int) bool {
	var key string
	if kind == "nodeslot" {
		key = node.NodeIDKeyPrefix + fmt.Sprintf("node-%04d", c)
	} else {
		key = classKey(kind, c)
	}
	ok, _ := m.w.amp.GateCache.Storage.Exists(key)
	return ok
}

// checkQuiescent: every live id still has its marker in the store (else it can be handed
// out again). Called at every choice point and at the end.
func (m *model) checkQuiescent(where string) {
	m.mu.Lock()
	defer m.mu.Unlock()
	kinds := make([]string, 0, len(m.live))
	for k := range m.live {
		kinds = append(kinds, k)
	}
	sort.Strings(kinds)
	for _, kind := range kinds {
		cs := make([]int, 0, len(m.live[kind]))
		for c := range m.live[kind] {
			cs = append(cs, c)
		}
		sort.Ints(cs)
		for _, c := range cs {
			if !m.marker(kind, c) {
				key := "C15/" + m.w.c.Mode + "/live-id-marker-missing"
				extra := ""
				if how := m.origin[kind+":"+m.live[kind][c]]; how != "" {
					// root cause class: the id came out of a GenerateUnique* helper
					key += "/returned-by-generate-unique/" + how
					extra = fmt.Sprintf(" (returned by GenerateUnique after the caller's %s: IsUsed is false for an id that was just handed out, the next generation can draw it again)", how)
				}
				m.fail(key, fmt.Sprintf("%s: live %s id %q (class %d) has no marker in the store%s", where, kind, m.live[kind][c], c, extra))
			}
		}
	}
}

// checkFinal: at the end (no injected fault) the store's markers are exactly the live
// and the pre-existing ids: a released id is claimable again.
func (m *model) checkFinal(kinds []string, classes func(kind string) []int) {
	m.checkQuiescent("end")
	m.mu.Lock()
	defer m.mu.Unlock()
	for _, kind := range kinds {
		for _, c := range classes(kind) {
			_, isLive := m.live[kind][c]
			if m.marker(kind, c) && !isLive && !m.taken[kind][c] {
				m.fail("C15/"+m.w.c.Mode+"/released-id-still-marked", fmt.Sprintf("%s class %d is marked used but no live or pre-existing id holds it", kind, c))
			}
		}
	}
}

// ---------------------------------------------------------------------------
// running a case

type result struct {
	key, detail string
	log         []vkit.Step
	contended   bool // two tasks were parked on a claim of the same class at one choice point
	exhausted   bool // a scheduled Generate / Allocate ran out
	faulted     bool
	gens, rels  int
	probeGens   int
	skipped     bool
}

func sameClaimParked(desc []string) bool {
	seen := map[string]bool{}
	for _, d := range desc {
		i := strings.IndexByte(d, ':')
		if i < 0 {
			continue
		}
		op := d[i+1:]
		if !strings.Contains(op, ".SetNX(") && !strings.Contains(op, ".Exists(") {
			continue
		}
		j := strings.IndexByte(op, '(')
		if seen[op[j:]] {
			return true
		}
		seen[op[j:]] = true
	}
	return false
}

func runCase(c Case, choose func(int, []string) int) result {
	if c.Mode == "nodealloc" {
		return runNodeAlloc(c, choose)
	}
	w := newWorld(c)
	defer w.close()
	raw := w.amp.GateCache.Storage
	for _, s := range c.Preseed {
		cl := ((s.Class % w.amp.K) + w.amp.K) % w.amp.K
		raw.Set(classKey(s.Kind, cl), "preexisting", 0)
		if w.m.taken[s.Kind] == nil {
			w.m.taken[s.Kind] = map[int]bool{}
		}
		w.m.taken[s.Kind][cl] = true
	}
	totalGens := 0
	for _, t := range c.Tasks {
		for _, o := range t.Ops {
			if o.Do == "gen" || o.Do == "genu" {
				totalGens += 1 + 2*btoi(o.Do == "genu")
			}
		}
	}
	w.g.MaxSteps = 2*idgen.MaxAttempts*totalGens + 200
	w.g.Stall = stall // no lock is held across store operations on the SetNX path: never wait-stall on a slow task
	if c.Mode == "fallback" {
		w.g.Stall = 3 * time.Millisecond // the fallback holds a local mutex across two store operations
	}
	w.g.FailAt = c.FailAt
	w.amp.LostAnswer = c.Lost
	if c.FailOp != "" {
		w.g.FailFilter = func(s vkit.Step, _ bool) bool { return strings.HasSuffix(s.Op, "."+c.FailOp) }
	}
	w.g.Activate()
	for i := range c.Tasks {
		ti, t := i, c.Tasks[i]
		w.wg.Add(1)
		w.g.Go(fmt.Sprintf("T%d", ti+1), func() {
			defer w.wg.Done()
			w.amp.bind(ti)
			var held []string
			for _, op := range t.Ops {
				if w.m.failed() {
					return
				}
				switch op.Do {
				case "gen":
					before := w.amp.candidates(ti)
					id, err := w.generate(t.Node, t.Kind)
					w.m.onGen(ti, t.Kind, id, err, before)
					if err == nil {
						held = append(held, id)
					}
				case "genu":
					before := w.amp.candidates(ti)
					id, err, how := w.generateUnique(t.Node, t.Kind, op.Arg)
					if err != nil {
						id, err = "", idgen.ErrIDExhausted // any clean failure (the helpers wrap the cause)
					} else {
						w.m.noteOrigin(t.Kind, id, how)
					}
					w.m.onGen(ti, t.Kind, id, err, before)
					if err == nil {
						held = append(held, id)
					}
				case "rel":
					if len(held) == 0 {
						continue
					}
					i := ((op.Arg % len(held)) + len(held)) % len(held)
					id := held[i]
					held = append(held[:i], held[i+1:]...)
					w.m.onRelStart(t.Kind, id)
					_ = w.release(t.Node, t.Kind, id) // a failed release leaves the marker: the id stays unavailable, never duplicated
				}
			}
		})
	}
	r := result{}
	log := w.g.Run(func(n int, desc []string) int {
		if sameClaimParked(desc) {
			r.contended = true
		}
		w.m.checkQuiescent("choice point")
		return choose(n, desc)
	})
	w.g.Deactivate()
	r.log = log
	for _, s := range log {
		if s.Failed {
			r.faulted = true
		}
	}
	if w.g.Aborted {
		w.aborted(&r, log)
		return r
	}
	w.drained(60 * time.Second)
	kindSet := map[string]bool{}
	for _, t := range c.Tasks {
		kindSet[t.Kind] = true
	}
	for _, s := range c.Preseed {
		kindSet[s.Kind] = true
	}
	var kinds []string
	for k := range kindSet {
		kinds = append(kinds, k)
	}
	sort.Strings(kinds)
	all := func(string) []int {
		out := make([]int, w.amp.K)
		for i := range out {
			out[i] = i
		}
		return out
	}
	if !r.faulted {
		w.m.checkFinal(kinds, all)
	} else {
		w.m.checkQuiescent("end")
	}
	r.exhausted = w.m.exhaust > 0
	if c.Mode != "fallback" && w.g.Stalls > 0 {
		vkit.AddExtra("unexpected_stalls", int64(w.g.Stalls))
	}
	// Sequential exhaustion probe: keep generating until the kind is full; every id handed
	// out must be of a free class, and once all K classes are held Generate must fail with
	// ErrIDExhausted (not an id, not a hang).
	if c.Probe && !w.m.failed() && !r.faulted && len(c.Tasks) > 0 {
		pt := len(c.Tasks)
		w.amp.bind(pt)
		kind := c.Tasks[0].Kind
		for i := 0; i <= w.amp.K; i++ {
			held := len(w.m.live[kind]) + len(w.m.taken[kind])
			before := w.amp.candidates(pt)
			id, err := w.generate(0, kind)
			w.m.onGen(pt, kind, id, err, before)
			if err == nil {
				r.probeGens++
			}
			if held >= w.amp.K && err == nil {
				w.m.fail("C15/"+c.Mode+"/no-exhaustion-error", fmt.Sprintf("all %d %s ids held, Generate still returned %q", w.amp.K, kind, id))
			}
			if err != nil {
				if held < w.amp.K {
					// scripted classes cycle through all K classes after the script, so a free class is always reached
					w.m.fail("C15/"+c.Mode+"/spurious-exhaustion", fmt.Sprintf("%d of %d %s ids held, Generate failed: %v", held, w.amp.K, kind, err))
				}
				break
			}
		}
		w.m.checkQuiescent("probe")
	}
	r.key, r.detail = w.m.key, w.m.detail
	if r.key != "" {
		r.detail += "; schedule: " + vkit.StepsString(tail(log, 60))
	}
	r.gens, r.rels = w.m.gens, w.m.rels
	return r
}

func countGens(ops []Op) int {
	n := 0
	for _, o := range ops {
		if o.Do == "gen" || o.Do == "genu" {
			n++
		}
	}
	return n
}

func hasRel(ops []Op) bool {
	for _, o := range ops {
		if o.Do == "rel" {
			return true
		}
	}
	return false
}

func btoi(b bool) int {
	if b {
		return 1
	}
	return 0
}

func tail(l []vkit.Step, n int) []vkit.Step {
	if len(l) > n {
		return l[len(l)-n:]
	}
	return l
}

// ---------------------------------------------------------------------------
// node id allocator

func runNodeAlloc(c Case, choose func(int, []string) int) result {
	w := newWorld(c)
	defer w.close()
	raw := w.amp.GateCache.Storage
	free := map[int]bool{}
	for _, s := range c.Free {
		if s >= node.NodeIDMin && s <= node.NodeIDMax {
			free[s] = true
		}
	}
	w.m.taken["nodeslot"] = map[int]bool{}
	for s := node.NodeIDMin; s <= node.NodeIDMax; s++ {
		if !free[s] {
			key := node.NodeIDKeyPrefix + fmt.Sprintf("node-%04d", s)
			raw.Set(key, "other-node", 0) // written through the store, never released during the run
			w.amp.fast[key] = true
			w.m.taken["nodeslot"][s] = true
		}
	}
	w.g.MaxSteps = 4000
	w.g.Stall = stall
	w.g.FailAt = c.FailAt
	w.amp.LostAnswer = c.Lost
	if c.FailOp != "" {
		w.g.FailFilter = func(s vkit.Step, _ bool) bool { return strings.HasSuffix(s.Op, "."+c.FailOp) }
	}
	w.g.Activate()
	for i := range c.Tasks {
		ti, t := i, c.Tasks[i]
		w.wg.Add(1)
		w.g.Go(fmt.Sprintf("T%d", ti+1), func() {
			defer w.wg.Done()
			w.amp.bind(ti)
			type heldT struct {
				a    *node.NodeIDAllocator
				slot int
			}
			var held []heldT
			for _, op := range t.Ops {
				if w.m.failed() {
					return
				}
				switch op.Do {
				case "gen", "genu":
					a := node.NewNodeIDAllocator(w.store(t.Node))
					id, err := a.AllocateNodeID(w.ctx)
					slot := w.m.onAlloc(ti, id, err)
					if err == nil && slot > 0 {
						held = append(held, heldT{a, slot})
					}
					if err != nil {
						// a start-up that failed to obtain a node id cleans up with Release();
						// that must not touch the locks of the nodes that do hold ids
						_ = a.Release()
						w.m.checkForeignLocks(ti)
					}
				case "rel":
					if len(held) == 0 {
						continue
					}
					i := ((op.Arg % len(held)) + len(held)) % len(held)
					h := held[i]
					held = append(held[:i], held[i+1:]...)
					w.m.onSlotRelStart(h.slot)
					_ = h.a.Release()
				}
			}
		})
	}
	r := result{}
	log := w.g.Run(func(n int, desc []string) int {
		if sameClaimParked(desc) {
			r.contended = true
		}
		w.m.checkQuiescent("choice point")
		return choose(n, desc)
	})
	w.g.Deactivate()
	r.log = log
	for _, s := range log {
		if s.Failed {
			r.faulted = true
		}
	}
	if w.g.Aborted {
		w.aborted(&r, log)
		return r
	}
	w.drained(60 * time.Second)
	slots := func(string) []int {
		var out []int
		for s := range free {
			out = append(out, s)
		}
		sort.Ints(out)
		return out
	}
	if !r.faulted {
		w.m.checkFinal([]string{"nodeslot"}, slots)
	} else {
		w.m.checkQuiescent("end")
	}
	r.exhausted = w.m.exhaust > 0
	vkit.AddExtra("nodealloc_prefilled_slot_ops_not_scheduled", w.amp.FastOps)
	r.key, r.detail = w.m.key, w.m.detail
	if r.key != "" {
		r.detail += "; schedule: " + vkit.StepsString(tail(log, 60))
	}
	r.gens, r.rels = w.m.gens, w.m.rels
	return r
}

func (m *model) onAlloc(ti int, id string, err error) int {
	m.mu.Lock()
	defer m.mu.Unlock()
	if err != nil {
		if id != "" {
			m.fail("C15/nodealloc/id-returned-with-error", fmt.Sprintf("task %d AllocateNodeID = %q with error %v", ti, id, err))
		}
		m.exhaust++
		return 0
	}
	m.gens++
	var slot int
	if n, e := fmt.Sscanf(id, "node-%04d", &slot); n != 1 || e != nil || slot < node.NodeIDMin || slot > node.NodeIDMax || id != fmt.Sprintf("node-%04d", slot) {
		m.fail("C15/nodealloc/malformed-id", fmt.Sprintf("task %d AllocateNodeID = %q", ti, id))
		return 0
	}
	shape := "claim-not-exclusive"
	if m.w.amp.lastFaulted(ti) {
		shape = "after-store-error"
	}
	if m.taken["nodeslot"][slot] {
		m.fail("C15/nodealloc/preexisting-id-handed-out/"+shape, fmt.Sprintf("task %d was given %s, a slot held by another node before the run", ti, id))
		return 0
	}
	if _, dup := m.live["nodeslot"][slot]; dup {
		m.fail("C15/nodealloc/duplicate-live-id/"+shape, fmt.Sprintf("task %d was given %s while another allocator holds it unreleased", ti, id))
		return 0
	}
	if m.live["nodeslot"] == nil {
		m.live["nodeslot"] = map[int]string{}
	}
	m.live["nodeslot"][slot] = id
	return slot
}

// checkForeignLocks: after a failed allocation and its Release every pre-filled slot and
// every slot held by a live allocator still has its lock.
func (m *model) checkForeignLocks(ti int) {
	m.mu.Lock()
	defer m.mu.Unlock()
	for s := node.NodeIDMin; s <= node.NodeIDMax; s++ {
		_, isLive := m.live["nodeslot"][s]
		if (m.taken["nodeslot"][s] || isLive) && !m.marker("nodeslot", s) {
			m.fail("C15/nodealloc/release-after-failed-allocation-frees-foreign-lock", fmt.Sprintf("task %d: AllocateNodeID found no free id, the allocator was then released; the lock of node-%04d, held by another node (pre-existing=%v, live allocator=%v), is gone: the next allocator will be given that id", ti, s, m.taken["nodeslot"][s], isLive))
			return
		}
	}
}

func (m *model) onSlotRelStart(slot int) {
	m.mu.Lock()
	defer m.mu.Unlock()
	m.rels++
	delete(m.live["nodeslot"], slot)
}

// ---------------------------------------------------------------------------
// reporting

func sig(c Case, r result) string {
	cc := c
	cc.Picks = nil
	return fmt.Sprintf("%+v|%s", cc, vkit.StepsString(r.log))
}

func report(t vkit.TB, c Case, r result) {
	topo := "one-store"
	if c.Shared {
		topo = "shared-tier"
	}
	class := c.Mode + "/" + topo
	if r.skipped {
		vkit.Skipped(1)
		return
	}
	nontrivial := r.contended || r.exhausted
	if r.key != "" {
		vkit.Violation(t, r.key, r.detail, c)
		vkit.Case("known:"+class, nontrivial, sig(c, r))
		return
	}
	vkit.Case(class, nontrivial, sig(c, r))
	if r.contended {
		vkit.Class("feat:two-claims-of-one-class-parked-together")
	}
	if r.exhausted {
		vkit.Class("feat:scheduled-exhaustion")
	}
	if r.faulted {
		vkit.Class("feat:single-store-fault")
		if c.Lost {
			vkit.Class("feat:fault-applied-but-answer-lost")
		}
	}
	if r.rels > 0 {
		vkit.Class("feat:release")
	}
	if c.Probe && r.key == "" && !r.faulted {
		vkit.Class("feat:sequential-exhaustion-probe")
	}
	if len(c.Preseed) > 0 {
		vkit.Class("feat:preexisting-ids")
	}
	vkit.Class(fmt.Sprintf("k=%d", c.K))
	vkit.Sample(class, map[string]any{"case": c, "schedule": vkit.StepsString(tail(r.log, 40)), "generated": r.gens, "released": r.rels})
}

// ---------------------------------------------------------------------------
// generators

func genOps(t *rapid.T, label string, maxOps int) []Op {
	n := rapid.IntRange(1, maxOps).Draw(t, label+"n")
	ops := make([]Op, n)
	for i := range ops {
		if i > 0 && rapid.IntRange(0, 2).Draw(t, label+"rel") == 0 {
			ops[i] = Op{Do: "rel", Arg: rapid.IntRange(0, 3).Draw(t, label+"arg")}
		} else if rapid.IntRange(0, 3).Draw(t, label+"uniq") == 0 {
			ops[i] = Op{Do: "genu", Arg: rapid.IntRange(0, len(checkScripts)-1).Draw(t, label+"check")}
		} else {
			ops[i] = Op{Do: "gen"}
		}
	}
	return ops
}

func genIDCase(t *rapid.T, mode string) Case {
	c := Case{Mode: mode, FailAt: -1}
	c.K = rapid.IntRange(2, 8).Draw(t, "k")
	c.Shared = rapid.Bool().Draw(t, "shared")
	c.Nodes = rapid.IntRange(2, 4).Draw(t, "nodes")
	nt := rapid.IntRange(2, 4).Draw(t, "ntasks")
	kinds := []string{rapid.SampledFrom(idKinds).Draw(t, "kindA")}
	if rapid.IntRange(0, 3).Draw(t, "twoKinds") == 0 {
		kinds = append(kinds, rapid.SampledFrom(idKinds).Draw(t, "kindB"))
	}
	for i := 0; i < nt; i++ {
		l := fmt.Sprintf("t%d", i)
		task := Task{Node: rapid.IntRange(0, c.Nodes-1).Draw(t, l+"node"), Kind: rapid.SampledFrom(kinds).Draw(t, l+"kind")}
		task.Ops = genOps(t, l, 4)
		// collision-heavy candidate scripts: small classes first
		task.Cands = rapid.SliceOfN(rapid.IntRange(0, min(c.K-1, 2)), 0, 6).Draw(t, l+"cands")
		c.Tasks = append(c.Tasks, task)
	}
	nseed := rapid.IntRange(0, c.K-1).Draw(t, "nseed")
	if rapid.IntRange(0, 2).Draw(t, "seedAny") != 0 {
		nseed = min(nseed, 2)
	}
	for i := 0; i < nseed; i++ {
		c.Preseed = append(c.Preseed, Seeded{Kind: kinds[0], Class: rapid.IntRange(0, c.K-1).Draw(t, "seed")})
	}
	c.Picks = rapid.SliceOfN(rapid.IntRange(0, 3), 0, 40).Draw(t, "picks")
	if rapid.IntRange(0, 3).Draw(t, "fault") == 0 {
		c.FailAt = rapid.IntRange(0, 10).Draw(t, "failAt")
		c.Lost = rapid.Bool().Draw(t, "lostAnswer")
		if rapid.Bool().Draw(t, "failWrites") {
			c.FailOp = rapid.SampledFrom([]string{"Delete", "Delete", "SetNX"}).Draw(t, "failOp")
			c.FailAt = rapid.IntRange(0, 3).Draw(t, "failAtW")
		}
	}
	c.Probe = rapid.IntRange(0, 2).Draw(t, "probe") != 0
	return c
}

// TestRandomSchedules: IDManager instances (= nodes) over one store, generated
// Generate/Release scripts, candidate-class scripts, pre-existing ids, pick sequences and
// a single injected store fault.
func TestRandomSchedules(t *testing.T) {
	vkit.Check(t, 2400, 60000, func(t *rapid.T) {
		c := genIDCase(t, "idgen")
		p := &vkit.Picks{List: c.Picks}
		report(t, c, runCase(c, p.Choose))
	})
}

// TestHashedClasses: the literal fold class = fnv(kind:id) mod K over crypto-random
// candidates (collision pattern not controlled by the case).
func TestHashedClasses(t *testing.T) {
	vkit.Check(t, 600, 15000, func(t *rapid.T) {
		c := genIDCase(t, "hashed")
		for i := range c.Tasks {
			c.Tasks[i].Cands = nil
		}
		// random candidates need ~K ln K attempts to find the last free class; stay far from
		// MaxAttempts so that a spurious exhaustion (probability < 1e-5 per call at K=8, 1 free) is not alarmed
		c.Probe = false
		p := &vkit.Picks{List: c.Picks}
		report(t, c, runCase(c, p.Choose))
	})
}

// TestFallbackSingleInstance: a store without SetNX makes the generator use its
// Exists-then-Set fallback under a local mutex; its documented domain is ONE generator
// instance, so all tasks share that instance (concurrent callers of one node).
func TestFallbackSingleInstance(t *testing.T) {
	vkit.Check(t, 320, 8000, func(t *rapid.T) {
		c := Case{Mode: "fallback", FailAt: -1, Nodes: 1}
		c.K = rapid.IntRange(2, 8).Draw(t, "k")
		nt := rapid.IntRange(1, 2).Draw(t, "ntasks")
		gens := 0
		for i := 0; i < nt; i++ {
			l := fmt.Sprintf("t%d", i)
			task := Task{Kind: "client", Ops: genOps(t, l, 3)}
			task.Cands = rapid.SliceOfN(rapid.IntRange(0, 2), 0, 5).Draw(t, l+"cands")
			for _, o := range task.Ops {
				if o.Do == "gen" || o.Do == "genu" {
					gens++
				}
			}
			c.Tasks = append(c.Tasks, task)
		}
		if nt > 1 && c.K < gens {
			// two callers contend on the generator's mutex while one is parked: each step waits
			// for the stall detector, so keep these cases away from 100-attempt exhaustion runs
			// (exhaustion of the fallback path is covered by the one-task cases and the probe)
			c.K = gens
		}
		if nt == 1 {
			n := rapid.IntRange(0, c.K-1).Draw(t, "nseed")
			for i := 0; i < n; i++ {
				c.Preseed = append(c.Preseed, Seeded{Kind: "client", Class: rapid.IntRange(0, c.K-1).Draw(t, "seed")})
			}
			if rapid.IntRange(0, 3).Draw(t, "fault") == 0 {
				c.FailAt = rapid.IntRange(0, 8).Draw(t, "failAt")
			}
		}
		c.Picks = rapid.SliceOfN(rapid.IntRange(0, 3), 0, 24).Draw(t, "picks")
		c.Probe = true
		p := &vkit.Picks{List: c.Picks}
		report(t, c, runCase(c, p.Choose))
	})
}

var slotPool = []int{1, 2, 3, 4, 499, 500, 501, 997, 998, 999, 1000}

// TestNodeAllocator: 2-4 NodeIDAllocators race for the few free slots of an almost full
// (or full) 1..1000 range.
func TestNodeAllocator(t *testing.T) {
	vkit.Check(t, 480, 12000, func(t *rapid.T) {
		c := Case{Mode: "nodealloc", FailAt: -1}
		c.Shared = rapid.Bool().Draw(t, "shared")
		c.Nodes = rapid.IntRange(2, 4).Draw(t, "nodes")
		nfree := rapid.IntRange(0, 4).Draw(t, "nfree")
		seen := map[int]bool{}
		for i := 0; i < nfree; i++ {
			s := rapid.SampledFrom(slotPool).Draw(t, "slot")
			if !seen[s] {
				seen[s] = true
				c.Free = append(c.Free, s)
			}
		}
		sort.Ints(c.Free)
		for i := 0; i < c.Nodes; i++ {
			l := fmt.Sprintf("t%d", i)
			c.Tasks = append(c.Tasks, Task{Node: i, Kind: "nodeslot", Ops: genOps(t, l, 3)})
		}
		c.Picks = rapid.SliceOfN(rapid.IntRange(0, 3), 0, 30).Draw(t, "picks")
		if rapid.IntRange(0, 3).Draw(t, "fault") == 0 {
			c.FailAt = rapid.IntRange(0, 6).Draw(t, "failAt")
		}
		p := &vkit.Picks{List: c.Picks}
		report(t, c, runCase(c, p.Choose))
	})
}

// ---------------------------------------------------------------------------
// exhaustive DFS: 2 generators x 2 ids

type dfsProg struct {
	name string
	ops  [2][]Op
}

var gen = Op{Do: "gen"}
var rel0 = Op{Do: "rel", Arg: 0}

var dfsProgs = []dfsProg{
	{"gen;gen||gen;gen", [2][]Op{{gen, gen}, {gen, gen}}},
	{"gen;rel;gen||gen;gen", [2][]Op{{gen, rel0, gen}, {gen, gen}}},
	{"gen;rel;gen||gen;rel;gen", [2][]Op{{gen, rel0, gen}, {gen, rel0, gen}}},
	{"genu[check errors];gen||gen;gen", [2][]Op{{{Do: "genu", Arg: 1}, gen}, {gen, gen}}},
	{"genu[exists, then check errors]||gen;gen", [2][]Op{{{Do: "genu", Arg: 3}}, {gen, gen}}},
	{"genu[exists, free];rel;gen||genu[free];gen", [2][]Op{{{Do: "genu", Arg: 2}, rel0, gen}, {{Do: "genu", Arg: 0}, gen}}},
}

var dfsScripts = [][]int{{0, 0, 1}, {0, 1, 0}, {1, 0, 0}, {0, 1, 2}}

func TestExhaustive(t *testing.T) {
	stall = 2 * time.Second
	defer func() { stall = 60 * time.Millisecond }()
	idx, total := 0, 0
	progs := dfsProgs
	ks := []int{4, 5}
	if !vkit.Thorough() {
		ks = []int{4}
	}
	for _, prog := range progs {
		for _, k := range ks {
			for si, s1 := range dfsScripts {
				for sj, s2 := range dfsScripts {
					for _, shared := range []bool{false, true} {
						for _, seed := range []int{-1, 1} {
							idx++
							if !vkit.Mine(idx) {
								continue
							}
							if !vkit.Thorough() && (si+sj+idx)%3 != 0 {
								continue // quick tier: a third of the script pairs
							}
							if !vkit.Thorough() && strings.HasPrefix(prog.name, "genu[exists, free]") {
								continue // deep tree (three operations per task with a check round trip): thorough only
							}
							c := Case{Mode: "idgen", K: k, Shared: shared, Nodes: 2, FailAt: -1, Probe: true}
							kind := idKinds[idx%len(idKinds)]
							c.Tasks = []Task{{Node: 0, Kind: kind, Ops: prog.ops[0], Cands: s1}, {Node: 1, Kind: kind, Ops: prog.ops[1], Cands: s2}}
							if seed >= 0 {
								if ngen := countGens(prog.ops[0]) + countGens(prog.ops[1]); ngen+1 > k && !hasRel(prog.ops[0]) && !hasRel(prog.ops[1]) || ngen > k {
									// 4 ids + 1 pre-existing > K: exhaustion inside the tree (100 attempts) — too deep for DFS
									continue
								}
								c.Preseed = []Seeded{{Kind: kind, Class: seed}}
							}
							d := &vkit.DFS{}
							n := 0
							const cap = 4000
							for {
								r := runCase(c, d.Choose)
								c.Picks = d.Trace()
								report(t, c, r)
								n++
								if !d.Next() || n > cap {
									break
								}
							}
							total += n
							vkit.Exhaustive(fmt.Sprintf("%s/k=%d/cands=%v|%v/shared=%v/preseed=%d", prog.name, k, s1, s2, shared, seed), n <= cap && d.Diverged == 0)
							if d.Diverged > 0 {
								vkit.AddExtra("dfs_diverged_choices", int64(d.Diverged))
							}
						}
					}
				}
			}
		}
	}
	vkit.AddExtra("dfs_schedules", int64(total))
}

// TestExhaustiveLostAnswer: every schedule of small programs in which ONE store write is
// applied but reports an error (lost answer): a Release whose Delete went through, a claim
// whose SetNX went through. Whatever the generator does after the error (give up, retry)
// must not touch an id that another generator has obtained in the meantime.
func TestExhaustiveLostAnswer(t *testing.T) {
	stall = 2 * time.Second
	defer func() { stall = 60 * time.Millisecond }()
	type fprog struct {
		name   string
		ops    [][]Op
		cands  [][]int
		failOp string
		failAt int
		ks     []int // a lost SetNX answer leaks a marker: leave room, or the tree contains 100-attempt exhaustion runs
	}
	progs := []fprog{
		{"gen;rel||gen (Delete lost)", [][]Op{{gen, rel0}, {gen}}, [][]int{{0}, {0, 0, 0}}, "Delete", 0, []int{2, 3}},
		{"gen;rel;gen||gen;gen (Delete lost)", [][]Op{{gen, rel0, gen}, {gen, gen}}, [][]int{{0, 1, 0}, {0, 0, 1}}, "Delete", 0, []int{3, 4}},
		{"gen;rel||gen||gen (Delete lost)", [][]Op{{gen, rel0}, {gen}, {gen}}, [][]int{{0}, {0, 0}, {0, 0}}, "Delete", 0, []int{3}},
		{"gen;rel||gen;rel (2nd Delete lost)", [][]Op{{gen, rel0}, {gen, rel0}}, [][]int{{0, 1}, {0, 1, 0}}, "Delete", 1, []int{2, 3}},
		{"gen;gen||gen (1st SetNX lost)", [][]Op{{gen, gen}, {gen}}, [][]int{{0, 0, 1}, {0, 1, 0}}, "SetNX", 0, []int{4}},
		{"gen;rel||gen;gen (2nd SetNX lost)", [][]Op{{gen, rel0}, {gen, gen}}, [][]int{{0, 1}, {0, 1, 0}}, "SetNX", 1, []int{4}},
	}
	idx, total := 0, 0
	for _, p := range progs {
		for _, shared := range []bool{false, true} {
			for _, k := range p.ks {
				idx++
				if !vkit.Mine(idx) {
					continue
				}
				kind := idKinds[idx%len(idKinds)]
				c := Case{Mode: "idgen", K: k, Shared: shared, Nodes: len(p.ops), FailAt: p.failAt, FailOp: p.failOp, Lost: true}
				for i := range p.ops {
					c.Tasks = append(c.Tasks, Task{Node: i, Kind: kind, Ops: p.ops[i], Cands: p.cands[i]})
				}
				d := &vkit.DFS{}
				n := 0
				const cap = 3000
				for {
					r := runCase(c, d.Choose)
					c.Picks = d.Trace()
					report(t, c, r)
					n++
					if !d.Next() || n > cap {
						break
					}
				}
				total += n
				vkit.Exhaustive(fmt.Sprintf("lost-answer/%s/k=%d/shared=%v", p.name, k, shared), n <= cap && d.Diverged == 0)
			}
		}
	}
	vkit.AddExtra("dfs_schedules_lost_answer", int64(total))
}

func TestReplay(t *testing.T) {
	path := vkit.Replaying()
	if path == "" {
		t.Skip("no VERIF_REPLAY")
	}
	var c Case
	key, err := vkit.LoadReplay(path, &c)
	if err != nil {
		t.Fatal(err)
	}
	if strings.Contains(key, "/wiring/") {
		replayWiring(t, path)
		return
	}
	if strings.Contains(key, "/paths/") {
		replayPath(t, path)
		return
	}
	if strings.HasPrefix(c.Mode, "contend") {
		// a race inside the backend replays statistically: same round parameters, many rounds
		var cc ContendCase
		if _, err := vkit.LoadReplay(path, &cc); err != nil {
			t.Fatal(err)
		}
		cc.Rounds = 60000
		reportContend(t, cc, runContend(cc))
		return
	}
	for i := 0; i < 3; i++ {
		p := &vkit.Picks{List: c.Picks}
		report(t, c, runCase(c, p.Choose))
	}
}

var _ = stypes.ErrKeyNotFound
