package c15

// Node-id lock renewal: "time passes beyond the lock TTL while the holder is alive".
// NodeIDAllocator claims tunnox:node:allocated:<id> with a 90 s TTL and renews it from a
// 30 s ticker (both constants). Two nodes = two hybrid storages (own memory cache) over one
// shared Redis (miniredis; its TTLs only move with FastForward). Node A allocates; 60 s of
// Redis time pass; A's heartbeat fires once (31 s of wall clock — started in the background
// by TestARenewalStart, collected by TestZRenewalResult at the end of the shard); another 45 s
// of Redis time pass: 105 s after the claim, 45 s after the renewal. A is alive and renewed
// in time, so its id must still be taken when node B allocates.

import (
	"context"
	"fmt"
	"testing"
	"time"

	"github.com/alicebob/miniredis/v2"

	"tunnox-core/internal/core/node"
	"tunnox-core/internal/core/storage"
	"tunnox-core/verif/vkit"
)

type renewalOutcome struct {
	key, detail string
	err         error
}

var renewalDone chan renewalOutcome

func runRenewal() renewalOutcome {
	ctx, cancel := context.WithCancel(context.Background())
	defer cancel()
	mr, err := miniredis.Run()
	if err != nil {
		return renewalOutcome{err: err}
	}
	defer mr.Close()
	mk := func() (storage.Storage, error) {
		f := storage.NewStorageFactory(ctx)
		hc := &storage.HybridStorageConfig{CacheType: "memory", EnablePersistent: false, HybridConfig: storage.DefaultHybridConfig(),
			SharedCacheConfig: &storage.RedisConfig{Addr: mr.Addr(), PoolSize: 4}}
		hc.HybridConfig.EnablePersistent = false
		return f.CreateStorage(hc)
	}
	stA, err := mk()
	if err != nil {
		return renewalOutcome{err: err}
	}
	defer stA.Close()
	stB, err := mk()
	if err != nil {
		return renewalOutcome{err: err}
	}
	defer stB.Close()
	a := node.NewNodeIDAllocator(stA)
	idA, err := a.AllocateNodeID(ctx)
	if err != nil {
		return renewalOutcome{err: err}
	}
	key := node.NodeIDKeyPrefix + idA
	if !mr.Exists(key) {
		return renewalOutcome{err: fmt.Errorf("claim of %s is not in the shared cache", idA)}
	}
	ttl0 := mr.TTL(key)
	mr.FastForward(60 * time.Second)
	time.Sleep(31500 * time.Millisecond) // one heartbeat
	ttlAfterBeat := mr.TTL(key)
	mr.FastForward(45 * time.Second)
	b := node.NewNodeIDAllocator(stB)
	idB, errB := b.AllocateNodeID(ctx)
	defer a.Release()
	defer b.Release()
	if errB == nil && idB == idA {
		return renewalOutcome{key: "C15/nodealloc/lock-renewal-misses-shared-cache/duplicate-live-node-id",
			detail: fmt.Sprintf("node A holds %s (claimed in the shared cache with ttl %v) and heart-beats; 60 s later its renewal ran (ttl of the shared claim after the heartbeat: %v — not renewed), 45 s after that node B allocated %s as well: two live nodes with one node id", idA, ttl0, ttlAfterBeat, idB)}
	}
	return renewalOutcome{detail: fmt.Sprintf("A=%s B=%s ttl after heartbeat %v", idA, idB, ttlAfterBeat)}
}

// TestARenewalStart starts the 32 s scenario in the background (first test of the package).
func TestARenewalStart(t *testing.T) {
	if vkit.Shard() != 0 || vkit.Replaying() != "" {
		t.Skip("single shard")
	}
	renewalDone = make(chan renewalOutcome, 1)
	go func() { renewalDone <- runRenewal() }()
}

var renewalCase = Case{Mode: "nodealloc-renewal"}

func reportRenewal(t *testing.T, o renewalOutcome) {
	if o.err != nil {
		t.Skipf("renewal scenario could not be set up: %v", o.err) // inconclusive, not a violation
		return
	}
	if o.key != "" {
		vkit.Violation(t, o.key, o.detail, renewalCase)
		vkit.Case("known:nodealloc/lock-renewal", true, "renewal")
		return
	}
	vkit.Case("nodealloc/lock-renewal", true, "renewal")
}
