package c15

// Node-id lock renewal: "time passes beyond the lock TTL while the holder is alive".
// NodeIDAllocator claims tunnox:node:allocated:<id> with a 90 s TTL and renews it from a
// 30 s ticker (both constants). Two nodes = two hybrid storages (own memory cache) over one
// shared Redis (miniredis; its TTLs only move with FastForward). Node A allocates; 60 s of
// Redis time pass; A's heartbeat fires once (31 s of wall clock — started in the background
// by TestARenewalStart, collected by TestZRenewalResult at the end of the shard); another 45 s
// of Redis time pass: 105 s after the claim, 45 s after the renewal. A is alive and renewed
// in time, so its id must still be taken when node B allocates.

import (
	"context"
	"fmt"
	"os"
	"testing"
	"time"

	"github.com/alicebob/miniredis/v2"

	appserver "tunnox-core/internal/app/server"
	"tunnox-core/internal/core/node"
	"tunnox-core/internal/core/storage"
	"tunnox-core/verif/vkit"
)

type renewalOutcome struct {
	via         string
	key, detail string
	err         error
}

var renewalDone chan renewalOutcome

var renewalVias = []string{"allocator", "component"}

// via: "allocator" = NodeIDAllocator used directly; "component" = the server's start-up path,
// NodeComponent.Initialize with NODE_ID unset (whatever context handling it adds around the
// allocation is part of what keeps — or stops — the renewal).
func runRenewal(via string) renewalOutcome {
	ctx, cancel := context.WithCancel(context.Background())
	defer cancel()
	mr, err := miniredis.Run()
	if err != nil {
		return renewalOutcome{err: err}
	}
	defer mr.Close()
	mk := func() (storage.Storage, error) {
		f := storage.NewStorageFactory(ctx)
		hc := &storage.HybridStorageConfig{CacheType: "memory", EnablePersistent: false, HybridConfig: storage.DefaultHybridConfig(),
			SharedCacheConfig: &storage.RedisConfig{Addr: mr.Addr(), PoolSize: 4}}
		hc.HybridConfig.EnablePersistent = false
		return f.CreateStorage(hc)
	}
	stA, err := mk()
	if err != nil {
		return renewalOutcome{err: err}
	}
	defer stA.Close()
	stB, err := mk()
	if err != nil {
		return renewalOutcome{err: err}
	}
	defer stB.Close()
	var release []func()
	defer func() {
		for _, f := range release {
			f()
		}
	}()
	start := func(st storage.Storage) (string, error) {
		if via == "component" {
			deps := &appserver.Dependencies{Storage: st}
			if err := (&appserver.NodeComponent{}).Initialize(ctx, deps); err != nil {
				return "", err
			}
			if deps.NodeAllocator != nil {
				release = append(release, func() { deps.NodeAllocator.Release() })
			}
			return deps.NodeID, nil
		}
		a := node.NewNodeIDAllocator(st)
		id, err := a.AllocateNodeID(ctx)
		if err == nil {
			release = append(release, func() { a.Release() })
		}
		return id, err
	}
	idA, err := start(stA)
	if err != nil {
		return renewalOutcome{err: err}
	}
	key := node.NodeIDKeyPrefix + idA
	if !mr.Exists(key) {
		return renewalOutcome{err: fmt.Errorf("claim of %s is not in the shared cache", idA)}
	}
	ttl0 := mr.TTL(key)
	mr.FastForward(60 * time.Second)
	// one heartbeat (30 s ticker). The shared clock only moves by FastForward, so the claim's ttl stays at
	// 30 s until a renewal rewrites it; a renewal that is merely late on a busy machine is waited for (up to
	// two and a half ticks), a renewal that never comes is what is reported.
	time.Sleep(30500 * time.Millisecond)
	ttlAfterBeat := mr.TTL(key)
	for waited := 0; ttlAfterBeat <= 30*time.Second && mr.Exists(key) && waited < 45000; waited += 250 {
		time.Sleep(250 * time.Millisecond)
		ttlAfterBeat = mr.TTL(key)
	}
	mr.FastForward(45 * time.Second)
	idB, errB := start(stB)
	if errB == nil && idB == idA {
		k := "C15/nodealloc/lock-renewal-misses-shared-cache/duplicate-live-node-id"
		if via == "component" {
			k = "C15/nodealloc/lock-not-renewed-after-component-startup/duplicate-live-node-id"
		}
		return renewalOutcome{key: k,
			detail: fmt.Sprintf("[start-up via "+via+"] node A holds %s (claimed in the shared cache with ttl %v) and heart-beats; 60 s later its renewal ran (ttl of the shared claim after the heartbeat: %v — not renewed), 45 s after that node B allocated %s as well: two live nodes with one node id", idA, ttl0, ttlAfterBeat, idB)}
	}
	return renewalOutcome{detail: fmt.Sprintf("A=%s B=%s ttl after heartbeat %v", idA, idB, ttlAfterBeat)}
}

// TestARenewalStart starts the 32 s scenario in the background (first test of the package).
func TestARenewalStart(t *testing.T) {
	if vkit.Shard() != 0 || vkit.Replaying() != "" {
		t.Skip("single shard")
	}
	os.Unsetenv("NODE_ID")
	renewalDone = make(chan renewalOutcome, len(renewalVias))
	for _, via := range renewalVias {
		go func(via string) { o := runRenewal(via); o.via = via; renewalDone <- o }(via)
	}
}

var renewalCase = Case{Mode: "nodealloc-renewal"}

func reportRenewal(t *testing.T, o renewalOutcome) {
	if o.err != nil {
		t.Skipf("renewal scenario could not be set up: %v", o.err) // inconclusive, not a violation
		return
	}
	if o.key != "" {
		vkit.Violation(t, o.key, o.detail, renewalCase)
		vkit.Case("known:nodealloc/lock-renewal/"+o.via, true, "renewal"+o.via)
		return
	}
	vkit.Case("nodealloc/lock-renewal/"+o.via, true, "renewal"+o.via)
}
