// Reference model for C13: a sequential map with expiry.
//
// The model is a pure function over ONE key (step) plus a small amount of bookkeeping
// about lifetimes (seqModel). Semantics are the documented intent of the in-memory
// backend: an expired key behaves as absent for every operation; a zero lifetime means
// "never expires"; containers created implicitly (AppendToList / SetHash / Incr on an
// absent key) get the default data TTL (24 h).
package c13

import (
	"encoding/json"
	"fmt"
	"reflect"
	"sort"
	"strconv"
	"strings"
	"time"
)

// ---------------------------------------------------------------------------
// case description (JSON-serialisable: the replay unit)

const (
	ttlZero  = "0"
	ttlShort = "short"
	ttlLong  = "long"
)

const (
	shortTTL   = 30 * time.Millisecond
	longTTL    = time.Hour
	defaultTTL = 24 * time.Hour // constants.DefaultDataTTL
	sleepDur   = 36 * time.Millisecond
	guard      = 500 * time.Microsecond
)

func ttlDur(c string) time.Duration {
	switch c {
	case ttlShort:
		return shortTTL
	case ttlLong:
		return longTTL
	case "1s":
		return time.Second
	case "2s":
		return 2 * time.Second
	case "90s":
		return 90 * time.Second
	}
	return 0
}

// Val is a scalar of the stated value domain: string (incl. JSON text) or int64.
type Val struct {
	T string `json:"t"` // "s" | "i" (int64) | "int" | "i32" | "u" (uint)
	S string `json:"s,omitempty"`
	I int64  `json:"i,omitempty"`
}

func sv(s string) *Val { return &Val{T: "s", S: s} }
func iv(i int64) *Val  { return &Val{T: "i", I: i} }

func (v *Val) any() any {
	if v == nil {
		return nil
	}
	switch v.T {
	case "i":
		return v.I
	case "int": // other Go integer kinds: differential hash fields only
		return int(v.I)
	case "i32":
		return int32(v.I)
	case "u":
		return uint(v.I)
	}
	return v.S
}

type Op struct {
	Kind  string `json:"op"`
	Key   string `json:"key,omitempty"`
	Field string `json:"field,omitempty"`
	Val   *Val   `json:"val,omitempty"`  // Set / SetNX / Append / Remove / SetHash / CAS new
	Old   *Val   `json:"old,omitempty"`  // CAS expected value; absent = nil interface
	Vals  []Val  `json:"vals,omitempty"` // SetList
	TTL   string `json:"ttl,omitempty"`
	N     int64  `json:"n,omitempty"` // IncrBy
}

func (o Op) String() string {
	var b strings.Builder
	b.WriteString(o.Kind)
	b.WriteString("(")
	parts := []string{}
	if o.Key != "" {
		parts = append(parts, o.Key)
	}
	if o.Field != "" {
		parts = append(parts, "f="+o.Field)
	}
	if o.Kind == "CompareAndSwap" {
		parts = append(parts, fmt.Sprintf("old=%#v", o.Old.any()))
	}
	if o.Val != nil {
		parts = append(parts, fmt.Sprintf("%#v", o.Val.any()))
	}
	if o.Kind == "SetList" {
		l := []string{}
		for i := range o.Vals {
			l = append(l, fmt.Sprintf("%#v", o.Vals[i].any()))
		}
		parts = append(parts, "["+strings.Join(l, ",")+"]")
	}
	if o.Kind == "IncrBy" {
		parts = append(parts, strconv.FormatInt(o.N, 10))
	}
	if o.Kind == "advance" {
		parts = append(parts, (time.Duration(o.N) * time.Millisecond).String())
	}
	if o.TTL != "" {
		parts = append(parts, "ttl="+o.TTL)
	}
	b.WriteString(strings.Join(parts, ", "))
	b.WriteString(")")
	return b.String()
}

func (o Op) ttlTag() string {
	if o.TTL == "" {
		return o.Kind
	}
	return o.Kind + "[ttl=" + o.TTL + "]"
}

// Res is the observable answer of one storage call.
type Res struct {
	Err string        // "" | "notfound" | "type" | "other:<message>"
	V   any           // Get / GetList / GetHash / GetAllHash
	B   bool          // Exists / SetNX / CompareAndSwap
	N   int64         // Incr / IncrBy
	D   time.Duration // GetExpiration
}

func (r Res) errClass() string {
	if strings.HasPrefix(r.Err, "other") {
		return "other"
	}
	return r.Err
}

func (r Res) String() string {
	if r.Err != "" {
		return "err=" + r.Err
	}
	return fmt.Sprintf("{v=%#v b=%v n=%d d=%v}", r.V, r.B, r.N, r.D)
}

// ---------------------------------------------------------------------------
// single-key sequential semantics (no time: the caller resolves "expired" to absent)

type kstate struct {
	Present bool
	V       any // string | int64 | []any | map[string]any
}

func (k kstate) kind() string {
	if !k.Present {
		return "absent"
	}
	switch k.V.(type) {
	case []any:
		return "list"
	case map[string]any:
		return "hash"
	case int64:
		return "int"
	}
	return "string"
}

type expAct int

const (
	expKeep    expAct = iota // lifetime unchanged
	expNever                 // zero expiration
	expTTL                   // now + ttl of the op
	expDefault               // now + 24 h
	expGone                  // key removed
)

func scalarEq(a, b any) bool {
	switch x := a.(type) {
	case string:
		y, ok := b.(string)
		return ok && x == y
	case int64:
		y, ok := b.(int64)
		return ok && x == y
	case nil:
		return b == nil
	}
	return false
}

func ttlAct(ttl string) expAct {
	if ttlDur(ttl) <= 0 {
		return expNever
	}
	return expTTL
}

func valsAny(vs []Val) []any {
	out := make([]any, 0, len(vs))
	for i := range vs {
		out = append(out, vs[i].any())
	}
	return out
}

// step applies op to the state of its key. st is never mutated.
func step(st kstate, op Op) (kstate, Res, expAct) {
	switch op.Kind {
	case "Set":
		return kstate{true, op.Val.any()}, Res{}, ttlAct(op.TTL)
	case "SetList":
		return kstate{true, valsAny(op.Vals)}, Res{}, ttlAct(op.TTL)
	case "Get":
		if !st.Present {
			return st, Res{Err: "notfound"}, expKeep
		}
		return st, Res{V: st.V}, expKeep
	case "Delete":
		return kstate{}, Res{}, expGone
	case "Exists":
		return st, Res{B: st.Present}, expKeep
	case "GetList":
		if !st.Present {
			return st, Res{Err: "notfound"}, expKeep
		}
		if l, ok := st.V.([]any); ok {
			return st, Res{V: l}, expKeep
		}
		return st, Res{Err: "type"}, expKeep
	case "AppendToList":
		if !st.Present {
			return kstate{true, []any{op.Val.any()}}, Res{}, expDefault
		}
		if l, ok := st.V.([]any); ok {
			nl := append(append(make([]any, 0, len(l)+1), l...), op.Val.any())
			return kstate{true, nl}, Res{}, expKeep
		}
		return st, Res{Err: "type"}, expKeep
	case "RemoveFromList":
		if !st.Present {
			return st, Res{}, expKeep
		}
		if l, ok := st.V.([]any); ok {
			nl := make([]any, 0, len(l))
			for _, e := range l {
				if !scalarEq(e, op.Val.any()) {
					nl = append(nl, e)
				}
			}
			return kstate{true, nl}, Res{}, expKeep
		}
		return st, Res{Err: "type"}, expKeep
	case "SetHash":
		if !st.Present {
			return kstate{true, map[string]any{op.Field: op.Val.any()}}, Res{}, expDefault
		}
		if h, ok := st.V.(map[string]any); ok {
			nh := make(map[string]any, len(h)+1)
			for k, v := range h {
				nh[k] = v
			}
			nh[op.Field] = op.Val.any()
			return kstate{true, nh}, Res{}, expKeep
		}
		// documented in memory.SetHash: a value of another kind is re-initialised as a hash
		return kstate{true, map[string]any{op.Field: op.Val.any()}}, Res{}, expKeep
	case "GetHash":
		if !st.Present {
			return st, Res{Err: "notfound"}, expKeep
		}
		if h, ok := st.V.(map[string]any); ok {
			if v, ok := h[op.Field]; ok {
				return st, Res{V: v}, expKeep
			}
			return st, Res{Err: "notfound"}, expKeep
		}
		return st, Res{Err: "type"}, expKeep
	case "GetAllHash":
		if !st.Present {
			return st, Res{Err: "notfound"}, expKeep
		}
		if h, ok := st.V.(map[string]any); ok {
			return st, Res{V: h}, expKeep
		}
		return st, Res{Err: "type"}, expKeep
	case "DeleteHash":
		if !st.Present {
			return st, Res{}, expKeep
		}
		if h, ok := st.V.(map[string]any); ok {
			nh := make(map[string]any, len(h))
			for k, v := range h {
				if k != op.Field {
					nh[k] = v
				}
			}
			return kstate{true, nh}, Res{}, expKeep
		}
		return st, Res{Err: "type"}, expKeep
	case "Incr", "IncrBy":
		d := op.N
		if op.Kind == "Incr" {
			d = 1
		}
		if !st.Present {
			return kstate{true, d}, Res{N: d}, expDefault
		}
		if c, ok := st.V.(int64); ok {
			return kstate{true, c + d}, Res{N: c + d}, expKeep
		}
		return st, Res{Err: "type"}, expKeep
	case "SetExpiration":
		if !st.Present {
			return st, Res{Err: "notfound"}, expKeep
		}
		return st, Res{}, ttlAct(op.TTL)
	case "GetExpiration":
		if !st.Present {
			return st, Res{Err: "notfound"}, expKeep
		}
		return st, Res{}, expKeep // duration checked by the caller
	case "SetNX":
		if st.Present {
			return st, Res{B: false}, expKeep
		}
		return kstate{true, op.Val.any()}, Res{B: true}, ttlAct(op.TTL)
	case "CompareAndSwap":
		if !st.Present {
			if op.Old == nil {
				return kstate{true, op.Val.any()}, Res{B: true}, ttlAct(op.TTL)
			}
			return st, Res{B: false}, expKeep
		}
		if op.Old != nil && scalarEq(st.V, op.Old.any()) {
			return kstate{true, op.Val.any()}, Res{B: true}, ttlAct(op.TTL)
		}
		return st, Res{B: false}, expKeep
	case "CleanupExpired":
		return st, Res{}, expKeep
	}
	panic("model: unknown op " + op.Kind)
}

// ---------------------------------------------------------------------------
// lifetimes with interval uncertainty

type entry struct {
	st     kstate
	never  bool
	lo, hi time.Time // the stored deadline lies in [lo, hi]
	writer string    // op (with ttl class) that last defined value or lifetime
}

type live int

const (
	isAbsent live = iota
	isAlive
	isExpired
	isUncertain
)

// liveness of the key for a call that executed within [t0, t1].
func (e *entry) liveness(t0, t1 time.Time) live {
	if e == nil || !e.st.Present {
		return isAbsent
	}
	if e.never {
		return isAlive
	}
	if t1.Add(guard).Before(e.lo) {
		return isAlive
	}
	if t0.After(e.hi.Add(guard)) {
		return isExpired
	}
	return isUncertain
}

func stateClass(e *entry, l live) string {
	switch l {
	case isAbsent:
		return "absent"
	case isExpired:
		return "expired-" + e.st.kind()
	case isAlive:
		if e.never {
			return "never-expiring-" + e.st.kind()
		}
		return "ttl-" + e.st.kind()
	}
	return "uncertain"
}

type seqModel struct{ keys map[string]*entry }

func newSeqModel() *seqModel { return &seqModel{keys: map[string]*entry{}} }

// predict returns the model's answer for op executed within [t0,t1], plus a commit
// function that applies the state change. ok=false: the call fell into the boundary
// zone of a deadline (no verdict possible).
func (m *seqModel) predict(op Op, t0, t1 time.Time) (want Res, class string, commit func(), ok bool) {
	if op.Kind == "CleanupExpired" || op.Kind == "sleep" {
		return Res{}, "n/a", func() {}, true
	}
	e := m.keys[op.Key]
	l := e.liveness(t0, t1)
	if l == isUncertain {
		return Res{}, "uncertain", nil, false
	}
	class = stateClass(e, l)
	eff := kstate{}
	if l == isAlive {
		eff = e.st
	}
	st2, want, act := step(eff, op)
	if op.Kind == "GetExpiration" && want.Err == "" {
		if e.never {
			want.D = 0 // "never": any non-positive duration is accepted (see check.json)
		} else {
			want.D = e.lo.Sub(t1) // lower bound; upper bound = hi - t0
			want.N = int64(e.hi.Sub(t0))
		}
	}
	commit = func() {
		if l != isAlive && !st2.Present {
			if act == expGone {
				delete(m.keys, op.Key)
			}
			return // an expired, unswept item stays where it is
		}
		ne := &entry{st: st2}
		if e != nil && l == isAlive {
			ne.never, ne.lo, ne.hi, ne.writer = e.never, e.lo, e.hi, e.writer
		}
		switch act {
		case expGone:
			delete(m.keys, op.Key)
			return
		case expNever:
			ne.never, ne.writer = true, op.ttlTag()
		case expTTL:
			d := ttlDur(op.TTL)
			ne.never, ne.lo, ne.hi, ne.writer = false, t0.Add(d), t1.Add(d), op.ttlTag()
		case expDefault:
			ne.never, ne.lo, ne.hi, ne.writer = false, t0.Add(defaultTTL), t1.Add(defaultTTL), op.ttlTag()
		}
		m.keys[op.Key] = ne
	}
	return want, class, commit, true
}

// ---------------------------------------------------------------------------
// comparison

func normList(v any) any {
	if l, ok := v.([]any); ok && len(l) == 0 {
		return []any{}
	}
	if h, ok := v.(map[string]any); ok && len(h) == 0 {
		return map[string]any{}
	}
	return v
}

// sameExact compares an implementation answer with the model's, field by field.
func sameExact(op Op, got, want Res) (bool, string) {
	if got.errClass() != want.errClass() {
		return false, fmt.Sprintf("got-%s-want-%s", orOK(got.errClass()), orOK(want.errClass()))
	}
	if want.Err != "" {
		return true, ""
	}
	switch op.Kind {
	case "Get", "GetList", "GetHash", "GetAllHash":
		if !reflect.DeepEqual(normList(got.V), normList(want.V)) {
			return false, "wrong-value"
		}
	case "Exists", "SetNX", "CompareAndSwap":
		if got.B != want.B {
			return false, fmt.Sprintf("got-%v-want-%v", got.B, want.B)
		}
	case "Incr", "IncrBy":
		if got.N != want.N {
			return false, "wrong-count"
		}
	case "GetExpiration":
		if want.N == 0 { // never expires
			if got.D > 0 {
				return false, "finite-lifetime-on-never-expiring-key"
			}
			return true, ""
		}
		if got.D < want.D-guard || got.D > time.Duration(want.N)+guard {
			return false, "lifetime-out-of-range"
		}
	}
	return true, ""
}

func orOK(s string) string {
	if s == "" {
		return "ok"
	}
	return s
}

// canon renders a value in the backend-neutral form used by the differential part:
// scalars by their string form, lists in order, hashes sorted by field. typed: numbers
// carry their Go kind (integer / float), because the readers of hash fields
// (stats.getInt, getInt64, incrHashField) accept int64/int only.
func canon(v any, typed bool) string {
	tag := func(kind, s string) string {
		if typed {
			return kind + ":" + s
		}
		return s
	}
	switch x := v.(type) {
	case nil:
		return "<nil>"
	case string:
		return x
	case []byte:
		return string(x)
	case int64:
		return tag("int", strconv.FormatInt(x, 10))
	case int:
		return tag("int", strconv.Itoa(x))
	case int32: // typed: every Go integer kind is "an integer with this exact value"
		return tag("int", strconv.FormatInt(int64(x), 10))
	case uint:
		return tag("int", strconv.FormatUint(uint64(x), 10))
	case uint32:
		return tag("int", strconv.FormatUint(uint64(x), 10))
	case uint64:
		return tag("int", strconv.FormatUint(x, 10))
	case float64:
		if x == float64(int64(x)) {
			return tag("float", strconv.FormatInt(int64(x), 10))
		}
		return tag("float", strconv.FormatFloat(x, 'g', -1, 64))
	case json.Number:
		return tag("number", x.String())
	case []any:
		parts := make([]string, 0, len(x))
		for _, e := range x {
			parts = append(parts, strconv.Quote(canon(e, typed)))
		}
		return "[" + strings.Join(parts, ",") + "]"
	case map[string]any:
		ks := make([]string, 0, len(x))
		for k := range x {
			ks = append(ks, k)
		}
		sort.Strings(ks)
		parts := make([]string, 0, len(x))
		for _, k := range ks {
			parts = append(parts, strconv.Quote(k)+":"+strconv.Quote(canon(x[k], typed)))
		}
		return "{" + strings.Join(parts, ",") + "}"
	}
	return fmt.Sprintf("%T:%v", v, v)
}
