// C13 — storage backends implement one TTL key-value semantics.
//
//	(a) TestSequentialModel  rapid state machine: memory.Storage vs the reference model
//	(b) TestConcurrentLinearizable  spin-barrier histories checked with porcupine (conc_test.go)
//	(c) TestDifferentialRedis  memory vs Redis-on-miniredis on repository shapes (diff_test.go)
package c13

import (
	"context"
	"encoding/json"
	"errors"
	"fmt"
	"os"
	"strings"
	"testing"
	"time"

	"pgregory.net/rapid"

	"tunnox-core/internal/core/storage/memory"
	stypes "tunnox-core/internal/core/storage/types"
	"tunnox-core/verif/vkit"
)

func TestMain(m *testing.M) {
	if os.Getenv("VERIF_SHRINKTIME") == "" {
		// every run with a sleep costs >= 36 ms and seq/diff cases are minimised by the harness itself
		os.Setenv("VERIF_SHRINKTIME", "6s")
	}
	vkit.Main(m, "C13")
}

// Case is the replay unit of all three parts.
type Case struct {
	Part   string `json:"part"`             // "seq" | "conc" | "diff" | "life" | "hashprobe"
	Family string `json:"family,omitempty"` // conc: program family
	Ops    []Op   `json:"ops,omitempty"`
	Pre    []Op   `json:"pre,omitempty"`   // conc: sequential set-up
	Progs  [][]Op `json:"progs,omitempty"` // conc: one program per goroutine
}

// store is the part of the storage interfaces the property talks about.
type store interface {
	stypes.Storage
	stypes.ListStore
	stypes.HashStore
	stypes.CounterStore
	stypes.CASStore
}

var _ store = (*memory.Storage)(nil)

func errClass(err error) string {
	switch {
	case err == nil:
		return ""
	case errors.Is(err, stypes.ErrKeyNotFound):
		return "notfound"
	case errors.Is(err, stypes.ErrInvalidType), strings.Contains(err.Error(), "WRONGTYPE"):
		return "type"
	}
	return "other:" + err.Error()
}

// execOp performs one storage call. opaque: a hash returned by Get is not inspected
// (memory.Get hands out the live map; concurrent histories must not read it).
func execOp(s store, op Op, opaque bool) (r Res) {
	defer func() {
		if p := recover(); p != nil {
			r = Res{Err: fmt.Sprintf("other:panic: %v", p)}
		}
	}()
	ttl := ttlDur(op.TTL)
	var err error
	switch op.Kind {
	case "Set":
		err = s.Set(op.Key, op.Val.any(), ttl)
	case "Get":
		r.V, err = s.Get(op.Key)
		if _, isMap := r.V.(map[string]any); isMap && opaque {
			r.V = "<hash>"
		}
	case "Delete":
		err = s.Delete(op.Key)
	case "Exists":
		r.B, err = s.Exists(op.Key)
	case "SetList":
		err = s.SetList(op.Key, valsAny(op.Vals), ttl)
	case "GetList":
		var l []any
		l, err = s.GetList(op.Key)
		if err == nil {
			r.V = append([]any{}, l...)
		}
	case "AppendToList":
		err = s.AppendToList(op.Key, op.Val.any())
	case "RemoveFromList":
		err = s.RemoveFromList(op.Key, op.Val.any())
	case "SetHash":
		err = s.SetHash(op.Key, op.Field, op.Val.any())
	case "GetHash":
		r.V, err = s.GetHash(op.Key, op.Field)
	case "GetAllHash":
		var h map[string]any
		h, err = s.GetAllHash(op.Key)
		if err == nil {
			r.V = h
			if h == nil {
				r.V = map[string]any{}
			}
		}
	case "DeleteHash":
		err = s.DeleteHash(op.Key, op.Field)
	case "Incr":
		r.N, err = s.Incr(op.Key)
	case "IncrBy":
		r.N, err = s.IncrBy(op.Key, op.N)
	case "SetExpiration":
		err = s.SetExpiration(op.Key, ttl)
	case "GetExpiration":
		r.D, err = s.GetExpiration(op.Key)
	case "CleanupExpired":
		err = s.CleanupExpired()
	case "SetNX":
		r.B, err = s.SetNX(op.Key, op.Val.any(), ttl)
	case "CompareAndSwap":
		r.B, err = s.CompareAndSwap(op.Key, op.Old.any(), op.Val.any(), ttl)
	default:
		panic("exec: unknown op " + op.Kind)
	}
	if err != nil {
		return Res{Err: errClass(err)}
	}
	return r
}

// ---------------------------------------------------------------------------
// generators

var (
	seqTTLs   = []string{ttlZero, ttlZero, ttlShort, ttlShort, ttlShort, ttlLong}
	seqKeys   = []string{"k0", "k1", "k2", "k3"}
	strPool   = []string{"a", "b", "", "7", `{"id":1}`, `{"id":2,"s":"x y"}`, "héllo<&>"}
	intPool   = []int64{0, 1, 7, -3, 1 << 53}
	fieldPool = []string{"f1", "f2", "f3"}
	ttlPool   = []string{ttlZero, ttlShort, ttlLong}
)

func genVal(t *rapid.T, label string) *Val {
	if rapid.IntRange(0, 3).Draw(t, label+"Kind") == 0 {
		return iv(rapid.SampledFrom(intPool).Draw(t, label+"Int"))
	}
	return sv(rapid.SampledFrom(strPool).Draw(t, label+"Str"))
}

func valOf(v any) *Val {
	switch x := v.(type) {
	case string:
		return sv(x)
	case int64:
		return iv(x)
	}
	return nil
}

// genOldFor draws the expected value of a CAS: half of the time the value the model
// currently holds (so that the swap succeeds), else a pool value or nil.
func genOldFor(t *rapid.T, cur kstate) *Val {
	c := rapid.IntRange(0, 9).Draw(t, "oldClass")
	if c < 5 && cur.Present {
		if v := valOf(cur.V); v != nil {
			return v
		}
	}
	if c == 9 {
		return nil
	}
	return genVal(t, "old")
}

var seqOpKinds = []string{
	"Set", "Set", "Get", "Get", "Delete", "Exists",
	"SetList", "GetList", "AppendToList", "AppendToList", "RemoveFromList",
	"SetHash", "SetHash", "GetHash", "GetAllHash", "DeleteHash",
	"Incr", "IncrBy", "SetNX", "SetNX", "CompareAndSwap", "CompareAndSwap", "CompareAndSwap",
	"SetExpiration", "GetExpiration", "CleanupExpired", "sleep", "sleep",
}

func genOp(t *rapid.T, kinds []string, keys []string, ttls []string, cur func(string) kstate) Op {
	op := Op{Kind: rapid.SampledFrom(kinds).Draw(t, "op")}
	if op.Kind == "sleep" || op.Kind == "CleanupExpired" {
		return op
	}
	op.Key = rapid.SampledFrom(keys).Draw(t, "key")
	switch op.Kind {
	case "Set", "SetNX":
		op.Val = genVal(t, "val")
		op.TTL = rapid.SampledFrom(ttls).Draw(t, "ttl")
	case "SetList":
		n := rapid.IntRange(0, 4).Draw(t, "n")
		for i := 0; i < n; i++ {
			op.Vals = append(op.Vals, *genVal(t, "elem"))
		}
		op.TTL = rapid.SampledFrom(ttls).Draw(t, "ttl")
	case "AppendToList":
		op.Val = genVal(t, "val")
	case "RemoveFromList":
		op.Val = genVal(t, "val")
		if l, ok := cur(op.Key).V.([]any); ok && len(l) > 0 && rapid.Bool().Draw(t, "member") {
			op.Val = valOf(l[rapid.IntRange(0, len(l)-1).Draw(t, "idx")])
		}
	case "SetHash":
		op.Field = rapid.SampledFrom(fieldPool).Draw(t, "field")
		op.Val = genVal(t, "val")
	case "GetHash", "DeleteHash":
		op.Field = rapid.SampledFrom(fieldPool).Draw(t, "field")
	case "IncrBy":
		op.N = rapid.SampledFrom([]int64{1, 2, -1, 10, 0}).Draw(t, "delta")
	case "SetExpiration":
		op.TTL = rapid.SampledFrom(ttls).Draw(t, "ttl")
	case "CompareAndSwap":
		op.Old = genOldFor(t, cur(op.Key))
		op.Val = genVal(t, "new")
		op.TTL = rapid.SampledFrom(ttls).Draw(t, "ttl")
	}
	return op
}

// ---------------------------------------------------------------------------
// (a) sequential histories against the model

type outcome struct {
	key, detail string // violation (key != "")
	step        int    // index of the deviating call
	skipped     bool   // boundary zone reached: no verdict for the rest of the history
	feats       map[string]bool
}

func isRead(kind string) bool {
	switch kind {
	case "Get", "Exists", "GetList", "GetHash", "GetAllHash", "GetExpiration":
		return true
	}
	return false
}

// classify names the root cause of a deviation of the memory backend from the model.
// stored is the model's item for the key (also when its lifetime has run out).
func classify(op Op, class, writer, symptom string, got, want Res, stored kstate) string {
	wantAlive := strings.HasPrefix(class, "never-expiring-") || strings.HasPrefix(class, "ttl-")
	expired := strings.HasPrefix(class, "expired-")
	// does memory answer exactly as if the (live) key were absent / the (expired) key were live?
	actsAbsent, actsAlive := false, false
	if wantAlive {
		_, w, _ := step(kstate{}, op)
		actsAbsent, _ = sameExact(op, got, w)
	}
	if expired && op.Kind != "GetExpiration" {
		_, w, _ := step(stored, op)
		actsAlive, _ = sameExact(op, got, w)
	}
	switch {
	case wantAlive && actsAbsent && writer == "CompareAndSwap[ttl=0]":
		return "C13/memory-cas/ttl0-stores-already-expired-value"
	case op.Kind == "CompareAndSwap" && strings.HasPrefix(class, "never-expiring-") && actsAbsent:
		return "C13/memory-cas/zero-expiration-treated-as-expired"
	case wantAlive && actsAbsent && writer == "SetExpiration[ttl=0]":
		return "C13/memory-setexpiration/ttl0-expires-now"
	case op.Kind == "SetExpiration" && expired && got.Err == "":
		return "C13/memory-setexpiration/expired-key-resurrected"
	}
	w := ""
	if wantAlive && actsAbsent {
		w = "/acts-absent/lifetime-from=" + writer
	}
	if actsAlive {
		w = "/acts-alive"
	}
	return fmt.Sprintf("C13/memory/%s/on=%s%s/%s", opTag(op), coarse(class, got, want), w, symptom)
}

// opTag: the op, marked when it carries the special zero lifetime.
func opTag(op Op) string {
	if op.TTL == ttlZero {
		return op.Kind + "[ttl=0]"
	}
	return op.Kind
}

// coarse drops the value kind from a state class unless a type error is involved.
func coarse(class string, got, want Res) string {
	if got.Err == "type" || want.Err == "type" {
		return class
	}
	for _, p := range []string{"expired", "never-expiring", "ttl"} {
		if strings.HasPrefix(class, p+"-") {
			return p
		}
	}
	return class
}

func note(feats map[string]bool, op Op, class string, want Res) {
	expired := strings.HasPrefix(class, "expired-")
	never := strings.HasPrefix(class, "never-expiring-")
	switch {
	case expired && isRead(op.Kind):
		feats["read-after-expiry"] = true
	case expired && op.Kind == "SetNX":
		feats["setnx-after-expiry"] = true
	case expired && (op.Kind == "AppendToList" || op.Kind == "SetHash" || op.Kind == "Incr" || op.Kind == "IncrBy"):
		feats["container-op-after-expiry"] = true
	case expired && op.Kind == "CompareAndSwap":
		feats["cas-after-expiry"] = true
	case expired && op.Kind == "SetExpiration":
		feats["setexpiration-after-expiry"] = true
	}
	if never && op.Kind == "CompareAndSwap" {
		feats["cas-on-never-expiring-key"] = true
		if want.B {
			feats["cas-success-on-never-expiring-key"] = true
		}
	}
	if never && op.Kind == "SetNX" {
		feats["setnx-on-never-expiring-key"] = true
	}
	if op.Kind == "CompareAndSwap" && want.B && op.TTL == ttlZero {
		feats["cas-success-with-ttl0"] = true
	}
	if op.Kind == "SetExpiration" && want.Err == "" && op.TTL == ttlZero {
		feats["setexpiration-ttl0-on-live-key"] = true
	}
	if want.Err == "type" {
		feats["type-collision"] = true
	}
	if op.Kind == "RemoveFromList" && want.Err == "" && class != "absent" && !expired {
		feats["remove-from-live-list"] = true
	}
}

// runSeq executes ops on a fresh memory backend in lockstep with the model.
func runSeq(ops []Op) outcome {
	s := memory.New(context.Background())
	defer s.Close()
	m := newSeqModel()
	out := outcome{feats: map[string]bool{}}
	for i, op := range ops {
		if op.Kind == "sleep" {
			time.Sleep(sleepDur)
			continue
		}
		t0 := time.Now()
		got := execOp(s, op, false)
		t1 := time.Now()
		want, class, commit, ok := m.predict(op, t0, t1)
		if !ok {
			out.skipped = true
			return out
		}
		writer, stored := "", kstate{}
		if e := m.keys[op.Key]; e != nil {
			writer, stored = e.writer, e.st
		}
		if same, symptom := sameExact(op, got, want); !same {
			out.step = i
			out.key = classify(op, class, writer, symptom, got, want, stored)
			out.detail = fmt.Sprintf("step %d %s on %s key (lifetime set by %q): memory answered %s, sequential map with expiry answers %s; history: %s",
				i, op, class, writer, got, want, histString(ops[:i+1]))
			return out
		}
		note(out.feats, op, class, want)
		commit()
	}
	return out
}

func histString(ops []Op) string {
	parts := make([]string, 0, len(ops))
	for _, o := range ops {
		parts = append(parts, o.String())
	}
	return strings.Join(parts, "; ")
}

func caseSig(c Case) string {
	b, _ := json.Marshal(c)
	return string(b)
}

func seqClass(f map[string]bool) string {
	exp := f["read-after-expiry"] || f["setnx-after-expiry"] || f["container-op-after-expiry"] || f["cas-after-expiry"]
	hit := f["cas-on-never-expiring-key"] || f["setnx-on-never-expiring-key"]
	switch {
	case exp && hit:
		return "seq:expiry+cas/setnx-on-never-expiring"
	case exp:
		return "seq:expiry"
	case hit:
		return "seq:cas/setnx-on-never-expiring"
	}
	return "seq:plain"
}

// best (shortest) failing history per root-cause key seen by this process
var bestRepro = map[string]struct {
	c      Case
	detail string
}{}

// minimize drops single operations (never the last, deviating one) while the same
// root cause reproduces; done once per key and never for listed findings.
func minimize(key, detail string, c Case, rerun func([]Op) (string, string)) (Case, string) {
	if vkit.IsKnown(key) {
		return c, detail
	}
	if b, ok := bestRepro[key]; ok {
		if len(b.c.Ops) <= len(c.Ops) {
			return b.c, b.detail
		}
	}
	cur := append([]Op(nil), c.Ops...)
	budget := 80
	for i := len(cur) - 2; i >= 0 && budget > 0; i-- {
		cand := append(append([]Op{}, cur[:i]...), cur[i+1:]...)
		budget--
		if k, d := rerun(cand); k == key {
			cur, detail = cand, d
		}
	}
	c.Ops = cur
	bestRepro[key] = struct {
		c      Case
		detail string
	}{c, detail}
	return c, detail
}

func finishSeq(t vkit.TB, c Case, out outcome) {
	if out.key != "" {
		c.Ops = c.Ops[:out.step+1]
		c, out.detail = minimize(out.key, out.detail, c, func(ops []Op) (string, string) { o := runSeq(ops); return o.key, o.detail })
		vkit.Violation(t, out.key, out.detail, c)
		vkit.Case("known:"+out.key, false, "")
		return
	}
	if out.skipped {
		vkit.Skipped(1)
	}
	class := seqClass(out.feats)
	vkit.Case(class, class != "seq:plain", caseSig(c))
	vkit.Sample(class, histString(c.Ops))
	for f := range out.feats {
		vkit.Class("feat:" + f)
	}
}

// TestSequentialModel: rapid-drawn histories, generated in lockstep with the model so
// that CAS / RemoveFromList arguments hit the current contents half of the time.
func TestSequentialModel(t *testing.T) {
	maxOps := 40
	maxSleeps := vkit.Pick(2, 3)
	vkit.Check(t, 3000, 40000, func(t *rapid.T) {
		n := rapid.IntRange(4, maxOps).Draw(t, "nops")
		// shadow model used only to bias argument generation (time = sleeps)
		shadow := map[string]kstate{}
		shortKeys := map[string]bool{}
		sleeps := 0
		c := Case{Part: "seq"}
		for i := 0; i < n; i++ {
			op := genOp(t, seqOpKinds, seqKeys, seqTTLs, func(k string) kstate { return shadow[k] })
			if op.Kind == "sleep" {
				if sleeps >= maxSleeps {
					continue
				}
				sleeps++
				for k := range shortKeys {
					delete(shadow, k)
					delete(shortKeys, k)
				}
			} else if op.Kind != "CleanupExpired" {
				st2, _, act := step(shadow[op.Key], op)
				shadow[op.Key] = st2
				switch act {
				case expTTL:
					shortKeys[op.Key] = op.TTL == ttlShort
					if !shortKeys[op.Key] {
						delete(shortKeys, op.Key)
					}
				case expNever, expDefault, expGone:
					delete(shortKeys, op.Key)
				}
			}
			c.Ops = append(c.Ops, op)
		}
		finishSeq(t, c, runSeq(c.Ops))
	})
}

// TestReplay re-executes a saved JSON case (VERIF_REPLAY=path).
func TestReplay(t *testing.T) {
	path := vkit.Replaying()
	if path == "" {
		t.Skip("no VERIF_REPLAY")
	}
	var c Case
	if _, err := vkit.LoadReplay(path, &c); err != nil {
		t.Fatalf("bad replay file: %v", err)
	}
	switch c.Part {
	case "seq":
		finishSeq(t, c, runSeq(c.Ops))
	case "conc":
		for round := 0; round < 200; round++ {
			if out := runConc(c); out.key != "" {
				finishConc(t, c, out)
				return
			}
		}
		t.Logf("concurrent history linearizable in 200 executions")
	case "diff":
		finishDiff(t, c, runDiff(c.Ops))
	case "life":
		finishLife(t, c, runLife(c.Ops))
	case "hashprobe":
		if crashed, tail := probeHashReaders(); crashed {
			vkit.Violation(t, "C13/memory-hash-read/map-accessed-outside-lock", tail, c)
		}
	default:
		t.Fatalf("unknown part %q", c.Part)
	}
}
