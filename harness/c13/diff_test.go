// (c) differential: the same sequential history on memory.Storage and on the Redis
// backend over miniredis, restricted to the shapes the repositories use.
//
// Normalisation (see check.json): GetList / GetAllHash not-found == empty; scalars
// compared by string form; errors by class; lifetimes by class; SetExpiration's error
// on an absent key not compared; an emptied list/hash is deleted right away; one harness
// sleep = 36 ms real time for memory and 2 s virtual time for miniredis.
package c13

import (
	"context"
	"fmt"
	"math"
	"strings"
	"sync"
	"testing"
	"time"

	"github.com/alicebob/miniredis/v2"
	goredis "github.com/redis/go-redis/v9"
	"pgregory.net/rapid"

	"tunnox-core/internal/core/storage/memory"
	redisstore "tunnox-core/internal/core/storage/redis"
	"tunnox-core/verif/vkit"
)

var _ store = (*redisstore.Storage)(nil)

type nopRedisLog struct{}

func (nopRedisLog) Printf(context.Context, string, ...interface{}) {}

var (
	redisOnce sync.Once
	mini      *miniredis.Miniredis
	redisSt   *redisstore.Storage
	redisErr  error
)

func redisBackend() (*redisstore.Storage, *miniredis.Miniredis, error) {
	redisOnce.Do(func() {
		goredis.SetLogger(nopRedisLog{}) // go-redis logs every sub-second EXPIRE it rounds up
		mini, redisErr = miniredis.Run()
		if redisErr != nil {
			return
		}
		redisSt, redisErr = redisstore.New(context.Background(), &redisstore.Config{Addr: mini.Addr(), PoolSize: 4})
	})
	return redisSt, mini, redisErr
}

// normDiff maps an answer to the backend-neutral form that is compared.
func normDiff(op Op, r Res) string {
	ec := r.errClass()
	switch op.Kind {
	case "GetList":
		if ec == "notfound" {
			return "ok:[]"
		}
	case "GetAllHash":
		if ec == "notfound" {
			return "ok:{}"
		}
	case "SetExpiration":
		if ec == "notfound" {
			return "ok" // memory reports not-found, Redis EXPIRE/PERSIST on a missing key is silent; callers ignore it
		}
	}
	if ec != "" {
		return "err:" + ec
	}
	switch op.Kind {
	case "Get":
		return "ok:" + canon(r.V, false)
	case "GetHash", "GetList", "GetAllHash":
		return "ok:" + canon(normList(r.V), true)
	case "Exists", "SetNX", "CompareAndSwap":
		return fmt.Sprintf("ok:%v", r.B)
	case "Incr", "IncrBy":
		return fmt.Sprintf("ok:%d", r.N)
	case "GetExpiration":
		if r.D > 2*time.Second {
			return "ok:more-than-2s"
		}
		return "ok:none-or-short"
	}
	return "ok"
}

func exactErr(r Res) string {
	if ec := r.errClass(); ec != "" {
		return "err:" + ec
	}
	return "ok"
}

func wantForDiff(op Op, want Res) Res {
	if op.Kind == "GetExpiration" && want.Err == "" {
		if want.N == 0 {
			want.D = 0
		} else {
			want.D = time.Duration(want.N)
		}
	}
	return want
}

type diffOut struct {
	outcome
	modelDisagrees bool
}

func runDiff(ops []Op) diffOut {
	out := diffOut{outcome: outcome{feats: map[string]bool{}}}
	rs, mr, err := redisBackend()
	if err != nil {
		panic("cannot start the miniredis-backed Redis storage: " + err.Error())
	}
	mr.FlushAll()
	mem := memory.New(context.Background())
	defer mem.Close()
	m := newSeqModel()
	epoch := 0
	shortEpoch := map[string]int{}
	for i, op := range ops {
		if op.Kind == "sleep" {
			time.Sleep(sleepDur)
			mr.FastForward(2 * time.Second)
			epoch++
			continue
		}
		t0 := time.Now()
		gm := execOp(mem, op, false)
		t1 := time.Now()
		gr := execOp(rs, op, false)
		want, class, commit, ok := m.predict(op, t0, t1)
		if !ok {
			out.skipped = true
			return out
		}
		if e, has := shortEpoch[op.Key]; has && e == epoch && strings.HasPrefix(class, "expired-") {
			// the short lifetime ran out in real time before the harness advanced miniredis' clock
			out.skipped = true
			return out
		}
		if op.TTL == ttlShort {
			shortEpoch[op.Key] = epoch
		}
		writer, stored := "", kstate{}
		if e := m.keys[op.Key]; e != nil {
			writer, stored = e.writer, e.st
		}
		nm, nr, nw := normDiff(op, gm), normDiff(op, gr), normDiff(op, wantForDiff(op, want))
		if op.Kind == "SetExpiration" && want.Err == "" {
			// the key exists (both backends agree so far): re-timing it must succeed on both; only the
			// answer on a MISSING key is backend-specific and left uncompared by normDiff
			nm, nr = exactErr(gm), exactErr(gr)
		}
		if op.Kind == "SetExpiration" && strings.HasPrefix(class, "expired-") && gm.Err == "" {
			// the answers are not compared across backends (see normDiff), but on the memory side an
			// accepted SetExpiration brings the expired value back: every later read would differ
			out.step = i
			out.key = classify(op, class, writer, "got-ok-want-notfound", gm, want, stored)
			out.detail = fmt.Sprintf("step %d %s on %s key: memory accepted it (the expired value is live again), redis has no such key; history: %s", i, op, class, histString(ops[:i+1]))
			return out
		}
		if nm != nr {
			out.step = i
			switch {
			case nr == nw:
				_, symptom := sameExact(op, gm, want)
				if symptom == "" {
					symptom = "mem=" + nm
				}
				out.key = classify(op, class, writer, symptom, gm, want, stored)
			case nm == nw && (op.Kind == "GetHash" || op.Kind == "GetAllHash") && gr.Err == "" && gm.Err == "" &&
				canon(normList(gm.V), false) == canon(normList(gr.V), false):
				out.key = "C13/redis-hash/integer-field-read-back-as-float64"
			case nm == nw && (op.Kind == "GetHash" || op.Kind == "GetAllHash" || op.Kind == "GetList") && gr.Err == "" && gm.Err == "":
				out.key = "C13/redis-container/" + op.Kind + "/contents-differ-from-memory-and-model"
			case nm == nw:
				out.key = fmt.Sprintf("C13/redis/%s/on=%s/memory-and-model=%s/redis=%s", opTag(op), coarse(class, gr, want), shortForm(nm), shortForm(nr))
			default:
				out.key = fmt.Sprintf("C13/diff/%s/on=%s/memory=%s/redis=%s", opTag(op), coarse(class, gm, gr), shortForm(nm), shortForm(nr))
			}
			out.detail = fmt.Sprintf("step %d %s on %s key (lifetime set by %q): memory %s, redis %s, model %s; history: %s",
				i, op, class, writer, nm, nr, nw, histString(ops[:i+1]))
			return out
		}
		if nm != nw {
			out.modelDisagrees = true
			out.detail = fmt.Sprintf("step %d %s: both backends %s, model %s; %s", i, op, nm, nw, histString(ops[:i+1]))
			return out
		}
		note(out.feats, op, class, want)
		if bigInts(want.V) && (op.Kind == "GetHash" || op.Kind == "GetAllHash" || op.Kind == "GetList" || op.Kind == "Get") {
			out.feats["diff:"+op.Kind+"-returns-integer-beyond-2^53"] = true
		}
		if strings.HasPrefix(class, "expired-") {
			out.feats["diff:"+op.Kind+"-after-expiry"] = true
		}
		commit()
	}
	return out
}

// shortForm keeps the answer class and drops the payload ("ok:true" stays, "ok:[...]" becomes "ok:value").
func shortForm(s string) string {
	switch {
	case strings.HasPrefix(s, "err:"), s == "ok", s == "ok:true", s == "ok:false", s == "ok:[]", s == "ok:{}",
		s == "ok:more-than-2s", s == "ok:none-or-short":
		return s
	}
	return "ok:value"
}

func finishDiff(t vkit.TB, c Case, out diffOut) {
	if out.key != "" {
		c.Ops = c.Ops[:out.step+1]
		c, out.detail = minimize(out.key, out.detail, c, func(ops []Op) (string, string) { o := runDiff(ops); return o.key, o.detail })
		vkit.Violation(t, out.key, out.detail, c)
		vkit.Case("known:"+out.key, false, "")
		return
	}
	if out.modelDisagrees {
		// both backends agree with each other: not a finding of the differential part
		vkit.AddExtra("diff_backends_agree_model_differs", 1)
		t.Logf("note: %s", out.detail)
	}
	if out.skipped {
		vkit.Skipped(1)
	}
	exp := false
	for f := range out.feats {
		if strings.HasSuffix(f, "-after-expiry") {
			exp = true
		}
	}
	class := "diff:plain"
	if exp {
		class = "diff:expiry-observed-on-both"
	} else if out.feats["cas-on-never-expiring-key"] || out.feats["setnx-on-never-expiring-key"] {
		class = "diff:cas/setnx-on-never-expiring"
	}
	vkit.Case(class, class != "diff:plain", caseSig(c))
	vkit.Sample(class, histString(c.Ops))
	for f := range out.feats {
		if strings.HasPrefix(f, "diff:") {
			vkit.Class("feat:" + f)
		} else {
			vkit.Class("feat:diff:" + f)
		}
	}
}

// ---------------------------------------------------------------------------
// generator: one value kind per key, repository shapes only

type diffKey struct {
	name, kind string
}

var diffKeys = []diffKey{{"s1", "scalar"}, {"s2", "scalar"}, {"n1", "intscalar"}, {"l1", "list"}, {"l2", "list"}, {"h1", "hash"}, {"h1", "hash"}, {"c1", "counter"}}

// integers at the edges of what survives a trip through JSON / float64
var edgeInts = []int64{
	0, -1, 42, 1<<31 - 1, 1 << 31, -(1 << 31) - 1, 1 << 40,
	1<<53 - 1, 1 << 53, 1<<53 + 1, -(1<<53 + 1), 1<<53 + 3, 1<<62 + 12345,
	math.MaxInt64, math.MaxInt64 - 1, math.MinInt64, math.MinInt64 + 1,
}

func genEdgeInt(t *rapid.T, label string) *Val {
	return iv(rapid.SampledFrom(edgeInts).Draw(t, label))
}

// genMember: list members are strings or exact int64 (other integer kinds would change
// RemoveFromList's equality: memory compares Go values, Redis the JSON text).
func genMember(t *rapid.T, label string) *Val {
	switch rapid.IntRange(0, 7).Draw(t, label+"Class") {
	case 0:
		return genEdgeInt(t, label+"Edge")
	case 1, 2:
		return genDiffStr(t, label)
	}
	return sv(rapid.SampledFrom(escStr).Draw(t, label+"Esc"))
}

var diffKinds = map[string][]string{
	"intscalar": {"Set", "Set", "Get", "Get", "Delete", "Exists", "SetNX", "CompareAndSwap", "CompareAndSwap"},
	"scalar":    {"Set", "Set", "Get", "Get", "Delete", "Exists", "SetNX", "SetNX", "CompareAndSwap", "CompareAndSwap", "CompareAndSwap", "SetExpiration", "GetExpiration"},
	"list":      {"SetList", "GetList", "GetList", "AppendToList", "AppendToList", "AppendToList", "RemoveFromList", "RemoveFromList", "Delete", "Exists"},
	"hash":      {"SetHash", "SetHash", "SetHash", "SetHash", "GetHash", "GetHash", "GetHash", "GetAllHash", "GetAllHash", "DeleteHash", "Delete", "Exists", "SetExpiration", "SetExpiration", "GetExpiration"},
	"counter":   {"Incr", "Incr", "Incr", "IncrBy", "Get", "Delete", "Exists", "SetExpiration", "SetExpiration", "GetExpiration", "GetExpiration"},
}

var diffFields = []string{"f1", "f2", "f3", "f4", "f5"}

var diffStr = []string{"a", "b", "7", `{"id":1}`, `{"id":2,"s":"x y"}`, "héllo<&>", "lock-owner:1700000000"}

// list members / hash values whose JSON text depends on the encoder's escaping rules
// (HTML escaping of & < >, quotes, backslash, U+2028/2029, control characters, non-BMP runes)
var escStr = []string{
	"https://h.example/p?a=1&b=2", "<b>bold</b>", `{"url":"/x?a=1&b=<2>","t":"<i>"}`, "a&b", "1<2", "2>1",
	`say "hi"`, `back\slash`, "line\u2028sep\u2029end", "tab\tnl\nctl\x01", "emoji😀𝄞", "a", "b",
}

func genDiffStr(t *rapid.T, label string) *Val {
	return sv(rapid.SampledFrom(diffStr).Draw(t, label))
}

// genDiffOp draws the next call. touched: hash keys whose lifetime was set explicitly
// (see the SetHash case).
func genDiffOp(t *rapid.T, shadow map[string]kstate, touched map[string]bool) Op {
	if rapid.IntRange(0, 8).Draw(t, "sleep?") == 0 {
		return Op{Kind: "sleep"}
	}
	k := rapid.SampledFrom(diffKeys).Draw(t, "key")
	op := Op{Kind: rapid.SampledFrom(diffKinds[k.kind]).Draw(t, "op"), Key: k.name}
	cur := shadow[k.name]
	if !cur.Present {
		delete(touched, k.name)
	}
	if k.kind == "hash" {
		h, _ := cur.V.(map[string]any)
		switch {
		case op.Kind == "SetExpiration" && len(h) == 0:
			op.Kind = "SetHash" // nothing to re-time yet
		case op.Kind == "SetExpiration":
			touched[k.name] = true
		case op.Kind == "DeleteHash" && touched[k.name] && len(h) <= 2:
			op.Kind = "GetHash"
		}
	}
	if k.kind == "intscalar" {
		// a scalar key that only ever holds int64 (mixing "7" and 7 under one key would compare
		// Go values on memory and text on Redis; no caller does)
		switch op.Kind {
		case "Set", "SetNX":
			op.Val = genEdgeInt(t, "val")
			op.TTL = rapid.SampledFrom(ttlPool).Draw(t, "ttl")
		case "CompareAndSwap":
			if c := rapid.IntRange(0, 9).Draw(t, "oldClass"); c < 6 && cur.Present {
				op.Old = valOf(cur.V)
			} else if c == 9 {
				op.Old = nil
			} else {
				op.Old = genEdgeInt(t, "old")
			}
			op.Val = genEdgeInt(t, "new")
			op.TTL = rapid.SampledFrom([]string{ttlZero, ttlZero, ttlLong}).Draw(t, "ttl")
		}
		return op
	}
	switch op.Kind {
	case "Set", "SetNX":
		op.Val = genDiffStr(t, "val")
		op.TTL = rapid.SampledFrom(ttlPool).Draw(t, "ttl")
	case "CompareAndSwap":
		c := rapid.IntRange(0, 9).Draw(t, "oldClass")
		switch {
		case c < 6 && cur.Present:
			op.Old = valOf(cur.V)
		case c == 9:
			op.Old = nil
		default:
			op.Old = genDiffStr(t, "old")
		}
		op.Val = genDiffStr(t, "new")
		op.TTL = rapid.SampledFrom([]string{ttlZero, ttlZero, ttlLong}).Draw(t, "ttl") // sub-second CAS lifetimes: no caller, Redis truncates
	case "SetExpiration":
		op.TTL = rapid.SampledFrom([]string{ttlZero, ttlZero, ttlShort, ttlLong}).Draw(t, "ttl")
	case "SetList":
		n := rapid.IntRange(0, 4).Draw(t, "n")
		if l, ok := cur.V.([]any); ok && len(l) > 0 && rapid.IntRange(0, 3).Draw(t, "replaceByEmpty") == 0 {
			n = 0
		}
		for i := 0; i < n; i++ {
			op.Vals = append(op.Vals, *genMember(t, "elem"))
		}
		op.TTL = rapid.SampledFrom(ttlPool).Draw(t, "ttl")
	case "AppendToList":
		op.Val = genMember(t, "val")
	case "RemoveFromList":
		op.Val = genMember(t, "val")
		if l, ok := cur.V.([]any); ok && len(l) > 0 && rapid.IntRange(0, 3).Draw(t, "member") > 0 {
			op.Val = valOf(l[rapid.IntRange(0, len(l)-1).Draw(t, "idx")])
		}
	case "SetHash":
		op.Field = rapid.SampledFrom(diffFields).Draw(t, "field")
		if h, _ := cur.V.(map[string]any); touched[k.name] && len(h) == 1 {
			// Redis re-applies the 24 h default whenever a hash has exactly one field after HSET (its
			// test for "new key"): overwriting the only field of a hash with an explicit lifetime
			// would differ from memory for that Redis-only reason. Add a NEW field instead.
			for _, f := range diffFields {
				if _, has := h[f]; !has {
					op.Field = f
					break
				}
			}
		}
		switch rapid.IntRange(0, 6).Draw(t, "intValue") {
		case 0, 1:
			op.Val = iv(int64(rapid.IntRange(0, 100000).Draw(t, "count"))) // stats counters store int64 fields
		case 2, 3:
			op.Val = genEdgeInt(t, "edge")
		case 5:
			op.Val = sv(rapid.SampledFrom(escStr).Draw(t, "esc"))
		case 4:
			// other integer kinds: compared as "integer with this exact value" (stats readers accept
			// int64 and int; memory hands back the stored kind, Redis always int64 - not asserted)
			kind := rapid.SampledFrom([]string{"int", "i32", "u"}).Draw(t, "goKind")
			n := rapid.SampledFrom(edgeInts).Draw(t, "edge")
			switch kind {
			case "i32":
				n = int64(int32(n))
			case "u":
				if n < 0 {
					n = -(n + 1)
				}
			}
			op.Val = &Val{T: kind, I: n}
		default:
			op.Val = genDiffStr(t, "val")
		}
	case "GetHash", "DeleteHash":
		op.Field = rapid.SampledFrom(diffFields).Draw(t, "field")
		if h, ok := cur.V.(map[string]any); ok && op.Kind == "GetHash" && rapid.IntRange(0, 3).Draw(t, "present") > 0 {
			for _, f := range diffFields { // first field that holds a value (pool order: deterministic)
				if _, has := h[f]; has {
					op.Field = f
					break
				}
			}
		}
	case "IncrBy":
		op.N = int64(rapid.IntRange(1, 10).Draw(t, "delta"))
	}
	return op
}

// bigInts: v holds an integer that float64 cannot represent exactly or that sits at the int64 limits.
func bigInts(v any) bool {
	switch x := v.(type) {
	case int64:
		return x > 1<<53 || x < -(1<<53)
	case int:
		return bigInts(int64(x))
	case uint:
		return x > 1<<53
	case []any:
		for _, e := range x {
			if bigInts(e) {
				return true
			}
		}
	case map[string]any:
		for _, e := range x {
			if bigInts(e) {
				return true
			}
		}
	}
	return false
}

func isEmptyContainer(st kstate) bool {
	if !st.Present {
		return false
	}
	switch x := st.V.(type) {
	case []any:
		return len(x) == 0
	case map[string]any:
		return len(x) == 0
	}
	return false
}

// TestDifferentialRedis
func TestDifferentialRedis(t *testing.T) {
	if _, _, err := redisBackend(); err != nil {
		t.Fatalf("inconclusive: miniredis-backed Redis storage unavailable: %v", err)
	}
	vkit.Check(t, 400, 6000, func(t *rapid.T) {
		n := rapid.IntRange(4, 40).Draw(t, "nops")
		shadow := map[string]kstate{}
		shortKeys := map[string]bool{}
		sleeps := 0
		c := Case{Part: "diff"}
		touched := map[string]bool{}
		apply := func(op Op) {
			st2, _, act := step(shadow[op.Key], op)
			shadow[op.Key] = st2
			switch act {
			case expTTL:
				if op.TTL == ttlShort {
					shortKeys[op.Key] = true
				} else {
					delete(shortKeys, op.Key)
				}
			case expNever, expDefault, expGone:
				delete(shortKeys, op.Key)
			}
			c.Ops = append(c.Ops, op)
			if isEmptyContainer(st2) {
				// Redis has no empty list/hash: the key vanishes with its last member, memory keeps an
				// empty container (and its lifetime). No repository depends on either: normalise by deleting.
				// (read it first: "replaced by nothing" must not leave the previous members behind)
				if _, isList := st2.V.([]any); isList {
					c.Ops = append(c.Ops, Op{Kind: "GetList", Key: op.Key})
				} else {
					c.Ops = append(c.Ops, Op{Kind: "GetAllHash", Key: op.Key})
				}
				c.Ops = append(c.Ops, Op{Kind: "Delete", Key: op.Key})
				delete(shadow, op.Key)
				delete(shortKeys, op.Key)
				delete(touched, op.Key)
			}
		}
		for i := 0; i < n; i++ {
			op := genDiffOp(t, shadow, touched)
			if op.Kind == "sleep" {
				if sleeps >= vkit.Pick(2, 3) {
					continue
				}
				sleeps++
				for k := range shortKeys {
					delete(shadow, k)
					delete(shortKeys, k)
					delete(touched, k)
				}
				c.Ops = append(c.Ops, op)
				continue
			}
			apply(op)
			// look at a container right after changing it
			switch op.Kind {
			case "SetExpiration":
				// removing a deadline that is not there (any more) is still a success on an existing key
				if op.TTL == ttlZero && rapid.Bool().Draw(t, "again") {
					apply(op)
				}
			case "RemoveFromList", "AppendToList", "SetList":
				if rapid.IntRange(0, 2).Draw(t, "readBack") > 0 {
					apply(Op{Kind: "GetList", Key: op.Key})
				}
			case "SetHash":
				if rapid.IntRange(0, 2).Draw(t, "readBack") == 0 {
					apply(Op{Kind: "GetHash", Key: op.Key, Field: op.Field})
				}
			}
		}
		finishDiff(t, c, runDiff(c.Ops))
	})
}

// TestLongLists: a few lists around the sizes at which a paged reader turns a page
// (256, 512, ...), built with SetList and with AppendToList, read on both backends.
func TestLongLists(t *testing.T) {
	if _, _, err := redisBackend(); err != nil {
		t.Fatalf("inconclusive: miniredis-backed Redis storage unavailable: %v", err)
	}
	sizes := []int{257, 513, 1000, 256, 255, 512, 258, 769}
	if vkit.Thorough() {
		sizes = append(sizes, 1024, 1025, 2049, 4097)
	}
	member := func(i int) *Val {
		if i%97 == 13 {
			return sv("dup") // repeated member: RemoveFromList must take all of them
		}
		return sv(fmt.Sprintf("m%04d&<%d>", i, i))
	}
	for idx, n := range sizes {
		if !vkit.Mine(idx) {
			continue
		}
		for _, how := range []string{"SetList", "AppendToList"} {
			c := Case{Part: "diff"}
			if how == "SetList" {
				op := Op{Kind: "SetList", Key: "l1", TTL: ttlZero}
				for i := 0; i < n; i++ {
					op.Vals = append(op.Vals, *member(i))
				}
				c.Ops = append(c.Ops, op)
			} else {
				for i := 0; i < n; i++ {
					c.Ops = append(c.Ops, Op{Kind: "AppendToList", Key: "l1", Val: member(i)})
				}
			}
			c.Ops = append(c.Ops, Op{Kind: "GetList", Key: "l1"},
				Op{Kind: "RemoveFromList", Key: "l1", Val: sv("dup")}, Op{Kind: "GetList", Key: "l1"},
				Op{Kind: "RemoveFromList", Key: "l1", Val: member(n - 1)}, Op{Kind: "GetList", Key: "l1"},
				Op{Kind: "AppendToList", Key: "l1", Val: sv("tail")}, Op{Kind: "GetList", Key: "l1"})
			out := runDiff(c.Ops)
			if out.key != "" {
				out.key = strings.Replace(out.key, "C13/redis-container/GetList/", fmt.Sprintf("C13/redis-container/GetList/long-list(%s)/", how), 1)
				vkit.Violation(t, out.key, out.detail[:min(len(out.detail), 900)], c)
				vkit.Case("known:"+out.key, false, "")
				continue
			}
			vkit.Case("diff:long-list", true, fmt.Sprintf("long-%s-%d", how, n))
			vkit.Class(fmt.Sprintf("feat:diff:long-list-%d-members", n))
		}
	}
}
