// (c) differential: the same sequential history on memory.Storage and on the Redis
// backend over miniredis, restricted to the shapes the repositories use.
//
// Normalisation (see check.json): GetList / GetAllHash not-found == empty; scalars
// compared by string form; errors by class; lifetimes by class; SetExpiration's error
// on an absent key not compared; an emptied list/hash is deleted right away; one harness
// sleep = 36 ms real time for memory and 2 s virtual time for miniredis.
package c13

import (
	"context"
	"fmt"
	"strings"
	"sync"
	"testing"
	"time"

	"github.com/alicebob/miniredis/v2"
	goredis "github.com/redis/go-redis/v9"
	"pgregory.net/rapid"

	"tunnox-core/internal/core/storage/memory"
	redisstore "tunnox-core/internal/core/storage/redis"
	"tunnox-core/verif/vkit"
)

var _ store = (*redisstore.Storage)(nil)

type nopRedisLog struct{}

func (nopRedisLog) Printf(context.Context, string, ...interface{}) {}

var (
	redisOnce sync.Once
	mini      *miniredis.Miniredis
	redisSt   *redisstore.Storage
	redisErr  error
)

func redisBackend() (*redisstore.Storage, *miniredis.Miniredis, error) {
	redisOnce.Do(func() {
		goredis.SetLogger(nopRedisLog{}) // go-redis logs every sub-second EXPIRE it rounds up
		mini, redisErr = miniredis.Run()
		if redisErr != nil {
			return
		}
		redisSt, redisErr = redisstore.New(context.Background(), &redisstore.Config{Addr: mini.Addr(), PoolSize: 4})
	})
	return redisSt, mini, redisErr
}

// normDiff maps an answer to the backend-neutral form that is compared.
func normDiff(op Op, r Res) string {
	ec := r.errClass()
	switch op.Kind {
	case "GetList":
		if ec == "notfound" {
			return "ok:[]"
		}
	case "GetAllHash":
		if ec == "notfound" {
			return "ok:{}"
		}
	case "SetExpiration":
		if ec == "notfound" {
			return "ok" // memory reports not-found, Redis EXPIRE/PERSIST on a missing key is silent; callers ignore it
		}
	}
	if ec != "" {
		return "err:" + ec
	}
	switch op.Kind {
	case "Get":
		return "ok:" + canon(r.V, false)
	case "GetHash", "GetList", "GetAllHash":
		return "ok:" + canon(normList(r.V), true)
	case "Exists", "SetNX", "CompareAndSwap":
		return fmt.Sprintf("ok:%v", r.B)
	case "Incr", "IncrBy":
		return fmt.Sprintf("ok:%d", r.N)
	case "GetExpiration":
		if r.D > 2*time.Second {
			return "ok:more-than-2s"
		}
		return "ok:none-or-short"
	}
	return "ok"
}

func wantForDiff(op Op, want Res) Res {
	if op.Kind == "GetExpiration" && want.Err == "" {
		if want.N == 0 {
			want.D = 0
		} else {
			want.D = time.Duration(want.N)
		}
	}
	return want
}

type diffOut struct {
	outcome
	modelDisagrees bool
}

func runDiff(ops []Op) diffOut {
	out := diffOut{outcome: outcome{feats: map[string]bool{}}}
	rs, mr, err := redisBackend()
	if err != nil {
		panic("cannot start the miniredis-backed Redis storage: " + err.Error())
	}
	mr.FlushAll()
	mem := memory.New(context.Background())
	defer mem.Close()
	m := newSeqModel()
	epoch := 0
	shortEpoch := map[string]int{}
	for i, op := range ops {
		if op.Kind == "sleep" {
			time.Sleep(sleepDur)
			mr.FastForward(2 * time.Second)
			epoch++
			continue
		}
		t0 := time.Now()
		gm := execOp(mem, op, false)
		t1 := time.Now()
		gr := execOp(rs, op, false)
		want, class, commit, ok := m.predict(op, t0, t1)
		if !ok {
			out.skipped = true
			return out
		}
		if e, has := shortEpoch[op.Key]; has && e == epoch && strings.HasPrefix(class, "expired-") {
			// the short lifetime ran out in real time before the harness advanced miniredis' clock
			out.skipped = true
			return out
		}
		if op.TTL == ttlShort {
			shortEpoch[op.Key] = epoch
		}
		writer, stored := "", kstate{}
		if e := m.keys[op.Key]; e != nil {
			writer, stored = e.writer, e.st
		}
		nm, nr, nw := normDiff(op, gm), normDiff(op, gr), normDiff(op, wantForDiff(op, want))
		if op.Kind == "SetExpiration" && strings.HasPrefix(class, "expired-") && gm.Err == "" {
			// the answers are not compared across backends (see normDiff), but on the memory side an
			// accepted SetExpiration brings the expired value back: every later read would differ
			out.step = i
			out.key = classify(op, class, writer, "got-ok-want-notfound", gm, want, stored)
			out.detail = fmt.Sprintf("step %d %s on %s key: memory accepted it (the expired value is live again), redis has no such key; history: %s", i, op, class, histString(ops[:i+1]))
			return out
		}
		if nm != nr {
			out.step = i
			switch {
			case nr == nw:
				_, symptom := sameExact(op, gm, want)
				if symptom == "" {
					symptom = "mem=" + nm
				}
				out.key = classify(op, class, writer, symptom, gm, want, stored)
			case nm == nw && (op.Kind == "GetHash" || op.Kind == "GetAllHash") && gr.Err == "" && gm.Err == "" &&
				canon(normList(gm.V), false) == canon(normList(gr.V), false):
				out.key = "C13/redis-hash/integer-field-read-back-as-float64"
			case nm == nw:
				out.key = fmt.Sprintf("C13/redis/%s/on=%s/memory-and-model=%s/redis=%s", opTag(op), coarse(class, gr, want), shortForm(nm), shortForm(nr))
			default:
				out.key = fmt.Sprintf("C13/diff/%s/on=%s/memory=%s/redis=%s", opTag(op), coarse(class, gm, gr), shortForm(nm), shortForm(nr))
			}
			out.detail = fmt.Sprintf("step %d %s on %s key (lifetime set by %q): memory %s, redis %s, model %s; history: %s",
				i, op, class, writer, nm, nr, nw, histString(ops[:i+1]))
			return out
		}
		if nm != nw {
			out.modelDisagrees = true
			out.detail = fmt.Sprintf("step %d %s: both backends %s, model %s; %s", i, op, nm, nw, histString(ops[:i+1]))
			return out
		}
		note(out.feats, op, class, want)
		if strings.HasPrefix(class, "expired-") {
			out.feats["diff:"+op.Kind+"-after-expiry"] = true
		}
		commit()
	}
	return out
}

// shortForm keeps the answer class and drops the payload ("ok:true" stays, "ok:[...]" becomes "ok:value").
func shortForm(s string) string {
	switch {
	case strings.HasPrefix(s, "err:"), s == "ok", s == "ok:true", s == "ok:false", s == "ok:[]", s == "ok:{}",
		s == "ok:more-than-2s", s == "ok:none-or-short":
		return s
	}
	return "ok:value"
}

func finishDiff(t vkit.TB, c Case, out diffOut) {
	if out.key != "" {
		c.Ops = c.Ops[:out.step+1]
		c, out.detail = minimize(out.key, out.detail, c, func(ops []Op) (string, string) { o := runDiff(ops); return o.key, o.detail })
		vkit.Violation(t, out.key, out.detail, c)
		vkit.Case("known:"+out.key, false, "")
		return
	}
	if out.modelDisagrees {
		// both backends agree with each other: not a finding of the differential part
		vkit.AddExtra("diff_backends_agree_model_differs", 1)
		t.Logf("note: %s", out.detail)
	}
	if out.skipped {
		vkit.Skipped(1)
	}
	exp := false
	for f := range out.feats {
		if strings.HasSuffix(f, "-after-expiry") {
			exp = true
		}
	}
	class := "diff:plain"
	if exp {
		class = "diff:expiry-observed-on-both"
	} else if out.feats["cas-on-never-expiring-key"] || out.feats["setnx-on-never-expiring-key"] {
		class = "diff:cas/setnx-on-never-expiring"
	}
	vkit.Case(class, class != "diff:plain", caseSig(c))
	vkit.Sample(class, histString(c.Ops))
	for f := range out.feats {
		if strings.HasPrefix(f, "diff:") {
			vkit.Class("feat:" + f)
		} else {
			vkit.Class("feat:diff:" + f)
		}
	}
}

// ---------------------------------------------------------------------------
// generator: one value kind per key, repository shapes only

type diffKey struct {
	name, kind string
}

var diffKeys = []diffKey{{"s1", "scalar"}, {"s2", "scalar"}, {"l1", "list"}, {"l2", "list"}, {"h1", "hash"}, {"c1", "counter"}}

var diffKinds = map[string][]string{
	"scalar":  {"Set", "Set", "Get", "Get", "Delete", "Exists", "SetNX", "SetNX", "CompareAndSwap", "CompareAndSwap", "CompareAndSwap", "SetExpiration", "GetExpiration"},
	"list":    {"SetList", "GetList", "GetList", "AppendToList", "AppendToList", "AppendToList", "RemoveFromList", "RemoveFromList", "Delete", "Exists"},
	"hash":    {"SetHash", "SetHash", "SetHash", "GetHash", "GetAllHash", "DeleteHash", "Delete", "Exists"},
	"counter": {"Incr", "Incr", "IncrBy", "Get", "Delete", "Exists"},
}

var diffStr = []string{"a", "b", "7", `{"id":1}`, `{"id":2,"s":"x y"}`, "héllo<&>", "lock-owner:1700000000"}

func genDiffStr(t *rapid.T, label string) *Val {
	return sv(rapid.SampledFrom(diffStr).Draw(t, label))
}

func genDiffOp(t *rapid.T, shadow map[string]kstate) Op {
	if rapid.IntRange(0, 8).Draw(t, "sleep?") == 0 {
		return Op{Kind: "sleep"}
	}
	k := rapid.SampledFrom(diffKeys).Draw(t, "key")
	op := Op{Kind: rapid.SampledFrom(diffKinds[k.kind]).Draw(t, "op"), Key: k.name}
	cur := shadow[k.name]
	switch op.Kind {
	case "Set", "SetNX":
		op.Val = genDiffStr(t, "val")
		op.TTL = rapid.SampledFrom(ttlPool).Draw(t, "ttl")
	case "CompareAndSwap":
		c := rapid.IntRange(0, 9).Draw(t, "oldClass")
		switch {
		case c < 6 && cur.Present:
			op.Old = valOf(cur.V)
		case c == 9:
			op.Old = nil
		default:
			op.Old = genDiffStr(t, "old")
		}
		op.Val = genDiffStr(t, "new")
		op.TTL = rapid.SampledFrom([]string{ttlZero, ttlZero, ttlLong}).Draw(t, "ttl") // sub-second CAS lifetimes: no caller, Redis truncates
	case "SetExpiration":
		op.TTL = rapid.SampledFrom(ttlPool).Draw(t, "ttl")
	case "SetList":
		n := rapid.IntRange(0, 4).Draw(t, "n")
		for i := 0; i < n; i++ {
			op.Vals = append(op.Vals, *genDiffStr(t, "elem"))
		}
		op.TTL = rapid.SampledFrom(ttlPool).Draw(t, "ttl")
	case "AppendToList":
		op.Val = genDiffStr(t, "val")
	case "RemoveFromList":
		op.Val = genDiffStr(t, "val")
		if l, ok := cur.V.([]any); ok && len(l) > 0 && rapid.Bool().Draw(t, "member") {
			op.Val = valOf(l[rapid.IntRange(0, len(l)-1).Draw(t, "idx")])
		}
	case "SetHash":
		op.Field = rapid.SampledFrom(fieldPool).Draw(t, "field")
		if rapid.Bool().Draw(t, "intValue") {
			op.Val = iv(int64(rapid.IntRange(0, 100000).Draw(t, "count"))) // stats counters store int64 fields
		} else {
			op.Val = genDiffStr(t, "val")
		}
	case "GetHash", "DeleteHash":
		op.Field = rapid.SampledFrom(fieldPool).Draw(t, "field")
	case "IncrBy":
		op.N = int64(rapid.IntRange(1, 10).Draw(t, "delta"))
	}
	return op
}

func isEmptyContainer(st kstate) bool {
	if !st.Present {
		return false
	}
	switch x := st.V.(type) {
	case []any:
		return len(x) == 0
	case map[string]any:
		return len(x) == 0
	}
	return false
}

// TestDifferentialRedis
func TestDifferentialRedis(t *testing.T) {
	if _, _, err := redisBackend(); err != nil {
		t.Fatalf("inconclusive: miniredis-backed Redis storage unavailable: %v", err)
	}
	vkit.Check(t, 400, 6000, func(t *rapid.T) {
		n := rapid.IntRange(4, 40).Draw(t, "nops")
		shadow := map[string]kstate{}
		shortKeys := map[string]bool{}
		sleeps := 0
		c := Case{Part: "diff"}
		for i := 0; i < n; i++ {
			op := genDiffOp(t, shadow)
			if op.Kind == "sleep" {
				if sleeps >= vkit.Pick(2, 3) {
					continue
				}
				sleeps++
				for k := range shortKeys {
					delete(shadow, k)
					delete(shortKeys, k)
				}
				c.Ops = append(c.Ops, op)
				continue
			}
			st2, _, act := step(shadow[op.Key], op)
			shadow[op.Key] = st2
			switch act {
			case expTTL:
				if op.TTL == ttlShort {
					shortKeys[op.Key] = true
				} else {
					delete(shortKeys, op.Key)
				}
			case expNever, expDefault, expGone:
				delete(shortKeys, op.Key)
			}
			c.Ops = append(c.Ops, op)
			if isEmptyContainer(st2) {
				// Redis has no empty list/hash: the key vanishes with its last member, memory keeps an
				// empty container (and its lifetime). No repository depends on either: normalise by deleting.
				c.Ops = append(c.Ops, Op{Kind: "Delete", Key: op.Key})
				delete(shadow, op.Key)
				delete(shortKeys, op.Key)
			}
		}
		finishDiff(t, c, runDiff(c.Ops))
	})
}
