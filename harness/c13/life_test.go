// (d) lifetimes on the Redis backend in virtual time: every operation that takes a
// ttl is followed by reads just before and just after the ttl (miniredis FastForward,
// no real sleeps) and the answers are compared with the model. Whole-second ttls only:
// redis.CompareAndSwap truncates its ttl to whole seconds and go-redis rounds a
// sub-second EXPIRE up to 1 s (both masked, see check.json).
package c13

import (
	"fmt"
	"strings"
	"testing"
	"time"

	"pgregory.net/rapid"

	"tunnox-core/verif/vkit"
)

var lifeBase = time.Unix(1_700_000_000, 0)

var (
	lifeTTLs = []string{ttlZero, "1s", "2s", "90s"}
	lifeKeys = []string{"s1", "s2", "l1", "h1", "h1", "c1", "c1"}
)

func lifeWriterTag(op Op, class string, got Res) string {
	ttl := "[ttl>0]"
	if ttlDur(op.TTL) <= 0 {
		ttl = "[ttl=0]"
	}
	live := strings.HasPrefix(class, "never-expiring-") || strings.HasPrefix(class, "ttl-")
	switch op.Kind {
	case "SetHash":
		if !live {
			return "SetHash(create)[default-24h]"
		}
	case "Incr", "IncrBy":
		if !live {
			return op.Kind + "(create)[default-24h]"
		}
	case "Set", "SetList":
		return op.Kind + ttl
	case "SetNX":
		if got.B {
			return "SetNX" + ttl
		}
	case "SetExpiration":
		if live {
			return "SetExpiration" + ttl
		}
	case "CompareAndSwap":
		if got.B && live {
			return "CompareAndSwap(on-existing-key)" + ttl
		}
		if got.B {
			return "CompareAndSwap(create)" + ttl
		}
	}
	return ""
}

// lifeSame compares a Redis answer with the model's (normalised like the differential;
// a remaining lifetime must match within the 1 s resolution of TTL).
func lifeSame(op Op, got, want Res) (bool, string) {
	if op.Kind == "GetExpiration" && want.Err == "" && got.Err == "" {
		if want.N == 0 {
			if got.D != 0 {
				return false, "finite-lifetime-on-never-expiring-key"
			}
			return true, ""
		}
		r := want.D
		if got.D < r-time.Second || got.D > r+time.Second || (r > 1500*time.Millisecond && got.D <= 0) {
			return false, "wrong-remaining-lifetime"
		}
		return true, ""
	}
	a, b := normDiff(op, got), normDiff(op, wantForDiff(op, want))
	if op.Kind == "SetExpiration" && want.Err == "" {
		a = exactErr(got) // the key exists: re-timing it must succeed
	}
	if a == b {
		return true, ""
	}
	return false, "redis=" + shortForm(a) + "/model=" + shortForm(b)
}

type lifeOut struct {
	outcome
	observed map[string]bool // writer tags whose lifetime was probed on both sides of the deadline
}

func runLife(ops []Op) lifeOut {
	out := lifeOut{outcome: outcome{feats: map[string]bool{}}, observed: map[string]bool{}}
	rs, mr, err := redisBackend()
	if err != nil {
		panic("cannot start the miniredis-backed Redis storage: " + err.Error())
	}
	mr.FlushAll()
	m := newSeqModel()
	vnow := lifeBase
	writers := map[string]string{}
	lastWrite := map[string]string{} // last mutating call on the key (it may not be the one that set the lifetime)
	aliveSeen := map[string]bool{}
	for i, op := range ops {
		if op.Kind == "advance" {
			d := time.Duration(op.N) * time.Millisecond
			mr.FastForward(d)
			vnow = vnow.Add(d)
			continue
		}
		got := execOp(rs, op, false)
		want, class, commit, ok := m.predict(op, vnow, vnow)
		if !ok { // virtual clock exactly on a deadline
			out.skipped = true
			return out
		}
		w := writers[op.Key]
		if lw := lastWrite[op.Key]; lw != "" && w != "" && !strings.HasPrefix(w, lw) {
			w += "/last-write=" + lw
		}
		if same, symptom := lifeSame(op, got, want); !same {
			out.step = i
			expired := strings.HasPrefix(class, "expired-")
			live := strings.HasPrefix(class, "never-expiring-") || strings.HasPrefix(class, "ttl-")
			actsAbsent, actsAlive := false, false
			if live {
				_, wa, _ := step(kstate{}, op)
				actsAbsent, _ = lifeSame(op, got, wa)
			}
			if expired && op.Kind != "GetExpiration" {
				_, wl, _ := step(m.keys[op.Key].st, op)
				actsAlive, _ = lifeSame(op, got, wl)
			}
			switch {
			case op.Kind == "SetExpiration" && live && got.Err != "":
				out.key = fmt.Sprintf("C13/redis-lifetime/%s/refused-on-existing-key/on=%s", opTag(op), coarse(class, got, want))
			case expired && (actsAlive || (op.Kind == "GetExpiration" && got.Err == "")):
				out.key = "C13/redis-lifetime/outlives-its-ttl/lifetime-from=" + w
			case live && actsAbsent:
				out.key = "C13/redis-lifetime/gone-before-its-ttl/lifetime-from=" + w
			case op.Kind == "GetExpiration":
				out.key = "C13/redis-lifetime/" + symptom + "/lifetime-from=" + w
			default:
				out.key = fmt.Sprintf("C13/redis-lifetime/%s/on=%s/%s", opTag(op), coarse(class, got, want), symptom)
			}
			out.detail = fmt.Sprintf("step %d %s at virtual +%v on %s key (lifetime from %q): redis answered %s, map with expiry answers %s; history: %s",
				i, op, vnow.Sub(lifeBase), class, w, got, want, histString(ops[:i+1]))
			return out
		}
		if isRead(op.Kind) && w != "" {
			if strings.HasPrefix(class, "ttl-") || strings.HasPrefix(class, "never-expiring-") {
				aliveSeen[op.Key+w] = true
			}
			if strings.HasPrefix(class, "expired-") && aliveSeen[op.Key+w] {
				out.observed[w] = true
			}
			if strings.HasPrefix(class, "never-expiring-") && vnow.Sub(lifeBase) > time.Hour {
				out.observed[w+"/still-there-after-hours"] = true
			}
		}
		if !isRead(op.Kind) {
			lastWrite[op.Key] = op.Kind
		}
		if t := lifeWriterTag(op, class, got); t != "" {
			writers[op.Key] = t
			delete(aliveSeen, op.Key+t)
		}
		if op.Kind == "Delete" {
			delete(writers, op.Key)
		}
		commit()
	}
	return out
}

func finishLife(t vkit.TB, c Case, out lifeOut) {
	if out.key != "" {
		c.Ops = c.Ops[:out.step+1]
		c, out.detail = minimize(out.key, out.detail, c, func(ops []Op) (string, string) { o := runLife(ops); return o.key, o.detail })
		vkit.Violation(t, out.key, out.detail, c)
		vkit.Case("known:"+out.key, false, "")
		return
	}
	if out.skipped {
		vkit.Skipped(1)
	}
	class := "life:no-deadline-crossed"
	if len(out.observed) > 0 {
		class = "life:read-before-and-after-deadline"
	}
	vkit.Case(class, len(out.observed) > 0, caseSig(c))
	vkit.Sample(class, histString(c.Ops))
	for w := range out.observed {
		vkit.Class("life-probed:" + w)
	}
}

// TestRedisLifetimes
func TestRedisLifetimes(t *testing.T) {
	if _, _, err := redisBackend(); err != nil {
		t.Fatalf("inconclusive: miniredis-backed Redis storage unavailable: %v", err)
	}
	vkit.Check(t, 800, 12000, func(t *rapid.T) {
		shadow := newSeqModel()
		vnow := lifeBase
		c := Case{Part: "life"}
		emit := func(op Op) (Res, string) {
			c.Ops = append(c.Ops, op)
			if op.Kind == "advance" {
				vnow = vnow.Add(time.Duration(op.N) * time.Millisecond)
				return Res{}, ""
			}
			want, class, commit, ok := shadow.predict(op, vnow, vnow)
			if ok {
				commit()
			}
			return want, class
		}
		cur := func(k string) kstate {
			e := shadow.keys[k]
			if e.liveness(vnow, vnow) == isAlive {
				return e.st
			}
			return kstate{}
		}
		n := rapid.IntRange(2, 10).Draw(t, "nwrites")
		for i := 0; i < n; i++ {
			k := rapid.SampledFrom(lifeKeys).Draw(t, "key")
			op := Op{Key: k, TTL: rapid.SampledFrom(lifeTTLs).Draw(t, "ttl")}
			if k == "c1" {
				// counters: Incr/IncrBy on an absent key gives the 24 h default, on an existing counter it must
				// leave the lifetime alone (also "none" after SetExpiration 0). Increments are positive, so
				// an existing counter never equals its increment (Redis' own test for "new key").
				op.Kind = rapid.SampledFrom([]string{"Incr", "Incr", "IncrBy", "SetExpiration", "SetExpiration", "Delete"}).Draw(t, "op")
				if op.Kind == "SetExpiration" && !cur(k).Present {
					op.Kind = "Incr"
				}
				if op.Kind != "SetExpiration" {
					op.TTL = ""
				}
				if op.Kind == "IncrBy" {
					op.N = int64(rapid.IntRange(1, 10).Draw(t, "delta"))
				}
			} else if k == "h1" {
				// hashes: SetHash on an absent key gives the 24 h default, on an existing key it must leave
				// the lifetime alone. A hash that exists always gets a NEW field, so that it never has
				// exactly one field after HSET (Redis' own test for "new key", see check.json).
				op.Kind = rapid.SampledFrom([]string{"SetHash", "SetHash", "SetHash", "SetExpiration", "SetExpiration", "Delete"}).Draw(t, "op")
				h, _ := cur(k).V.(map[string]any)
				if op.Kind == "SetExpiration" && len(h) == 0 {
					op.Kind = "SetHash"
				}
				if op.Kind == "SetHash" {
					op.TTL = ""
					op.Field = rapid.SampledFrom(diffFields).Draw(t, "field")
					if len(h) == 1 || (len(h) > 0 && rapid.Bool().Draw(t, "newField")) {
						for _, f := range diffFields {
							if _, has := h[f]; !has {
								op.Field = f
								break
							}
						}
					}
					if rapid.Bool().Draw(t, "intVal") {
						op.Val = genEdgeInt(t, "val")
					} else {
						op.Val = genDiffStr(t, "val")
					}
				}
			} else if k == "l1" {
				op.Kind = rapid.SampledFrom([]string{"SetList", "SetList", "SetExpiration", "Delete"}).Draw(t, "op")
				if op.Kind == "SetList" {
					m := rapid.IntRange(1, 3).Draw(t, "n")
					if l, ok := cur(k).V.([]any); ok && len(l) > 0 && rapid.IntRange(0, 3).Draw(t, "replaceByEmpty") == 0 {
						m = 0 // replaced by nothing: read, then delete (Redis has no empty list; see check.json)
					}
					for j := 0; j < m; j++ {
						op.Vals = append(op.Vals, *genDiffStr(t, "elem"))
					}
				}
			} else {
				op.Kind = rapid.SampledFrom([]string{"Set", "SetNX", "CompareAndSwap", "CompareAndSwap", "CompareAndSwap", "SetExpiration", "Delete"}).Draw(t, "op")
				switch op.Kind {
				case "Set", "SetNX":
					op.Val = genDiffStr(t, "val")
				case "CompareAndSwap":
					st := cur(k)
					switch {
					case st.Present && rapid.IntRange(0, 4).Draw(t, "match") > 0:
						op.Old = valOf(st.V)
					case !st.Present && rapid.IntRange(0, 3).Draw(t, "create") > 0:
						op.Old = nil
					default:
						op.Old = genDiffStr(t, "old")
					}
					op.Val = genDiffStr(t, "new")
				}
			}
			if op.Kind == "Delete" {
				op.TTL = ""
			}
			emit(op)
			if op.Kind == "SetList" && len(op.Vals) == 0 {
				emit(Op{Kind: "GetList", Key: k})
				emit(Op{Kind: "Delete", Key: k})
				continue
			}
			if op.Kind == "SetExpiration" && ttlDur(op.TTL) <= 0 && rapid.Bool().Draw(t, "again") {
				emit(op)
			}
			reads := []string{"Get", "Exists", "GetExpiration"}
			if k == "l1" {
				reads = []string{"GetList", "Exists", "GetExpiration"}
			}
			if k == "h1" {
				reads = []string{"GetAllHash", "Exists", "GetExpiration", "GetExpiration"}
			}
			read := func() { emit(Op{Kind: rapid.SampledFrom(reads).Draw(t, "read"), Key: k}) }
			// probe the lifetime the key has now: just before and just after its deadline
			switch rapid.IntRange(0, 3).Draw(t, "probe") {
			case 0:
				read()
			case 1, 2:
				e := shadow.keys[k]
				if e != nil && e.liveness(vnow, vnow) == isAlive && !e.never {
					left := e.lo.Sub(vnow)
					if left > 150*time.Millisecond {
						emit(Op{Kind: "advance", N: int64((left - 100*time.Millisecond) / time.Millisecond)})
						read()
					}
					emit(Op{Kind: "advance", N: 200})
					read()
					if rapid.Bool().Draw(t, "again") {
						read()
					}
				} else if e != nil && e.never && e.st.Present {
					emit(Op{Kind: "advance", N: int64(rapid.SampledFrom([]int{3000, 100_000, 3 * 3600_000, 30 * 3600_000}).Draw(t, "long"))})
					read()
				} else {
					read()
				}
			case 3:
				emit(Op{Kind: "advance", N: int64(rapid.SampledFrom([]int{300, 900, 1100, 1900, 2100, 45_000, 95_000}).Draw(t, "step"))})
				read()
			}
		}
		finishLife(t, c, runLife(c.Ops))
	})
}
