// (b) concurrent histories on the memory backend, checked for linearizability
// against the single-key model with porcupine.
package c13

import (
	"context"
	"fmt"
	"os"
	"os/exec"
	"reflect"
	"runtime"
	"sort"
	"strings"
	"sync"
	"sync/atomic"
	"testing"
	"time"

	"github.com/anishathalye/porcupine"
	"pgregory.net/rapid"

	"tunnox-core/internal/core/storage/memory"
	"tunnox-core/verif/vkit"
)

type pIn struct {
	op   Op
	init *kstate
}

func concWant(op Op, want Res) Res {
	if op.Kind == "Get" {
		if _, isMap := want.V.(map[string]any); isMap {
			want.V = "<hash>"
		}
	}
	return want
}

var linModel = porcupine.Model{
	Partition: func(h []porcupine.Operation) [][]porcupine.Operation {
		by := map[string][]porcupine.Operation{}
		var order []string
		for _, o := range h {
			k := o.Input.(pIn).op.Key
			if _, ok := by[k]; !ok {
				order = append(order, k)
			}
			by[k] = append(by[k], o)
		}
		sort.Strings(order)
		out := make([][]porcupine.Operation, 0, len(order))
		for _, k := range order {
			out = append(out, by[k])
		}
		return out
	},
	Init: func() any { return kstate{} },
	Step: func(state, input, output any) (bool, any) {
		in := input.(pIn)
		if in.init != nil {
			return true, *in.init
		}
		st2, want, _ := step(state.(kstate), in.op)
		if in.op.Kind == "GetExpiration" {
			// lifetimes are not modelled in the concurrent part: found / not found only
			return output.(Res).errClass() == want.errClass(), st2
		}
		ok, _ := sameExact(in.op, output.(Res), concWant(in.op, want))
		return ok, st2
	},
	Equal: func(a, b any) bool {
		x, y := a.(kstate), b.(kstate)
		return x.Present == y.Present && reflect.DeepEqual(normList(x.V), normList(y.V))
	},
	DescribeOperation: func(input, output any) string {
		in := input.(pIn)
		if in.init != nil {
			return fmt.Sprintf("init %s=%#v", in.op.Key, in.init.V)
		}
		return fmt.Sprintf("%s -> %s", in.op, output.(Res))
	},
}

type concOut struct {
	key, detail string
	skipped     bool
	overlap     bool
	kinds       map[string]bool
}

type timedOp struct {
	g         int
	op        Op
	res       Res
	call, ret int64
}

// runConc: sequential set-up (checked like part a), then the programs run from a spin
// barrier; the recorded history is checked per key.
func runConc(c Case) concOut {
	out := concOut{kinds: map[string]bool{}}
	s := memory.New(context.Background())
	defer s.Close()
	m := newSeqModel()
	for i, op := range c.Pre {
		if op.Kind == "sleep" {
			time.Sleep(sleepDur)
			continue
		}
		t0 := time.Now()
		got := execOp(s, op, true)
		t1 := time.Now()
		want, class, commit, ok := m.predict(op, t0, t1)
		if !ok {
			out.skipped = true
			return out
		}
		writer, stored := "", kstate{}
		if e := m.keys[op.Key]; e != nil {
			writer, stored = e.writer, e.st
		}
		if same, symptom := sameExact(op, got, concWant(op, want)); !same {
			out.key = classify(op, class, writer, symptom, got, want, stored)
			out.detail = fmt.Sprintf("set-up step %d %s on %s key: memory answered %s, model %s; set-up: %s", i, op, class, got, want, histString(c.Pre[:i+1]))
			return out
		}
		commit()
	}
	// initial state per key; no deadline may fall into the concurrent phase
	now := time.Now()
	inits := map[string]kstate{}
	for k, e := range m.keys {
		switch e.liveness(now, now) {
		case isAlive:
			if !e.never && e.lo.Sub(now) < 10*time.Minute {
				out.skipped = true
				return out
			}
			inits[k] = e.st
		case isUncertain:
			out.skipped = true
			return out
		}
	}

	n := len(c.Progs)
	recs := make([][]timedOp, n)
	var ready, start int32
	// per-step rendezvous (bounded spin): the i-th calls of all goroutines are issued together
	maxLen := 0
	for _, p := range c.Progs {
		if len(p) > maxLen {
			maxLen = len(p)
		}
	}
	arrived := make([]int32, maxLen)
	expect := make([]int32, maxLen)
	for _, p := range c.Progs {
		for i := range p {
			expect[i]++
		}
	}
	var wg sync.WaitGroup
	base := time.Now()
	for g := 0; g < n; g++ {
		wg.Add(1)
		go func(g int) {
			defer wg.Done()
			prog := c.Progs[g]
			rec := make([]timedOp, 0, len(prog))
			atomic.AddInt32(&ready, 1)
			for atomic.LoadInt32(&start) == 0 {
			}
			for i, op := range prog {
				atomic.AddInt32(&arrived[i], 1)
				for spin := 0; spin < 4000 && atomic.LoadInt32(&arrived[i]) < expect[i]; spin++ {
				}
				call := int64(time.Since(base))
				res := execOp(s, op, true)
				ret := int64(time.Since(base))
				rec = append(rec, timedOp{g, op, res, call, ret})
			}
			recs[g] = rec
		}(g)
	}
	for atomic.LoadInt32(&ready) < int32(n) {
		runtime.Gosched()
	}
	atomic.StoreInt32(&start, 1)
	wg.Wait()

	var all []timedOp
	for _, r := range recs {
		all = append(all, r...)
	}
	var hist []porcupine.Operation
	keys := map[string]bool{}
	for _, to := range all {
		if to.op.Kind == "CleanupExpired" {
			continue
		}
		keys[to.op.Key] = true
		out.kinds[to.op.Kind] = true
		hist = append(hist, porcupine.Operation{ClientId: to.g, Input: pIn{op: to.op}, Call: to.call + 10, Output: to.res, Return: to.ret + 10})
	}
	for k := range keys {
		st := inits[k]
		hist = append(hist, porcupine.Operation{ClientId: n, Input: pIn{op: Op{Kind: "init", Key: k}, init: &st}, Call: 0, Output: Res{}, Return: 1})
	}
	// non-trivial: two calls of different goroutines overlap on one key
	for i := range all {
		for j := i + 1; j < len(all); j++ {
			a, b := all[i], all[j]
			if a.g != b.g && a.op.Key == b.op.Key && a.op.Key != "" && a.call < b.ret && b.call < a.ret {
				out.overlap = true
			}
		}
	}
	switch porcupine.CheckOperationsTimeout(linModel, hist, 10*time.Second) {
	case porcupine.Ok:
		return out
	case porcupine.Unknown:
		out.skipped = true
		return out
	}
	// name the failing key's history
	for _, part := range linModel.Partition(hist) {
		if porcupine.CheckOperationsTimeout(linModel, part, 10*time.Second) != porcupine.Illegal {
			continue
		}
		kinds := map[string]bool{}
		sort.Slice(part, func(i, j int) bool { return part[i].Call < part[j].Call })
		var lines []string
		for _, o := range part {
			in := o.Input.(pIn)
			if in.init == nil {
				kinds[in.op.Kind] = true
			}
			lines = append(lines, fmt.Sprintf("g%d [%d,%d] %s", o.ClientId, o.Call, o.Return, linModel.DescribeOperation(o.Input, o.Output)))
		}
		ks := make([]string, 0, len(kinds))
		for k := range kinds {
			ks = append(ks, k)
		}
		sort.Strings(ks)
		out.key = "C13/memory-concurrent/" + c.Family + "/non-linearizable/" + strings.Join(ks, "+")
		out.detail = "no sequential order of these calls on one key explains the answers (call/return in ns): " + strings.Join(lines, " | ")
		return out
	}
	out.skipped = true // illegal as a whole but no single key: cannot happen with a per-key model
	return out
}

func finishConc(t vkit.TB, c Case, out concOut) {
	if out.key != "" {
		vkit.Violation(t, out.key, out.detail, c)
		vkit.Case("known:"+out.key, false, "")
		return
	}
	if out.skipped {
		vkit.Skipped(1)
		return
	}
	class := "conc:no-overlap"
	if out.overlap {
		class = "conc:overlapping-calls-on-one-key"
	}
	vkit.Case(class, out.overlap, caseSig(c))
	vkit.Sample(class, map[string]any{"pre": histString(c.Pre), "progs": func() (p []string) {
		for _, g := range c.Progs {
			p = append(p, histString(g))
		}
		return
	}()})
}

// ---------------------------------------------------------------------------
// program families

var concFamilies = map[string][]string{
	"counter": {"Incr", "Incr", "IncrBy", "Get", "Delete", "Exists"},
	"setnx":   {"SetNX", "SetNX", "Delete", "Get", "Exists", "Set"},
	"cas":     {"CompareAndSwap", "CompareAndSwap", "CompareAndSwap", "Get", "Set", "SetNX", "Delete"},
	"list":    {"AppendToList", "AppendToList", "RemoveFromList", "GetList", "SetList", "Delete", "Exists"},
	"hash":    {"SetHash", "SetHash", "DeleteHash", "GetHash", "GetAllHash", "Delete", "Exists"},
	"mixed": {"Set", "Get", "Delete", "Exists", "SetList", "GetList", "AppendToList", "RemoveFromList", "SetHash", "GetHash", "GetAllHash",
		"DeleteHash", "Incr", "IncrBy", "SetNX", "CompareAndSwap", "SetExpiration", "CleanupExpired"},
}
var concFamilyNames = []string{"counter", "setnx", "cas", "list", "hash", "mixed", "revive", "revive"}

// family "revive": every key starts as an expired, unswept hash/counter; at step i all goroutines
// call on the same key: readers that lazily delete an expired item (GetHash, GetAllHash,
// GetExpiration) against writers that restart it in place (SetHash, Incr, IncrBy); a second pass
// looks at what is left.
var (
	reviveKeys    = []string{"x", "y", "z"}
	reviveWriters = []string{"SetHash", "SetHash", "IncrBy", "Incr"}
	reviveReaders = []string{"GetHash", "GetAllHash", "GetExpiration"}
	reviveLater   = []string{"GetHash", "GetAllHash", "Get", "Exists", "GetExpiration", "SetHash", "Incr"}
)

func genRevive(t *rapid.T, c *Case) {
	for _, k := range reviveKeys {
		c.Pre = append(c.Pre, genConcOp(t, []string{"SetHash", "SetHash", "Incr", "IncrBy"}, []string{k}, true))
		c.Pre = append(c.Pre, Op{Kind: "SetExpiration", Key: k, TTL: ttlShort})
	}
	c.Pre = append(c.Pre, Op{Kind: "sleep"})
	readers := reviveReaders
	if !hashReadsSafe {
		readers = []string{"GetExpiration"}
	}
	ng := rapid.IntRange(2, 4).Draw(t, "goroutines")
	firstWriter := rapid.IntRange(0, 1).Draw(t, "firstWriter")
	for g := 0; g < ng; g++ {
		var prog []Op
		for i := 0; i < 2*len(reviveKeys); i++ {
			k := []string{reviveKeys[i%len(reviveKeys)]}
			kinds := reviveLater
			if i < len(reviveKeys) {
				kinds = readers
				if g%2 == firstWriter {
					kinds = reviveWriters
				}
			}
			if !hashReadsSafe && i >= len(reviveKeys) {
				kinds = []string{"Get", "Exists", "GetExpiration", "SetHash", "Incr"}
			}
			prog = append(prog, genConcOp(t, kinds, k, true))
		}
		c.Progs = append(c.Progs, prog)
	}
}

// small pools so that concurrent callers collide on values
var (
	concStr = []string{"a", "b", `{"id":1}`}
	concTTL = []string{ttlZero, ttlLong}
)

func genConcOp(t *rapid.T, kinds []string, keys []string, hashReads bool) Op {
	{
		op := genOp(t, kinds, keys, concTTL, func(string) kstate { return kstate{} })
		if !hashReads && (op.Kind == "GetHash" || op.Kind == "GetAllHash") {
			op.Kind = "Exists"
			op.Field = ""
		}
		// values from the small pool
		fix := func(v *Val) *Val {
			if v == nil || v.T == "i" {
				if v != nil {
					v.I = v.I % 3
				}
				return v
			}
			return sv(concStr[len(v.S)%len(concStr)])
		}
		op.Val, op.Old = fix(op.Val), fix(op.Old)
		for i := range op.Vals {
			op.Vals[i] = *fix(&op.Vals[i])
		}
		return op
	}
}

var hashReadsSafe = true

// TestConcurrentLinearizable: 3-4 goroutines x 3-6 calls on 1-2 keys.
func TestConcurrentLinearizable(t *testing.T) {
	// GetHash/GetAllHash touching the stored map outside the lock is a crash
	// ("concurrent map read and map write"), not an answer: probed in a child process.
	if crashed, tail := probeHashReaders(); crashed {
		hashReadsSafe = false
		c := Case{Part: "hashprobe"}
		vkit.Violation(t, "C13/memory-hash-read/map-accessed-outside-lock",
			"memory.GetHash/GetAllHash read the stored map after releasing the lock: SetHash/DeleteHash running concurrently crash the process: "+tail, c)
		vkit.Case("known:C13/memory-hash-read/map-accessed-outside-lock", false, "")
	} else {
		vkit.Case("conc:hash-readers-vs-writers-hammer", true, "hashprobe")
	}
	rounds := vkit.Pick(5, 5)
	vkit.Check(t, 500, 20000, func(t *rapid.T) {
		fam := rapid.SampledFrom(concFamilyNames).Draw(t, "family")
		kinds := concFamilies[fam]
		keys := []string{"x"}
		if rapid.IntRange(0, 2).Draw(t, "twoKeys") == 0 {
			keys = []string{"x", "y"}
		}
		c := Case{Part: "conc", Family: fam}
		if fam == "revive" {
			genRevive(t, &c)
			keys = nil
		}
		// set-up: optionally a live value or an expired, unswept item per key
		short := false
		for _, k := range keys {
			switch rapid.IntRange(0, 5).Draw(t, "init") {
			case 0, 1:
			case 2:
				op := genConcOp(t, []string{"Set", "SetList", "SetHash", "Incr"}, []string{k}, true)
				if op.TTL != "" {
					op.TTL = ttlShort
				}
				if op.Kind == "Set" || op.Kind == "SetList" {
					short = true
				}
				c.Pre = append(c.Pre, op)
			default:
				seed := map[string][]string{"counter": {"Incr", "IncrBy"}, "setnx": {"Set"}, "cas": {"Set"}, "list": {"SetList", "AppendToList"},
					"hash": {"SetHash"}, "mixed": {"Set", "SetList", "SetHash", "Incr"}}[fam]
				c.Pre = append(c.Pre, genConcOp(t, seed, []string{k}, true))
			}
		}
		if short {
			c.Pre = append(c.Pre, Op{Kind: "sleep"})
		}
		ng := rapid.IntRange(3, 4).Draw(t, "goroutines")
		if fam == "revive" {
			ng = 0
		}
		for g := 0; g < ng; g++ {
			nops := rapid.IntRange(2, 6).Draw(t, "nops")
			var prog []Op
			for i := 0; i < nops; i++ {
				prog = append(prog, genConcOp(t, kinds, keys, hashReadsSafe))
			}
			c.Progs = append(c.Progs, prog)
		}
		var last concOut
		overlap := false
		for r := 0; r < rounds; r++ {
			last = runConc(c)
			if last.key != "" || last.skipped {
				break
			}
			overlap = overlap || last.overlap
		}
		last.overlap = overlap
		if overlap && last.key == "" {
			vkit.Class("conc-overlap-family:" + fam)
		}
		finishConc(t, c, last)
	})
}

// ---------------------------------------------------------------------------
// hash readers vs writers, in a child process (a detected map race is fatal)

func hammerHash(d time.Duration) {
	s := memory.New(context.Background())
	defer s.Close()
	stop := time.Now().Add(d)
	var wg sync.WaitGroup
	for g := 0; g < 3; g++ {
		wg.Add(2)
		go func(g int) {
			defer wg.Done()
			for i := 0; time.Now().Before(stop); i++ {
				f := fmt.Sprintf("f%d", (i+g)%16)
				s.SetHash("h", f, "v")
				if i%3 == 0 {
					s.DeleteHash("h", f)
				}
			}
		}(g)
		go func(g int) {
			defer wg.Done()
			for i := 0; time.Now().Before(stop); i++ {
				if i%2 == 0 {
					s.GetAllHash("h")
				} else {
					s.GetHash("h", fmt.Sprintf("f%d", i%16))
				}
			}
		}(g)
	}
	wg.Wait()
}

func TestHashHammerChild(t *testing.T) {
	if os.Getenv("C13_HASH_CHILD") == "" {
		t.Skip("child of the hash probe only")
	}
	hammerHash(time.Duration(vkit.Pick(400, 1500)) * time.Millisecond)
}

func probeHashReaders() (crashed bool, tail string) {
	exe, err := os.Executable()
	if err != nil {
		return false, ""
	}
	cmd := exec.Command(exe, "-test.run", "^TestHashHammerChild$", "-test.count=1", "-test.timeout", "120s")
	env := []string{"C13_HASH_CHILD=1"}
	for _, kv := range os.Environ() {
		if strings.HasPrefix(kv, "VERIF_OUT=") || strings.HasPrefix(kv, "VERIF_REPLAY=") {
			continue
		}
		env = append(env, kv)
	}
	cmd.Env = env
	outb, err := cmd.CombinedOutput()
	if err == nil {
		return false, ""
	}
	o := string(outb)
	for _, marker := range []string{"concurrent map read and map write", "concurrent map iteration and map write", "concurrent map writes", "DATA RACE"} {
		if i := strings.Index(o, marker); i >= 0 {
			end := i + 400
			if end > len(o) {
				end = len(o)
			}
			return true, strings.Join(strings.Fields(o[i:end]), " ")
		}
	}
	return false, "" // died for another reason: not this property's business
}
