package c10

// Streams over connections obtained from the real NodeConnectionPool: Get, run a tunnel
// through a FrameStream, Release, Get again (the pool health-checks the idle connection
// and hands it out again), run the next tunnel on the reused connection. Every tunnel
// must deliver all its bytes followed by end-of-stream, whatever the connection's history.

import (
	"bytes"
	"context"
	"errors"
	"fmt"
	"io"
	"net"
	"sync/atomic"
	"testing"
	"time"

	"pgregory.net/rapid"

	"tunnox-core/internal/protocol/session/crossnode"
	"tunnox-core/verif/vkit"
)

type PoolRound struct {
	ID        string `json:"id"`
	Writes    []int  `json:"writes"`
	Ending    string `json:"ending"`            // close | closewrite (then the peer replies Reverse and closes)
	Reverse   []int  `json:"reverse,omitempty"` // closewrite only
	ReadSizes []int  `json:"read_sizes"`
	DelayMs   int    `json:"delay_ms"` // pause between pool.Get and the first stream operation
	Hold      bool   `json:"hold"`     // keep the connection checked out during the next round (forces a second connection)
}

type PoolCase struct {
	Rounds []PoolRound `json:"rounds"`
	Seed   uint32      `json:"seed"`
}

type poolPeer struct {
	tb *net.TCPConn
	cb *crossnode.Conn
}

type poolStats struct {
	reused, fresh int
}

func runPool(c PoolCase, wait time.Duration) (fl *failure, st poolStats, harnessErr string, stalled bool) {
	lnOnce.Do(func() {
		ln, lnErr = net.ListenTCP("tcp4", &net.TCPAddr{IP: net.IPv4(127, 0, 0, 1)})
	})
	if lnErr != nil {
		return nil, st, "listen: " + lnErr.Error(), false
	}
	ctx, cancel := context.WithCancel(context.Background())
	defer cancel()
	var created int64
	cfg := crossnode.PoolConfig{MinConns: 1, MaxConns: 4, IdleTimeout: time.Minute, DialTimeout: 10 * time.Second}
	pool := crossnode.NewNodeConnectionPool(ctx, "node-b", ln.Addr().String(), cfg, &created)
	peers := map[*crossnode.Conn]*poolPeer{}
	var all []*crossnode.Conn
	defer func() {
		pool.CloseAll()
		for _, cn := range all {
			cn.Close()
		}
		for _, p := range peers {
			p.tb.Close()
			p.cb.Close()
		}
	}()
	var held *crossnode.Conn
	for ri, r := range c.Rounds {
		conn, err := pool.Get(ctx)
		if err != nil {
			return nil, st, fmt.Sprintf("round %d: pool.Get: %v", ri, err), false
		}
		p := peers[conn]
		reusedNow := p != nil
		if p == nil {
			st.fresh++
			all = append(all, conn)
			for {
				ln.SetDeadline(time.Now().Add(20 * time.Second))
				tb, err := ln.AcceptTCP()
				if err != nil {
					return nil, st, "accept: " + err.Error(), false
				}
				if conn.LocalAddr() != nil && tb.RemoteAddr().String() == conn.LocalAddr().String() {
					p = &poolPeer{tb: tb, cb: crossnode.NewConn(ctx, "node-a", tb, nil)}
					break
				}
				tb.Close()
			}
			peers[conn] = p
		} else {
			st.reused++
		}
		history := "fresh connection"
		if reusedNow {
			history = "connection reused from the pool (Get -> tunnel -> Release -> health check -> Get)"
		}
		if r.DelayMs > 0 {
			time.Sleep(time.Duration(r.DelayMs) * time.Millisecond)
		}
		id := wireID(r.ID)
		sa := crossnode.NewFrameStream(conn, id)
		sb := crossnode.NewFrameStream(p.cb, id)
		var want []byte
		for _, n := range r.Writes {
			b := make([]byte, n)
			fill(b, c.Seed+uint32(ri), len(want), 0)
			want = append(want, b...)
		}
		var wantRev []byte
		if r.Ending == endCloseWrite {
			for _, n := range r.Reverse {
				b := make([]byte, n)
				fill(b, ^(c.Seed + uint32(ri)), len(wantRev), 0)
				wantRev = append(wantRev, b...)
			}
		}
		var prog atomic.Int64
		fwdCh := make(chan readResult, 1)
		go func() { fwdCh <- readAll(sb, r.ReadSizes, len(want)+1, &prog, nil) }()

		fail := func(key, detail string) *failure {
			p.tb.Close()
			if tc := conn.GetTCPConn(); tc != nil {
				tc.Close()
			}
			select {
			case <-fwdCh:
			case <-time.After(20 * time.Second):
			}
			return &failure{key, fmt.Sprintf("round %d (tunnel %q, %s, %d ms after Get): %s", ri, r.ID, history, r.DelayMs, detail)}
		}
		suffix := "/fresh-connection"
		if history != "fresh connection" {
			suffix = "/connection-reused-from-pool"
		}
		off := 0
		for wi, n := range r.Writes {
			w, err := sa.Write(want[off : off+n])
			off += n
			if err != nil || w != n {
				return fail("C10/pooled-conn/stream-write-failed"+suffix, fmt.Sprintf("write %d: Write(%d bytes) = (%d, %v)", wi, n, w, err)), st, "", false
			}
		}
		if r.Ending == endCloseWrite {
			err = sa.CloseWrite()
		} else {
			err = sa.Close()
		}
		if err != nil {
			return fail("C10/pooled-conn/stream-close-failed"+suffix, fmt.Sprintf("%s: %v", r.Ending, err)), st, "", false
		}
		var fr readResult
		select {
		case fr = <-fwdCh:
			fwdCh <- fr
		case <-time.After(wait):
			f := fail("C10/pooled-conn/end-of-stream-not-delivered"+suffix, fmt.Sprintf("writer finished (%s) but the peer's Read did not return within %v; %d of %d bytes delivered", r.Ending, wait, prog.Load(), len(want)))
			return f, st, "", true
		}
		if fr.note != "" {
			return fail("C10/pooled-conn/reader-misbehaves", fr.note), st, "", false
		}
		if !bytes.Equal(fr.got, want) {
			return fail("C10/pooled-conn/stream-bytes-differ"+suffix, fmt.Sprintf("got %d bytes, want %d, first difference at %d, then %v", len(fr.got), len(want), firstDiff(fr.got, want), fr.err)), st, "", false
		}
		if !errors.Is(fr.err, io.EOF) {
			return fail("C10/pooled-conn/error-instead-of-end-of-stream"+suffix, fmt.Sprintf("all %d bytes delivered, then %v", len(want), fr.err)), st, "", false
		}
		if r.Ending == endCloseWrite {
			var rprog atomic.Int64
			revCh := make(chan readResult, 1)
			go func() { revCh <- readAll(sa, r.ReadSizes, len(wantRev)+1, &rprog, nil) }()
			off := 0
			for wi, n := range r.Reverse {
				w, err := sb.Write(wantRev[off : off+n])
				off += n
				if err != nil || w != n {
					f := fail("C10/pooled-conn/stream-write-failed/reverse", fmt.Sprintf("reverse write %d: Write(%d bytes) = (%d, %v)", wi, n, w, err))
					<-revCh
					return f, st, "", false
				}
			}
			if err := sb.Close(); err != nil {
				f := fail("C10/pooled-conn/stream-close-failed/reverse", err.Error())
				<-revCh
				return f, st, "", false
			}
			var rr readResult
			select {
			case rr = <-revCh:
			case <-time.After(wait):
				f := fail("C10/pooled-conn/end-of-stream-not-delivered/reverse", fmt.Sprintf("%d of %d reply bytes delivered", rprog.Load(), len(wantRev)))
				<-revCh
				return f, st, "", true
			}
			if rr.note != "" || !bytes.Equal(rr.got, wantRev) || !errors.Is(rr.err, io.EOF) {
				return fail("C10/pooled-conn/reply-differs"+suffix, fmt.Sprintf("reply: got %d bytes, want %d, first difference at %d, then %v %s", len(rr.got), len(wantRev), firstDiff(rr.got, wantRev), rr.err, rr.note)), st, "", false
			}
		}
		// the tunnel is over in both directions: give the connection back
		if held != nil {
			held.Release()
			held = nil
		}
		if r.Hold && ri+1 < len(c.Rounds) {
			held = conn
		} else {
			conn.Release()
		}
	}
	if held != nil {
		held.Release()
	}
	return nil, st, "", false
}

func checkPool(t vkit.TB, c PoolCase) {
	for i := range c.Rounds {
		if len(c.Rounds[i].ReadSizes) == 0 {
			c.Rounds[i].ReadSizes = []int{4096}
		}
		pos := false
		for _, n := range c.Rounds[i].ReadSizes {
			pos = pos || n > 0
		}
		if !pos {
			c.Rounds[i].ReadSizes = append(c.Rounds[i].ReadSizes, 4096)
		}
	}
	fl, st, herr, stalled := runPool(c, 10*time.Second)
	if stalled && herr == "" {
		vkit.AddExtra("pool_watchdog_reruns", 1)
		fl, st, herr, _ = runPool(c, 25*time.Second)
	}
	if herr != "" {
		vkit.Skipped(1)
		vkit.Class("inconclusive:harness-transport-error")
		t.Logf("inconclusive pool case: %s", herr)
		return
	}
	if fl != nil {
		vkit.Violation(t, fl.key, fl.detail, Replay{Pool: &c})
		vkit.Case("known(pool):"+fl.key, false, "")
		return
	}
	var sig []string
	for _, r := range c.Rounds {
		var ws []string
		for _, n := range r.Writes {
			ws = append(ws, sizeClass(n))
		}
		sig = append(sig, fmt.Sprintf("%v:%s:%v:%d:%s", ws, r.Ending, r.Hold, r.DelayMs, readClass(r.ReadSizes)))
	}
	vkit.Case("pool", st.reused > 0, fmt.Sprint(sig))
	vkit.Sample("pool", c)
	vkit.AddExtra("pool_cases", 1)
	vkit.AddExtra("pool_tunnels_on_reused_connection", int64(st.reused))
	vkit.AddExtra("pool_tunnels_on_fresh_connection", int64(st.fresh))
	if st.reused == 0 {
		vkit.Class("pool:no-connection-reused")
	} else {
		vkit.Class("pool:connection-reused-after-health-check")
	}
}

func genPoolCase(t *rapid.T) PoolCase {
	c := PoolCase{Seed: rapid.Uint32().Draw(t, "seed")}
	n := rapid.IntRange(2, 5).Draw(t, "rounds")
	budget := 1 << 20
	for i := 0; i < n; i++ {
		r := PoolRound{ID: genID(t, "id"), DelayMs: rapid.SampledFrom([]int{0, 2, 3, 5, 0, 2}).Draw(t, "delay")}
		k := rapid.IntRange(0, 3).Draw(t, "nwrites")
		for j := 0; j < k; j++ {
			r.Writes = append(r.Writes, genSize(t, "w", &budget))
		}
		r.Ending = []string{endClose, endCloseWrite}[pick(t, "ending", 1, 1)]
		if r.Ending == endCloseWrite {
			m := rapid.IntRange(0, 2).Draw(t, "nrev")
			for j := 0; j < m; j++ {
				r.Reverse = append(r.Reverse, genSize(t, "rev", &budget))
			}
		}
		r.ReadSizes = genReadSizes(t, "reads")
		r.Hold = pick(t, "hold", 4, 1) == 1
		c.Rounds = append(c.Rounds, r)
	}
	return c
}

// TestPool: tunnels over connections that went through the pool's Get/Release/health-check cycle.
func TestPool(t *testing.T) {
	vkit.Check(t, 1600, 16000, func(t *rapid.T) {
		checkPool(t, genPoolCase(t))
	})
}

// TestPoolFixed: the shortest reuse history (shard 0).
func TestPoolFixed(t *testing.T) {
	if vkit.Shard() != 0 {
		t.Skip("single shard")
	}
	checkPool(t, PoolCase{Seed: 1, Rounds: []PoolRound{
		{ID: "tunnel-1", Writes: []int{1000}, Ending: endClose, ReadSizes: []int{4096}},
		{ID: "tunnel-2", Writes: []int{maxFrame + 1}, Ending: endClose, ReadSizes: []int{100}, DelayMs: 3},
		{ID: "tunnel-3", Writes: []int{10}, Ending: endCloseWrite, Reverse: []int{20}, ReadSizes: []int{7}, DelayMs: 2},
		{ID: "tunnel-4", Ending: endClose, ReadSizes: []int{1}, DelayMs: 2},
	}})
}
