package c10

import (
	"bytes"
	"encoding/binary"
	"errors"
	"fmt"
	"runtime"
	"testing"

	"pgregory.net/rapid"

	"tunnox-core/internal/protocol/session/crossnode"
	"tunnox-core/verif/vkit"
)

// ---------------------------------------------------------------------------
// codec case (JSON replay unit)

type FrameSpec struct {
	ID   []byte `json:"id"` // 16 bytes
	Type byte   `json:"type"`
	Len  int    `json:"len"`
	Seed uint32 `json:"seed"`
}

// RawSpec describes bytes handed to the decoder: either Explicit verbatim, or a header
// (ID, Type, LenField) followed by Have pseudo-random payload bytes; Tail is appended.
type RawSpec struct {
	Explicit []byte `json:"explicit,omitempty"`
	Header   bool   `json:"header"`
	ID       []byte `json:"id,omitempty"`
	Type     byte   `json:"type"`
	LenField uint32 `json:"len_field"`
	Have     int    `json:"have"`
	Seed     uint32 `json:"seed"`
	Tail     []byte `json:"tail,omitempty"`
}

type CodecCase struct {
	Mode        string      `json:"mode"`             // roundtrip | bytes | oversize-write | id-string
	Frames      []FrameSpec `json:"frames,omitempty"` // roundtrip, oversize-write
	Raw         []RawSpec   `json:"raw,omitempty"`    // bytes: concatenated
	IDString    string      `json:"id_string,omitempty"`
	IDString2   string      `json:"id_string2,omitempty"` // id-string: second id for the injectivity check
	Chunks      []int       `json:"chunks,omitempty"`
	Fixed       int         `json:"fixed,omitempty"`
	EOFWithLast bool        `json:"eof_with_last,omitempty"`
	ErrEnd      bool        `json:"err_end,omitempty"` // transport error instead of EOF at the end
}

func (f FrameSpec) payload() []byte {
	b := make([]byte, f.Len)
	fill(b, f.Seed, 0, 0)
	for i := range b { // use all 8 bits in codec payloads
		b[i] ^= byte(i*37) & 0x80
	}
	return b
}

func (f FrameSpec) id() (id [16]byte) { copy(id[:], f.ID); return }

func (r RawSpec) bytes() []byte {
	if !r.Header {
		return append(append([]byte(nil), r.Explicit...), r.Tail...)
	}
	b := make([]byte, crossnode.FrameHeaderSize+r.Have)
	copy(b[:16], r.ID)
	b[16] = r.Type
	binary.BigEndian.PutUint32(b[17:21], r.LenField)
	fill(b[21:], r.Seed, 0, 0)
	return append(b, r.Tail...)
}

// ---------------------------------------------------------------------------
// reference decoder: the wire format as documented ([tunnelID:16][type:1][len:4 BE][payload <= 64 KiB])

type refFrame struct {
	id   [16]byte
	typ  byte
	data []byte
}

func refDecode(in []byte) (f refFrame, n int, ok bool) {
	if len(in) < crossnode.FrameHeaderSize {
		return f, 0, false
	}
	l := binary.BigEndian.Uint32(in[17:21])
	if l > maxFrame {
		return f, 0, false
	}
	if len(in) < crossnode.FrameHeaderSize+int(l) {
		return f, 0, false
	}
	copy(f.id[:], in[:16])
	f.typ = in[16]
	f.data = in[21 : 21+int(l)]
	return f, crossnode.FrameHeaderSize + int(l), true
}

// allocation bound for one decoder call: the statement says "no more than the frame
// size limit"; TotalAlloc is process-wide and size-class rounded, so the check is a
// coarse 4x bound (a decoder that trusts the length field allocates up to 4 GiB).
const allocBound = 4 * maxFrame

var errTransport = errors.New("c10: injected transport error")

func allocDelta(f func()) uint64 {
	var m1, m2 runtime.MemStats
	runtime.ReadMemStats(&m1)
	f()
	runtime.ReadMemStats(&m2)
	return m2.TotalAlloc - m1.TotalAlloc
}

type decodeStats struct {
	frames     int
	endedOnErr bool
	hostileLen bool
	truncated  bool
	cutInside  bool
}

// checkDecode feeds `in` to the real decoder through a chunk reader and compares every
// result with the reference decoder.
func checkDecode(in []byte, chunks []int, fixed int, eofWithLast, errEnd bool, measure bool) (fl *failure, st decodeStats) {
	mk := func() *vkit.ChunkReader {
		cr := &vkit.ChunkReader{Data: in, Chunks: chunks, Fixed: fixed, EOFWithLast: eofWithLast}
		if errEnd {
			cr.Err = errTransport
		}
		return cr
	}
	cr := mk()
	pos := 0
	for step := 0; ; step++ {
		want, n, ok := refDecode(in[pos:])
		var (
			id    [16]byte
			typ   byte
			data  []byte
			err   error
			pan   any
			delta uint64
		)
		call := func(r *vkit.ChunkReader) {
			defer func() { pan = recover() }()
			id, typ, data, err = crossnode.ReadFrameFromReader(r)
		}
		if measure {
			delta = allocDelta(func() { call(cr) })
			for try := 0; delta > allocBound && pan == nil && try < 3; try++ {
				// re-measure on a fresh reader positioned at the same frame (rules out noise from other goroutines)
				r2 := mk()
				skip := make([]byte, pos)
				for got := 0; got < pos; {
					k, e := r2.Read(skip[got:])
					got += k
					if e != nil {
						break
					}
				}
				runtime.GC()
				if d := allocDelta(func() { call(r2) }); d < delta {
					delta = d
				}
			}
		} else {
			call(cr)
		}
		region := "well-formed"
		if !ok {
			rest := in[pos:]
			switch {
			case len(rest) == 0:
				region = "empty-input"
			case len(rest) < crossnode.FrameHeaderSize:
				region = "truncated-header"
				st.truncated = true
			case binary.BigEndian.Uint32(rest[17:21]) > maxFrame:
				region = "length-over-limit"
				st.hostileLen = true
			default:
				region = "truncated-payload"
				st.truncated = true
			}
		}
		if pan != nil {
			return &failure{"C10/decoder-panic/" + region, fmt.Sprintf("ReadFrameFromReader panicked at input offset %d: %v", pos, pan)}, st
		}
		if measure && delta > allocBound {
			return &failure{"C10/decoder-allocates-beyond-limit/" + region, fmt.Sprintf("one ReadFrameFromReader call at input offset %d allocated %d bytes (frame limit %d, bound %d)", pos, delta, maxFrame, allocBound)}, st
		}
		if len(data) > maxFrame {
			return &failure{"C10/decoder-returns-oversize-frame", fmt.Sprintf("len(data)=%d > %d", len(data), maxFrame)}, st
		}
		if !ok {
			if err == nil {
				return &failure{"C10/decoder-accepts-bad-input/" + region, fmt.Sprintf("input offset %d (%d bytes left): returned a frame (type %#x, %d bytes) and no error", pos, len(in)-pos, typ, len(data))}, st
			}
			st.endedOnErr = true
			return nil, st
		}
		if err != nil {
			return &failure{"C10/decoder-rejects-valid-frame", fmt.Sprintf("input offset %d: complete frame (type %#x, %d bytes) -> %v; chunks=%v fixed=%d", pos, want.typ, len(want.data), err, head(chunks), fixed)}, st
		}
		if id != want.id || typ != want.typ || !bytes.Equal(data, want.data) {
			what := "payload"
			if id != want.id {
				what = "tunnel-id"
			} else if typ != want.typ {
				what = "type"
			} else if len(data) != len(want.data) {
				what = "payload-length"
			}
			return &failure{"C10/decoded-frame-differs/" + what, fmt.Sprintf("input offset %d: got (id %x, type %#x, %d bytes) want (id %x, type %#x, %d bytes), first payload diff %d", pos, id, typ, len(data), want.id, want.typ, len(want.data), firstDiff(data, want.data))}, st
		}
		pos += n
		if cr.Consumed() != pos {
			return &failure{"C10/decoder-consumes-wrong-byte-count", fmt.Sprintf("after frame %d the reader handed out %d bytes, frames occupy %d", step, cr.Consumed(), pos)}, st
		}
		st.frames++
	}
}

func head(s []int) []int {
	if len(s) > 12 {
		return s[:12]
	}
	return s
}

// cutsInside reports whether some chunk boundary falls strictly inside the byte range [0,n).
func cutsInside(chunks []int, fixed, n int) bool {
	if fixed > 0 && fixed < n {
		return true
	}
	off := 0
	for _, c := range chunks {
		off += c
		if off > 0 && off < n {
			return true
		}
	}
	return false
}

func codecFailure(c CodecCase) (*failure, string, bool, string) {
	switch c.Mode {
	case "roundtrip":
		var wire bytes.Buffer
		for i, f := range c.Frames {
			before := wire.Len()
			if err := crossnode.WriteFrameToWriter(&wire, f.id(), f.Type, f.payload()); err != nil {
				return &failure{"C10/writer-refused-in-domain-operation/frame", fmt.Sprintf("frame %d (%d bytes): %v", i, f.Len, err)}, "", false, ""
			}
			// encoded form is the documented layout
			w := wire.Bytes()[before:]
			exp := make([]byte, crossnode.FrameHeaderSize, crossnode.FrameHeaderSize+f.Len)
			id := f.id()
			copy(exp, id[:])
			exp[16] = f.Type
			binary.BigEndian.PutUint32(exp[17:21], uint32(f.Len))
			exp = append(exp, f.payload()...)
			if !bytes.Equal(w, exp) {
				return &failure{"C10/encoded-frame-layout", fmt.Sprintf("frame %d: wire bytes differ from [id:16][type:1][len:4 BE][payload] at offset %d", i, firstDiff(w, exp))}, "", false, ""
			}
		}
		in := append([]byte(nil), wire.Bytes()...)
		fl, st := checkDecode(in, c.Chunks, c.Fixed, c.EOFWithLast, c.ErrEnd, true)
		if fl != nil {
			return fl, "", false, ""
		}
		if st.frames != len(c.Frames) {
			return &failure{"C10/decoded-frame-count", fmt.Sprintf("decoded %d frames, wrote %d", st.frames, len(c.Frames))}, "", false, ""
		}
		nt := cutsInside(c.Chunks, c.Fixed, len(in))
		var ls []int
		for _, f := range c.Frames {
			ls = append(ls, f.Len)
		}
		return nil, "codec:roundtrip", nt, fmt.Sprintf("rt|%v|%v|%d|%v", ls, head(c.Chunks), c.Fixed, c.EOFWithLast)
	case "oversize-write":
		for i, f := range c.Frames {
			var wire bytes.Buffer
			err := crossnode.WriteFrameToWriter(&wire, f.id(), f.Type, f.payload())
			if f.Len > maxFrame {
				if err == nil || wire.Len() != 0 {
					return &failure{"C10/writer-accepts-oversize-frame", fmt.Sprintf("frame %d: %d-byte payload: err=%v, %d bytes written", i, f.Len, err, wire.Len())}, "", false, ""
				}
			} else if err != nil {
				return &failure{"C10/writer-refused-in-domain-operation/frame", fmt.Sprintf("frame %d (%d bytes): %v", i, f.Len, err)}, "", false, ""
			}
		}
		return nil, "codec:oversize-write", true, fmt.Sprintf("ow|%d", c.Frames[0].Len)
	case "id-string":
		s := c.IDString
		if c.IDString2 != "" || c.IDString == "" {
			a, b := c.IDString, c.IDString2
			if prefix16(a) != prefix16(b) && wireID(a) == wireID(b) {
				return &failure{"C10/tunnel-ids-differing-in-first-16-bytes-share-wire-id/TunnelIDFromString", fmt.Sprintf("ids %q and %q differ within their first 16 bytes (%x vs %x) but both get the wire id %x", a, b, prefix16(a), prefix16(b), wireID(a))}, "", false, ""
			}
			return nil, "codec:id-string-pair", prefix16(a) != prefix16(b), "idpair|" + a + "|" + b
		}
		id, err := crossnode.TunnelIDFromString(s)
		if err != nil {
			return &failure{"C10/tunnel-id-string-rejected", fmt.Sprintf("%q: %v", s, err)}, "", false, ""
		}
		back := crossnode.TunnelIDToString(id)
		if back != s {
			if len(s) > 16 && back == s[:16] {
				return &failure{"C10/tunnel-id-truncated-to-16-bytes", fmt.Sprintf("tunnel id %q travels as %q: every id with the same first 16 bytes is the same tunnel on the wire", s, back)}, "", false, ""
			}
			return &failure{"C10/tunnel-id-string-roundtrip", fmt.Sprintf("%q -> %x -> %q", s, id, back)}, "", false, ""
		}
		cl := "codec:id-string"
		if c.IDString2 != "" {
			cl = "codec:id-string-pair"
		}
		return nil, cl, len(s) > 0, "id|" + s + "|" + c.IDString2
	case "bytes":
		var in []byte
		for _, r := range c.Raw {
			in = append(in, r.bytes()...)
		}
		fl, st := checkDecode(in, c.Chunks, c.Fixed, c.EOFWithLast, c.ErrEnd, true)
		if fl != nil {
			return fl, "", false, ""
		}
		class := "codec:bytes/all-frames-valid"
		switch {
		case st.hostileLen:
			class = "codec:bytes/length-over-limit"
		case st.truncated:
			class = "codec:bytes/truncated"
		}
		nt := st.hostileLen || st.truncated || cutsInside(c.Chunks, c.Fixed, len(in))
		var ls []string
		for _, r := range c.Raw {
			if r.Header {
				ls = append(ls, fmt.Sprintf("h%d/%d+%d", r.LenField, r.Have, len(r.Tail)))
			} else {
				ls = append(ls, fmt.Sprintf("x%x", r.Explicit))
			}
		}
		return nil, class, nt, fmt.Sprintf("by|%v|%v|%d|%v|%v", ls, head(c.Chunks), c.Fixed, c.EOFWithLast, c.ErrEnd)
	}
	return &failure{"C10/unclassified/bad-codec-mode", c.Mode}, "", false, ""
}

func checkCodec(t vkit.TB, c CodecCase) {
	fl, class, nt, sig := codecFailure(c)
	if fl != nil {
		vkit.Violation(t, fl.key, fl.detail, Replay{Codec: &c})
		vkit.Case("known(codec):"+fl.key, false, "")
		return
	}
	vkit.Case(class, nt, sig)
	vkit.Sample(class, codecSummary(c))
	if c.ErrEnd {
		vkit.Class("feat:codec-transport-error-at-end")
	}
	for _, z := range c.Chunks {
		if z == 0 {
			vkit.Class("feat:codec-zero-length-read")
			break
		}
	}
}

func codecSummary(c CodecCase) any {
	s := c
	s.Chunks = head(c.Chunks)
	var raws []RawSpec
	for _, r := range c.Raw {
		if len(r.Explicit) > 48 {
			r.Explicit = r.Explicit[:48]
		}
		if len(r.Tail) > 16 {
			r.Tail = r.Tail[:16]
		}
		raws = append(raws, r)
	}
	s.Raw = raws
	return s
}

// ---------------------------------------------------------------------------
// generators

func genFrameLen(t *rapid.T) int {
	switch pick(t, "lenClass", 1, 1, 1, 1, 1, 3) {
	case 0:
		return 0
	case 1:
		return 1
	case 2:
		return maxFrame
	case 3:
		return maxFrame - 1
	case 4:
		return rapid.IntRange(2, maxFrame).Draw(t, "len")
	default:
		return rapid.IntRange(2, 300).Draw(t, "len")
	}
}

func genFrame(t *rapid.T) FrameSpec {
	f := FrameSpec{Seed: rapid.Uint32().Draw(t, "pseed")}
	switch pick(t, "idClass", 1, 1, 2) {
	case 0:
		f.ID = make([]byte, 16)
	case 1:
		id := wireID(genID(t, "fid"))
		f.ID = id[:]
	default:
		f.ID = rapid.SliceOfN(rapid.Byte(), 16, 16).Draw(t, "idBytes")
	}
	if rapid.Bool().Draw(t, "knownType") {
		f.Type = rapid.SampledFrom(append([]byte{crossnode.FrameTypeData, crossnode.FrameTypeEOF, crossnode.FrameTypeClose}, controlTypes...)).Draw(t, "type")
	} else {
		f.Type = rapid.Byte().Draw(t, "rawType")
	}
	f.Len = genFrameLen(t)
	return f
}

var hostileLens = []uint32{maxFrame + 1, maxFrame + 2, 2 * maxFrame, 1 << 20, 16 << 20, 64 << 20, 0x00FFFFFF, 0x01000000, 0x80000000 >> 4}

func genHostileLen(t *rapid.T) uint32 {
	if vkit.Thorough() && pick(t, "giant", 9, 1) == 1 {
		return rapid.SampledFrom([]uint32{0x7FFFFFFF, 0x80000000, 0xFFFFFFFF, 0xFFFF0000}).Draw(t, "giantLen")
	}
	if rapid.Bool().Draw(t, "tableLen") {
		return rapid.SampledFrom(hostileLens).Draw(t, "hostileLen")
	}
	return rapid.Uint32Range(maxFrame+1, 128<<20).Draw(t, "hostileLenRaw")
}

func genRaw(t *rapid.T) RawSpec {
	r := RawSpec{Seed: rapid.Uint32().Draw(t, "rseed")}
	switch k := pick(t, "rawClass", 1, 1, 1, 1, 1, 1, 1, 1, 1, 1); {
	case k == 0: // arbitrary short bytes
		r.Explicit = rapid.SliceOfN(rapid.Byte(), 0, 64).Draw(t, "explicit")
	case k <= 3: // valid frame
		r.Header = true
		r.ID = rapid.SliceOfN(rapid.Byte(), 16, 16).Draw(t, "idBytes")
		r.Type = rapid.Byte().Draw(t, "type")
		r.Have = genFrameLen(t)
		r.LenField = uint32(r.Have)
	case k <= 6: // length over the limit, some bytes follow
		r.Header = true
		r.ID = rapid.SliceOfN(rapid.Byte(), 16, 16).Draw(t, "idBytes")
		r.Type = rapid.Byte().Draw(t, "type")
		r.LenField = genHostileLen(t)
		r.Have = rapid.SampledFrom([]int{0, 1, 100, maxFrame, maxFrame + 1}).Draw(t, "have")
	default: // truncated payload
		r.Header = true
		r.ID = rapid.SliceOfN(rapid.Byte(), 16, 16).Draw(t, "idBytes")
		r.Type = rapid.Byte().Draw(t, "type")
		l := rapid.IntRange(1, maxFrame).Draw(t, "len")
		if rapid.Bool().Draw(t, "maxLen") {
			l = maxFrame
		}
		r.LenField = uint32(l)
		r.Have = rapid.IntRange(0, l-1).Draw(t, "have")
	}
	return r
}

func genChunking(t *rapid.T, c *CodecCase, total int) {
	c.EOFWithLast = rapid.Bool().Draw(t, "eofWithLast")
	c.ErrEnd = pick(t, "errEnd", 5, 1) == 1
	switch pick(t, "chunkStrategy", 1, 1, 1, 1, 2) {
	case 0: // coalesced
	case 1:
		c.Fixed = 1
		if total > 8192 {
			c.Fixed = 3
		}
	case 2: // a cut inside the first header
		c.Chunks = []int{rapid.IntRange(1, crossnode.FrameHeaderSize-1).Draw(t, "hcut")}
	case 3: // cut exactly at / around the header end
		c.Chunks = []int{crossnode.FrameHeaderSize + rapid.IntRange(-1, 1).Draw(t, "d")}
		if rapid.Bool().Draw(t, "zero") {
			c.Chunks = append(c.Chunks, 0, 1, 0)
		}
	default:
		k := rapid.SampledFrom([]int{2, 5, 17, 21, 22, 1500, 70000}).Draw(t, "k")
		n := total/k + 2
		if n > 400 {
			n = 400
		}
		c.Chunks = rapid.SliceOfN(rapid.IntRange(0, k), 0, n).Draw(t, "sizes")
		c.Fixed = k
	}
}

func genCodecCase(t *rapid.T) CodecCase {
	var c CodecCase
	switch k := pick(t, "mode", 1, 1, 1, 1, 1, 1, 1, 1, 1, 1, 1, 1, 1, 1, 1, 1, 1, 1, 1, 1); {
	case k < 8:
		c.Mode = "roundtrip"
		n := rapid.IntRange(1, 4).Draw(t, "nframes")
		total := 0
		for i := 0; i < n; i++ {
			f := genFrame(t)
			c.Frames = append(c.Frames, f)
			total += crossnode.FrameHeaderSize + f.Len
		}
		genChunking(t, &c, total)
		c.ErrEnd = false
	case k < 16:
		c.Mode = "bytes"
		n := rapid.IntRange(1, 3).Draw(t, "nraw")
		total := 0
		for i := 0; i < n; i++ {
			r := genRaw(t)
			if pick(t, "tail", 7, 1) == 1 {
				r.Tail = rapid.SliceOfN(rapid.Byte(), 1, 30).Draw(t, "tailBytes")
			}
			c.Raw = append(c.Raw, r)
			total += len(r.bytes())
		}
		genChunking(t, &c, total)
	case k < 18:
		c.Mode = "oversize-write"
		f := genFrame(t)
		f.Len = rapid.SampledFrom([]int{maxFrame + 1, maxFrame + 2, 2 * maxFrame, 1 << 20, maxFrame}).Draw(t, "overLen")
		c.Frames = []FrameSpec{f}
	default:
		c.Mode = "id-string"
		if pick(t, "idPair", 1, 1) == 1 {
			// two ids that differ inside their first 16 bytes must get different wire ids
			if pick(t, "pairKind", 2, 1, 1) == 0 {
				k := rapid.IntRange(11, 15).Draw(t, "headLen")
				head := rapid.StringMatching(fmt.Sprintf(`[a-z0-9-]{%d}`, k)).Draw(t, "head")
				c.IDString = head + rapid.SampledFrom(straddleRunes).Draw(t, "r1") + rapid.StringMatching(`[a-z0-9国]{0,6}`).Draw(t, "ta")
				c.IDString2 = head + rapid.SampledFrom(straddleRunes).Draw(t, "r2") + rapid.StringMatching(`[a-z0-9中]{0,6}`).Draw(t, "tb")
			} else {
				c.IDString, c.IDString2 = genID(t, "ida"), genID(t, "idb")
			}
			if c.IDString2 == "" {
				c.IDString2 = "x"
			}
		} else if pick(t, "longID", 8, 2) == 1 {
			if rapid.Bool().Draw(t, "straddleLong") {
				c.IDString = genStraddleID(t, "ids") // may be <= 16 bytes
			} else {
				c.IDString = realisticID(t, "ids") // > 16 bytes: the listed truncation
			}
		} else {
			s := genID(t, "ids")
			if len(s) > 16 {
				s = s[:16]
			}
			c.IDString = s
		}
	}
	return c
}

// TestCodec: decode(encode(f)) == f, oversize refused on both sides, arbitrary bytes
// in any chunking give a frame or an error within the allocation bound.
func TestCodec(t *testing.T) {
	runtime.GC()
	vkit.Check(t, 40000, 400000, func(t *rapid.T) {
		checkCodec(t, genCodecCase(t))
	})
}

// ---------------------------------------------------------------------------
// native fuzz target (thorough tier; quick only replays the seed corpus)

func fuzzSeeds() [][]byte {
	var out [][]byte
	mk := func(id string, typ byte, lenField uint32, have int) []byte {
		r := RawSpec{Header: true, Type: typ, LenField: lenField, Have: have, Seed: 7}
		w := wireID(id)
		r.ID = w[:]
		return r.bytes()
	}
	out = append(out, nil, []byte{0}, bytes.Repeat([]byte{0xFF}, 21), bytes.Repeat([]byte{0}, 21))
	out = append(out, mk("tcp-tunnel-1758931200000000001-8080", crossnode.FrameTypeData, 5, 5))
	out = append(out, mk("", crossnode.FrameTypeCommand, 300, 300))
	out = append(out, mk("t", crossnode.FrameTypeEOF, 0, 0))
	out = append(out, mk("t", crossnode.FrameTypeData, maxFrame, maxFrame))
	out = append(out, mk("t", crossnode.FrameTypeData, maxFrame+1, 16))
	out = append(out, mk("t", crossnode.FrameTypeData, 0xFFFFFFFF, 0))
	out = append(out, mk("t", crossnode.FrameTypeData, 16<<20, 100))
	out = append(out, mk("t", crossnode.FrameTypeData, 100, 99))
	out = append(out, append(mk("a", crossnode.FrameTypeData, 3, 3), mk("b", crossnode.FrameTypeClose, 0, 0)...))
	return out
}

var fuzzFixed = []int{0, 1, 2, 3, 5, 20, 21, 22, 1000}

func FuzzReadFrame(f *testing.F) {
	for i, s := range fuzzSeeds() {
		f.Add(s, uint16(i*37))
	}
	f.Fuzz(func(t *testing.T, data []byte, sel uint16) {
		if len(data) > 4*maxFrame {
			data = data[:4*maxFrame]
		}
		c := CodecCase{Mode: "bytes", Raw: []RawSpec{{Explicit: data}}, Fixed: fuzzFixed[int(sel)%len(fuzzFixed)],
			EOFWithLast: sel&0x100 != 0, ErrEnd: sel&0x200 != 0}
		if sel&0x400 != 0 {
			c.Chunks = []int{int(sel>>11) + 1, 0}
		}
		fl, class, nt, sig := codecFailure(c)
		if fl != nil {
			vkit.Violation(t, fl.key, fl.detail, Replay{Codec: &c})
			return
		}
		vkit.Case("fuzz-corpus:"+class, nt, "fz|"+sig)
	})
}
