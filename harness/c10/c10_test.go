// C10 — cross-node frames carry tunnel bytes faithfully and reject bad input.
//
// Part 1 (this file): stream property over a real loopback TCP pair wrapped in
// crossnode.Conn / crossnode.FrameStream.
// Part 2 (codec_test.go): frame codec property + native fuzz target.
package c10

import (
	"bytes"
	"context"
	"encoding/json"
	"errors"
	"fmt"
	"io"
	"net"
	"os"
	"strings"
	"sync"
	"sync/atomic"
	"testing"
	"time"

	"pgregory.net/rapid"

	"tunnox-core/internal/protocol/session/crossnode"
	"tunnox-core/verif/vkit"
)

func TestMain(m *testing.M) { vkit.Main(m, "C10") }

const maxFrame = crossnode.MaxFrameSize

// ---------------------------------------------------------------------------
// case description (JSON-serialisable: it is the replay unit)

// Inject is one raw frame written straight onto the writer side's TCP connection
// (crossnode.WriteFrame) between two stream writes.
type Inject struct {
	ID   string `json:"id"`   // "own" (the stream's tunnel id) or "foreign" (Case.ForeignID)
	Type byte   `json:"type"` // frame type byte
	Len  int    `json:"len"`  // payload length (bytes carry the 0x80 marker)
}

// Op is either a FrameStream.Write of Write bytes (Inj == nil) or an injected raw frame.
type Op struct {
	Write int     `json:"write"`
	Inj   *Inject `json:"inject,omitempty"`
	// IdleMs > 0 (Write == 0, Inj == nil): the writer pauses here, alive but idle. Once the
	// peer has received everything written so far (so its stream waits at a frame
	// boundary) the peer sets a read deadline of IdleMs on its cross-node Conn, calls
	// Read once (the deadline expires), clears the deadline and lets the writer continue.
	// Only valid directly after a non-empty write of the stream itself.
	IdleMs int `json:"idle_ms,omitempty"`
}

type Case struct {
	OwnID     string `json:"own_id"`     // tunnel-id string of the stream under test (both ends)
	ForeignID string `json:"foreign_id"` // tunnel-id string of the injected foreign frames
	Ops       []Op   `json:"ops"`
	// Side: write sizes of a second FrameStream (third, distinct-prefix id) writing
	// concurrently on the same connection.
	Side   []int  `json:"side,omitempty"`
	Ending string `json:"ending"` // closewrite | close | tcp-close | cut-fin | cut-rst
	// cut endings: a final own-id data frame claiming CutLen payload bytes of which only
	// Cut bytes (of header+payload) reach the wire before the transport ends.
	Cut    int `json:"cut,omitempty"`
	CutLen int `json:"cut_len,omitempty"`
	// closewrite ending: the peer writes Reverse back; Duplex = concurrently with the
	// forward direction (both ends half-close), else after it has seen end-of-stream
	// (then it ends with Close).
	Duplex       bool   `json:"duplex,omitempty"`
	Reverse      []int  `json:"reverse,omitempty"`
	ReadSizes    []int  `json:"read_sizes"`
	RevReadSizes []int  `json:"rev_read_sizes,omitempty"`
	Tracker      int    `json:"tracker"` // 0 none, 1 tracker says "closed", 2 tracker says "open"
	Seed         uint32 `json:"seed"`
	// Next: connection reuse. After the first tunnel ended (Close, or CloseWrite and the
	// peer's reply fully received) a second tunnel runs on the SAME Conn pair through new
	// FrameStream objects on both ends (what the pool does with a returned connection).
	// After Close the sender starts it immediately, so the first tunnel's Close frame and
	// the second tunnel's first frames can sit in the receiver's socket buffer together.
	Next *NextTunnel `json:"next,omitempty"`
	// Poison: before the streams start, a frame write and two frame decodes FAIL on
	// unrelated writers/readers (codec state must not leak from failed calls).
	Poison bool `json:"poison,omitempty"`
}

func poison(seed uint32) {
	id := wireID("poisoned-tunnel")
	p := make([]byte, 300)
	fill(p, seed, 0, 0x80)
	w := &memWriter{budget: int(seed % 40), kind: []string{"timeout", "reset", "short", "closed"}[seed%4]}
	crossnode.WriteFrameToWriter(w, id, crossnode.FrameTypeData, p)
	crossnode.ReadFrameFromReader(bytes.NewReader(refEncode(id, crossnode.FrameTypeData, p)[:100]))
	over := refEncode(id, crossnode.FrameTypeData, nil)
	over[17] = 0x7F
	crossnode.ReadFrameFromReader(bytes.NewReader(over))
}

// NextTunnel is the second tunnel on a reused connection. In its Ops an injected frame
// with ID "foreign" carries the FIRST tunnel's id (a stale frame of the previous user of
// the connection), "own" the second tunnel's id.
type NextTunnel struct {
	ID        string `json:"id"`
	Ops       []Op   `json:"ops"`
	Ending    string `json:"ending"` // close | closewrite
	ReadSizes []int  `json:"read_sizes"`
}

func nextPayload(c Case, idx, n int) []byte {
	b := make([]byte, n)
	fill(b, c.Seed^uint32(0x77000+idx*104729), 0, 0x80)
	return b
}

func nextModel(c Case) []byte {
	var data []byte
	off := 0
	for _, op := range c.Next.Ops {
		if op.Inj == nil {
			b := make([]byte, op.Write)
			fill(b, c.Seed^0xB2B2B2B2, off, 0)
			off += op.Write
			data = append(data, b...)
		}
	}
	return data
}

// Replay is the on-disk replay unit of this package.
type Replay struct {
	Stream  *Case      `json:"stream,omitempty"`
	Codec   *CodecCase `json:"codec,omitempty"`
	History *HistCase  `json:"history,omitempty"`
	Pool    *PoolCase  `json:"pool,omitempty"`
}

const (
	endCloseWrite = "closewrite"
	endClose      = "close"
	endTCPClose   = "tcp-close"
	endCutFin     = "cut-fin"
	endCutRst     = "cut-rst"
)

// fill writes the deterministic byte pattern of stream `seed` starting at stream offset
// off. Own stream bytes have the top bit clear; injected payloads set it (mark=0x80),
// so anything delivered from a frame that is not the stream's own data is recognisable.
func fill(b []byte, seed uint32, off int, mark byte) {
	for i := range b {
		x := uint32(off+i)*2654435761 ^ seed
		x ^= x >> 15
		x *= 2246822519
		x ^= x >> 13
		b[i] = byte(x>>8)&0x7F | mark
	}
}

func injPayload(c Case, idx int, n int) []byte {
	b := make([]byte, n)
	fill(b, c.Seed^uint32(0x1000+idx*7919), 0, 0x80)
	return b
}

func wireID(s string) [16]byte {
	id, _ := crossnode.TunnelIDFromString(s)
	return id
}

// prefix16 is the harness's own view of "the first 16 bytes" of an id string (zero
// padded), independent of the code under test.
func prefix16(s string) (p [16]byte) { copy(p[:], s); return }

// truncShape: two distinct id strings with equal first 16 bytes, at least one of them
// longer than 16 bytes (the shape of the listed finding).
func truncShape(a, b string) bool {
	if a == b || (len(a) <= 16 && len(b) <= 16) {
		return false
	}
	pa, pb := a, b
	if len(pa) > 16 {
		pa = pa[:16]
	}
	if len(pb) > 16 {
		pb = pb[:16]
	}
	return pa == pb
}

const sideSeed = 0x51DE

func sideIDFor(own string) string {
	s := "side-stream-0001"
	if prefix16(s) == prefix16(own) {
		s = "SIDE-stream-0002"
	}
	return s
}

// model computes what the forward reader must receive. mergeForeign=false is the
// property (only the stream's own writes); mergeForeign=true is the behaviour of an
// implementation for which ForeignID and OwnID are the same tunnel.
func model(c Case, mergeForeign bool) (data []byte, endedEarly bool) {
	off := 0
	for i, op := range c.Ops {
		if op.Inj == nil {
			b := make([]byte, op.Write)
			fill(b, c.Seed, off, 0)
			off += op.Write
			data = append(data, b...)
			continue
		}
		if op.Inj.ID == "foreign" && mergeForeign {
			switch op.Inj.Type {
			case crossnode.FrameTypeData:
				data = append(data, injPayload(c, i, op.Inj.Len)...)
			case crossnode.FrameTypeEOF, crossnode.FrameTypeClose:
				return data, true
			}
		}
	}
	return data, false
}

func revModel(c Case) []byte {
	var data []byte
	off := 0
	for _, n := range c.Reverse {
		b := make([]byte, n)
		fill(b, ^c.Seed, off, 0)
		off += n
		data = append(data, b...)
	}
	return data
}

// ---------------------------------------------------------------------------
// loopback TCP pair

var (
	lnOnce sync.Once
	ln     *net.TCPListener
	lnErr  error
)

func tcpPair() (a, b *net.TCPConn, err error) {
	lnOnce.Do(func() {
		ln, lnErr = net.ListenTCP("tcp4", &net.TCPAddr{IP: net.IPv4(127, 0, 0, 1)})
	})
	if lnErr != nil {
		return nil, nil, lnErr
	}
	a, err = net.DialTCP("tcp4", nil, ln.Addr().(*net.TCPAddr))
	if err != nil {
		return nil, nil, err
	}
	for {
		ln.SetDeadline(time.Now().Add(20 * time.Second))
		b, err = ln.AcceptTCP()
		if err != nil {
			a.Close()
			return nil, nil, err
		}
		if b.RemoteAddr().String() == a.LocalAddr().String() {
			return a, b, nil
		}
		b.Close() // a stranger connected to our ephemeral port
	}
}

type tracker bool

func (t tracker) IsTunnelClosed(string) bool { return bool(t) }

func newStream(conn *crossnode.Conn, id [16]byte, tr int) *crossnode.FrameStream {
	switch tr {
	case 1:
		return crossnode.NewFrameStreamWithTracker(conn, id, tracker(true))
	case 2:
		return crossnode.NewFrameStreamWithTracker(conn, id, tracker(false))
	}
	return crossnode.NewFrameStream(conn, id)
}

// ---------------------------------------------------------------------------
// execution

type idleResult struct {
	at  int
	n   int
	err error
	ran bool
}

// idlePlan: at stream offset at[k] the reader lets a read deadline of ms[k] expire on
// conn while the writer is idle, then releases the writer.
type idlePlan struct {
	at      []int
	ms      []int
	conn    *crossnode.Conn
	release []chan struct{}
	res     []idleResult
}

type readResult struct {
	got   []byte
	err   error
	reads int
	note  string // harness guard tripped (runaway / spinning reader)
}

var scratchPool = sync.Pool{New: func() any { b := make([]byte, 1<<20); return &b }}

// readAll reads the stream to its end with the prescribed buffer sizes (cycled).
func readAll(s *crossnode.FrameStream, sizes []int, limit int, progress *atomic.Int64, plan *idlePlan) (r readResult) {
	sp := scratchPool.Get().(*[]byte)
	defer scratchPool.Put(sp)
	scratch := *sp
	idle := 0
	k := 0
	if plan != nil {
		defer func() { // never leave the writer waiting
			for ; k < len(plan.release); k++ {
				close(plan.release[k])
			}
		}()
	}
	for i := 0; ; i++ {
		for plan != nil && k < len(plan.at) && len(r.got) >= plan.at[k] {
			if len(r.got) == plan.at[k] {
				// everything written so far has been returned: the stream is at a frame boundary
				// and the writer is parked. Let a read deadline expire.
				d := time.Duration(plan.ms[k]) * time.Millisecond
				if plan.ms[k]%2 == 1 {
					plan.conn.SetDeadline(time.Now().Add(d))
				} else {
					plan.conn.SetReadDeadline(time.Now().Add(d))
				}
				n, err := s.Read(scratch[:4096])
				plan.conn.SetDeadline(time.Time{})
				plan.res[k] = idleResult{at: plan.at[k], n: n, err: err, ran: true}
				if n > 0 {
					r.got = append(r.got, scratch[:n]...)
					progress.Add(int64(n))
				}
			}
			close(plan.release[k])
			k++
		}
		sz := sizes[i%len(sizes)]
		if sz > len(scratch) {
			sz = len(scratch)
		}
		n, err := s.Read(scratch[:sz])
		r.reads++
		if n < 0 || n > sz {
			r.note = fmt.Sprintf("Read returned n=%d for a %d-byte buffer", n, sz)
			return
		}
		r.got = append(r.got, scratch[:n]...)
		progress.Add(int64(n))
		if err != nil {
			r.err = err
			return
		}
		if n == 0 && sz > 0 {
			idle++
			if idle > 1<<20 {
				r.note = "reader spins: Read keeps returning (0, nil) for a non-empty buffer"
				return
			}
		} else if n > 0 {
			idle = 0
		}
		if len(r.got) > limit {
			r.note = fmt.Sprintf("reader received %d bytes, more than everything ever written (%d)", len(r.got), limit)
			return
		}
	}
}

type outcome struct {
	fwd, rev      readResult
	idles         []idleResult
	next          readResult
	nextRan       bool
	nextDelivered int64
	writeFail     string // first failing stream operation on a writer side
	harnessErr    string // loopback / injection trouble: inconclusive
	timedOut      bool
	stuck         string // which goroutines had not finished when the watchdog fired
	fwdDelivered  int64
	revDelivered  int64
}

func runStream(c Case, quiet time.Duration) (o outcome) {
	ta, tb, err := tcpPair()
	if err != nil {
		o.harnessErr = "tcp pair: " + err.Error()
		return
	}
	ctx, cancel := context.WithCancel(context.Background())
	defer cancel()
	ca := crossnode.NewConn(ctx, "node-b", ta, nil)
	cb := crossnode.NewConn(ctx, "node-a", tb, nil)
	own := wireID(c.OwnID)
	foreign := wireID(c.ForeignID)
	sa := newStream(ca, own, c.Tracker)
	sb := newStream(cb, own, c.Tracker)

	wantFwd, _ := model(c, true)
	wantOwn, _ := model(c, false)
	fwdLimit := len(wantFwd) + len(wantOwn) + c.CutLen + 1
	for _, n := range c.Side {
		fwdLimit += n
	}
	for _, op := range c.Ops {
		if op.Inj != nil {
			fwdLimit += op.Inj.Len
		}
	}
	wantRev := revModel(c)

	var plan *idlePlan
	{
		pos := 0
		for _, op := range c.Ops {
			if op.Inj == nil && op.IdleMs > 0 {
				if plan == nil {
					plan = &idlePlan{conn: cb}
				}
				plan.at = append(plan.at, pos)
				plan.ms = append(plan.ms, op.IdleMs)
				plan.release = append(plan.release, make(chan struct{}))
			} else if op.Inj == nil {
				pos += op.Write
			}
		}
		if plan != nil {
			plan.res = make([]idleResult, len(plan.at))
			defer func() { o.idles = plan.res }()
		}
	}

	var mu sync.Mutex
	setWriteFail := func(s string) {
		mu.Lock()
		if o.writeFail == "" {
			o.writeFail = s
		}
		mu.Unlock()
	}
	setHarnessErr := func(s string) {
		mu.Lock()
		if o.harnessErr == "" {
			o.harnessErr = s
		}
		mu.Unlock()
	}

	var core, aux sync.WaitGroup
	abort := make(chan struct{})
	fwdReaderDone := make(chan struct{})
	var fwDone, frDone, rwDone, rrDone, nrDone atomic.Bool
	var fwdProgress, revProgress, nextProgress atomic.Int64
	revReaderDone := make(chan struct{})
	if c.Next == nil {
		nrDone.Store(true)
	}
	reverse := c.Ending == endCloseWrite

	// forward reader (peer side B)
	core.Add(1)
	aux.Add(1)
	go func() {
		defer aux.Done()
		o.fwd = readAll(sb, c.ReadSizes, fwdLimit, &fwdProgress, plan)
		frDone.Store(true)
		close(fwdReaderDone)
		if c.Next != nil {
			// the connection is reused: a NEW FrameStream for the second tunnel on the same Conn
			lim := len(nextModel(c)) + 1
			for _, op := range c.Next.Ops {
				if op.Inj != nil {
					lim += op.Inj.Len
				}
			}
			sb2 := newStream(cb, wireID(c.Next.ID), c.Tracker)
			o.nextRan = true
			o.next = readAll(sb2, c.Next.ReadSizes, lim, &nextProgress, nil)
			nrDone.Store(true)
		}
		core.Done()
		io.Copy(io.Discard, tb) // keep the transport flowing whatever the stream decided
	}()

	// forward writer (side A)
	core.Add(1)
	go func() {
		defer core.Done()
		defer fwDone.Store(true)
		sideDone := make(chan struct{})
		go func() {
			defer close(sideDone)
			if len(c.Side) == 0 {
				return
			}
			ss := crossnode.NewFrameStream(ca, wireID(sideIDFor(c.OwnID)))
			off := 0
			for _, n := range c.Side {
				b := make([]byte, n)
				fill(b, sideSeed, off, 0x80)
				off += n
				if _, err := ss.Write(b); err != nil {
					setHarnessErr("side stream write: " + err.Error())
					return
				}
			}
		}()
		off := 0
		failed := false
		idleK := 0
		for i, op := range c.Ops {
			if op.Inj == nil && op.IdleMs > 0 {
				select {
				case <-plan.release[idleK]:
				case <-abort:
					return
				}
				idleK++
				continue
			}
			if op.Inj != nil {
				id := own
				if op.Inj.ID == "foreign" {
					id = foreign
				}
				if err := crossnode.WriteFrame(ta, id, op.Inj.Type, injPayload(c, i, op.Inj.Len)); err != nil {
					setHarnessErr(fmt.Sprintf("inject op %d: %v", i, err))
					failed = true
					break
				}
				continue
			}
			b := make([]byte, op.Write)
			fill(b, c.Seed, off, 0)
			off += op.Write
			n, err := sa.Write(b)
			if err != nil || n != op.Write {
				setWriteFail(fmt.Sprintf("op %d: Write(%d bytes) = (%d, %v)", i, op.Write, n, err))
				failed = true
				break
			}
		}
		<-sideDone
		if failed {
			ta.Close()
			return
		}
		switch c.Ending {
		case endCloseWrite:
			if err := sa.CloseWrite(); err != nil {
				setWriteFail("CloseWrite: " + err.Error())
				ta.Close()
				return
			}
		case endClose:
			if err := sa.Close(); err != nil {
				setWriteFail("Close: " + err.Error())
				ta.Close()
				return
			}
		case endTCPClose:
			ca.Close()
		case endCutFin, endCutRst:
			hdr := make([]byte, crossnode.FrameHeaderSize, crossnode.FrameHeaderSize+c.CutLen)
			copy(hdr, own[:])
			hdr[16] = crossnode.FrameTypeData
			hdr[17], hdr[18], hdr[19], hdr[20] = byte(c.CutLen>>24), byte(c.CutLen>>16), byte(c.CutLen>>8), byte(c.CutLen)
			full := append(hdr, injPayload(c, len(c.Ops), c.CutLen)...)
			cut := c.Cut
			if cut > len(full)-1 {
				cut = len(full) - 1
			}
			if _, err := ta.Write(full[:cut]); err != nil {
				setHarnessErr("cut write: " + err.Error())
			}
			if c.Ending == endCutFin {
				ta.CloseWrite()
			} else {
				ta.SetLinger(0)
				ta.Close()
			}
		}
		if c.Next == nil || (c.Ending != endClose && c.Ending != endCloseWrite) {
			return
		}
		if c.Ending == endCloseWrite {
			// the first tunnel is over only when the peer's reply has ended too
			select {
			case <-revReaderDone:
			case <-abort:
				return
			}
		}
		id2 := wireID(c.Next.ID)
		sa2 := newStream(ca, id2, c.Tracker)
		off2 := 0
		for i, op := range c.Next.Ops {
			if op.Inj != nil {
				id := id2
				if op.Inj.ID == "foreign" {
					id = own // stale frame of the connection's previous tunnel
				}
				if err := crossnode.WriteFrame(ta, id, op.Inj.Type, nextPayload(c, i, op.Inj.Len)); err != nil {
					setHarnessErr(fmt.Sprintf("second tunnel inject op %d: %v", i, err))
					ta.Close()
					return
				}
				continue
			}
			b := make([]byte, op.Write)
			fill(b, c.Seed^0xB2B2B2B2, off2, 0)
			off2 += op.Write
			n, err := sa2.Write(b)
			if err != nil || n != op.Write {
				setWriteFail(fmt.Sprintf("second tunnel op %d: Write(%d bytes) = (%d, %v)", i, op.Write, n, err))
				ta.Close()
				return
			}
		}
		var err error
		if c.Next.Ending == endCloseWrite {
			err = sa2.CloseWrite()
		} else {
			err = sa2.Close()
		}
		if err != nil {
			setWriteFail("second tunnel close: " + err.Error())
			ta.Close()
		}
	}()

	if reverse {
		// reverse reader (side A)
		core.Add(1)
		aux.Add(1)
		go func() {
			defer aux.Done()
			o.rev = readAll(sa, c.RevReadSizes, len(wantRev)+1, &revProgress, nil)
			rrDone.Store(true)
			close(revReaderDone)
			core.Done()
			io.Copy(io.Discard, ta)
		}()
		// reverse writer (peer side B)
		core.Add(1)
		go func() {
			defer core.Done()
			defer rwDone.Store(true)
			if !c.Duplex {
				select {
				case <-fwdReaderDone:
				case <-abort:
					return
				}
			}
			off := 0
			for i, n := range c.Reverse {
				b := make([]byte, n)
				fill(b, ^c.Seed, off, 0)
				off += n
				w, err := sb.Write(b)
				if err != nil || w != n {
					setWriteFail(fmt.Sprintf("reverse write %d: Write(%d bytes) = (%d, %v)", i, n, w, err))
					tb.Close()
					return
				}
			}
			var err error
			if c.Duplex {
				err = sb.CloseWrite()
			} else {
				err = sb.Close()
			}
			if err != nil {
				setWriteFail("reverse close: " + err.Error())
				tb.Close()
			}
		}()
	} else {
		rwDone.Store(true)
		rrDone.Store(true)
	}

	coreDone := make(chan struct{})
	go func() { core.Wait(); close(coreDone) }()
	// Stall detection by lack of progress: the run is declared stuck when neither a
	// goroutine finished nor a byte was delivered for `quiet`; hardCap bounds a run that
	// keeps crawling (then inconclusive).
	snapshot := func() [8]int64 {
		b2i := func(b *atomic.Bool) int64 {
			if b.Load() {
				return 1
			}
			return 0
		}
		return [8]int64{b2i(&fwDone), b2i(&frDone), b2i(&rwDone), b2i(&rrDone), fwdProgress.Load(), revProgress.Load(), b2i(&nrDone), nextProgress.Load()}
	}
	last, lastChange, start := snapshot(), time.Now(), time.Now()
	tick := time.NewTicker(20 * time.Millisecond)
wait:
	for {
		select {
		case <-coreDone:
			break wait
		case <-tick.C:
		}
		now := time.Now()
		if cur := snapshot(); cur != last {
			last, lastChange = cur, now
			continue
		}
		if now.Sub(lastChange) < quiet && now.Sub(start) < hardCap {
			continue
		}
		if now.Sub(lastChange) < quiet {
			o.harnessErr = fmt.Sprintf("case still making slow progress after %v", hardCap)
		}
		o.timedOut = true
		var s []string
		for _, f := range []struct {
			n string
			b *atomic.Bool
		}{{"forward-writer", &fwDone}, {"forward-reader", &frDone}, {"reverse-writer", &rwDone}, {"reverse-reader", &rrDone}, {"second-tunnel-reader", &nrDone}} {
			if !f.b.Load() {
				s = append(s, f.n)
			}
		}
		o.stuck = strings.Join(s, ",")
		o.fwdDelivered = fwdProgress.Load()
		o.revDelivered = revProgress.Load()
		o.nextDelivered = nextProgress.Load()
		break wait
	}
	tick.Stop()
	close(abort)
	ta.Close()
	tb.Close()
	if o.timedOut {
		select {
		case <-coreDone:
		case <-time.After(20 * time.Second):
			// cannot even be unblocked by closing the sockets: leave the goroutines behind
			o.harnessErr = "goroutines still blocked after closing the transport"
			return
		}
	}
	if o.harnessErr != "" {
		o.timedOut = false
	}
	aux.Wait()
	ca.Close()
	cb.Close()
	return
}

// ---------------------------------------------------------------------------
// oracle

type failure struct{ key, detail string }

func firstDiff(a, b []byte) int {
	n := len(a)
	if len(b) < n {
		n = len(b)
	}
	for i := 0; i < n; i++ {
		if a[i] != b[i] {
			return i
		}
	}
	return n
}

func typeName(t byte) string {
	switch t {
	case crossnode.FrameTypeData:
		return "data"
	case crossnode.FrameTypeEOF:
		return "eof"
	case crossnode.FrameTypeClose:
		return "close"
	case crossnode.FrameTypeTargetReady, crossnode.FrameTypeAck, crossnode.FrameTypeHTTPProxy, crossnode.FrameTypeHTTPResponse,
		crossnode.FrameTypeDNSQuery, crossnode.FrameTypeDNSResponse, crossnode.FrameTypeCommand, crossnode.FrameTypeCommandResponse:
		return "control"
	}
	return "unknown"
}

// classifyForeign finds which injected frame's payload shows up in got.
func classifyForeign(c Case, got []byte) (string, bool) {
	probe := func(p []byte) bool {
		if len(p) == 0 {
			return false
		}
		if len(p) > 24 {
			p = p[:24]
		}
		return bytes.Contains(got, p)
	}
	for i, op := range c.Ops {
		if op.Inj != nil && probe(injPayload(c, i, op.Inj.Len)) {
			return fmt.Sprintf("id=%s/type=%s", op.Inj.ID, typeName(op.Inj.Type)), true
		}
	}
	if c.Ending == endCutFin || c.Ending == endCutRst {
		if probe(injPayload(c, len(c.Ops), c.CutLen)) {
			return "short-frame", true
		}
	}
	if len(c.Side) > 0 {
		b := make([]byte, 24)
		fill(b, sideSeed, 0, 0x80)
		if bytes.Contains(got, b[:4]) {
			return "id=side-stream/type=data", true
		}
	}
	return "", false
}

func hasMarked(b []byte) int {
	for i, x := range b {
		if x&0x80 != 0 {
			return i
		}
	}
	return -1
}

// inSegmented reports whether stream offset off falls into a write larger than one frame.
func inSegmented(c Case, off int) bool {
	pos := 0
	for _, op := range c.Ops {
		if op.Inj != nil {
			continue
		}
		if off < pos+op.Write {
			return op.Write > maxFrame
		}
		pos += op.Write
	}
	return false
}

func judge(c Case, o outcome) *failure {
	if o.harnessErr != "" {
		return nil // handled by caller as inconclusive
	}
	trunc := truncShape(c.OwnID, c.ForeignID)
	want, _ := model(c, false)
	wantMerged, mergedEnds := model(c, true)
	mergedDiffers := trunc && (mergedEnds || !bytes.Equal(want, wantMerged))

	if o.timedOut && c.Next != nil && o.nextRan && strings.Contains(o.stuck, "second-tunnel-reader") && !strings.Contains(o.stuck, "forward-reader") &&
		!strings.Contains(o.stuck, "reverse-reader") && bytes.Equal(o.fwd.got, want) {
		// the first tunnel was delivered completely and ended; the tunnel that reuses the connection is stuck
		w := nextModel(c)
		if o.nextDelivered >= int64(len(w)) && !strings.Contains(o.stuck, "forward-writer") {
			return &failure{"C10/end-of-stream-not-delivered/second-tunnel-on-reused-conn/after=" + c.Ending, fmt.Sprintf("second tunnel %q on the connection previously used by %q: all %d bytes delivered but its end-of-stream (%s) never arrived", c.Next.ID, c.OwnID, len(w), c.Next.Ending)}
		}
		return &failure{"C10/delivery-stalled/second-tunnel-on-reused-conn/after=" + c.Ending, fmt.Sprintf("second tunnel %q on the connection previously used by %q (ended with %s): %d of %d bytes delivered, then nothing (still running: %s)", c.Next.ID, c.OwnID, c.Ending, o.nextDelivered, len(w), o.stuck)}
	}
	if o.timedOut {
		if strings.Contains(o.stuck, "forward-reader") && !strings.Contains(o.stuck, "forward-writer") && o.fwdDelivered >= int64(len(want)) {
			return &failure{"C10/end-of-stream-not-delivered/ending=" + c.Ending, fmt.Sprintf("writer finished (%s) and all %d bytes were delivered, but the peer's Read never returned end-of-stream", c.Ending, len(want))}
		}
		if o.stuck == "reverse-reader" && o.revDelivered >= int64(len(revModel(c))) {
			e := "peer-close"
			if c.Duplex {
				e = "peer-closewrite"
			}
			return &failure{"C10/end-of-stream-not-delivered/ending=" + e, fmt.Sprintf("the peer wrote %d bytes back and closed (%s); all bytes were delivered but Read never returned end-of-stream", o.revDelivered, e)}
		}
		return &failure{"C10/delivery-stalled/ending=" + c.Ending, fmt.Sprintf("still running: %s; forward bytes delivered %d of %d", o.stuck, o.fwdDelivered, len(want))}
	}
	if o.writeFail != "" {
		big := ""
		if strings.Contains(o.writeFail, "Write(") {
			big = "/stream-write"
		}
		return &failure{"C10/writer-refused-in-domain-operation" + big, o.writeFail}
	}
	for k, ir := range o.idles {
		if ir.ran && ir.err != nil && errors.Is(ir.err, io.EOF) {
			return &failure{"C10/read-deadline-reported-as-end-of-stream", fmt.Sprintf("idle point %d (stream offset %d): the peer was alive but idle, a %d ms read deadline on the cross-node Conn expired at a frame boundary and FrameStream.Read returned (%d, %v) - end-of-stream without Close/CloseWrite/transport close; afterwards %d of %d bytes were delivered", k, ir.at, c.idleMs(k), ir.n, ir.err, len(o.fwd.got), len(want))}
		}
	}
	if f := judgeDir(c, "forward", o.fwd, want, wantMerged, mergedDiffers, mergedEnds); f != nil {
		if prefix16(c.OwnID) != prefix16(c.ForeignID) && wireID(c.OwnID) == wireID(c.ForeignID) {
			return &failure{"C10/tunnel-ids-differing-in-first-16-bytes-share-wire-id/stream", fmt.Sprintf("ids %q and %q differ within their first 16 bytes (%x vs %x) but TunnelIDFromString gives both the wire id %x; consequence: %s", c.OwnID, c.ForeignID, prefix16(c.OwnID), prefix16(c.ForeignID), wireID(c.OwnID), f.detail)}
		}
		for k, ir := range o.idles {
			if ir.ran && ir.err != nil && len(o.fwd.got) <= ir.at && len(want) > ir.at {
				f.key = "C10/no-delivery-after-expired-read-deadline"
				f.detail = fmt.Sprintf("idle point %d (stream offset %d): Read returned %v when the read deadline expired; after the deadline was cleared the peer wrote %d more bytes, none were delivered (%s)", k, ir.at, ir.err, len(want)-ir.at, f.detail)
				break
			}
		}
		return f
	}
	if c.Ending == endCloseWrite {
		if f := judgeDir(c, "reverse", o.rev, revModel(c), nil, false, false); f != nil {
			return f
		}
	}
	if c.Next != nil && o.nextRan {
		return judgeNext(c, o.next)
	}
	return nil
}

// judgeNext: the tunnel that reuses the connection obeys the same byte-exact model.
func judgeNext(c Case, r readResult) *failure {
	const where = "second-tunnel-on-reused-conn"
	want := nextModel(c)
	if r.note != "" {
		return &failure{"C10/reader-misbehaves/" + where, r.note}
	}
	if !bytes.Equal(r.got, want) {
		if i := hasMarked(r.got); i >= 0 {
			kind := "unidentified"
			for j, op := range c.Next.Ops {
				if op.Inj == nil || op.Inj.Len == 0 {
					continue
				}
				p := nextPayload(c, j, op.Inj.Len)
				if len(p) > 24 {
					p = p[:24]
				}
				if bytes.Contains(r.got, p) {
					kind = fmt.Sprintf("id=%s/type=%s", map[string]string{"foreign": "previous-tunnel", "own": "own"}[op.Inj.ID], typeName(op.Inj.Type))
					break
				}
			}
			return &failure{"C10/non-stream-frame-delivered-as-data/" + where + "/" + kind, fmt.Sprintf("second tunnel %q (connection previously used by %q): bytes of an injected frame (%s) returned by Read at stream offset %d", c.Next.ID, c.OwnID, kind, i)}
		}
		d := firstDiff(r.got, want)
		if d == len(r.got) && len(r.got) < len(want) {
			return &failure{"C10/bytes-missing-before-end-of-stream/" + where + "/after=" + c.Ending, fmt.Sprintf("second tunnel %q on the connection previously used by %q: got %d of %d bytes then %v", c.Next.ID, c.OwnID, len(r.got), len(want), r.err)}
		}
		return &failure{"C10/stream-bytes-differ/" + where, fmt.Sprintf("second tunnel %q: first difference at offset %d (got %d bytes, want %d); read sizes %v", c.Next.ID, d, len(r.got), len(want), c.Next.ReadSizes)}
	}
	if r.err == nil {
		return &failure{"C10/reader-misbehaves/" + where, "reader stopped without error"}
	}
	if !errors.Is(r.err, io.EOF) {
		return &failure{"C10/error-instead-of-end-of-stream/" + where, fmt.Sprintf("second tunnel %q: all %d bytes delivered, then Read returned %v instead of io.EOF", c.Next.ID, len(want), r.err)}
	}
	return nil
}

func (c Case) idleMs(k int) int {
	for _, op := range c.Ops {
		if op.Inj == nil && op.IdleMs > 0 {
			if k == 0 {
				return op.IdleMs
			}
			k--
		}
	}
	return 0
}

func judgeDir(c Case, dir string, r readResult, want, wantMerged []byte, mergedDiffers, mergedEnds bool) *failure {
	ending := c.Ending
	if dir == "reverse" {
		ending = "peer-close"
		if c.Duplex {
			ending = "peer-closewrite"
		}
	}
	suffix := "/dir=" + dir
	if r.note != "" {
		return &failure{"C10/reader-misbehaves" + suffix, r.note}
	}
	exact := dir == "reverse" || ending != endCutRst // after a reset only a prefix can be demanded
	ok := bytes.Equal(r.got, want)
	if !exact {
		ok = bytes.HasPrefix(want, r.got)
	}
	if !ok {
		// the listed finding: behaviour is exactly that of "foreign id == own id"
		if mergedDiffers {
			if bytes.Equal(r.got, wantMerged) || (!exact && bytes.HasPrefix(wantMerged, r.got)) {
				return &failure{"C10/tunnel-id-truncated-to-16-bytes", fmt.Sprintf("tunnel ids %q and %q are both sent as wire id %q: the stream of the first delivered %d bytes where its own writes are %d bytes (frames of the second were accepted as its own; ended early=%v)",
					c.OwnID, c.ForeignID, crossnode.TunnelIDToString(wireID(c.OwnID)), len(r.got), len(want), mergedEnds)}
			}
		}
		if i := hasMarked(r.got); i >= 0 {
			kind, found := classifyForeign(c, r.got)
			if !found {
				kind = "unidentified"
			}
			if kind == "short-frame" {
				return &failure{"C10/short-frame-delivered" + suffix, fmt.Sprintf("payload bytes of a frame cut after %d of %d bytes were returned at stream offset %d", c.Cut, crossnode.FrameHeaderSize+c.CutLen, i)}
			}
			return &failure{"C10/non-stream-frame-delivered-as-data/" + kind, fmt.Sprintf("bytes of an injected frame (%s) returned by Read at stream offset %d (own ids %q / foreign %q)", kind, i, c.OwnID, c.ForeignID)}
		}
		d := firstDiff(r.got, want)
		seg := "single-frame-write"
		if inSegmented(c, d) && dir == "forward" {
			seg = "segmented-write"
		}
		if dir == "reverse" {
			seg = "reverse"
			off := 0
			for _, n := range c.Reverse {
				if d < off+n {
					if n > maxFrame {
						seg = "reverse-segmented-write"
					}
					break
				}
				off += n
			}
		}
		if d == len(r.got) && len(r.got) < len(want) {
			return &failure{"C10/bytes-missing-before-end-of-stream/" + seg + "/ending=" + ending, fmt.Sprintf("%s: got %d of %d bytes then %v", dir, len(r.got), len(want), r.err)}
		}
		return &failure{"C10/stream-bytes-differ/" + seg, fmt.Sprintf("%s: first difference at offset %d (got %d bytes, want %d); read sizes %v", dir, d, len(r.got), len(want), c.ReadSizes)}
	}
	// termination
	if r.err == nil {
		return &failure{"C10/reader-misbehaves" + suffix, "reader stopped without error"}
	}
	needEOF := dir == "reverse" || ending == endCloseWrite || ending == endClose
	if needEOF && !errors.Is(r.err, io.EOF) {
		return &failure{"C10/error-instead-of-end-of-stream/ending=" + ending, fmt.Sprintf("%s: all %d bytes delivered, then Read returned %v instead of io.EOF", dir, len(want), r.err)}
	}
	return nil
}

// ---------------------------------------------------------------------------
// evidence helpers

func sizeClass(n int) string {
	switch {
	case n == 0:
		return "0"
	case n == 1:
		return "1"
	case n < maxFrame-1:
		return "<64K"
	case n == maxFrame-1:
		return "64K-1"
	case n == maxFrame:
		return "64K"
	case n == maxFrame+1:
		return "64K+1"
	case n <= 4*maxFrame:
		return "2-4frames"
	}
	return ">4frames"
}

func (c Case) features() (big, injBetween bool, sig string) {
	var sc []string
	dataSeen := false
	pending := false
	for _, op := range c.Ops {
		if op.Inj == nil && op.IdleMs > 0 {
			sc = append(sc, "idle")
			continue
		}
		if op.Inj == nil {
			sc = append(sc, sizeClass(op.Write))
			if op.Write > maxFrame {
				big = true
			}
			if op.Write > 0 {
				if pending {
					injBetween = true
				}
				dataSeen = true
			}
			continue
		}
		sc = append(sc, fmt.Sprintf("i:%s:%s:%s", op.Inj.ID, typeName(op.Inj.Type), sizeClass(op.Inj.Len)))
		if dataSeen {
			pending = true
		}
	}
	if len(c.Side) > 0 {
		injBetween = true
		sc = append(sc, fmt.Sprintf("side%d", len(c.Side)))
	}
	var rs []string
	for _, n := range c.Reverse {
		rs = append(rs, sizeClass(n))
	}
	nx := ""
	if c.Next != nil {
		var ns []string
		for _, op := range c.Next.Ops {
			if op.Inj == nil {
				ns = append(ns, sizeClass(op.Write))
			} else {
				ns = append(ns, fmt.Sprintf("i:%s:%s", op.Inj.ID, typeName(op.Inj.Type)))
			}
		}
		nx = fmt.Sprintf("|next:%v:%s:%s", ns, c.Next.Ending, readClass(c.Next.ReadSizes))
	}
	sig = fmt.Sprintf("%v|%s|%v|%v|%v|trunc=%v%s", sc, c.Ending, c.Duplex, rs, readClass(c.ReadSizes), truncShape(c.OwnID, c.ForeignID), nx)
	return
}

func readClass(s []int) string {
	small := false
	for _, n := range s {
		if n > 0 && n < maxFrame {
			small = true
		}
	}
	if small {
		return "partial-frame-reads"
	}
	return "whole-frame-reads"
}

func summarize(c Case) any {
	return map[string]any{"own_id": c.OwnID, "foreign_id": c.ForeignID, "ops": c.Ops, "side": c.Side, "ending": c.Ending,
		"cut": c.Cut, "cut_len": c.CutLen, "duplex": c.Duplex, "reverse": c.Reverse, "read_sizes": c.ReadSizes, "next": c.Next}
}

// A typical case takes ~10 ms. The first stall of a process is judged with a 6 s
// no-progress window and re-run once with 12 s; once a stall has been confirmed that
// way, later cases (rapid's shrinking re-runs) use 2 s / 4 s so that a hanging
// implementation does not cost minutes per attempt.
const hardCap = 180 * time.Second

var stallConfirmed atomic.Bool

func quietWindow() time.Duration {
	if stallConfirmed.Load() {
		return 2 * time.Second
	}
	return 6 * time.Second
}

func checkStream(t vkit.TB, c Case) {
	if len(c.ReadSizes) == 0 {
		c.ReadSizes = []int{4096}
	}
	if len(c.RevReadSizes) == 0 {
		c.RevReadSizes = []int{4096}
	}
	if c.Next != nil {
		if c.Ending != endClose && c.Ending != endCloseWrite {
			c.Next = nil // a connection whose transport ended cannot be reused
		} else {
			n := *c.Next
			if len(n.ReadSizes) == 0 {
				n.ReadSizes = []int{4096}
			}
			if prefix16(n.ID) == prefix16(c.OwnID) {
				n.ID = "N" + n.ID
			}
			c.Next = &n
		}
	}
	{ // idle points are only meaningful directly after a non-empty own write, with a single writer and distinct ids
		ok := len(c.Side) == 0 && prefix16(c.OwnID) != prefix16(c.ForeignID)
		var ops []Op
		for i, op := range c.Ops {
			if op.Inj == nil && op.IdleMs > 0 {
				op.Write = 0
				if !ok || i == 0 || c.Ops[i-1].Inj != nil || c.Ops[i-1].IdleMs > 0 || c.Ops[i-1].Write == 0 {
					continue
				}
				if op.IdleMs > 200 {
					op.IdleMs = 200
				}
			}
			ops = append(ops, op)
		}
		c.Ops = ops
	}
	if c.Poison {
		poison(c.Seed)
		vkit.Class("feat:after-failed-codec-calls")
	}
	o := runStream(c, quietWindow())
	if o.timedOut && o.harnessErr == "" {
		// "end-of-stream is delivered" is the property: bounded wait, re-run once before reporting
		vkit.AddExtra("stream_watchdog_reruns", 1)
		o = runStream(c, 2*quietWindow())
		if o.timedOut && o.harnessErr == "" {
			stallConfirmed.Store(true)
		}
	}
	if o.harnessErr != "" {
		vkit.Skipped(1)
		vkit.Class("inconclusive:harness-transport-error")
		t.Logf("inconclusive stream case: %s", o.harnessErr)
		return
	}
	if f := judge(c, o); f != nil {
		vkit.Violation(t, f.key, f.detail, Replay{Stream: &c})
		vkit.Case("known(stream):"+f.key, false, "")
		return
	}
	big, between, sig := c.features()
	class := "stream:" + c.Ending
	if c.Duplex {
		class += "+duplex"
	}
	vkit.Case(class, big && between, sig)
	vkit.AddExtra("stream_cases", 1)
	if big && between {
		vkit.AddExtra("stream_nontrivial_cases", 1)
	}
	vkit.Sample(class, summarize(c))
	if big {
		vkit.Class("feat:write>64KiB")
	}
	if c.Next != nil {
		vkit.Class("feat:second-tunnel-on-reused-conn/after=" + c.Ending)
		vkit.AddExtra("stream_cases_with_connection_reuse", 1)
		for _, op := range c.Next.Ops {
			if op.Inj != nil && op.Inj.ID == "foreign" {
				vkit.Class("feat:stale-frame-of-previous-tunnel/" + typeName(op.Inj.Type))
			}
		}
	}
	if truncShape(c.OwnID, c.ForeignID) {
		vkit.Class("feat:ids-share-16-byte-prefix(no conflicting frame)")
	}
	if len(c.Side) > 0 {
		vkit.Class("feat:concurrent-foreign-stream")
	}
	if readClass(c.ReadSizes) == "partial-frame-reads" {
		vkit.Class("feat:read-buffer<frame")
	}
	for k, ir := range o.idles {
		_ = k
		switch {
		case !ir.ran:
			vkit.Class("idle:not-reached")
		case ir.err == nil:
			vkit.Class("idle:read-returned-no-error")
		case errors.Is(ir.err, os.ErrDeadlineExceeded):
			vkit.Class("idle:deadline-expired->timeout-error,later-bytes-delivered")
		default:
			vkit.Class("idle:deadline-expired->other-error")
		}
	}
	for _, op := range c.Ops {
		if op.Inj == nil && op.IdleMs > 0 {
			continue
		}
		if op.Inj == nil {
			switch op.Write {
			case 0:
				vkit.Class("feat:write-0")
			case maxFrame - 1, maxFrame, maxFrame + 1:
				vkit.Class("feat:write-64KiB±1")
			}
			continue
		}
		vkit.Class(fmt.Sprintf("inject:%s/%s", op.Inj.ID, typeName(op.Inj.Type)))
		if op.Inj.Type == crossnode.FrameTypeData && op.Inj.Len == 0 {
			vkit.Class("feat:empty-data-frame")
		}
	}
	if c.Tracker != 0 {
		vkit.Class("feat:tunnel-state-tracker")
	}
	if len(c.OwnID) < 16 {
		vkit.Class("feat:own-id<16")
	} else if len(c.OwnID) > 16 {
		vkit.Class("feat:own-id>16")
	}
	if c.Ending == endCutFin || c.Ending == endCutRst {
		if c.Cut < crossnode.FrameHeaderSize {
			vkit.Class("feat:cut-inside-header")
		} else {
			vkit.Class("feat:cut-inside-payload")
		}
	}
}

// ---------------------------------------------------------------------------
// generators

// pick draws an index with the given weights (rapid's IntRange is biased towards small
// values, SampledFrom over an expanded table is uniform).
func pick(t *rapid.T, label string, weights ...int) int {
	var tab []int
	for i, w := range weights {
		for j := 0; j < w; j++ {
			tab = append(tab, i)
		}
	}
	return rapid.SampledFrom(tab).Draw(t, label)
}

var sizeTable = []int{0, 1, 100, maxFrame - 1, maxFrame, maxFrame + 1, 2 * maxFrame, 2*maxFrame + 1, 200 * 1024, 1 << 20}

func genSize(t *rapid.T, label string, budget *int) int {
	var n int
	switch k := pick(t, label+"Class", 1, 1, 1, 1, 1, 1, 1, 1, 1, 1, 1, 1, 1, 1); {
	case k < len(sizeTable):
		n = sizeTable[k]
	case k == 10 || k == 11:
		n = rapid.IntRange(2, 5000).Draw(t, label)
	case k == 12:
		n = rapid.IntRange(maxFrame+2, 5*maxFrame).Draw(t, label)
	default:
		n = maxFrame + 1
	}
	if n > *budget {
		n = rapid.IntRange(0, 300).Draw(t, label+"Small")
	}
	*budget -= n
	return n
}

var controlTypes = []byte{crossnode.FrameTypeTargetReady, crossnode.FrameTypeAck, crossnode.FrameTypeHTTPProxy, crossnode.FrameTypeHTTPResponse,
	crossnode.FrameTypeDNSQuery, crossnode.FrameTypeDNSResponse, crossnode.FrameTypeCommand, crossnode.FrameTypeCommandResponse}

func genInjLen(t *rapid.T) int {
	switch pick(t, "injLenClass", 1, 1, 1, 1, 2) {
	case 0:
		return 0
	case 1:
		return 1
	case 2:
		return 100
	case 3:
		return maxFrame
	default:
		return rapid.IntRange(4, 3000).Draw(t, "injLen")
	}
}

func genInject(t *rapid.T) *Inject {
	in := &Inject{}
	if pick(t, "injID", 5, 3) == 0 {
		in.ID = "foreign"
		switch k := pick(t, "injType", 1, 1, 1, 1, 1, 1, 1, 1, 1, 1); {
		case k < 5:
			in.Type = crossnode.FrameTypeData
		case k == 5:
			in.Type = crossnode.FrameTypeEOF
		case k == 6:
			in.Type = crossnode.FrameTypeClose
		case k == 7:
			in.Type = rapid.SampledFrom(controlTypes).Draw(t, "ctl")
		default:
			in.Type = rapid.Byte().Draw(t, "rawType")
		}
		in.Len = genInjLen(t)
		if (in.Type == crossnode.FrameTypeEOF || in.Type == crossnode.FrameTypeClose) && rapid.Bool().Draw(t, "emptyEnd") {
			in.Len = 0
		}
		return in
	}
	in.ID = "own"
	switch k := pick(t, "ownType", 1, 1, 1, 1, 1, 1); {
	case k == 0:
		in.Type = crossnode.FrameTypeData // empty data frame
		in.Len = 0
		return in
	case k <= 2:
		in.Type = rapid.SampledFrom(controlTypes).Draw(t, "ctl")
	default:
		b := rapid.Byte().Draw(t, "rawType")
		if b == crossnode.FrameTypeData || b == crossnode.FrameTypeEOF || b == crossnode.FrameTypeClose {
			b = 0x7F
		}
		in.Type = b
	}
	in.Len = genInjLen(t)
	return in
}

func noNUL(s string) string { return strings.ReplaceAll(s, "\x00", "0") }

func realisticID(t *rapid.T, label string) string {
	proto := rapid.SampledFrom([]string{"tcp", "udp", "socks5", "http"}).Draw(t, label+"Proto")
	nano := int64(1758000000000000000) + rapid.Int64Range(0, 9000000000000000).Draw(t, label+"Nano")
	port := rapid.IntRange(1024, 65535).Draw(t, label+"Port")
	return fmt.Sprintf("%s-tunnel-%d-%d", proto, nano, port)
}

var straddleRunes = []string{"é", "ß", "Ж", "中", "国", "€", "ᾉ", "한", "😀", "🯊", "𝄞"}

// genStraddleID: ASCII up to offset 11..16, then multi-byte runes lying across byte 16.
func genStraddleID(t *rapid.T, label string) string {
	k := rapid.IntRange(11, 16).Draw(t, label+"Ascii")
	s := rapid.StringMatching(fmt.Sprintf(`[a-z0-9-]{%d}`, k)).Draw(t, label+"Pre")
	n := rapid.IntRange(1, 3).Draw(t, label+"NRunes")
	for i := 0; i < n; i++ {
		s += rapid.SampledFrom(straddleRunes).Draw(t, label+"Rune")
	}
	return s + rapid.StringMatching(`[a-z0-9]{0,6}`).Draw(t, label+"Tail")
}

// genBytesID: arbitrary non-NUL bytes (lone continuation bytes, invalid UTF-8).
func genBytesID(t *rapid.T, label string) string {
	return string(rapid.SliceOfN(rapid.ByteRange(1, 255), 0, 24).Draw(t, label+"Bytes"))
}

func genID(t *rapid.T, label string) string {
	switch pick(t, label+"Class", 1, 1, 1, 1, 1, 2, 2, 1) {
	case 6:
		return genStraddleID(t, label)
	case 7:
		return genBytesID(t, label)
	case 0:
		return ""
	case 1:
		return rapid.StringMatching(`[a-z0-9-]{1,15}`).Draw(t, label)
	case 2:
		return rapid.StringMatching(`[a-zA-Z0-9_-]{16}`).Draw(t, label)
	case 3:
		return rapid.StringMatching(`[a-z0-9-]{17,40}`).Draw(t, label)
	case 4:
		return noNUL(rapid.StringN(0, 24, 60).Draw(t, label))
	default:
		return realisticID(t, label)
	}
}

// genIDs draws the stream's id string and the id string of injected foreign frames.
// collide=true: the truncation shape (distinct strings, equal first 16 bytes);
// otherwise the first 16 bytes (zero padded) are guaranteed to differ.
func genIDs(t *rapid.T, collide bool) (own, foreign string) {
	if collide {
		if rapid.Bool().Draw(t, "realisticPair") {
			// what a client generates: tcp-tunnel-<unixnano>-<port>, two tunnels opened within the same ~28 h
			base := int64(1758000000000000000) + rapid.Int64Range(0, 9000000000000000).Draw(t, "nano")
			base -= base % 100000000000000 // keep the top 5 digits for both
			a := base + rapid.Int64Range(0, 99999999999999).Draw(t, "da")
			b := base + rapid.Int64Range(0, 99999999999999).Draw(t, "db")
			pa := rapid.IntRange(1024, 65535).Draw(t, "pa")
			pb := rapid.IntRange(1024, 65535).Draw(t, "pb")
			own, foreign = fmt.Sprintf("tcp-tunnel-%d-%d", a, pa), fmt.Sprintf("tcp-tunnel-%d-%d", b, pb)
		} else {
			p := rapid.StringMatching(`[a-z0-9-]{16}`).Draw(t, "prefix")
			own = p + rapid.StringMatching(`[a-z0-9]{0,12}`).Draw(t, "tailA")
			foreign = p + rapid.StringMatching(`[a-z0-9]{0,12}`).Draw(t, "tailB")
		}
		if own == foreign {
			foreign += "x"
		}
		return
	}
	if pick(t, "straddlePair", 4, 1) == 1 {
		// same ASCII head, different multi-byte runes around byte 16: the ids differ inside a rune
		k := rapid.IntRange(12, 15).Draw(t, "headLen")
		head := rapid.StringMatching(fmt.Sprintf(`[a-z0-9-]{%d}`, k)).Draw(t, "head")
		r1 := rapid.SampledFrom(straddleRunes).Draw(t, "r1")
		r2 := rapid.SampledFrom(straddleRunes).Draw(t, "r2")
		own = head + r1 + rapid.StringMatching(`[a-z0-9中]{0,6}`).Draw(t, "tailA")
		foreign = head + r2 + rapid.StringMatching(`[a-z0-9国]{0,6}`).Draw(t, "tailB")
	} else {
		own, foreign = genID(t, "own"), genID(t, "foreign")
	}
	for i := 0; prefix16(own) == prefix16(foreign); i++ {
		foreign = string(rune('A'+i)) + foreign
	}
	return
}

var readTable = []int{0, 1, 2, 7, 100, 4096, maxFrame - 1, maxFrame, maxFrame + 1, 1 << 20}

func genReadSizes(t *rapid.T, label string) []int {
	s := rapid.SliceOfN(rapid.SampledFrom(readTable), 1, 5).Draw(t, label)
	pos := false
	for _, n := range s {
		if n > 0 {
			pos = true
		}
	}
	if !pos {
		s = append(s, 4096)
	}
	return s
}

func genCase(t *rapid.T) Case {
	c := Case{Seed: rapid.Uint32().Draw(t, "seed"), Tracker: pick(t, "tracker", 2, 1, 1)}
	c.Poison = pick(t, "poison", 2, 1) == 1
	collide := pick(t, "idMode", 88, 12) == 1
	c.OwnID, c.ForeignID = genIDs(t, collide)
	budget := vkit.Pick(3<<20, 8<<20)
	nops := rapid.IntRange(1, 9).Draw(t, "nops")
	for i := 0; i < nops; i++ {
		if pick(t, "opKind", 6, 4) == 0 {
			w := genSize(t, "w", &budget)
			c.Ops = append(c.Ops, Op{Write: w})
			if w > 0 && !collide && pick(t, "idleAfter", 5, 1) == 1 {
				c.Ops = append(c.Ops, Op{IdleMs: rapid.IntRange(5, 30).Draw(t, "idleMs")})
			}
		} else {
			c.Ops = append(c.Ops, Op{Inj: genInject(t)})
		}
	}
	if !collide && pick(t, "side", 4, 1) == 1 {
		sb := 1 << 20
		n := rapid.IntRange(1, 4).Draw(t, "nside")
		for i := 0; i < n; i++ {
			c.Side = append(c.Side, genSize(t, "side", &sb))
		}
	}
	c.Ending = []string{endCloseWrite, endClose, endTCPClose, endCutFin, endCutRst}[pick(t, "ending", 38, 24, 14, 14, 10)]
	if c.Ending == endCutFin || c.Ending == endCutRst {
		c.CutLen = rapid.SampledFrom([]int{1, 100, 5000, maxFrame}).Draw(t, "cutLen")
		if rapid.Bool().Draw(t, "cutInHeader") {
			c.Cut = rapid.IntRange(1, crossnode.FrameHeaderSize-1).Draw(t, "cut")
		} else {
			c.Cut = rapid.IntRange(crossnode.FrameHeaderSize, crossnode.FrameHeaderSize+c.CutLen-1).Draw(t, "cut")
		}
	}
	c.ReadSizes = genReadSizes(t, "reads")
	if c.Ending == endCloseWrite {
		c.Duplex = pick(t, "duplex", 6, 4) == 1
		rb := 1 << 20
		n := rapid.IntRange(0, 4).Draw(t, "nrev")
		for i := 0; i < n; i++ {
			c.Reverse = append(c.Reverse, genSize(t, "rev", &rb))
		}
		c.RevReadSizes = genReadSizes(t, "revReads")
	}
	if (c.Ending == endClose && pick(t, "reuseAfterClose", 1, 1) == 0) || (c.Ending == endCloseWrite && pick(t, "reuse", 3, 1) == 1) {
		n := &NextTunnel{ID: genID(t, "nextID")}
		for i := 0; prefix16(n.ID) == prefix16(c.OwnID); i++ {
			n.ID = string(rune('N'+i)) + n.ID
		}
		nb := 1 << 20
		k := rapid.IntRange(1, 5).Draw(t, "nextOps")
		for i := 0; i < k; i++ {
			if pick(t, "nextOpKind", 7, 3) == 0 {
				n.Ops = append(n.Ops, Op{Write: genSize(t, "nw", &nb)})
			} else {
				n.Ops = append(n.Ops, Op{Inj: genInject(t)})
			}
		}
		n.Ending = []string{endClose, endCloseWrite}[pick(t, "nextEnding", 1, 1)]
		n.ReadSizes = genReadSizes(t, "nextReads")
		c.Next = n
	}
	return c
}

// TestStream is the generated search over write scripts, injected frames, endings and read sizes.
func TestStream(t *testing.T) {
	vkit.Check(t, 2400, 16000, func(t *rapid.T) {
		checkStream(t, genCase(t))
	})
}

// TestStreamFixed runs a few hand-picked boundary scripts in every run (shard 0).
func TestStreamFixed(t *testing.T) {
	if vkit.Shard() != 0 {
		t.Skip("single shard")
	}
	foreignData := func(n int) Op { return Op{Inj: &Inject{ID: "foreign", Type: crossnode.FrameTypeData, Len: n}} }
	cases := []Case{
		{OwnID: "udp-tunnel-1758000000000000001-5001", ForeignID: "tcp-tunnel-1758000000000000002-5002", Seed: 1,
			Ops: []Op{{Write: maxFrame + 1}, foreignData(100), {Write: 1}}, Ending: endCloseWrite, Reverse: []int{maxFrame + 1, 0, 1}, ReadSizes: []int{7, maxFrame}, RevReadSizes: []int{1 << 20}},
		{OwnID: "a", ForeignID: "b", Seed: 2, Ops: []Op{{Write: 0}, {Write: 1 << 20}, {Inj: &Inject{ID: "foreign", Type: crossnode.FrameTypeEOF}}, {Inj: &Inject{ID: "own", Type: 0x7F, Len: 100}}, {Write: 100}},
			Ending: endClose, ReadSizes: []int{1, 4096}},
		{OwnID: "", ForeignID: "x", Seed: 3, Ops: []Op{{Write: 2*maxFrame + 1}, {Inj: &Inject{ID: "foreign", Type: crossnode.FrameTypeClose}}, {Inj: &Inject{ID: "own", Type: crossnode.FrameTypeData}}},
			Side: []int{200 * 1024}, Ending: endTCPClose, ReadSizes: []int{maxFrame - 1}},
		{OwnID: "0123456789abcdef", ForeignID: "0123456789abcdeg", Seed: 4, Ops: []Op{{Write: maxFrame}, foreignData(maxFrame), {Write: maxFrame - 1}},
			Ending: endCutFin, Cut: 30, CutLen: 100, ReadSizes: []int{100}},
		{OwnID: "0123456789abcdef", ForeignID: "1123456789abcdef-long", Seed: 5, Ops: []Op{{Write: 100}}, Ending: endCutRst, Cut: 5, CutLen: 1, ReadSizes: []int{0, 1}},
		{OwnID: "t1", ForeignID: "t2", Seed: 6, Ops: []Op{{Write: 200 * 1024}, foreignData(1), {Write: maxFrame + 1}}, Ending: endCloseWrite, Duplex: true,
			Reverse: []int{1 << 20, maxFrame}, ReadSizes: []int{2, maxFrame + 1}, RevReadSizes: []int{1, 100}},
	}
	// connection reuse: a second tunnel on the same Conn right behind the first one's Close frame
	cases = append(cases,
		Case{OwnID: "tunnel-A", ForeignID: "tunnel-X", Seed: 7, Ops: []Op{{Write: 1000}}, Ending: endClose, ReadSizes: []int{100},
			Next: &NextTunnel{ID: "tunnel-B", Ops: []Op{{Write: 5000}, {Inj: &Inject{ID: "foreign", Type: crossnode.FrameTypeClose}}, {Write: maxFrame + 1}}, Ending: endClose, ReadSizes: []int{4096}}},
		Case{OwnID: "tcp-tunnel-1758000000000000001-5001", ForeignID: "x", Seed: 8, Ops: []Op{{Write: maxFrame + 1}, foreignData(10)}, Ending: endCloseWrite, Reverse: []int{100}, ReadSizes: []int{1 << 20}, RevReadSizes: []int{7},
			Next: &NextTunnel{ID: "udp-tunnel-1758000000000000002-5002", Ops: []Op{{Inj: &Inject{ID: "foreign", Type: crossnode.FrameTypeData, Len: 50}}, {Write: 1}, {Write: 0}}, Ending: endCloseWrite, ReadSizes: []int{0, 1}}},
	)
	// read deadline expiring while the peer is idle but alive, then more data
	cases = append(cases,
		Case{OwnID: "tunnel-idle", ForeignID: "tunnel-X", Seed: 9, Ops: []Op{{Write: 1000}, {IdleMs: 10}, {Write: maxFrame + 1}, {IdleMs: 15}, foreignData(10), {Write: 5}},
			Ending: endClose, ReadSizes: []int{100, maxFrame}},
		// ids that differ only inside a multi-byte rune lying across byte 16
		Case{OwnID: "aaaaaaaaaaaaaa中-tunnel", ForeignID: "aaaaaaaaaaaaaa国-tunnel", Seed: 10, Ops: []Op{{Write: 10}, foreignData(7), {Write: 10}}, Ending: endClose, ReadSizes: []int{4096}},
	)
	for _, c := range cases {
		checkStream(t, c)
	}
}

// TestTruncationShape pins the listed finding's shape so that every run confirms (or,
// after a repair, stops confirming) it on the ids a real client generates.
func TestTruncationShape(t *testing.T) {
	if vkit.Shard() != 0 {
		t.Skip("single shard")
	}
	c := Case{OwnID: "tcp-tunnel-1758931200000000001-8080", ForeignID: "tcp-tunnel-1758931200999999999-9090", Seed: 9,
		Ops: []Op{{Write: 10}, {Inj: &Inject{ID: "foreign", Type: crossnode.FrameTypeData, Len: 7}}, {Write: 10}}, Ending: endClose, ReadSizes: []int{4096}}
	checkStream(t, c)
}

// TestReplay re-executes a saved JSON case (VERIF_REPLAY=path).
func TestReplay(t *testing.T) {
	path := vkit.Replaying()
	if path == "" {
		t.Skip("no VERIF_REPLAY")
	}
	var r Replay
	if _, err := vkit.LoadReplay(path, &r); err != nil {
		t.Fatalf("bad replay file: %v", err)
	}
	switch {
	case r.Stream != nil:
		checkStream(t, *r.Stream)
	case r.Codec != nil:
		checkCodec(t, *r.Codec)
	case r.History != nil:
		checkHistory(t, *r.History)
	case r.Pool != nil:
		checkPool(t, *r.Pool)
	default:
		t.Fatalf("replay file has neither a stream nor a codec case")
	}
}

var _ = json.Marshal
