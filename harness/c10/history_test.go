package c10

// Histories with failed operations: every encoder / decoder entry point is also run
// AFTER an earlier call failed (on another writer / reader / connection). Whatever
// global or pooled state the codec keeps must not leak from a failed call into a later
// one: the bytes a healthy writer received decode to exactly the frames written to it.

import (
	"bytes"
	"context"
	"encoding/binary"
	"fmt"
	"io"
	"net"
	"os"
	"syscall"
	"testing"
	"time"

	"pgregory.net/rapid"

	"tunnox-core/internal/protocol/session/crossnode"
	"tunnox-core/verif/vkit"
)

// Fault makes the in-memory writer of one "enc" op accept After bytes during that call
// and then fail with the given error kind; on a "tcp"/"stream" op it closes the local
// end of the connection before the call (the connection stays broken).
type Fault struct {
	After int    `json:"after"`
	Kind  string `json:"kind"` // timeout | reset | short | closed
}

type HistOp struct {
	// enc: WriteFrameToWriter(mem writer W); tcp: WriteFrame(loopback conn W);
	// stream: NewFrameStream(conn W, id).Write(payload) (payload may exceed one frame);
	// dec: ReadFrameFromReader over Raw (fresh reader).
	Kind   string     `json:"kind"`
	W      int        `json:"w"`
	Frame  *FrameSpec `json:"frame,omitempty"`
	Fail   *Fault     `json:"fail,omitempty"`
	Raw    []RawSpec  `json:"raw,omitempty"`
	Fixed  int        `json:"fixed,omitempty"`
	ErrEnd bool       `json:"err_end,omitempty"`
}

type HistCase struct {
	Ops []HistOp `json:"ops"`
}

func faultErr(kind string) error {
	switch kind {
	case "timeout":
		return &net.OpError{Op: "write", Net: "tcp", Err: os.ErrDeadlineExceeded}
	case "reset":
		return &net.OpError{Op: "write", Net: "tcp", Err: os.NewSyscallError("write", syscall.ECONNRESET)}
	case "short":
		return io.ErrShortWrite
	}
	return io.ErrClosedPipe
}

// memWriter: an io.Writer with a per-call fault budget.
type memWriter struct {
	buf    bytes.Buffer
	budget int // < 0: healthy call
	kind   string
	failed bool // some call on this writer failed: its content is no longer judged
}

func (w *memWriter) Write(p []byte) (int, error) {
	if w.budget < 0 {
		return w.buf.Write(p)
	}
	if w.budget >= len(p) && len(p) > 0 {
		w.budget -= len(p)
		return w.buf.Write(p)
	}
	n := w.budget
	w.buf.Write(p[:n])
	w.budget = 0
	w.failed = true
	return n, faultErr(w.kind)
}

type tcpWriter struct {
	ta, tb *net.TCPConn
	ca     *crossnode.Conn
	got    chan []byte
	broken bool
}

func refEncode(id [16]byte, typ byte, data []byte) []byte {
	b := make([]byte, crossnode.FrameHeaderSize, crossnode.FrameHeaderSize+len(data))
	copy(b, id[:])
	b[16] = typ
	binary.BigEndian.PutUint32(b[17:21], uint32(len(data)))
	return append(b, data...)
}

// normFrames decodes a byte string with the reference decoder and merges adjacent data
// frames of one tunnel id (how a stream write is cut into frames is not prescribed).
func normFrames(in []byte) (out []refFrame, rest int) {
	pos := 0
	for pos < len(in) {
		f, n, ok := refDecode(in[pos:])
		if !ok {
			return out, len(in) - pos
		}
		pos += n
		f.data = append([]byte(nil), f.data...)
		if k := len(out) - 1; k >= 0 && f.typ == crossnode.FrameTypeData && out[k].typ == crossnode.FrameTypeData && out[k].id == f.id {
			out[k].data = append(out[k].data, f.data...)
			continue
		}
		out = append(out, f)
	}
	return out, 0
}

type histStats struct {
	failedOps, okAfterFail, judgedWriters int
	kinds                                 map[string]bool
}

func runHistory(c HistCase) (fl *failure, st histStats, harnessErr string) {
	st.kinds = map[string]bool{}
	mem := map[int]*memWriter{}
	memWant := map[int][]byte{}
	tcp := map[int]*tcpWriter{}
	tcpWant := map[int][]refFrame{}
	addWant := func(i int, f refFrame) {
		l := tcpWant[i]
		if k := len(l) - 1; k >= 0 && f.typ == crossnode.FrameTypeData && l[k].typ == crossnode.FrameTypeData && l[k].id == f.id {
			l[k].data = append(l[k].data, f.data...)
		} else {
			f.data = append([]byte(nil), f.data...)
			l = append(l, f)
		}
		tcpWant[i] = l
	}
	var failedEnc [][]byte // reference encodings of frames whose write failed
	ctx, cancel := context.WithCancel(context.Background())
	defer cancel()
	defer func() {
		for _, w := range tcp {
			w.ta.Close()
			w.tb.Close()
			select {
			case <-w.got:
			case <-time.After(20 * time.Second):
			}
			w.ca.Close()
		}
	}()
	getTCP := func(i int) (*tcpWriter, error) {
		if w := tcp[i]; w != nil {
			return w, nil
		}
		ta, tb, err := tcpPair()
		if err != nil {
			return nil, err
		}
		w := &tcpWriter{ta: ta, tb: tb, ca: crossnode.NewConn(ctx, "node-h", ta, nil), got: make(chan []byte, 1)}
		go func() {
			b, _ := io.ReadAll(tb)
			w.got <- b
		}()
		tcp[i] = w
		return w, nil
	}
	sawFail := false
	for i, op := range c.Ops {
		st.kinds[op.Kind] = true
		switch op.Kind {
		case "enc":
			w := mem[op.W]
			if w == nil {
				w = &memWriter{}
				mem[op.W] = w
			}
			f := *op.Frame
			payload := f.payload()
			enc := refEncode(f.id(), f.Type, payload)
			w.budget = -1
			if op.Fail != nil {
				w.budget = op.Fail.After
				if w.budget >= len(enc) {
					w.budget = len(enc) - 1
				}
				w.kind = op.Fail.Kind
			}
			err := crossnode.WriteFrameToWriter(w, f.id(), f.Type, payload)
			if op.Fail != nil {
				w.failed = true
				failedEnc = append(failedEnc, enc)
				st.failedOps++
				sawFail = true
				if err == nil {
					return &failure{"C10/encoder-swallows-writer-error/WriteFrameToWriter", fmt.Sprintf("op %d: the writer failed (%s after %d bytes) but WriteFrameToWriter returned nil", i, op.Fail.Kind, op.Fail.After)}, st, ""
				}
				continue
			}
			if err != nil {
				return &failure{"C10/writer-refused-in-domain-operation/frame-after-failed-call", fmt.Sprintf("op %d: WriteFrameToWriter(%d bytes) on a healthy writer: %v", i, f.Len, err)}, st, ""
			}
			if !w.failed {
				memWant[op.W] = append(memWant[op.W], enc...)
				if sawFail {
					st.okAfterFail++
				}
			}
		case "tcp", "stream":
			w, err := getTCP(op.W)
			if err != nil {
				return nil, st, "tcp pair: " + err.Error()
			}
			f := *op.Frame
			payload := f.payload()
			if op.Fail != nil && !w.broken {
				w.ta.Close()
				w.broken = true
			}
			if op.Kind == "tcp" {
				err = crossnode.WriteFrame(w.ta, f.id(), f.Type, payload)
			} else {
				var n int
				n, err = crossnode.NewFrameStream(w.ca, f.id()).Write(payload)
				if err == nil && n != len(payload) {
					return &failure{"C10/writer-refused-in-domain-operation/stream-write", fmt.Sprintf("op %d: FrameStream.Write(%d bytes) = (%d, nil)", i, len(payload), n)}, st, ""
				}
			}
			if w.broken {
				st.failedOps++
				sawFail = true
				if err == nil && len(payload) > 0 {
					return &failure{"C10/encoder-swallows-writer-error/" + op.Kind, fmt.Sprintf("op %d: write on a closed connection returned nil", i)}, st, ""
				}
				continue
			}
			if err != nil {
				return &failure{"C10/writer-refused-in-domain-operation/" + op.Kind + "-after-failed-call", fmt.Sprintf("op %d: %s write of %d bytes on a healthy connection: %v", i, op.Kind, f.Len, err)}, st, ""
			}
			if op.Kind == "tcp" {
				addWant(op.W, refFrame{id: f.id(), typ: f.Type, data: payload})
			} else if len(payload) > 0 {
				addWant(op.W, refFrame{id: f.id(), typ: crossnode.FrameTypeData, data: payload})
			}
			if sawFail {
				st.okAfterFail++
			}
		case "dec":
			var in []byte
			for _, r := range op.Raw {
				in = append(in, r.bytes()...)
			}
			f, ds := checkDecode(in, nil, op.Fixed, false, op.ErrEnd, false)
			if f != nil {
				if sawFail {
					f.key += "/after-failed-call"
				}
				return f, st, ""
			}
			if ds.endedOnErr && (ds.hostileLen || ds.truncated) {
				st.failedOps++
				sawFail = true
			} else if sawFail {
				st.okAfterFail++
			}
		}
	}
	leak := func(got []byte) bool {
		for _, e := range failedEnc {
			p := e
			if len(p) > 40 {
				p = p[:40]
			}
			if bytes.Contains(got, p) {
				return true
			}
		}
		return false
	}
	diffKey := func(api string, got, want []byte) *failure {
		if leak(got) {
			return &failure{"C10/encoder-leaks-failed-frame-into-later-write/" + api, fmt.Sprintf("a healthy writer received %d bytes where the frames written to it encode to %d bytes; the surplus contains a frame whose write had FAILED earlier on another writer (first difference at offset %d)", len(got), len(want), firstDiff(got, want))}
		}
		return &failure{"C10/encoded-history-differs/" + api, fmt.Sprintf("a healthy writer received %d bytes, the frames written to it encode to %d bytes (first difference at offset %d)", len(got), len(want), firstDiff(got, want))}
	}
	for i, w := range mem {
		if w.failed {
			continue
		}
		st.judgedWriters++
		if !bytes.Equal(w.buf.Bytes(), memWant[i]) {
			return diffKey("WriteFrameToWriter", w.buf.Bytes(), memWant[i]), st, ""
		}
	}
	for i, w := range tcp {
		if w.broken {
			continue
		}
		w.ta.CloseWrite()
		var got []byte
		select {
		case got = <-w.got:
			w.got <- got
		case <-time.After(30 * time.Second):
			return nil, st, "healthy loopback connection did not drain"
		}
		st.judgedWriters++
		gf, rest := normFrames(got)
		wf := tcpWant[i]
		same := rest == 0 && len(gf) == len(wf)
		for k := 0; same && k < len(gf); k++ {
			same = gf[k].id == wf[k].id && gf[k].typ == wf[k].typ && bytes.Equal(gf[k].data, wf[k].data)
		}
		if !same {
			var wb []byte
			for _, f := range wf {
				for off := 0; ; off += maxFrame {
					end := min(off+maxFrame, len(f.data))
					wb = append(wb, refEncode(f.id, f.typ, f.data[off:end])...)
					if end == len(f.data) {
						break
					}
				}
			}
			return diffKey("tcp", got, wb), st, ""
		}
	}
	return nil, st, ""
}

func checkHistory(t vkit.TB, c HistCase) {
	fl, st, herr := runHistory(c)
	if herr != "" {
		vkit.Skipped(1)
		vkit.Class("inconclusive:harness-transport-error")
		t.Logf("inconclusive history case: %s", herr)
		return
	}
	if fl != nil {
		vkit.Violation(t, fl.key, fl.detail, Replay{History: &c})
		vkit.Case("known(history):"+fl.key, false, "")
		return
	}
	var sig []string
	for _, op := range c.Ops {
		s := op.Kind + fmt.Sprint(op.W)
		if op.Fail != nil {
			s += "!" + op.Fail.Kind + fmt.Sprint(op.Fail.After)
		}
		if op.Frame != nil {
			s += ":" + sizeClass(op.Frame.Len)
		}
		sig = append(sig, s)
	}
	vkit.Case("history", st.failedOps > 0 && st.okAfterFail > 0 && st.judgedWriters > 0, fmt.Sprint(sig))
	vkit.Sample("history", c)
	vkit.AddExtra("history_cases", 1)
	vkit.AddExtra("history_failed_ops", int64(st.failedOps))
	vkit.AddExtra("history_ok_ops_after_a_failed_op", int64(st.okAfterFail))
	for _, op := range c.Ops {
		if op.Fail != nil {
			vkit.Class("hist:failed-" + op.Kind + "/" + op.Fail.Kind)
		} else {
			vkit.Class("hist:" + op.Kind)
		}
	}
}

func genHistCase(t *rapid.T) HistCase {
	var c HistCase
	n := rapid.IntRange(2, 10).Draw(t, "nops")
	tcpBudget := 600 * 1024
	for i := 0; i < n; i++ {
		op := HistOp{}
		switch pick(t, "kind", 6, 1, 1, 2) {
		case 0:
			op.Kind = "enc"
			op.W = rapid.IntRange(0, 2).Draw(t, "w")
			f := genFrame(t)
			op.Frame = &f
			if pick(t, "fail", 3, 2) == 1 {
				total := crossnode.FrameHeaderSize + f.Len
				var after int
				switch pick(t, "after", 1, 1, 1, 1) {
				case 0:
					after = 0
				case 1:
					after = rapid.IntRange(0, crossnode.FrameHeaderSize-1).Draw(t, "afterHdr")
				case 2:
					after = crossnode.FrameHeaderSize
				default:
					after = rapid.IntRange(0, total-1).Draw(t, "afterAny")
				}
				if after > total-1 {
					after = total - 1
				}
				op.Fail = &Fault{After: after, Kind: rapid.SampledFrom([]string{"timeout", "reset", "short", "closed"}).Draw(t, "errKind")}
			}
		case 1, 2:
			op.Kind = []string{"", "tcp", "stream"}[pick(t, "tcpKind", 0, 1, 1)]
			op.W = rapid.IntRange(0, 1).Draw(t, "conn")
			f := genFrame(t)
			if op.Kind == "stream" {
				f.Len = genSize(t, "sw", &tcpBudget)
			} else {
				tcpBudget -= f.Len
			}
			op.Frame = &f
			if pick(t, "failConn", 3, 1) == 1 {
				op.Fail = &Fault{Kind: "closed"}
			}
		default:
			op.Kind = "dec"
			k := rapid.IntRange(1, 2).Draw(t, "nraw")
			for j := 0; j < k; j++ {
				op.Raw = append(op.Raw, genRaw(t))
			}
			op.Fixed = rapid.SampledFrom([]int{0, 1, 7, 21, 4096}).Draw(t, "fixed")
			if op.Fixed == 1 {
				op.Fixed = 3
			}
			op.ErrEnd = pick(t, "errEnd", 3, 1) == 1
		}
		c.Ops = append(c.Ops, op)
	}
	return c
}

// TestHistory: encode / decode histories in which earlier calls failed.
func TestHistory(t *testing.T) {
	vkit.Check(t, 12000, 120000, func(t *rapid.T) {
		checkHistory(t, genHistCase(t))
	})
}

// TestHistoryFixed: the shortest history for each encoder entry point (shard 0).
func TestHistoryFixed(t *testing.T) {
	if vkit.Shard() != 0 {
		t.Skip("single shard")
	}
	idA, idB := wireID("tunnel-A"), wireID("tunnel-B")
	fa := &FrameSpec{ID: idA[:], Type: crossnode.FrameTypeData, Len: 24, Seed: 1}
	fb := &FrameSpec{ID: idB[:], Type: crossnode.FrameTypeData, Len: 12, Seed: 2}
	big := &FrameSpec{ID: idB[:], Type: crossnode.FrameTypeData, Len: maxFrame + 1, Seed: 3}
	for _, k := range []string{"timeout", "reset", "short", "closed"} {
		for _, after := range []int{0, 5, 21, 30} {
			checkHistory(t, HistCase{Ops: []HistOp{
				{Kind: "enc", W: 0, Frame: fa, Fail: &Fault{After: after, Kind: k}},
				{Kind: "enc", W: 1, Frame: fb},
				{Kind: "tcp", W: 0, Frame: fb},
				{Kind: "stream", W: 0, Frame: big},
				{Kind: "tcp", W: 1, Frame: fa, Fail: &Fault{Kind: "closed"}},
				{Kind: "enc", W: 1, Frame: fa},
				{Kind: "stream", W: 1, Frame: fb},
				{Kind: "tcp", W: 0, Frame: fa},
				{Kind: "dec", Raw: []RawSpec{{Header: true, ID: idA[:], Type: 1, LenField: 1 << 20, Have: 10}}},
				{Kind: "dec", Raw: []RawSpec{{Header: true, ID: idB[:], Type: 1, LenField: 10, Have: 10}}},
				{Kind: "enc", W: 2, Frame: fb},
			}})
		}
	}
}
