module tunnox-core/verif

go 1.24.4

require (
	github.com/anishathalye/porcupine v1.3.0
	github.com/sirupsen/logrus v1.9.3
	pgregory.net/rapid v1.3.0
	tunnox-core v0.0.0
)

require (
	golang.org/x/crypto v0.47.0 // indirect
	golang.org/x/net v0.49.0 // indirect
	golang.org/x/sys v0.40.0 // indirect
	golang.org/x/time v0.14.0 // indirect
)

replace tunnox-core => /repo
