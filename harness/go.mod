module tunnox-core/verif

go 1.24.4

require (
	github.com/alicebob/miniredis/v2 v2.35.0
	github.com/anishathalye/porcupine v1.3.0
	github.com/gorilla/mux v1.8.1
	github.com/gorilla/websocket v1.5.3
	github.com/quic-go/quic-go v0.53.0
	github.com/redis/go-redis/v9 v9.11.0
	github.com/sirupsen/logrus v1.9.3
	google.golang.org/grpc v1.77.0
	pgregory.net/rapid v1.3.0
	tunnox-core v0.0.0
)

require (
	github.com/cespare/xxhash/v2 v2.3.0 // indirect
	github.com/dgryski/go-rendezvous v0.0.0-20200823014737-9f7001d12a5f // indirect
	github.com/fatih/color v1.18.0 // indirect
	github.com/golang-jwt/jwt/v5 v5.2.2 // indirect
	github.com/google/uuid v1.6.0 // indirect
	github.com/jackc/pgpassfile v1.0.0 // indirect
	github.com/jackc/pgservicefile v0.0.0-20240606120523-5a60cdf6a761 // indirect
	github.com/jackc/pgx/v5 v5.8.0 // indirect
	github.com/jackc/puddle/v2 v2.2.2 // indirect
	github.com/klauspost/cpuid/v2 v2.2.6 // indirect
	github.com/klauspost/reedsolomon v1.12.0 // indirect
	github.com/mattn/go-colorable v0.1.13 // indirect
	github.com/mattn/go-isatty v0.0.20 // indirect
	github.com/pkg/errors v0.9.1 // indirect
	github.com/tjfoc/gmsm v1.4.1 // indirect
	github.com/xtaci/kcp-go/v5 v5.6.59 // indirect
	github.com/yuin/gopher-lua v1.1.1 // indirect
	golang.org/x/crypto v0.47.0 // indirect
	golang.org/x/net v0.49.0 // indirect
	golang.org/x/sync v0.19.0 // indirect
	golang.org/x/sys v0.40.0 // indirect
	golang.org/x/text v0.33.0 // indirect
	golang.org/x/time v0.14.0 // indirect
	google.golang.org/genproto/googleapis/rpc v0.0.0-20251022142026-3a174f9686a8 // indirect
	google.golang.org/protobuf v1.36.10 // indirect
	gopkg.in/yaml.v3 v3.0.1 // indirect
)

replace tunnox-core => /repo
