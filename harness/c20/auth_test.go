package c20

// SocksAdapter with username/password authentication enabled (RFC 1929 sub-negotiation between the
// RFC 1928 greeting and request). The client byte stream greeting | auth | request is delivered through
// the adapter's real accept path (loopback TCP, no session: a parsed CONNECT is answered REP=01) under
// many chunkings: one message per write with the replies awaited in between (the reference delivery),
// everything in one write, a read boundary at every octet, auth+request coalesced, drawn chunk lists.
// Oracle: what the server writes is (a) what RFC 1928/1929 assign to the stream and (b) identical for
// every chunking (differential against the one-message-per-write delivery). A chunk is written only after
// the server consumed the previous one (sock_diag receive-queue query), so that the server really sees
// the drawn read boundaries.

import (
	"bytes"
	"context"
	"errors"
	"fmt"
	"io"
	"net"
	"testing"
	"time"

	"pgregory.net/rapid"

	"tunnox-core/internal/protocol/adapter"
	"tunnox-core/verif/vkit"
)

type authRig struct {
	a    *adapter.SocksAdapter
	addr string
	port int
}

func newAuthRig(user, pass []byte) (*authRig, error) {
	var last error
	for attempt := 0; attempt < 5; attempt++ {
		probe, err := net.Listen("tcp", "127.0.0.1:0")
		if err != nil {
			last = err
			continue
		}
		addr, port := probe.Addr().String(), probe.Addr().(*net.TCPAddr).Port
		probe.Close()
		a := adapter.NewSocksAdapter(context.Background(), nil, &adapter.SocksConfig{Username: string(user), Password: string(pass)})
		if err := a.ListenFrom(addr); err != nil {
			last = err
			a.Close()
			continue
		}
		return &authRig{a, addr, port}, nil
	}
	return nil, last
}

func (r *authRig) close() { r.a.Close() }

// ---------------------------------------------------------------------------
// reference for the authenticated dialogue

type authRef struct {
	greetLen, authLen int    // message boundaries (authLen 0: no complete auth message)
	prefix            []byte // octets the server must have written before the request is evaluated
	final             bool   // the dialogue ends after prefix (no method / bad credentials / truncated)
	altPrefix         []byte // second acceptable prefix (RFC silent: bad sub-negotiation version)
	req               refNeg // reference verdict of the request part (as if it followed a no-auth greeting)
	authOK            bool
}

func refAuthDialogue(s, user, pass []byte) authRef {
	r := authRef{final: true}
	if len(s) < 2 || s[0] != rVer || len(s) < 2+int(s[1]) || s[1] == 0 {
		return r // not exercised here: the generators always send a complete version-5 greeting
	}
	r.greetLen = 2 + int(s[1])
	if bytes.IndexByte(s[2:r.greetLen], 0x02) < 0 {
		r.prefix = []byte{rVer, rNoneOK}
		return r
	}
	r.prefix = []byte{rVer, 0x02}
	q := s[r.greetLen:]
	// RFC 1929: VER(1)=1 ULEN(1) UNAME(ULEN) PLEN(1) PASSWD(PLEN)
	if len(q) < 2 {
		return r
	}
	if q[0] != 1 {
		r.altPrefix = append(append([]byte(nil), r.prefix...), 1, 1)
		return r
	}
	ul := int(q[1])
	if len(q) < 2+ul+1 {
		return r
	}
	pl := int(q[2+ul])
	if len(q) < 2+ul+1+pl {
		return r
	}
	r.authLen = 2 + ul + 1 + pl
	if !bytes.Equal(q[2:2+ul], user) || !bytes.Equal(q[3+ul:3+ul+pl], pass) {
		r.prefix = append(r.prefix, 1, 1)
		return r
	}
	r.authOK = true
	r.prefix = append(r.prefix, 1, 0)
	r.final = false
	r.req = refNegotiate(append([]byte{rVer, 1, rNoAuth}, q[r.authLen:]...))
	return r
}

// checkAuthWritten: is w what the RFCs assign to the stream (no session attached: parsed CONNECT -> REP 01)?
func checkAuthWritten(ar authRef, w []byte) error {
	if ar.final {
		if bytes.Equal(w, ar.prefix) || (ar.altPrefix != nil && bytes.Equal(w, ar.altPrefix)) {
			return nil
		}
		return fmt.Errorf("wrote % x, expected % x and nothing more", w, ar.prefix)
	}
	if !bytes.HasPrefix(w, ar.prefix) {
		return fmt.Errorf("wrote % x, expected it to start with % x", w[:minInt(len(w), 8)], ar.prefix)
	}
	rest := w[len(ar.prefix):]
	ref := ar.req
	if ref.OK {
		reps := []byte{1}
		if ref.Cmd != rCmdConnect {
			reps = []byte{7}
		}
		if ref.Lenient {
			reps = append(reps, ref.Reps...)
		}
		return checkWritten(rest, [][]byte{selNone}, reps, !ref.Lenient)
	}
	reps := append([]byte(nil), ref.Reps...)
	if ref.Cmd == rCmdBind || ref.Cmd == rCmdUDP {
		reps = append(reps, 7)
	}
	return checkWritten(rest, [][]byte{selNone}, reps, ref.ReplyRequired)
}

// ---------------------------------------------------------------------------
// deliveries

func awaitDrained(serverPort, clientPort int) {
	deadline := time.Now().Add(50 * time.Millisecond)
	for {
		n, st := sockDiagQuery(serverPort, clientPort)
		switch {
		case st == diagFound && n == 0, st == diagGone:
			return
		case st == diagUnusable:
			if n, ok := rxQueueProc(serverPort, clientPort); ok && n == 0 {
				return
			}
			vkit.Class("adapter-auth:consumption-not-observed")
			time.Sleep(time.Millisecond)
			return
		}
		if time.Now().After(deadline) {
			vkit.Class("adapter-auth:consumption-not-observed")
			return
		}
		time.Sleep(20 * time.Microsecond)
	}
}

// authExchange delivers the chunks (each written after the previous one was consumed by the server),
// half-closes and returns everything the server wrote. awaitReply[i] = number of octets to read back
// after chunk i before going on (the one-message-per-write dialogue), 0 otherwise.
func authExchange(r *authRig, chunks [][]byte, awaitReply []int) ([]byte, error) {
	conn, err := net.DialTimeout("tcp4", r.addr, 5*time.Second)
	if err != nil {
		return nil, err
	}
	defer conn.Close()
	conn.SetDeadline(time.Now().Add(20 * time.Second))
	cp := conn.LocalAddr().(*net.TCPAddr).Port
	var got []byte
	dead := false
	for i, ch := range chunks {
		if len(ch) > 0 && !dead {
			if _, err := conn.Write(ch); err != nil {
				dead = true // the server ended the dialogue (bad credentials, ...)
			}
		}
		if dead {
			continue
		}
		if awaitReply != nil && awaitReply[i] > 0 {
			b := make([]byte, awaitReply[i])
			n, err := io.ReadFull(conn, b)
			got = append(got, b[:n]...)
			if err != nil {
				dead = true
			}
			continue
		}
		if i < len(chunks)-1 {
			awaitDrained(r.port, cp)
		}
	}
	conn.(*net.TCPConn).CloseWrite()
	rest, err := io.ReadAll(conn)
	got = append(got, rest...)
	var ne net.Error
	if err != nil && errors.As(err, &ne) && ne.Timeout() {
		return got, fmt.Errorf("server kept the connection open for 20 s after the application half-closed")
	}
	return got, nil
}

func chunksOf(stream []byte, sizes []int) [][]byte {
	var out [][]byte
	p := 0
	for _, s := range sizes {
		if s <= 0 || p >= len(stream) {
			continue
		}
		e := minInt(p+s, len(stream))
		out = append(out, stream[p:e])
		p = e
	}
	if p < len(stream) {
		out = append(out, stream[p:])
	}
	if len(out) == 0 {
		out = [][]byte{stream}
	}
	return out
}

// sequentialDelivery: one message per write, the server's answer awaited after each.
func sequentialDelivery(ar authRef, stream []byte) ([][]byte, []int) {
	if ar.greetLen == 0 || ar.greetLen >= len(stream) {
		return [][]byte{stream}, []int{0}
	}
	chunks := [][]byte{stream[:ar.greetLen]}
	await := []int{2}
	rest := stream[ar.greetLen:]
	if ar.authLen > 0 && ar.authLen < len(rest) {
		chunks = append(chunks, rest[:ar.authLen], rest[ar.authLen:])
		await = append(await, 2, 0)
	} else {
		chunks = append(chunks, rest)
		await = append(await, 0)
	}
	return chunks, await
}

// judgeAuth runs one delivery (Chunk.Name "sequential" or Chunk.Sizes) and compares with the RFC
// expectation and with the sequential delivery of the same octets. Socket-level verdicts are confirmed twice.
func judgeAuth(r *authRig, c Case) (f *failure) {
	for attempt := 0; attempt < 3; attempt++ {
		if f = judgeAuthOnce(r, c); f == nil {
			return nil
		}
	}
	return f
}

func judgeAuthOnce(r *authRig, c Case) *failure {
	const p = "C20/adapter-auth"
	ar := refAuthDialogue(c.Stream, c.User, c.Pass)
	seqChunks, seqAwait := sequentialDelivery(ar, c.Stream)
	var w []byte
	var err error
	if c.Chunk.Name == "sequential" {
		w, err = authExchange(r, seqChunks, seqAwait)
	} else {
		w, err = authExchange(r, chunksOf(c.Stream, c.Chunk.Sizes), nil)
	}
	if err != nil {
		return &failure{p + "/harness-io", err.Error()}
	}
	rfcErr := checkAuthWritten(ar, w)
	if c.Chunk.Name == "sequential" {
		if rfcErr != nil {
			return &failure{p + "/reply-mismatch/one-message-per-write", rfcErr.Error()}
		}
		return nil
	}
	w0, err := authExchange(r, seqChunks, seqAwait)
	if err != nil {
		return &failure{p + "/harness-io", err.Error()}
	}
	if bytes.Equal(w, w0) && rfcErr == nil {
		return nil
	}
	if checkAuthWritten(ar, w0) == nil {
		where := "other"
		if b := ar.greetLen + ar.authLen; ar.authLen > 0 && b < len(c.Stream) && !boundaryAt(c, b) {
			where = "auth-and-request-in-one-read"
		} else if ar.greetLen > 0 && ar.greetLen < len(c.Stream) && !boundaryAt(c, ar.greetLen) {
			where = "greeting-and-auth-in-one-read"
		}
		return &failure{p + "/result-depends-on-chunking/" + where, fmt.Sprintf("chunks %v of %d octets: server wrote % x (%v); one message per write: % x", chunkLens(c), len(c.Stream), w[:minInt(len(w), 24)], rfcErr, w0[:minInt(len(w0), 24)])}
	}
	return &failure{p + "/reply-mismatch/any-delivery", fmt.Sprintf("server wrote % x: %v", w[:minInt(len(w), 24)], rfcErr)}
}

func chunkLens(c Case) []int {
	var out []int
	for _, ch := range chunksOf(c.Stream, c.Chunk.Sizes) {
		out = append(out, len(ch))
	}
	if len(out) > 12 {
		out = append(out[:12], -len(out))
	}
	return out
}

// boundaryAt: does the delivery have a read boundary exactly at offset b?
func boundaryAt(c Case, b int) bool {
	p := 0
	for _, ch := range chunksOf(c.Stream, c.Chunk.Sizes) {
		p += len(ch)
		if p == b {
			return true
		}
	}
	return false
}

func checkAuth(t vkit.TB, r *authRig, c Case) bool {
	if f := judgeAuth(r, c); f != nil {
		if f.key == "C20/adapter-auth/harness-io" {
			t.Fatalf("INCONCLUSIVE: %s", f.detail)
			return false
		}
		vkit.Violation(t, f.key, f.detail, c)
		vkit.Case("known:"+f.key, false, "")
		return false
	}
	ar := refAuthDialogue(c.Stream, c.User, c.Pass)
	class := "adapter-auth:" + c.Chunk.Name
	switch {
	case ar.authOK && ar.req.OK:
		class += "/credentials-ok+wellformed-request"
	case ar.authOK:
		class += "/credentials-ok+rejected-request"
	case ar.authLen > 0:
		class += "/credentials-wrong"
	default:
		class += "/no-auth-message"
	}
	b := ar.greetLen + ar.authLen
	nt := ar.authLen > 0 && b < len(c.Stream) && c.Chunk.Name != "sequential" && !boundaryAt(c, b)
	if nt {
		vkit.Class("adapter-auth:auth-and-request-share-a-read")
	}
	vkit.Case(class, nt, fmt.Sprintf("A|%d|%d|%v|%v|%d", len(c.User), len(c.Pass), ar.authOK, chunkLens(c), len(c.Stream)))
	return true
}

// ---------------------------------------------------------------------------
// stream builders and tests

func authMsg(user, pass []byte) []byte {
	m := []byte{1, byte(len(user))}
	m = append(m, user...)
	m = append(m, byte(len(pass)))
	return append(m, pass...)
}

func credBytes(n, seed int) []byte {
	b := fill(n, seed)
	for i := range b {
		b[i] = "abcdefghijklmnopqrstuvwxyzABCDEFGHIJKLMNOPQRSTUVWXYZ0123456789_-.@"[int(b[i])%66]
	}
	return b
}

// authDeliveries: the deterministic chunkings every stream is run under.
func authDeliveries(ar authRef, n int, variant int) []ChunkSpec {
	g, a := ar.greetLen, ar.authLen
	out := []ChunkSpec{
		{Name: "sequential"},
		{Name: "one-write"},
		{Name: "greeting|auth+request", Sizes: []int{g}},
	}
	if a > 0 {
		k := 1 + variant%a
		out = append(out,
			ChunkSpec{Name: "greeting+auth|request", Sizes: []int{g + a}},
			ChunkSpec{Name: "greeting|auth|request", Sizes: []int{g, a}},
			ChunkSpec{Name: "cut-inside-auth,rest-coalesced", Sizes: []int{g, k}},
			ChunkSpec{Name: "auth+part-of-request", Sizes: []int{g, a + 1 + variant%4}},
		)
	}
	return out
}

// TestAdapterAuthLengths: every username length 1..255 (password length 256-L), right and wrong credentials.
func TestAdapterAuthLengths(t *testing.T) {
	for L := 1; L <= 255; L++ {
		if !vkit.Mine(L) {
			continue
		}
		user, pass := credBytes(L, L), credBytes(256-L, 1000+L)
		r, err := newAuthRig(user, pass)
		if err != nil {
			t.Fatalf("INCONCLUSIVE: cannot start an authenticating SOCKS adapter on loopback: %v", err)
		}
		wrongPass := append([]byte(nil), pass...)
		wrongPass[len(wrongPass)-1] ^= 1
		type cred struct{ u, p []byte }
		for ci, cr := range []cred{{user, pass}, {user, wrongPass}, {pass, user}} {
			greet := []byte{5, 1, 2}
			if L%2 == 0 {
				greet = []byte{5, 2, 0, 2}
			}
			atyp := []byte{1, 3, 4}[L%3]
			req := request(5, 1, 0, atyp, 1+L%40, L)
			if ci == 0 && L%16 == 5 {
				req = request(5, 9, 0, atyp, 1+L%40, L) // unsupported command after a successful authentication
			}
			s := append(append(append([]byte(nil), greet...), authMsg(cr.u, cr.p)...), req...)
			ar := refAuthDialogue(s, user, pass)
			for _, cs := range authDeliveries(ar, len(s), L) {
				if !checkAuth(t, r, Case{Kind: "adapter-auth", Stream: s, Chunk: cs, User: user, Pass: pass}) {
					r.close()
					return
				}
			}
		}
		r.close()
	}
}

// TestAdapterAuthEverySplit: a read boundary at every octet of greeting|auth|request.
func TestAdapterAuthEverySplit(t *testing.T) {
	user, pass := []byte("user"), []byte("secret")
	r, err := newAuthRig(user, pass)
	if err != nil {
		t.Fatalf("INCONCLUSIVE: %v", err)
	}
	defer r.close()
	n := 0
	for _, p := range [][]byte{pass, []byte("Secret")} {
		for _, atyp := range []byte{1, 3, 4} {
			s := append(append([]byte{5, 1, 2}, authMsg(user, p)...), request(5, 1, 0, atyp, 11, 3)...)
			for cut := 1; cut < len(s); cut++ {
				n++
				if !vkit.Mine(n) {
					continue
				}
				if !checkAuth(t, r, Case{Kind: "adapter-auth", Stream: s, Chunk: ChunkSpec{Name: "single-cut", Sizes: []int{cut}}, User: user, Pass: pass}) {
					return
				}
			}
			n++
			if vkit.Mine(n) {
				if !checkAuth(t, r, Case{Kind: "adapter-auth", Stream: s, Chunk: ChunkSpec{Name: "ones", Sizes: onesN(len(s))}, User: user, Pass: pass}) {
					return
				}
			}
		}
	}
}

func onesN(n int) []int {
	out := make([]int, n)
	for i := range out {
		out[i] = 1
	}
	return out
}

// TestAdapterAuthRandom: drawn credential lengths, right/wrong credentials, request shapes and chunk lists.
func TestAdapterAuthRandom(t *testing.T) {
	vkit.Check(t, 320, 8000, func(t *rapid.T) {
		lenGen := rapid.OneOf(rapid.SampledFrom([]int{1, 2, 254, 255}), rapid.IntRange(1, 255), rapid.IntRange(1, 12))
		user := credBytes(lenGen.Draw(t, "ulen"), rapid.IntRange(0, 1<<20).Draw(t, "useed"))
		pass := credBytes(lenGen.Draw(t, "plen"), rapid.IntRange(0, 1<<20).Draw(t, "pseed"))
		su, sp := user, pass
		switch rapid.IntRange(0, 5).Draw(t, "credentials") {
		case 0:
			sp = append(append([]byte(nil), pass...), 'x')[:minInt(len(pass)+1, 255)]
			if bytes.Equal(sp, pass) {
				sp = pass[:len(pass)-1]
				if len(sp) == 0 {
					sp = []byte{'y'}
				}
			}
		case 1:
			su = credBytes(lenGen.Draw(t, "otherUlen"), 7)
		}
		greet := rapid.SampledFrom([][]byte{{5, 1, 2}, {5, 2, 0, 2}, {5, 3, 2, 1, 0}}).Draw(t, "greeting")
		cmd := rapid.SampledFrom([]byte{1, 1, 1, 2, 3, 9}).Draw(t, "cmd")
		atyp := rapid.SampledFrom([]byte{1, 3, 4, 3, 9}).Draw(t, "atyp")
		req := request(5, cmd, 0, atyp, rapid.IntRange(1, 255).Draw(t, "dlen"), rapid.IntRange(0, 1000).Draw(t, "rseed"))
		s := append(append(append([]byte(nil), greet...), authMsg(su, sp)...), req...)
		if rapid.IntRange(0, 9).Draw(t, "truncate") == 0 {
			s = s[:rapid.IntRange(len(greet), len(s)).Draw(t, "cut")]
		}
		cs := ChunkSpec{Name: "drawn"}
		switch rapid.IntRange(0, 3).Draw(t, "chunking") {
		case 0:
			cs.Name = "one-write"
		case 1:
			cs.Sizes = []int{len(greet), rapid.IntRange(1, len(s)).Draw(t, "k")}
		default:
			cs.Sizes = rapid.SliceOfN(rapid.IntRange(1, 300), 1, 6).Draw(t, "sizes")
		}
		r, err := newAuthRig(user, pass)
		if err != nil {
			t.Fatalf("INCONCLUSIVE: %v", err)
		}
		defer r.close()
		checkAuth(t, r, Case{Kind: "adapter-auth", Stream: s, Chunk: cs, User: user, Pass: pass})
	})
}

func replayAuth(t *testing.T, c Case) {
	r, err := newAuthRig(c.User, c.Pass)
	if err != nil {
		t.Fatalf("INCONCLUSIVE: %v", err)
	}
	defer r.close()
	checkAuth(t, r, c)
}
