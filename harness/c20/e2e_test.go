package c20

// Black-box routes through the real sockets: the UDP relay (readLoop -> handlePacket -> tunnel and
// tunnel -> buildUDPHeader -> application), the real listener (accept -> handleConnection), and the
// server-side legacy SOCKS adapter (Listen/Accept -> handleSocksConnection). They need no export shim.

import (
	"bytes"
	"context"
	"errors"
	"fmt"
	"io"
	"net"
	"sync"
	"testing"
	"time"

	"tunnox-core/internal/client/socks5"
	"tunnox-core/internal/protocol/adapter"
	"tunnox-core/verif/vkit"
)

const e2eWait = 2 * time.Second

// ---------------------------------------------------------------------------
// UDP relay over loopback

type sentPkt struct {
	host    string
	port    int
	payload []byte
	tun     *fakeTunnel
}

type fakeTunnel struct {
	host   string
	port   int
	sent   chan sentPkt
	in     chan []byte
	closed chan struct{}
	once   sync.Once
}

func (f *fakeTunnel) SendPacket(data []byte) error {
	select {
	case f.sent <- sentPkt{f.host, f.port, append([]byte(nil), data...), f}:
	default:
	}
	return nil
}
func (f *fakeTunnel) ReceivePacket() ([]byte, error) {
	select {
	case d := <-f.in:
		return d, nil
	case <-f.closed:
		return nil, io.EOF
	}
}
func (f *fakeTunnel) Close() error { f.once.Do(func() { close(f.closed) }); return nil }

type fakeUDPCreator struct{ sent chan sentPkt }

func (c *fakeUDPCreator) CreateUDPTunnel(mappingID string, targetClientID int64, targetHost string, targetPort int, secretKey string) (socks5.UDPTunnelConn, error) {
	return &fakeTunnel{host: targetHost, port: targetPort, sent: c.sent, in: make(chan []byte, 4), closed: make(chan struct{})}, nil
}

type relayRig struct {
	relay   *socks5.UDPRelay
	near    *vkit.BufConn
	client  *net.UDPConn
	creator *fakeUDPCreator
	used    int
}

func newRelayRig() (*relayRig, error) {
	near, far := vkit.NewBufConnPair("127.0.0.1:40001", "127.0.0.1:1080")
	cr := &fakeUDPCreator{sent: make(chan sentPkt, 64)}
	r, err := socks5.NewUDPRelay(context.Background(), far, &socks5.UDPRelayConfig{MappingID: "c20", TargetClientID: 2, BindAddr: "127.0.0.1:0"}, cr)
	if err != nil {
		return nil, err
	}
	cl, err := net.DialUDP("udp", nil, r.GetBindAddr())
	if err != nil {
		r.Close()
		return nil, err
	}
	return &relayRig{relay: r, near: near, client: cl, creator: cr}, nil
}

func (g *relayRig) close() {
	g.client.Close()
	g.near.Close()
	g.relay.Close()
}

// e2eUDP sends one RFC-valid datagram to the relay and expects it at the tunnel, then sends a reply
// payload back through the tunnel and expects a well-formed datagram with the same source at the application.
func e2eUDP(g *relayRig, d []byte) (f *failure, retried bool) {
	const p = "C20/udp-relay-e2e"
	ref := refParseUDP(d)
	if !ref.OK || ref.Lenient {
		return nil, false
	}
	var got sentPkt
	arrived := false
	for attempt := 0; attempt < 3 && !arrived; attempt++ {
		if attempt > 0 {
			retried = true
		}
		if _, err := g.client.Write(d); err != nil {
			return &failure{p + "/harness-send-failed", err.Error()}, true
		}
		select {
		case got = <-g.creator.sent:
			arrived = true
		case <-time.After(e2eWait):
		}
	}
	if !arrived {
		if ref.Atyp == rDomain && len(d) < 10 {
			return &failure{"C20/udp-parse/wellformed-rejected/domain-datagram-shorter-than-10", fmt.Sprintf("datagram % x (dst=%q port=%d, %d payload octets) sent 3 times to the real relay socket was never forwarded to the tunnel", d, ref.Addr, ref.Port, len(d)-ref.HdrLen)}, true
		}
		return &failure{fmt.Sprintf("%s/wellformed-datagram-not-forwarded/atyp=%d", p, ref.Atyp), fmt.Sprintf("datagram of %d octets (dst=%q port=%d) sent 3 times was never forwarded to the tunnel", len(d), destString(ref.Atyp, ref.Addr), ref.Port)}, true
	}
	if !hostMatches(ref.Atyp, ref.Addr, got.host) {
		return &failure{fmt.Sprintf("%s/host-mismatch/atyp=%d", p, ref.Atyp), fmt.Sprintf("tunnel opened to %q, datagram says %q", got.host, destString(ref.Atyp, ref.Addr))}, retried
	}
	if got.port != ref.Port {
		return &failure{p + "/port-mismatch", fmt.Sprintf("tunnel opened to port %d, datagram says %d", got.port, ref.Port)}, retried
	}
	if !bytes.Equal(got.payload, d[ref.HdrLen:]) {
		return &failure{p + "/payload-mismatch", fmt.Sprintf("tunnel got %d payload octets, datagram carries %d", len(got.payload), len(d)-ref.HdrLen)}, retried
	}
	// reply path
	reply := fill(len(got.payload)%7+len(d)%5, len(d))
	got.tun.in <- reply
	buf := make([]byte, 65536)
	g.client.SetReadDeadline(time.Now().Add(e2eWait * 3))
	n, err := g.client.Read(buf)
	if err != nil {
		return &failure{p + "/reply-not-delivered", fmt.Sprintf("reply of %d octets from %q:%d never reached the application: %v", len(reply), got.host, got.port, err)}, true
	}
	r2 := refParseUDP(buf[:n])
	if !r2.OK || buf[0] != 0 || buf[1] != 0 {
		return &failure{p + "/reply-header-malformed", fmt.Sprintf("application received % x: %s", buf[:minInt(n, 24)], r2.Reason)}, retried
	}
	if !sameDest(destString(r2.Atyp, r2.Addr), destString(ref.Atyp, ref.Addr)) || r2.Port != ref.Port {
		return &failure{p + "/reply-source-differs", fmt.Sprintf("reply from %q:%d arrived marked %q:%d", destString(ref.Atyp, ref.Addr), ref.Port, destString(r2.Atyp, r2.Addr), r2.Port)}, retried
	}
	if !bytes.Equal(buf[r2.HdrLen:n], reply) {
		return &failure{p + "/reply-payload-differs", fmt.Sprintf("reply payload %d octets arrived as %d", len(reply), n-r2.HdrLen)}, retried
	}
	return nil, retried
}

func e2eDatagrams() [][]byte {
	var out [][]byte
	i := 0
	add := func(atyp byte, addr []byte, pl int) {
		i++
		port := 1024 + i // never 53 (DNS interception) and distinct per case
		out = append(out, refBuildUDP(atyp, addr, port, fill(pl, i)))
	}
	for _, pl := range []int{0, 1, 2, 1400} {
		add(rIPv4, fill(4, i), pl)
		add(rIPv6, fill(16, i), pl)
		for _, n := range []int{1, 2, 3, 4, 5, 63, 254, 255} {
			name := fill(n, i)
			for k := range name {
				name[k] = "abcdefghijklmnopqrstuvwxyz0123456789-"[int(name[k])%37]
			}
			add(rDomain, name, pl)
		}
		add(rDomain, []byte("1.2.3.4"), pl)
		add(rDomain, []byte("::ffff:9.8.7.6"), pl)
		add(rDomain, []byte{0, 0xFF, ':', '%', ' '}, pl)
	}
	add(rIPv4, []byte{8, 8, 8, 8}, 60000)
	// destinations the relay knows by name: the virtual DNS address, on the ordinary session path
	// (any port; port 53 too, since this relay has no DNS handler) must be relayed to as written
	for _, pl := range []int{0, 12, 600} {
		add(rIPv4, []byte{10, 0, 0, 1}, pl)
		add(rDomain, []byte("10.0.0.1"), pl)
		add(rIPv6, []byte{0, 0, 0, 0, 0, 0, 0, 0, 0, 0, 0xFF, 0xFF, 10, 0, 0, 1}, pl)
		add(rIPv4, []byte{119, 29, 29, 29}, pl)
		out = append(out, refBuildUDP(rIPv4, []byte{10, 0, 0, 1}, 53, fill(pl+1, 53)))
		out = append(out, refBuildUDP(rIPv4, []byte{9, 9, 9, 9}, 53, fill(pl+1, 54)))
	}
	return out
}

func TestUDPRelayLoopback(t *testing.T) {
	ds := e2eDatagrams()
	var g *relayRig
	defer func() {
		if g != nil {
			g.close()
		}
	}()
	for i, d := range ds {
		if !vkit.Mine(i) {
			continue
		}
		if g == nil || g.used >= 60 {
			if g != nil {
				g.close()
			}
			var err error
			if g, err = newRelayRig(); err != nil {
				t.Fatalf("INCONCLUSIVE: cannot start a UDP relay on loopback: %v", err)
			}
		}
		g.used++
		f, retried := e2eUDP(g, d)
		if retried { // stale duplicates may be queued: start the next case on a fresh relay
			g.close()
			g = nil
		}
		c := Case{Kind: "udp-e2e", Stream: d}
		if f != nil {
			vkit.Violation(t, f.key, f.detail, c)
			vkit.Case("known:"+f.key, false, "")
			continue
		}
		ref := refParseUDP(d)
		cl := fmt.Sprintf("udp-e2e:forwarded+reply/atyp=%d", ref.Atyp)
		if len(d) < 10 {
			cl += "/shorter-than-10"
		}
		vkit.Case(cl, ref.Atyp != rIPv4, fmt.Sprintf("e|%d|%d|%d", ref.Atyp, len(ref.Addr), len(d)))
	}
}

func replayE2E(t *testing.T, c Case) {
	g, err := newRelayRig()
	if err != nil {
		t.Fatalf("INCONCLUSIVE: %v", err)
	}
	defer g.close()
	if f, _ := e2eUDP(g, c.Stream); f != nil {
		vkit.Violation(t, f.key, f.detail, c)
	}
}

// ---------------------------------------------------------------------------
// the real listener over loopback TCP

type tunnelCall struct {
	host     string
	port     int
	trailing []byte
}

type fakeTunnelCreator struct{ calls chan tunnelCall }

func (c *fakeTunnelCreator) CreateSOCKS5Tunnel(userConn net.Conn, mappingID string, targetClientID int64, targetHost string, targetPort int, secretKey string, onSuccess func()) error {
	if onSuccess != nil {
		onSuccess()
	}
	userConn.SetReadDeadline(time.Now().Add(5 * time.Second))
	rest, _ := io.ReadAll(userConn)
	userConn.Close()
	c.calls <- tunnelCall{targetHost, targetPort, rest}
	return nil
}

type tcpRig struct {
	ln      *socks5.Listener
	creator *fakeTunnelCreator
}

func newTCPRig() (*tcpRig, error) {
	cr := &fakeTunnelCreator{calls: make(chan tunnelCall, 4)}
	l := socks5.NewListener(context.Background(), &socks5.ListenerConfig{ListenAddr: "127.0.0.1:0", MappingID: "c20", TargetClientID: 2}, cr)
	if err := l.Start(); err != nil {
		return nil, err
	}
	return &tcpRig{l, cr}, nil
}

// exchange sends stream over a real TCP connection (sequential: the request is sent after the method
// selection arrived, as RFC 1928 describes the dialogue; otherwise everything in one write), half-closes,
// and returns everything the server wrote.
func exchange(addr string, stream []byte, greetLen int, sequential bool) ([]byte, error) {
	conn, err := net.DialTimeout("tcp", addr, 5*time.Second)
	if err != nil {
		return nil, err
	}
	defer conn.Close()
	conn.SetDeadline(time.Now().Add(20 * time.Second))
	var got []byte
	if sequential && greetLen > 0 && greetLen < len(stream) {
		if _, err := conn.Write(stream[:greetLen]); err != nil {
			return nil, err
		}
		sel := make([]byte, 2)
		n, err := io.ReadFull(conn, sel)
		got = append(got, sel[:n]...)
		if err != nil {
			return got, nil // the server closed instead of selecting a method
		}
		stream = stream[greetLen:]
	}
	if _, err := conn.Write(stream); err != nil && len(got) == 0 {
		return nil, err
	}
	conn.(*net.TCPConn).CloseWrite()
	rest, err := io.ReadAll(conn)
	got = append(got, rest...)
	if err != nil && !errors.Is(err, io.EOF) {
		var ne net.Error
		if errors.As(err, &ne) && ne.Timeout() {
			return got, fmt.Errorf("server kept the connection open for 20 s after the application half-closed")
		}
		// a reset after the server closed with unread input is an ordinary way for the dialogue to end
	}
	return got, nil
}

// e2eListener: a verdict that rests on what a real socket delivered is confirmed by two more exchanges.
func e2eListener(g *tcpRig, stream []byte, sequential bool) (f *failure) {
	for attempt := 0; attempt < 3; attempt++ {
		if f = e2eListenerOnce(g, stream, sequential); f == nil {
			return nil
		}
	}
	return f
}

func e2eListenerOnce(g *tcpRig, stream []byte, sequential bool) *failure {
	const p = "C20/listener-e2e"
	ref := refNegotiate(stream)
	greetLen := 0
	if len(stream) >= 2 && len(stream) >= 2+int(stream[1]) {
		greetLen = 2 + int(stream[1])
	}
	w, err := exchange(g.ln.GetListenAddr(), stream, greetLen, sequential)
	if err != nil {
		return &failure{p + "/harness-io", err.Error()}
	}
	if ref.OK && !ref.Lenient && ref.Cmd == rCmdConnect {
		select {
		case call := <-g.creator.calls:
			if !hostMatches(ref.Atyp, ref.Addr, call.host) || call.port != ref.Port {
				return &failure{fmt.Sprintf("%s/destination-mismatch/atyp=%d", p, ref.Atyp), fmt.Sprintf("tunnel requested to %q:%d, request says %q:%d", call.host, call.port, destString(ref.Atyp, ref.Addr), ref.Port)}
			}
			if !bytes.Equal(call.trailing, stream[ref.Consumed:]) {
				return &failure{p + "/trailing-bytes-not-left-intact", fmt.Sprintf("%d octets followed the request, the tunnel side found %d (% x)", len(stream)-ref.Consumed, len(call.trailing), call.trailing)}
			}
		case <-time.After(e2eWait * 3):
			return &failure{fmt.Sprintf("%s/wellformed-connect-not-served/atyp=%d", p, ref.Atyp), fmt.Sprintf("CONNECT %q:%d never reached the tunnel creator; server wrote % x", destString(ref.Atyp, ref.Addr), ref.Port, w)}
		}
		if err := checkWritten(w, [][]byte{selNoAuth}, []byte{0}, true); err != nil {
			return &failure{p + "/reply-mismatch/accepted", fmt.Sprintf("wrote % x: %v", w, err)}
		}
		return nil
	}
	select {
	case call := <-g.creator.calls:
		if !ref.OK {
			return &failure{p + "/malformed-accepted/" + ref.Reason, fmt.Sprintf("tunnel requested to %q:%d", call.host, call.port)}
		}
	default:
	}
	if ref.OK {
		// BIND / UDP ASSOCIATE without a relay creator / RFC-open shapes: some reply must follow the selection
		reps := []byte{0, 1, 7}
		reps = append(reps, ref.Reps...)
		if err := checkWritten(w, [][]byte{selNoAuth}, reps, ref.Cmd != rCmdConnect); err != nil {
			return &failure{p + "/reply-mismatch/unsupported-command", fmt.Sprintf("cmd=%d: wrote % x: %v", ref.Cmd, w, err)}
		}
		return nil
	}
	if err := checkWritten(w, ref.Sel, ref.Reps, ref.ReplyRequired); err != nil {
		return &failure{p + "/reply-mismatch/" + ref.Reason, fmt.Sprintf("wrote % x: %v", w, err)}
	}
	return nil
}

func e2eStreams() [][]byte {
	var out [][]byte
	g := greeting(5, 2, true, true)
	trailing := []byte("GET / HTTP/1.0\r\n\r\n")
	i := 0
	mk := func(gr, req []byte, tr []byte, cut int) {
		s := append(append(append([]byte(nil), gr...), req...), tr...)
		if cut >= 0 && cut < len(s) {
			s = s[:cut]
		}
		out = append(out, s)
	}
	for _, atyp := range []byte{1, 3, 4} {
		for _, dlen := range []int{1, 2, 255} {
			if atyp != 3 && dlen != 1 {
				continue
			}
			i++
			mk(g, request(5, 1, 0, atyp, dlen, 3*i), nil, -1)
			mk(g, request(5, 1, 0, atyp, dlen, 3*i), trailing, -1)
			mk(g, request(5, 2, 0, atyp, dlen, 3*i), nil, -1)
			mk(g, request(5, 3, 0, atyp, dlen, 3*i), nil, -1)
			mk(g, request(5, 1, 0, atyp, dlen, 3*i), nil, len(g)+6) // cut inside the address
		}
	}
	mk(greeting(5, 255, true, true), request(5, 1, 0, 3, 40, 3), trailing, -1)
	mk(g, request(5, 9, 0, 1, 0, 1), nil, -1)
	mk(g, request(5, 1, 0, 9, 0, 1), nil, -1)
	mk(g, request(4, 1, 0, 1, 0, 1), nil, -1)
	mk(greeting(5, 2, false, false), request(5, 1, 0, 1, 0, 1), nil, -1)
	mk(greeting(4, 1, true, false), nil, nil, -1)
	mk([]byte{5, 0}, nil, nil, -1)
	mk(g, nil, nil, -1)
	mk(g, nil, nil, 3)
	return out
}

func TestListenerLoopback(t *testing.T) {
	g, err := newTCPRig()
	if err != nil {
		t.Fatalf("INCONCLUSIVE: cannot start the SOCKS5 listener on loopback: %v", err)
	}
	defer g.ln.Close()
	n := 0
	for i, s := range e2eStreams() {
		for _, seq := range []bool{true, false} {
			n++
			if !vkit.Mine(n) {
				continue
			}
			c := Case{Kind: "listener-e2e", Stream: s, Chunk: ChunkSpec{Name: map[bool]string{true: "sequential", false: "pipelined"}[seq]}}
			if f := e2eListener(g, s, seq); f != nil {
				vkit.Violation(t, f.key, f.detail, c)
				vkit.Case("known:"+f.key, false, "")
				continue
			}
			ref := refNegotiate(s)
			class, nt := negClass(ref)
			vkit.Case("listener-e2e:"+c.Chunk.Name+"/"+class, nt, fmt.Sprintf("l|%d|%v", i, seq))
		}
	}
}

func replayListenerE2E(t *testing.T, c Case) {
	g, err := newTCPRig()
	if err != nil {
		t.Fatalf("INCONCLUSIVE: %v", err)
	}
	defer g.ln.Close()
	if f := e2eListener(g, c.Stream, c.Chunk.Name == "sequential"); f != nil {
		vkit.Violation(t, f.key, f.detail, c)
	}
}

// ---------------------------------------------------------------------------
// server-side legacy SOCKS adapter (internal/protocol/adapter/socks_*.go). Its only exported route is
// Listen/Accept over a real TCP socket; with no session attached it answers a parsed CONNECT with a
// general-failure reply and never dials, so accept/reject and the reply codes are observable (the parsed
// destination is not).

type adapterRig struct {
	a    *adapter.SocksAdapter
	addr string
}

var (
	adOnce sync.Once
	adRig  *adapterRig
	adErr  error
)

func getAdapterRig() (*adapterRig, error) {
	adOnce.Do(func() {
		// the adapter does not expose the port it bound: pick a free one first (retry if it is taken in between)
		for attempt := 0; attempt < 5; attempt++ {
			probe, err := net.Listen("tcp", "127.0.0.1:0")
			if err != nil {
				adErr = err
				continue
			}
			addr := probe.Addr().String()
			probe.Close()
			a := adapter.NewSocksAdapter(context.Background(), nil, nil)
			if err := a.ListenFrom(addr); err != nil {
				adErr = err
				continue
			}
			adRig, adErr = &adapterRig{a, addr}, nil
			return
		}
	})
	return adRig, adErr
}

func judgeAdapter(stream []byte, sequential bool) (f *failure) {
	for attempt := 0; attempt < 3; attempt++ {
		if f = judgeAdapterOnce(stream, sequential); f == nil {
			return nil
		}
	}
	return f
}

func judgeAdapterOnce(stream []byte, sequential bool) *failure {
	const p = "C20/adapter"
	g, err := getAdapterRig()
	if err != nil {
		return &failure{p + "/harness-io", err.Error()}
	}
	ref := refNegotiate(stream)
	greetLen := 0
	if len(stream) >= 2 && len(stream) >= 2+int(stream[1]) {
		greetLen = 2 + int(stream[1])
	}
	w, err := exchange(g.addr, stream, greetLen, sequential)
	if err != nil {
		return &failure{p + "/harness-io", err.Error()}
	}
	if ref.OK {
		// CONNECT parsed -> general failure (no session); BIND / UDP ASSOCIATE -> command not supported
		reps := []byte{1}
		if ref.Cmd != rCmdConnect {
			reps = []byte{7}
		}
		if ref.Lenient {
			reps = append(reps, ref.Reps...)
		}
		if err := checkWritten(w, [][]byte{selNoAuth}, reps, !ref.Lenient); err != nil {
			if !sequential {
				if w2, e2 := exchange(g.addr, stream, greetLen, true); e2 == nil && checkWritten(w2, [][]byte{selNoAuth}, reps, !ref.Lenient) == nil {
					return &failure{p + "/greeting-read-swallows-following-octets", fmt.Sprintf("greeting and request delivered together: server wrote % x and gave up (%v); the same octets are served when the request is sent after the method selection", w, err)}
				}
			}
			return &failure{fmt.Sprintf("%s/wellformed-request-not-answered/atyp=%d/cmd=%d", p, ref.Atyp, ref.Cmd), fmt.Sprintf("wrote % x: %v", w, err)}
		}
		return nil
	}
	reps := append([]byte(nil), ref.Reps...)
	required := ref.ReplyRequired
	if ref.Cmd == rCmdBind || ref.Cmd == rCmdUDP {
		reps = append(reps, 7) // this adapter serves CONNECT only: 07 is appropriate as soon as CMD has been read
	}
	if err := checkWritten(w, ref.Sel, reps, required); err != nil {
		if !sequential {
			if w2, e2 := exchange(g.addr, stream, greetLen, true); e2 == nil && checkWritten(w2, ref.Sel, reps, required) == nil {
				return &failure{p + "/greeting-read-swallows-following-octets", fmt.Sprintf("greeting and request delivered together: server wrote % x (%v); answered correctly when the request is sent after the method selection", w, err)}
			}
		}
		return &failure{p + "/reply-mismatch/" + ref.Reason, fmt.Sprintf("wrote % x: %v", w, err)}
	}
	// a malformed request answered as if it had been parsed (general failure after a complete parse is
	// indistinguishable from the reply to a request-version error, so only flag REP=01 when 01 is not acceptable: done above)
	return nil
}

func checkAdapterCase(t vkit.TB, c Case) bool {
	seq := c.Chunk.Name == "sequential"
	vkit.Journal("adapter", c) // a panic in the adapter's connection goroutine kills the process
	if f := judgeAdapter(c.Stream, seq); f != nil {
		vkit.Violation(t, f.key, f.detail, c)
		vkit.Case("known:"+f.key, false, "")
		return false
	}
	ref := refNegotiate(c.Stream)
	class, nt := negClass(ref)
	vkit.Case("adapter:"+c.Chunk.Name+"/"+class, nt, "a|"+negSig(ref, len(c.Stream))+fmt.Sprint(seq))
	return true
}

func TestLegacyAdapterLoopback(t *testing.T) {
	if _, err := getAdapterRig(); err != nil {
		t.Fatalf("INCONCLUSIVE: cannot start the SOCKS adapter on loopback: %v", err)
	}
	n := 0
	var streams [][]byte
	streams = append(streams, e2eStreams()...)
	// a slice of the request product
	g := greeting(5, 1, true, false)
	for _, ver2 := range []byte{5, 4} {
		for _, cmd := range []byte{0, 1, 2, 3, 255} {
			for _, atyp := range []byte{0, 1, 3, 4, 5} {
				for _, dlen := range []int{0, 1, 2, 63, 254, 255} {
					if atyp != 3 && dlen != 1 {
						continue
					}
					n++
					req := request(ver2, cmd, 0, atyp, dlen, n)
					s := append(append([]byte(nil), g...), req...)
					streams = append(streams, s)
					if ver2 == 5 && cmd == 1 {
						for _, cut := range []int{len(g) + 2, len(g) + 5, len(s) - 1} {
							streams = append(streams, s[:cut])
						}
					}
				}
			}
		}
	}
	for _, name := range []string{"", ".", "..", "a.", "example.com.", "127.0.0.1.", "a..", string([]byte{0}), string([]byte{'.', 0})} {
		req := append([]byte{5, 1, 0, 3, byte(len(name))}, name...)
		streams = append(streams, append(append([]byte(nil), g...), append(req, 0x1F, 0x90)...))
	}
	n = 0
	for _, s := range streams {
		for _, seq := range []string{"sequential", "pipelined"} {
			n++
			if !vkit.Mine(n) {
				continue
			}
			check(t, Case{Kind: "adapter", Stream: s, Chunk: ChunkSpec{Name: seq}})
		}
	}
}
